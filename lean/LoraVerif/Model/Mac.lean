import LoraVerif.Model.Region
import LoraVerif.Gen.Session
/-!
# Model of `lorawan-device/src/mac/{mod,session,otaa,uplink}.rs`

One step function `Mac.step` over events; received frames arrive as the *decoded view* the
reference codec yields for the byte string (`RxView`) — the byte-level codec is the subject of
C01/C02/C03 — and uplinks leave as frame *descriptions* (`UplinkDesc`).  Panics are values.
Tied to the code by the correspondence harness through the `verif` hook (`VerifMac`) and through
both device front-ends.
-/
open Gen.Region Gen.Modulation

namespace Model

/-! ## state -/

structure Config where
  dataRate : Nat
  rx1Delay : Nat
  txPower : Option Nat
  rx1DrOffset : Nat
  rx2DataRate : Option Nat
  rx2Frequency : Option Nat
  adrEnabled : Bool
  deriving DecidableEq, Repr

structure Session where
  /-- pending MAC answers (`uplink.pending`, at most 15 bytes) -/
  pending : List Nat
  /-- `uplink.confirmed`: an ACK is owed for an accepted confirmed downlink -/
  ackOwed : Bool
  /-- `session.confirmed`: the last uplink was confirmed -/
  confirmed : Bool
  devAddr : Nat
  fcntUp : Nat
  fcntDown : Option Nat
  adrAckCnt : Nat
  /-- opaque key identities (the crypto itself is C01/C02/C11 territory) -/
  nwkKey : Nat
  appKey : Nat
  deriving DecidableEq, Repr

structure OtaaState where
  devNonce : Nat
  deriving DecidableEq, Repr

inductive JoinState where
  | unjoined
  | otaa (o : OtaaState)
  | joined (s : Session)
  deriving DecidableEq, Repr

structure MacState where
  cfg : Config
  region : RegionState
  maxPower : Nat           -- R::MAX_RADIO_POWER (u8)
  antennaGain : Int        -- R::ANTENNA_GAIN (i8)
  st : JoinState
  deriving DecidableEq, Repr

def Session.new (devAddr nwk app : Nat) : Session :=
  { pending := [], ackOwed := false, confirmed := false, devAddr := devAddr, fcntUp := 0,
    fcntDown := none, adrAckCnt := 0, nwkKey := nwk, appKey := app }

def MacState.init (r : RegionState) (maxPower : Nat) (gain : Int) : MacState :=
  { cfg := { dataRate := 0, rx1Delay := Gen.Session.RECEIVE_DELAY1.toNat, txPower := none, rx1DrOffset := 0,
             rx2DataRate := none, rx2Frequency := none, adrEnabled := true },
    region := r, maxPower := maxPower, antennaGain := gain, st := .unjoined }

/-! ## outputs -/

structure RfConfig where
  frequency : Nat
  sf : Int
  bwHz : Int
  maxPayload : Int
  deriving DecidableEq, Repr

structure TxOut where
  pw : Int
  rf : RfConfig
  rx1 : RfConfig
  rx2 : RfConfig
  deriving DecidableEq, Repr

structure UplinkDesc where
  confirmed : Bool
  devAddr : Nat
  adr : Bool
  adrAckReq : Bool
  ack : Bool
  fcnt : Nat
  fopts : List Nat
  fport : Nat
  payload : List Nat       -- plaintext FRMPayload (for port 0: the MAC commands)
  deriving DecidableEq, Repr

inductive Response where
  | noAck | sessionExpired | downlinkReceived (fcnt : Nat) | noJoinAccept | joinSuccess | noUpdate | rxComplete
  deriving DecidableEq, Repr

/-! ## received frames, as decoded by the reference codec -/

/-- a byte string that parses as a DOWNLINK data frame (`EncryptedDataPayload::parse` succeeds and the MType is
UnconfirmedDataDown / ConfirmedDataDown, i.e. `!is_uplink()`).  A frame with an uplink MType (the device's own uplink
echoed back, another device's uplink) is not a frame for an end-device, whatever its MIC: its view is `RxView.garbage`
(`Session::handle_rx` returns `NoUpdate` for it before any other test; tie A: `C05.tieA_handle_rx_uplink_typed`).
Builder Y — a downlink frame ADDRESSED TO ANOTHER DEVICE (its FHDR DevAddr is not the session's) is never authentic for
this device, whatever key its MIC was computed with: the reference codec gives it `micFcnt = none` (so that its length
stays visible to the size test, which comes first in the code too), and a frame that fits is then `NoUpdate` exactly like
`RxView.garbage` (tie A: `C05.tieA_handle_rx_other_devaddr`; no semantic change of the model) -/
structure RxData where
  /-- length of the whole PHY payload -/
  len : Nat
  confirmed : Bool
  fcnt16 : Nat
  /-- the 32-bit counter under which the frame's MIC verifies with the session's NwkSKey
  (`none`: it verifies under no counter — forged, other session, corrupted, or addressed to another DevAddr) -/
  micFcnt : Option Nat
  fopts : List Nat
  fport : Option Nat
  /-- decrypted FRMPayload -/
  payload : List Nat
  deriving DecidableEq, Repr

/-- a byte string that the JoinAccept parser accepts structurally; `micOk` under the device's AppKey -/
structure RxJoinAccept where
  micOk : Bool
  devAddr : Nat
  dlSettings : Nat
  rxDelay : Nat
  cfList : Option CfList
  /-- identities of the derived keys (derivation itself: C11 oracle) -/
  nwkKey : Nat
  appKey : Nat
  deriving DecidableEq, Repr

inductive RxView where
  | garbage                      -- neither parser accepts it, or a data frame with an uplink MType
  | data (d : RxData)
  | joinAccept (j : RxJoinAccept)
  deriving DecidableEq, Repr

/-! ## uplink MAC answer queue (`uplink/mod.rs`) -/

/-- `add_mac_command`: greedy — appended iff the whole command still fits 15 bytes -/
def addMacCommand (pending : List Nat) (cid : Nat) (payload : List Nat) : List Nat :=
  if pending.length + payload.length < 15 then pending ++ cid :: payload else pending

/-- payload length of an uplink MAC command (Gen table `UplinkMacCommand`), `none` = unknown CID -/
def uplinkCmdLen : Nat → Option Nat
  | 0x02 => some 0 | 0x03 => some 1 | 0x04 => some 0 | 0x05 => some 1 | 0x06 => some 2
  | 0x07 => some 1 | 0x08 => some 0 | 0x09 => some 0 | 0x0A => some 1 | 0x0D => some 0
  | _ => none

/-- the answers that are repeated until the next Class A downlink -/
def isSticky (cid : Nat) : Bool := cid == 0x05 || cid == 0x08 || cid == 0x0A

/-- `clear_mac_commands(true)`: keep exactly the sticky answers (RXParamSetupAns 0x05,
RXTimingSetupAns 0x08, DlChannelAns 0x0A) of the well-formed prefix -/
def retainSticky : Nat → List Nat → List Nat
  | 0, _ => []
  | _, [] => []
  | fuel + 1, cid :: rest =>
    match uplinkCmdLen cid with
    | none => []
    | some n =>
      if rest.length < n then []
      else
        (if isSticky cid then cid :: rest.take n else []) ++ retainSticky fuel (rest.drop n)

/-! ## downlink MAC commands (`maccommands.rs` iterator + `handle_downlink_macs`) -/

def downlinkCmdLen : Nat → Option Nat
  | 0x02 => some 2 | 0x03 => some 4 | 0x04 => some 1 | 0x05 => some 4 | 0x06 => some 0
  | 0x07 => some 5 | 0x08 => some 1 | 0x09 => some 1 | 0x0A => some 4 | 0x0D => some 5
  | _ => none

/-- the well-formed prefix of a downlink MAC command stream, as (cid, payload) pairs -/
def parseDownlinkCmds : Nat → List Nat → List (Nat × List Nat)
  | 0, _ => []
  | _, [] => []
  | fuel + 1, cid :: rest =>
    match downlinkCmdLen cid with
    | none => []
    | some n => if rest.length < n then [] else (cid, rest.take n) :: parseDownlinkCmds fuel (rest.drop n)

def byteAt (l : List Nat) (i : Nat) : M Nat :=
  match l[i]? with
  | some b => .ok b
  | none => panic "payload index"

def freq24 (l : List Nat) (i : Nat) : M Nat := do
  pure (((← byteAt l (i + 2)) * 65536 + (← byteAt l (i + 1)) * 256 + (← byteAt l i)) * 100)

/-- `del_to_delay_ms` (generated) -/
def delToDelayMs (del : Nat) : M Nat := do
  let v ← ofGen "del_to_delay_ms" (Gen.Session.del_to_delay_ms del)
  pure v.toNat

/-- 6-bit two's complement margin of DevStatusAns: `set_margin(snr)` refuses values outside −32..31 -/
def devStatusMargin (snr : Int) : Nat :=
  if -32 ≤ snr ∧ snr ≤ 31 then (snr % 64).toNat else 0

/-- Next lower region-supported data rate, if any. -/
def nextLowerDatarate (r : RegionId) (cur : Nat) : Option Nat :=
  ((List.range cur).reverse).find? (fun c => (getDatarate r c).isSome)

structure MacCtx where
  cfg : Config
  region : RegionState
  pending : List Nat
  /-- an answer of this downlink already had to be dropped: drop all later ones too -/
  full : Bool := false
  deriving Repr

/-- `push_answer`: queue an answer unless an earlier one of this downlink did not fit -/
def MacCtx.push (c : MacCtx) (cid : Nat) (payload : List Nat) : MacCtx :=
  if c.full then c
  else if c.pending.length + payload.length < 15 then { c with pending := c.pending ++ cid :: payload }
  else { c with full := true }

/-- DataRate field of a LinkADRReq: 15 keeps the current rate, an undefined rate is refused -/
def linkAdrDr (cfg : Config) (r : RegionId) (drRaw : Nat) : Option Nat :=
  if drRaw == 15 then some cfg.dataRate
  else if isUplinkDatarate r drRaw then some drRaw else none

/-- TXPower field: 15 keeps the current power, an undefined index is refused -/
def linkAdrPw (cfg : Config) (r : RegionId) (pwRaw : Nat) : M (Option (Option Nat)) :=
  if pwRaw == 15 then pure (some cfg.txPower) else do
    match (← txPowerAdjust r pwRaw) with
    | some p => pure (some (some p))
    | none => pure none

def linkAdrCmAck (region : RegionState) (mask : Mask) (rfu : Bool) (dr : Option Nat) : M Bool := do
  let drEnum : Option DR ← (match dr with
    | some d => do pure (some (← drOfNat d))
    | none => pure none)
  if rfu then pure false else channelMaskValidate region mask drEnum

/-- decision of one LinkADRReq block: the answer byte and the state after it.
`mask`/`rfu`: the channel-mask working copy after all commands of the block and whether one of
them carried a ChMaskCntl the region does not define; `drRaw`/`pwRaw`: DataRate_TXPower of the
last command of the block -/
def linkAdrDecide (cfg : Config) (region : RegionState) (mask : Mask) (rfu : Bool) (drRaw pwRaw : Nat) :
    M (Nat × Config × RegionState) := do
  let dr := linkAdrDr cfg region.id drRaw
  let pw ← linkAdrPw cfg region.id pwRaw
  let cmAck ← linkAdrCmAck region mask rfu dr
  let ans := (if cmAck then 1 else 0) + (if dr.isSome then 2 else 0) + (if pw.isSome then 4 else 0)
  match cmAck, dr, pw with
  | true, some d, some p => pure (ans, { cfg with dataRate := d, txPower := p }, channelMaskSet region mask)
  | _, _, _ => pure (ans, cfg, region)

def finishLinkAdrBlock (c : MacCtx) (mask : Mask) (rfu : Bool) (n : Nat) (last : List Nat) : M MacCtx := do
  let b0 ← byteAt last 0
  let (ans, cfg, region) ← linkAdrDecide c.cfg c.region mask rfu (b0 / 16) (b0 % 16)
  pure ((List.range n).foldl (fun c _ => c.push 0x03 [ans]) { c with cfg := cfg, region := region })

/-- RXParamSetupReq: answer byte and configuration after it -/
def rxParamSetup (cfg : Config) (r : RegionId) (dl f : Nat) : Nat × Config :=
  let fAck := frequencyValid r f
  let off := rx1DrOffsetValidate r ((dl / 16) % 8)
  let rx2raw := dl % 16
  let rx2 : Option (Option Nat) := if rx2raw == 15 then some cfg.rx2DataRate
    else if (getDatarate r rx2raw).isSome then some (some rx2raw) else none
  let cfg' := match fAck, rx2, off with
    | true, some r2, some o => { cfg with rx2DataRate := r2, rx2Frequency := some f, rx1DrOffset := o }
    | _, _, _ => cfg
  ((if fAck then 1 else 0) + (if rx2.isSome then 2 else 0) + (if off.isSome then 4 else 0), cfg')

/-- `handle_downlink_macs` over the parsed prefix; the LinkADR block state is threaded explicitly -/
def handleCmds (snr : Int) : List (Nat × List Nat) → MacCtx → Mask → Bool → Nat → M MacCtx
  | [], c, _, _, _ => .ok c
  | (cid, p) :: rest, c, mask, rfu, nAdr =>
    match cid with
    | 0x06 => -- DevStatusReq
      handleCmds snr rest (c.push 0x06 [255, devStatusMargin snr]) mask rfu nAdr
    | 0x0A => do -- DlChannelReq
      if c.region.id.isFixed then handleCmds snr rest c mask rfu nAdr
      else
        let idx ← byteAt p 0
        let f ← freq24 p 1
        let ((ackF, ackC), region) ← channelDlUpdate c.region idx f
        let ans := (if ackF then 1 else 0) + (if ackC then 2 else 0)
        handleCmds snr rest ({ c with region := region }.push 0x0A [ans]) mask rfu nAdr
    | 0x03 => do -- LinkADRReq
      let cntl := ((← byteAt p 3) / 16) % 8
      let upd ← channelMaskUpdate c.region mask cntl (← byteAt p 1) (← byteAt p 2)
      let (mask, rfu) := match upd with
        | some m => (m, rfu)
        | none => (mask, true)
      let nAdr := nAdr + 1
      match rest with
      | (0x03, _) :: _ => handleCmds snr rest c mask rfu nAdr
      | _ => do
        let c ← finishLinkAdrBlock c mask rfu nAdr p
        handleCmds snr rest c (channelMaskGet c.region) false 0
    | 0x07 => do -- NewChannelReq
      if c.region.id.isFixed then handleCmds snr rest c mask rfu nAdr
      else
        let idx ← byteAt p 0
        let f ← freq24 p 1
        let r ← byteAt p 4
        let drr : Option Nat := if r / 16 < r % 16 then none else some r
        let ((ackF, ackD), region) ← handleNewChannel c.region idx f drr
        let ans := (if ackF then 1 else 0) + (if ackD then 2 else 0)
        handleCmds snr rest ({ c with region := region }.push 0x07 [ans]) mask rfu nAdr
    | 0x05 => do -- RXParamSetupReq
      let (ans, cfg) := rxParamSetup c.cfg c.region.id (← byteAt p 0) (← freq24 p 1)
      handleCmds snr rest ({ c with cfg := cfg }.push 0x05 [ans]) mask rfu nAdr
    | 0x08 => do -- RXTimingSetupReq
      let d ← delToDelayMs ((← byteAt p 0) % 16)
      handleCmds snr rest ({ c with cfg := { c.cfg with rx1Delay := d } }.push 0x08 []) mask rfu nAdr
    | _ => handleCmds snr rest c mask rfu nAdr

def handleDownlinkMacs (snr : Int) (bytes : List Nat) (c : MacCtx) : M MacCtx :=
  handleCmds snr (parseDownlinkCmds (bytes.length + 1) bytes) c (channelMaskGet c.region) false 0

/-! ## Session -/

/-- `rx2_complete`: end of the receive procedure without a downlink -/
def rx2Complete (s : Session) (cfg : Config) (r : RegionId) : Response × Session × Config :=
  if s.fcntUp == 0xFFFFFFFF then (.sessionExpired, s, cfg)
  else
    let s := { s with fcntUp := s.fcntUp + 1 }
    let (s, cfg) :=
      if cfg.adrEnabled then
        let cnt := min (s.adrAckCnt + 1) 0xFFFFFFFF
        let s := { s with adrAckCnt := cnt }
        let lim := Gen.Session.ADR_ACK_LIMIT.toNat
        let del := Gen.Session.ADR_ACK_DELAY.toNat
        if cnt ≥ lim + del then
          if (cnt - lim) % del == 0 then
            match nextLowerDatarate r cfg.dataRate with
            | some dr => (s, { cfg with dataRate := dr })
            | none => (s, cfg)
          else (s, cfg)
        else (s, cfg)
      else (s, cfg)
    (if s.confirmed then .noAck else .rxComplete, s, cfg)

/-- `next_fcnt_down` (generated from session.rs) on naturals -/
def nextFcntDown (last : Option Nat) (wire : Nat) : Option Nat :=
  (Gen.Session.next_fcnt_down (last.map Int.ofNat) wire).map Int.toNat

structure RxOut where
  resp : Response
  downlink : Option (Nat × List Nat)    -- (fport, data) delivered to the application
  deriving DecidableEq, Repr

/-- `Session::handle_rx` for a frame the parser accepted as a data frame -/
def sessionHandleRx (s : Session) (cfg : Config) (region : RegionState) (d : RxData) (maxPayload : Nat) (snr : Int)
    (ignoreMac : Bool) : M (RxOut × Session × Config × RegionState) :=
  if d.len > maxPayload + 5 then
    if ignoreMac then pure ({ resp := .noUpdate, downlink := none }, s, cfg, region)
    else
      let (r, s, cfg) := rx2Complete s cfg region.id
      pure ({ resp := r, downlink := none }, s, cfg, region)
  else
    match nextFcntDown s.fcntDown d.fcnt16 with
    | none => pure ({ resp := .noUpdate, downlink := none }, s, cfg, region)
    | some fcnt =>
      if d.micFcnt != some fcnt then pure ({ resp := .noUpdate, downlink := none }, s, cfg, region)
      else do
        let s := if ignoreMac then s else { s with pending := [] }
        let s := { s with fcntDown := some fcnt, adrAckCnt := 0 }
        let ctx : MacCtx := { cfg := cfg, region := region, pending := s.pending }
        let ctx ← (if ignoreMac then pure ctx else do
          let ctx ← handleDownlinkMacs snr d.fopts ctx
          if d.fport == some 0 then handleDownlinkMacs snr d.payload ctx else pure ctx)
        let s := { s with pending := ctx.pending }
        let s := if d.confirmed then { s with ackOwed := true } else s
        if s.fcntUp == 0xFFFFFFFF then
          pure ({ resp := .sessionExpired, downlink := none }, s, ctx.cfg, ctx.region)
        else
          let s := { s with fcntUp := s.fcntUp + 1 }
          let dl := match d.fport with
            | some p => if p > 0 then some (p, d.payload) else none
            | none => none
          pure ({ resp := .downlinkReceived fcnt, downlink := dl }, s, ctx.cfg, ctx.region)

/-- `Session::prepare_buffer`: the uplink frame description, the new session -/
def prepareBuffer (s : Session) (cfg : Config) (r : RegionId) (data : List Nat) (fport : Nat) (confirmed : Bool) :
    M (UplinkDesc × Session) := do
  let fcnt := s.fcntUp
  let ack := s.ackOwed
  let s := { s with ackOwed := false }
  let adr := cfg.adrEnabled
  let adrAckReq := adr && s.adrAckCnt ≥ Gen.Session.ADR_ACK_LIMIT.toNat && (nextLowerDatarate r cfg.dataRate).isSome
  let s := { s with confirmed := confirmed }
  if fport == 0 && !data.isEmpty then panic "Data payload with fport 0 not allowed" else do
  let (fopts, payload) := if fport != 0 then (s.pending, data) else ([], s.pending)
  -- total = MHDR + FHDR(7 + FOpts) + FPort + FRMPayload + MIC must fit the 256-byte scratch buffer,
  -- and `RadioBuffer::extend_from_slice` needs it strictly shorter than the radio buffer (256)
  let total := 1 + 7 + fopts.length + 1 + payload.length + 4
  if total > 256 then panic "Error assembling packet: BufferTooShort"
  else if total ≥ 256 then panic "tx_buffer.extend_from_slice unwrap"
  else
    let desc : UplinkDesc :=
      { confirmed := confirmed, devAddr := s.devAddr, adr := adr, adrAckReq := adrAckReq, ack := ack, fcnt := fcnt, fopts := fopts, fport := fport, payload := payload }
    let s := { s with pending := retainSticky (s.pending.length + 1) s.pending }
    pure (desc, s)

/-! ## Mac -/

def rfOf (d : Datarate) (freq : Nat) : RfConfig :=
  { frequency := freq, sf := d.spreading_factor.factor, bwHz := d.bandwidth.hz, maxPayload := d.max_mac_payload_size }

/-- `build_rf_config`: unsupported DR falls back to the RX2 data rate (and unwraps) -/
def buildRfConfig (m : MacState) (freq : Nat) (dr txDr : DR) : M RfConfig := do
  match getDatarate m.region.id dr.toInt.toNat with
  | some d => pure (rfOf d freq)
  | none =>
    let dr2 ← rxDatarate m.region.id txDr m.cfg.rx1DrOffset Window._2
    match getDatarate m.region.id dr2.toInt.toNat with
    | some d => pure (rfOf d freq)
    | none => panic "build_rf_config fallback unwrap"

def rx2RfConfig (m : MacState) (txDr : DR) : M RfConfig := do
  let freq := match m.cfg.rx2Frequency with | some f => f | none => rx2Frequency m.region.id
  let dr ← (match m.cfg.rx2DataRate with
    | some d => drOfNat d
    | none => rxDatarate m.region.id txDr m.cfg.rx1DrOffset Window._2)
  buildRfConfig m freq dr txDr

def rxWindows (m : MacState) (tx : TxChannel) : M (RfConfig × RfConfig) := do
  let rx1Dr ← rxDatarate m.region.id tx.dr m.cfg.rx1DrOffset Window._1
  let rx1 ← buildRfConfig m tx.rx1Frequency rx1Dr tx.dr
  let rx2 ← rx2RfConfig m tx.dr
  pure (rx1, rx2)

/-- `create_tx_config` + `adjust_power(limit, gain)` with i8 arithmetic -/
def txPowerFor (r : RegionId) (limit : Nat) (gain : Int) : M Int := do
  let p0 ← (match (← txPowerAdjust r 0) with
    | some p => pure p
    | none => panic "check_tx_power(0).unwrap")
  let pw : Int := Rt.wrap .i8 p0
  let pw ← ofGen "adjust_power i8 overflow" (Rt.ck .i8 (pw - gain))
  pure (min pw (Rt.wrap .i8 limit))

structure SendOut where
  tx : TxOut
  frame : UplinkDesc
  deriving DecidableEq, Repr

/-- `Mac::send` -/
def macSend {σ} (g : Rng σ) (m : MacState) (data : List Nat) (fport : Nat) (confirmed : Bool) (rs : σ) :
    M (Option SendOut × MacState × σ) :=
  match m.st with
  | .joined s => do
    let (desc, s) ← prepareBuffer s m.cfg m.region.id data fport confirmed
    let m := { m with st := .joined s }
    let (tx, region, rs) ← selectTxChannel g m.region (← drOfNat m.cfg.dataRate) .data rs
    let m := { m with region := region }
    let limit := match m.cfg.txPower with | some p => min p m.maxPower | none => m.maxPower
    let pw ← txPowerFor m.region.id limit m.antennaGain
    let (rx1, rx2) ← rxWindows m tx
    pure (some { tx := { pw := pw, rf := rfOf tx.datarate tx.frequency, rx1 := rx1, rx2 := rx2 }, frame := desc }, m, rs)
  | _ => pure (none, m, rs)

structure JoinOut where
  tx : TxOut
  devNonce : Nat
  deriving DecidableEq, Repr

/-- `Mac::join_otaa` -/
def macJoinOtaa {σ} (g : Rng σ) (m : MacState) (rs : σ) : M (JoinOut × MacState × σ) := do
  let (e, rs) := draw g rs
  let nonce := e % 65536
  let m := { m with st := .otaa { devNonce := nonce } }
  let (tx, region, rs) ← selectTxChannel g m.region (← drOfNat m.cfg.dataRate) .join rs
  let m := { m with region := region }
  let pw ← txPowerFor m.region.id m.maxPower m.antennaGain
  let (rx1, rx2) ← rxWindows m tx
  pure ({ tx := { pw := pw, rf := rfOf tx.datarate tx.frequency, rx1 := rx1, rx2 := rx2 }, devNonce := nonce }, m, rs)

def macJoinAbp (m : MacState) (devAddr nwk app : Nat) : MacState :=
  { m with st := .joined (Session.new devAddr nwk app) }

/-- `Otaa::handle_rx` on an authentic JoinAccept -/
def otaaAccept (m : MacState) (j : RxJoinAccept) : M MacState := do
  let region ← processJoinAccept m.region j.cfList
  let d ← delToDelayMs (j.rxDelay % 16)
  let cfg := { m.cfg with rx1Delay := d }
  let cfg := match rx1DrOffsetValidate region.id ((j.dlSettings / 16) % 8) with
    | some o => { cfg with rx1DrOffset := o }
    | none => cfg
  let rx2 := j.dlSettings % 16
  let cfg := if (getDatarate region.id rx2).isSome then { cfg with rx2DataRate := some rx2 } else cfg
  pure { m with cfg := cfg, region := region, st := .joined (Session.new j.devAddr j.nwkKey j.appKey) }

/-- `Mac::handle_rx` (Class A window) / `handle_rxc` (`classC = true`; `none` = `Err(NotJoined)`) -/
def macHandleRx (m : MacState) (v : RxView) (maxPayload : Nat) (snr : Int) (classC : Bool) :
    M (Option RxOut × MacState) :=
  match m.st with
  | .joined s =>
    match v with
    | .data d => do
      let (o, s, cfg, region) ← sessionHandleRx s m.cfg m.region d maxPayload snr classC
      pure (some o, { m with st := .joined s, cfg := cfg, region := region })
    | _ => pure (some { resp := .noUpdate, downlink := none }, m)
  | .otaa _ =>
    if classC then pure (none, m) else
    match v with
    | .joinAccept j =>
      if j.micOk then do
        let m ← otaaAccept m j
        pure (some { resp := .joinSuccess, downlink := none }, m)
      else pure (some { resp := .noUpdate, downlink := none }, m)
    | _ => pure (some { resp := .noUpdate, downlink := none }, m)
  | .unjoined =>
    if classC then pure (none, m) else pure (some { resp := .noUpdate, downlink := none }, m)

/-- `Mac::rx2_complete` -/
def macRx2Complete (m : MacState) : Response × MacState :=
  match m.st with
  | .joined s =>
    let (r, s, cfg) := rx2Complete s m.cfg m.region.id
    (r, { m with st := .joined s, cfg := cfg })
  | .otaa _ => (.noJoinAccept, m)
  | .unjoined => (.noUpdate, m)

def macSetAdr (m : MacState) (on : Bool) : MacState :=
  let m := { m with cfg := { m.cfg with adrEnabled := on } }
  match m.st, on with
  | .joined s, false => { m with st := .joined { s with adrAckCnt := 0 } }
  | _, _ => m

def macSetDatarate (m : MacState) (dr : Nat) : MacState := { m with cfg := { m.cfg with dataRate := dr } }

/-- `get_rx_delay` -/
def macRxDelay (m : MacState) (join second : Bool) : Nat :=
  match join, second with
  | true, false => Gen.Session.JOIN_ACCEPT_DELAY1.toNat
  | true, true => Gen.Session.JOIN_ACCEPT_DELAY2.toNat
  | false, false => m.cfg.rx1Delay
  | false, true => m.cfg.rx1Delay + 1000

/-- `get_rxc_config` -/
def macRxcConfig (m : MacState) : M RfConfig := do rx2RfConfig m (← drOfNat m.cfg.dataRate)

end Model
