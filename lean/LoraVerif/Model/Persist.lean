import LoraVerif.Model.Mac
/-!
# Model of session persistence (`Session`'s serde derive + `mac/uplink/serde.rs`)

The serialised form is a document with the fields of `Session`; `uplink` is written as
`{confirmed, pending_len, pending_data[15]}` (padded with zeros) and read back with the check
`pending_len ≤ 15`.  The serde machinery itself (field order, JSON syntax, integer range checks of
the derive) is not modelled field by field: `deser` states the acceptance conditions, and the C20
correspondence (round trips at every step of real histories + mutated documents) ties it to the code.
-/
namespace Model

structure UplinkDoc where
  confirmed : Bool
  pendingLen : Nat
  pendingData : List Nat
  deriving DecidableEq, Repr

structure SessionDoc where
  uplink : UplinkDoc
  confirmed : Bool
  nwkKey : Nat
  appKey : Nat
  devAddr : Nat
  fcntUp : Nat
  fcntDown : Option Nat
  adrAckCnt : Nat
  deriving DecidableEq, Repr

/-- the type invariants of a `Session` value (u32 counters, at most 15 pending bytes) -/
def SessionWF (s : Session) : Prop :=
  s.pending.length ≤ 15 ∧ (∀ b ∈ s.pending, b < 256) ∧ s.fcntUp < 4294967296 ∧
  (∀ n, s.fcntDown = some n → n < 4294967296) ∧ s.adrAckCnt < 4294967296 ∧ s.devAddr < 4294967296

def ser (s : Session) : SessionDoc :=
  { uplink := { confirmed := s.ackOwed, pendingLen := s.pending.length,
                pendingData := s.pending ++ List.replicate (15 - s.pending.length) 0 },
    confirmed := s.confirmed, nwkKey := s.nwkKey, appKey := s.appKey, devAddr := s.devAddr,
    fcntUp := s.fcntUp, fcntDown := s.fcntDown, adrAckCnt := s.adrAckCnt }

def u32 (n : Nat) : Bool := n < 4294967296

def optU32 : Option Nat → Bool
  | some n => u32 n
  | none => true

/-- `Deserialize`: `none` = the document is rejected -/
def deser (d : SessionDoc) : Option Session :=
  if d.uplink.pendingLen ≤ 15 ∧ d.uplink.pendingData.length = 15 ∧ d.uplink.pendingData.all (· < 256)
      ∧ u32 d.fcntUp ∧ optU32 d.fcntDown ∧ u32 d.adrAckCnt ∧ u32 d.devAddr then
    some { pending := d.uplink.pendingData.take d.uplink.pendingLen, ackOwed := d.uplink.confirmed, confirmed := d.confirmed,
           devAddr := d.devAddr, fcntUp := d.fcntUp, fcntDown := d.fcntDown, adrAckCnt := d.adrAckCnt,
           nwkKey := d.nwkKey, appKey := d.appKey }
  else none

end Model
