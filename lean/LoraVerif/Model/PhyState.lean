import LoraVerif.Model.PhySpi
/-!
# Model of `LoRa<RK, DLY>` (lora-phy/src/lib.rs) — the driver/chip state machine (C14)

`LoRa` is generic over `RadioKind`; so is this model: `RadioKindOps σ μ` is the record of the
operations `lib.rs` calls (σ = the radio kind's own state, μ = its modulation-parameter type),
instantiated with the SX126x / SX127x models of `Model/PhySpi.lean`.

The driver's bookkeeping (`radio_mode`, `sync_word`, `cold_start`, `calibrate_image`) lives in
`DriverState`; an API call is a program in the monad `M`, a state-and-exception monad over
`DriverState × World` in which `call p` hands the `RadioKind`-level program `p` to the interpreter
`run`.  An error (`?`), a panic, or a future dropped at a pending `await_irq` ends the API call
*with the state as it is at that point* — assignments made before persist, later ones do not happen
— which is exactly Rust's behaviour for `&mut self`.

The abstract chip state the invariants talk about (`ChipTrack`: operating mode, which
configuration items have been programmed since the last loss, whether a command ever reached a
sleeping chip, whether an operation was ever started with something unprogrammed) is computed by
`track`, an interpreter of the transcript events — it never looks at the driver.
-/
namespace Model.Phy

structure RadioKindOps (σ μ : Type) where
  initLora : σ → Nat → Prog σ
  setLoraSyncWord : Nat → Prog Unit
  reset : Prog Unit
  ensureReady : RadioMode → Prog Unit
  setStandby : Prog Unit
  setSleep : Bool → Prog Unit
  setTxPowerAndRampTime : Int → Option μ → Bool → Prog Unit
  setModulationParams : σ → μ → Prog Unit
  setPacketParams : PacketParams → Prog Unit
  calibrateImage : Nat → Prog Unit
  setChannel : Nat → Prog Unit
  setPayload : Bytes → Prog Unit
  doTx : Prog Unit
  doRx : RxMode → Prog Unit
  getRxPayload : PacketParams → Bytes → Prog (Nat × Bytes)
  getRxPacketStatus : Prog Unit
  doCad : μ → Prog Unit
  setIrqParams : Option RadioMode → Prog Unit
  awaitIrq : Prog Unit
  processIrqEvent : RadioMode → Option Bool → Bool → Prog (Option IrqState × Option Bool)
  freqOf : μ → Nat

structure DriverState (σ : Type) where
  rk : σ
  radioMode : RadioMode := .sleep
  syncWord : Nat
  coldStart : Bool := true
  calibrateImage : Bool := true

/-- state-and-exception monad over the driver state and the world -/
def M (σ α : Type) := DriverState σ × World → Out α × (DriverState σ × World)

namespace M
variable {σ : Type}

def pure' {α : Type} (a : α) : M σ α := fun s => (.ok a, s)
def bind' {α β : Type} (m : M σ α) (f : α → M σ β) : M σ β := fun s =>
  match m s with
  | (.ok a, s') => f a s'
  | (.err e, s') => (.err e, s')
  | (.panic p, s') => (.panic p, s')
  | (.dropped, s') => (.dropped, s')

instance : Monad (M σ) where
  pure := pure'
  bind := bind'

/-- run a `RadioKind`-level program on the world -/
def call {α : Type} (p : Prog α) : M σ α := fun (d, w) =>
  let (o, w') := run p w
  (o, (d, w'))

def get : M σ (DriverState σ) := fun s => (.ok s.1, s)
def modify (f : DriverState σ → DriverState σ) : M σ Unit := fun (d, w) => (.ok (), (f d, w))
def throw {α : Type} (e : RadioError) : M σ α := fun s => (.err e, s)
def panic {α : Type} (site : String) : M σ α := fun s => (.panic site, s)

/-- `match fut.await { Ok(v) => …, Err(e) => … }`: a `Result` bound without `?` -/
def attempt {α : Type} (m : M σ α) : M σ (Except RadioError α) := fun s =>
  match m s with
  | (.ok a, s') => (.ok (.ok a), s')
  | (.err e, s') => (.ok (.error e), s')
  | (.panic p, s') => (.panic p, s')
  | (.dropped, s') => (.dropped, s')

end M

open M

section LoRa
variable {σ μ : Type} (rk : RadioKindOps σ μ)

def setMode (m : RadioMode) : M σ Unit := modify (fun d => { d with radioMode := m })

/-- `do_cold_start` -/
def doColdStart : M σ Unit := do
  let d ← get
  let st ← call (rk.initLora d.rk d.syncWord)
  modify (fun d => { d with rk := st })
  call (rk.setTxPowerAndRampTime 0 none false)
  let d ← get
  call (rk.setIrqParams (some d.radioMode))
  modify (fun d => { d with coldStart := false, calibrateImage := true })

/-- `init` as it was before the fix (`repo-fixes/…failed-re-init…`): `radio_mode` is only updated
after `set_standby` succeeded -/
def initUnfixed : M σ Unit := do
  modify (fun d => { d with coldStart := true })
  call rk.reset
  let d ← get
  call (rk.ensureReady d.radioMode)
  call rk.setStandby
  setMode .standby
  doColdStart rk

/-- `init` -/
def init : M σ Unit := do
  modify (fun d => { d with coldStart := true, radioMode := .sleep })
  call rk.reset
  let d ← get
  call (rk.ensureReady d.radioMode)
  call rk.setStandby
  setMode .standby
  doColdStart rk

/-- the recurring `ensure_ready; if mode != Standby { set_standby; mode = Standby }` -/
def toStandby : M σ Unit := do
  let d ← get
  call (rk.ensureReady d.radioMode)
  if d.radioMode ≠ .standby then
    call rk.setStandby
    setMode .standby

/-- `prepare_modem` -/
def prepareModem (freq : Nat) : M σ Unit := do
  toStandby rk
  let d ← get
  if d.coldStart then doColdStart rk
  let d ← get
  if d.calibrateImage then
    call (rk.calibrateImage freq)
    modify (fun d => { d with calibrateImage := false })

/-- `set_lora_sync_word` -/
def setLoraSyncWord (w : Nat) : M σ Unit := do
  toStandby rk
  call (rk.setLoraSyncWord w)
  modify (fun d => { d with syncWord := w })

/-- `sleep` -/
def sleep (warm : Bool) : M σ Unit := do
  let d ← get
  if d.radioMode ≠ .sleep then
    call (rk.ensureReady d.radioMode)
    call (rk.setSleep warm)
    if !warm then modify (fun d => { d with coldStart := true })
    setMode .sleep

/-- `prepare_for_tx`; `payloadLen > 255` is refused by `set_payload_length` -/
def prepareForTx (m : μ) (pkt : PacketParams) (power : Int) (payload : Bytes) : M σ Unit := do
  prepareModem rk (rk.freqOf m)
  let d ← get
  call (rk.setModulationParams d.rk m)
  call (rk.setTxPowerAndRampTime power (some m) true)
  toStandby rk
  if payload.length > 255 then throw (.PayloadSizeUnexpected payload.length) else
  call (rk.setPacketParams { pkt with payloadLength := payload.length })
  call (rk.setChannel (rk.freqOf m))
  call (rk.setPayload payload)
  -- the mode is recorded only after its IRQ routing has been programmed (fix-irq-mode)
  call (rk.setIrqParams (some .transmit))
  setMode .transmit

/-- the error path shared by `tx`, `complete_rx`, `cad`: force standby, then report the error -/
def failToStandby {α : Type} (e : RadioError) : M σ α := do
  let d ← get
  call (rk.ensureReady d.radioMode)
  call rk.setStandby
  setMode .standby
  throw e

/-- the `loop` of `tx` -/
def txLoop : Nat → M σ Unit
  | 0 => M.panic "DIVERGE tx"
  | fuel + 1 => do
    call rk.awaitIrq
    let d ← get
    let r ← M.attempt (call (rk.processIrqEvent d.radioMode none true))
    match r with
    | .ok (some _, _) => setMode .standby
    | .ok (none, _) => txLoop fuel
    | .error e => failToStandby rk e

/-- `tx` -/
def tx (fuel : Nat) : M σ Unit := do
  let d ← get
  if d.radioMode = .transmit then
    call rk.doTx
    txLoop rk fuel
  else throw .InvalidRadioMode

/-- `prepare_for_rx` -/
def prepareForRx (mode : RxMode) (m : μ) (pkt : PacketParams) : M σ Unit := do
  prepareModem rk (rk.freqOf m)
  let d ← get
  call (rk.setModulationParams d.rk m)
  call (rk.setPacketParams pkt)
  call (rk.setChannel (rk.freqOf m))
  -- the mode is recorded only after its IRQ routing has been programmed (fix-irq-mode)
  call (rk.setIrqParams (some (.receive mode)))
  setMode (.receive mode)

/-- `rx_switch_channel` as it was before the fix (`repo-fixes/…rx_switch_channel…`): no `ensure_ready` -/
def rxSwitchChannelUnfixed (freq : Nat) : M σ Unit := do
  let d ← get
  match d.radioMode with
  | .receive mode =>
    call rk.setStandby
    call (rk.setChannel freq)
    call (rk.doRx mode)
  | _ => throw .InvalidRadioMode

/-- `rx_switch_channel` -/
def rxSwitchChannel (freq : Nat) : M σ Unit := do
  let d ← get
  match d.radioMode with
  | .receive mode =>
    call (rk.ensureReady d.radioMode)
    call rk.setStandby
    call (rk.setChannel freq)
    call (rk.doRx mode)
  | _ => throw .InvalidRadioMode

/-- `start_rx` as it was before the fix (`repo-fixes/…start_rx…`): no `ensure_ready` -/
def startRxUnfixed : M σ Unit := do
  let d ← get
  match d.radioMode with
  | .receive mode => call (rk.doRx mode)
  | _ => throw .InvalidRadioMode

/-- `start_rx` -/
def startRx : M σ Unit := do
  let d ← get
  match d.radioMode with
  | .receive mode =>
    call (rk.ensureReady d.radioMode)
    call (rk.doRx mode)
  | _ => throw .InvalidRadioMode

/-- the `loop` of `complete_rx`: the received length and the buffer afterwards -/
def completeRxLoop (pkt : PacketParams) (buf : Bytes) : Nat → M σ (Nat × Bytes)
  | 0 => M.panic "DIVERGE complete_rx"
  | fuel + 1 => do
    let d ← get
    let r ← M.attempt (call (rk.processIrqEvent d.radioMode none true))
    match r with
    | .ok (some .done, _) =>
      let res ← call (rk.getRxPayload pkt buf)
      call rk.getRxPacketStatus
      pure res
    | .ok (_, _) =>
      call rk.awaitIrq
      completeRxLoop pkt buf fuel
    | .error e =>
      let d ← get
      if d.radioMode ≠ .receive .continuous then failToStandby rk e else throw e

/-- `complete_rx` -/
def completeRx (pkt : PacketParams) (buf : Bytes) (fuel : Nat) : M σ (Nat × Bytes) := do
  let d ← get
  match d.radioMode with
  | .receive _ => completeRxLoop rk pkt buf fuel
  | _ => throw .InvalidRadioMode

/-- `rx` = `start_rx` then `complete_rx` -/
def rx (pkt : PacketParams) (buf : Bytes) (fuel : Nat) : M σ (Nat × Bytes) := do
  startRx rk
  completeRx rk pkt buf fuel

/-- `listen`; `m` is the result of `create_modulation_params(SF7, bandwidth, 4/5, freq)` -/
def listen (freq : Nat) (m : Except RadioError μ) : M σ Unit := do
  prepareModem rk freq
  call (rk.setChannel freq)
  match m with
  | .error e => throw e
  | .ok m =>
    let d ← get
    call (rk.setModulationParams d.rk m)
    setMode .listen
    call (rk.doRx .continuous)

/-- `prepare_for_cad` -/
def prepareForCad (m : μ) : M σ Unit := do
  prepareModem rk (rk.freqOf m)
  let d ← get
  call (rk.setModulationParams d.rk m)
  call (rk.setChannel (rk.freqOf m))
  -- the mode is recorded only after its IRQ routing has been programmed (fix-irq-mode)
  call (rk.setIrqParams (some .cad))
  setMode .cad

/-- `cad` -/
def cad (m : μ) : M σ Bool := do
  let d ← get
  if d.radioMode = .cad then
    call (rk.doCad m)
    call rk.awaitIrq
    let r ← M.attempt (call (rk.processIrqEvent .cad (some false) true))
    match r with
    | .ok (some .done, det) =>
      call rk.setStandby
      setMode .standby
      pure (det == some true)
    | .error e => failToStandby rk e
    | .ok (_, _) => M.panic "cad: unreachable!()"
  else throw .InvalidRadioMode

end LoRa

/-! ## the API alphabet -/

inductive ApiCall (μ : Type) where
  | init
  | sleep (warm : Bool)
  | prepareForTx (m : μ) (pkt : PacketParams) (power : Int) (payload : Bytes)
  | tx
  | prepareForRx (mode : RxMode) (m : μ) (pkt : PacketParams)
  | startRx
  | completeRx (pkt : PacketParams) (bufLen : Nat)
  | rx (pkt : PacketParams) (bufLen : Nat)
  | rxSwitchChannel (freq : Nat)
  | listen (freq : Nat) (m : Except RadioError μ)
  | prepareForCad (m : μ)
  | cad (m : μ)
  | setLoraSyncWord (w : Nat)

/-- what a call returns, reduced to what callers can observe -/
inductive ApiResult where
  | unit
  | received (n : Nat) (bytes : Bytes)
  | cadDetected (b : Bool)
  deriving DecidableEq, Repr

def LOOP_FUEL : Nat := 64

def apiProg {σ μ : Type} (rk : RadioKindOps σ μ) : ApiCall μ → M σ ApiResult
  | .init => do init rk; pure .unit
  | .sleep warm => do sleep rk warm; pure .unit
  | .prepareForTx m pkt power payload => do prepareForTx rk m pkt power payload; pure .unit
  | .tx => do tx rk LOOP_FUEL; pure .unit
  | .prepareForRx mode m pkt => do prepareForRx rk mode m pkt; pure .unit
  | .startRx => do startRx rk; pure .unit
  | .completeRx pkt n => do
    let (len, buf) ← completeRx rk pkt (List.replicate n 0) LOOP_FUEL
    pure (.received len (buf.take len))
  | .rx pkt n => do
    let (len, buf) ← rx rk pkt (List.replicate n 0) LOOP_FUEL
    pure (.received len (buf.take len))
  | .rxSwitchChannel f => do rxSwitchChannel rk f; pure .unit
  | .listen f m => do listen rk f m; pure .unit
  | .prepareForCad m => do prepareForCad rk m; pure .unit
  | .cad m => do let b ← cad rk m; pure (.cadDetected b)
  | .setLoraSyncWord w => do setLoraSyncWord rk w; pure .unit

/-- the environment of one call: the IRQ status words the chip will report, an I/O step that
fails, an `await_irq` step at which the future is dropped -/
structure Env where
  irq : List Nat := []
  irqDefault : Nat := 0
  fault : Option Nat := none
  pendAt : Option Nat := none

/-- one API call: fresh transcript and step counter, the call's environment installed in the world -/
def apiStep {σ μ : Type} (rk : RadioKindOps σ μ) (c : ApiCall μ) (env : Env) (s : DriverState σ × World) :
    Out ApiResult × (DriverState σ × World) :=
  let w : World := { chip := { s.2.chip with irqScript := env.irq, irqDefault := env.irqDefault },
                     log := [], step := 0, fault := env.fault, pendAt := env.pendAt }
  apiProg rk c (s.1, w)

/-! ## `LorawanRadio` (lora-phy/src/lorawan_radio.rs): the LoRaWAN adapter over `LoRa` -/

inductive AdapterCall (μ : Type) where
  | tx (m : μ) (pkt : PacketParams) (power : Int) (payload : Bytes)
  | setupRx (mode : RxMode) (m : μ) (pkt : PacketParams)
  | rxSingle (bufLen : Nat)
  | rxContinuous (bufLen : Nat)
  | lowPower

inductive AdapterResult where
  | unit
  | rx (n : Nat) (bytes : Bytes)
  | rxTimeout
  | noRxParams
  deriving DecidableEq, Repr

/-- `rx_pkt_params: Option<PacketParams>` — set by a successful `setup_rx` only -/
structure AdapterState where
  rxPkt : Option PacketParams := none

def adapterProg {σ μ : Type} (rk : RadioKindOps σ μ) (a : AdapterState) : AdapterCall μ → M σ (AdapterResult × AdapterState)
  | .tx m pkt power payload => do
    prepareForTx rk m pkt power payload
    tx rk LOOP_FUEL
    pure (.unit, a)
  | .setupRx mode m pkt => do
    prepareForRx rk mode m pkt
    pure (.unit, { a with rxPkt := some pkt })
  | .rxSingle n =>
    match a.rxPkt with
    | none => pure (.noRxParams, a)
    | some pkt => do
      let r ← M.attempt (rx rk pkt (List.replicate n 0) LOOP_FUEL)
      match r with
      | .ok (len, buf) => pure (.rx len (buf.take len), a)
      | .error .ReceiveTimeout => pure (.rxTimeout, a)
      | .error e => M.throw e
  | .rxContinuous n =>
    match a.rxPkt with
    | none => pure (.noRxParams, a)
    | some pkt => do
      let (len, buf) ← rx rk pkt (List.replicate n 0) LOOP_FUEL
      pure (.rx len (buf.take len), a)
  | .lowPower => do
    sleep rk false
    pure (.unit, a)

def adapterStep {σ μ : Type} (rk : RadioKindOps σ μ) (a : AdapterState) (c : AdapterCall μ) (env : Env)
    (s : DriverState σ × World) : Out (AdapterResult × AdapterState) × (DriverState σ × World) :=
  let w : World := { chip := { s.2.chip with irqScript := env.irq, irqDefault := env.irqDefault },
                     log := [], step := 0, fault := env.fault, pendAt := env.pendAt }
  adapterProg rk a c (s.1, w)

/-! ## the two radio kinds as `RadioKindOps` -/

def sx126xOps (cfg : Sx126x.Config) : RadioKindOps Unit Sx126x.ModulationParams where
  initLora := fun _ w => Sx126x.initLora cfg w
  setLoraSyncWord := Sx126x.setLoraSyncWord
  reset := Sx126x.reset
  ensureReady := Sx126x.ensureReady
  setStandby := Sx126x.setStandby
  setSleep := Sx126x.setSleep
  setTxPowerAndRampTime := fun p m prep => Sx126x.setTxPowerAndRampTime cfg p (m.map (·.freq)) prep
  setModulationParams := fun _ m => Sx126x.setModulationParams m
  setPacketParams := Sx126x.setPacketParams
  calibrateImage := Sx126x.calibrateImage
  setChannel := Sx126x.setChannel
  setPayload := Sx126x.setPayload
  doTx := Sx126x.doTx
  doRx := Sx126x.doRx cfg
  getRxPayload := Sx126x.getRxPayload
  getRxPacketStatus := do let _ ← Sx126x.getRxPacketStatus; pure ()
  doCad := Sx126x.doCad cfg
  setIrqParams := Sx126x.setIrqParams
  awaitIrq := Sx126x.awaitIrq
  processIrqEvent := Sx126x.processIrqEvent
  freqOf := (·.freq)

def sx127xOps (cfg : Sx127x.Config) : RadioKindOps Sx127x.Data Sx127x.ModulationParams where
  initLora := fun d w => Sx127x.initLora cfg d w
  setLoraSyncWord := Sx127x.setLoraSyncWord
  reset := Sx127x.reset
  ensureReady := Sx127x.ensureReady
  setStandby := Sx127x.setStandby
  setSleep := fun _ => Sx127x.setSleep
  setTxPowerAndRampTime := fun p _ prep => Sx127x.setTxPowerAndRampTime cfg p prep
  setModulationParams := fun d m => Sx127x.setModulationParams cfg d m
  setPacketParams := Sx127x.setPacketParams cfg
  calibrateImage := Sx127x.calibrateImage
  setChannel := Sx127x.setChannel
  setPayload := Sx127x.setPayload
  doTx := Sx127x.doTx
  doRx := Sx127x.doRx cfg
  getRxPayload := Sx127x.getRxPayload
  getRxPacketStatus := do let _ ← Sx127x.getRxPacketStatus cfg; pure ()
  doCad := fun _ => Sx127x.doCad cfg
  setIrqParams := Sx127x.setIrqParams
  awaitIrq := Sx127x.awaitIrq
  processIrqEvent := Sx127x.processIrqEvent
  freqOf := (·.freq)

end Model.Phy
