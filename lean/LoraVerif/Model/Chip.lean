import LoraVerif.Model.PhyIo
/-!
# Abstract radio chip for C14: what the chip's state is, given the I/O transcript

`track` interprets a transcript (the `Ev` list the interpreter records — the same tokens the
harness logs from the real driver) and maintains, without ever looking at the driver:

* `mode`   the chip's operating mode as last commanded (sleep, standby, tx, rx, rxDuty, cad);
* `items`  which configuration items have been programmed since the chip last lost its
           configuration (reset; SX126x: also SetSleep with the cold-start bit);
* `commandedAsleep`  whether a command other than the wake-up ever reached a chip that may be
           asleep (SX126x: in `sleep` every transaction but GetStatus; in the RX duty cycle every
           transaction but GetStatus and interrupt servicing — GetIrqStatus, ClrIrqStatus and the
           packet read-out after RxDone; SX127x: FIFO access in sleep, its registers stay accessible);
* `startedUnprogrammed`  whether SetTx / SetRx / SetRxDutyCycle / SetCad (SX127x: the RegOpMode
           write) was ever executed while an item in `need` was missing.

Only executed events count: an SPI transaction marked failed never reached the chip.
The fake chips of the harness do not need this state — it is a function of the transcript, and
the transcript is what the correspondence compares.
-/
namespace Model.Phy

inductive ChipMode where
  | sleep | standby | tx | rx | rxDuty | cad
  deriving DecidableEq, Repr

structure Items where
  packetType : Bool := false
  syncWord : Bool := false
  regulator : Bool := false
  tcxo : Bool := false
  bufferBase : Bool := false
  modulation : Bool := false
  packet : Bool := false
  irq : Bool := false
  frequency : Bool := false
  pa : Bool := false
  deriving DecidableEq, Repr

def Items.none : Items := {}

/-- `have ⊇ need` -/
def Items.covers (have_ need : Items) : Bool :=
  (!need.packetType || have_.packetType) && (!need.syncWord || have_.syncWord) &&
  (!need.regulator || have_.regulator) && (!need.tcxo || have_.tcxo) &&
  (!need.bufferBase || have_.bufferBase) && (!need.modulation || have_.modulation) &&
  (!need.packet || have_.packet) && (!need.irq || have_.irq) &&
  (!need.frequency || have_.frequency) && (!need.pa || have_.pa)

/-- what has to be programmed before each kind of start (the board's regulator / TCXO needs are
part of it when the board uses them) -/
structure Needs where
  tx : Items
  rx : Items
  cad : Items

def needsFor (regulator tcxo : Bool) : Needs :=
  let base : Items := { packetType := true, syncWord := true, bufferBase := true, regulator := regulator, tcxo := tcxo }
  { tx := { base with modulation := true, packet := true, irq := true, frequency := true, pa := true },
    -- `listen` starts an RSSI-only reception without packet / IRQ parameters: a reception needs at
    -- least modulation and frequency on top of the base configuration
    rx := { base with modulation := true, frequency := true },
    cad := { base with modulation := true, frequency := true, irq := true } }

structure ChipTrack where
  mode : ChipMode := .standby
  items : Items := {}
  commandedAsleep : Bool := false
  startedUnprogrammed : Bool := false
  deriving DecidableEq, Repr

/-- SX126x opcodes that only service an interrupt / read a received packet -/
def isIrqService126 (op : UInt8) : Bool :=
  op == 0x12 || op == 0x02 || op == 0x13 || op == 0x1E || op == 0x1D || op == 0x14

def start (t : ChipTrack) (m : ChipMode) (need : Items) : ChipTrack :=
  { t with mode := m, startedUnprogrammed := t.startedUnprogrammed || !(t.items.covers need) }

/-- what the arrival of a command does before its own effect: record a command that reaches a chip
which may be asleep; the wake-up brings a sleeping chip to STDBY_RC -/
def pre126 (t : ChipTrack) (op : UInt8) : ChipTrack :=
  let wake := op == 0xC0
  let t :=
    if t.mode = .sleep ∧ !wake then { t with commandedAsleep := true }
    else if t.mode = .rxDuty ∧ !wake ∧ !isIrqService126 op then { t with commandedAsleep := true }
    else t
  if wake ∧ (t.mode = .sleep ∨ t.mode = .rxDuty) then { t with mode := .standby } else t

inductive Cmd126 where
  | setSleep | setStandby | setTx | setRx | setRxDutyCycle | setCad | setTxCw
  | packetType | regulator | tcxo | bufferBase | modulation | packet | irq | frequency | pa
  | writeRegister | other
  deriving DecidableEq, Repr

def decode126 (op : UInt8) : Cmd126 :=
  if op == 0x84 then .setSleep else if op == 0x80 then .setStandby else if op == 0x83 then .setTx
  else if op == 0x82 then .setRx else if op == 0x94 then .setRxDutyCycle else if op == 0xC5 then .setCad
  else if op == 0xD1 then .setTxCw else if op == 0x8A then .packetType else if op == 0x96 then .regulator
  else if op == 0x97 then .tcxo else if op == 0x8F then .bufferBase else if op == 0x8B then .modulation
  else if op == 0x8C then .packet else if op == 0x08 then .irq else if op == 0x86 then .frequency
  else if op == 0x8E then .pa else if op == 0x0D then .writeRegister else .other

/-- the command's own effect on mode and programmed items -/
def apply126 (n : Needs) (t : ChipTrack) (op : UInt8) (args : Bytes) : ChipTrack :=
  match decode126 op with
  | .setSleep =>
    let cold := match args with | a :: _ => a &&& 0x04 == 0 | [] => true
    { t with mode := .sleep, items := if cold then {} else t.items }
  | .setStandby => { t with mode := .standby }
  | .setTx => start t .tx n.tx
  | .setRx => start t .rx n.rx
  | .setRxDutyCycle => start t .rxDuty n.rx
  | .setCad => start t .cad n.cad
  | .setTxCw => { t with mode := .tx }
  | .packetType => { t with items := { t.items with packetType := true } }
  | .regulator => { t with items := { t.items with regulator := true } }
  | .tcxo => { t with items := { t.items with tcxo := true } }
  | .bufferBase => { t with items := { t.items with bufferBase := true } }
  | .modulation => { t with items := { t.items with modulation := true } }
  | .packet => { t with items := { t.items with packet := true } }
  | .irq => { t with items := { t.items with irq := true } }
  | .frequency => { t with items := { t.items with frequency := true } }
  | .pa => { t with items := { t.items with pa := true } }
  | .writeRegister =>
    match args with
    | 0x07 :: 0x40 :: _ => { t with items := { t.items with syncWord := true } }
    | _ => t
  | .other => t

def step126 (n : Needs) (t : ChipTrack) (w : Bytes) : ChipTrack :=
  match w with
  | [] => t
  | op :: args => apply126 n (pre126 t op) op args

/-- SX127x: single-register write `[addr | 0x80, value]` (the driver never bursts except into the FIFO) -/
def step127 (n : Needs) (t : ChipTrack) (w : Bytes) : ChipTrack :=
  match w with
  | [] => t
  | a0 :: args =>
    let addr := a0.toNat % 128
    -- the FIFO is not accessible in sleep mode
    let t := if addr = 0 ∧ t.mode = .sleep then { t with commandedAsleep := true } else t
    if a0.toNat < 128 then t else
    match addr, args with
    | 0x01, v :: _ =>
      let m := v.toNat % 8
      let t := if v.toNat ≥ 128 then { t with items := { t.items with packetType := true } } else t
      if m = 0 then { t with mode := .sleep }
      else if m = 1 then { t with mode := .standby }
      else if m = 3 then start t .tx n.tx
      else if m = 5 then start t .rx n.rx
      else if m = 6 then start t .rx n.rx
      else if m = 7 then start t .cad n.cad
      else t
    | 0x39, _ => { t with items := { t.items with syncWord := true } }
    | 0x0e, _ => { t with items := { t.items with bufferBase := true } }
    | 0x1d, _ => { t with items := { t.items with modulation := true } }
    | 0x20, _ => { t with items := { t.items with packet := true } }
    | 0x11, _ => { t with items := { t.items with irq := true } }
    | 0x06, _ => { t with items := { t.items with frequency := true } }
    | 0x09, _ => { t with items := { t.items with pa := true } }
    | _, _ => t

def trackEv (kind : Kind) (n : Needs) (t : ChipTrack) (e : Ev) : ChipTrack :=
  match e.mark, e.req with
  | .done, .reset => { t with mode := .standby, items := {} }
  | .done, .spi w _ => match kind with
    | .sx126x => step126 n t w
    | .sx127x => step127 n t w
  | _, _ => t

def track (kind : Kind) (n : Needs) (t : ChipTrack) (log : List Ev) : ChipTrack :=
  log.foldl (trackEv kind n) t

end Model.Phy
