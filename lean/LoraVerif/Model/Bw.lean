import LoraVerif.Gen.Modulation
import LoraVerif.Spec.Airtime
/-! The bridge between the crate's `Bandwidth` enum (regenerated, `Gen.Modulation`) and the
specification's own table of the ten bandwidth settings (`Spec.Airtime.Bw`). Import-light: used by
C15's theorems and by the C15 / C16 parts of the driver. -/
open Gen.Modulation
namespace Model.PhyArith

/-- which of the specification's ten bandwidth settings a variant of the crate's `Bandwidth` enum
names (by the variant's name — not by `hz()`, whose constants are what C15 has to judge) -/
def specBw : Bandwidth → Spec.Airtime.Bw
  | ._7KHz => .k7 | ._10KHz => .k10 | ._15KHz => .k15 | ._20KHz => .k20 | ._31KHz => .k31
  | ._41KHz => .k41 | ._62KHz => .k62 | ._125KHz => .k125 | ._250KHz => .k250 | ._500KHz => .k500

end Model.PhyArith
