import LoraVerif.Model.MacCmd
/-!
# Payload accessors of the six command sets, as coded

maccommands.rs (`impl XPayload<'_>`), certification.rs, multicast/{mod,group_setup,group_status}.rs and
the `types.rs` helper types they return (`DR`, `ChannelMask<2>`, `Redundancy`, `DLSettings`,
`Frequency`, `DataRateRange`).  Every `self.0[i]` / `&self.0[a..b]` is a checked access; `u32`
arithmetic that would panic on overflow in a debug build is checked (`ckU32`); `unreachable!()` arms
are panics.  Import-free.
-/
namespace MacCmd

/-- what an accessor returns, in printable form -/
inductive Val where
  | n (v : Nat)
  | i (v : Int)
  | b (v : Bool)
  | hex (v : Bytes)
  | err (e : String)
  | none
  | items (l : List (Nat × Bytes))
  deriving Repr, DecidableEq

def ckU32 (site : String) (v : Nat) : Outcome Nat := if v < 4294967296 then .ok v else .panic site

/-- `x & (1 << k) != 0` -/
def bit (x k : Nat) : Bool := x &&& (1 <<< k) != 0

/-- `DR::from(v)`: `match v & 0xf { 0..=15 => .., _ => unreachable!() }` -/
def drFrom (v : Nat) : Outcome Nat :=
  let m := v &&& 0xf
  if m ≤ 15 then .ok m else .panic "DR::from: unreachable!()"

/-- `Frequency::value` (types.rs) on a slice: `((b[2] << 16) + (b[1] << 8) + b[0]) * 100` in `u32` -/
def frequencyValue (f : Bytes) : Outcome Nat := do
  let b2 ← index "Frequency::value: self.0[2]" f 2
  let b1 ← index "Frequency::value: self.0[1]" f 1
  let b0 ← index "Frequency::value: self.0[0]" f 0
  let s ← ckU32 "Frequency::value: +" ((b2 <<< 16) + (b1 <<< 8))
  let s ← ckU32 "Frequency::value: +" (s + b0)
  ckU32 "Frequency::value: * 100" (100 * s)

/-- `ChannelMask::<2>::new_from_raw(d)`: `payload[..2].copy_from_slice(&d[..2])` -/
def channelMask2 (d : Bytes) : Outcome Bytes := slice "ChannelMask::new_from_raw: &data[..N]" d 0 2

/-- `slice.try_into().unwrap()` / `arr::<N>` / `copy_from_slice`: the lengths must agree -/
def exact (site : String) (n : Nat) (d : Bytes) : Outcome Bytes := if d.length = n then .ok d else .panic site


/-- `u32::from_le_bytes(bytes.try_into().unwrap())` -/
def u32FromLe (site : String) (d : Bytes) : Outcome Nat := do
  let d ← exact site 4 d
  match d with
  | [a, b, c, e] => .ok (a + 256 * b + 65536 * c + 16777216 * e)
  | _ => .panic site

/-- the block cipher the multicast key accessors are parameterised with (`Crypto::encrypt_block`,
`NetworkCrypto::decrypt_block`); `DefaultCrypto` panics (`try_into().unwrap()`) unless the block has 16 bytes -/
structure Cipher where
  enc : Bytes → Bytes
  dec : Bytes → Bytes

def Cipher.encryptBlock (c : Cipher) (blk : Bytes) : Outcome Bytes :=
  if blk.length = 16 then .ok (c.enc blk) else .panic "encrypt_block: block.try_into().unwrap()"
def Cipher.decryptBlock (c : Cipher) (blk : Bytes) : Outcome Bytes :=
  if blk.length = 16 then .ok (c.dec blk) else .panic "decrypt_block: block.try_into().unwrap()"

/-- `TXParamSetupReqPayload::max_eirp` -/
def maxEirpTable : List Nat := [8, 10, 12, 13, 14, 16, 18, 20, 21, 24, 26, 27, 29, 30, 33, 36]

/-- `TxPeriodicityChangeReqPayload::periodicity` seconds table (values 1..=10) -/
def periodicityTable : List Nat := [5, 10, 20, 30, 40, 50, 60, 120, 240, 480]

/-- `McGroupStatusItemIterator`: `if pos + 5 > data.len() { None } else { &data[pos..pos + 5] }` -/
def groupItems : Nat → Bytes → Nat → Outcome (List (Nat × Bytes))
  | 0, _, _ => .ok []
  | fuel + 1, data, pos =>
    if pos + 5 > data.length then .ok []
    else do
      let it ← slice "McGroupStatusItemIterator::next: &self.data[pos..pos + 5]" data pos (pos + 5)
      let id ← index "McGroupStatusItem::mc_group_id: self.0[0]" it 0
      let a ← slice "McGroupStatusItem::mc_addr: self.0[1..5]" it 1 5
      let a ← exact "McGroupStatusItem::mc_addr: try_into().unwrap()" 4 a
      let more ← groupItems fuel data (pos + 5)
      .ok ((id, a) :: more)

/-- `((self.0[1] << 2) as i8) >> 2` -/
def margin6 (b : Nat) : Int :=
  let s := (b <<< 2) % 256
  let i : Int := if s ≥ 128 then (s : Int) - 256 else (s : Int)
  i / 4

/-- `f32::to_bits(1.0 / ((1 << raw) as f32))` for `raw ≤ 15`: exactly `2^-raw` -/
def dutyCycleBits (raw : Nat) : Outcome Nat :=
  if raw < 32 then .ok ((127 - raw) <<< 23) else .panic "max_duty_cycle: 1 << raw"

def accLinkCheckAns (p : Bytes) : List (String × Outcome Val) :=
  let at_ (i : Nat) : Outcome Nat := index "self.0[i]" p i
  [("margin", do let x ← at_ 0; .ok (.n x)), ("gateway_count", do let x ← at_ 1; .ok (.n x))]

def accLinkADRReq (p : Bytes) : List (String × Outcome Val) :=
  let at_ (i : Nat) : Outcome Nat := index "self.0[i]" p i
  [("data_rate", do let x ← at_ 0; let d ← drFrom (x >>> 4); .ok (.n d)),
     ("tx_power", do let x ← at_ 0; let d ← drFrom (x &&& 0x0f); .ok (.n d)),
     ("channel_mask", do let s ← slice "channel_mask: &self.0[1..3]" p 1 3; let m ← channelMask2 s; .ok (.hex m)),
     ("redundancy", do let x ← at_ 3; .ok (.n x)),
     ("chmask_cntl", do let x ← at_ 3; .ok (.n ((x >>> 4) &&& 0x07))),
     ("nb_trans", do let x ← at_ 3; .ok (.n (x &&& 0x0f)))]

def accDutyCycleReq (p : Bytes) : List (String × Outcome Val) :=
  let at_ (i : Nat) : Outcome Nat := index "self.0[i]" p i
  [("max_duty_cycle_raw", do let x ← at_ 0; .ok (.n (x &&& 0x0f))),
     ("max_duty_cycle_bits", do let x ← at_ 0; let v ← dutyCycleBits (x &&& 0x0f); .ok (.n v))]

def accRXParamSetupReq (p : Bytes) : List (String × Outcome Val) :=
  let at_ (i : Nat) : Outcome Nat := index "self.0[i]" p i
  [("dl_settings", do let x ← at_ 0; .ok (.n x)),
     ("rx1_dr_offset", do let x ← at_ 0; .ok (.n ((x >>> 4) &&& 0x07))),
     ("rx2_data_rate", do let x ← at_ 0; let d ← drFrom (x &&& 0xf); .ok (.n d)),
     ("frequency", do let s ← sliceFrom "frequency: &self.0[1..]" p 1; let v ← frequencyValue s; .ok (.n v))]

def accNewChannelReq (p : Bytes) : List (String × Outcome Val) :=
  let at_ (i : Nat) : Outcome Nat := index "self.0[i]" p i
  let drr (f : Nat → Nat) : Outcome Val := do
      let x ← at_ 4
      if (x >>> 4) < (x &&& 0x0f) then .ok (.err "InvalidDataRateRange") else .ok (.n (f x))
    [("channel_index", do let x ← at_ 0; .ok (.n x)),
     ("frequency", do let s ← slice "frequency: &self.0[1..4]" p 1 4; let v ← frequencyValue s; .ok (.n v)),
     ("data_rate_range", drr id), ("drr_max", drr (· >>> 4)), ("drr_min", drr (· &&& 0x0f))]

def accRXTimingSetupReq (p : Bytes) : List (String × Outcome Val) :=
  let at_ (i : Nat) : Outcome Nat := index "self.0[i]" p i
  [("delay", do let x ← at_ 0; .ok (.n (x &&& 0x0f)))]

def accTXParamSetupReq (p : Bytes) : List (String × Outcome Val) :=
  let at_ (i : Nat) : Outcome Nat := index "self.0[i]" p i
  let flag (k : Nat) : Outcome Val := do let x ← at_ 0; .ok (.b (bit x k))
  [("downlink_dwell_time", flag 5), ("uplink_dwell_time", flag 4),
     ("max_eirp", do
        let x ← at_ 0
        match maxEirpTable[x &&& 0b1111]? with
        | some v => .ok (.n v)
        | none => .panic "max_eirp: unreachable!()")]

def accDlChannelReq (p : Bytes) : List (String × Outcome Val) :=
  let at_ (i : Nat) : Outcome Nat := index "self.0[i]" p i
  [("channel_index", do let x ← at_ 0; .ok (.n x)),
     ("frequency", do let s ← slice "frequency: &self.0[1..4]" p 1 4; let v ← frequencyValue s; .ok (.n v))]

def accDeviceTimeAns (p : Bytes) : List (String × Outcome Val) :=
  let at_ (i : Nat) : Outcome Nat := index "self.0[i]" p i
  [("seconds", do
        let b3 ← at_ 3; let b2 ← at_ 2; let b1 ← at_ 1; let b0 ← at_ 0
        -- u32::from_le_bytes([self.0[3], self.0[2], self.0[1], self.0[0]])
        .ok (.n (b3 + 256 * b2 + 65536 * b1 + 16777216 * b0))),
     ("nano_seconds", do let x ← at_ 4; let v ← ckU32 "nano_seconds: * 3906250" (3906250 * x); .ok (.n v))]

def accLinkADRAns (p : Bytes) : List (String × Outcome Val) :=
  let at_ (i : Nat) : Outcome Nat := index "self.0[i]" p i
  let flag (k : Nat) : Outcome Val := do let x ← at_ 0; .ok (.b (bit x k))
  [("channel_mask_ack", flag 0), ("data_rate_ack", flag 1), ("powert_ack", flag 2),
     ("ack", do let x ← at_ 0; .ok (.b (x == 0x07)))]

def accRXParamSetupAns (p : Bytes) : List (String × Outcome Val) :=
  let at_ (i : Nat) : Outcome Nat := index "self.0[i]" p i
  let flag (k : Nat) : Outcome Val := do let x ← at_ 0; .ok (.b (bit x k))
  [("channel_ack", flag 0), ("rx2_data_rate_ack", flag 1), ("rx1_dr_offset_ack", flag 2),
     ("ack", do let x ← at_ 0; .ok (.b (x == 0x07)))]

def accDevStatusAns (p : Bytes) : List (String × Outcome Val) :=
  let at_ (i : Nat) : Outcome Nat := index "self.0[i]" p i
  [("battery", do let x ← at_ 0; .ok (.n x)), ("margin", do let x ← at_ 1; .ok (.i (margin6 x)))]

def accNewChannelAns (p : Bytes) : List (String × Outcome Val) :=
  let at_ (i : Nat) : Outcome Nat := index "self.0[i]" p i
  let flag (k : Nat) : Outcome Val := do let x ← at_ 0; .ok (.b (bit x k))
  [("channel_freq_ack", flag 0), ("data_rate_range_ack", flag 1), ("ack", do let x ← at_ 0; .ok (.b (x == 0x03)))]

def accDlChannelAns (p : Bytes) : List (String × Outcome Val) :=
  let at_ (i : Nat) : Outcome Nat := index "self.0[i]" p i
  let flag (k : Nat) : Outcome Val := do let x ← at_ 0; .ok (.b (bit x k))
  [("channel_freq_ack", flag 0), ("uplink_freq_ack", flag 1),
     ("ack", do let x ← at_ 0; .ok (.b (x &&& 0x03 == 0x03)))]

def accAdrBitChangeReq (p : Bytes) : List (String × Outcome Val) :=
  let at_ (i : Nat) : Outcome Nat := index "self.0[i]" p i
  [("adr_enable", do
        let x ← at_ 0
        .ok (if x = 0 then .b false else if x = 1 then .b true else .err "RFU"))]

def accTxPeriodicityChangeReq (p : Bytes) : List (String × Outcome Val) :=
  let at_ (i : Nat) : Outcome Nat := index "self.0[i]" p i
  [("periodicity", do
        let v ← at_ 0
        if v > 10 then .ok (.err "RFU")
        else if v = 0 then .ok .none
        else match periodicityTable[v - 1]? with
          | some s => .ok (.n s)
          | none => .panic "periodicity: unreachable!()")]

def accTxFramesCtrlReq (p : Bytes) : List (String × Outcome Val) :=
  let at_ (i : Nat) : Outcome Nat := index "self.0[i]" p i
  [("len", .ok (.n (max 1 p.length))),
     ("frame_type_override", do
        let x ← at_ 0
        .ok (if x = 0 then .none else if x = 1 then .b false else if x = 2 then .b true else .err "RFU"))]

def accEchoIncPayloadReq (p : Bytes) : List (String × Outcome Val) :=
  [("len", .ok (.n (max 1 p.length))),
     ("payload", do let s ← slice "payload: &self.0[0..self.len()]" p 0 (max 1 p.length); .ok (.hex s))]

def accEchoIncPayloadAns (p : Bytes) : List (String × Outcome Val) :=
  [("len", .ok (.n (max 1 p.length))), ("payload", .ok (.hex p))]

def accMcGroupStatusReq (p : Bytes) : List (String × Outcome Val) :=
  let at_ (i : Nat) : Outcome Nat := index "self.0[i]" p i
  [("req_group_mask", do let x ← at_ 0; .ok (.n (x &&& 0b1111)))]

def accMcGroupSetupReq (cph : Cipher) (p : Bytes) : List (String × Outcome Val) :=
  let at_ (i : Nat) : Outcome Nat := index "self.0[i]" p i
  [("mc_group_id_header", do let x ← at_ 0; .ok (.n (x &&& 0b11))),
     ("mc_addr", do
        let s ← slice "mc_addr: self.0[OFFSET..END]" p 1 5
        let s ← exact "mc_addr: try_into().unwrap()" 4 s
        .ok (.hex s)),
     ("mc_key_decrypted", do
        let s ← slice "mc_key_encrypted: &self.0[OFFSET..END]" p 5 21
        let s ← exact "mc_key_decrypted: try_into().unwrap()" 16 s
        let k ← cph.encryptBlock s
        .ok (.hex k)),
     ("min_mc_fcount", do
        let s ← slice "min_mc_fcount: &self.0[OFFSET..OFFSET + 4]" p 21 25
        let v ← u32FromLe "min_mc_fcount: try_into().unwrap()" s
        .ok (.n v)),
     ("max_mc_fcount", do
        let s ← slice "max_mc_fcount: &self.0[OFFSET..OFFSET + 4]" p 25 29
        let v ← u32FromLe "max_mc_fcount: try_into().unwrap()" s
        .ok (.n v))]

def accMcGroupDeleteReq (p : Bytes) : List (String × Outcome Val) :=
  let at_ (i : Nat) : Outcome Nat := index "self.0[i]" p i
  [("mc_group_id_header", do let x ← at_ 0; .ok (.n (x &&& 0b11)))]

def accPackageVersionAns (p : Bytes) : List (String × Outcome Val) :=
  let at_ (i : Nat) : Outcome Nat := index "self.0[i]" p i
  [("package_identifier", do let x ← at_ 0; .ok (.n x)), ("package_version", do let x ← at_ 1; .ok (.n x))]

def accMcGroupStatusAns (p : Bytes) : List (String × Outcome Val) :=
  let at_ (i : Nat) : Outcome Nat := index "self.0[i]" p i
  [("ans_group_mask", do let x ← at_ 0; .ok (.n (x &&& 0b1111))),
     ("nb_total_groups", do let x ← at_ 0; .ok (.n ((x >>> 4) &&& 0b111))),
     ("len", do let x ← at_ 0; .ok (.n (1 + mcGroupStatusRequiredLen x))),
     ("items", do
        let d ← sliceFrom "item_iterator: &self.0[1..]" p 1
        let l ← groupItems (d.length + 1) d 0
        .ok (.items l))]

def accMcGroupSetupAns (p : Bytes) : List (String × Outcome Val) :=
  let at_ (i : Nat) : Outcome Nat := index "self.0[i]" p i
  [("mc_group_id_header", do let x ← at_ 0; .ok (.n (x &&& 0b11)))]

def accMcGroupDeleteAns (p : Bytes) : List (String × Outcome Val) :=
  let at_ (i : Nat) : Outcome Nat := index "self.0[i]" p i
  [("mc_group_id_header", do let x ← at_ 0; .ok (.n (x &&& 0b11))),
     ("mc_group_undefined", do let x ← at_ 0; .ok (.b (x &&& 0b100 != 0)))]

/-- Every public accessor of a payload type, in a fixed order, applied to the payload bytes `p`. -/
def accessors (cph : Cipher) (ty : String) (p : Bytes) : List (String × Outcome Val) :=
  match ty with
  | "LinkCheckAnsPayload" => accLinkCheckAns p
  | "LinkADRReqPayload" => accLinkADRReq p
  | "DutyCycleReqPayload" => accDutyCycleReq p
  | "RXParamSetupReqPayload" => accRXParamSetupReq p
  | "NewChannelReqPayload" => accNewChannelReq p
  | "RXTimingSetupReqPayload" => accRXTimingSetupReq p
  | "TXParamSetupReqPayload" => accTXParamSetupReq p
  | "DlChannelReqPayload" => accDlChannelReq p
  | "DeviceTimeAnsPayload" => accDeviceTimeAns p
  | "LinkADRAnsPayload" => accLinkADRAns p
  | "RXParamSetupAnsPayload" => accRXParamSetupAns p
  | "DevStatusAnsPayload" => accDevStatusAns p
  | "NewChannelAnsPayload" => accNewChannelAns p
  | "DlChannelAnsPayload" => accDlChannelAns p
  | "AdrBitChangeReqPayload" => accAdrBitChangeReq p
  | "TxPeriodicityChangeReqPayload" => accTxPeriodicityChangeReq p
  | "TxFramesCtrlReqPayload" => accTxFramesCtrlReq p
  | "EchoIncPayloadReqPayload" => accEchoIncPayloadReq p
  | "EchoIncPayloadAnsPayload" => accEchoIncPayloadAns p
  | "McGroupStatusReqPayload" => accMcGroupStatusReq p
  | "McGroupSetupReqPayload" => accMcGroupSetupReq cph p
  | "McGroupDeleteReqPayload" => accMcGroupDeleteReq p
  | "PackageVersionAnsPayload" => accPackageVersionAns p
  | "McGroupStatusAnsPayload" => accMcGroupStatusAns p
  | "McGroupSetupAnsPayload" => accMcGroupSetupAns p
  | "McGroupDeleteAnsPayload" => accMcGroupDeleteAns p
  | _ => []

/-- `Payload::new(data)` (the checked public constructors), returning the payload slice the view holds
or the error name. Fixed-length types: `data.len() != max_len()` → `BufferTooShort`. -/
def newPayload (T : Table) (ty : String) (data : Bytes) : Outcome (Except String Bytes) :=
  match ty with
  | "TxFramesCtrlReqPayload" | "EchoIncPayloadReqPayload" | "EchoIncPayloadAnsPayload" =>
    if data.isEmpty then .ok (.error "BufferTooShort") else .ok (.ok data)
  | "McGroupStatusAnsPayload" =>
    if data.isEmpty then .ok (.error "BufferTooShort")
    else do
      let status ← index "McGroupStatusAnsPayload::new: data[0]" data 0
      let required := 1 + mcGroupStatusRequiredLen status
      if data.length < required then .ok (.error "BufferTooShort")
      else do
        let s ← slice "McGroupStatusAnsPayload::new: &data[0..required_len]" data 0 required
        .ok (.ok s)
  | _ =>
    match T.find? (fun e => e.payload == ty) with
    | some e =>
      match e.len with
      | some 0 => .ok (.ok [])       -- unit payloads: `new(_: &[u8])` ignores its argument
      | some n => if data.length ≠ n then .ok (.error "BufferTooShort") else .ok (.ok data)
      | none => .panic "newPayload: variable-length type without a modelled constructor"
    | none => .panic "newPayload: unknown payload type"

end MacCmd
