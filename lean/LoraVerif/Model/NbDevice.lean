import LoraVerif.Model.Device
/-!
# Model of the non-blocking front-end (`nb_device/state.rs`)

An explicit state machine over application events and radio events; every call into the radio
consumes one item of the harness' script (what the radio answers).  Rust's `i32`/`u32` timestamp
arithmetic is modelled with overflow checks (panic values).
-/
namespace Model

/-- what the scripted radio answers to `handle_event` -/
inductive NbItem where
  | dflt                       -- TxRequest→Txing, RxRequest→Rxing, CancelRx→Idle, Phy(TxDone ts)→TxDone ts, Phy(Rx f)→RxDone
  | err                        -- Err(PhyError)
  | txDoneNow (ts : Nat)       -- TxRequest answered with TxDone(ts) (synchronous radio)
  | idle                       -- an unexpected `Idle` response
  deriving DecidableEq, Repr

inductive NbPhyEvent where
  | txDone (ts : Nat)
  | rx (snr : Int) (v : RxView)
  deriving DecidableEq, Repr

inductive NbEvent where
  | join
  | send (data : List Nat) (port : Nat) (conf : Bool)
  | radio (e : NbPhyEvent)
  | timeout
  deriving DecidableEq, Repr

inductive NbState where
  | idle
  | sendingData (join : Bool) (tx : TxOut)
  | waitingForRxWindow (join : Bool) (tx : TxOut) (second : Bool) (t : Nat)
  | waitingForRx (join : Bool) (tx : TxOut) (second : Bool) (t : Nat)
  deriving DecidableEq, Repr

inductive NbResp where
  | mac (r : Response)
  | timeoutRequest (t : Nat)
  | uplinkSending (n : Nat)
  | errRadio
  | errState (s : String)
  | errMac
  deriving DecidableEq, Repr

structure NbCfg where
  /-- `Timings::get_rx_window_offset_ms` (i32) -/
  offset : Int
  /-- `Timings::get_rx_window_duration_ms` -/
  duration : Nat
  deriving DecidableEq, Repr

inductive NbCall where
  | txRequest (t : TxOut) (len : Nat)
  | rxRequest (rf : RfConfig)
  | cancelRx
  | phy
  deriving DecidableEq, Repr

structure NbRun where
  m : MacState
  st : NbState
  script : List NbItem
  calls : List NbCall
  downlinks : List (Nat × List Nat)
  /-- capacity `D` of the downlink queue; a downlink pushed onto a full queue is dropped -/
  dlCap : Nat := 8
  deriving Repr

def NbRun.next (r : NbRun) (c : NbCall) : NbItem × NbRun :=
  let r := { r with calls := c :: r.calls }
  match r.script with
  | [] => (.dflt, r)
  | i :: rest => (i, { r with script := rest })

/-- `data_rxwindow1_timeout`: `(delay as i32 + ts as i32 + offset) as u32` with i32 overflow checks -/
def rx1Timeout (delay ts : Nat) (offset : Int) : M Nat := do
  let a : Int := Rt.wrap .i32 delay
  let b : Int := Rt.wrap .i32 ts
  let s1 ← ofGen "t1 i32 overflow" (Rt.ck .i32 (a + b))
  let s2 ← ofGen "t1 i32 overflow" (Rt.ck .i32 (s1 + offset))
  pure (Rt.wrap .u32 s2).toNat

def u32Add (a b : Nat) : M Nat := if a + b > 4294967295 then panic "u32 add overflow" else pure (a + b)
def u32Sub (a b : Nat) : M Nat := if b > a then panic "u32 sub underflow" else pure (a - b)

/-- after TxDone(ts): go wait for RX1 -/
def afterTxDone (cfg : NbCfg) (r : NbRun) (join : Bool) (tx : TxOut) (ts : Nat) : M (NbResp × NbRun) := do
  let t1 ← rx1Timeout (macRxDelay r.m join false) ts cfg.offset
  pure (.timeoutRequest t1, { r with st := .waitingForRxWindow join tx false t1 })

/-- Idle: a transmission request (join or data) -/
def idleTx (cfg : NbCfg) (r : NbRun) (join : Bool) (tx : TxOut) (len : Nat) (n : Nat) : M (NbResp × NbRun) := do
  let (i, r) := r.next (.txRequest tx len)
  match i with
  | .dflt => pure (.uplinkSending n, { r with st := .sendingData join tx })
  | .txDoneNow ts => afterTxDone cfg r join tx ts
  | .idle =>
    -- the frame was handed to the radio: never reuse its counter (expiry is reported even so)
    pure (if faultExpired r.m then .mac .sessionExpired else .errState "UnexpectedRadioResponse", { r with m := faultAfterTx r.m })
  | .err => pure (if faultExpired r.m then .mac .sessionExpired else .errRadio, { r with m := faultAfterTx r.m })

def nbStep {σ} (g : Rng σ) (cfg : NbCfg) (r : NbRun) (ev : NbEvent) (rs : σ) : M (NbResp × NbRun × σ) :=
  match r.st with
  | .idle =>
    match ev with
    | .join => do
      let (out, m, rs) ← macJoinOtaa g r.m rs
      let (resp, r) ← idleTx cfg { r with m := m } true out.tx 23 out.devNonce
      pure (resp, r, rs)
    | .timeout => pure (.mac .noUpdate, r, rs)
    | .radio _ => pure (.errState "RadioEventWhileIdle", r, rs)
    | .send data port conf => do
      let (o, m, rs) ← macSend g r.m data port conf rs
      let r := { r with m := m }
      match o with
      | none => pure (.errMac, r, rs)
      | some out =>
        let (resp, r) ← idleTx cfg r false out.tx (frameLen out.frame) out.frame.fcnt
        pure (resp, r, rs)
  | .sendingData join tx =>
    match ev with
    | .radio e => do
      let (i, r) := r.next .phy
      match i with
      | .err => pure (.errRadio, r, rs)
      | .idle => panic "SendingData: Unexpected radio response"
      | _ =>
        match e with
        | .txDone ts => do
          let (resp, r) ← afterTxDone cfg r join tx ts
          pure (resp, r, rs)
        | .rx _ _ => panic "SendingData: Unexpected radio response"
    | .timeout => pure (.mac .noUpdate, r, rs)
    | _ => pure (.errState "TxRequestDuringTx", r, rs)
  | .waitingForRxWindow join tx second t =>
    match ev with
    | .timeout => do
      let rf := if second then tx.rx2 else tx.rx1
      let (i, r) := r.next (.rxRequest rf)
      match i with
      | .err => pure (.errRadio, r, rs)
      | _ => do
        let close ← (if second then u32Add t cfg.duration else do
          let between ← u32Sub (macRxDelay r.m join true) (macRxDelay r.m join false)
          if between > cfg.duration then u32Add t cfg.duration else u32Add t between)
        pure (.timeoutRequest close, { r with st := .waitingForRx join tx second t }, rs)
    | .radio _ => pure (.errState "RadioEventWhileWaitingForRxWindow", r, rs)
    | .join => pure (.errState "NewSessionWhileWaitingForRxWindow", r, rs)
    | .send _ _ _ => pure (.errState "SendDataWhileWaitingForRxWindow", r, rs)
  | .waitingForRx join tx second t =>
    match ev with
    | .radio e => do
      let (i, r) := r.next .phy
      match i with
      | .err => pure (.errRadio, r, rs)
      | .idle => pure (.mac .noUpdate, r, rs)
      | _ =>
        match e with
        | .txDone _ => pure (.mac .noUpdate, r, rs)
        | .rx snr v => do
          let rf := if second then tx.rx2 else tx.rx1
          let (o, m) ← macHandleRx r.m v rf.maxPayload.toNat snr false
          let r := { r with m := m }
          match o with
          | some o =>
            if o.resp == .noUpdate then pure (.mac .noUpdate, r, rs)
            else
              let r := match o.downlink with
                | some d => if r.downlinks.length < r.dlCap then { r with downlinks := d :: r.downlinks } else r
                | none => r
              pure (.mac o.resp, { r with st := .idle }, rs)
          | none => pure (.mac .noUpdate, r, rs)
    | .timeout => do
      let (i, r) := r.next .cancelRx
      match i with
      | .err => pure (.errRadio, r, rs)
      | _ =>
        if second then
          let (resp, m) := macRx2Complete r.m
          pure (.mac resp, { r with m := m, st := .idle }, rs)
        else do
          let between ← u32Sub (macRxDelay r.m join true) (macRxDelay r.m join false)
          let t2 ← u32Add t between
          pure (.timeoutRequest t2, { r with st := .waitingForRxWindow join tx true t2 }, rs)
    | .join => pure (.errState "NewSessionWhileWaitingForRx", r, rs)
    | .send _ _ _ => pure (.errState "SendDataWhileWaitingForRx", r, rs)

end Model
