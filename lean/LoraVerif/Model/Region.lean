import LoraVerif.Gen.Region
/-!
# Model of `lorawan-device/src/region/*` (channel plans, masks, join-channel walk)

Hand-written, executable, import-free apart from the GENERATED tables (`Gen.Region`: data-rate tables,
frequency maps, `tx_power_adjust`, `get_rx_datarate`, regenerated from the source on every run).
Rust panics are values (`Fault.panic site`), RNG-driven retry loops take the generator as a
parameter and a fuel; running out of fuel is `Fault.hang site`.
Tied to the code by the correspondence harness (suites C04/C08/C09/C10, through the `verif` hook).
-/
open Gen.Region Gen.Modulation

namespace Model

inductive Fault where
  | panic (site : String)
  | hang (site : String)
  deriving Repr, DecidableEq

abbrev M := Except Fault

def panic {α} (site : String) : M α := .error (.panic site)
def hang {α} (site : String) : M α := .error (.hang site)

/-- lift a generated checked computation (`none` = overflow / index / unreachable panic) -/
def ofGen {α} (site : String) : Option α → M α
  | some a => .ok a
  | none => panic site

/-- random generator interface: the harness owns the RNG of the real device as well -/
abbrev Rng (σ : Type) := σ → Nat × σ

/-- draw a `u32` -/
def draw {σ} (g : Rng σ) (s : σ) : Nat × σ := let (v, s') := g s; (v % 4294967296, s')

/-- how many draws a retry loop may consume before the model declares a hang (the harness gives
the real code the same budget) -/
def loopFuel : Nat := 4096

inductive RegionId where
  | AS923_1 | AS923_2 | AS923_3 | AS923_4 | AU915 | EU868 | EU433 | IN865 | US915
  deriving DecidableEq, Repr, Inhabited

def RegionId.all : List RegionId := [.AS923_1, .AS923_2, .AS923_3, .AS923_4, .AU915, .EU868, .EU433, .IN865, .US915]

def RegionId.name : RegionId → String
  | .AS923_1 => "AS923_1" | .AS923_2 => "AS923_2" | .AS923_3 => "AS923_3" | .AS923_4 => "AS923_4"
  | .AU915 => "AU915" | .EU868 => "EU868" | .EU433 => "EU433" | .IN865 => "IN865" | .US915 => "US915"

def RegionId.ofName? (s : String) : Option RegionId := RegionId.all.find? (fun r => r.name == s)

def RegionId.isFixed : RegionId → Bool
  | .AU915 | .US915 => true
  | _ => false

/-! ## static regional parameters -/

def datarates : RegionId → List (Option Datarate)
  | .AS923_1 | .AS923_2 | .AS923_3 | .AS923_4 => AS923_DATARATES
  | .AU915 => AU915_DATARATES
  | .EU868 => EU868_DATARATES
  | .EU433 => EU433_DATARATES
  | .IN865 => IN865_DATARATES
  | .US915 => US915_DATARATES

/-- `FixedChannelRegion::MAX_UPLINK_DR`: data rates above it are downlink-only -/
def maxUplinkDr : RegionId → Nat
  | .US915 => 4
  | .AU915 => 6
  | _ => 15

/-- `R::datarates()[dr as usize]` — indexing a 15-element array with a `u8` (panics past the end) -/
def indexDatarate (r : RegionId) (dr : Nat) : M (Option Datarate) :=
  match (datarates r)[dr]? with
  | some d => .ok d
  | none => panic "datarates()[dr]"

/-- `get_datarate`: `datarates().get(dr)?.as_ref()` — an undefined rate is just "not supported" -/
def getDatarate (r : RegionId) (dr : Nat) : Option Datarate :=
  match (datarates r)[dr]? with
  | some d => d
  | none => none

/-- `is_uplink_datarate` -/
def isUplinkDatarate (r : RegionId) (dr : Nat) : Bool :=
  (if r.isFixed then dr ≤ maxUplinkDr r else true) && (getDatarate r dr).isSome

def drOfNat (n : Nat) : M DR := ofGen "DR::from" (u8.into_DR (n : Int))

def rxDatarate (r : RegionId) (txDr : DR) (off : Nat) (w : Window) : M DR :=
  ofGen "get_rx_datarate" <| match r with
  | .AS923_1 | .AS923_2 | .AS923_3 | .AS923_4 => AS923Region.get_rx_datarate txDr off w
  | .AU915 => AU915Region.get_rx_datarate txDr off w
  | .EU868 => EU868Region.get_rx_datarate txDr off w
  | .EU433 => EU433Region.get_rx_datarate txDr off w
  | .IN865 => IN865Region.get_rx_datarate txDr off w
  | .US915 => US915Region.get_rx_datarate txDr off w

/-- `check_tx_power` = the region's `tx_power_adjust` -/
def txPowerAdjust (r : RegionId) (p : Nat) : M (Option Nat) := do
  let v ← ofGen "tx_power_adjust" <| match r with
    | .AS923_1 | .AS923_2 | .AS923_3 | .AS923_4 => AS923Region.tx_power_adjust p
    | .AU915 => AU915Region.tx_power_adjust p
    | .EU868 => EU868Region.tx_power_adjust p
    | .EU433 => EU433Region.tx_power_adjust p
    | .IN865 => IN865Region.tx_power_adjust p
    | .US915 => US915Region.tx_power_adjust p
  pure (v.map Int.toNat)

def rx2Frequency : RegionId → Nat
  | .AS923_1 => 923200000 | .AS923_2 => 921400000 | .AS923_3 => 916600000 | .AS923_4 => 917300000
  | .AU915 => 923300000 | .EU868 => 869525000 | .EU433 => 434665000 | .IN865 => 866550000
  | .US915 => 923300000

def maxRx1DrOffset : RegionId → Nat
  | .AS923_1 | .AS923_2 | .AS923_3 | .AS923_4 => 7
  | .AU915 => 5 | .EU868 => 5 | .EU433 => 5 | .IN865 => 7 | .US915 => 3

def frequencyValid (r : RegionId) (f : Nat) : Bool :=
  match r with
  | .AS923_1 | .AS923_2 | .AS923_3 => 915000000 ≤ f && f ≤ 928000000
  | .AS923_4 => 917000000 ≤ f && f ≤ 920000000
  | .AU915 => 915000000 ≤ f && f ≤ 928000000
  | .EU868 => 863000000 ≤ f && f ≤ 870000000
  | .EU433 => 433050000 ≤ f && f ≤ 434790000
  | .IN865 => 865000000 ≤ f && f ≤ 867000000
  | .US915 => 902000000 ≤ f && f ≤ 928000000

def numJoinChannels : RegionId → Nat
  | .AS923_1 | .AS923_2 | .AS923_3 | .AS923_4 => 2
  | _ => 3

def rx1DrOffsetValidate (r : RegionId) (v : Nat) : Option Nat :=
  if v ≤ maxRx1DrOffset r then some v else none

/-- `FixedChannelRegion::JOIN_DR_500KHZ` -/
def join500kDr : RegionId → DR
  | .AU915 => DR._6
  | _ => DR._4

def uplinkChannels : RegionId → List Int
  | .AU915 => AU915_UPLINK_CHANNEL_MAP
  | _ => US915_UPLINK_CHANNEL_MAP

def downlinkChannels : RegionId → List Int
  | .AU915 => AU915_DOWNLINK_CHANNEL_MAP
  | _ => US915_DOWNLINK_CHANNEL_MAP

/-! ## channel masks (`ChannelMask<9>`) -/

abbrev Mask := List Nat

def Mask.default : Mask := List.replicate 9 255

def Mask.setBank (m : Mask) (i v : Nat) : M Mask :=
  if i < m.length then .ok (m.set i v) else panic "ChannelMask::set_bank"

def Mask.setChannel (m : Mask) (ch : Nat) (on : Bool) : M Mask :=
  match m[ch / 8]? with
  | some b =>
    let flag := 1 <<< (ch % 8)
    .ok (m.set (ch / 8) (if on then b ||| flag else b &&& (255 - flag)))
  | none => panic "ChannelMask::set_channel"

/-- `is_enabled(i).unwrap()` -/
def Mask.isEnabled (m : Mask) (i : Nat) : M Bool :=
  if i > m.length * 8 - 1 then panic "ChannelMask::is_enabled unwrap"
  else match m[i / 8]? with
    | some b => .ok (b.testBit (i % 8))
    | none => panic "ChannelMask::is_enabled index"

/-! ## dynamic plans -/

structure Channel where
  freq : Nat
  drRange : Nat
  dlFreq : Option Nat
  deriving DecidableEq, Repr

def Channel.rx1Frequency (c : Channel) : Nat := match c.dlFreq with | some f => f | none => c.freq

structure DynPlan where
  channels : List (Option Channel)   -- 16 slots
  mask : Mask
  deriving DecidableEq, Repr

def mkChan (f : Nat) (dmin dmax : Nat) : Option Channel := some { freq := f, drRange := dmax * 16 + dmin, dlFreq := none }

def DynPlan.init (r : RegionId) : DynPlan :=
  let chans : List (Option Channel) := match r with
    | .EU868 => [mkChan 868100000 0 5, mkChan 868300000 0 5, mkChan 868500000 0 5]
    | .EU433 => [mkChan 433175000 0 5, mkChan 433375000 0 5, mkChan 433575000 0 5]
    | .IN865 => [mkChan 865062500 0 5, mkChan 865402500 0 5, mkChan 865985000 0 5]
    | .AS923_1 => [mkChan 923200000 2 5, mkChan 923400000 2 5]
    | .AS923_2 => [mkChan (923200000 - 1800000) 2 5, mkChan (923400000 - 1800000) 2 5]
    | .AS923_3 => [mkChan (923200000 - 6600000) 2 5, mkChan (923400000 - 6600000) 2 5]
    | .AS923_4 => [mkChan (923200000 - 5900000) 2 5, mkChan (923400000 - 5900000) 2 5]
    | _ => []
  { channels := chans ++ List.replicate (16 - chans.length) none, mask := Mask.default }

/-! ## fixed plans: join channel walk -/

structure JoinChannels where
  maxRetries : Nat := 0
  numRetries : Nat := 0
  preferredSubband : Option Nat := none     -- 1..8
  avail : Mask := Mask.default
  availPrev : Option Nat := none
  previousChannel : Nat := 0
  deriving DecidableEq, Repr

structure FixPlan where
  mask : Mask
  jc : JoinChannels
  deriving DecidableEq, Repr

inductive Plan where
  | dyn (p : DynPlan)
  | fix (p : FixPlan)
  deriving DecidableEq, Repr

structure RegionState where
  id : RegionId
  plan : Plan
  deriving DecidableEq, Repr

def RegionState.init (r : RegionId) : RegionState :=
  { id := r, plan := if r.isFixed then .fix { mask := Mask.default, jc := {} } else .dyn (DynPlan.init r) }

/-- `set_join_bias(subband, max_retries)` of US915/AU915 (configuration-time API) -/
def RegionState.setJoinBias (s : RegionState) (subband maxRetries : Nat) : RegionState :=
  match s.plan with
  | .fix p => { s with plan := .fix { p with jc := { p.jc with preferredSubband := some subband, maxRetries := maxRetries } } }
  | .dyn _ => s

def JoinChannels.clearBias (j : JoinChannels) : JoinChannels := { j with preferredSubband := none, maxRetries := 0 }

def JoinChannels.reset (j : JoinChannels) : JoinChannels := { j with numRetries := 0, avail := Mask.default, availPrev := none }

def JoinChannels.hasBiasAndNotExhausted (j : JoinChannels) : Bool :=
  j.preferredSubband.isSome && j.numRetries < j.maxRetries && j.numRetries != 0

/-- the `entropy` loop of `get_next_channel_inner`: three bits at a time, a fresh draw every ten -/
def entropyLoop {σ} (g : Rng σ) (avail : Mask) (bank : Nat) : Nat → Nat → Nat → σ → M (Nat × σ)
  | 0, _, _, _ => hang "join_channels entropy loop"
  | fuel + 1, entropy, used, s => do
    let channel := (entropy % 8) + bank * 8
    if (← avail.isEnabled channel) then pure (channel, s)
    else
      let (entropy, used, s) :=
        if used == 10 then
          let (e, s') := draw g s
          (e, 0, s')
        else (entropy, used, s)
      entropyLoop g avail bank fuel (entropy / 8) (used + 1) s

def availGetNextInner {σ} (g : Rng σ) (avail : Mask) (prev : Option Nat) (s : σ) : M (Nat × σ) :=
  match prev with
  | some previous => do
    let next := (previous + 8) % 72
    if (← avail.isEnabled next) then pure (next, s)
    else
      let bank := next / 8
      let (e, s) := draw g s
      entropyLoop g avail bank loopFuel e 1 s
  | none =>
    let (e, s) := draw g s
    pure ((e % 256) % 64, s)

def availIsExhausted (m : Mask) : Bool := m.all (· == 0)

/-- `AvailableChannels::get_next` -/
def availGetNext {σ} (g : Rng σ) (j : JoinChannels) (s : σ) : M (Nat × JoinChannels × σ) := do
  let (avail, prev) := if availIsExhausted j.avail then (Mask.default, none) else (j.avail, j.availPrev)
  let (ch, s) ← availGetNextInner g avail prev s
  let avail ← avail.setChannel ch false
  pure (ch, { j with avail := avail, availPrev := some ch }, s)

/-- `JoinChannels::get_next_channel` -/
def JoinChannels.getNextChannel {σ} (g : Rng σ) (j : JoinChannels) (s : σ) : M (Nat × JoinChannels × σ) :=
  match j.preferredSubband with
  | some sb =>
    if j.numRetries < j.maxRetries then do
      let j := { j with numRetries := j.numRetries + 1 }
      let (e, s) := draw g s
      let channel := (e % 8) + ((sb - 1) % 256) * 8
      -- `(sb as usize - 1) as u8 * 8` is u8 arithmetic: overflow panics (sb ≤ 8, so it cannot)
      if channel > 255 then panic "get_next_channel u8 overflow" else
      let j ← if j.numRetries == j.maxRetries then do
          let a ← j.avail.setChannel channel false
          pure { j with availPrev := some channel, avail := a }
        else pure j
      pure (channel, { j with previousChannel := channel }, s)
    else do
      let j := { j with numRetries := j.numRetries + 1 }
      availGetNext g j s
  | none => do
    let j := { j with numRetries := j.numRetries + 1 }
    availGetNext g j s

/-- `JoinChannels::first_data_channel` -/
def JoinChannels.firstDataChannel {σ} (g : Rng σ) (j : JoinChannels) (s : σ) : Option Nat × JoinChannels × σ :=
  if j.preferredSubband.isSome && j.numRetries != 0 then
    let j := j.clearBias
    let sb := if j.previousChannel < 64 then j.previousChannel / 8 else j.previousChannel % 8
    let (e, s) := draw g s
    (some (e % 8 + sb * 8), j, s)
  else (none, j, s)

def setBanks : Mask → List (Nat × Nat) → M Mask
  | m, [] => .ok m
  | m, (i, v) :: rest => do setBanks (← m.setBank i v) rest

def anyM {α} (f : α → M Bool) : List α → M Bool
  | [] => .ok false
  | a :: as => do if (← f a) then pure true else anyM f as

/-! ## the RegionHandler operations -/

structure TxChannel where
  dr : DR
  datarate : Datarate
  frequency : Nat
  rx1Frequency : Nat
  deriving Repr

inductive FrameKind where
  | join | data
  deriving DecidableEq, Repr

def unwrapDatarate (site : String) : Option Datarate → M Datarate
  | some d => .ok d
  | none => panic site

/-- `rposition(is_some).unwrap() + 1` -/
def DynPlan.range (p : DynPlan) : M Nat :=
  let idxs := (List.range p.channels.length).filter (fun i => match p.channels[i]? with | some (some _) => true | _ => false)
  match idxs.getLast? with
  | some i => .ok (i + 1)
  | none => panic "get_random_in_range rposition unwrap"

def DynPlan.randomInRange {σ} (g : Rng σ) (p : DynPlan) (s : σ) : M (Nat × σ) := do
  let range ← p.range
  let cm := if range > 16 then 31 else if range > 8 then 15 else 7
  let (e, s) := draw g s
  pure (e % (cm + 1), s)

/-- is channel slot `i` currently usable for a data uplink -/
def DynPlan.usable (p : DynPlan) (i : Nat) : M (Option Channel) := do
  if (← p.mask.isEnabled i) then
    match p.channels[i]? with
    | some c => pure c
    | none => panic "channels[channel]"
  else pure none

def dynDataLoop {σ} (g : Rng σ) (p : DynPlan) : Nat → σ → M (Channel × σ)
  | 0, _ => hang "dynamic select_tx_channel"
  | fuel + 1, s => do
    let (i, s) ← p.randomInRange g s
    match (← p.usable i) with
    | some c => pure (c, s)
    | none => dynDataLoop g p fuel s

def dynJoinLoop {σ} (g : Rng σ) (n : Nat) : Nat → σ → M (Nat × σ)
  | 0, _ => hang "dynamic join channel loop"
  | fuel + 1, s =>
    let (e, s) := draw g s
    let idx := e % 4
    if idx ≥ n then dynJoinLoop g n fuel s else pure (idx, s)

def fixedMaskLoop {σ} (g : Rng σ) (mask : Mask) (bits base : Nat) : Nat → σ → M (Nat × σ)
  | 0, _ => hang "fixed select_tx_channel"
  | fuel + 1, s => do
    let (e, s) := draw g s
    let ch := e % bits
    if (← mask.isEnabled (ch + base)) then pure (base + ch, s) else fixedMaskLoop g mask bits base fuel s

def selectTxChannel {σ} (g : Rng σ) (rs : RegionState) (datarate : DR) (frame : FrameKind) (s : σ) :
    M (TxChannel × RegionState × σ) :=
  match rs.plan with
  | .dyn p => do
    let drv ← indexDatarate rs.id datarate.toInt.toNat
    match frame with
    | .join =>
      let (idx, s) ← dynJoinLoop g (numJoinChannels rs.id) loopFuel s
      match p.channels[idx]? with
      | some (some c) =>
        let d ← unwrapDatarate "datarates()[dr].unwrap" drv
        pure ({ dr := datarate, datarate := d, frequency := c.freq, rx1Frequency := c.rx1Frequency }, rs, s)
      | _ => panic "join channel unwrap"
    | .data =>
      -- fall back to the default channels when the plan offers no usable channel
      let usableAny ← anyM (fun i => do pure (← p.usable i).isSome) (List.range 16)
      let p ← (if usableAny then pure p else do
        let m ← (List.range (numJoinChannels rs.id)).foldlM (fun m i => m.setChannel i true) p.mask
        pure { p with mask := m })
      let (c, s) ← dynDataLoop g p loopFuel s
      let d ← unwrapDatarate "datarates()[dr].unwrap" drv
      pure ({ dr := datarate, datarate := d, frequency := c.freq, rx1Frequency := c.rx1Frequency }, { rs with plan := .dyn p }, s)
  | .fix p => do
    let joinDr (ch : Nat) : DR := if ch < 64 then DR._0 else join500kDr rs.id
    let (dr, channel, jc, mask, s) ← (match frame with
      | .join => do
        let (ch, jc, s) ← p.jc.getNextChannel g s
        pure (joinDr ch, ch, jc, p.mask, s)
      | .data => do
        -- the bias is only a preference: a biased channel the mask disables is never used
        let (biased, jc0, s) ← (if p.jc.hasBiasAndNotExhausted then do
            let (ch, jc, s) ← p.jc.getNextChannel g s
            let en ← p.mask.isEnabled ch
            pure ((if en then some ch else none), jc, s)
          else pure (none, p.jc, s))
        match biased with
        | some ch => pure (joinDr ch, ch, jc0, p.mask, s)
        | none =>
          let (pref, jc, s) := jc0.firstDataChannel g s
          let d ← unwrapDatarate "datarates()[datarate].unwrap" (← indexDatarate rs.id datarate.toInt.toNat)
          -- the sub-band that served the join is only a preference
          let usePref ← (match pref with
            | some ch => do
              let en ← p.mask.isEnabled ch
              pure (en && d.bandwidth == Bandwidth._125KHz)
            | none => pure false)
          match pref, usePref with
          | some ch, true => pure (datarate, ch, jc, p.mask, s)
          | _, _ =>
            -- re-enable the channels of the needed bandwidth when the mask offers none
            if d.bandwidth == Bandwidth._500KHz then
              let any500 ← anyM (fun i => p.mask.isEnabled i) ((List.range 8).map (· + 64))
              let mask ← (if any500 then pure p.mask else p.mask.setBank 8 255)
              let (ch, s) ← fixedMaskLoop g mask 8 64 loopFuel s
              pure (datarate, ch, jc, mask, s)
            else
              let any125 ← anyM (fun i => p.mask.isEnabled i) (List.range 64)
              let mask ← (if any125 then pure p.mask else setBanks p.mask ((List.range 8).map (fun i => (i, 255))))
              let (ch, s) ← fixedMaskLoop g mask 64 0 loopFuel s
              pure (datarate, ch, jc, mask, s))
    let d ← unwrapDatarate "datarates()[dr].unwrap" (← indexDatarate rs.id dr.toInt.toNat)
    match (uplinkChannels rs.id)[channel]?, (downlinkChannels rs.id)[channel % 8]? with
    | some f, some f1 =>
      pure ({ dr := dr, datarate := d, frequency := f.toNat, rx1Frequency := f1.toNat }, { rs with plan := .fix { mask := mask, jc := jc } }, s)
    | _, _ => panic "uplink_channels()[channel]"

/-- CFList of a JoinAccept as the parser exposes it -/
inductive CfList where
  | dynamicChannel (freqs : List Nat)      -- five frequencies in Hz
  | fixedChannel (mask : Mask)
  deriving DecidableEq, Repr

def setChannelSlots (r : RegionId) : List (Option Channel) → Nat → List Nat → M (List (Option Channel))
  | chans, _, [] => .ok chans
  | chans, i, f :: fs =>
    if i < chans.length then
      let chans' := if f == 0 then chans.set i none
        else if frequencyValid r f then chans.set i (mkChan f 0 5) else chans
      setChannelSlots r chans' (i + 1) fs
    else panic "channels[index] (CFList)"

def processJoinAccept (rs : RegionState) (cf : Option CfList) : M RegionState :=
  match rs.plan, cf with
  | .dyn p, some (.dynamicChannel freqs) => do
    let chans ← setChannelSlots rs.id p.channels (numJoinChannels rs.id) freqs
    pure { rs with plan := .dyn { p with channels := chans } }
  | .fix p, some (.fixedChannel m) => pure { rs with plan := .fix { mask := m, jc := p.jc.reset } }
  | _, _ => pure rs

def channelMaskGet (rs : RegionState) : Mask :=
  match rs.plan with | .dyn p => p.mask | .fix p => p.mask

def channelMaskSet (rs : RegionState) (m : Mask) : RegionState :=
  match rs.plan with
  | .dyn p => { rs with plan := .dyn { p with mask := m } }
  | .fix p => { rs with plan := .fix { mask := m, jc := p.jc.reset } }

/-- `channel_mask_update`; `none` = the region does not define this ChMaskCntl -/
def channelMaskUpdate (rs : RegionState) (m : Mask) (cntl : Nat) (b0 b1 : Nat) : M (Option Mask) :=
  match rs.plan with
  | .dyn _ =>
    if cntl == 0 then do
      let m ← m.setBank 0 b0
      let m ← m.setBank 1 b1
      pure (some m)
    else if cntl == 6 then do
      let m ← setBanks m ((List.range 8).map (fun i => (i, 255)))
      pure (some m)
    else pure none
  | .fix _ =>
    if cntl ≤ 3 then do
      let m ← m.setBank (cntl * 2) b0
      let m ← m.setBank (cntl * 2 + 1) b1
      pure (some m)
    else if cntl == 4 then do
      pure (some (← m.setBank 8 b0))
    else if cntl == 5 then do
      let m ← setBanks m ((List.range 8).map (fun i => (i, if b0.testBit i then 255 else 0)))
      let m ← m.setBank 8 b0
      pure (some m)
    else if cntl == 6 then do
      let m ← setBanks m ((List.range 8).map (fun i => (i, 255)))
      pure (some (← m.setBank 8 b0))
    else if cntl == 7 then do
      let m ← setBanks m ((List.range 8).map (fun i => (i, 0)))
      pure (some (← m.setBank 8 b0))
    else pure none

def countEnabled (m : Mask) : List Nat → Nat → M Nat
  | [], acc => .ok acc
  | i :: is, acc => do
    if acc ≥ 2 then pure acc
    else if (← m.isEnabled i) then countEnabled m is (acc + 1) else countEnabled m is acc

def channelMaskValidate (rs : RegionState) (m : Mask) (dr : Option DR) : M Bool :=
  match rs.plan with
  | .dyn p =>
    anyM (fun i => do
      if (← m.isEnabled i) then
        match p.channels[i]? with
        | some c => pure c.isSome
        | none => panic "channels[i]"
      else pure false) (List.range 16)
  | .fix _ =>
    match dr with
    | none => pure false
    | some dr => do
      match (← indexDatarate rs.id dr.toInt.toNat) with
      | none => pure false
      | some d =>
        if d.bandwidth == Bandwidth._500KHz then anyM (fun i => m.isEnabled i) ((List.range 8).map (· + 64))
        else if d.bandwidth == Bandwidth._125KHz then do
          let n ← countEnabled m (List.range 64) 0
          pure (n == 2)
        else pure true

/-- `channel_dl_update` (dynamic plans only; fixed plans: `unreachable!()`) -/
def channelDlUpdate (rs : RegionState) (index freq : Nat) : M ((Bool × Bool) × RegionState) :=
  match rs.plan with
  | .fix _ => panic "channel_dl_update unreachable"
  | .dyn p => do
    let fv := frequencyValid rs.id freq
    if index ≥ 16 then pure ((fv, false), rs)
    else
      let en ← p.mask.isEnabled index
      match p.channels[index]? with
      | none => panic "channels[index]"
      | some slot =>
        match en, slot with
        | true, some c =>
          if c.freq != 0 then
            if fv then
              let c' := { c with dlFreq := if freq == c.freq then none else some freq }
              pure ((fv, true), { rs with plan := .dyn { p with channels := p.channels.set index (some c') } })
            else pure ((fv, true), rs)
          else pure ((fv, false), rs)
        | _, _ => pure ((fv, false), rs)

def allM {α} (f : α → M Bool) : List α → M Bool
  | [] => .ok true
  | a :: as => do if (← f a) then allM f as else pure false

/-- `handle_new_channel`; `drRange = none` when the DataRateRange byte is malformed (min > max) -/
def handleNewChannel (rs : RegionState) (index freq : Nat) (drRange : Option Nat) : M ((Bool × Bool) × RegionState) :=
  match rs.plan with
  | .fix _ => panic "handle_new_channel unreachable"
  | .dyn p =>
    if index < numJoinChannels rs.id then pure ((false, false), rs)
    else if index ≥ 16 then pure ((false, false), rs)
    else if freq == 0 then do
      let m ← p.mask.setChannel index false
      pure ((true, true), { rs with plan := .dyn { channels := p.channels.set index none, mask := m } })
    else do
      let fv := frequencyValid rs.id freq
      match drRange with
      | none => pure ((fv, false), rs)
      | some r =>
        let dmax := r / 16
        let dmin := r % 16
        let supported ← (if dmax < 15 then
            allM (fun c => do pure (← indexDatarate rs.id c).isSome) ((List.range (dmax + 1)).filter (· ≥ dmin))
          else pure false)
        if fv && supported then do
          let m ← p.mask.setChannel index true
          let ch : Channel := { freq := freq, drRange := r, dlFreq := none }
          pure ((fv, supported), { rs with plan := .dyn { channels := p.channels.set index (some ch), mask := m } })
        else pure ((fv, supported), rs)

end Model
