/-!
# Text forms of identifiers and keys, as coded

* parser.rs `wire_value_newtype!` (DevAddr, DevEui, JoinEui, McAddr, DevNonce, JoinNonce, NetId):
  `Display` = `write!(f, "{:0width$x}", self.value(), width = 2 * N)` with `value()` the little-endian
  integer of the wire bytes; `FromStr` = `s.len() != 2 * N → Err`, `<int>::from_str_radix(s, 16)`,
  `from_value` (little-endian bytes of the value, the low `N` of them).
* string.rs `fixed_len_struct_impl_to_string_msb!` (the nine AES-128 key types): `hex::encode_to_slice`
  of the 16 bytes / `hex::decode_to_slice`;
  `fixed_len_struct_impl_string_lsb!` (keys::DevEui, keys::AppEui): the same with the byte order reversed.

Bytes are `Nat` (< 256), strings are `List Char`.  Import-free.
-/
namespace HexText

abbrev Bytes := List Nat

/-- lower-case hex digit of `n < 16` (what `{:x}` and the `hex` crate print) -/
def digit (n : Nat) : Char :=
  if n < 10 then Char.ofNat (48 + n) else Char.ofNat (87 + n)

/-- value of a hex digit, either case (`char::to_digit(16)` / `hex::val`) -/
def digitVal? (c : Char) : Option Nat :=
  let n := c.toNat
  if 48 ≤ n ∧ n ≤ 57 then some (n - 48)
  else if 97 ≤ n ∧ n ≤ 102 then some (n - 87)
  else if 65 ≤ n ∧ n ≤ 70 then some (n - 55)
  else none

/-- `value()`: little-endian integer of the wire bytes -/
def leValue : Bytes → Nat
  | [] => 0
  | b :: bs => b + 256 * leValue bs

/-- the hex digits of `v`, most significant first (`{:x}`), via `fuel` divisions -/
def hexDigits : Nat → Nat → List Char
  | 0, _ => []
  | fuel + 1, v => if v < 16 then [digit v] else hexDigits fuel (v / 16) ++ [digit (v % 16)]

/-- exactly `w` hex digits of `v`, most significant first (the low `4w` bits) -/
def hexN : Nat → Nat → List Char
  | 0, _ => []
  | w + 1, v => hexN w (v / 16) ++ [digit (v % 16)]

/-- `format!("{:0width$x}", v)`: the digits of `v`, zero padded on the left to at least `width` characters —
exactly `width` digits when `v < 16^width`, all of `v`'s digits otherwise -/
def fmtHex (width v : Nat) : List Char :=
  if v < 16 ^ width then hexN width v else hexDigits (v + 1) v

/-- `Display` of a `wire_value_newtype` with `N = wire.length` -/
def newtypeToString (wire : Bytes) : List Char := fmtHex (2 * wire.length) (leValue wire)

/-- `<uN>::from_str_radix(s, 16)` for an unsigned type of `bits` bits: optional leading `+`, at least one
digit, every character a hex digit, no overflow -/
def stripPlus (s : List Char) : List Char :=
  match s with
  | '+' :: rest => rest
  | _ => s

def fromStrRadix16 (bits : Nat) (s : List Char) : Option Nat :=
  let ds := stripPlus s
  if ds.isEmpty then none
  else
    ds.foldl (fun acc c =>
      match acc, digitVal? c with
      | some a, some d => if a * 16 + d < 2 ^ bits then some (a * 16 + d) else none
      | _, _ => none) (some 0)

/-- `value.to_le_bytes()[..n]` -/
def toLeBytes : Nat → Nat → Bytes
  | 0, _ => []
  | n + 1, v => (v % 256) :: toLeBytes n (v / 256)

/-- `FromStr` of a `wire_value_newtype` of `n` bytes backed by an unsigned integer of `bits` bits -/
def newtypeFromStr (n bits : Nat) (s : List Char) : Option Bytes :=
  if s.length ≠ 2 * n then none
  else (fromStrRadix16 bits s).map (toLeBytes n)

/-- `hex::encode_to_slice`: two lower-case digits per byte, in order -/
def hexEncode : Bytes → List Char
  | [] => []
  | b :: bs => digit (b / 16) :: digit (b % 16) :: hexEncode bs

inductive HexErr where
  | OddLength | InvalidStringLength | InvalidHexCharacter
  deriving Repr, DecidableEq

def decodePairs : List Char → Option Bytes
  | [] => some []
  | [_] => none
  | a :: b :: rest =>
    match digitVal? a, digitVal? b, decodePairs rest with
    | some x, some y, some r => some ((x * 16 + y) :: r)
    | _, _, _ => none

/-- `hex::decode_to_slice(s, &mut [0; n])` -/
def hexDecode (n : Nat) (s : List Char) : Except HexErr Bytes :=
  if s.length % 2 ≠ 0 then .error .OddLength
  else if s.length / 2 ≠ n then .error .InvalidStringLength
  else match decodePairs s with
    | some r => .ok r
    | none => .error .InvalidHexCharacter

/-- keys: `Display` / `FromStr` (MSB-first storage) -/
def keyToString (key : Bytes) : List Char := hexEncode key
def keyFromStr (s : List Char) : Except HexErr Bytes := hexDecode 16 s

/-- keys::DevEui / keys::AppEui: stored LSB first, printed MSB first -/
def euiToString (wire : Bytes) : List Char := hexEncode wire.reverse
def euiFromStr (s : List Char) : Except HexErr Bytes := (hexDecode 8 s).map List.reverse

end HexText
