import LoraVerif.Rt
import LoraVerif.Gen.Modulation
import LoraVerif.Model.Bw
import LoraVerif.Gen.PhyArith
import LoraVerif.Spec.SemtechArith
/-!
Hand-written executable model of the arithmetic *fragments* inside lora-phy's async driver methods
(tie B: every function here is compared with the real driver, driven through a recording fake SPI,
on its whole finite domain by `harness/src/c15.rs` / `c17.rs`).  Pure functions of the drivers that
are separate Rust `fn`s are NOT modelled here — they are generated (`Gen/PhyArith.lean`).

Rust panics are values (`Out.panic`), driver errors are `Out.err`.  Core-only imports.
-/
namespace Model.PhyArith
open Gen.Modulation
open Spec.Semtech (Chip)

inductive Out (α : Type) where
  | ok (v : α)
  | err
  | panic
  deriving DecidableEq, Repr

def Out.ofOption {α} : Option α → Out α
  | some v => .ok v
  | none => .panic

/-! ## C15: `create_modulation_params` (LDRO decision) and where `set_modulation_params` puts the flag -/

-- `specBw : Bandwidth → Spec.Airtime.Bw` is in `Model/Bw.lean` (same namespace; C16's driver uses it too)

/-- `spreading_factor_value(sf)?` succeeds: SX127x rejects SF5 -/
def sfOk (c : Chip) (sf : SpreadingFactor) : Bool :=
  match c with
  | .sx1272 | .sx1276 => sf != SpreadingFactor._5
  | _ => true

/-- `bandwidth_value(bw)?` succeeds -/
def bwOk (c : Chip) (bw : Bandwidth) : Bool :=
  match c with
  | .sx1272 => bw == Bandwidth._125KHz || bw == Bandwidth._250KHz || bw == Bandwidth._500KHz
  | .lr1110 => bw != Bandwidth._7KHz
  | _ => true

/-- All three drivers (after the `fix:` commits): `BaseBandModulationParams::new(sf, bw, cr).ldro as u8`
— the *generated* function, so a change of the calculator's rule reaches the drivers' theorems. -/
def ldroField (sf : SpreadingFactor) (bw : Bandwidth) (cr : CodingRate) : Option Int :=
  (BaseBandModulationParams.new sf bw cr).map (fun p => Rt.b2i p.ldro)

/-- `RadioKind::create_modulation_params`: the `low_data_rate_optimize` field (0/1), a driver error,
or a panic (arithmetic overflow inside `new`). The order of the checks is the code's. -/
def createModParams (c : Chip) (sf : SpreadingFactor) (bw : Bandwidth) (cr : CodingRate) (rf : Int) : Out Int :=
  if !sfOk c sf then .err
  else if !bwOk c bw then .err
  else if (bw == Bandwidth._250KHz || bw == Bandwidth._500KHz) && decide (rf < 400000000) then .err
  else Out.ofOption (ldroField sf bw cr)

/-- The byte in which `set_modulation_params` programs the flag, given the `low_data_rate_optimize`
field `f` (a `u8`), the prior content `prior` of the register that is read-modified-written, and
the other fields that share that register (`bwCode`, `crCode` on SX1272).
SX126x: `SetModulationParams` byte 4 = `f`; LR1110: `SetModulationParam` byte 5 (parameter 4) = `f`;
SX1276: `RegModemConfig3 = (prior & 0xf3) | (if f != 0 then 0x08 else 0)`;
SX1272: `RegModemConfig1 = (prior & 0b110) | (bw << 6) | (cr << 3) | f`. -/
def ldroByte (c : Chip) (f prior bwCode crCode : Nat) : Nat :=
  match c with
  | .sx1276 => (prior &&& 0xf3) ||| (if f != 0 then 0x08 else 0)
  | .sx1272 => ((prior &&& 0b110) ||| ((bwCode <<< 6) % 256) ||| ((crCode <<< 3) % 256) ||| f) % 256
  | _ => f

/-- SX1272 `bandwidth_value` -/
def sx1272BwCode (bw : Bandwidth) : Nat :=
  match bw with
  | ._125KHz => 0 | ._250KHz => 1 | ._500KHz => 2 | _ => 0

/-- `coding_rate_value` (all chips): 4/5 → 1 … 4/8 → 4 -/
def crCode (cr : CodingRate) : Nat :=
  match cr with
  | ._4_5 => 1 | ._4_6 => 2 | ._4_7 => 3 | ._4_8 => 4

/-! ## C17: fragments of `set_channel`, `set_tx_power_and_ramp_time`, `do_rx`, `get_rx_packet_status`,
`get_rssi` (SX126x, SX127x) and of `lorawan_radio::RxMode::from`.  Machine integers are `Int` with
the checked primitives of `Rt`; bytes are returned as the driver writes them. -/
open Gen.PhyArith

/-- SX126x `set_channel`: the four bytes after opcode 0x86, as one big-endian number -/
def sx126xSetChannel (f : Int) : Option Int := do
  let p ← Sx126x.convert_freq_in_hz_to_pll_step f
  let b3 ← Rt.shrC .u32 p 24
  let b2 ← Rt.shrC .u32 p 16
  let b1 ← Rt.shrC .u32 p 8
  pure ((Rt.andI b3 255) * 16777216 + (Rt.andI b2 255) * 65536 + (Rt.andI b1 255) * 256 + Rt.andI p 255)

/-- SX127x `set_channel`: `RegFrfMsb`, `RegFrfMid`, `RegFrfLsb` as one 24-bit number -/
def sx127xSetChannel (f : Int) : Option Int := do
  let frf ← freq_to_pll_step f
  let b2 ← Rt.shrC .u32 (Rt.andI frf 0x00FF0000) 16
  let b1 ← Rt.shrC .u32 (Rt.andI frf 0x0000FF00) 8
  pure (b2 * 65536 + b1 * 256 + Rt.andI frf 0xFF)

/-- which PA a variant drives (`get_device_sel`) and which table it uses (`pa_table`).
`hp` only matters for the STM32WL (`use_high_power_pa`). -/
def isHighPower (c : Chip) (hp : Bool) : Bool :=
  match c with
  | .sx1262 => true
  | .stm32wl => hp
  | _ => false

def paTableOf (c : Chip) (hp : Bool) : PaTable :=
  match c with
  | .sx1262 => SX1262_PA_TABLE
  | .stm32wl => if hp then STM32WL_HP_PA_TABLE else SX1261_PA_TABLE
  | _ => SX1261_PA_TABLE

/-- SX126x `set_tx_power_and_ramp_time`: `(paDutyCycle, hpMax, deviceSel, power)` of
`SetPaConfig` / `SetTxParams` (`power` as the signed byte the chip reads), or the refusal
`InvalidOutputPowerForFrequency`; `rf` = the channel when modulation parameters were passed. -/
def sx126xSetTxPower (c : Chip) (hp : Bool) (req : Int) (rf : Option Int) : Out (Int × Int × Int × Int) :=
  let high := isHighPower c hp
  let refuse : Bool := !high && decide (req ≥ 15) &&
    (match rf with | some f => decide (f < 400000000) | none => false)
  if refuse then .err
  else
    match (paTableOf c hp).lookup req with
    | none => .panic
    | some (e, txb) => .ok (e.pa_duty_cycle, e.hp_max, (if high then 0 else 1), Rt.wrap .i8 txb)

/-- SX1276 `set_tx_power`: `(RegPaConfig, RegPaDac, RegOcp)` -/
def sx1276SetTxPower (req : Int) (boost : Bool) : Option (Int × Int × Int) :=
  if boost then do
    let txp := Max.max 2 (Min.min 20 req)
    let op ← (if txp > 17 then Rt.ck .i32 (txp - 5) else Rt.ck .i32 (txp - 2))
    let cfg := Rt.orI 0x80 (Rt.wrap .u8 op)
    if txp > 17 then pure (cfg, 0x87, Rt.orI 0x1b 0x20) else pure (cfg, 0x84, Rt.orI 0x0b 0x20)
  else do
    let txp := Max.max (-4) (Min.min 14 req)
    if txp > 0 then pure (Rt.orI 0x70 (Rt.wrap .u8 txp), 0x84, Rt.orI 0x0b 0x20)
    else do
      let op ← Rt.ck .i32 (txp + 4)
      pure (Rt.orI 0x00 (Rt.wrap .u8 op), 0x84, Rt.orI 0x0b 0x20)

/-- SX1272 `set_tx_power`: `(RegPaConfig, RegPaDac)` -/
def sx1272SetTxPower (req : Int) (boost : Bool) : Option (Int × Int) :=
  if boost then
    if req > 17 then do
      let v ← Rt.ck .i32 (Max.max 5 (Min.min 20 req) - 5)
      pure (Rt.orI 0x80 (Rt.andI (Rt.wrap .u8 v) 0x0f), 0x87)
    else do
      let v ← Rt.ck .i32 (Max.max 2 (Min.min 17 req) - 2)
      pure (Rt.orI 0x80 (Rt.andI (Rt.wrap .u8 v) 0x0f), 0x84)
  else do
    let v ← Rt.ck .i32 (Max.max (-1) (Min.min 14 req) + 1)
    pure (Rt.andI (Rt.wrap .u8 v) 0x0f, 0x84)

/-- the `while mant > 31` loop of SX126x `set_lora_symbol_num_timeout`, with fuel
(`none` when the fuel runs out = the loop would not have terminated within 8 rounds, or a `u8` overflow) -/
def mantExpLoop : Nat → Int → Int → Option (Int × Int)
  | 0, _, _ => none
  | fuel + 1, mant, exp =>
    if mant > 31 then do
      let m3 ← Rt.ck .u8 (mant + 3)
      let m ← Rt.shrC .u8 m3 2
      let e ← Rt.ck .u8 (exp + 1)
      mantExpLoop fuel m e
    else some (mant, exp)

/-- SX126x `set_lora_symbol_num_timeout`: the `SetLoRaSymbNumTimeout` argument and, when
`symbol_num > 0`, the value written to register 0x0706 -/
def sx126xSymbTimeout (n : Int) : Option (Int × Option Int) := do
  let c ← Rt.ck .u16 (Min.min n SX126X_MAX_LORA_SYMB_NUM_TIMEOUT + 1)
  let h ← Rt.shrC .u16 c 1
  let (mant, exp) ← mantExpLoop 8 (Rt.wrap .u8 h) 0
  let e2 ← Rt.ck .u8 (2 * exp)
  let sh ← Rt.ck .u8 (e2 + 1)
  let val ← Rt.shlC .u8 mant sh
  if n > 0 then do
    let m8 ← Rt.shlC .u8 mant 3
    let t ← Rt.ck .u8 (exp + m8)
    pure (val, some t)
  else pure (val, none)

/-- SX127x `do_rx(Single(n))` + `set_lora_symbol_num_timeout`: `(RegModemConfig2, RegSymbTimeoutLsb)`
given the prior `RegModemConfig2` -/
def sx127xSymbTimeout (n prior : Int) : Option (Int × Int) := do
  let ns := Max.max n SX127X_MIN_LORA_SYMB_NUM_TIMEOUT
  let val := Min.min ns SX127X_MAX_LORA_SYMB_NUM_TIMEOUT
  let hi ← Rt.shrC .u16 val 8
  let msb := Rt.wrap .u8 (Rt.andI hi 0x03)
  let lsb := Rt.wrap .u8 (Rt.andI val 0xff)
  pure (Rt.orI (Rt.andI prior 0xfc) msb, lsb)

/-- `lorawan_radio.rs`: `RxMode::from(Single{ms}, bb)` = `Single(13 + bb.delay_in_symbols(ms))` (`u16` add) -/
def rxModeSymbols (sf : SpreadingFactor) (bw : Bandwidth) (ms : Int) : Option Int := do
  let bb ← BaseBandModulationParams.new sf bw ._4_5
  let d ← bb.delay_in_symbols ms
  Rt.ck .u16 (13 + d)

/-- SX126x `get_rx_packet_status` from the three status bytes: `(rssi, snr)` as `i16` -/
def sx126xPktStatus (b0 b1 : Int) : Option (Int × Int) := do
  let neg ← Rt.ck .i32 (-b0)
  let r ← Rt.shrC .i32 neg 1
  let s ← Rt.ck .i16 (Rt.wrap .i8 b1 + 2)
  let s2 ← Rt.shrC .i16 s 2
  pure (Rt.wrap .i16 r, s2)

/-- SX126x `get_rssi` -/
def sx126xRssi (b0 : Int) : Option Int := do
  let neg ← Rt.ck .i32 (-b0)
  let r ← Rt.shrC .i32 neg 1
  pure (Rt.wrap .i16 r)

/-- `Sx127xVariant::rssi_offset`: SX1272 constant; SX1276 by the frequency read back from `RegFrf` -/
def sx127xRssiOffset (c : Chip) (frf : Int) : Option Int :=
  match c with
  | .sx1272 => some SX1272_RSSI_OFFSET
  | _ => do
    let f ← pll_step_to_freq frf
    pure (if f > SX1276_RF_MID_BAND_THRESH then SX1276_RSSI_OFFSET_HF else SX1276_RSSI_OFFSET_LF)

/-- SX127x `get_rx_packet_status`: `(rssi, snr)` from `RegPktSnrValue`, `RegPktRssiValue`, `RegFrf` -/
def sx127xPktStatus (c : Chip) (snrRaw rssiRaw frf : Int) : Option (Int × Int) := do
  let s2 ← Rt.ck .i16 (Rt.wrap .i8 snrRaw + 2)
  let snr ← Rt.shrC .i16 s2 2
  let off ← sx127xRssiOffset c frf
  let lin ← linearize_rssi rssiRaw
  let a ← Rt.ck .i16 (off + lin)
  if snr ≥ 0 then pure (a, snr)
  else do
    let b ← Rt.ck .i16 (a + snr)
    pure (b, snr)

/-- SX127x `get_rssi` -/
def sx127xRssi (c : Chip) (raw frf : Int) : Option Int := do
  let off ← sx127xRssiOffset c frf
  Rt.ck .i16 (off + raw)

end Model.PhyArith
