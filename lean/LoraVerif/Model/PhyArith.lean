import LoraVerif.Rt
import LoraVerif.Gen.Modulation
import LoraVerif.Spec.SemtechArith
/-!
Hand-written executable model of the arithmetic *fragments* inside lora-phy's async driver methods
(tie B: every function here is compared with the real driver, driven through a recording fake SPI,
on its whole finite domain by `harness/src/c15.rs` / `c17.rs`).  Pure functions of the drivers that
are separate Rust `fn`s are NOT modelled here — they are generated (`Gen/PhyArith.lean`).

Rust panics are values (`Out.panic`), driver errors are `Out.err`.  Core-only imports.
-/
namespace Model.PhyArith
open Gen.Modulation
open Spec.Semtech (Chip)

inductive Out (α : Type) where
  | ok (v : α)
  | err
  | panic
  deriving DecidableEq, Repr

def Out.ofOption {α} : Option α → Out α
  | some v => .ok v
  | none => .panic

/-! ## C15: `create_modulation_params` (LDRO decision) and where `set_modulation_params` puts the flag -/

/-- `spreading_factor_value(sf)?` succeeds: SX127x rejects SF5 -/
def sfOk (c : Chip) (sf : SpreadingFactor) : Bool :=
  match c with
  | .sx1272 | .sx1276 => sf != SpreadingFactor._5
  | _ => true

/-- `bandwidth_value(bw)?` succeeds -/
def bwOk (c : Chip) (bw : Bandwidth) : Bool :=
  match c with
  | .sx1272 => bw == Bandwidth._125KHz || bw == Bandwidth._250KHz || bw == Bandwidth._500KHz
  | .lr1110 => bw != Bandwidth._7KHz
  | _ => true

/-- All three drivers (after the `fix:` commits): `BaseBandModulationParams::new(sf, bw, cr).ldro as u8`
— the *generated* function, so a change of the calculator's rule reaches the drivers' theorems. -/
def ldroField (sf : SpreadingFactor) (bw : Bandwidth) (cr : CodingRate) : Option Int :=
  (BaseBandModulationParams.new sf bw cr).map (fun p => Rt.b2i p.ldro)

/-- `RadioKind::create_modulation_params`: the `low_data_rate_optimize` field (0/1), a driver error,
or a panic (arithmetic overflow inside `new`). The order of the checks is the code's. -/
def createModParams (c : Chip) (sf : SpreadingFactor) (bw : Bandwidth) (cr : CodingRate) (rf : Int) : Out Int :=
  if !sfOk c sf then .err
  else if !bwOk c bw then .err
  else if (bw == Bandwidth._250KHz || bw == Bandwidth._500KHz) && decide (rf < 400000000) then .err
  else Out.ofOption (ldroField sf bw cr)

/-- The byte in which `set_modulation_params` programs the flag, given the `low_data_rate_optimize`
field `f` (a `u8`), the prior content `prior` of the register that is read-modified-written, and
the other fields that share that register (`bwCode`, `crCode` on SX1272).
SX126x: `SetModulationParams` byte 4 = `f`; LR1110: `SetModulationParam` byte 5 (parameter 4) = `f`;
SX1276: `RegModemConfig3 = (prior & 0xf3) | (if f != 0 then 0x08 else 0)`;
SX1272: `RegModemConfig1 = (prior & 0b110) | (bw << 6) | (cr << 3) | f`. -/
def ldroByte (c : Chip) (f prior bwCode crCode : Nat) : Nat :=
  match c with
  | .sx1276 => (prior &&& 0xf3) ||| (if f != 0 then 0x08 else 0)
  | .sx1272 => ((prior &&& 0b110) ||| ((bwCode <<< 6) % 256) ||| ((crCode <<< 3) % 256) ||| f) % 256
  | _ => f

/-- SX1272 `bandwidth_value` -/
def sx1272BwCode (bw : Bandwidth) : Nat :=
  match bw with
  | ._125KHz => 0 | ._250KHz => 1 | ._500KHz => 2 | _ => 0

/-- `coding_rate_value` (all chips): 4/5 → 1 … 4/8 → 4 -/
def crCode (cr : CodingRate) : Nat :=
  match cr with
  | ._4_5 => 1 | ._4_6 => 2 | ._4_7 => 3 | ._4_8 => 4

end Model.PhyArith
