import LoraVerif.Model.MacCmdFields
/-!
# Structural model of the frame parsers of `parser.rs` (lengths and index ranges; no cryptography)

`parse`, `EncryptedDataPayload::parse` (`Layout::validate`), `DecryptedDataPayload::decrypt_in_place`
(with `securityhelpers::encrypt_frm_data_payload`'s indexing and its `u8` block counter),
`JoinRequestPayload::parse`, `EncryptedJoinAcceptPayload::parse`,
`DecryptedJoinAcceptPayload::decrypt_in_place`, and every accessor of the four views (`Fhdr`, `FCtrl`,
`f_port`, `frm_payload`, `mic`, `validate_mic`'s slicing, `c_f_list`, `derive_*key`'s block assembly).
Every index / slice / `usize` subtraction / `copy_from_slice` / `try_into().unwrap()` is a checked
primitive returning `Outcome.panic`.  The block cipher is a parameter (`MacCmd.Cipher`); the MIC
function is not modelled (only the slices handed to it).  Import-free apart from the MacCmd model.
-/
namespace FrameShape
open MacCmd

/-- `parser::Error` (the variants the parsers return) -/
inductive PErr where
  | TooShort | UnsupportedMajorVersion | UnsupportedMessageType | UnexpectedMessageType
  | NotADataFrame | InvalidLength | TruncatedFhdr | MissingKey | InvalidMic
  deriving Repr, DecidableEq

def PErr.name : PErr → String
  | .TooShort => "TooShort" | .UnsupportedMajorVersion => "UnsupportedMajorVersion"
  | .UnsupportedMessageType => "UnsupportedMessageType" | .UnexpectedMessageType => "UnexpectedMessageType"
  | .NotADataFrame => "NotADataFrame" | .InvalidLength => "InvalidLength" | .TruncatedFhdr => "TruncatedFhdr"
  | .MissingKey => "MissingKey" | .InvalidMic => "InvalidMic"

/-- `a - b` on `usize`: panics on underflow (overflow checks are on in the harness build) -/
def subU (site : String) (a b : Nat) : Outcome Nat := if b ≤ a then .ok (a - b) else .panic site

/-- `Layout` -/
structure Layout where
  /-- MType 2..5 -/
  frameType : Nat
  fhdrLen : Nat
  fPortOffset : Option Nat
  frmStart : Nat
  frmEnd : Nat
  deriving Repr, DecidableEq

def Layout.isUplink (l : Layout) : Bool := l.frameType == 2 || l.frameType == 4
def Layout.isConfirmed (l : Layout) : Bool := l.frameType == 4 || l.frameType == 5

/-- `Layout::validate` -/
def validate (bytes : Bytes) : Outcome (Except PErr Layout) :=
  if bytes.length < 12 then .ok (.error .TooShort)
  else do
    let mhdr ← index "Layout::validate: bytes[0]" bytes 0
    if mhdr &&& 0b11 != 0 then .ok (.error .UnsupportedMajorVersion)
    else
      let mt := mhdr >>> 5
      if ¬ (2 ≤ mt ∧ mt ≤ 5) then .ok (.error .NotADataFrame)
      else do
        let fctrl ← index "Layout::validate: bytes[5]" bytes 5
        let fhdrLen := 7 + (fctrl &&& 0x0f)
        let micOffset ← subU "Layout::validate: bytes.len() - MIC_LEN" bytes.length 4
        if 1 + fhdrLen > micOffset then .ok (.error .TruncatedFhdr)
        else
          let afterFhdr := 1 + fhdrLen
          if afterFhdr < micOffset then
            .ok (.ok { frameType := mt, fhdrLen := fhdrLen, fPortOffset := some afterFhdr, frmStart := afterFhdr + 1, frmEnd := micOffset })
          else
            .ok (.ok { frameType := mt, fhdrLen := fhdrLen, fPortOffset := none, frmStart := afterFhdr, frmEnd := micOffset })

/-- `generate_helper_block(data, ..)`: reads `data[0]` and `data[1..5]` (copied into `res[6..10]`) -/
def helperBlockReads (data : Bytes) : Outcome Unit := do
  let _ ← index "generate_helper_block: data[0]" data 0
  let s ← slice "generate_helper_block: &data[1..5]" data 1 5
  let _ ← exact "generate_helper_block: copy_from_slice" 4 s
  .ok ()

/-- printable accessor results of a data view -/
structure DataView where
  frameType : Nat
  devAddr : Bytes
  fctrl : Nat
  fcnt : Nat
  fOpts : Bytes
  fPort : Option Nat
  mic : Bytes
  frm : Bytes
  deriving Repr, DecidableEq

/-- every accessor of `EncryptedDataPayload` / `DecryptedDataPayload` (`data_view_accessors!`, `Fhdr`,
`frm_payload`, the slicing of `validate_mic` + `calculate_data_mic`) -/
def dataAccessors (bytes : Bytes) (l : Layout) : Outcome DataView := do
  let fhdr ← slice "fhdr: &self.bytes[MHDR_LEN..MHDR_LEN + fhdr_len]" bytes 1 (1 + l.fhdrLen)
  let da ← slice "Fhdr::dev_addr: &self.bytes[0..4]" fhdr 0 4
  let da ← exact "arr: copy_from_slice" 4 da
  let fctrl ← index "Fhdr::fctrl: self.bytes[4]" fhdr 4
  let c0 ← index "Fhdr::fcnt: self.bytes[5]" fhdr 5
  let c1 ← index "Fhdr::fcnt: self.bytes[6]" fhdr 6
  let fopts ← sliceFrom "Fhdr::f_opts: &self.bytes[7..]" fhdr 7
  let fport ← match l.fPortOffset with
    | none => (.ok none : Outcome (Option Nat))
    | some off => do let p ← index "f_port: self.bytes[off]" bytes off; .ok (some p)
  let mo ← subU "mic: self.bytes.len() - MIC_LEN" bytes.length 4
  let mic ← sliceFrom "mic: &self.bytes[len - MIC_LEN..]" bytes mo
  let m0 ← index "mic[0]" mic 0
  let m1 ← index "mic[1]" mic 1
  let m2 ← index "mic[2]" mic 2
  let m3 ← index "mic[3]" mic 3
  -- validate_mic: &self.bytes[..len - MIC_LEN], then calculate_data_mic → generate_helper_block
  let wm ← slice "validate_mic: &self.bytes[..len - MIC_LEN]" bytes 0 mo
  helperBlockReads wm
  let frm ← slice "frm_payload: &self.bytes[frm_start..frm_end]" bytes l.frmStart l.frmEnd
  .ok { frameType := l.frameType, devAddr := da, fctrl := fctrl, fcnt := c0 + 256 * c1, fOpts := fopts,
        fPort := fport, mic := [m0, m1, m2, m3], frm := frm }

/-- the loop of `encrypt_frm_data_payload`: `ctr: u8` starts at 1 and is incremented at every block start
(`ctr += 1` panics on overflow), `phy_payload[start + i]` is indexed for every `i < len` -/
def encLoop (bufLen start : Nat) : Nat → Nat → Nat → Outcome Nat
  | 0, _, ctr => .ok ctr
  | rem + 1, i, ctr => do
    let ctr' ← if i &&& 0x0f = 0 then (if ctr + 1 ≤ 255 then .ok (ctr + 1) else .panic "encrypt_frm_data_payload: ctr += 1")
               else .ok ctr
    if start + i < bufLen then encLoop bufLen start rem (i + 1) ctr'
    else .panic "encrypt_frm_data_payload: phy_payload[start + i]"

/-- `DecryptedDataPayload::decrypt_in_place(buf, nwk_crypto, app_crypto, fcnt)`: the layout of the view
it returns; only `buf[frm_start..frm_end]` is written. `hasNwk`/`hasApp`: which cryptos were supplied. -/
def decryptData (buf : Bytes) (hasNwk hasApp : Bool) : Outcome (Except PErr Layout) := do
  match ← validate buf with
  | .error e => .ok (.error e)
  | .ok l =>
    if l.frmStart < l.frmEnd then do
      let usesApp ← match l.fPortOffset with
        | some off => do let p ← index "decrypt_in_place: buf[off]" buf off; .ok (p != 0)
        | none => (.ok false : Outcome Bool)
      let have_ := if usesApp then hasApp else hasNwk
      if !have_ then .ok (.error .MissingKey)
      else do
        let _ ← index "decrypt_in_place: buf[6]" buf 6
        let _ ← index "decrypt_in_place: buf[7]" buf 7
        let len ← subU "encrypt_frm_data_payload: end - start" l.frmEnd l.frmStart
        helperBlockReads buf
        let _ ← encLoop buf.length l.frmStart len 0 1
        .ok (.ok l)
    else .ok (.ok l)

/-- `check_mhdr(bytes, mtype)` -/
def checkMhdr (bytes : Bytes) (mtype : Nat) : Except PErr Unit :=
  match bytes with
  | [] => .error .TooShort
  | mhdr :: _ =>
    if mhdr &&& 0b11 != 0 then .error .UnsupportedMajorVersion
    else if mhdr >>> 5 != mtype then .error .UnexpectedMessageType
    else .ok ()

/-- `extract_mic`: `MIC(arr(&bytes[bytes.len() - MIC_LEN..]))` -/
def extractMic (bytes : Bytes) : Outcome Bytes := do
  let mo ← subU "extract_mic: bytes.len() - MIC_LEN" bytes.length 4
  let m ← sliceFrom "extract_mic: &bytes[len - MIC_LEN..]" bytes mo
  exact "arr: copy_from_slice" 4 m

/-- `JoinRequestPayload::parse` -/
def parseJoinRequest (bytes : Bytes) : Except PErr Unit :=
  match checkMhdr bytes 0 with
  | .error e => .error e
  | .ok () => if bytes.length = 23 then .ok () else .error .InvalidLength

structure JoinRequestView where
  joinEui : Bytes
  devEui : Bytes
  devNonce : Bytes
  mic : Bytes
  deriving Repr, DecidableEq

def joinRequestAccessors (bytes : Bytes) : Outcome JoinRequestView := do
  let j ← slice "join_eui: &self.bytes[1..9]" bytes 1 9
  let j ← exact "arr: copy_from_slice" 8 j
  let d ← slice "dev_eui: &self.bytes[9..17]" bytes 9 17
  let d ← exact "arr: copy_from_slice" 8 d
  let n ← slice "dev_nonce: &self.bytes[17..19]" bytes 17 19
  let n ← exact "arr: copy_from_slice" 2 n
  let mic ← extractMic bytes
  let _ ← slice "validate_mic: &self.bytes[..JOIN_REQUEST_LEN - MIC_LEN]" bytes 0 19
  .ok { joinEui := j, devEui := d, devNonce := n, mic := mic }

/-- `validate_join_accept_structure` -/
def validateJoinAccept (bytes : Bytes) : Except PErr Unit :=
  match checkMhdr bytes 1 with
  | .error e => .error e
  | .ok () => if bytes.length ≠ 17 ∧ bytes.length ≠ 33 then .error .InvalidLength else .ok ()

/-- `for block in buf[1..].chunks_exact_mut(16) { crypto.encrypt_block(block) }` -/
def encryptChunks (c : Cipher) : Nat → Bytes → Outcome Bytes
  | 0, d => .ok d
  | fuel + 1, d =>
    if d.length < 16 then .ok d
    else do
      let blk ← c.encryptBlock (d.take 16)
      let rest ← encryptChunks c fuel (d.drop 16)
      .ok (blk ++ rest)

/-- `DecryptedJoinAcceptPayload::decrypt_in_place`: the buffer afterwards -/
def decryptJoinAccept (c : Cipher) (buf : Bytes) : Outcome (Except PErr Bytes) :=
  match validateJoinAccept buf with
  | .error e => .ok (.error e)
  | .ok () => do
    let mhdr ← index "decrypt_in_place: buf[0]" buf 0
    let tail ← sliceFrom "decrypt_in_place: &mut buf[1..]" buf 1
    let t ← encryptChunks c (tail.length + 1) tail
    .ok (.ok (mhdr :: t))

inductive CfList where
  | absent
  | dynamic (freqs : List Bytes)
  | fixed (mask : Bytes)
  | rfu
  deriving Repr, DecidableEq

structure JoinAcceptView where
  joinNonce : Bytes
  netId : Bytes
  devAddr : Bytes
  dlSettings : Nat
  rxDelay : Nat
  cfList : CfList
  mic : Bytes
  deriving Repr, DecidableEq

/-- `cflist.chunks_exact(3)` zipped with the five slots: `arr::<3>(chunk)` each -/
def cfFreqs : Nat → Bytes → Outcome (List Bytes)
  | 0, _ => .ok []
  | k + 1, d =>
    if d.length < 3 then .ok []
    else do
      let f ← exact "c_f_list: arr(chunk)" 3 (d.take 3)
      let r ← cfFreqs k (d.drop 3)
      .ok (f :: r)

def joinAcceptAccessors (bytes : Bytes) : Outcome JoinAcceptView := do
  let jn ← slice "join_nonce: &self.bytes[1..4]" bytes 1 4
  let jn ← exact "arr: copy_from_slice" 3 jn
  let ni ← slice "net_id: &self.bytes[4..7]" bytes 4 7
  let ni ← exact "arr: copy_from_slice" 3 ni
  let da ← slice "dev_addr: &self.bytes[7..11]" bytes 7 11
  let da ← exact "arr: copy_from_slice" 4 da
  let dl ← index "dl_settings: self.bytes[11]" bytes 11
  let rd ← index "rx_delay: self.bytes[12]" bytes 12
  let cf ← if bytes.length = 17 then (.ok .absent : Outcome CfList) else do
    let cfl ← slice "c_f_list: &self.bytes[13..29]" bytes 13 29
    let ty ← index "c_f_list: cflist[15]" cfl 15
    if ty = 0 then do
      let fs ← cfFreqs 5 cfl
      .ok (.dynamic fs)
    else if ty = 1 then do
      let m ← slice "c_f_list: &cflist[..9]" cfl 0 9
      let m ← slice "ChannelMask::new_from_raw: &data[..N]" m 0 9
      .ok (.fixed m)
    else .ok .rfu
  let mic ← extractMic bytes
  let mo ← subU "validate_mic: self.bytes.len() - MIC_LEN" bytes.length 4
  let _ ← slice "validate_mic: &self.bytes[..len - MIC_LEN]" bytes 0 mo
  -- derive_session_key: block[1..4] ← join_nonce (3), block[4..7] ← net_id (3), block[7..9] ← dev_nonce (2): lengths are static
  .ok { joinNonce := jn, netId := ni, devAddr := da, dlSettings := dl, rxDelay := rd &&& 0x0f, cfList := cf, mic := mic }

/-- `parser::parse`: which view is produced -/
inductive Phy where
  | joinRequest
  | joinAccept
  | data (l : Layout)
  deriving Repr, DecidableEq

def parse (bytes : Bytes) : Outcome (Except PErr Phy) :=
  match bytes with
  | [] => .ok (.error .TooShort)
  | mhdr :: _ =>
    if mhdr &&& 0b11 != 0 then .ok (.error .UnsupportedMajorVersion)
    else
      let mt := mhdr >>> 5
      if mt = 0 then
        match parseJoinRequest bytes with
        | .error e => .ok (.error e)
        | .ok () => .ok (.ok .joinRequest)
      else if mt = 1 then
        match validateJoinAccept bytes with
        | .error e => .ok (.error e)
        | .ok () => .ok (.ok .joinAccept)
      else if mt ≤ 5 then do
        match ← validate bytes with
        | .error e => .ok (.error e)
        | .ok l => .ok (.ok (.data l))
      else .ok (.error .UnsupportedMessageType)

end FrameShape
