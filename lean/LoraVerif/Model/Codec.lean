import LoraVerif.Model.CodecBase
/-!
# Model of `lorawan-encoding`: `creator.rs`, `parser.rs`, `securityhelpers.rs`, `default_crypto.rs`

A hand transliteration (tie B: checked against the real code on every run by `harness/src/c01.rs`,
`c02.rs`).  What is kept from the Rust code on purpose:

* frames are built **in a caller buffer** by indexed writes (`out[i] = …`, `copy_from_slice`), each of
  which can panic; panics are the value `Outcome.panic`;
* `encrypt_frm_data_payload` is the in-place loop with its `u8` block counter `ctr`, `i & 0x0f`, the
  scratch blocks `a` and `s`; `ctr += 1` overflows (panic with overflow checks, as the harness is
  built) after 255 blocks;
* `generate_helper_block` takes the direction from `(data[0] & 0x20) >> 5` and the address from
  `data[1..5]` of the frame being processed;
* `(fcnt as u16)`, `data.len() as u8`, `f_opts.len() as u8` are truncating casts;
* the order of validity checks and the error each yields; which key is chosen when;
* direction-dependent FCtrl bits; the JoinAccept "encrypt by AES-decrypt"; CFList handling;
* the parser's single `Layout::validate`, and every accessor as slice arithmetic on the raw bytes.

Library semantics that are *not* repository code are modelled by their documented meaning:
`uN::from_le_bytes` / `to_le_bytes` (little-endian positional value), `slice::get_mut(..n)`,
`copy_from_slice` (panics on length mismatch), `chunks_exact_mut(16)`, `<[u8;16]>::try_from`.
The `Crypto` trait object bound to a key is the pair (abstract `Cipher`, key).
-/
namespace Lora.Codec

/-! ## Slices with Rust's panics -/

/-- `b[i]` -/
def getByte (b : Bytes) (i : Nat) : Outcome UInt8 := Outcome.ofOption b[i]?

/-- `b[i] = v` -/
def setByte (b : Bytes) (i : Nat) (v : UInt8) : Outcome Bytes :=
  if i < b.length then .ok (b.set i v) else .panic

/-- `&b[lo..hi]` -/
def slice (b : Bytes) (lo hi : Nat) : Outcome Bytes :=
  if lo ≤ hi ∧ hi ≤ b.length then .ok ((b.take hi).drop lo) else .panic

/-- `b[lo..hi].copy_from_slice(src)`: the range must exist and `src.len() == hi - lo` -/
def copyFromSlice (b : Bytes) (lo hi : Nat) (src : Bytes) : Outcome Bytes :=
  if lo ≤ hi ∧ hi ≤ b.length ∧ src.length = hi - lo then .ok (b.take lo ++ src ++ b.drop hi) else .panic

/-- `a - b` on `usize` -/
def usizeSub (a b : Nat) : Outcome Nat := if b ≤ a then .ok (a - b) else .panic

/-- `u16::from_le_bytes([a, b])` -/
def u16FromLe (a b : UInt8) : UInt16 := UInt16.ofNat (a.toNat + 256 * b.toNat)

/-- `w.to_le_bytes()` of a `u16` -/
def u16ToLe (w : UInt16) : Bytes := [UInt8.ofNat (w.toNat % 256), UInt8.ofNat (w.toNat / 256)]

/-- value of a little-endian byte string (`uN::from_le_bytes` after zero extension) -/
def leValue : Bytes → Nat
  | [] => 0
  | b :: bs => b.toNat + 256 * leValue bs

/-! ## Wire-order newtypes (`wire_value_newtype!`) -/

abbrev DevAddr := Vector UInt8 4
abbrev DevEui := Vector UInt8 8
abbrev JoinEui := Vector UInt8 8
abbrev DevNonce := Vector UInt8 2
abbrev JoinNonce := Vector UInt8 3
abbrev NetId := Vector UInt8 3
abbrev Frequency := Vector UInt8 3
abbrev ChannelMask9 := Vector UInt8 9

/-- `DevAddr::value()` -/
def DevAddr.value (a : DevAddr) : UInt32 := UInt32.ofNat (leValue a.toList)

/-! ## The `Crypto` / `NetworkCrypto` objects of `default_crypto.rs` -/

/-- a crypto object bound to one key -/
structure Crypto where
  cipher : Cipher
  key : Key

/-- `encrypt_block(&mut [u8])`: `block.try_into().unwrap()` panics unless the slice has 16 bytes -/
def Crypto.encryptBlock (cr : Crypto) (block : Bytes) : Outcome Bytes :=
  match Block.ofList? block with
  | some b => .ok (cr.cipher.enc cr.key b).toList
  | none => .panic

def Crypto.decryptBlock (cr : Crypto) (block : Bytes) : Outcome Bytes :=
  match Block.ofList? block with
  | some b => .ok (cr.cipher.dec cr.key b).toList
  | none => .panic

/-- `calculate_mic(b0, data)`: CMAC over `b0` followed by `data`, first four bytes -/
def Crypto.calculateMic (cr : Crypto) (b0 data : Bytes) : Bytes :=
  (cr.cipher.cmac cr.key (b0 ++ data)).toList.take 4

/-! ## securityhelpers.rs -/

/-- `generate_helper_block(data, first, fcnt, res)` with `res` a 16-byte scratch block -/
def generateHelperBlock (data : Bytes) (first : UInt8) (fcnt : UInt32) (res : Block) : Outcome Block := do
  let res := res.set 0 first
  let d0 ← getByte data 0
  let res := res.set 5 ((d0 &&& 0x20) >>> 5)
  let da ← slice data 1 5
  match da with
  | [a1, a2, a3, a4] =>
    let res := (((res.set 6 a1).set 7 a2).set 8 a3).set 9 a4
    let res := res.set 10 (fcnt &&& 0xff).toUInt8
    let res := res.set 11 ((fcnt >>> 8) &&& 0xff).toUInt8
    let res := res.set 12 ((fcnt >>> 16) &&& 0xff).toUInt8
    let res := res.set 13 ((fcnt >>> 24) &&& 0xff).toUInt8
    pure res
  | _ => .panic

/-- `calculate_data_mic(data, crypto, fcnt)` -/
def calculateDataMic (cr : Crypto) (data : Bytes) (fcnt : UInt32) : Outcome Bytes := do
  let b0 ← generateHelperBlock data 0x49 fcnt Block.zero
  let b0 := b0.set 15 (UInt8.ofNat data.length)      -- `data.len() as u8`
  pure (cr.calculateMic b0.toList data)

/-- `calculate_mic(data, crypto)` (join messages: empty B0) -/
def calculateMic (cr : Crypto) (data : Bytes) : Bytes := cr.calculateMic [] data

/-- loop state of `encrypt_frm_data_payload` -/
structure KsState where
  a : Block
  s : Block
  ctr : UInt8
  buf : Bytes

/-- one iteration of `for i in 0..len` -/
def ksStep (cr : Crypto) (start : Nat) (st : KsState) (i : Nat) : Outcome KsState :=
  let j := i &&& 0x0f
  let st1 : Outcome KsState :=
    if j = 0 then
      let a := st.a.set 15 st.ctr
      -- `ctr += 1` on a `u8`
      if st.ctr = 255 then .panic
      else .ok { st with a := a, ctr := st.ctr + 1, s := cr.cipher.enc cr.key a }
    else .ok st
  st1.bind fun st =>
    match st.buf[start + i]?, st.s[j]? with
    | some b, some x => .ok { st with buf := st.buf.set (start + i) (b ^^^ x) }
    | _, _ => .panic

def ksLoop (cr : Crypto) (start : Nat) : List Nat → KsState → Outcome KsState
  | [], st => .ok st
  | i :: is, st => (ksStep cr start st i).bind (ksLoop cr start is)

/-- `encrypt_frm_data_payload(phy_payload, start, end, fcnt, crypto)`; returns the buffer afterwards -/
def encryptFrmDataPayload (cr : Crypto) (phy : Bytes) (start stop : Nat) (fcnt : UInt32) : Outcome Bytes := do
  let len ← usizeSub stop start
  let a ← generateHelperBlock phy 0x01 fcnt Block.zero
  let st ← ksLoop cr start (List.range len) { a := a, s := Block.zero, ctr := 1, buf := phy }
  pure st.buf

/-! ## creator.rs -/

/-- `write_mic(out, crypto)` -/
def writeMic (cr : Crypto) (out : Bytes) : Outcome Bytes := do
  let micOffset ← usizeSub out.length 4
  let pre ← slice out 0 micOffset
  copyFromSlice out micOffset out.length (calculateMic cr pre)

structure JoinRequest where
  joinEui : JoinEui
  devEui : DevEui
  devNonce : DevNonce

/-- `JoinRequest::build_into(buf, crypto)` -/
def JoinRequest.buildInto (d : JoinRequest) (buf : Bytes) (cr : Crypto) : Outcome Bytes := do
  let out ← if 23 ≤ buf.length then pure (buf.take 23) else .err .bufferTooShort
  let out ← setByte out 0 0x00
  let out ← copyFromSlice out 1 9 d.joinEui.toList
  let out ← copyFromSlice out 9 17 d.devEui.toList
  let out ← copyFromSlice out 17 19 d.devNonce.toList
  writeMic cr out

inductive CfList where
  | dynamicChannel (freqs : Vector Frequency 5)
  | fixedChannel (mask : ChannelMask9)

structure JoinAccept where
  joinNonce : JoinNonce
  netId : NetId
  devAddr : DevAddr
  /-- `DLSettings::raw_value()` -/
  dlSettings : UInt8
  rxDelay : UInt8
  cFList : Option CfList

/-- `for (i, freq) in freqs.iter().enumerate() { out[13 + 3*i..16 + 3*i].copy_from_slice(freq) }` -/
def writeFreqs (out : Bytes) : Nat → List Frequency → Outcome Bytes
  | _, [] => .ok out
  | i, f :: fs => (copyFromSlice out (13 + 3 * i) (16 + 3 * i) f.toList).bind fun out => writeFreqs out (i + 1) fs

/-- `for block in bs.chunks_exact_mut(16) { f(block) }`; `n = bs.len() / 16` chunks, remainder untouched -/
def forChunks16 (f : Bytes → Outcome Bytes) : Nat → Bytes → Outcome Bytes
  | 0, bs => .ok bs
  | n + 1, bs => do
    let b ← f (bs.take 16)
    let rest ← forChunks16 f n (bs.drop 16)
    pure (b ++ rest)

/-- `out[0] = 0x20; out[1..4] = join_nonce; out[4..7] = net_id; out[7..11] = dev_addr;
out[11] = dl_settings; out[12] = rx_delay & 0x0f` -/
def JoinAccept.writeFixedFields (d : JoinAccept) (out : Bytes) : Outcome Bytes := do
  let out ← setByte out 0 0x20
  let out ← copyFromSlice out 1 4 d.joinNonce.toList
  let out ← copyFromSlice out 4 7 d.netId.toList
  let out ← copyFromSlice out 7 11 d.devAddr.toList
  let out ← setByte out 11 d.dlSettings
  setByte out 12 (d.rxDelay &&& 0x0f)

/-- `match &self.c_f_list { … }` -/
def writeCfList (cf : Option CfList) (out : Bytes) : Outcome Bytes :=
  match cf with
  | none => pure out
  | some (.dynamicChannel freqs) => do
    let out ← writeFreqs out 0 freqs.toList
    setByte out 28 0
  | some (.fixedChannel mask) => do
    let out ← copyFromSlice out 13 22 mask.toList
    let out ← copyFromSlice out 22 28 (List.replicate 6 0)     -- `out[22..28].fill(0)`
    setByte out 28 1

/-- `for block in out[MHDR_LEN..].chunks_exact_mut(16) { crypto.decrypt_block(block) }` -/
def decryptTail (cr : Crypto) (out : Bytes) : Outcome Bytes := do
  let tail ← slice out 1 out.length
  let tail ← forChunks16 cr.decryptBlock (tail.length / 16) tail
  copyFromSlice out 1 out.length tail

/-- `JoinAccept::build_into(buf, crypto)` (`crypto : NetworkCrypto`) -/
def JoinAccept.buildInto (d : JoinAccept) (buf : Bytes) (cr : Crypto) : Outcome Bytes := do
  let len := if d.cFList.isSome then 33 else 17
  let out ← if len ≤ buf.length then pure (buf.take len) else .err .bufferTooShort
  let out ← d.writeFixedFields out
  let out ← writeCfList d.cFList out
  let out ← writeMic cr out
  decryptTail cr out

/-- `creator::Payload`; the `NonZeroU8` port carries its proof -/
inductive Payload where
  | none
  | data (fPort : UInt8) (nz : fPort ≠ 0) (data : Bytes)
  | macCommands (cmds : Bytes)

structure DataFrame where
  frameType : FType
  devAddr : DevAddr
  adr : Bool
  adrAckReq : Bool
  ack : Bool
  fPending : Bool
  fcnt : UInt32
  fOpts : Bytes
  payload : Payload

def DataFrame.mhdr (d : DataFrame) : UInt8 :=
  match d.frameType with
  | .unconfirmedUp => 0x40
  | .unconfirmedDown => 0x60
  | .confirmedUp => 0x80
  | .confirmedDown => 0xa0

def DataFrame.fctrl (d : DataFrame) : UInt8 :=
  let b : UInt8 := UInt8.ofNat d.fOpts.length        -- `self.f_opts.len() as u8`
  let b := if d.adr then b ||| 0x80 else b
  let b := if d.adrAckReq && d.frameType.isUplink then b ||| 0x40 else b
  let b := if d.ack then b ||| 0x20 else b
  let b := if d.fPending && !d.frameType.isUplink then b ||| 0x10 else b
  b

/-- `f_port.map_or(0, |_| 1)` -/
def portLen : Option UInt8 → Nat
  | some _ => 1
  | none => 0

/-- `if !frm.is_empty() { encrypt_frm_data_payload(out, cursor, cursor + frm.len(), fcnt, enc_crypto) }` -/
def encryptIfNonEmpty (cr : Crypto) (out : Bytes) (cursor : Nat) (frm : Bytes) (fcnt : UInt32) : Outcome Bytes :=
  if !frm.isEmpty then encryptFrmDataPayload cr out cursor (cursor + frm.length) fcnt else .ok out

/-- the last three statements of `build_into`: MIC over `out[..mic_offset]`, written to `out[mic_offset..]` -/
def writeDataMic (cr : Crypto) (out : Bytes) (total : Nat) (fcnt : UInt32) : Outcome Bytes := do
  let micOffset ← usizeSub total 4
  let pre ← slice out 0 micOffset
  let mic ← calculateDataMic cr pre fcnt
  copyFromSlice out micOffset out.length mic

/-- the part of `build_into` after the validity checks: `f_port`, `frm`, `enc_crypto` are decided -/
def DataFrame.writeFrame (c : Cipher) (d : DataFrame) (buf : Bytes) (nwk : Key)
    (fPort : Option UInt8) (frm : Bytes) (encKey : Key) : Outcome Bytes := do
  let fhdrLen := 7 + d.fOpts.length
  let total := 1 + fhdrLen + portLen fPort + frm.length + 4
  -- `buf.get_mut(..total).ok_or(Error::BufferTooShort)?`
  let out ← if total ≤ buf.length then pure (buf.take total) else .err .bufferTooShort
  let out ← setByte out 0 d.mhdr
  let out ← copyFromSlice out 1 5 d.devAddr.toList
  let out ← setByte out 5 d.fctrl
  let out ← copyFromSlice out 6 8 (u16ToLe d.fcnt.toUInt16)      -- `(self.fcnt as u16).to_le_bytes()`
  let out ← copyFromSlice out 8 (8 + d.fOpts.length) d.fOpts
  let cursor := 1 + fhdrLen
  let (out, cursor) ← (match fPort with
    | some port => do
      let out ← setByte out cursor port
      pure (out, cursor + 1)
    | none => pure (out, cursor) : Outcome (Bytes × Nat))
  let out ← copyFromSlice out cursor (cursor + frm.length) frm
  let out ← encryptIfNonEmpty ⟨c, encKey⟩ out cursor frm d.fcnt
  writeDataMic ⟨c, nwk⟩ out total d.fcnt

/-- `DataFrame::build_into(buf, nwk_crypto, app_crypto)`; both crypto objects share the cipher `c` -/
def DataFrame.buildInto (c : Cipher) (d : DataFrame) (buf : Bytes) (nwk : Key) (app : Option Key) :
    Outcome Bytes :=
  if d.fOpts.length > 15 then .err .fOptsTooLong else
  match d.payload with
  | .none => d.writeFrame c buf nwk none [] nwk
  | .data p _ data =>
    match app with
    | none => .err .missingKey          -- `app_crypto.ok_or(Error::MissingKey)?`
    | some k => d.writeFrame c buf nwk (some p) data k
  | .macCommands cmds =>
    if !d.fOpts.isEmpty then .err .fOptsWithFPortZero else d.writeFrame c buf nwk (some 0) cmds nwk

/-! ## parser.rs — data frames -/

/-- `DataFrameType::from_mhdr` -/
def ftypeFromMhdr (mhdr : UInt8) : Option FType :=
  let t := mhdr >>> 5
  if t = 2 then some .unconfirmedUp
  else if t = 3 then some .unconfirmedDown
  else if t = 4 then some .confirmedUp
  else if t = 5 then some .confirmedDown
  else none

structure Layout where
  frameType : FType
  fhdrLen : Nat
  fPortOffset : Option Nat
  frmStart : Nat
  frmEnd : Nat
  deriving DecidableEq, Repr

/-- `Layout::validate` -/
def Layout.validate (bytes : Bytes) : Outcome Layout :=
  if bytes.length < 12 then .err .tooShort else do
  let mhdr ← getByte bytes 0
  if mhdr &&& 0b11 ≠ 0 then .err .unsupportedMajorVersion else do
  let frameType ← Outcome.okOr (ftypeFromMhdr mhdr) .notADataFrame
  let b5 ← getByte bytes 5
  let fhdrLen := 7 + (b5 &&& 0x0f).toNat
  let micOffset ← usizeSub bytes.length 4
  if 1 + fhdrLen > micOffset then .err .truncatedFhdr else
  let afterFhdr := 1 + fhdrLen
  let (fPortOffset, frmStart) := if afterFhdr < micOffset then (some afterFhdr, afterFhdr + 1) else (none, afterFhdr)
  pure { frameType, fhdrLen, fPortOffset, frmStart, frmEnd := micOffset }

/-- `EncryptedDataPayload` / `DecryptedDataPayload`: the bytes and the layout computed at parse time -/
structure DataPayload where
  bytes : Bytes
  layout : Layout
  deriving DecidableEq, Repr

/-- `EncryptedDataPayload::parse` -/
def parseData (bytes : Bytes) : Outcome DataPayload := do
  let layout ← Layout.validate bytes
  pure { bytes, layout }

/-- `arr::<N>(slice)`: `copy_from_slice` into `[u8; N]` -/
def arr (n : Nat) (s : Bytes) : Outcome Bytes := if s.length = n then .ok s else .panic

/-- the FCtrl accessors -/
structure FCtrl where
  byte : UInt8
  uplink : Bool
  deriving DecidableEq, Repr

def FCtrl.adr (f : FCtrl) : Bool := f.byte &&& 0x80 ≠ 0
def FCtrl.adrAckReq (f : FCtrl) : Bool := f.uplink && f.byte &&& 0x40 ≠ 0
def FCtrl.ack (f : FCtrl) : Bool := f.byte &&& 0x20 ≠ 0
def FCtrl.fPending (f : FCtrl) : Bool := !f.uplink && f.byte &&& 0x10 ≠ 0
def FCtrl.fOptsLen (f : FCtrl) : Nat := (f.byte &&& 0x0f).toNat

/-- What every accessor of a data-frame view returns (`data_view_accessors!`, `Fhdr`, `FCtrl`). -/
structure DataView where
  frameType : FType
  isUplink : Bool
  isConfirmed : Bool
  devAddr : Bytes
  fctrlRaw : UInt8
  adr : Bool
  adrAckReq : Bool
  ack : Bool
  fPending : Bool
  fOptsLen : Nat
  fcnt : UInt16
  fOpts : Bytes
  fPort : Option UInt8
  /-- the bytes of the FRMPayload range (ciphertext in an encrypted view, plaintext in a decrypted one) -/
  frm : Bytes
  mic : Bytes
  deriving DecidableEq, Repr

/-- run every accessor of a parsed view; any panicking accessor makes the whole result `panic` -/
def DataPayload.view (p : DataPayload) : Outcome DataView := do
  let uplink := p.layout.frameType.isUplink
  -- fhdr(): &self.bytes[MHDR_LEN..MHDR_LEN + fhdr_len]
  let fb ← slice p.bytes 1 (1 + p.layout.fhdrLen)
  let devAddr ← (slice fb 0 4).bind (arr 4)
  let fc ← getByte fb 4
  let f5 ← getByte fb 5
  let f6 ← getByte fb 6
  let fOpts ← slice fb 7 fb.length
  let fPort ← (match p.layout.fPortOffset with
    | some off => (getByte p.bytes off).bind fun b => pure (some b)
    | none => pure none : Outcome (Option UInt8))
  let micStart ← usizeSub p.bytes.length 4
  let micS ← slice p.bytes micStart p.bytes.length
  let m0 ← getByte micS 0
  let m1 ← getByte micS 1
  let m2 ← getByte micS 2
  let m3 ← getByte micS 3
  let frm ← slice p.bytes p.layout.frmStart p.layout.frmEnd
  let fctrl : FCtrl := { byte := fc, uplink }
  pure { frameType := p.layout.frameType, isUplink := uplink, isConfirmed := p.layout.frameType.isConfirmed,
         devAddr, fctrlRaw := fc, adr := fctrl.adr, adrAckReq := fctrl.adrAckReq, ack := fctrl.ack,
         fPending := fctrl.fPending, fOptsLen := fctrl.fOptsLen, fcnt := u16FromLe f5 f6, fOpts, fPort,
         frm, mic := [m0, m1, m2, m3] }

/-- `EncryptedDataPayload::mic()` -/
def DataPayload.mic (p : DataPayload) : Outcome Bytes := do
  let micStart ← usizeSub p.bytes.length 4
  let micS ← slice p.bytes micStart p.bytes.length
  let m0 ← getByte micS 0
  let m1 ← getByte micS 1
  let m2 ← getByte micS 2
  let m3 ← getByte micS 3
  pure [m0, m1, m2, m3]

/-- `EncryptedDataPayload::validate_mic(crypto, fcnt)` -/
def DataPayload.validateMic (p : DataPayload) (cr : Crypto) (fcnt : UInt32) : Outcome Bool := do
  let n ← usizeSub p.bytes.length 4
  let withoutMic ← slice p.bytes 0 n
  let mic ← p.mic
  let computed ← calculateDataMic cr withoutMic fcnt
  pure (mic == computed)

/-- The result of an in-place operation: what was returned, and the caller's buffer afterwards.
(After a panic the buffer component carries no meaning.) -/
abbrev InPlace (α : Type) := Outcome α × Bytes

/-- `DecryptedDataPayload::decrypt_in_place(buf, nwk_crypto, app_crypto, fcnt)` -/
def decryptInPlace (c : Cipher) (buf : Bytes) (nwk app : Option Key) (fcnt : UInt32) : InPlace DataPayload :=
  match Layout.validate buf with
  | .err e => (.err e, buf)
  | .panic => (.panic, buf)
  | .ok layout =>
    if layout.frmStart < layout.frmEnd then
      -- matches!(layout.f_port_offset, Some(off) if buf[off] != 0)
      let usesAppKey : Outcome Bool := match layout.fPortOffset with
        | some off => (getByte buf off).bind fun b => pure (b ≠ 0)
        | none => pure false
      match usesAppKey with
      | .panic => (.panic, buf)
      | .err e => (.err e, buf)
      | .ok uses =>
        match (if uses then app else nwk) with
        | none => (.err .missingKey, buf)
        | some key =>
          match getByte buf 6, getByte buf 7 with
          | .ok b6, .ok b7 =>
            let wireFcnt := u16FromLe b6 b7
            let fullFcnt := ((fcnt >>> 16) <<< 16) ||| wireFcnt.toUInt32
            match encryptFrmDataPayload ⟨c, key⟩ buf layout.frmStart layout.frmEnd fullFcnt with
            | .ok buf' => (.ok { bytes := buf', layout }, buf')
            | .err e => (.err e, buf)
            | .panic => (.panic, buf)
          | _, _ => (.panic, buf)
    else (.ok { bytes := buf, layout }, buf)

/-- `DecryptedDataPayload::check_mic_and_decrypt_in_place(buf, nwk_crypto, app_crypto, fcnt)` -/
def checkMicAndDecryptInPlace (c : Cipher) (buf : Bytes) (nwk : Key) (app : Option Key) (fcnt : UInt32) :
    InPlace DataPayload :=
  match parseData buf with
  | .err e => (.err e, buf)
  | .panic => (.panic, buf)
  | .ok p =>
    match p.validateMic ⟨c, nwk⟩ fcnt with
    | .err e => (.err e, buf)
    | .panic => (.panic, buf)
    | .ok false => (.err .invalidMic, buf)
    | .ok true => decryptInPlace c buf (some nwk) app fcnt

/-- `FrmPayload` -/
inductive FrmPayload where
  | data (bytes : Bytes)
  | macCommands (bytes : Bytes)
  | none
  deriving DecidableEq, Repr

/-- `DecryptedDataPayload::frm_payload()` -/
def DataPayload.frmPayload (p : DataPayload) : Outcome FrmPayload := do
  let frm ← slice p.bytes p.layout.frmStart p.layout.frmEnd
  let fPort ← (match p.layout.fPortOffset with
    | some off => (getByte p.bytes off).bind fun b => pure (some b)
    | none => pure none : Outcome (Option UInt8))
  match fPort with
  | none => pure .none
  | some port => if port = 0 then pure (.macCommands frm) else pure (.data frm)

/-! ## parser.rs — join frames -/

/-- `check_mhdr(bytes, mtype)` -/
def checkMhdr (bytes : Bytes) (mtype : UInt8) : Outcome Unit :=
  match bytes with
  | [] => .err .tooShort
  | mhdr :: _ =>
    if mhdr &&& 0b11 ≠ 0 then .err .unsupportedMajorVersion
    else if mhdr >>> 5 ≠ mtype then .err .unexpectedMessageType
    else .ok ()

/-- `extract_mic(bytes)` -/
def extractMic (bytes : Bytes) : Outcome Bytes := do
  let n ← usizeSub bytes.length 4
  (slice bytes n bytes.length).bind (arr 4)

/-- `JoinRequestPayload::parse`: the view is the 23 bytes -/
def parseJoinRequest (bytes : Bytes) : Outcome Bytes := do
  checkMhdr bytes 0
  if bytes.length = 23 then pure bytes else .err .invalidLength

structure JoinRequestView where
  joinEui : Bytes
  devEui : Bytes
  devNonce : Bytes
  mic : Bytes
  deriving DecidableEq, Repr

def joinRequestView (bytes : Bytes) : Outcome JoinRequestView := do
  let joinEui ← (slice bytes 1 9).bind (arr 8)
  let devEui ← (slice bytes 9 17).bind (arr 8)
  let devNonce ← (slice bytes 17 19).bind (arr 2)
  let mic ← extractMic bytes
  pure { joinEui, devEui, devNonce, mic }

/-- `JoinRequestPayload::validate_mic(crypto)` -/
def joinRequestValidateMic (bytes : Bytes) (cr : Crypto) : Outcome Bool := do
  let withoutMic ← slice bytes 0 (23 - 4)
  let mic ← extractMic bytes
  pure (mic == calculateMic cr withoutMic)

/-- `validate_join_accept_structure` -/
def validateJoinAcceptStructure (bytes : Bytes) : Outcome Unit := do
  checkMhdr bytes 1
  if bytes.length ≠ 17 ∧ bytes.length ≠ 33 then .err .invalidLength else pure ()

/-- `EncryptedJoinAcceptPayload::parse` -/
def parseJoinAccept (bytes : Bytes) : Outcome Bytes := do
  validateJoinAcceptStructure bytes
  pure bytes

/-- `DecryptedJoinAcceptPayload::decrypt_in_place(buf, crypto)` -/
def joinAcceptDecryptInPlace (buf : Bytes) (cr : Crypto) : InPlace Bytes :=
  match validateJoinAcceptStructure buf with
  | .err e => (.err e, buf)
  | .panic => (.panic, buf)
  | .ok () =>
    match (do
      let tail ← slice buf 1 buf.length
      let tail ← forChunks16 cr.encryptBlock (tail.length / 16) tail
      copyFromSlice buf 1 buf.length tail : Outcome Bytes) with
    | .ok buf' => (.ok buf', buf')
    | .err e => (.err e, buf)
    | .panic => (.panic, buf)

/-- `DecryptedJoinAcceptPayload::validate_mic(crypto)` -/
def joinAcceptValidateMic (bytes : Bytes) (cr : Crypto) : Outcome Bool := do
  let n ← usizeSub bytes.length 4
  let withoutMic ← slice bytes 0 n
  let mic ← extractMic bytes
  pure (mic == calculateMic cr withoutMic)

/-- `DecryptedJoinAcceptPayload::check_mic_and_decrypt_in_place(buf, crypto)`: the buffer is
transformed even when `InvalidMic` is returned -/
def joinAcceptCheckMicAndDecryptInPlace (buf : Bytes) (cr : Crypto) : InPlace Bytes :=
  match joinAcceptDecryptInPlace buf cr with
  | (.ok dec, buf') =>
    match joinAcceptValidateMic dec cr with
    | .ok true => (.ok dec, buf')
    | .ok false => (.err .invalidMic, buf')
    | .err e => (.err e, buf')
    | .panic => (.panic, buf')
  | r => r

/-- `CfList` as parsed: five 3-byte frequencies or a 9-byte mask -/
inductive CfListView where
  | dynamicChannel (freqs : List Bytes)
  | fixedChannel (mask : Bytes)
  deriving DecidableEq, Repr

/-- `cflist.chunks_exact(3)` zipped with the five slots -/
def freqChunks : Nat → Bytes → Outcome (List Bytes)
  | 0, _ => .ok []
  | n + 1, bs => do
    let f ← arr 3 (bs.take 3)
    let rest ← freqChunks n (bs.drop 3)
    pure (f :: rest)

/-- `DecryptedJoinAcceptPayload::c_f_list()` -/
def joinAcceptCfList (bytes : Bytes) : Outcome (Option CfListView) :=
  if bytes.length = 17 then .ok none else do
  let cflist ← slice bytes 13 29
  let t ← getByte cflist 15
  if t = 0 then do
    -- zip of 5 slots with chunks_exact(3) of 16 bytes (5 chunks, remainder 1)
    let fs ← freqChunks (min 5 (cflist.length / 3)) cflist
    pure (some (.dynamicChannel fs))
  else if t = 1 then do
    -- ChannelMask::new_from_raw(&cflist[..9]): payload[..9].copy_from_slice(&data[..9])
    let m ← slice cflist 0 9
    pure (some (.fixedChannel m))
  else pure none

structure JoinAcceptView where
  joinNonce : Bytes
  netId : Bytes
  devAddr : Bytes
  dlSettings : UInt8
  rxDelay : UInt8
  cFList : Option CfListView
  mic : Bytes
  deriving DecidableEq, Repr

def joinAcceptView (bytes : Bytes) : Outcome JoinAcceptView := do
  let joinNonce ← (slice bytes 1 4).bind (arr 3)
  let netId ← (slice bytes 4 7).bind (arr 3)
  let devAddr ← (slice bytes 7 11).bind (arr 4)
  let dlSettings ← getByte bytes 11
  let b12 ← getByte bytes 12
  let cFList ← joinAcceptCfList bytes
  let mic ← extractMic bytes
  pure { joinNonce, netId, devAddr, dlSettings, rxDelay := b12 &&& 0x0f, cFList, mic }

/-- `derive_session_key(first_byte, dev_nonce, crypto)` -/
def deriveSessionKey (bytes : Bytes) (firstByte : UInt8) (devNonce : DevNonce) (cr : Crypto) : Outcome Bytes := do
  let block := List.replicate 16 (0 : UInt8)
  let block ← setByte block 0 firstByte
  let jn ← (slice bytes 1 4).bind (arr 3)
  let block ← copyFromSlice block 1 4 jn
  let ni ← (slice bytes 4 7).bind (arr 3)
  let block ← copyFromSlice block 4 7 ni
  let block ← copyFromSlice block 7 9 devNonce.toList
  cr.encryptBlock block

/-! ## parser.rs — `parse` -/

inductive PhyPayload where
  | joinRequest (bytes : Bytes)
  | joinAccept (bytes : Bytes)
  | data (p : DataPayload)
  deriving DecidableEq, Repr

/-- `parser::parse` -/
def parse (bytes : Bytes) : Outcome PhyPayload :=
  match bytes with
  | [] => .err .tooShort
  | mhdr :: _ =>
    if mhdr &&& 0b11 ≠ 0 then .err .unsupportedMajorVersion
    else
      let t := mhdr >>> 5
      if t = 0 then (parseJoinRequest bytes).bind fun b => pure (.joinRequest b)
      else if t = 1 then (parseJoinAccept bytes).bind fun b => pure (.joinAccept b)
      else if 2 ≤ t ∧ t ≤ 5 then (parseData bytes).bind fun p => pure (.data p)
      else .err .unsupportedMessageType

end Lora.Codec
