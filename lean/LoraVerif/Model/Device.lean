import LoraVerif.Model.Mac
/-!
# Model of the Class A receive procedure both device front-ends run after an uplink

`async_device::Device::rx_downlink` and the `nb_device` state machine do the same thing at the MAC
level: open RX1; a frame heard there is given to `Mac::handle_rx`; unless the MAC answers
`NoUpdate` the procedure ends with that response; otherwise RX2 likewise; if neither window
produced a response, `Mac::rx2_complete`.  A radio fault anywhere after the uplink was handed to the
radio ends the procedure through `rx2_complete` as well (the counter is burnt, see C06).
-/
namespace Model

/-- one receive window: `none` = nothing heard or the MAC said `NoUpdate` -/
def window (m : MacState) (f : Option (RxView × Int)) (maxPayload : Nat) : M (Option RxOut × MacState) :=
  match f with
  | none => pure (none, m)
  | some (v, snr) => do
    let (o, m') ← macHandleRx m v maxPayload snr false
    match o with
    | some o => if o.resp == .noUpdate then pure (none, m') else pure (some o, m')
    | none => pure (none, m')

/-- the receive procedure after an uplink -/
def classACycle (m : MacState) (rx1 rx2 : Option (RxView × Int)) (mp1 mp2 : Nat) :
    M (Response × Option (Nat × List Nat) × MacState) := do
  let (o1, m) ← window m rx1 mp1
  match o1 with
  | some o => pure (o.resp, o.downlink, m)
  | none =>
    let (o2, m) ← window m rx2 mp2
    match o2 with
    | some o => pure (o.resp, o.downlink, m)
    | none =>
      let (r, m) := macRx2Complete m
      pure (r, none, m)

/-- a radio fault after the frame was handed to the radio: the front-end burns the counter -/
def faultAfterTx (m : MacState) : MacState := (macRx2Complete m).2

/-- … and reports an exhausted counter space even so -/
def faultExpired (m : MacState) : Bool := (macRx2Complete m).1 == .sessionExpired

/-- the session's uplink counter, if joined -/
def MacState.fcntUp? (m : MacState) : Option Nat :=
  match m.st with
  | .joined s => some s.fcntUp
  | _ => none

end Model

/-! ## the async front-end (`async_device/mod.rs`) as a trace of radio/timer calls

The harness' scripted radio answers the k-th radio call of an operation with the k-th script item
(`ok` when the script is exhausted); the timer fires as soon as it is awaited, so that a pending
`rx_continuous` loses the `select` against it. -/
namespace Model

inductive ScriptItem where
  | ok
  | err
  | frame (snr : Int) (v : RxView)
  deriving DecidableEq, Repr

structure DevCfg where
  /-- `Timings::get_rx_window_lead_time_ms` -/
  lead : Nat
  /-- `Timings::get_rx_window_buffer` -/
  buffer : Nat
  classC : Bool
  /-- the time on air the radio reports from `tx` -/
  txMs : Nat
  deriving DecidableEq, Repr

inductive Call where
  | tx (t : TxOut) (len : Nat)
  | reset
  | at (ms : Nat)
  | lowPower
  | setupRx (rf : RfConfig) (singleMs : Option Nat)
  | rxSingle
  | rxContinuous
  deriving DecidableEq, Repr

inductive DevResult where
  | ok (r : Response)
  | errRadio
  | errMac
  deriving DecidableEq, Repr

structure DevRun where
  m : MacState
  script : List ScriptItem
  calls : List Call        -- most recent first
  downlinks : List (Nat × List Nat)
  /-- capacity `D` of the device's downlink queue (`heapless::Vec<Downlink, D>`): `push` on a full
  queue fails and the downlink is dropped (`let _ = dl.push(..)`) -/
  dlCap : Nat := 8
  deriving Repr

def DevRun.next (r : DevRun) : ScriptItem × DevRun :=
  match r.script with
  | [] => (.ok, r)
  | i :: rest => (i, { r with script := rest })

def DevRun.log (r : DevRun) (c : Call) : DevRun := { r with calls := c :: r.calls }

/-- how a sub-procedure of an operation ends -/
inductive Step (α : Type) where
  | cont (a : α) (r : DevRun)
  | radioErr (r : DevRun)
  | macErr (r : DevRun)

/-- a radio call that only succeeds or fails -/
def DevRun.simpleCall (r : DevRun) (c : Call) : Step Unit :=
  let (i, r) := (r.log c).next
  match i with
  | .err => .radioErr r
  | _ => .cont () r

/-- `handle_mac_response`: `NoUpdate` is swallowed -/
def swallow (o : Option RxOut) : Option RxOut :=
  match o with
  | some o => if o.resp == .noUpdate then none else some o
  | none => none

def DevRun.deliver (r : DevRun) (o : Option RxOut) : DevRun :=
  match o with
  | some o => (match o.downlink with
    | some d => if r.downlinks.length < r.dlCap then { r with downlinks := d :: r.downlinks } else r
    | none => r)
  | none => r

/-- `window_complete` -/
def windowComplete (cfg : DevCfg) (r : DevRun) : M (Step Unit) := do
  if cfg.classC then
    let rf ← macRxcConfig r.m
    pure (r.simpleCall (.setupRx rf none))
  else pure (r.simpleCall .lowPower)

/-- the Class C listening loop of `between_windows`: frames until the timer wins -/
def rxcLoop (mp duration : Nat) : Nat → DevRun → M (Step Unit)
  | 0, _ => hang "between_windows"
  | fuel + 1, r =>
    let (i, r) := (r.log .rxContinuous).next
    match i with
    | .frame snr v => do
      let (o, m) ← macHandleRx r.m v mp snr true
      let r := { r with m := m }
      -- `handle_rxc` returned Err(NotJoined) (`none`): while joining there is no session the frame
      -- could belong to; the front-end takes it as `NoUpdate` and goes on listening
      rxcLoop mp duration fuel (r.deliver o)
    -- the timer future is first polled once reception is pending (or has failed: the error is
    -- swallowed, the code awaits the timer and reports a timeout)
    | .err => pure (.cont () (r.log (.at duration)))
    | .ok => pure (.cont () (r.log (.at duration)))

/-- `between_windows(duration)` -/
def betweenWindows (cfg : DevCfg) (duration : Nat) (r : DevRun) : M (Step Unit) := do
  if cfg.classC then
    let rf ← macRxcConfig r.m
    match r.simpleCall (.setupRx rf none) with
    | .cont _ r => rxcLoop rf.maxPayload.toNat duration 64 r
    | e => pure e
  else
    match r.simpleCall .lowPower with
    | .cont _ r => pure (.cont () (r.log (.at duration)))
    | e => pure e

/-- `rx_listen` -/
def rxListen (cfg : DevCfg) (rf : RfConfig) (r : DevRun) : M (Step (Option RxOut)) := do
  let (i, r) := (r.log .rxSingle).next
  match i with
  | .err => pure (.radioErr r)
  | .ok =>
    match (← windowComplete cfg r) with
    | .cont _ r => pure (.cont none r)
    | .radioErr r => pure (.radioErr r)
    | .macErr r => pure (.macErr r)
  | .frame snr v =>
    let (o, m) ← macHandleRx r.m v rf.maxPayload.toNat snr false
    let r := ({ r with m := m }).deliver o
    match (← windowComplete cfg r) with
    | .cont _ r => pure (.cont (swallow o) r)
    | .radioErr r => pure (.radioErr r)
    | .macErr r => pure (.macErr r)

/-- `u32` arithmetic `delay + tx_ms - lead` -/
def startDelay (delay txMs lead : Nat) : M Nat :=
  if delay + txMs > 4294967295 then panic "rx start delay overflow"
  else if lead > delay + txMs then panic "rx start delay underflow"
  else pure (delay + txMs - lead)

def oneWindow (cfg : DevCfg) (join second : Bool) (rf : RfConfig) (r : DevRun) : M (Step (Option RxOut)) := do
  let d ← startDelay (macRxDelay r.m join second) cfg.txMs cfg.lead
  match (← betweenWindows cfg d r) with
  | .radioErr r => pure (.radioErr r)
  | .macErr r => pure (.macErr r)
  | .cont _ r =>
    match r.simpleCall (.setupRx rf (some cfg.buffer)) with
    | .radioErr r => pure (.radioErr r)
    | .macErr r => pure (.macErr r)
    | .cont _ r => rxListen cfg rf r

/-- `rx_downlink` -/
def rxDownlink (cfg : DevCfg) (join : Bool) (tx : TxOut) (r : DevRun) : M (Step Response) := do
  match (← oneWindow cfg join false tx.rx1 r) with
  | .radioErr r => pure (.radioErr r)
  | .macErr r => pure (.macErr r)
  | .cont (some o) r => pure (.cont o.resp r)
  | .cont none r =>
    match (← oneWindow cfg join true tx.rx2 r) with
    | .radioErr r => pure (.radioErr r)
    | .macErr r => pure (.macErr r)
    | .cont (some o) r => pure (.cont o.resp r)
    | .cont none r =>
      let (resp, m) := macRx2Complete r.m
      pure (.cont resp { r with m := m })

def frameLen (u : UplinkDesc) : Nat := 1 + 7 + u.fopts.length + 1 + u.payload.length + 4

/-- `Device::send`: after the frame has been handed to the radio every error path burns the counter -/
def asyncSend {σ} (g : Rng σ) (cfg : DevCfg) (r : DevRun) (data : List Nat) (port : Nat) (conf : Bool) (rs : σ) :
    M (DevResult × DevRun × σ) := do
  let (o, m, rs) ← macSend g r.m data port conf rs
  let r := { r with m := m }
  match o with
  | none => pure (.errMac, r, rs)
  | some out =>
    match r.simpleCall (.tx out.tx (frameLen out.frame)) with
    | .radioErr r => pure (if faultExpired r.m then .ok .sessionExpired else .errRadio, { r with m := faultAfterTx r.m }, rs)
    | .macErr r => pure (.errMac, r, rs)
    | .cont _ r =>
      match (← rxDownlink cfg false out.tx (r.log .reset)) with
      | .cont resp r => pure (.ok resp, r, rs)
      | .radioErr r => pure (if faultExpired r.m then .ok .sessionExpired else .errRadio, { r with m := faultAfterTx r.m }, rs)
      | .macErr r => pure (if faultExpired r.m then .ok .sessionExpired else .errMac, { r with m := faultAfterTx r.m }, rs)

/-- what `Device::rxc_listen` yields: a response, an error, or — nothing (more) heard — the future is
still pending (the application keeps awaiting it or drops it) -/
inductive ListenResult where
  | ok (r : Response)
  | errRadio
  | errMac
  | listening
  deriving DecidableEq, Repr

/-- the loop of `Device::rxc_listen`: frames reported by `rx_continuous` are handed to
`Mac::handle_rxc` under the RXC size limit computed once before the loop; `NoUpdate` goes on
listening; `Err(NotJoined)` and radio errors are propagated; the response is converted with
`ListenResponse::from`, which panics on anything but `DownlinkReceived` / `SessionExpired` -/
def listenLoop (mp : Nat) : Nat → DevRun → M (ListenResult × DevRun)
  | 0, _ => hang "rxc_listen"
  | fuel + 1, r =>
    let (i, r) := (r.log .rxContinuous).next
    match i with
    | .err => pure (.errRadio, r)
    | .ok => pure (.listening, r)
    | .frame snr v => do
      let (o, m) ← macHandleRx r.m v mp snr true
      let r := ({ r with m := m }).deliver o
      match o with
      | none => pure (.errMac, r)
      | some out =>
        match out.resp with
        | .noUpdate => listenLoop mp fuel r
        | .downlinkReceived n => pure (.ok (.downlinkReceived n), r)
        | .sessionExpired => pure (.ok .sessionExpired, r)
        | _ => panic "ListenResponse::from"

/-- `Device::rxc_listen`.  The loop of the code has no bound of its own: every turn consumes one answer
of the radio, so a script of `n` answers allows at most `n + 1` turns (the fuel; `hang "rxc_listen"`
is unreachable — `C04.async_listen_no_panic`) -/
def asyncListen (r : DevRun) : M (ListenResult × DevRun) := do
  let rf ← macRxcConfig r.m
  listenLoop rf.maxPayload.toNat (r.script.length + 1) r

/-- `Device::join` (OTAA) -/
def asyncJoin {σ} (g : Rng σ) (cfg : DevCfg) (r : DevRun) (rs : σ) : M (DevResult × DevRun × σ) := do
  let (out, m, rs) ← macJoinOtaa g r.m rs
  let r := { r with m := m }
  match r.simpleCall (.tx out.tx 23) with
  | .radioErr r => pure (.errRadio, r, rs)
  | .macErr r => pure (.errMac, r, rs)
  | .cont _ r =>
    match (← rxDownlink cfg true out.tx (r.log .reset)) with
    | .cont resp r => pure (.ok resp, r, rs)
    | .radioErr r => pure (.errRadio, r, rs)
    | .macErr r => pure (.errMac, r, rs)

end Model
