import LoraVerif.Model.Mac
/-!
# Model of the Class A receive procedure both device front-ends run after an uplink

`async_device::Device::rx_downlink` and the `nb_device` state machine do the same thing at the MAC
level: open RX1; a frame heard there is given to `Mac::handle_rx`; unless the MAC answers
`NoUpdate` the procedure ends with that response; otherwise RX2 likewise; if neither window
produced a response, `Mac::rx2_complete`.  A radio fault anywhere after the uplink was handed to the
radio ends the procedure through `rx2_complete` as well (the counter is burnt, see C06).
-/
namespace Model

/-- one receive window: `none` = nothing heard or the MAC said `NoUpdate` -/
def window (m : MacState) (f : Option (RxView × Int)) (maxPayload : Nat) : M (Option RxOut × MacState) :=
  match f with
  | none => pure (none, m)
  | some (v, snr) => do
    let (o, m') ← macHandleRx m v maxPayload snr false
    match o with
    | some o => if o.resp == .noUpdate then pure (none, m') else pure (some o, m')
    | none => pure (none, m')

/-- the receive procedure after an uplink -/
def classACycle (m : MacState) (rx1 rx2 : Option (RxView × Int)) (mp1 mp2 : Nat) :
    M (Response × Option (Nat × List Nat) × MacState) := do
  let (o1, m) ← window m rx1 mp1
  match o1 with
  | some o => pure (o.resp, o.downlink, m)
  | none =>
    let (o2, m) ← window m rx2 mp2
    match o2 with
    | some o => pure (o.resp, o.downlink, m)
    | none =>
      let (r, m) := macRx2Complete m
      pure (r, none, m)

/-- a radio fault after the frame was handed to the radio: the front-end burns the counter -/
def faultAfterTx (m : MacState) : MacState := (macRx2Complete m).2

/-- the session's uplink counter, if joined -/
def MacState.fcntUp? (m : MacState) : Option Nat :=
  match m.st with
  | .joined s => some s.fcntUp
  | _ => none

end Model
