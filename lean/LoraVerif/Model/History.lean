import LoraVerif.Model.Device
/-!
# Histories of the MAC model: events, one step function, `run`

The properties C04/C06/C09 quantify over *every history* of application calls and received frames.
This file gives that quantifier a carrier: an event type `Ev`, one step function `step` over
`MacState × σ` (σ = the state of the random generator, which the caller owns) built ONLY from the
existing model functions (`macSend`, `macJoinOtaa`, `classACycle`, `window`, `faultAfterTx`,
`macHandleRx`, `macRxcConfig`, the setters), and `run` over `List Ev` collecting the outputs.

Event semantics = what both device front-ends do at the MAC level (`Model/Device.lean`) and what the
history runner of the correspondence (`lean/Driver/Mac.lean`) exercises:
* `uplink`: `Mac::send`; not joined → the front-end returns an error and nothing else happens;
  otherwise the frame is handed to the radio and the Class A receive procedure runs (`classACycle`);
  a radio fault after the frame was built (`fault = some k`: after `k` receive windows were served,
  `k = 0` = the transmission itself failed) ends the procedure through `rx2_complete`
  (`faultAfterTx`: the counter is burnt);
* `joinOtaa`: `Mac::join_otaa` + the same receive procedure; a radio fault just ends it;
* `rxc`: a Class C reception between uplinks: the RXC configuration is computed (`get_rxc_config`)
  and the frame goes to `handle_rxc`; the maximum payload `mp` is a parameter (every value);
* `joinAbp`, `setAdr`, `setDr`: the configuration calls.
Window payload limits `mp1`/`mp2` are parameters as well (the device uses those of the windows it
opened; the theorems hold for every value).

Core-only imports (may be linked into the driver).
-/
namespace Model

inductive Ev where
  | joinAbp (devAddr nwk app : Nat)
  /-- join attempt + both windows; `fault = some k`: radio fault after `k` windows were served -/
  | joinOtaa (fault : Option Nat) (rx1 rx2 : Option (RxView × Int)) (mp1 mp2 : Nat)
  /-- `send` + Class A procedure; `fault = some k`: radio fault after the frame was built and `k`
  windows were served -/
  | uplink (data : List Nat) (fport : Nat) (confirmed : Bool) (fault : Option Nat)
           (rx1 rx2 : Option (RxView × Int)) (mp1 mp2 : Nat)
  /-- Class C reception between uplinks -/
  | rxc (v : RxView) (snr : Int) (mp : Nat)
  | setAdr (on : Bool)
  | setDr (dr : Nat)
  deriving Repr

/-- what a step hands to the outside: the frame description / radio configuration given to the
radio and what the front-end reports (`resp = none`: a radio error is reported) -/
inductive Out where
  | done
  | notJoined
  | join (o : JoinOut) (resp : Option Response)
  | up (o : SendOut) (resp : Option Response) (downlink : Option (Nat × List Nat))
  | rxc (rf : RfConfig) (o : Option RxOut)
  deriving Repr

/-- the receive procedure cut short by a radio fault after `k` windows: the windows served so far
were handled normally (a response in RX1 ends the procedure before RX2 anyway) -/
def faultedCycle (m : MacState) (k : Nat) (rx1 rx2 : Option (RxView × Int)) (mp1 mp2 : Nat) : M MacState :=
  match k with
  | 0 => pure m
  | 1 => do
    let (_, m) ← window m rx1 mp1
    pure m
  | _ => do
    let (o1, m) ← window m rx1 mp1
    match o1 with
    | some _ => pure m
    | none =>
      let (_, m) ← window m rx2 mp2
      pure m

def step {σ} (g : Rng σ) (ms : MacState × σ) (ev : Ev) : M ((MacState × σ) × Out) :=
  match ev with
  | .joinAbp da nwk app => pure ((macJoinAbp ms.1 da nwk app, ms.2), .done)
  | .joinOtaa fault rx1 rx2 mp1 mp2 => do
    let (o, m, s) ← macJoinOtaa g ms.1 ms.2
    match fault with
    | some k =>
      let m ← faultedCycle m k rx1 rx2 mp1 mp2
      pure ((m, s), .join o none)
    | none =>
      let (r, _, m) ← classACycle m rx1 rx2 mp1 mp2
      pure ((m, s), .join o (some r))
  | .uplink data fport conf fault rx1 rx2 mp1 mp2 => do
    let (o, m, s) ← macSend g ms.1 data fport conf ms.2
    match o with
    | none => pure ((m, s), .notJoined)
    | some o =>
      match fault with
      | some k =>
        let m ← faultedCycle m k rx1 rx2 mp1 mp2
        pure ((faultAfterTx m, s), .up o (if faultExpired m then some .sessionExpired else none) none)
      | none =>
        let (r, dl, m) ← classACycle m rx1 rx2 mp1 mp2
        pure ((m, s), .up o (some r) dl)
  | .rxc v snr mp => do
    let rf ← macRxcConfig ms.1
    let (o, m) ← macHandleRx ms.1 v mp snr true
    pure ((m, ms.2), .rxc rf o)
  | .setAdr on => pure ((macSetAdr ms.1 on, ms.2), .done)
  | .setDr dr => pure ((macSetDatarate ms.1 dr, ms.2), .done)

/-- run a history; the outputs in order -/
def run {σ} (g : Rng σ) : MacState × σ → List Ev → M ((MacState × σ) × List Out)
  | ms, [] => pure (ms, [])
  | ms, ev :: rest => do
    let (ms, o) ← step g ms ev
    let (ms, os) ← run g ms rest
    pure (ms, o :: os)

/-! ## what the decoded view of a frame structurally is, and what the application must respect -/

/-- representation facts of the decoded view (types of the parser's output, not restrictions on
what the network may send): a type-0 CFList carries five frequencies, a type-1 CFList a
`ChannelMask<9>` -/
def cfListWF : Option CfList → Bool
  | some (.dynamicChannel fs) => fs.length == 5
  | some (.fixedChannel m) => m.length == 9
  | none => true

def viewWF : RxView → Bool
  | .joinAccept j => cfListWF j.cfList
  | _ => true

def rxWF : Option (RxView × Int) → Bool
  | some (v, _) => viewWF v
  | none => true

/-- the application-side preconditions of an event (API misuse is outside the quantifier):
no payload on port 0, a payload that fits the frame buffer, `set_datarate` only to a data rate the
region defines for uplinks.  Everything the NETWORK controls is unconstrained. -/
def validEv (r : RegionId) : Ev → Bool
  | .joinAbp _ _ _ => true
  | .joinOtaa _ rx1 rx2 _ _ => rxWF rx1 && rxWF rx2
  | .uplink data fport _ _ rx1 rx2 _ _ =>
    (fport != 0 || data.isEmpty) && decide (data.length ≤ 222) && rxWF rx1 && rxWF rx2
  | .rxc v _ _ => viewWF v
  | .setAdr _ => true
  | .setDr dr => isUplinkDatarate r dr

/-- validity of an event in a state: it depends on the state only through the (immutable) region -/
def ValidEv (m : MacState) (ev : Ev) : Prop := validEv m.region.id ev = true

instance (m : MacState) (ev : Ev) : Decidable (ValidEv m ev) := by unfold ValidEv; infer_instance

end Model
