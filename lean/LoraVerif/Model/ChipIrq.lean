import LoraVerif.Model.Chip
/-!
# C14, clause I3 made mode-specific: WHICH operation's IRQ routing was programmed last

`Model/Chip.lean` records "IRQ parameters programmed" as one boolean item.  That is too weak: a
`prepare_for_tx` whose last write (the IRQ routing) fails used to leave `radio_mode = Transmit`, and a
following `tx()` then started SetTx with another operation's mask in place (SX126x after a CAD: only
the CAD bits routed to DIO1, TxDone never raises the line, `tx()` waits forever).

`irqTrack` is a second, independent interpretation of the same transcript: the class of the IRQ
routing programmed last since the last configuration loss, decoded from the bytes on the wire
(SX126x: the four masks of `CfgDIOIrq`; SX127x: the `RegIrqFlagsMask` write and the
`RegDioMapping1` write that follows it — a routing written only half is no routing), as the DRIVER
classes them (`set_irq_params`); a class is a set because the SX126x `All` mask is what the driver
programs both for standby and for reception.  `startedWrongIrq` / `rxStartedWrongIrq` record a
SetTx / SetCad resp. SetRx / SetRxDutyCycle executed while the routing programmed last was not the one
for that operation.  The harness has the same tracker in Rust (`harness/src/c14.rs`), fed with the
REAL driver's transcript.
-/
namespace Model.Phy

structure IrqClass where
  stby : Bool := false
  tx : Bool := false
  rx : Bool := false
  cad : Bool := false
  deriving DecidableEq, Repr

/-- SX126x `CfgDIOIrq` arguments: IRQ mask, DIO1, DIO2, DIO3 masks (big endian) -/
def irqClass126 (args : Bytes) : IrqClass :=
  match args with
  | a0 :: a1 :: b0 :: b1 :: c0 :: c1 :: d0 :: d1 :: _ =>
    if a0 == b0 && a1 == b1 && c0 == 0 && c1 == 0 && d0 == 0 && d1 == 0 then
      if a0 == 0xFF && a1 == 0xFF then { stby := true, rx := true }
      else if a0 == 0x02 && a1 == 0x01 then { tx := true }
      else if a0 == 0x01 && a1 == 0x80 then { cad := true }
      else {}
    else {}
  | _ => {}

/-- SX127x: the `RegIrqFlagsMask` value written last and the `RegDioMapping1` value written after it -/
def irqClass127 (mask dio : UInt8) : IrqClass :=
  let d := dio.toNat
  if mask == 0xF7 && d / 64 == 1 then { tx := true }
  else if mask == 0x0F && d / 64 == 0 && (d / 16) % 4 == 0 && d % 4 == 1 then { rx := true }
  else if mask == 0xFA && d / 64 == 2 then { cad := true }
  else if mask == 0xFF && d / 64 == 3 then { stby := true }
  else {}

structure IrqTrack where
  cls : IrqClass := {}
  /-- SX127x: `RegIrqFlagsMask` written, `RegDioMapping1` not yet -/
  pending127 : Option UInt8 := none
  startedWrongIrq : Bool := false
  rxStartedWrongIrq : Bool := false
  deriving DecidableEq, Repr

def IrqTrack.startTx (t : IrqTrack) : IrqTrack := { t with startedWrongIrq := t.startedWrongIrq || !t.cls.tx }
def IrqTrack.startCad (t : IrqTrack) : IrqTrack := { t with startedWrongIrq := t.startedWrongIrq || !t.cls.cad }
def IrqTrack.startRx (t : IrqTrack) : IrqTrack := { t with rxStartedWrongIrq := t.rxStartedWrongIrq || !t.cls.rx }

def irqStep126 (t : IrqTrack) (w : Bytes) : IrqTrack :=
  match w with
  | [] => t
  | op :: args =>
    match decode126 op with
    | .setSleep =>
      let cold := match args with | a :: _ => a &&& 0x04 == 0 | [] => true
      if cold then { t with cls := {} } else t
    | .setTx => t.startTx
    | .setRx => t.startRx
    | .setRxDutyCycle => t.startRx
    | .setCad => t.startCad
    | .irq => { t with cls := irqClass126 args }
    | _ => t

def irqStep127 (t : IrqTrack) (w : Bytes) : IrqTrack :=
  match w with
  | [] => t
  | a0 :: args =>
    let addr := a0.toNat % 128
    if a0.toNat < 128 then t else
    match addr, args with
    | 0x01, v :: _ =>
      let m := v.toNat % 8
      if m = 3 then t.startTx
      else if m = 5 then t.startRx
      else if m = 6 then t.startRx
      else if m = 7 then t.startCad
      else t
    | 0x11, args => { t with cls := {}, pending127 := args.head? }
    | 0x40, args =>
      { t with cls := (match t.pending127, args.head? with
                       | some m, some d => irqClass127 m d
                       | _, _ => {}),
               pending127 := none }
    | _, _ => t

def irqTrackEv (kind : Kind) (t : IrqTrack) (e : Ev) : IrqTrack :=
  match e.mark, e.req with
  | .done, .reset => { t with cls := {}, pending127 := none }
  | .done, .spi w _ => match kind with
    | .sx126x => irqStep126 t w
    | .sx127x => irqStep127 t w
  | _, _ => t

def irqTrack (kind : Kind) (t : IrqTrack) (log : List Ev) : IrqTrack :=
  log.foldl (irqTrackEv kind) t

end Model.Phy
