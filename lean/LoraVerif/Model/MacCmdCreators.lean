import LoraVerif.Model.MacCmdFields
/-!
# The command creators (builders), as coded

* derive-generated `XCreator { data: [u8; max_len + 1] }`: `new()` = `[cid, 0, …]`, `build()` = `&data[..len()]`
  (lorawan-macros/src/lib.rs);
* the hand-written setters of maccommandcreator.rs, certification.rs, multicast/{mod,group_setup,group_status}.rs,
  incl. the two hand-written variable-length creators (`EchoIncPayloadAnsCreator`, `McGroupStatusAnsCreator`);
* `mac_commands_len` / `build_mac_commands` (maccommands.rs, maccommandcreator.rs).

Setters that return `Result` refuse (`SetRes.err`, state unchanged); the others mask or store the raw
value — whatever the code does.  Every `self.data[i]` / `copy_from_slice` is checked.  Import-free.
-/
namespace MacCmd

/-- argument of a setter call -/
inductive Arg where
  | n (v : Nat)
  | i (v : Int)
  | bytes (b : Bytes)
  /-- `push(group_id, mc_addr)` -/
  | item (id : Nat) (addr : Bytes)
  deriving Repr, DecidableEq

inductive SetRes where
  | ok
  | err (e : String)
  deriving Repr, DecidableEq

/-- a creator: the `data` array plus the bookkeeping of the two variable-length creators -/
structure Creator where
  data : Bytes
  /-- `EchoIncPayloadAnsCreator::payload_len` / `McGroupStatusAnsCreator::items` (0 for fixed-length creators) -/
  count : Nat
  deriving Repr, DecidableEq

/-- `self.data[i] = v` -/
def setByte (site : String) (d : Bytes) (i v : Nat) : Outcome Bytes :=
  if i < d.length then .ok (d.set i v) else .panic site

/-- `self.data[i] = f(self.data[i])` (`&=`, `|=`) -/
def modByte (site : String) (d : Bytes) (i : Nat) (f : Nat → Nat) : Outcome Bytes := do
  let x ← index site d i
  setByte site d i (f x)

/-- `self.data[a..b].copy_from_slice(src)`: the range must be in bounds and the lengths equal -/
def copyInto (site : String) (d : Bytes) (a b : Nat) (src : Bytes) : Outcome Bytes :=
  if a ≤ b ∧ b ≤ d.length ∧ src.length = b - a then .ok (d.take a ++ src ++ d.drop b) else .panic site

/-- `v.to_le_bytes()` for an `n`-byte unsigned integer -/
def toLeBytes : Nat → Nat → Bytes
  | 0, _ => []
  | n + 1, v => (v % 256) :: toLeBytes n (v / 256)

/-- `XCreator::new()`: `[cid, 0, …, 0]` of `max_len + 1` bytes; the two hand-written creators have
`[u8; 242]` resp. `[u8; 22]` -/
def Creator.new (e : Entry) : Outcome Creator :=
  match e.len with
  | some n => .ok { data := e.cid :: List.replicate n 0, count := 0 }
  | none =>
    if e.payload = "EchoIncPayloadAnsPayload" then .ok { data := e.cid :: List.replicate 241 0, count := 0 }
    else if e.payload = "McGroupStatusAnsPayload" then .ok { data := e.cid :: List.replicate 21 0, count := 0 }
    else .panic "UnimplementedCreator::new: unimplemented!()"

/-- `len()` including the CID -/
def Creator.len (e : Entry) (c : Creator) : Nat :=
  match e.len with
  | some n => n + 1
  | none => if e.payload = "McGroupStatusAnsPayload" then 1 + 1 + c.count * 5 else c.count + 1

/-- `build()`: `&self.data[..self.len()]` (`&self.data[..=self.payload_len]` for the echo creator) -/
def Creator.build (e : Entry) (c : Creator) : Outcome Bytes := slice "build: &self.data[..self.len()]" c.data 0 (c.len e)

def okD (c : Creator) (d : Bytes) : Outcome (SetRes × Creator) := .ok (.ok, { c with data := d })
def refuse (c : Creator) (e : String) : Outcome (SetRes × Creator) := .ok (.err e, c)
def badCall : Outcome (SetRes × Creator) := .panic "no such setter / argument type"

/-- `self.data[1] &= !(1 << k); self.data[1] |= (ack as u8) << k` -/
def setFlag (c : Creator) (k : Nat) (a : Arg) : Outcome (SetRes × Creator) :=
  match a with
  | .n v => do
    let d ← modByte "data[1] &= mask" c.data 1 (· &&& (255 - (1 <<< k)))
    let d ← modByte "data[1] |= (ack as u8) << k" d 1 (· ||| ((v <<< k) % 256))
    okD c d
  | _ => badCall

/-- `if v > 0x0f { Err } ; data[1] &= 0xf0; data[1] |= v` -/
def setLowNibbleChecked (c : Creator) (errName : String) (a : Arg) : Outcome (SetRes × Creator) :=
  match a with
  | .n v =>
    if v > 0x0f then refuse c errName
    else do
      let d ← modByte "data[1] &= 0xf0" c.data 1 (· &&& 0xf0)
      let d ← modByte "data[1] |= v" d 1 (· ||| v)
      okD c d
  | _ => badCall

def setRaw (c : Creator) (i : Nat) (a : Arg) : Outcome (SetRes × Creator) :=
  match a with
  | .n v => do let d ← setByte "data[i] = v" c.data i v; okD c d
  | _ => badCall

def setBytes (c : Creator) (lo hi : Nat) (a : Arg) : Outcome (SetRes × Creator) :=
  match a with
  | .bytes b => do let d ← copyInto "data[a..b].copy_from_slice" c.data lo hi b; okD c d
  | _ => badCall

def setLinkCheckAns (c : Creator) (setter : String) (a : Arg) : Outcome (SetRes × Creator) :=
  match setter with
  | "set_margin" => setRaw c 1 a
  | "set_gateway_count" => setRaw c 2 a
  | _ => badCall

def setLinkADRReq (c : Creator) (setter : String) (a : Arg) : Outcome (SetRes × Creator) :=
  match setter with
  | "set_data_rate" =>
    match a with
    | .n v =>
      if v > 0x0f then refuse c "InvalidDataRate"
      else do
        let d ← modByte "data[1] &= 0x0f" c.data 1 (· &&& 0x0f)
        let d ← modByte "data[1] |= data_rate << 4" d 1 (· ||| ((v <<< 4) % 256))
        okD c d
    | _ => badCall
  | "set_tx_power" =>
    match a with
    | .n v =>
      if v > 0x0f then refuse c "InvalidTxPower"
      else do
        let d ← modByte "data[1] &= 0xf0" c.data 1 (· &&& 0xf0)
        let d ← modByte "data[1] |= tx_power & 0x0f" d 1 (· ||| (v &&& 0x0f))
        okD c d
    | _ => badCall
  | "set_channel_mask" =>
    match a with
    | .bytes b => do
      let m0 ← index "converted.as_ref()[0]" b 0
      let m1 ← index "converted.as_ref()[1]" b 1
      let d ← setByte "data[2] = .." c.data 2 m0
      let d ← setByte "data[3] = .." d 3 m1
      okD c d
    | _ => badCall
  | "set_redundancy" => setRaw c 4 a
  | _ => badCall

def setLinkADRAns (c : Creator) (setter : String) (a : Arg) : Outcome (SetRes × Creator) :=
  match setter with
  | "set_channel_mask_ack" => setFlag c 0 a
  | "set_data_rate_ack" => setFlag c 1 a
  | "set_tx_power_ack" => setFlag c 2 a
  | _ => badCall

def setDutyCycleReq (c : Creator) (setter : String) (a : Arg) : Outcome (SetRes × Creator) :=
  match setter with
  | "set_max_duty_cycle" => setLowNibbleChecked c "MaxDutyCycleOutOfRange" a
  | _ => badCall

def setRXParamSetupReq (c : Creator) (setter : String) (a : Arg) : Outcome (SetRes × Creator) :=
  match setter with
  | "set_dl_settings" => setRaw c 1 a
  | "set_frequency" => setBytes c 2 5 a
  | _ => badCall

def setRXParamSetupAns (c : Creator) (setter : String) (a : Arg) : Outcome (SetRes × Creator) :=
  match setter with
  | "set_channel_ack" => setFlag c 0 a
  | "set_rx2_data_rate_ack" => setFlag c 1 a
  | "set_rx1_data_rate_offset_ack" => setFlag c 2 a
  | _ => badCall

def setDevStatusAns (c : Creator) (setter : String) (a : Arg) : Outcome (SetRes × Creator) :=
  match setter with
  | "set_battery" => setRaw c 1 a
  | "set_margin" =>
    match a with
    | .i m =>
      if ¬ (-32 ≤ m ∧ m ≤ 31) then refuse c "MarginOutOfRange"
      else do
        -- ((margin << 2) as u8) >> 2
        let d ← setByte "data[2] = .." c.data 2 ((Int.toNat ((m * 4) % 256)) >>> 2)
        okD c d
    | _ => badCall
  | _ => badCall

def setNewChannelReq (c : Creator) (setter : String) (a : Arg) : Outcome (SetRes × Creator) :=
  match setter with
  | "set_channel_index" => setRaw c 1 a
  | "set_frequency" => setBytes c 2 5 a
  | "set_data_rate_range" => setRaw c 5 a
  | _ => badCall

def setNewChannelAns (c : Creator) (setter : String) (a : Arg) : Outcome (SetRes × Creator) :=
  match setter with
  | "set_channel_frequency_ack" => setFlag c 0 a
  | "set_data_rate_range_ack" => setFlag c 1 a
  | _ => badCall

def setRXTimingSetupReq (c : Creator) (setter : String) (a : Arg) : Outcome (SetRes × Creator) :=
  match setter with
  | "set_delay" => setLowNibbleChecked c "DelayOutOfRange" a
  | _ => badCall

def setTXParamSetupReq (c : Creator) (setter : String) (a : Arg) : Outcome (SetRes × Creator) :=
  match setter with
  | "set_downlink_dwell_time" => setFlag c 5 a
  | "set_uplink_dwell_time" => setFlag c 4 a
  | "set_max_eirp" => setLowNibbleChecked c "MaxEirpOutOfRange" a
  | _ => badCall

def setDlChannelReq (c : Creator) (setter : String) (a : Arg) : Outcome (SetRes × Creator) :=
  match setter with
  | "set_channel_index" => setRaw c 1 a
  | "set_frequency" => setBytes c 2 5 a
  | _ => badCall

def setDlChannelAns (c : Creator) (setter : String) (a : Arg) : Outcome (SetRes × Creator) :=
  match setter with
  | "set_channel_frequency_ack" => setFlag c 0 a
  | "set_uplink_frequency_exists_ack" => setFlag c 1 a
  | _ => badCall

def setDeviceTimeAns (c : Creator) (setter : String) (a : Arg) : Outcome (SetRes × Creator) :=
  match setter with
  | "set_seconds" =>
    match a with
    | .n v => do
      -- self.data[1..5].copy_from_slice(&seconds.to_le_bytes())
      let d ← copyInto "data[1..5].copy_from_slice" c.data 1 5 (toLeBytes 4 v)
      okD c d
    | _ => badCall
  | "set_nano_seconds" =>
    match a with
    | .n v =>
      if v > 1000000000 then refuse c "NanoSecondsOutOfRange"
      else do
        -- (nano_seconds / 3906250) as u8
        let d ← setByte "data[5] = .." c.data 5 ((v / 3906250) % 256)
        okD c d
    | _ => badCall
  | _ => badCall

def setDutVersionsAns (c : Creator) (setter : String) (a : Arg) : Outcome (SetRes × Creator) :=
  match setter with
  | "set_versions_raw" => setBytes c 1 13 a
  | _ => badCall

def setRxAppCntAns (c : Creator) (setter : String) (a : Arg) : Outcome (SetRes × Creator) :=
  match setter with
  | "set_rx_app_cnt" =>
    match a with
    | .n v => do
      let d ← copyInto "data[1..=2].copy_from_slice" c.data 1 3 (toLeBytes 2 v)
      okD c d
    | _ => badCall
  | _ => badCall

def setEchoIncPayloadAns (c : Creator) (setter : String) (a : Arg) : Outcome (SetRes × Creator) :=
  match setter with
  | "payload" =>
    match a with
    | .bytes b => do
      -- `let data = &data[..data.len().min(max_len())]`; dst = src.wrapping_add(1); payload_len = data.len()
      let src ← slice "payload: &data[..min]" b 0 (min b.length 241)
      let d ← copyInto "payload: self.data[1..=data.len()]" c.data 1 (1 + src.length) (src.map (fun x => (x + 1) % 256))
      .ok (.ok, { data := d, count := src.length })
    | _ => badCall
  | _ => badCall

def setPackageVersionAns (c : Creator) (setter : String) (a : Arg) : Outcome (SetRes × Creator) :=
  match setter with
  | "package_identifier" => setRaw c 1 a
  | "package_version" => setRaw c 2 a
  | _ => badCall

def setMcGroupStatusReq (c : Creator) (setter : String) (a : Arg) : Outcome (SetRes × Creator) :=
  match setter with
  | "req_group_mask" =>
    match a with
    | .n v => do
      let d ← modByte "data[1] &= 0b11110000" c.data 1 (· &&& 0b11110000)
      let d ← modByte "data[1] |= mask & 0b1111" d 1 (· ||| (v &&& 0b1111))
      okD c d
    | _ => badCall
  | "req_group" =>
    match a with
    | .n v => do
      let d ← modByte "data[1] |= 1 << (req_group & 0b11)" c.data 1 (· ||| (1 <<< (v &&& 0b11)))
      okD c d
    | _ => badCall
  | _ => badCall

def setMcGroupSetupReq (cph : Cipher) (c : Creator) (setter : String) (a : Arg) : Outcome (SetRes × Creator) :=
  match setter with
  | "mc_group_id_header" =>
    match a with
    | .n v => do
      let d ← modByte "data[1] &= 0b1111_1100" c.data 1 (· &&& 0b11111100)
      let d ← modByte "data[1] |= v & 0b11" d 1 (· ||| (v &&& 0b11))
      okD c d
    | _ => badCall
  | "mc_addr" => setBytes c 2 6 a
  | "mc_key" =>
    match a with
    | .bytes k => do
      -- block.copy_from_slice(mc_key.as_ref()); crypto.decrypt_block(block)
      let d ← copyInto "mc_key: block.copy_from_slice" c.data 6 22 k
      let blk ← slice "mc_key: &mut self.data[OFFSET..END]" d 6 22
      let w ← cph.decryptBlock blk
      let d ← copyInto "mc_key: decrypt_block in place" d 6 22 w
      okD c d
    | _ => badCall
  | "min_mc_fcount" =>
    match a with
    | .n v => do let d ← copyInto "data[22..26].copy_from_slice" c.data 22 26 (toLeBytes 4 v); okD c d
    | _ => badCall
  | "max_mc_fcount" =>
    match a with
    | .n v => do let d ← copyInto "data[26..30].copy_from_slice" c.data 26 30 (toLeBytes 4 v); okD c d
    | _ => badCall
  | _ => badCall

def setMcGroupSetupAns (c : Creator) (setter : String) (a : Arg) : Outcome (SetRes × Creator) :=
  match setter with
  | "mc_group_id_header" =>
    match a with
    | .n v => do
      let d ← modByte "data[1] &= 0b1111_1100" c.data 1 (· &&& 0b11111100)
      let d ← modByte "data[1] |= v & 0b11" d 1 (· ||| (v &&& 0b11))
      okD c d
    | _ => badCall
  | _ => badCall

def setMcGroupDeleteReq (c : Creator) (setter : String) (a : Arg) : Outcome (SetRes × Creator) :=
  match setter with
  | "mc_group_id_header" =>
    match a with
    | .n v => do
      let d ← modByte "data[1] &= 0b1111_1100" c.data 1 (· &&& 0b11111100)
      let d ← modByte "data[1] |= v & 0b11" d 1 (· ||| (v &&& 0b11))
      okD c d
    | _ => badCall
  | _ => badCall

def setMcGroupDeleteAns (c : Creator) (setter : String) (a : Arg) : Outcome (SetRes × Creator) :=
  match setter with
  | "mc_group_id_header" =>
    match a with
    | .n v => do
      let d ← modByte "data[1] &= 0b1111_1100" c.data 1 (· &&& 0b11111100)
      let d ← modByte "data[1] |= v & 0b11" d 1 (· ||| (v &&& 0b11))
      okD c d
    | _ => badCall
  | "mc_group_undefined" =>
    match a with
    | .n v => do
      let d ← if v != 0 then modByte "data[1] |= 0b100" c.data 1 (· ||| 0b100)
               else modByte "data[1] &= 0b1111_1011" c.data 1 (· &&& 0b11111011)
      okD c d
    | _ => badCall
  | _ => badCall

def setMcGroupStatusAns (c : Creator) (setter : String) (a : Arg) : Outcome (SetRes × Creator) :=
  match setter with
  | "nb_total_groups" =>
    match a with
    | .n v => do
      let d ← modByte "data[1] &= 0b1111" c.data 1 (· &&& 0b1111)
      let d ← modByte "data[1] |= (v & 0b111) << 4" d 1 (· ||| (((v &&& 0b111) <<< 4) % 256))
      okD c d
    | _ => badCall
  | "push" =>
    match a with
    | .item id addr => do
      let st ← index "push: self.data[1]" c.data 1
      -- if group_id as usize >= MAX_GROUPS || self.data[1] & (1 << group_id) != 0 { return Err(InvalidIndex) }
      if id ≥ 4 then refuse c "InvalidIndex"
      else if st &&& (1 <<< id) != 0 then refuse c "InvalidIndex"
      else do
        let d ← modByte "push: self.data[1] |= bm" c.data 1 (· ||| (1 <<< id))
        let off := 2 + c.count * 5
        let d ← setByte "push: self.data[offset] = group_id" d off id
        let d ← copyInto "push: self.data[offset + 1..offset + 5].copy_from_slice" d (off + 1) (off + 5) addr
        .ok (.ok, { data := d, count := c.count + 1 })
    | _ => badCall
  | _ => badCall

/-- One setter call on the creator of the command with payload type `ty`. -/
def Creator.set (cph : Cipher) (ty : String) (c : Creator) (setter : String) (a : Arg) : Outcome (SetRes × Creator) :=
  match ty with
  | "LinkCheckAnsPayload" => setLinkCheckAns c setter a
  | "LinkADRReqPayload" => setLinkADRReq c setter a
  | "LinkADRAnsPayload" => setLinkADRAns c setter a
  | "DutyCycleReqPayload" => setDutyCycleReq c setter a
  | "RXParamSetupReqPayload" => setRXParamSetupReq c setter a
  | "RXParamSetupAnsPayload" => setRXParamSetupAns c setter a
  | "DevStatusAnsPayload" => setDevStatusAns c setter a
  | "NewChannelReqPayload" => setNewChannelReq c setter a
  | "NewChannelAnsPayload" => setNewChannelAns c setter a
  | "RXTimingSetupReqPayload" => setRXTimingSetupReq c setter a
  | "TXParamSetupReqPayload" => setTXParamSetupReq c setter a
  | "DlChannelReqPayload" => setDlChannelReq c setter a
  | "DlChannelAnsPayload" => setDlChannelAns c setter a
  | "DeviceTimeAnsPayload" => setDeviceTimeAns c setter a
  | "DutVersionsAnsPayload" => setDutVersionsAns c setter a
  | "RxAppCntAnsPayload" => setRxAppCntAns c setter a
  | "EchoIncPayloadAnsPayload" => setEchoIncPayloadAns c setter a
  | "PackageVersionAnsPayload" => setPackageVersionAns c setter a
  | "McGroupStatusReqPayload" => setMcGroupStatusReq c setter a
  | "McGroupSetupReqPayload" => setMcGroupSetupReq cph c setter a
  | "McGroupSetupAnsPayload" => setMcGroupSetupAns c setter a
  | "McGroupDeleteReqPayload" => setMcGroupDeleteReq c setter a
  | "McGroupDeleteAnsPayload" => setMcGroupDeleteAns c setter a
  | "McGroupStatusAnsPayload" => setMcGroupStatusAns c setter a
  | _ => badCall

/-- a fresh creator, a sequence of setter calls, `build()` -/
def buildWith (cph : Cipher) (e : Entry) (calls : List (String × Arg)) : Outcome (List SetRes × Bytes) := do
  let c0 ← Creator.new e
  let (rs, c) ← calls.foldlM (fun (acc : List SetRes × Creator) (call : String × Arg) => do
      let (r, c') ← Creator.set cph e.payload acc.2 call.1 call.2
      pure (acc.1 ++ [r], c')) (([] : List SetRes), c0)
  let b ← c.build e
  .ok (rs, b)

/-! ## `build_mac_commands` -/

/-- `mac_commands_len(cmds)`: `Σ (payload_len + 1)`; a command is given by its built bytes (`cid ‖ payload`,
`payload_len() = build().len() - 1`) -/
def macCommandsLen (cmds : List Bytes) : Outcome Nat :=
  cmds.foldlM (fun acc b => do
    let pl ← (if 1 ≤ b.length then .ok (b.length - 1) else .panic "payload_len: self.build().len() - 1" : Outcome Nat)
    .ok (acc + (pl + 1))) 0

/-- the loop of `build_mac_commands`: `res[i] = mc.cid(); res[start..end].copy_from_slice(mc.payload_bytes())` -/
def buildLoop : List Bytes → Bytes → Nat → Outcome (Bytes × Nat)
  | [], res, i => .ok (res, i)
  | b :: more, res, i => do
    let cid ← index "cid: self.build()[0]" b 0
    let payload ← sliceFrom "payload_bytes: &self.build()[1..]" b 1
    let res ← setByte "build_mac_commands: res[i] = mc.cid()" res i cid
    let start := i + 1
    let stop := start + payload.length
    let res ← copyInto "build_mac_commands: res[start..end].copy_from_slice" res start stop payload
    buildLoop more res stop

/-- `build_mac_commands(cmds, out)`: `Err(BufferTooShort)` (`none`) or the output buffer and the length written -/
def buildMacCommands (cmds : List Bytes) (out : Bytes) : Outcome (Option (Bytes × Nat)) := do
  let total ← macCommandsLen cmds
  if total > out.length then .ok none
  else do
    let r ← buildLoop cmds out 0
    .ok (some r)

end MacCmd
