import LoraVerif.Model.PhyIo
import LoraVerif.Gen.PhyCodes126
import LoraVerif.Gen.PhyCodes127
import LoraVerif.Gen.PhyCodes1276
import LoraVerif.Gen.PhyCodes1272
/-!
# Model of the two `RadioKind` implementations of lora-phy (transliteration, tie B)

`Sx126x.*` models `lora-phy/src/sx126x/mod.rs`, `Sx127x.*` models `lora-phy/src/sx127x/mod.rs`
with `sx1276.rs` / `sx1272.rs`, operation by operation, as `Prog` trees over the I/O layer of
`Model/PhyIo.lean`.  Opcodes, register addresses, IRQ masks and the SF/BW/CR code tables are NOT
written here: they come from `Gen/PhyCodes*.lean`, regenerated from `radio_kind_params.rs`,
`sx1276.rs`, `sx1272.rs` on every run (tie A).  The PA tables of `sx126x/variant.rs` are copied by
hand (`paTable`), their values belong to C17; here only their framing into SPI bytes matters and the
correspondence compares every power level byte-exactly.

Rust arithmetic that can panic (index out of bounds, `u8` overflow with overflow checks on,
`todo!()`) is modelled as `Prog.panic`.
-/
namespace Model.Phy

/-! ## shared parameter types (lora-phy/src/mod_params.rs) -/

inductive RxMode where
  | single (symbols : Nat)
  | continuous
  | dutyCycle (rxTime sleepTime : Nat)
  deriving DecidableEq, Repr

inductive RadioMode where
  | sleep | standby | frequencySynthesis | transmit
  | receive (m : RxMode)
  | listen | cad
  deriving DecidableEq, Repr

inductive IrqState where
  | preambleReceived | done
  deriving DecidableEq, Repr

structure PacketParams where
  preambleLength : Nat      -- u16
  implicitHeader : Bool
  payloadLength : Nat       -- u8
  crcOn : Bool
  iqInverted : Bool
  deriving DecidableEq, Repr

def byte (i : Int) : UInt8 := UInt8.ofNat i.toNat
def ofOpt {α : Type} (site : String) : Option α → Prog α
  | some a => pure a
  | none => .panic site

/-- `Prog` version of binding a `Result` without `?` -/
def attempt {α : Type} : Prog α → Prog (Except RadioError α)
  | .ret a => .ret (.ok a)
  | .fail e => .ret (.error e)
  | .panic s => .panic s
  | .io req k => .io req (fun bs => attempt (k bs))
  | .ioE req k => .ioE req (fun r => attempt (k r))

def b2u (b : Bool) : UInt8 := if b then 1 else 0
def hi8 (n : Nat) : UInt8 := UInt8.ofNat ((n / 256) % 256)
def lo8 (n : Nat) : UInt8 := UInt8.ofNat (n % 256)

namespace Sx126x
open Gen.PhyCodes126

inductive Variant where
  | sx1261 | sx1262
  | stm32wl (highPower : Bool)
  deriving DecidableEq, Repr

structure Config where
  chip : Variant
  /-- `tcxo_ctrl`: the voltage code when a TCXO is used -/
  tcxo : Option TcxoCtrlVoltage
  useDcdc : Bool
  rxBoost : Bool

structure ModulationParams where
  sf : SpreadingFactor
  bw : Bandwidth
  cr : CodingRate
  ldro : UInt8
  freq : Nat
  deriving Repr

/-- `DeviceSel` as the byte sent (`LowPowerPA = 1`, `HighPowerPA = 0`) -/
def Variant.highPower : Variant → Bool
  | .sx1261 => false
  | .sx1262 => true
  | .stm32wl hp => hp
def Variant.deviceSel (v : Variant) : UInt8 := if v.highPower then 0 else 1
def Variant.dio2AsRfSwitch : Variant → Bool
  | .stm32wl _ => false
  | _ => true

structure PaEntry where
  maxDbm : Int
  duty : UInt8
  hpMax : UInt8
  txAtMax : Int

structure PaTable where
  minDbm : Int
  entries : List PaEntry

/-- `SX1261_PA_TABLE`, `SX1262_PA_TABLE`, `STM32WL_HP_PA_TABLE` (sx126x/variant.rs) -/
def sx1261Table : PaTable := ⟨-17, [⟨10, 0x01, 0x00, 13⟩, ⟨14, 0x04, 0x00, 14⟩, ⟨15, 0x06, 0x00, 14⟩]⟩
def sx1262Table : PaTable := ⟨-9, [⟨14, 0x02, 0x02, 22⟩, ⟨17, 0x02, 0x03, 22⟩, ⟨20, 0x03, 0x05, 22⟩, ⟨22, 0x04, 0x07, 22⟩]⟩
def stm32wlHpTable : PaTable := ⟨-9, [⟨14, 0x02, 0x02, 14⟩, ⟨17, 0x02, 0x03, 22⟩, ⟨20, 0x03, 0x05, 22⟩, ⟨22, 0x04, 0x07, 22⟩]⟩

def Variant.paTable : Variant → PaTable
  | .sx1261 => sx1261Table
  | .sx1262 => sx1262Table
  | .stm32wl true => stm32wlHpTable
  | .stm32wl false => sx1261Table

/-- `PaTable::lookup`: the row and the SetTxParams power byte; `none` = the empty-table index panic -/
def PaTable.lookup (t : PaTable) (dbm : Int) : Option (PaEntry × UInt8) :=
  match t.entries.getLast? with
  | none => none
  | some last =>
    let txp := max t.minDbm (min last.maxDbm dbm)
    let entry := match t.entries.find? (fun e => e.maxDbm ≥ txp) with
      | some e => e
      | none => last
    some (entry, UInt8.ofNat ((entry.txAtMax - (entry.maxDbm - txp)) % 256).toNat)

def op (o : OpCode) : UInt8 := byte (OpCode.value o)
def addr1 (r : Register) : Prog UInt8 := do
  let v ← ofOpt "Register::addr1" (Register.addr1 r)
  pure (byte v)
def addr2 (r : Register) : UInt8 := byte (Register.addr2 r)

/-- `reg_w_8` -/
def regW8 (r : Register) (v : UInt8) : Prog Unit := do
  let a1 ← addr1 r
  intfWrite [op .WriteRegister, a1, addr2 r, v]

/-- `reg_r_8` -/
def regR8 (r : Register) : Prog UInt8 := do
  let a1 ← addr1 r
  let bs ← intfRead [op .ReadRegister, a1, addr2 r, 0] 1
  pure (UInt8.ofNat (byteAt bs 0))   -- `buf` is a one-element array: indexing it cannot fail

def timeout1 (t : Nat) : UInt8 := UInt8.ofNat ((t / 65536) % 256)
def timeout2 (t : Nat) : UInt8 := UInt8.ofNat ((t / 256) % 256)
def timeout3 (t : Nat) : UInt8 := UInt8.ofNat (t % 256)

def MAX_NUMBER_REGS_IN_RETENTION : Nat := 4

/-- the `for i in 0..number_of_registers` scan; `none` = index out of bounds (panic), `some true` = found -/
def retentionScan (buffer : Bytes) (a1 a2 : UInt8) (n : Nat) : Nat → Nat → Option Bool
  | _, 0 => some false
  | i, fuel + 1 =>
    if i ≥ n then some false else
    match buffer[1 + 2 * i]? with
    | none => none
    | some x =>
      if a1 = x then
        match buffer[2 + 2 * i]? with
        | none => none
        | some y => if a2 = y then some true else retentionScan buffer a1 a2 n (i + 1) fuel
      else retentionScan buffer a1 a2 n (i + 1) fuel

/-- `add_register_to_retention_list` -/
def addRegisterToRetentionList (r : Register) : Prog Unit := do
  let l1 ← addr1 .RetentionList
  let buffer ← intfRead [op .ReadRegister, l1, addr2 .RetentionList, 0] (1 + 2 * MAX_NUMBER_REGS_IN_RETENTION)
  let a1 ← addr1 r
  let n ← ofOpt "retention: buffer[0]" (buffer[0]?.map (·.toNat))
  match retentionScan buffer a1 (addr2 r) n 0 256 with
  | none => .panic "add_register_to_retention_list: buffer[1 + 2*i] out of bounds"
  | some true => pure ()
  | some false =>
    if n < MAX_NUMBER_REGS_IN_RETENTION then
      let buffer' := (buffer.set 0 (UInt8.ofNat (n + 1))).set (1 + 2 * n) a1 |>.set (2 + 2 * n) (addr2 r)
      intfWriteWithPayload [op .WriteRegister, l1, addr2 .RetentionList] buffer'
    else .fail .InvalidConfiguration

def updateRetentionList : Prog Unit := do
  addRegisterToRetentionList .RxGain
  addRegisterToRetentionList .TxModulation

def SX126X_MAX_LORA_SYMB_NUM_TIMEOUT : Nat := 248

/-- the `while mant > 31` loop -/
def mantExp : Nat → Nat → Nat → Nat × Nat
  | mant, exp, 0 => (mant, exp)
  | mant, exp, fuel + 1 => if mant > 31 then mantExp ((mant + 3) / 4) (exp + 1) fuel else (mant, exp)

/-- `set_lora_symbol_num_timeout` -/
def setLoraSymbolNumTimeout (symbolNum : Nat) : Prog Unit := do
  let (mant, exp) := mantExp ((min symbolNum SX126X_MAX_LORA_SYMB_NUM_TIMEOUT + 1) / 2) 0 8
  let val : UInt8 := UInt8.ofNat ((mant * 2 ^ (2 * exp + 1)) % 256)
  intfWrite [op .SetLoRaSymbTimeout, val]
  if symbolNum > 0 then
    if exp + mant * 8 > 255 then .panic "set_lora_symbol_num_timeout: u8 overflow" else
    regW8 .SynchTimeout (UInt8.ofNat (exp + mant * 8))
  else pure ()

def setPaConfig (duty hpMax deviceSel : UInt8) : Prog Unit :=
  intfWrite [op .SetPAConfig, duty, hpMax, deviceSel, 0x01]

/-- `convert_freq_in_hz_to_pll_step` (u32 arithmetic; `<<` drops bits, `+` panics on overflow) -/
def pllStep (f : Nat) : Option Nat :=
  let stepsInt := f / 15625
  let stepsFrac := f - stepsInt * 15625
  let a := (stepsInt * 16384) % 4294967296
  let b := ((stepsFrac * 16384) % 4294967296 + 7812) / 15625
  if a + b < 4294967296 then some (a + b) else none

/-- `handle_implicit_header_mode` -/
def handleImplicitHeaderMode : Prog Unit := do
  regW8 .RTCCtrl 0
  let v ← regR8 .EvtClr
  regW8 .EvtClr (v ||| 0x02)

def setLoraSyncWord (syncWord : Nat) : Prog Unit := do
  let a1 ← addr1 .LoRaSyncword
  intfWriteWithPayload [op .WriteRegister, a1, addr2 .LoRaSyncword] [hi8 syncWord, lo8 syncWord]

def setTxRxBufferBaseAddress (tx rx : Nat) : Prog Unit :=
  if tx > 255 ∨ rx > 255 then .fail (.InvalidBaseAddress tx rx) else
  intfWrite [op .SetBufferBaseAddress, UInt8.ofNat tx, UInt8.ofNat rx]

/-- `init_lora` -/
def initLora (cfg : Config) (syncWord : Nat) : Prog Unit := do
  if cfg.useDcdc then intfWrite [op .SetRegulatorMode, byte (RegulatorMode.value .UseDCDC)]
  if cfg.chip.dio2AsRfSwitch then intfWrite [op .SetDIO2AsRfSwitchCtrl, b2u cfg.chip.dio2AsRfSwitch]
  match cfg.tcxo with
  | some v =>
    let _ ← intfReadWithStatus [op .ClearDeviceErrors] 2
    let timeout := 10 * 64
    intfWrite [op .SetTCXOMode, byte (TcxoCtrlVoltage.value v) &&& 0x07, timeout1 timeout, timeout2 timeout, timeout3 timeout]
    intfWrite [op .Calibrate, 0x7f]
    Prog.req .busy
  | none => pure ()
  intfWrite [op .SetPacketType, byte (PacketType.value .LoRa)]
  setLoraSyncWord syncWord
  setTxRxBufferBaseAddress 0 0
  updateRetentionList

def reset : Prog Unit := Prog.req .reset

def ensureReady (mode : RadioMode) : Prog Unit :=
  match mode with
  | .sleep => intfWrite [op .GetStatus, 0]
  | .receive (.dutyCycle _ _) => intfWrite [op .GetStatus, 0]
  | _ => Prog.req .busy

def setStandby : Prog Unit := do
  intfWrite [op .SetStandby, byte (StandbyMode.value .RC)]
  Prog.req .rfOff

def setSleep (warm : Bool) : Prog Unit := do
  Prog.req .rfOff
  let v ← ofOpt "SleepParams::value" (SleepParams.value { wakeup_rtc := false, reset := false, warm_start := warm })
  intfWrite [op .SetSleep, byte v] true
  Prog.req (.delay 2)

/-- `set_tx_power_and_ramp_time`; `freq = none` is `mdltn_params = None` -/
def setTxPowerAndRampTime (cfg : Config) (power : Int) (freq : Option Nat) (isTxPrep : Bool) : Prog Unit := do
  let ramp : RampTime := if isTxPrep then .Ramp40Us else .Ramp200Us
  if cfg.chip.highPower then
    let v ← regR8 .TxClampCfg
    regW8 .TxClampCfg (v ||| 0x1e)
  else
    match freq with
    | some f => if power ≥ 15 ∧ f < 400000000 then .fail .InvalidOutputPowerForFrequency else pure ()
    | none => pure ()
  let (entry, txp) ← ofOpt "PaTable::lookup: empty table" (cfg.chip.paTable.lookup power)
  setPaConfig entry.duty entry.hpMax cfg.chip.deviceSel
  intfWrite [op .SetTxParams, txp, byte (RampTime.value ramp)]

def errUnavailable {α : Type} (e : RadioError) : Option α → Prog α
  | some a => pure a
  | none => .fail e

def setModulationParams (m : ModulationParams) : Prog Unit := do
  let sf ← errUnavailable .UnavailableSpreadingFactor (spreading_factor_value m.sf)
  let bw ← errUnavailable .UnavailableBandwidth (bandwidth_value m.bw)
  let cr ← errUnavailable .InvalidConfiguration (coding_rate_value m.cr)
  intfWrite [op .SetModulationParams, byte sf, byte bw, byte cr, m.ldro]
  let v ← regR8 .TxModulation
  if m.bw = ._500KHz then regW8 .TxModulation (v &&& 0xfb) else regW8 .TxModulation (v ||| 0x04)

def setPacketParams (p : PacketParams) : Prog Unit := do
  intfWrite [op .SetPacketParams, hi8 p.preambleLength, lo8 p.preambleLength, b2u p.implicitHeader,
    UInt8.ofNat p.payloadLength, b2u p.crcOn, b2u p.iqInverted]
  let v ← regR8 .IQPolarity
  if p.iqInverted then regW8 .IQPolarity (v &&& 0xfb) else regW8 .IQPolarity (v ||| 0x04)

def calFreq (f : Nat) : UInt8 × UInt8 :=
  if f > 900000000 then (0xE1, 0xE9)
  else if f > 850000000 then (0xD7, 0xDB)
  else if f > 770000000 then (0xC1, 0xC5)
  else if f > 460000000 then (0x75, 0x81)
  else if f > 425000000 then (0x6B, 0x6F)
  else (0, 0)

def calibrateImage (f : Nat) : Prog Unit :=
  intfWrite [op .CalibrateImage, (calFreq f).1, (calFreq f).2]

def setChannel (f : Nat) : Prog Unit := do
  let pll ← ofOpt "convert_freq_in_hz_to_pll_step: u32 overflow" (pllStep f)
  intfWrite [op .SetRFFrequency, UInt8.ofNat ((pll / 16777216) % 256), UInt8.ofNat ((pll / 65536) % 256),
    UInt8.ofNat ((pll / 256) % 256), UInt8.ofNat (pll % 256)]

def setPayload (payload : Bytes) : Prog Unit :=
  intfWriteWithPayload [op .WriteBuffer, 0] payload

def doTx : Prog Unit := do
  Prog.req .rfTx
  intfWrite [op .SetTx, timeout1 0, timeout2 0, timeout3 0]

def RX_CONTINUOUS_TIMEOUT : Nat := 0xffffff

def doRx (cfg : Config) (m : RxMode) : Prog Unit := do
  Prog.req .rfRx
  intfWrite [op .SetStopRxTimerOnPreamble, 1]
  let n := match m with
    | .single n => n
    | _ => 0
  setLoraSymbolNumTimeout n
  regW8 .RxGain (if cfg.rxBoost then 0x96 else 0x94)
  match m with
  | .dutyCycle rx sl =>
    intfWrite [op .SetRxDutyCycle, timeout1 rx, timeout2 rx, timeout3 rx, timeout1 sl, timeout2 sl, timeout3 sl]
  | .single _ => intfWrite [op .SetRx, timeout1 0, timeout2 0, timeout3 0]
  | .continuous =>
    intfWrite [op .SetRx, timeout1 RX_CONTINUOUS_TIMEOUT, timeout2 RX_CONTINUOUS_TIMEOUT, timeout3 RX_CONTINUOUS_TIMEOUT]

/-- `OpStatusErrorMask::is_error` -/
def isError (status : UInt8) : Bool :=
  let f := status &&& 0x0e
  f == ((0x03 : UInt8) <<< 1) || f == ((0x04 : UInt8) <<< 1) || f == ((0x05 : UInt8) <<< 1)

def doCad (cfg : Config) (m : ModulationParams) : Prog Unit := do
  Prog.req .rfRx
  regW8 .RxGain (if cfg.rxBoost then 0x96 else 0x94)
  let sf ← errUnavailable .UnavailableSpreadingFactor (spreading_factor_value m.sf)
  if sf + 13 > 255 then .panic "do_cad: u8 overflow" else
  intfWrite [op .SetCADParams, byte (CADSymbols.value ._8), byte (sf + 13), 10, 0, 0, 0, 0]
  intfWrite [op .SetCAD]

def irqMasks (mode : Option RadioMode) : Nat × Nat :=
  let v (m : IrqMask) : Nat := (IrqMask.value m).toNat
  match mode with
  | some .standby => (v .All, v .All)
  | some .transmit => (v .TxDone ||| v .RxTxTimeout, v .TxDone ||| v .RxTxTimeout)
  | some (.receive _) => (v .All, v .All)
  | some .cad => (v .CADDone ||| v .CADActivityDetected, v .CADDone ||| v .CADActivityDetected)
  | _ => (v .None, v .None)

def setIrqParams (mode : Option RadioMode) : Prog Unit :=
  let (irq, dio1) := irqMasks mode
  intfWrite [op .CfgDIOIrq, hi8 irq, lo8 irq, hi8 dio1, lo8 dio1, 0, 0, 0, 0]

def setTxContinuousWaveMode : Prog Unit := do
  Prog.req .rfTx
  intfWrite [op .SetTxContinuousWave]

def awaitIrq : Prog Unit := Prog.req .irq

def isSet (m : IrqMask) (flags : Nat) : Bool := IrqMask.is_set m flags

/-- the decision part of `get_irq_state`: the result and the new value of
`*cad_activity_detected` (when the caller passed one) for the IRQ flags read -/
def decideIrq (mode : RadioMode) (cad : Option Bool) (flags : Nat) : Prog (Option IrqState × Option Bool) :=
  match mode with
  | .transmit =>
    if isSet .TxDone flags then pure (some .done, cad)
    else if isSet .RxTxTimeout flags then .fail .TransmitTimeout
    else pure (none, cad)
  | .receive _ =>
    if isSet .RxDone flags then pure (some .done, cad)
    else if isSet .RxTxTimeout flags then .fail .ReceiveTimeout
    else if isSet .PreambleDetected flags || isSet .HeaderValid flags then pure (some .preambleReceived, cad)
    else pure (none, cad)
  | .cad =>
    if isSet .CADDone flags then
      pure (some .done, cad.map (fun _ => isSet .CADActivityDetected flags))
    else pure (none, cad)
  | .sleep => pure (none, cad)
  | .standby => pure (none, cad)
  | .listen => pure (none, cad)
  | .frequencySynthesis => .panic "get_irq_state: todo!() for FrequencySynthesis"

/-- `get_irq_state` -/
def getIrqState (mode : RadioMode) (cad : Option Bool) : Prog (Option IrqState × Option Bool) := do
  let (_status, bs) ← intfReadWithStatus [op .GetIrqStatus] 2
  decideIrq mode cad (byteAt bs 0 * 256 + byteAt bs 1)

/-- `get_irq_state(..).await` bound without `?` -/
def getIrqStateE (mode : RadioMode) (cad : Option Bool) : Prog (Except RadioError (Option IrqState × Option Bool)) := do
  let r ← intfReadWithStatusE [op .GetIrqStatus] 2
  match r with
  | .error e => pure (.error e)
  | .ok (_status, bs) => attempt (decideIrq mode cad (byteAt bs 0 * 256 + byteAt bs 1))

def clearIrqStatus : Prog Unit := intfWrite [op .ClrIrqStatus, 0xff, 0xff]

/-- `process_irq_event` -/
def processIrqEvent (mode : RadioMode) (cad : Option Bool) (clear : Bool) : Prog (Option IrqState × Option Bool) := do
  let st ← getIrqStateE mode cad
  if clear then clearIrqStatus
  match mode, st with
  | .receive (.single _), .ok (some .done, _) => handleImplicitHeaderMode
  | _, _ => pure ()
  match st with
  | .ok v => pure v
  | .error e => .fail e

/-- `get_rx_payload`: the length and the new content of `receiving_buffer` -/
def getRxPayload (p : PacketParams) (buf : Bytes) : Prog (Nat × Bytes) := do
  let (status, bs) ← intfReadWithStatus [op .GetRxBufferStatus] 2
  if isError status then .fail (.OpError status) else
  let rxLen := byteAt bs 0
  let offset := UInt8.ofNat (byteAt bs 1)
  let n ← if p.implicitHeader then (do let v ← regR8 .PayloadLength; pure v.toNat) else pure rxLen
  if n > buf.length then .fail (.PayloadSizeMismatch n buf.length) else
  let data ← intfRead [op .ReadBuffer, offset, 0] n
  pure (n, data ++ buf.drop n)

/-- `get_rx_packet_status`: (rssi, snr); `none` = the `i8 + 2` overflow panic -/
def getRxPacketStatus : Prog (Int × Int) := do
  let (status, bs) ← intfReadWithStatus [op .GetPacketStatus] 3
  if isError status then .fail (.OpError status) else
  let rssi : Int := (-(byteAt bs 0 : Int)) / 2
  let raw : Int := byteAt bs 1
  let s8 : Int := if raw ≥ 128 then raw - 256 else raw
  if s8 + 2 > 127 then .panic "get_rx_packet_status: i8 overflow in snr + 2" else
  pure (rssi, (s8 + 2) / 4)

def getRssi : Prog Int := do
  let (status, bs) ← intfReadWithStatus [op .GetRSSIInst] 1
  if isError status then .fail (.OpError status) else
  pure ((-(byteAt bs 0 : Int)) / 2)

/-- `create_modulation_params` (validation and the LDRO rule as coded) -/
def createModulationParams (sf : SpreadingFactor) (bw : Bandwidth) (cr : CodingRate) (f : Nat) : Except RadioError ModulationParams :=
  match spreading_factor_value sf, bandwidth_value bw, coding_rate_value cr with
  | none, _, _ => .error .UnavailableSpreadingFactor
  | _, none, _ => .error .UnavailableBandwidth
  | _, _, none => .error .InvalidConfiguration
  | some _, some _, some _ =>
    if (bw = ._250KHz ∨ bw = ._500KHz) ∧ f < 400000000 then .error .InvalidBandwidthForFrequency else
    let ldro : UInt8 :=
      if ((sf = ._11 ∨ sf = ._12) ∧ bw = ._125KHz) ∨ (sf = ._12 ∧ bw = ._250KHz) then 1 else 0
    .ok { sf := sf, bw := bw, cr := cr, ldro := ldro, freq := f }

def createPacketParams (preamble : Nat) (implicit : Bool) (len : Nat) (crc iq : Bool) (m : ModulationParams) : Except RadioError PacketParams :=
  let pre := if (m.sf = ._5 ∨ m.sf = ._6) ∧ preamble < 12 then 12 else preamble
  .ok { preambleLength := pre, implicitHeader := implicit, payloadLength := len, crcOn := crc, iqInverted := iq }

end Sx126x

/-! ## SX127x (`sx127x/mod.rs`, `sx1276.rs`, `sx1272.rs`) -/
namespace Sx127x
open Gen.PhyCodes127

inductive Variant where
  | sx1276 | sx1272
  deriving DecidableEq, Repr

structure Config where
  chip : Variant
  tcxoUsed : Bool
  txBoost : Bool
  rxBoost : Bool

/-- `C::Data`: the SX1276 remembers whether errata 2.1 applies (`RegVersion == 0x12`) -/
structure Data where
  sensitivityQuirk : Bool := false
  deriving DecidableEq, Repr

structure ModulationParams where
  sf : SpreadingFactor
  bw : Bandwidth
  cr : CodingRate
  ldro : UInt8
  freq : Nat
  deriving Repr

def rd (r : Register) : UInt8 := byte (Register.read_addr r)
def wr (r : Register) : UInt8 := byte (Register.write_addr r)

def writeRegister (r : Register) (v : UInt8) : Prog Unit := intfWrite [wr r, v]
def readRegister (r : Register) : Prog UInt8 := do
  let bs ← intfRead [rd r] 1
  pure (UInt8.ofNat (byteAt bs 0))
def writeBuffer (r : Register) (buf : Bytes) : Prog Unit := intfWriteWithPayload [wr r] buf

/-- `C::bandwidth_value`: the table of the chip variant, from `sx1276.rs` / `sx1272.rs` (tie A) -/
def bandwidthValue (v : Variant) (bw : Bandwidth) : Option Int :=
  match v with
  | .sx1276 => (Gen.PhyCodes1276.Bandwidth.all.find? (fun b => b.toInt == bw.toInt)).bind Gen.PhyCodes1276.bandwidth_value
  | .sx1272 => (Gen.PhyCodes1272.Bandwidth.all.find? (fun b => b.toInt == bw.toInt)).bind Gen.PhyCodes1272.bandwidth_value

def errOr {α : Type} (e : RadioError) : Option α → Prog α
  | some a => pure a
  | none => .fail e

def SX127X_MAX_LORA_SYMB_NUM_TIMEOUT : Nat := 1023
def SX127X_MIN_LORA_SYMB_NUM_TIMEOUT : Nat := 4

/-- `sync_word_to_legacy` (mod_params.rs) -/
def syncWordToLegacy (w : Nat) : Option UInt8 :=
  let msb := (w / 256) % 256
  let lsb := w % 256
  if msb % 16 = 4 ∧ lsb % 16 = 4 then some (UInt8.ofNat ((msb / 16) * 16 + lsb / 16)) else none

def setLoraSymbolNumTimeout (n : Nat) : Prog Unit := do
  let val := min n SX127X_MAX_LORA_SYMB_NUM_TIMEOUT
  let msb : UInt8 := UInt8.ofNat ((val / 256) % 4)
  let lsb : UInt8 := UInt8.ofNat (val % 256)
  let c2 ← readRegister .RegModemConfig2
  writeRegister .RegModemConfig2 ((c2 &&& 0xfc) ||| msb)
  writeRegister .RegSymbTimeoutLsb lsb

def setOcp (t : OcpTrim) : Prog Unit := writeRegister .RegOcp (byte (OcpTrim.value t))

def regTcxo : Variant → Register
  | .sx1276 => .RegTcxoSX1276
  | .sx1272 => .RegTcxoSX1272

def setTxRxBufferBaseAddress (tx rx : Nat) : Prog Unit :=
  if tx > 255 ∨ rx > 255 then .fail (.InvalidBaseAddress tx rx) else do
  writeRegister .RegFifoTxBaseAddr (UInt8.ofNat tx)
  writeRegister .RegFifoRxBaseAddr (UInt8.ofNat rx)

/-- `init_lora`: returns the driver's new `data` -/
def initLora (cfg : Config) (d : Data) (syncWord : Nat) : Prog Data := do
  let sw ← errOr .InvalidSyncWord (syncWordToLegacy syncWord)
  if cfg.tcxoUsed then writeRegister (regTcxo cfg.chip) 0x10
  writeRegister .RegSyncWord sw
  setTxRxBufferBaseAddress 0 0
  match cfg.chip with
  | .sx1276 =>
    let v ← readRegister .RegVersion
    pure { sensitivityQuirk := v == 0x12 }
  | .sx1272 => pure d

def setLoraSyncWord (syncWord : Nat) : Prog Unit := do
  let sw ← errOr .InvalidSyncWord (syncWordToLegacy syncWord)
  writeRegister .RegSyncWord sw

def setSleep : Prog Unit := do
  Prog.req .rfOff
  intfWrite [wr .RegOpMode, byte (LoRaMode.value .Sleep)] true

def reset : Prog Unit := do
  Prog.req .reset
  setSleep

def ensureReady (_m : RadioMode) : Prog Unit := pure ()

def setStandby : Prog Unit := do
  writeRegister .RegOpMode (byte (LoRaMode.value .Standby))
  Prog.req .rfOff

def clampI (x lo hi : Int) : Int := max lo (min hi x)

/-- `Sx1276::set_tx_power` / `Sx1272::set_tx_power` -/
def setTxPower (cfg : Config) (p : Int) : Prog Unit :=
  match cfg.chip with
  | .sx1276 =>
    if cfg.txBoost then do
      let txp := clampI p 2 20
      let outp : Int := if txp > 17 then txp - 5 else txp - 2
      if txp > 17 then
        writeRegister .RegPaDacSX1276 (byte (PaDac.value ._20DbmOn))
        setOcp ._240Ma
      else
        writeRegister .RegPaDacSX1276 (byte (PaDac.value ._20DbmOff))
        setOcp ._100Ma
      writeRegister .RegPaConfig (byte (PaConfig.value .PaBoost) ||| UInt8.ofNat (outp % 256).toNat)
    else do
      let txp := clampI p (-4) 14
      let (maxPower, outp) : UInt8 × Int := if txp > 0 then (byte (PaConfig.value .MaxPower7NoPaBoost), txp) else (0x00, txp + 4)
      writeRegister .RegPaDacSX1276 (byte (PaDac.value ._20DbmOff))
      setOcp ._100Ma
      writeRegister .RegPaConfig (maxPower ||| UInt8.ofNat (outp % 256).toNat)
  | .sx1272 =>
    if cfg.txBoost then
      if p > 17 then do
        let v : UInt8 := UInt8.ofNat ((clampI p 5 20 - 5) % 256).toNat &&& 0x0f
        writeRegister .RegPaConfig (0x80 ||| v)
        writeRegister .RegPaDacSX1272 0x87
      else do
        let v : UInt8 := UInt8.ofNat ((clampI p 2 17 - 2) % 256).toNat &&& 0x0f
        writeRegister .RegPaConfig (0x80 ||| v)
        writeRegister .RegPaDacSX1272 0x84
    else do
      let v : UInt8 := UInt8.ofNat ((clampI p (-1) 14 + 1) % 256).toNat &&& 0x0f
      writeRegister .RegPaConfig v
      writeRegister .RegPaDacSX1272 0x84

/-- `C::ramp_value` -/
def rampValue (v : Variant) (r : RampTime) : UInt8 :=
  match v with
  | .sx1276 => byte (RampTime.toInt r)
  | .sx1272 => byte (RampTime.value r) ||| 0x10

def setTxPowerAndRampTime (cfg : Config) (p : Int) (isTxPrep : Bool) : Prog Unit := do
  setTxPower cfg p
  let ramp : RampTime := if isTxPrep then .Ramp40Us else .Ramp250Us
  writeRegister .RegPaRamp (rampValue cfg.chip ramp)

def hzOf (bw : Bandwidth) : Nat := (Bandwidth.hz bw).toNat

/-- `C::set_modulation_params` of the two variants -/
def variantSetModulationParams (cfg : Config) (d : Data) (m : ModulationParams) : Prog Unit :=
  match cfg.chip with
  | .sx1276 => do
    let bw ← errOr .UnavailableBandwidth (bandwidthValue .sx1276 m.bw)
    let sf ← errOr .UnavailableSpreadingFactor (spreading_factor_value m.sf)
    let crd ← errOr .InvalidConfiguration (coding_rate_denominator_value m.cr)
    let c2 ← readRegister .RegModemConfig2
    writeRegister .RegModemConfig2 ((c2 &&& 0x0f) ||| (UInt8.ofNat ((sf.toNat * 16) % 256) &&& 0xf0))
    let c1 ← readRegister .RegModemConfig1
    writeRegister .RegModemConfig1 ((c1 &&& 0x0f) ||| UInt8.ofNat ((bw.toNat * 16) % 256))
    let cr := crd.toNat - 4
    let c1 ← readRegister .RegModemConfig1
    writeRegister .RegModemConfig1 ((c1 &&& 0xf1) ||| UInt8.ofNat ((cr * 2) % 256))
    let flags : UInt8 := if m.ldro != 0 then 0x08 else 0x00
    let c3 ← readRegister .RegModemConfig3
    writeRegister .RegModemConfig3 ((c3 &&& 0xf3) ||| flags)
    if d.sensitivityQuirk then
      let opt : Option UInt8 :=
        if m.bw = ._500KHz ∧ 862000000 ≤ m.freq ∧ m.freq ≤ 1020000000 then some 0x64
        else if m.bw = ._500KHz ∧ 410000000 ≤ m.freq ∧ m.freq ≤ 525000000 then some 0x7f
        else none
      match opt with
      | some v2 =>
        writeRegister .RegHighBwOptimize1 0x02
        writeRegister .RegHighBwOptimize2 v2
      | none => writeRegister .RegHighBwOptimize1 0x03
    let det ← readRegister .RegDetectionOptimize
    if m.bw = ._500KHz then writeRegister .RegDetectionOptimize (det ||| 0x80)
    else if hzOf m.bw ≥ 62500 then
      writeRegister .RegDetectionOptimize (det &&& 0x7f)
      writeRegister .RegIfFreq1 0x40
      writeRegister .RegIfFreq2 0x00
    else pure ()
  | .sx1272 => do
    let bw ← errOr .UnavailableBandwidth (bandwidthValue .sx1272 m.bw)
    let sf ← errOr .UnavailableSpreadingFactor (spreading_factor_value m.sf)
    let c1 ← readRegister .RegModemConfig1
    let cr ← errOr .InvalidConfiguration (coding_rate_value m.cr)
    writeRegister .RegModemConfig1
      ((c1 &&& 0x06) ||| UInt8.ofNat ((bw.toNat * 64) % 256) ||| UInt8.ofNat ((cr.toNat * 8) % 256) ||| m.ldro)
    let c2 ← readRegister .RegModemConfig2
    writeRegister .RegModemConfig2 ((c2 &&& 0x0f) ||| UInt8.ofNat ((sf.toNat * 16) % 256))

def setModulationParams (cfg : Config) (d : Data) (m : ModulationParams) : Prog Unit := do
  let _sf ← errOr .UnavailableSpreadingFactor (spreading_factor_value m.sf)
  let _bw ← errOr .UnavailableBandwidth (bandwidthValue cfg.chip m.bw)
  let _cr ← errOr .InvalidConfiguration (coding_rate_denominator_value m.cr)
  let (opt, thr) : UInt8 × UInt8 := if m.sf = ._6 then (0x05, 0x0c) else (0x03, 0x0a)
  let v ← readRegister .RegDetectionOptimize
  writeRegister .RegDetectionOptimize ((v &&& 0xf8) ||| opt)
  writeRegister .RegDetectionThreshold thr
  variantSetModulationParams cfg d m

def variantSetPacketParams (cfg : Config) (p : PacketParams) : Prog Unit :=
  match cfg.chip with
  | .sx1276 => do
    let c1 ← readRegister .RegModemConfig1
    writeRegister .RegModemConfig1 (if p.implicitHeader then c1 ||| 0x01 else c1 &&& 0xfe)
    let c2 ← readRegister .RegModemConfig2
    writeRegister .RegModemConfig2 (if p.crcOn then c2 ||| 0x04 else c2 &&& 0xfb)
  | .sx1272 => do
    let c1 ← readRegister .RegModemConfig1
    writeRegister .RegModemConfig1 ((c1 &&& 0xf9) ||| (b2u p.implicitHeader <<< (2 : UInt8)) ||| (b2u p.crcOn <<< (1 : UInt8)))

def setPacketParams (cfg : Config) (p : PacketParams) : Prog Unit := do
  writeRegister .RegPreambleMsb (hi8 p.preambleLength)
  writeRegister .RegPreambleLsb (lo8 p.preambleLength)
  variantSetPacketParams cfg p
  if p.implicitHeader then writeRegister .RegPayloadLength (UInt8.ofNat p.payloadLength)
  let (iq1, iq2) : UInt8 × UInt8 := if p.iqInverted then (0x40, 0x19) else (0x01, 0x1d)
  writeRegister .RegInvertiq (0x26 ||| iq1)
  writeRegister .RegInvertiq2 iq2

def calibrateImage (_f : Nat) : Prog Unit := pure ()

/-- `freq_to_pll_step`: `(((freq as u64) << 19) + 16_000_000) / 32_000_000` as `u32` (round to nearest) -/
def freqToPllStep (f : Nat) : Nat := ((f * 524288 + 16000000) / 32000000) % 4294967296
def pllStepToFreq (p : Nat) : Nat := (p * 32000000 / 524288) % 4294967296

def setChannel (f : Nat) : Prog Unit := do
  let frf := freqToPllStep f
  writeRegister .RegFrfMsb (UInt8.ofNat ((frf / 65536) % 256))
  writeRegister .RegFrfMid (UInt8.ofNat ((frf / 256) % 256))
  writeRegister .RegFrfLsb (UInt8.ofNat (frf % 256))

def setPayload (payload : Bytes) : Prog Unit := do
  writeRegister .RegFifoAddrPtr 0
  writeRegister .RegPayloadLength 0
  writeBuffer .RegFifo payload
  writeRegister .RegPayloadLength (UInt8.ofNat payload.length)   -- `payload.len() as u8` wraps

def doTx : Prog Unit := do
  Prog.req .rfTx
  writeRegister .RegOpMode (byte (LoRaMode.value .Tx))

def clearIrqStatus : Prog Unit := writeRegister .RegIrqFlags 0xff

def lnaGain (cfg : Config) : UInt8 :=
  if cfg.rxBoost then byte (LnaGain.boosted_value .G1) else byte (LnaGain.value .G1)

def doRx (cfg : Config) (m : RxMode) : Prog Unit :=
  match m with
  | .dutyCycle _ _ => .fail .DutyCycleUnsupported
  | .single ns => do
    Prog.req .rfRx
    setLoraSymbolNumTimeout (max ns SX127X_MIN_LORA_SYMB_NUM_TIMEOUT)
    writeRegister .RegLna (lnaGain cfg)
    writeRegister .RegFifoAddrPtr 0
    clearIrqStatus
    writeRegister .RegOpMode (byte (LoRaMode.value .RxSingle))
  | .continuous => do
    Prog.req .rfRx
    setLoraSymbolNumTimeout 0
    writeRegister .RegLna (lnaGain cfg)
    writeRegister .RegFifoAddrPtr 0
    clearIrqStatus
    writeRegister .RegOpMode (byte (LoRaMode.value .RxContinuous))

def getRxPayload (p : PacketParams) (buf : Bytes) : Prog (Nat × Bytes) := do
  let n ← if p.implicitHeader then pure p.payloadLength else (do let v ← readRegister .RegRxNbBytes; pure v.toNat)
  if n > buf.length then .fail (.PayloadSizeMismatch n buf.length) else
  let addr ← readRegister .RegFifoRxCurrentAddr
  writeRegister .RegFifoAddrPtr addr
  let data ← intfRead [rd .RegFifo] n
  writeRegister .RegFifoAddrPtr 0
  pure (n, data ++ buf.drop n)

def SX1276_RF_MID_BAND_THRESH : Nat := 525000000

/-- `C::rssi_offset` -/
def rssiOffset (cfg : Config) : Prog Int :=
  match cfg.chip with
  | .sx1272 => pure (-139)
  | .sx1276 => do
    let msb ← readRegister .RegFrfMsb
    let mid ← readRegister .RegFrfMid
    let lsb ← readRegister .RegFrfLsb
    let f := pllStepToFreq (msb.toNat * 65536 + mid.toNat * 256 + lsb.toNat)
    pure (if f > SX1276_RF_MID_BAND_THRESH then -157 else -164)

def linearizeRssi (r : Nat) : Int := ((r : Int) * 16 + 7) / 15

def getRxPacketStatus (cfg : Config) : Prog (Int × Int) := do
  let raw ← readRegister .RegPktSnrValue
  let s8 : Int := if raw.toNat ≥ 128 then (raw.toNat : Int) - 256 else raw.toNat
  let snr := Int.tdiv s8 4
  let pr ← readRegister .RegPktRssiValue
  let off ← rssiOffset cfg
  let rssi := if snr ≥ 0 then off + linearizeRssi pr.toNat else off + linearizeRssi pr.toNat + snr
  pure (rssi, snr)

def getRssi (cfg : Config) : Prog Int := do
  let v ← readRegister .RegRssiValue
  let off ← rssiOffset cfg
  pure (off + v.toNat)

def doCad (cfg : Config) : Prog Unit := do
  Prog.req .rfRx
  writeRegister .RegLna (lnaGain cfg)
  writeRegister .RegOpMode (byte (LoRaMode.value .Cad))

def v8 (i : Int) : UInt8 := byte i

def setIrqParams (mode : Option RadioMode) : Prog Unit := do
  clearIrqStatus
  match mode with
  | some .transmit =>
    writeRegister .RegIrqFlagsMask (v8 (IrqMask.value .All) ^^^ v8 (IrqMask.value .TxDone))
    let d ← readRegister .RegDioMapping1
    writeRegister .RegDioMapping1 ((d &&& v8 (DioMapping1Dio0.value .Mask)) ||| v8 (DioMapping1Dio0.value .TxDone))
  | some (.receive _) =>
    writeRegister .RegIrqFlagsMask (v8 (IrqMask.value .All) ^^^
      (v8 (IrqMask.value .RxDone) ||| v8 (IrqMask.value .RxTimeout) ||| v8 (IrqMask.value .CRCError) ||| v8 (IrqMask.value .HeaderValid)))
    let d ← readRegister .RegDioMapping1
    writeRegister .RegDioMapping1
      ((d &&& v8 (DioMapping1Dio0.value .Mask) &&& v8 (DioMapping1Dio1.value .Mask) &&& v8 (DioMapping1Dio3.value .Mask)) |||
       (v8 (DioMapping1Dio0.value .RxDone) ||| v8 (DioMapping1Dio1.value .RxTimeOut) ||| v8 (DioMapping1Dio3.value .ValidHeader)))
  | some .cad =>
    writeRegister .RegIrqFlagsMask (v8 (IrqMask.value .All) ^^^ (v8 (IrqMask.value .CADDone) ||| v8 (IrqMask.value .CADActivityDetected)))
    let d ← readRegister .RegDioMapping1
    writeRegister .RegDioMapping1 ((d &&& v8 (DioMapping1Dio0.value .Mask)) ||| v8 (DioMapping1Dio0.value .CadDone))
  | _ =>
    writeRegister .RegIrqFlagsMask (v8 (IrqMask.value .All))
    let d ← readRegister .RegDioMapping1
    writeRegister .RegDioMapping1 ((d &&& v8 (DioMapping1Dio0.value .Mask)) ||| v8 (DioMapping1Dio0.value .Other))

def awaitIrq : Prog Unit := Prog.req .irq

def has (m : IrqMask) (flags : UInt8) : Bool := (flags &&& v8 (IrqMask.value m)) == v8 (IrqMask.value m)

def decideIrq (mode : RadioMode) (cad : Option Bool) (flags : UInt8) : Prog (Option IrqState × Option Bool) :=
  match mode with
  | .transmit => if has .TxDone flags then pure (some .done, cad) else pure (none, cad)
  | .receive (.dutyCycle _ _) => .panic "get_irq_state: todo!() for Receive(DutyCycle)"
  | .receive _ =>
    if has .RxDone flags then pure (some .done, cad)
    else if has .RxTimeout flags then .fail .ReceiveTimeout
    else if has .HeaderValid flags then pure (some .preambleReceived, cad)
    else pure (none, cad)
  | .cad =>
    if has .CADDone flags then pure (some .done, cad.map (fun _ => has .CADActivityDetected flags))
    else pure (none, cad)
  | .sleep => pure (none, cad)
  | .standby => pure (none, cad)
  | .listen => pure (none, cad)
  | .frequencySynthesis => .panic "get_irq_state: todo!() for FrequencySynthesis"

def getIrqState (mode : RadioMode) (cad : Option Bool) : Prog (Option IrqState × Option Bool) := do
  let flags ← readRegister .RegIrqFlags
  decideIrq mode cad flags

def getIrqStateE (mode : RadioMode) (cad : Option Bool) : Prog (Except RadioError (Option IrqState × Option Bool)) := do
  let r ← intfReadE [rd .RegIrqFlags] 1
  match r with
  | .error e => pure (.error e)
  | .ok bs => attempt (decideIrq mode cad (UInt8.ofNat (byteAt bs 0)))

def processIrqEvent (mode : RadioMode) (cad : Option Bool) (clear : Bool) : Prog (Option IrqState × Option Bool) := do
  let st ← getIrqStateE mode cad
  if clear then clearIrqStatus
  match st with
  | .ok v => pure v
  | .error e => .fail e

def setTxContinuousWaveMode (cfg : Config) : Prog Unit :=
  match cfg.chip with
  | .sx1272 => .panic "Sx1272::set_tx_continuous_wave_mode: todo!()"
  | .sx1276 => do
    Prog.req .rfTx
    let pa ← readRegister .RegPaConfig
    writeRegister .RegPaConfig (pa ||| 0x80)
    writeRegister .RegOpMode 0x83
    let mc ← readRegister .RegModemConfig2
    writeRegister .RegModemConfig2 (mc ||| 0x08)

/-- `create_modulation_params` (validation and the LDRO rule as coded; LDRO itself is C15's) -/
def createModulationParams (cfg : Config) (sf : SpreadingFactor) (bw : Bandwidth) (cr : CodingRate) (f : Nat) : Except RadioError ModulationParams :=
  match spreading_factor_value sf, coding_rate_value cr, bandwidthValue cfg.chip bw with
  | none, _, _ => .error .UnavailableSpreadingFactor
  | _, none, _ => .error .InvalidConfiguration
  | _, _, none => .error .UnavailableBandwidth
  | some sfv, some _, some _ =>
    if (bw = ._250KHz ∨ bw = ._500KHz) ∧ f < 400000000 then .error .InvalidBandwidthForFrequency else
    let q := hzOf bw / (2 ^ sfv.toNat)
    -- `1000 / (bw_in_hz / (1 << sf))`: a zero divisor would panic; it cannot be zero for the defined pairs
    let symbolDuration := 1000 / q
    .ok { sf := sf, bw := bw, cr := cr, ldro := if symbolDuration > 16 then 1 else 0, freq := f }

def createPacketParams (preamble : Nat) (implicit : Bool) (len : Nat) (crc iq : Bool) (m : ModulationParams) : Except RadioError PacketParams :=
  if m.sf = ._6 ∧ !implicit then .error .InvalidSF6ExplicitHeaderRequest else
  .ok { preambleLength := preamble, implicitHeader := implicit, payloadLength := len, crcOn := crc, iqInverted := iq }

end Sx127x

end Model.Phy
