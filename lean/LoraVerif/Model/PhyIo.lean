/-!
# I/O layer of the lora-phy models: programs, the wire-level chips, the interpreter

`Prog α` is the shape of every `async fn … -> Result<α, RadioError>` of lora-phy as far as the
outside world can see it: a tree of I/O requests (`SpiDevice::transaction`, the six
`InterfaceVariant` calls, `DelayNs`) whose continuation receives the bytes read, ending in
`Ok(a)`, `Err(e)` or a Rust panic.  `?` is `bind`.  The drivers (`Model/PhySpi.lean`), Semtech's
reference driver (`Spec/SemtechSpi.lean`) and `LoRa<RK>` (`Model/PhyState.lean`) are values of this
type; faults, dropped futures, the transcript and the chip's answers live *only* in the interpreter
`run`, so they are the same for model and specification.

`Chip` mirrors `harness/src/fakechip.rs` field by field (a wire-level model: a command is the
concatenation of the bytes written in one transaction, every byte read is a function of the
command and its position on the wire), so that the harness fake chip and this one, fed the same
transcript, give the same answers.  Import-free.
-/
namespace Model.Phy

abbrev Bytes := List UInt8

/-- `lora_phy::mod_params::RadioError` -/
inductive RadioError where
  | SPI | Reset | RfSwitchRx | RfSwitchTx | Busy | Irq | DIO1
  | InvalidConfiguration | InvalidRadioMode | InvalidSyncWord
  | OpError (status : UInt8)
  | InvalidBaseAddress (tx rx : Nat)
  | PayloadSizeUnexpected (n : Nat)
  | PayloadSizeMismatch (n size : Nat)
  | UnavailableSpreadingFactor | UnavailableBandwidth | InvalidBandwidthForFrequency
  | InvalidSF6ExplicitHeaderRequest | InvalidOutputPowerForFrequency
  | TransmitTimeout | ReceiveTimeout | DutyCycleUnsupported | RngUnsupported
  deriving DecidableEq, Repr

/-- one request to the board: an SPI transaction (all bytes written, number of bytes read) or an
`InterfaceVariant` / `DelayNs` call -/
inductive Io where
  | spi (w : Bytes) (r : Nat)
  | busy | irq | rfRx | rfTx | rfOff | reset
  | delay (ms : Nat)
  deriving DecidableEq, Repr

inductive Prog (α : Type) where
  | ret (a : α)
  | fail (e : RadioError)
  | panic (site : String)
  | io (req : Io) (k : Bytes → Prog α)
  /-- a request whose failure is handed to the continuation (`none`) instead of leaving the
  function: the shape of `let r = fut.await;` without `?` (used by `process_irq_event`) -/
  | ioE (req : Io) (k : Option Bytes → Prog α)

namespace Prog

def bind {α β : Type} : Prog α → (α → Prog β) → Prog β
  | .ret a, f => f a
  | .fail e, _ => .fail e
  | .panic s, _ => .panic s
  | .io req k, f => .io req (fun bs => bind (k bs) f)
  | .ioE req k, f => .ioE req (fun r => bind (k r) f)

instance : Monad Prog where
  pure := .ret
  bind := bind

@[simp] theorem pure_bind {α β : Type} (a : α) (f : α → Prog β) : (pure a : Prog α) >>= f = f a := rfl
@[simp] theorem ret_bind {α β : Type} (a : α) (f : α → Prog β) : (Prog.ret a) >>= f = f a := rfl
@[simp] theorem fail_bind {α β : Type} (e : RadioError) (f : α → Prog β) : (Prog.fail e : Prog α) >>= f = .fail e := rfl
@[simp] theorem panic_bind {α β : Type} (s : String) (f : α → Prog β) : (Prog.panic s : Prog α) >>= f = .panic s := rfl
@[simp] theorem io_bind {α β : Type} (req : Io) (k : Bytes → Prog α) (f : α → Prog β) :
    (Prog.io req k) >>= f = .io req (fun bs => k bs >>= f) := rfl

/-- one request whose answer is ignored -/
def req (r : Io) : Prog Unit := .io r (fun _ => .ret ())
/-- an SPI transaction: write `w`, then read `n` bytes -/
def xfer (w : Bytes) (n : Nat) : Prog Bytes := .io (.spi w n) (fun bs => .ret bs)

end Prog

/-! ## `SpiInterface` (lora-phy/src/interface.rs) -/

/-- `intf.write(buf, is_sleep_command)` -/
def intfWrite (w : Bytes) (isSleep : Bool := false) : Prog Unit := do
  let _ ← Prog.xfer w 0
  if isSleep then pure () else Prog.req .busy

/-- `intf.write_with_payload(buf, payload, is_sleep_command)`: one transaction, two write operations -/
def intfWriteWithPayload (w payload : Bytes) (isSleep : Bool := false) : Prog Unit := do
  let _ ← Prog.xfer (w ++ payload) 0
  if isSleep then pure () else Prog.req .busy

/-- `intf.read(write_buffer, read_buffer)` -/
def intfRead (w : Bytes) (n : Nat) : Prog Bytes := do
  let bs ← Prog.xfer w n
  Prog.req .busy
  pure bs

/-- `intf.read_with_status(..)` whose `Result` is kept as a value (no `?`) -/
def intfReadWithStatusE (w : Bytes) (n : Nat) : Prog (Except RadioError (UInt8 × Bytes)) :=
  .ioE (.spi w (1 + n)) fun r =>
    match r with
    | none => .ret (.error .SPI)
    | some bs => .ioE .busy fun r2 =>
      match r2 with
      | none => .ret (.error .Busy)
      | some _ => .ret (.ok (UInt8.ofNat (match bs[0]? with | some b => b.toNat | none => 0), bs.drop 1))

/-- `intf.read(..)` whose `Result` is kept as a value (no `?`) -/
def intfReadE (w : Bytes) (n : Nat) : Prog (Except RadioError Bytes) :=
  .ioE (.spi w n) fun r =>
    match r with
    | none => .ret (.error .SPI)
    | some bs => .ioE .busy fun r2 =>
      match r2 with
      | none => .ret (.error .Busy)
      | some _ => .ret (.ok bs)

/-- `intf.read_with_status(write_buffer, read_buffer)`: the status byte, then the `n` data bytes
(`status` is a one-element array in Rust: indexing it cannot fail) -/
def intfReadWithStatus (w : Bytes) (n : Nat) : Prog (UInt8 × Bytes) := do
  let bs ← Prog.xfer w (1 + n)
  Prog.req .busy
  pure (UInt8.ofNat (match bs[0]? with | some b => b.toNat | none => 0), bs.drop 1)

/-! ## the wire-level chips -/

inductive Kind where
  | sx126x | sx127x
  deriving DecidableEq, Repr

structure Chip where
  kind : Kind
  /-- SX126x: 4096 registers (address mod 4096); SX127x: 128 registers -/
  regs : Nat → UInt8
  /-- data buffer / FIFO; the pointer wraps modulo 256 -/
  buffer : Nat → UInt8
  fifoPtr : Nat := 0
  status : UInt8 := 0
  rxLen : UInt8 := 0
  rxStart : UInt8 := 0
  pktStatus : Nat → UInt8 := fun _ => 0
  rssiInst : UInt8 := 0
  /-- answers of successive GetIrqStatus / RegIrqFlags reads, then `irqDefault` -/
  irqScript : List Nat := []
  irqDefault : Nat := 0
  irqReads : Nat := 0

def setAt (f : Nat → UInt8) (a : Nat) (v : UInt8) : Nat → UInt8 := fun x => if x = a then v else f x

/-- write `bs` to consecutive cells starting at `a`, addresses taken modulo `m` -/
def setRun (f : Nat → UInt8) (a m : Nat) : Bytes → Nat → UInt8
  | [] => f
  | b :: rest => setRun (setAt f (a % m) b) (a + 1) m rest

def byteAt (bs : Bytes) (i : Nat) : Nat := match bs[i]? with | some b => b.toNat | none => 0

/-- SX126x: the chip-side effect of a completed command -/
def Chip.exec126 (c : Chip) (w : Bytes) : Chip :=
  match w with
  | 0x0D :: a1 :: a2 :: payload => { c with regs := setRun c.regs (a1.toNat * 256 + a2.toNat) 4096 payload }
  | 0x0E :: off :: payload => { c with buffer := setRun c.buffer off.toNat 256 payload }
  | [0x8C, _, _, _, len, _, _] => { c with regs := setAt c.regs 0x0702 len }   -- SetPacketParams keeps the length
  | 0x8C :: _ :: _ :: _ :: len :: _ => { c with regs := setAt c.regs 0x0702 len }
  | _ => c

/-- SX126x: MISO at wire position `pos` of the transaction that wrote `w` -/
def Chip.miso126 (c : Chip) (w : Bytes) (pos irq : Nat) : UInt8 :=
  match w with
  | 0x1D :: a1 :: a2 :: _ => if pos ≥ 4 then c.regs ((a1.toNat * 256 + a2.toNat + (pos - 4)) % 4096) else 0
  | 0x1E :: off :: _ => if pos ≥ 3 then c.buffer ((off.toNat + (pos - 3)) % 256) else 0
  | 0x13 :: _ => if pos = 1 then c.status else if pos = 2 then c.rxLen else if pos = 3 then c.rxStart else 0
  | 0x12 :: _ => if pos = 1 then c.status else if pos = 2 then UInt8.ofNat (irq / 256) else if pos = 3 then UInt8.ofNat irq else 0
  | 0x14 :: _ => if pos = 1 then c.status else if 2 ≤ pos ∧ pos ≤ 4 then c.pktStatus (pos - 2) else 0
  | 0x15 :: _ => if pos = 1 then c.status else if pos = 2 then c.rssiInst else 0
  | 0x17 :: _ => if pos = 1 then c.status else 0
  | 0x07 :: _ => if pos = 1 then c.status else 0
  | 0x11 :: _ => if pos = 1 then c.status else 0
  | 0xC0 :: _ => if pos = 1 then c.status else 0
  | _ => 0

def Chip.nextIrq (c : Chip) : Nat × Chip :=
  match c.irqScript with
  | v :: rest => (v, { c with irqScript := rest, irqReads := c.irqReads + 1 })
  | [] => (c.irqDefault, { c with irqReads := c.irqReads + 1 })

/-- SX127x burst write starting at register `addr` (FIFO at 0 goes through the pointer) -/
def Chip.write127 (c : Chip) (addr : Nat) : Nat → Bytes → Chip
  | _, [] => c
  | i, b :: rest =>
    if addr = 0 then
      Chip.write127 { c with buffer := setAt c.buffer c.fifoPtr b, fifoPtr := (c.fifoPtr + 1) % 256 } addr (i + 1) rest
    else
      let a := (addr + i) % 128
      let c1 := if a = 0x0d then { c with fifoPtr := b.toNat } else c
      let c2 :=
        if a = 0x01 then
          -- LongRangeMode (bit 7) only changes while in sleep and staying there
          let cur := c1.regs 1
          let v := if cur &&& 7 = 0 ∧ b &&& 7 = 0 then b else (cur &&& 0x80) ||| (b &&& 0x7f)
          { c1 with regs := setAt c1.regs 1 v }
        else if a = 0x12 then c1 else { c1 with regs := setAt c1.regs a b }
      Chip.write127 c2 addr (i + 1) rest

/-- SX127x burst read of `n` bytes starting at register `addr` -/
def Chip.read127 (c : Chip) (addr : Nat) : Nat → Nat → Bytes × Chip
  | _, 0 => ([], c)
  | i, n + 1 =>
    if addr = 0 then
      let b := c.buffer c.fifoPtr
      let (rest, c') := Chip.read127 { c with fifoPtr := (c.fifoPtr + 1) % 256 } addr (i + 1) n
      (b :: rest, c')
    else
      let a := (addr + i) % 128
      if a = 0x12 then
        let (v, c1) := c.nextIrq
        let (rest, c') := Chip.read127 c1 addr (i + 1) n
        (UInt8.ofNat v :: rest, c')
      else
        let b : UInt8 := if a = 0x0d then UInt8.ofNat c.fifoPtr else c.regs a
        let (rest, c') := Chip.read127 c addr (i + 1) n
        (b :: rest, c')

/-- one SPI transaction: the bytes read and the chip afterwards -/
def Chip.transact (c : Chip) (w : Bytes) (r : Nat) : Bytes × Chip :=
  match c.kind with
  | .sx126x =>
    let (irq, c1) := match w with
      | 0x12 :: _ => c.nextIrq
      | _ => (0, c)
    let bs := (List.range r).map (fun i => c1.miso126 w (w.length + i) irq)
    (bs, c1.exec126 w)
  | .sx127x =>
    match w with
    | [] => (List.replicate r 0, c)
    | a0 :: payload =>
      let addr := a0.toNat % 128
      if a0.toNat ≥ 128 then (List.replicate r 0, c.write127 addr 0 payload)
      else c.read127 addr 0 r

/-! ## the interpreter -/

inductive Mark where
  | done | failed | pending
  deriving DecidableEq, Repr

structure Ev where
  req : Io
  mark : Mark := .done
  deriving DecidableEq, Repr

structure World where
  chip : Chip
  /-- transcript, oldest first -/
  log : List Ev := []
  /-- number of fault-able I/O steps performed (everything but delays) -/
  step : Nat := 0
  fault : Option Nat := none
  pendAt : Option Nat := none

inductive Out (α : Type) where
  | ok (a : α)
  | err (e : RadioError)
  | panic (site : String)
  /-- the future stayed pending at an `await_irq` and was dropped there -/
  | dropped

def errOf : Io → RadioError
  | .spi _ _ => .SPI
  | .busy => .Busy
  | .irq => .Irq
  | .rfRx => .RfSwitchRx
  | .rfTx => .RfSwitchTx
  | .rfOff => .RfSwitchRx
  | .reset => .Reset
  | .delay _ => .SPI

def run {α : Type} : Prog α → World → Out α × World
  | .ret a, w => (.ok a, w)
  | .fail e, w => (.err e, w)
  | .panic s, w => (.panic s, w)
  | .io (.delay ms) k, w => run (k []) { w with log := w.log ++ [⟨.delay ms, .done⟩] }
  | .io req k, w =>
    if req = .irq ∧ w.pendAt = some w.step then
      (.dropped, { w with log := w.log ++ [⟨req, .pending⟩], step := w.step + 1 })
    else if w.fault = some w.step then
      (.err (errOf req), { w with log := w.log ++ [⟨req, .failed⟩], step := w.step + 1 })
    else
      let w1 := { w with log := w.log ++ [⟨req, .done⟩], step := w.step + 1 }
      match req with
      | .spi wr r =>
        let (bs, chip') := w.chip.transact wr r
        run (k bs) { w1 with chip := chip' }
      | _ => run (k []) w1
  | .ioE (.delay ms) k, w => run (k (some [])) { w with log := w.log ++ [⟨.delay ms, .done⟩] }
  | .ioE req k, w =>
    if req = .irq ∧ w.pendAt = some w.step then
      (.dropped, { w with log := w.log ++ [⟨req, .pending⟩], step := w.step + 1 })
    else if w.fault = some w.step then
      run (k none) { w with log := w.log ++ [⟨req, .failed⟩], step := w.step + 1 }
    else
      let w1 := { w with log := w.log ++ [⟨req, .done⟩], step := w.step + 1 }
      match req with
      | .spi wr r =>
        let (bs, chip') := w.chip.transact wr r
        run (k (some bs)) { w1 with chip := chip' }
      | _ => run (k (some [])) w1

/-- the SPI transactions of a transcript, canonically: the MOSI byte stream of each transaction
(written bytes, then one idle 0x00 per byte read) -/
def mosi (log : List Ev) : List Bytes :=
  log.filterMap (fun e => match e.req, e.mark with
    | .spi w r, .done => some (w ++ List.replicate r 0)
    | _, _ => none)

end Model.Phy

namespace Model.Phy

/-- Fault-free denotation of a program on a chip: the MOSI streams of its SPI transactions in
order, the chip afterwards and the result.  `run_eq_trace` (Lemmas/PhyLemmas.lean) shows that this is
what the interpreter does when no fault and no drop is scheduled. -/
def trace {α : Type} : Prog α → Chip → List Bytes × Chip × Out α
  | .ret a, c => ([], c, .ok a)
  | .fail e, c => ([], c, .err e)
  | .panic s, c => ([], c, .panic s)
  | .io (.spi w r) k, c =>
    let (bs, c') := c.transact w r
    let (t, c'', o) := trace (k bs) c'
    ((w ++ List.replicate r 0) :: t, c'', o)
  | .io _ k, c => trace (k []) c
  | .ioE (.spi w r) k, c =>
    let (bs, c') := c.transact w r
    let (t, c'', o) := trace (k (some bs)) c'
    ((w ++ List.replicate r 0) :: t, c'', o)
  | .ioE _ k, c => trace (k (some [])) c

def spiTrace {α : Type} (p : Prog α) (c : Chip) : List Bytes := (trace p c).1

end Model.Phy
