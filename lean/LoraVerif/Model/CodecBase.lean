/-!
# Shared vocabulary of the frame codec (C01, C02): bytes, blocks, the abstract cipher, error kinds

Import-free.  `Block` is a 16-byte vector so that "a cipher maps 16 bytes to 16 bytes" needs no side
condition.  `Cipher` is the abstract crypto interface every frame-level theorem is parameterised by:
the theorems hold for ANY three functions; the driver instantiates them with the Lean AES of
`Model/Aes.lean` (itself checked against FIPS-197 / RFC 4493 vectors and, on every run, against the
`aes`/`cmac` crates the library uses).
-/
namespace Lora

abbrev Bytes := List UInt8
abbrev Block := Vector UInt8 16
abbrev Key := Block

def Block.zero : Block := Vector.replicate 16 0

/-- first 16 bytes of `l`, zero-padded on the right (the `pad16` of LoRaWAN and of CMAC) -/
def Block.ofPadded (l : Bytes) : Block :=
  ⟨((l ++ List.replicate 16 0).take 16).toArray, by
    simp only [List.size_toArray, List.length_take, List.length_append, List.length_replicate]; omega⟩

/-- exactly 16 bytes, else `none` (Rust: `block.try_into().unwrap()`) -/
def Block.ofList? (l : Bytes) : Option Block :=
  if h : l.length = 16 then some ⟨l.toArray, by simpa using h⟩ else none

/-- AES-128 single-block encryption / decryption and AES-CMAC under a key, abstractly. -/
structure Cipher where
  enc : Key → Block → Block
  dec : Key → Block → Block
  cmac : Key → Bytes → Block

/-- `dec k` inverts `enc k` and vice versa (true of AES; a hypothesis only of the JoinAccept round trip). -/
structure LawfulCipher (c : Cipher) : Prop where
  dec_enc : ∀ k x, c.dec k (c.enc k x) = x
  enc_dec : ∀ k x, c.enc k (c.dec k x) = x

/-- `lorawan::parser::Error`, one constructor per variant (shared by model and specification so that
refusals can be compared by kind). -/
inductive Err where
  | tooShort | unsupportedMajorVersion | unsupportedMessageType | unexpectedMessageType
  | notADataFrame | invalidLength | truncatedFhdr | missingKey | invalidMic
  | bufferTooShort | fOptsTooLong | fOptsWithFPortZero
  deriving DecidableEq, Repr, Inhabited

def Err.name : Err → String
  | .tooShort => "TooShort" | .unsupportedMajorVersion => "UnsupportedMajorVersion"
  | .unsupportedMessageType => "UnsupportedMessageType" | .unexpectedMessageType => "UnexpectedMessageType"
  | .notADataFrame => "NotADataFrame" | .invalidLength => "InvalidLength" | .truncatedFhdr => "TruncatedFhdr"
  | .missingKey => "MissingKey" | .invalidMic => "InvalidMic" | .bufferTooShort => "BufferTooShort"
  | .fOptsTooLong => "FOptsTooLong" | .fOptsWithFPortZero => "FOptsWithFPortZero"

/-- What a call into the library can do: return `Ok`, return `Err`, or panic (slice index out of
range, `copy_from_slice` length mismatch, `unwrap` on `None`, checked-arithmetic overflow). -/
inductive Outcome (α : Type) where
  | ok (a : α)
  | err (e : Err)
  | panic
  deriving DecidableEq, Repr

namespace Outcome
@[inline] def bind {α β} (x : Outcome α) (f : α → Outcome β) : Outcome β :=
  match x with
  | ok a => f a
  | err e => err e
  | panic => panic
instance : Monad Outcome where
  pure := ok
  bind := bind
/-- a Rust operation that panics on `None` -/
@[inline] def ofOption {α} : Option α → Outcome α
  | some a => ok a
  | none => panic
/-- `opt.ok_or(e)?` -/
@[inline] def okOr {α} (o : Option α) (e : Err) : Outcome α :=
  match o with
  | some a => ok a
  | none => err e
@[inline] def map {α β} (f : α → β) : Outcome α → Outcome β
  | ok a => ok (f a)
  | err e => err e
  | panic => panic
/-- embedding of the specification's `Except Err` (a specification never panics) -/
@[inline] def ofExcept {α} : Except Err α → Outcome α
  | .ok a => ok a
  | .error e => err e
end Outcome

end Lora

namespace Lora
/-- the four data message types (MType 010, 011, 100, 101) -/
inductive FType where
  | unconfirmedUp | unconfirmedDown | confirmedUp | confirmedDown
  deriving DecidableEq, Repr, Inhabited

def FType.isUplink : FType → Bool
  | .unconfirmedUp | .confirmedUp => true
  | _ => false

def FType.isConfirmed : FType → Bool
  | .confirmedUp | .confirmedDown => true
  | _ => false
end Lora
