/-!
# Model of `get_rx_payload` (lora-phy, SX126x and SX127x) and of `RadioBuffer` (lorawan-device)

Hand-written executable model (tie B: `harness/src/c18.rs` runs the real functions over the fake
chips of `harness/src/fakechip.rs` and `./check C18` diffs the answers with this model).

What is modelled, line by line:
* `lora-phy/src/sx126x/mod.rs  get_rx_payload`: `GetRxBufferStatus` (status, PayloadLengthRx,
  RxStartBufferPointer) → `OpError(status)` when the command-status field says so → in
  implicit-header mode the length is re-read from register 0x0702 → the length check against the
  caller's slice → `ReadBuffer(offset)` into `receiving_buffer[..n]`.
* `lora-phy/src/sx127x/mod.rs  get_rx_payload`: `RegRxNbBytes` (explicit header) or the configured
  `payload_length` (implicit) → length check → `RegFifoRxCurrentAddr` → write `RegFifoAddrPtr` →
  FIFO burst read into `receiving_buffer[0..n]` → `RegFifoAddrPtr := 0`.
* every SPI transaction and every `wait_on_busy` is one I/O step; `fault = some k` makes step `k`
  fail (`RadioError::SPI` / `RadioError::Busy`) — the `?` then leaves the function.
* Rust's slice expression `&mut buf[..n]` panics when `n > buf.len()`: modelled by `sliceTo`
  returning `none`, which the model maps to `Outcome.panic`.  "Never panics" is then a theorem.

What the *chip* does (stated, mirrored by the fake chips): both data buffers are 256 bytes and the
read pointer wraps modulo 256 (SX1261/2 datasheet §7.1 "data buffer … circular", SX1276 datasheet
§4.1.2.3: 8-bit FifoAddrPtr auto-increment).  `chipRead mem off n` is that behaviour.
-/
namespace Model.PhyRx

abbrev Bytes := List UInt8

inductive RadioErr where
  | spi
  | busy
  | opError (status : UInt8)
  | payloadSizeMismatch (n size : Nat)
  deriving DecidableEq, Repr

/-- result of a Rust function returning `Result<α, RadioError>`, with panics as values -/
inductive Outcome (α : Type) where
  | ok (a : α)
  | err (e : RadioErr)
  | panic (site : String)
  deriving DecidableEq, Repr

/-- the bytes a chip clocks out when `n` bytes are read starting at pointer `off` of its 256-byte memory -/
def chipRead (mem : Nat → UInt8) (off n : Nat) : Bytes :=
  (List.range n).map (fun i => mem ((off + i) % 256))

/-- Rust `&mut buf[..n]` as (slice, rest); `none` = the slice expression panics -/
def sliceTo (buf : Bytes) (n : Nat) : Option (Bytes × Bytes) :=
  if n ≤ buf.length then some (buf.take n, buf.drop n) else none

/-- `OpStatusErrorMask::is_error` (sx126x/radio_kind_params.rs) -/
def isError (status : UInt8) : Bool :=
  let f := status &&& 0x0e
  f == ((0x03 : UInt8) <<< 1) || f == ((0x04 : UInt8) <<< 1) || f == ((0x05 : UInt8) <<< 1)

/-- one I/O step: `some e` when this is the step that fails -/
def failsAt (fault : Option Nat) (step : Nat) (e : RadioErr) : Option RadioErr :=
  if fault = some step then some e else none

/-- what the caller observes: the `Result`, and the caller's buffer afterwards -/
structure Res where
  out : Outcome Nat
  buf : Bytes

/-! ## SX126x -/

structure Chip126 where
  /-- status byte clocked out before the GetRxBufferStatus answer -/
  status : UInt8
  /-- PayloadLengthRx -/
  rxLen : UInt8
  /-- RxStartBufferPointer -/
  rxStart : UInt8
  /-- register 0x0702: the payload length programmed by SetPacketParams -/
  regPayloadLen : UInt8
  /-- the 256-byte data buffer -/
  buffer : Nat → UInt8

/-- `intf.read` / `intf.read_with_status`: SPI transaction (step `s`) then `wait_on_busy` (step `s+1`) -/
def ioRead (fault : Option Nat) (s : Nat) : Option RadioErr :=
  match failsAt fault s .spi with
  | some e => some e
  | none => failsAt fault (s + 1) .busy

/-- `intf.read(cmd, &mut receiving_buffer[..n])`: the slice expression (panics when `n` exceeds the
slice), the SPI transaction (step `s`) clocking `n` bytes from pointer `off`, `wait_on_busy` (step `s+1`). -/
def readInto (mem : Nat → UInt8) (off n : Nat) (fault : Option Nat) (s : Nat) (site : String) (buf : Bytes) : Res :=
  match sliceTo buf n with
  | none => ⟨.panic site, buf⟩
  | some (_, rest) =>
    match failsAt fault s .spi with
    | some e => ⟨.err e, buf⟩          -- the transaction failed: nothing was clocked in
    | none =>
      let buf' := chipRead mem off n ++ rest
      match failsAt fault (s + 1) .busy with
      | some e => ⟨.err e, buf'⟩
      | none => ⟨.ok n, buf'⟩

def getRxPayload126 (c : Chip126) (implicit : Bool) (fault : Option Nat) (buf : Bytes) : Res :=
  -- let status = self.intf.read_with_status(&[GetRxBufferStatus], &mut buf).await?;
  match ioRead fault 0 with
  | some e => ⟨.err e, buf⟩
  | none =>
    if isError c.status then ⟨.err (.opError c.status), buf⟩ else
    -- let payload_length = if implicit { self.reg_r_8(Register::PayloadLength).await? } else { rx_len };
    let lenStep : Option RadioErr × Nat × Nat :=
      if implicit then (ioRead fault 2, c.regPayloadLen.toNat, 4) else (none, c.rxLen.toNat, 2)
    match lenStep.1 with
    | some e => ⟨.err e, buf⟩
    | none =>
      let n := lenStep.2.1
      -- if (payload_length as usize) > receiving_buffer.len() { return Err(PayloadSizeMismatch(..)) }
      if n > buf.length then ⟨.err (.payloadSizeMismatch n buf.length), buf⟩ else
      -- self.intf.read(&[ReadBuffer, offset, 0], &mut receiving_buffer[..payload_length as usize]).await?;
      readInto c.buffer c.rxStart.toNat n fault lenStep.2.2
        "sx126x get_rx_payload: receiving_buffer[..payload_length]" buf

/-! ## SX127x -/

structure Chip127 where
  regRxNbBytes : UInt8
  regFifoRxCurrentAddr : UInt8
  /-- RegFifoAddrPtr before the call -/
  fifoPtr : UInt8
  fifo : Nat → UInt8

/-- result plus the FIFO pointer the chip is left with -/
structure Res127 where
  res : Res
  ptr : UInt8

/-- `write_register` / `read_register`: SPI (step s), busy (step s+1) — same shape as `ioRead` -/
def getRxPayload127 (c : Chip127) (implicit : Bool) (cfgLen : UInt8) (fault : Option Nat) (buf : Bytes) : Res127 :=
  -- let payload_length = if implicit { params.payload_length } else { read_register(RegRxNbBytes)? };
  let lenStep : Option RadioErr × Nat × Nat :=
    if implicit then (none, cfgLen.toNat, 0) else (ioRead fault 0, c.regRxNbBytes.toNat, 2)
  match lenStep.1 with
  | some e => ⟨⟨.err e, buf⟩, c.fifoPtr⟩
  | none =>
    let n := lenStep.2.1
    let s := lenStep.2.2
    if n > buf.length then ⟨⟨.err (.payloadSizeMismatch n buf.length), buf⟩, c.fifoPtr⟩ else
    -- let fifo_addr = self.read_register(RegFifoRxCurrentAddr).await?;
    match ioRead fault s with
    | some e => ⟨⟨.err e, buf⟩, c.fifoPtr⟩
    | none =>
      -- self.write_register(RegFifoAddrPtr, fifo_addr).await?;
      match failsAt fault (s + 2) .spi with
      | some e => ⟨⟨.err e, buf⟩, c.fifoPtr⟩
      | none =>
        let ptr := c.regFifoRxCurrentAddr
        match failsAt fault (s + 3) .busy with
        | some e => ⟨⟨.err e, buf⟩, ptr⟩
        | none =>
          -- self.read_buffer(RegFifo, &mut receiving_buffer[0..payload_length as usize]).await?;
          let r := readInto c.fifo ptr.toNat n fault (s + 4)
            "sx127x get_rx_payload: receiving_buffer[0..payload_length]" buf
          -- the FIFO pointer advanced (8-bit auto-increment) iff the burst read was clocked
          let clocked : Bool := (sliceTo buf n).isSome && (failsAt fault (s + 4) .spi).isNone
          let ptr' : UInt8 := if clocked then UInt8.ofNat ((ptr.toNat + n) % 256) else ptr
          match r.out with
          | .ok _ =>
            -- self.write_register(RegFifoAddrPtr, 0x00).await?;
            match failsAt fault (s + 6) .spi with
            | some e => ⟨⟨.err e, r.buf⟩, ptr'⟩
            | none =>
              match failsAt fault (s + 7) .busy with
              | some e => ⟨⟨.err e, r.buf⟩, 0⟩
              | none => ⟨r, 0⟩
          | _ => ⟨r, ptr'⟩

/-! ## `RadioBuffer<N>` (lorawan-device/src/radio.rs) -/

structure RadioBuffer where
  /-- `[u8; N]` -/
  packet : Bytes
  pos : Nat

def RadioBuffer.new (n : Nat) : RadioBuffer := ⟨List.replicate n 0, 0⟩
def RadioBuffer.clear (b : RadioBuffer) : RadioBuffer := { b with pos := 0 }
def RadioBuffer.setPos (b : RadioBuffer) (pos : Nat) : RadioBuffer := { b with pos := pos }
/-- `as_mut()` : the whole array, which is what the device hands to `rx_single` / `rx_continuous` -/
def RadioBuffer.asMut (b : RadioBuffer) : Bytes := b.packet
/-- `&mut self.packet[..self.pos]`; `none` = the slice expression panics -/
def RadioBuffer.asMutForRead (b : RadioBuffer) : Option Bytes := (sliceTo b.packet b.pos).map (·.1)
/-- `&self.packet[..self.pos]` -/
def RadioBuffer.asRefForRead (b : RadioBuffer) : Option Bytes := (sliceTo b.packet b.pos).map (·.1)

/-- `extend_from_slice`: `Err(())` (= `none` inner) when `pos + len < N` fails; the copy itself is
in bounds exactly when the test passed, so the slice panic is unreachable — still modelled. -/
def RadioBuffer.extendFromSlice (b : RadioBuffer) (src : Bytes) : Outcome (Option RadioBuffer) :=
  if b.pos + src.length < b.packet.length then
    if b.pos + src.length ≤ b.packet.length then
      .ok (some { packet := b.packet.take b.pos ++ src ++ b.packet.drop (b.pos + src.length), pos := b.pos + src.length })
    else .panic "RadioBuffer::extend_from_slice: packet[pos..pos+len]"
  else .ok none

/-- The receive path of `LorawanRadio::rx_single` / `rx_continuous` + `Device`: the device passes
`radio_buffer.as_mut()`, the adapter returns `Rx(len as usize, _)`, the device calls
`set_pos(len)` and the MAC reads `as_mut_for_read()`.  `rxBytes` is what `get_rx_payload` left in
the array. -/
def adapterDeliver (b : RadioBuffer) (r : Res) : Outcome Bytes :=
  match r.out with
  | .ok n =>
    let b' : RadioBuffer := ({ b with packet := r.buf }).setPos n
    match b'.asMutForRead with
    | some bytes => .ok bytes
    | none => .panic "RadioBuffer::as_mut_for_read: packet[..pos]"
  | .err e => .err e
  | .panic s => .panic s

end Model.PhyRx
