import LoraVerif.Model.History
/-!
# Histories with Class C receptions *inside* the receive procedure (conservative extension)

`Model/History.lean` has the idealised Class A procedure (`uplink`, `joinOtaa`) and Class C
receptions *between* uplinks (`rxc`).  The async front-end of a Class C device does one more thing
(`async_device::Device::between_windows`): while it waits for RX1 and for RX2 it listens on the RXC
parameters, and every frame heard there goes to `Mac::handle_rxc` at once — after the uplink was
built and before the window's own frame is handled.  An accepted frame there moves `fcnt_down`,
`fcnt_up`, `adr_ack_cnt` and the ACK flag in the middle of the procedure, which no sequence of
`Ev` events reproduces (`Props/C06.lean`: `classC_inside_*`, a concrete script evaluated on both sides).

This file adds the event shapes for it, WITHOUT touching `Ev`/`step`/`run`:
* `EvC.base e` — an event of `Model/History.lean`, with `step`'s semantics;
* `EvC.uplinkC` / `EvC.joinC` — `send` / `join` + the receive procedure as the async front-end runs
  it in either class: the frames heard while waiting for RX1 (`c1`) and for RX2 (`c2`, Class C
  only), the frames of the two windows, and the position of a radio fault (`FaultPos`).  The window
  payload limits are those of the windows the MAC handed out, the RXC limit that of
  `get_rxc_config` (as in the code).  `get_rxc_config` is part of the semantics wherever the
  front-end calls it (before listening, and in `window_complete`).
With `cc = false` (Class A) or no frame heard in between, `uplinkC`/`joinC` are exactly
`uplink`/`joinOtaa` (`Lemmas/RefinePlain.lean`: `stepC_plain`, `runC_plain`).

Core-only imports.
-/
namespace Model

/-- where a radio fault ends the receive procedure -/
inductive FaultPos where
  /-- the transmission itself failed -/
  | tx
  /-- after TX, before the RX1 window was served (sleep / RXC setup, RX1 setup, RX1 reception) -/
  | before1
  /-- in `window_complete` after RX1 was served (its frame, if any, has been handled) -/
  | close1
  /-- after RX1 closed, before the RX2 window was served -/
  | before2
  /-- in `window_complete` after RX2 was served -/
  | close2
  deriving DecidableEq, Repr

/-- `handle_rxc` for the frames a Class C device hears on the RXC parameters while it waits for a
window, in order.  A frame that meets `Err(NotJoined)` (the device is joining: there is no session it
could belong to) is taken as `NoUpdate` and the front-end goes on listening; the Boolean (always
`true` since that repair) says the listening ran to its end -/
def rxcs (m : MacState) (mp : Nat) : List (RxView × Int) → M (List RxOut × Bool × MacState)
  | [] => pure ([], true, m)
  | (v, snr) :: rest => do
    let (o, m) ← macHandleRx m v mp snr true
    match o with
    | none => rxcs m mp rest
    | some o =>
      let (os, fin, m) ← rxcs m mp rest
      pure (o :: os, fin, m)

/-- `between_windows`: Class A sleeps; Class C computes the RXC configuration and handles what it hears -/
def between (cc : Bool) (m : MacState) (cs : List (RxView × Int)) : M (List RxOut × Bool × MacState) :=
  if cc then do
    let rf ← macRxcConfig m
    rxcs m rf.maxPayload.toNat cs
  else pure ([], true, m)

/-- `window_complete` at the MAC level: Class C recomputes the RXC configuration -/
def closeWindow (cc : Bool) (m : MacState) : M Unit :=
  if cc then do
    let _ ← macRxcConfig m
    pure ()
  else pure ()

/-- one window with what precedes it: `none` = the procedure was cut here (radio fault), `some o` = the window was served with verdict `o`; the outputs of all frames handled
(RXC frames, then the window's frame unless swallowed as `NoUpdate`), the new state -/
def winC (cc : Bool) (m : MacState) (cs : List (RxView × Int)) (f : Option (RxView × Int)) (mp : Nat)
    (errBefore errAfter : Bool) : M (Option (Option RxOut) × List RxOut × MacState) := do
  let (os, fin, m) ← between cc m cs
  if !fin || errBefore then pure (none, os, m) else
  let (o, m) ← window m f mp
  closeWindow cc m
  if errAfter then pure (none, os ++ o.toList, m) else pure (some o, os ++ o.toList, m)

/-- how the receive procedure ended -/
inductive ProcEnd where
  /-- a window produced a response -/
  | resp (o : RxOut)
  /-- neither did: `rx2_complete` follows -/
  | complete
  /-- cut short by a radio fault -/
  | cut
  deriving DecidableEq, Repr

/-- the receive procedure of the async front-end at the MAC level (both classes) -/
def cycleC (cc : Bool) (m : MacState) (fault : Option FaultPos) (c1 : List (RxView × Int)) (rx1 : Option (RxView × Int))
    (c2 : List (RxView × Int)) (rx2 : Option (RxView × Int)) (mp1 mp2 : Nat) : M (ProcEnd × List RxOut × MacState) :=
  if fault = some .tx then pure (.cut, [], m) else do
  let (r1, h1, m) ← winC cc m c1 rx1 mp1 (fault == some .before1) (fault == some .close1)
  match r1 with
  | none => pure (.cut, h1, m)
  | some (some o) => pure (.resp o, h1, m)
  | some none =>
    let (r2, h2, m) ← winC cc m c2 rx2 mp2 (fault == some .before2) (fault == some .close2)
    match r2 with
    | none => pure (.cut, h1 ++ h2, m)
    | some (some o) => pure (.resp o, h1 ++ h2, m)
    | some none => pure (.complete, h1 ++ h2, m)

inductive EvC where
  | base (e : Ev)
  /-- `send` + the receive procedure as the async front-end runs it (`cc`: Class C enabled) -/
  | uplinkC (cc : Bool) (data : List Nat) (fport : Nat) (confirmed : Bool) (fault : Option FaultPos)
      (c1 : List (RxView × Int)) (rx1 : Option (RxView × Int)) (c2 : List (RxView × Int)) (rx2 : Option (RxView × Int))
  /-- `join` (OTAA) + the same procedure -/
  | joinC (cc : Bool) (fault : Option FaultPos)
      (c1 : List (RxView × Int)) (rx1 : Option (RxView × Int)) (c2 : List (RxView × Int)) (rx2 : Option (RxView × Int))
  deriving Repr

/-- the output of `step`, plus the outputs of every frame handled during the procedure in order
(all of them were offered to the application's downlink queue) -/
structure OutC where
  out : Out
  heard : List RxOut := []
  deriving Repr

def stepC {σ} (g : Rng σ) (ms : MacState × σ) (ev : EvC) : M ((MacState × σ) × OutC) :=
  match ev with
  | .base e => do
    let (ms, o) ← step g ms e
    pure (ms, { out := o })
  | .uplinkC cc data fport conf fault c1 rx1 c2 rx2 => do
    let (o, m, s) ← macSend g ms.1 data fport conf ms.2
    match o with
    | none => pure ((m, s), { out := .notJoined })
    | some o =>
      let (fin, heard, m) ← cycleC cc m fault c1 rx1 c2 rx2 o.tx.rx1.maxPayload.toNat o.tx.rx2.maxPayload.toNat
      match fin with
      | .resp ro => pure ((m, s), { out := .up o (some ro.resp) ro.downlink, heard := heard })
      | .complete =>
        let (r, m) := macRx2Complete m
        pure ((m, s), { out := .up o (some r) none, heard := heard })
      | .cut =>
        pure ((faultAfterTx m, s), { out := .up o (if faultExpired m then some .sessionExpired else none) none, heard := heard })
  | .joinC cc fault c1 rx1 c2 rx2 => do
    let (o, m, s) ← macJoinOtaa g ms.1 ms.2
    let (fin, heard, m) ← cycleC cc m fault c1 rx1 c2 rx2 o.tx.rx1.maxPayload.toNat o.tx.rx2.maxPayload.toNat
    match fin with
    | .resp ro => pure ((m, s), { out := .join o (some ro.resp), heard := heard })
    | .complete =>
      let (r, m) := macRx2Complete m
      pure ((m, s), { out := .join o (some r), heard := heard })
    | .cut => pure ((m, s), { out := .join o none, heard := heard })

def runC {σ} (g : Rng σ) : MacState × σ → List EvC → M ((MacState × σ) × List OutC)
  | ms, [] => pure (ms, [])
  | ms, ev :: rest => do
    let (ms, o) ← stepC g ms ev
    let (ms, os) ← runC g ms rest
    pure (ms, o :: os)

def csWF (cs : List (RxView × Int)) : Bool := cs.all (fun c => viewWF c.1)

def validEvC (r : RegionId) : EvC → Bool
  | .base e => validEv r e
  | .uplinkC _ data fport _ _ c1 rx1 c2 rx2 =>
    (fport != 0 || data.isEmpty) && decide (data.length ≤ 222) && csWF c1 && rxWF rx1 && csWF c2 && rxWF rx2
  | .joinC _ _ c1 rx1 c2 rx2 => csWF c1 && rxWF rx1 && csWF c2 && rxWF rx2

end Model
