/-
Runtime prelude for the GENERATED files (`LoraVerif/Gen/*.lean`).

Rust machine integers are modelled as `Int` together with an explicit type tag;
every arithmetic operation that panics in a debug build (overflow, division by
zero, shift amount out of range) is *checked* and yields `none`.  `as` casts never
panic in Rust: they wrap, which is `wrap`.  Import-free (core only) so that the
driver executable links.
-/
namespace Rt

inductive ITy where
  | u8 | u16 | u32 | u64 | usize | i8 | i16 | i32 | i64 | isize
  deriving DecidableEq, Repr

def ITy.bits : ITy → Nat
  | .u8 | .i8 => 8
  | .u16 | .i16 => 16
  | .u32 | .i32 => 32
  | .u64 | .i64 | .usize | .isize => 64

def ITy.signed : ITy → Bool
  | .i8 | .i16 | .i32 | .i64 | .isize => true
  | _ => false

def ITy.lo (t : ITy) : Int := if t.signed then -(2 ^ (t.bits - 1) : Int) else 0
def ITy.hi (t : ITy) : Int := if t.signed then (2 ^ (t.bits - 1) : Int) - 1 else (2 ^ t.bits : Int) - 1

/-- range check: the value of a Rust arithmetic expression of type `t`, or a panic. -/
def ck (t : ITy) (x : Int) : Option Int :=
  if t.lo ≤ x ∧ x ≤ t.hi then some x else none

/-- `as` cast: two's complement wrap into `t`. -/
def wrap (t : ITy) (x : Int) : Int :=
  let m : Int := (2 ^ t.bits : Int)
  let r := x % m
  if t.signed then (if r ≥ m / 2 then r - m else r) else r

/-- Rust `/` (truncating), checked. -/
def divC (t : ITy) (a b : Int) : Option Int :=
  if b = 0 then none else ck t (Int.tdiv a b)

/-- Rust `%` (sign of dividend), checked. -/
def remC (t : ITy) (a b : Int) : Option Int :=
  if b = 0 then none else ck t (Int.tmod a b)

/-- Rust `<<`: panics when the amount is ≥ the width; shifted-out bits are dropped. -/
def shlC (t : ITy) (a b : Int) : Option Int :=
  if 0 ≤ b ∧ b < t.bits then some (wrap t (a * (2 ^ b.toNat : Int))) else none

/-- Rust `>>` (arithmetic for signed, logical for unsigned = floor division). -/
def shrC (t : ITy) (a b : Int) : Option Int :=
  if 0 ≤ b ∧ b < t.bits then some (a / (2 ^ b.toNat : Int)) else none

/-- `pow` with overflow check. -/
def powC (t : ITy) (a b : Int) : Option Int :=
  if b < 0 then none else ck t (a ^ b.toNat)

/-- two's complement image in 128 bits (wide enough for every Rust integer type used) -/
def toTwos (a : Int) : Nat := (a % (2 ^ 128 : Int)).toNat
def ofTwos (n : Nat) : Int := if n ≥ 2 ^ 127 then (n : Int) - (2 ^ 128 : Int) else (n : Int)
def andI (a b : Int) : Int := if 0 ≤ a ∧ 0 ≤ b then ((a.toNat &&& b.toNat : Nat) : Int) else ofTwos (toTwos a &&& toTwos b)
def orI (a b : Int) : Int := if 0 ≤ a ∧ 0 ≤ b then ((a.toNat ||| b.toNat : Nat) : Int) else ofTwos (toTwos a ||| toTwos b)
def xorI (a b : Int) : Int := if 0 ≤ a ∧ 0 ≤ b then ((a.toNat ^^^ b.toNat : Nat) : Int) else ofTwos (toTwos a ^^^ toTwos b)
/-- bitwise not within type `t` -/
def notI (t : ITy) (a : Int) : Int := if t.signed then -a - 1 else t.hi - a

def satSub (t : ITy) (a b : Int) : Int := max t.lo (min t.hi (a - b))
def satAdd (t : ITy) (a b : Int) : Int := max t.lo (min t.hi (a + b))

def b2i (b : Bool) : Int := if b then 1 else 0

/-- slice / array indexing, checked -/
def idx {α} (l : List α) (i : Int) : Option α :=
  if i < 0 then none else l[i.toNat]?

theorem ck_eq_some {t : ITy} {x : Int} (h : t.lo ≤ x ∧ x ≤ t.hi) : ck t x = some x := by
  simp [ck, h]

theorem ck_eq_none {t : ITy} {x : Int} (h : ¬ (t.lo ≤ x ∧ x ≤ t.hi)) : ck t x = none := by
  simp [ck, h]

theorem ck_eq_some_iff {t : ITy} {x y : Int} : ck t x = some y ↔ (t.lo ≤ x ∧ x ≤ t.hi) ∧ x = y := by
  unfold ck; split <;> simp_all <;> omega

end Rt
