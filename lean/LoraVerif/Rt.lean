/-
Runtime prelude for the GENERATED files (`LoraVerif/Gen/*.lean`).

Rust machine integers are modelled as `Int` together with an explicit type tag;
every arithmetic operation that panics in a debug build (overflow, division by
zero, shift amount out of range) is *checked* and yields `none`.  `as` casts never
panic in Rust: they wrap, which is `wrap`.  Import-free (core only) so that the
driver executable links.
-/
namespace Rt

inductive ITy where
  | u8 | u16 | u32 | u64 | usize | i8 | i16 | i32 | i64 | isize
  deriving DecidableEq, Repr

def ITy.bits : ITy → Nat
  | .u8 | .i8 => 8
  | .u16 | .i16 => 16
  | .u32 | .i32 => 32
  | .u64 | .i64 | .usize | .isize => 64

def ITy.signed : ITy → Bool
  | .i8 | .i16 | .i32 | .i64 | .isize => true
  | _ => false

def ITy.lo (t : ITy) : Int := if t.signed then -(2 ^ (t.bits - 1) : Int) else 0
def ITy.hi (t : ITy) : Int := if t.signed then (2 ^ (t.bits - 1) : Int) - 1 else (2 ^ t.bits : Int) - 1

/-- range check: the value of a Rust arithmetic expression of type `t`, or a panic. -/
def ck (t : ITy) (x : Int) : Option Int :=
  if t.lo ≤ x ∧ x ≤ t.hi then some x else none

/-- `as` cast: two's complement wrap into `t`. -/
def wrap (t : ITy) (x : Int) : Int :=
  let m : Int := (2 ^ t.bits : Int)
  let r := x % m
  if t.signed then (if r ≥ m / 2 then r - m else r) else r

/-- Rust `/` (truncating), checked. -/
def divC (t : ITy) (a b : Int) : Option Int :=
  if b = 0 then none else ck t (Int.tdiv a b)

/-- Rust `%` (sign of dividend), checked. -/
def remC (t : ITy) (a b : Int) : Option Int :=
  if b = 0 then none else ck t (Int.tmod a b)

/-- Rust `<<`: panics when the amount is ≥ the width; shifted-out bits are dropped. -/
def shlC (t : ITy) (a b : Int) : Option Int :=
  if 0 ≤ b ∧ b < t.bits then some (wrap t (a * (2 ^ b.toNat : Int))) else none

/-- Rust `>>` (arithmetic for signed, logical for unsigned = floor division). -/
def shrC (t : ITy) (a b : Int) : Option Int :=
  if 0 ≤ b ∧ b < t.bits then some (a / (2 ^ b.toNat : Int)) else none

/-- `pow` with overflow check. -/
def powC (t : ITy) (a b : Int) : Option Int :=
  if b < 0 then none else ck t (a ^ b.toNat)

/-- two's complement image in 128 bits (wide enough for every Rust integer type used) -/
def toTwos (a : Int) : Nat := (a % (2 ^ 128 : Int)).toNat
def ofTwos (n : Nat) : Int := if n ≥ 2 ^ 127 then (n : Int) - (2 ^ 128 : Int) else (n : Int)
def andI (a b : Int) : Int := if 0 ≤ a ∧ 0 ≤ b then ((a.toNat &&& b.toNat : Nat) : Int) else ofTwos (toTwos a &&& toTwos b)
def orI (a b : Int) : Int := if 0 ≤ a ∧ 0 ≤ b then ((a.toNat ||| b.toNat : Nat) : Int) else ofTwos (toTwos a ||| toTwos b)
def xorI (a b : Int) : Int := if 0 ≤ a ∧ 0 ≤ b then ((a.toNat ^^^ b.toNat : Nat) : Int) else ofTwos (toTwos a ^^^ toTwos b)
/-- bitwise not within type `t` -/
def notI (t : ITy) (a : Int) : Int := if t.signed then -a - 1 else t.hi - a

def satSub (t : ITy) (a b : Int) : Int := max t.lo (min t.hi (a - b))
def satAdd (t : ITy) (a b : Int) : Int := max t.lo (min t.hi (a + b))

def b2i (b : Bool) : Int := if b then 1 else 0

/-- slice / array indexing, checked -/
def idx {α} (l : List α) (i : Int) : Option α :=
  if i < 0 then none else l[i.toNat]?

theorem ck_eq_some {t : ITy} {x : Int} (h : t.lo ≤ x ∧ x ≤ t.hi) : ck t x = some x := by
  simp [ck, h]

theorem ck_eq_none {t : ITy} {x : Int} (h : ¬ (t.lo ≤ x ∧ x ≤ t.hi)) : ck t x = none := by
  simp [ck, h]

theorem ck_eq_some_iff {t : ITy} {x y : Int} : ck t x = some y ↔ (t.lo ≤ x ∧ x ≤ t.hi) ∧ x = y := by
  unfold ck; split <;> simp_all <;> omega

end Rt

/-! Compiled-code speed-ups (builder B): the bounds and moduli as literals instead of `2 ^ bits`
recomputed (as bignums for the 64-bit types) on every checked operation.  `@[csimp]` replaces the
definition in compiled code only, justified by the proved equation; proofs are unaffected. -/
namespace Rt

def ITy.loFast : ITy → Int
  | .u8 | .u16 | .u32 | .u64 | .usize => 0
  | .i8 => -128
  | .i16 => -32768
  | .i32 => -2147483648
  | .i64 | .isize => -9223372036854775808

def ITy.hiFast : ITy → Int
  | .u8 => 255
  | .u16 => 65535
  | .u32 => 4294967295
  | .u64 | .usize => 18446744073709551615
  | .i8 => 127
  | .i16 => 32767
  | .i32 => 2147483647
  | .i64 | .isize => 9223372036854775807

@[csimp] theorem ITy.lo_eq_loFast : @ITy.lo = @ITy.loFast := by
  funext t; cases t <;> decide

@[csimp] theorem ITy.hi_eq_hiFast : @ITy.hi = @ITy.hiFast := by
  funext t; cases t <;> decide

def ITy.modulus : ITy → Int
  | .u8 | .i8 => 256
  | .u16 | .i16 => 65536
  | .u32 | .i32 => 4294967296
  | _ => 18446744073709551616

def wrapFast (t : ITy) (x : Int) : Int :=
  let m := t.modulus
  let r := x % m
  if t.signed then (if r ≥ m / 2 then r - m else r) else r

@[csimp] theorem wrap_eq_wrapFast : @wrap = @wrapFast := by
  funext t x; cases t <;> simp [wrap, wrapFast, ITy.modulus, ITy.bits, ITy.signed]

end Rt

namespace Rt

def ckFast (t : ITy) (x : Int) : Option Int :=
  if t.loFast ≤ x ∧ x ≤ t.hiFast then some x else none

@[csimp] theorem ck_eq_ckFast : @ck = @ckFast := by
  funext t x; simp only [ck, ckFast, ITy.lo_eq_loFast, ITy.hi_eq_hiFast]

def divCFast (t : ITy) (a b : Int) : Option Int :=
  if b = 0 then none else ckFast t (Int.tdiv a b)

@[csimp] theorem divC_eq_divCFast : @divC = @divCFast := by
  funext t a b; simp only [divC, divCFast, ck_eq_ckFast]

def remCFast (t : ITy) (a b : Int) : Option Int :=
  if b = 0 then none else ckFast t (Int.tmod a b)

@[csimp] theorem remC_eq_remCFast : @remC = @remCFast := by
  funext t a b; simp only [remC, remCFast, ck_eq_ckFast]

def ITy.bitsInt : ITy → Int
  | .u8 | .i8 => 8
  | .u16 | .i16 => 16
  | .u32 | .i32 => 32
  | _ => 64

theorem ITy.bitsInt_eq (t : ITy) : t.bitsInt = (t.bits : Int) := by cases t <;> rfl

def shlCFast (t : ITy) (a b : Int) : Option Int :=
  if 0 ≤ b ∧ b < t.bitsInt then some (wrapFast t (a * ((1 <<< b.toNat : Nat) : Int))) else none

@[csimp] theorem shlC_eq_shlCFast : @shlC = @shlCFast := by
  funext t a b
  simp only [shlC, shlCFast, ITy.bitsInt_eq, wrap_eq_wrapFast, Nat.shiftLeft_eq, Nat.one_mul, Int.natCast_pow]
  rfl

def shrCFast (t : ITy) (a b : Int) : Option Int :=
  if 0 ≤ b ∧ b < t.bitsInt then some (a / ((1 <<< b.toNat : Nat) : Int)) else none

@[csimp] theorem shrC_eq_shrCFast : @shrC = @shrCFast := by
  funext t a b
  simp only [shrC, shrCFast, ITy.bitsInt_eq, Nat.shiftLeft_eq, Nat.one_mul, Int.natCast_pow]
  rfl

end Rt

/-! builder L: unsigned `is_multiple_of` (std: `rhs == 0 → self == 0`, otherwise `self % rhs == 0`; never panics) -/
namespace Rt

def isMultipleOf (a b : Int) : Bool := if b = 0 then decide (a = 0) else decide (a % b = 0)

end Rt

/-! builder L: `heapless::Vec<T, CAP>` as a list with a capacity.  `push` returns `Err` (no panic) when
full; `extend_from_slice` returns `Err` and copies nothing when the slice does not fit. -/
namespace Rt

def hvPushOk {α} (cap : Int) (l : List α) : Bool := decide ((l.length : Int) < cap)
def hvPush {α} (cap : Int) (l : List α) (x : α) : List α := if (l.length : Int) < cap then l ++ [x] else l
/-- the `Result` of `extend_from_slice`: `none` = `Err`, so that `.unwrap()` is a checked step -/
def hvExtendOk {α} (cap : Int) (l s : List α) : Option Unit := if (l.length : Int) + (s.length : Int) ≤ cap then some () else none
def hvExtend {α} (cap : Int) (l s : List α) : List α := if (l.length : Int) + (s.length : Int) ≤ cap then l ++ s else l

end Rt

/-! builder N: assignment through an index (`a[i] = v`: out of bounds is a panic) and
`(lo..=hi).all(|c| f(c))` with a body that may panic. -/
namespace Rt

def setIdx {α} (l : List α) (i : Int) (v : α) : Option (List α) :=
  if 0 ≤ i ∧ i.toNat < l.length then some (l.set i.toNat v) else none

/-- `(lo..=hi).all(f)`: evaluated left to right, stops at the first `false`; `none` = a panic inside `f` -/
def rangeAllM (lo hi : Int) (f : Int → Option Bool) : Option Bool := go (hi + 1 - lo).toNat lo
where
  go : Nat → Int → Option Bool
    | 0, _ => some true
    | n + 1, i =>
      match f i with
      | none => none
      | some true => go n (i + 1)
      | some false => some false

end Rt

/-! builder R: `for i in lo..hi { body }` over an integer range, the loop-carried variables threaded through the
body (`none` = a panic inside the body). -/
namespace Rt

def forRangeM {σ} (lo hi : Int) (f : Int → σ → Option σ) (s : σ) : Option σ := go (hi - lo).toNat lo s
where
  go : Nat → Int → σ → Option σ
    | 0, _, s => some s
    | n + 1, i, s =>
      match f i s with
      | none => none
      | some s' => go n (i + 1) s'

end Rt

/-! builder U: range indexing of slices (`&l[a..b]`, `&l[a..]`, `&l[..b]`: an invalid range is a panic) and
`dst[a..b].copy_from_slice(src)` (panics unless the range is valid and the lengths agree). -/
namespace Rt

def slice {α} (l : List α) (a b : Int) : Option (List α) :=
  if 0 ≤ a ∧ a ≤ b ∧ b ≤ (l.length : Int) then some ((l.drop a.toNat).take (b.toNat - a.toNat)) else none

def sliceFrom {α} (l : List α) (a : Int) : Option (List α) :=
  if 0 ≤ a ∧ a ≤ (l.length : Int) then some (l.drop a.toNat) else none

def copyFromSlice {α} (dst : List α) (a b : Int) (src : List α) : Option (List α) :=
  if 0 ≤ a ∧ a ≤ b ∧ b ≤ (dst.length : Int) ∧ (src.length : Int) = b - a then
    some (dst.take a.toNat ++ src ++ dst.drop b.toNat)
  else none

end Rt

/-! builder V: loops that redraw from a random generator run on a fuel (`none` once it is used up, as for a panic);
`(lo..hi).any(f)` with a body that may panic; `iter().rposition(p)`. -/
namespace Rt

/-- `loop` / `while`: `step` answers `Sum.inl s'` (go on with the loop-carried variables `s'`) or `Sum.inr b`
(leave the loop with `b`); at most `fuel` steps -/
def loopM {σ β} : Nat → (σ → Option (σ ⊕ β)) → σ → Option β
  | 0, _, _ => none
  | k + 1, step, s =>
    match step s with
    | none => none
    | some (Sum.inl s') => loopM k step s'
    | some (Sum.inr b) => some b

/-- `(lo..hi).any(f)`: evaluated left to right, stops at the first `true`; `none` = a panic inside `f` -/
def rangeAnyM (lo hi : Int) (f : Int → Option Bool) : Option Bool := go (hi - lo).toNat lo
where
  go : Nat → Int → Option Bool
    | 0, _ => some false
    | n + 1, i =>
      match f i with
      | none => none
      | some true => some true
      | some false => go n (i + 1)

/-- `iter().rposition(p)`: the index of the last element that satisfies `p` -/
def rposition {α} (p : α → Bool) (l : List α) : Option Int :=
  (((List.range l.length).filter (fun i => match l[i]? with | some a => p a | none => false)).getLast?).map Int.ofNat

end Rt
