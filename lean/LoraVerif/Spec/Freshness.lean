/-!
Reference freshness rule for downlink frame counters (LoRaWAN 1.0.x §4.3.1.5, 16-bit counters on the
wire, 32-bit counters in the MIC; MAX_FCNT_GAP = 16384).  Import-free, written from the specification.

`Fresh last wire N`: `N` is the 32-bit counter a receiver whose last accepted downlink counter is
`last` may assign to a frame carrying the 16-bit value `wire`:
* no downlink accepted yet in this session: the wire value itself;
* otherwise the unique `N ≡ wire (mod 2^16)` with `last < N ≤ last + 16384` that still is a 32-bit value.
-/
namespace Spec.Freshness

def maxFcntGap : Nat := 16384

def Fresh (last : Option Nat) (wire N : Nat) : Prop :=
  match last with
  | none => N = wire
  | some l => N % 65536 = wire ∧ l < N ∧ N ≤ l + maxFcntGap ∧ N < 4294967296

instance (last : Option Nat) (wire N : Nat) : Decidable (Fresh last wire N) := by
  unfold Fresh; cases last <;> infer_instance

/-- at most one counter is fresh for a given wire value -/
theorem Fresh.unique {last : Option Nat} {wire N N' : Nat} (h : Fresh last wire N) (h' : Fresh last wire N') : N = N' := by
  unfold Fresh maxFcntGap at *
  cases last with
  | none => simp only at h h'; omega
  | some l => simp only at h h'; omega

/-- a fresh counter is strictly above the last accepted one: nothing is accepted twice -/
theorem Fresh.gt {l wire N : Nat} (h : Fresh (some l) wire N) : l < N := h.2.1

end Spec.Freshness
