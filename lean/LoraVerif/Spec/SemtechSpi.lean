import LoraVerif.Model.PhyIo
/-!
# Semtech's reference drivers (SWL2001 `sx126x.c`, `sx127x.c`) as SPI programs

My transcription of the C sources vendored in `smtc-modem-cores-sys-0.2.0/SWL2001/lbm_lib/
smtc_modem_core/radio_drivers/{sx126x,sx127x}_driver/src`, function by function, in the same `Prog`
vocabulary as the lora-phy model so that transcripts can be compared.  Every constant below
(opcodes, sizes, register addresses, enum codes) is copied from `sx126x.c` / `sx126x.h` /
`sx126x_regs.h` (resp. the sx127x headers) — nothing is taken from lora-phy or from `Gen/`.
The transcription itself is validated on every run against the *compiled* C code through the
`smtc-modem-cores` bindings (`C13 ref …` ops of the correspondence suite).

The HAL is the one of the bindings: `hal_write(command, data)` is one transaction writing
`command ++ data`; `hal_read(command, n)` is one transaction writing `command` and reading `n`
bytes.  The reference HAL hides BUSY polling, so reference programs contain SPI requests only.
-/
namespace Spec.Semtech
open Model.Phy

def halWrite (command data : Bytes) : Prog Unit := do
  let _ ← Prog.xfer (command ++ data) 0
  pure ()

def halRead (command : Bytes) (n : Nat) : Prog Bytes := Prog.xfer command n

def u8 (n : Nat) : UInt8 := UInt8.ofNat (n % 256)

namespace S126

/-! ### sx126x.c — command opcodes (`sx126x_commands_e`) and `sx126x_regs.h` -/
def SET_SLEEP : UInt8 := 0x84
def SET_STANDBY : UInt8 := 0x80
def SET_TX : UInt8 := 0x83
def SET_RX : UInt8 := 0x82
def SET_STOP_TIMER_ON_PREAMBLE : UInt8 := 0x9F
def SET_RX_DUTY_CYCLE : UInt8 := 0x94
def SET_CAD : UInt8 := 0xC5
def SET_TX_CONTINUOUS_WAVE : UInt8 := 0xD1
def SET_REGULATOR_MODE : UInt8 := 0x96
def CALIBRATE : UInt8 := 0x89
def CALIBRATE_IMAGE : UInt8 := 0x98
def SET_PA_CFG : UInt8 := 0x95
def WRITE_REGISTER : UInt8 := 0x0D
def READ_REGISTER : UInt8 := 0x1D
def WRITE_BUFFER : UInt8 := 0x0E
def READ_BUFFER : UInt8 := 0x1E
def SET_DIO_IRQ_PARAMS : UInt8 := 0x08
def GET_IRQ_STATUS : UInt8 := 0x12
def CLR_IRQ_STATUS : UInt8 := 0x02
def SET_DIO2_AS_RF_SWITCH_CTRL : UInt8 := 0x9D
def SET_DIO3_AS_TCXO_CTRL : UInt8 := 0x97
def SET_RF_FREQUENCY : UInt8 := 0x86
def SET_PKT_TYPE : UInt8 := 0x8A
def SET_TX_PARAMS : UInt8 := 0x8E
def SET_MODULATION_PARAMS : UInt8 := 0x8B
def SET_PKT_PARAMS : UInt8 := 0x8C
def SET_CAD_PARAMS : UInt8 := 0x88
def SET_BUFFER_BASE_ADDRESS : UInt8 := 0x8F
def SET_LORA_SYMB_NUM_TIMEOUT : UInt8 := 0xA0
def GET_STATUS : UInt8 := 0xC0
def GET_RX_BUFFER_STATUS : UInt8 := 0x13
def GET_PKT_STATUS : UInt8 := 0x14
def GET_RSSI_INST : UInt8 := 0x15
def CLR_DEVICE_ERRORS : UInt8 := 0x07
def NOP : UInt8 := 0x00

def REG_LR_SYNCWORD : Nat := 0x0740
def REG_RXGAIN : Nat := 0x08AC
def REG_IQ_POLARITY : Nat := 0x0736
def REG_TX_MODULATION : Nat := 0x0889
def REG_TX_CLAMP_CFG : Nat := 0x08D8
def REG_TX_CLAMP_CFG_MASK : UInt8 := (0x0F : UInt8) <<< 1
def REG_RTC_CTRL : Nat := 0x0902
def REG_EVT_CLR : Nat := 0x0944
def REG_EVT_CLR_TIMEOUT_MASK : UInt8 := (0x01 : UInt8) <<< 1
def REG_LR_SYNCH_TIMEOUT : Nat := 0x0706
def REG_RETENTION_LIST_BASE_ADDRESS : Nat := 0x029F
def MAX_LORA_SYMB_NUM_TIMEOUT : Nat := 248
def MAX_NB_REG_IN_RETENTION : Nat := 4

/-- `sx126x_lora_bw_e` by bandwidth in Hz: the datasheet's rounded figure, or for the 15.6 kHz setting
also the value `sx126x_get_lora_bw_in_hz` returns (15 625 — what the crate's `hz()` is since the
C15 repair) -/
def loraBwCode (hz : Nat) : Option Nat :=
  if hz = 500000 then some 6 else if hz = 250000 then some 5 else if hz = 125000 then some 4
  else if hz = 62500 then some 3 else if hz = 41670 then some 10 else if hz = 31250 then some 2
  else if hz = 20830 then some 9 else if (hz = 15625 ∨ hz = 15630) then some 1 else if hz = 10420 then some 8
  else if hz = 7810 then some 0 else none
def LORA_BW_500 : Nat := 6

def writeRegister (address : Nat) (buffer : Bytes) : Prog Unit :=
  halWrite [WRITE_REGISTER, u8 (address / 256), u8 address] buffer

def readRegister (address size : Nat) : Prog Bytes :=
  halRead [READ_REGISTER, u8 (address / 256), u8 address, NOP] size

/-- `sx126x_set_sleep(cfg)`: `SX126X_SLEEP_CFG_WARM_START = 1 << 2`, cold start 0 -/
def setSleep (warm : Bool) : Prog Unit := halWrite [SET_SLEEP, if warm then (1 : UInt8) <<< 2 else 0] []
/-- `sx126x_set_standby(SX126X_STANDBY_CFG_RC = 0)` -/
def setStandby (cfg : UInt8) : Prog Unit := halWrite [SET_STANDBY, cfg] []

def setTxWithTimeoutInRtcStep (t : Nat) : Prog Unit := halWrite [SET_TX, u8 (t / 65536), u8 (t / 256), u8 t] []
def setRxWithTimeoutInRtcStep (t : Nat) : Prog Unit := halWrite [SET_RX, u8 (t / 65536), u8 (t / 256), u8 t] []
def stopTimerOnPreamble (enable : Bool) : Prog Unit := halWrite [SET_STOP_TIMER_ON_PREAMBLE, if enable then 1 else 0] []
def setRxDutyCycleWithTimingsInRtcStep (rx sl : Nat) : Prog Unit :=
  halWrite [SET_RX_DUTY_CYCLE, u8 (rx / 65536), u8 (rx / 256), u8 rx, u8 (sl / 65536), u8 (sl / 256), u8 sl] []
def setCad : Prog Unit := halWrite [SET_CAD] []
def setTxCw : Prog Unit := halWrite [SET_TX_CONTINUOUS_WAVE] []
def setRegMode (mode : UInt8) : Prog Unit := halWrite [SET_REGULATOR_MODE, mode] []
def cal (param : UInt8) : Prog Unit := halWrite [CALIBRATE, param] []
def calImg (f1 f2 : UInt8) : Prog Unit := halWrite [CALIBRATE_IMAGE, f1, f2] []
def setPaCfg (duty hpMax deviceSel paLut : UInt8) : Prog Unit := halWrite [SET_PA_CFG, duty, hpMax, deviceSel, paLut] []
def writeBuffer (offset : UInt8) (buffer : Bytes) : Prog Unit := halWrite [WRITE_BUFFER, offset] buffer
def readBuffer (offset : UInt8) (size : Nat) : Prog Bytes := halRead [READ_BUFFER, offset, NOP] size
def setDioIrqParams (irq dio1 dio2 dio3 : Nat) : Prog Unit :=
  halWrite [SET_DIO_IRQ_PARAMS, u8 (irq / 256), u8 irq, u8 (dio1 / 256), u8 dio1, u8 (dio2 / 256), u8 dio2,
    u8 (dio3 / 256), u8 dio3] []
def getIrqStatus : Prog Bytes := halRead [GET_IRQ_STATUS, NOP] 2
def clearIrqStatus (mask : Nat) : Prog Unit := halWrite [CLR_IRQ_STATUS, u8 (mask / 256), u8 mask] []
def setDio2AsRfSwCtrl (enable : Bool) : Prog Unit := halWrite [SET_DIO2_AS_RF_SWITCH_CTRL, if enable then 1 else 0] []
def setDio3AsTcxoCtrl (voltage : UInt8) (timeout : Nat) : Prog Unit :=
  halWrite [SET_DIO3_AS_TCXO_CTRL, voltage, u8 (timeout / 65536), u8 (timeout / 256), u8 timeout] []
def clearDeviceErrors : Prog Unit := halWrite [CLR_DEVICE_ERRORS, NOP, NOP] []
def getStatus : Prog Bytes := halRead [GET_STATUS] 1
def getRxBufferStatus : Prog Bytes := halRead [GET_RX_BUFFER_STATUS, NOP] 2
def getLoraPktStatus : Prog Bytes := halRead [GET_PKT_STATUS, NOP] 3
def getRssiInst : Prog Bytes := halRead [GET_RSSI_INST, NOP] 1

/-- `sx126x_convert_freq_in_hz_to_pll_step` (XTAL 32 MHz, shift 14, step scaled 15625; C `uint32_t`
arithmetic wraps modulo 2³²) -/
def convertFreqInHzToPllStep (f : Nat) : Nat :=
  let stepsInt := f / 15625
  let stepsFrac := f - stepsInt * 15625
  ((stepsInt * 16384) % 4294967296 + ((stepsFrac * 16384) % 4294967296 + 15625 / 2) / 15625) % 4294967296

def setRfFreq (f : Nat) : Prog Unit :=
  let freq := convertFreqInHzToPllStep f
  halWrite [SET_RF_FREQUENCY, u8 (freq / 16777216), u8 (freq / 65536), u8 (freq / 256), u8 freq] []

def setPktType (t : UInt8) : Prog Unit := halWrite [SET_PKT_TYPE, t] []
def setTxParams (pwr : UInt8) (ramp : UInt8) : Prog Unit := halWrite [SET_TX_PARAMS, pwr, ramp] []

/-- `sx126x_tx_modulation_workaround(SX126X_PKT_TYPE_LORA, bw)` — datasheet §15.1 -/
def txModulationWorkaroundLora (bw : Nat) : Prog Unit := do
  let bs ← readRegister REG_TX_MODULATION 1
  let v : UInt8 := UInt8.ofNat (byteAt bs 0)
  let v' := if bw = LORA_BW_500 then v &&& ~~~((1 : UInt8) <<< 2) else v ||| ((1 : UInt8) <<< 2)
  writeRegister REG_TX_MODULATION [v']

/-- `sx126x_set_lora_mod_params` -/
def setLoraModParams (sf bw cr : Nat) (ldro : UInt8) : Prog Unit := do
  halWrite [SET_MODULATION_PARAMS, u8 sf, u8 bw, u8 cr, ldro &&& 0x01] []
  txModulationWorkaroundLora bw

/-- `sx126x_set_lora_pkt_params` — incl. the inverted-IQ workaround of datasheet §15.4 -/
def setLoraPktParams (preamble : Nat) (implicitHeader : Bool) (pldLen : Nat) (crcOn invertIq : Bool) : Prog Unit := do
  halWrite [SET_PKT_PARAMS, u8 (preamble / 256), u8 preamble, if implicitHeader then 0x01 else 0x00, u8 pldLen,
    if crcOn then 1 else 0, if invertIq then 1 else 0] []
  let bs ← readRegister REG_IQ_POLARITY 1
  let v : UInt8 := UInt8.ofNat (byteAt bs 0)
  let v' := if invertIq then v &&& ~~~((1 : UInt8) <<< 2) else v ||| ((1 : UInt8) <<< 2)
  writeRegister REG_IQ_POLARITY [v']

def setCadParams (symbNb detectPeak detectMin exitMode : UInt8) (timeout : Nat) : Prog Unit :=
  halWrite [SET_CAD_PARAMS, symbNb, detectPeak, detectMin, exitMode, u8 (timeout / 65536), u8 (timeout / 256), u8 timeout] []

def setBufferBaseAddress (tx rx : UInt8) : Prog Unit := halWrite [SET_BUFFER_BASE_ADDRESS, tx, rx] []

/-- the `while( mant > 31 )` loop of `sx126x_set_lora_symb_nb_timeout` -/
def mantExp : Nat → Nat → Nat → Nat × Nat
  | mant, exp, 0 => (mant, exp)
  | mant, exp, fuel + 1 => if mant > 31 then mantExp ((mant + 3) / 4) (exp + 1) fuel else (mant, exp)

/-- `sx126x_set_lora_symb_nb_timeout(nb_of_symbs)` -/
def setLoraSymbNbTimeout (nb : Nat) : Prog Unit := do
  let clamped := if nb > MAX_LORA_SYMB_NUM_TIMEOUT then MAX_LORA_SYMB_NUM_TIMEOUT else nb
  let (mant, exp) := mantExp ((clamped + 1) / 2) 0 8
  halWrite [SET_LORA_SYMB_NUM_TIMEOUT, u8 (mant * 2 ^ (2 * exp + 1))] []
  if nb > 0 then writeRegister REG_LR_SYNCH_TIMEOUT [u8 (exp + mant * 8)] else pure ()

def cfgRxBoosted (state : Bool) : Prog Unit :=
  writeRegister REG_RXGAIN [if state then 0x96 else 0x94]

/-- `sx126x_set_lora_sync_word(sync_word)`: read-modify-write of the two high nibbles -/
def setLoraSyncWord (syncWord : UInt8) : Prog Unit := do
  let bs ← readRegister REG_LR_SYNCWORD 2
  let b0 : UInt8 := UInt8.ofNat (byteAt bs 0)
  let b1 : UInt8 := UInt8.ofNat (byteAt bs 1)
  writeRegister REG_LR_SYNCWORD [(b0 &&& ~~~(0xF0 : UInt8)) + (syncWord &&& 0xF0), (b1 &&& ~~~(0xF0 : UInt8)) + ((syncWord &&& 0x0F) <<< 4)]

/-- `sx126x_cfg_tx_clamp` — datasheet §15.2 -/
def cfgTxClamp : Prog Unit := do
  let bs ← readRegister REG_TX_CLAMP_CFG 1
  writeRegister REG_TX_CLAMP_CFG [UInt8.ofNat (byteAt bs 0) ||| REG_TX_CLAMP_CFG_MASK]

/-- `sx126x_stop_rtc` — datasheet §15.3 -/
def stopRtc : Prog Unit := do
  writeRegister REG_RTC_CTRL [0]
  let bs ← readRegister REG_EVT_CLR 1
  writeRegister REG_EVT_CLR [UInt8.ofNat (byteAt bs 0) ||| REG_EVT_CLR_TIMEOUT_MASK]

inductive Status where
  | ok | unknownValue | error
  deriving DecidableEq, Repr

/-- the duplicate scan of `sx126x_add_registers_to_retention_list` for one address -/
def inList (buffer : Bytes) (addr : Nat) (count : Nat) : Bool :=
  (List.range count).any (fun i => addr = byteAt buffer (1 + 2 * i) * 256 + byteAt buffer (1 + 2 * i + 1))

/-- `sx126x_add_registers_to_retention_list(context, &addr, 1)` -/
def addRegisterToRetentionList (addr : Nat) : Prog Status := do
  let buffer ← readRegister REG_RETENTION_LIST_BASE_ADDRESS 9
  let initial := byteAt buffer 0
  if initial > MAX_NB_REG_IN_RETENTION then pure .unknownValue else
  if inList buffer addr initial then pure .ok else
  if initial < MAX_NB_REG_IN_RETENTION then
    let buffer' := ((buffer.set 0 (u8 (initial + 1))).set (1 + 2 * initial) (u8 (addr / 256))).set (1 + 2 * initial + 1) (u8 addr)
    writeRegister REG_RETENTION_LIST_BASE_ADDRESS buffer'
    pure .ok
  else pure .error

/-! ### which reference calls a PHY-level operation amounts to

The reference driver is a command library; the sequences below are the reference calls (and the
errata sequences the reference itself performs inside them) that realise each operation the two
drivers share.  Parameters are physical quantities (SF 5..12, bandwidth in Hz, coding-rate
denominator 5..8, frequency in Hz), encoded with the reference's own enums. -/
namespace Ref

/-- `sx126x_lora_sf_e`: the SF number itself; `sx126x_lora_cr_e`: 4/5 → 1 … 4/8 → 4 -/
def sfCode (sf : Nat) : Option Nat := if 5 ≤ sf ∧ sf ≤ 12 then some sf else none
def crCode (denom : Nat) : Option Nat := if 5 ≤ denom ∧ denom ≤ 8 then some (denom - 4) else none

inductive Rx where
  | single (symbols : Nat)
  | continuous
  | dutyCycle (rx sl : Nat)

def sleep (warm : Bool) : Prog Unit := setSleep warm
def standby : Prog Unit := setStandby 0x00
def rfFrequency (f : Nat) : Prog Unit := setRfFreq f
def modulation (sf bwHz crDenom : Nat) (ldro : UInt8) : Option (Prog Unit) :=
  match sfCode sf, loraBwCode bwHz, crCode crDenom with
  | some s, some b, some c => some (setLoraModParams s b c ldro)
  | _, _, _ => none
def packet (preamble : Nat) (implicit : Bool) (len : Nat) (crc iq : Bool) : Prog Unit :=
  setLoraPktParams preamble implicit len crc iq
def syncWord (legacy : UInt8) : Prog Unit := setLoraSyncWord legacy
def bufferBase (tx rx : UInt8) : Prog Unit := setBufferBaseAddress tx rx
def fifoWrite (payload : Bytes) : Prog Unit := writeBuffer 0 payload
/-- PA configuration and TX parameters; the high-power PA first gets the §15.2 clamp workaround.
`SX126X_RAMP_40_US = 2`, `SX126X_RAMP_200_US = 4`; `pa_lut` is always 1. -/
def txPower (highPower : Bool) (duty hpMax : UInt8) (pwr : UInt8) (txPrep : Bool) : Prog Unit := do
  if highPower then cfgTxClamp
  setPaCfg duty hpMax (if highPower then 0 else 1) 0x01
  setTxParams pwr (if txPrep then 0x02 else 0x04)
def irqMasks (irq dio1 : Nat) : Prog Unit := setDioIrqParams irq dio1 0 0
def startTx : Prog Unit := setTxWithTimeoutInRtcStep 0
def startRx (boost : Bool) (m : Rx) : Prog Unit := do
  stopTimerOnPreamble true
  setLoraSymbNbTimeout (match m with | .single n => n | _ => 0)
  cfgRxBoosted boost
  match m with
  | .single _ => setRxWithTimeoutInRtcStep 0
  | .continuous => setRxWithTimeoutInRtcStep 0xFFFFFF
  | .dutyCycle rx sl => setRxDutyCycleWithTimingsInRtcStep rx sl
/-- CAD per Semtech's application note: 8 symbols (`SX126X_CAD_08_SYMB = 3`), peak SF+13, min 10,
`SX126X_CAD_ONLY = 0`, no timeout -/
def startCad (boost : Bool) (sf : Nat) : Prog Unit := do
  cfgRxBoosted boost
  setCadParams 0x03 (u8 (sf + 13)) 10 0x00 0
  setCad
/-- image calibration with the band bytes of datasheet table 9-2 -/
def calTable (f : Nat) : UInt8 × UInt8 :=
  if f > 900000000 then (0xE1, 0xE9) else if f > 850000000 then (0xD7, 0xDB)
  else if f > 770000000 then (0xC1, 0xC5) else if f > 460000000 then (0x75, 0x81)
  else if f > 425000000 then (0x6B, 0x6F) else (0x00, 0x00)
def imageCalibration (f : Nat) : Prog Unit := calImg (calTable f).1 (calTable f).2
def wake : Prog Unit := do let _ ← getStatus; pure ()
def clearIrq : Prog Unit := clearIrqStatus 0xFFFF
def txContinuousWave : Prog Unit := setTxCw
def rxDoneWorkaround : Prog Unit := stopRtc
/-- chip bring-up for LoRa as the reference's RAL does it: regulator (`SX126X_REG_MODE_DCDC = 1`),
DIO2 as RF switch, TCXO on DIO3 (clear the XOSC_START error, TCXO mode with a 10 ms = 640-step
start-up, full calibration `0x7F`), LoRa packet type (`SX126X_PKT_TYPE_LORA = 1`), sync word,
buffer bases, retention of the RX-gain and TX-modulation registers (one call per register). -/
def init (dcdc dio2 : Bool) (tcxo : Option UInt8) (syncLegacy : UInt8) : Prog Unit := do
  if dcdc then setRegMode 0x01
  if dio2 then setDio2AsRfSwCtrl true
  match tcxo with
  | some v =>
    clearDeviceErrors
    setDio3AsTcxoCtrl v 640
    cal 0x7F
  | none => pure ()
  setPktType 0x01
  setLoraSyncWord syncLegacy
  setBufferBaseAddress 0 0
  let st ← addRegisterToRetentionList REG_RXGAIN
  if st = .ok then
    let _ ← addRegisterToRetentionList REG_TX_MODULATION
    pure ()
  else pure ()
/-- servicing a DIO interrupt: read the flags, clear them (mask given), and after RxDone in
single mode stop the RTC (implicit-header timeout workaround, datasheet §15.3) -/
def irqService (clearMask : Option Nat) (stopRtcAfter : Bool) : Prog Unit := do
  let _ ← getIrqStatus
  match clearMask with
  | some m => clearIrqStatus m
  | none => pure ()
  if stopRtcAfter then stopRtc

end Ref

end S126

/-! ## sx127x.c

The SX127x is register based and the reference driver factors its register traffic differently
from lora-phy (burst writes, one read-modify-write per register pair), so for this chip family the
comparison is on the chip-visible EFFECT of an operation: the value every register ends up with.
HAL: `hal_write(addr, data)` = one transaction `[addr | 0x80] ++ data`, `hal_read(addr, n)` = one
transaction `[addr & 0x7F]` reading `n` bytes (auto-increment). -/
namespace S127

def REG_OP_MODE : Nat := 0x01
def REG_FRF_MSB : Nat := 0x06
def REG_LORA_MODEM_CONFIG_1 : Nat := 0x1D
def REG_LORA_MODEM_CONFIG_2 : Nat := 0x1E
def REG_1276_LORA_MODEM_CONFIG_3 : Nat := 0x26
def REG_LORA_DETECT_OPTIMIZE : Nat := 0x31
def REG_LORA_DETECTION_THRESHOLD : Nat := 0x37
def REG_LORA_SYNC_WORD : Nat := 0x39

def writeRegister (addr : Nat) (data : Bytes) : Prog Unit := halWrite [u8 addr ||| 0x80] data
def readRegister (addr n : Nat) : Prog Bytes := halRead [u8 addr &&& 0x7F] n

/-- `sx127x_set_op_mode`: `MODE_MASK = ~(7 << 0)`; get_op_mode keeps `reg & ~MODE_MASK`, then
`(that & MODE_MASK) | op_mode` — the old mode bits are first isolated and then masked away, so the
register is written with the bare mode value.  -/
def setOpMode (mode : UInt8) : Prog Unit := do
  let bs ← readRegister REG_OP_MODE 1
  let local_ : UInt8 := UInt8.ofNat (byteAt bs 0) &&& ~~~(~~~((7 : UInt8) <<< 0))
  writeRegister REG_OP_MODE [(local_ &&& ~~~((7 : UInt8) <<< 0)) ||| mode]

def setSleep : Prog Unit := setOpMode 0
def setStandby : Prog Unit := setOpMode 1

/-- `sx127x_convert_freq_in_hz_to_pll_step`: XTAL 32 MHz, shift 8, scaled step 15625 -/
def convertFreqInHzToPllStep (f : Nat) : Nat :=
  let stepsInt := f / 15625
  let stepsFrac := f - stepsInt * 15625
  ((stepsInt * 256) % 4294967296 + ((stepsFrac * 256) % 4294967296 + 15625 / 2) / 15625) % 4294967296

def setRfFreq (f : Nat) : Prog Unit :=
  let p := convertFreqInHzToPllStep f
  writeRegister REG_FRF_MSB [u8 (p / 65536), u8 (p / 256), u8 p]

def setLoraSyncWord (w : UInt8) : Prog Unit := writeRegister REG_LORA_SYNC_WORD [w]

/-- `sx127x_set_lora_sync_timeout`: nothing is written for 0 -/
def setLoraSyncTimeout (n : Nat) : Prog Unit :=
  if n ≠ 0 then do
    let bs ← readRegister REG_LORA_MODEM_CONFIG_2 2
    let r0 : UInt8 := UInt8.ofNat (byteAt bs 0)
    writeRegister REG_LORA_MODEM_CONFIG_2 [(r0 &&& ~~~((3 : UInt8) <<< 0)) ||| (u8 (n / 256) &&& ~~~(~~~((3 : UInt8) <<< 0))), u8 n]
  else pure ()

/-- the detection-optimize / threshold tail common to both `set_lora_mod_params` -/
def detectOptimize (sf : Nat) : Prog Unit := do
  let bs ← readRegister REG_LORA_DETECT_OPTIMIZE 1
  let d : UInt8 := UInt8.ofNat (byteAt bs 0) &&& ~~~((7 : UInt8) <<< 0)
  writeRegister REG_LORA_DETECT_OPTIMIZE [d ||| (if sf = 6 then 5 else 3)]
  writeRegister REG_LORA_DETECTION_THRESHOLD [if sf = 6 then 0x0C else 0x0A]

/-- `sx1276_set_lora_mod_params` (`sf` 6..12, `bw` 0..9 = `sx127x_lora_bw_e`, `cr` 1..4) -/
def sx1276SetLoraModParams (sf bw cr : Nat) (ldro : UInt8) : Prog Unit := do
  let rs ← readRegister REG_LORA_MODEM_CONFIG_1 2
  let r3 ← readRegister REG_1276_LORA_MODEM_CONFIG_3 1
  let r0 : UInt8 := UInt8.ofNat (byteAt rs 0) &&& ~~~((15 : UInt8) <<< 4) &&& ~~~((7 : UInt8) <<< 1)
  let r1 : UInt8 := UInt8.ofNat (byteAt rs 1) &&& ~~~((15 : UInt8) <<< 4)
  let v3 : UInt8 := UInt8.ofNat (byteAt r3 0) &&& ~~~((1 : UInt8) <<< 3)
  writeRegister REG_LORA_MODEM_CONFIG_1 [r0 ||| u8 (bw * 16) ||| u8 (cr * 2), r1 ||| u8 (sf * 16)]
  writeRegister REG_1276_LORA_MODEM_CONFIG_3 [v3 ||| (ldro <<< 3)]
  detectOptimize sf

/-- `sx1272_set_lora_mod_params` (`bw125` 0 / 1 / 2 for 125 / 250 / 500 kHz) -/
def sx1272SetLoraModParams (sf bw125 cr : Nat) (ldro : UInt8) : Prog Unit := do
  let rs ← readRegister REG_LORA_MODEM_CONFIG_1 2
  let r0 : UInt8 := UInt8.ofNat (byteAt rs 0) &&& ~~~((3 : UInt8) <<< 6) &&& ~~~((7 : UInt8) <<< 3) &&& ~~~((1 : UInt8) <<< 0)
  let r1 : UInt8 := UInt8.ofNat (byteAt rs 1) &&& ~~~((15 : UInt8) <<< 4)
  writeRegister REG_LORA_MODEM_CONFIG_1 [r0 ||| u8 (bw125 * 64) ||| u8 (cr * 8) ||| ldro, r1 ||| u8 (sf * 16)]
  detectOptimize sf

/-- `sx127x_lora_bw_e` by bandwidth in Hz (rounded figure, or 15 625 as `sx127x_get_lora_bw_in_hz` has it) -/
def bwCode (hz : Nat) : Option Nat :=
  if hz = 7810 then some 0 else if hz = 10420 then some 1 else if (hz = 15625 ∨ hz = 15630) then some 2
  else if hz = 20830 then some 3 else if hz = 31250 then some 4 else if hz = 41670 then some 5
  else if hz = 62500 then some 6 else if hz = 125000 then some 7 else if hz = 250000 then some 8
  else if hz = 500000 then some 9 else none

def modulation (is1272 : Bool) (sf bwHz crDenom : Nat) (ldro : UInt8) : Option (Prog Unit) :=
  if ¬ (6 ≤ sf ∧ sf ≤ 12 ∧ 5 ≤ crDenom ∧ crDenom ≤ 8) then none else
  match bwCode bwHz with
  | none => none
  | some b =>
    if is1272 then (if b ≥ 7 then some (sx1272SetLoraModParams sf (b - 7) (crDenom - 4) ldro) else none)
    else some (sx1276SetLoraModParams sf b (crDenom - 4) ldro)

/-! ### packet parameters, IRQ mask, TX parameters, FIFO write (`sx127x.c`) -/

def REG_FIFO : Nat := 0x00
def REG_PA_CONFIG : Nat := 0x09
def REG_PA_RAMP : Nat := 0x0A
def REG_LORA_FIFO_ADDR_PTR : Nat := 0x0D
def REG_LORA_FIFO_TX_BASE_ADDR : Nat := 0x0E
def REG_LORA_IRQ_FLAGS_MASK : Nat := 0x11
def REG_LORA_PREAMBLE_MSB : Nat := 0x20
def REG_LORA_PAYLOAD_LENGTH : Nat := 0x22
def REG_1276_PA_DAC : Nat := 0x4D
def REG_1272_PA_DAC : Nat := 0x5A

/-- `sx127x_set_lora_pkt_params`: standby (FIFO registers must not be written in sleep), FIFO base
addresses := 0, header-type and CRC bits by read-modify-write of RegModemConfig1/2 (SX1272: both in
RegModemConfig1), preamble length, RegPayloadLength = RegMaxPayloadLength = the payload length.
The IQ setting is only remembered (applied by `set_tx` / `set_rx`). -/
def setLoraPktParams (is1272 : Bool) (preamble : Nat) (implicit : Bool) (len : UInt8) (crc : Bool) : Prog Unit := do
  setStandby
  writeRegister REG_LORA_FIFO_TX_BASE_ADDR [0, 0]
  let rs ← readRegister REG_LORA_MODEM_CONFIG_1 2
  let r0 : UInt8 := UInt8.ofNat (byteAt rs 0)
  let r1 : UInt8 := UInt8.ofNat (byteAt rs 1)
  let (v0, v1) : UInt8 × UInt8 :=
    if is1272 then
      ((r0 &&& ~~~((1 : UInt8) <<< 2) &&& ~~~((1 : UInt8) <<< 1)) |||
        ((if implicit then (1 : UInt8) <<< 2 else (0 : UInt8) <<< 2) ||| (if crc then (1 : UInt8) <<< 1 else (0 : UInt8) <<< 1)), r1)
    else
      ((r0 &&& ~~~((1 : UInt8) <<< 0)) ||| (if implicit then 1 else 0),
       (r1 &&& ~~~((1 : UInt8) <<< 2)) ||| (if crc then (1 : UInt8) <<< 2 else (0 : UInt8) <<< 2))
  writeRegister REG_LORA_MODEM_CONFIG_1 [v0, v1]
  writeRegister REG_LORA_PREAMBLE_MSB [u8 (preamble / 256), u8 preamble]
  writeRegister REG_LORA_PAYLOAD_LENGTH [len, len]

/-- `sx127x_set_irq_mask` in LoRa mode: a register bit at 0 enables the interrupt.  `irq` is a set of
`SX127X_IRQ_*` bits (TX_DONE 1<<0, RX_DONE 1<<1, HEADER_VALID 1<<4, CRC_ERROR 1<<6, CAD_DONE 1<<7,
CAD_DETECTED 1<<8, TIMEOUT 1<<9; ALL = 0x7FF) -/
def setIrqMask (irq : Nat) : Prog Unit :=
  let has (b : Nat) : Bool := irq &&& b == b
  let clr (c : Bool) (bit : UInt8) (r : UInt8) : UInt8 := if c then r &&& ~~~bit else r
  let reg : UInt8 :=
    if has 0x7FF then ~~~(0xFF : UInt8)
    else
      clr (has 0x200) ((1 : UInt8) <<< 7) <| clr (has 0x100) ((1 : UInt8) <<< 0) <| clr (has 0x80) ((1 : UInt8) <<< 2) <|
      clr (has 0x10) ((1 : UInt8) <<< 4) <| clr (has 0x40) ((1 : UInt8) <<< 5) <| clr (has 0x02) ((1 : UInt8) <<< 6) <|
      clr (has 0x01) ((1 : UInt8) <<< 3) 0xFF
  writeRegister REG_LORA_IRQ_FLAGS_MASK [reg]

/-- `(uint8_t) x` of a small C `int` -/
def i2u8 (x : Int) : UInt8 := UInt8.ofNat (x % 256).toNat

/-- `sx127x_set_pa_cfg` (remembers PA pin and the +20 dBm option) followed by `sx127x_set_tx_params`
(`sx1276_set_tx_params` / `sx1272_set_tx_params`): read-modify-write of RegPaConfig, RegPaRamp and RegPaDac -/
def setTxParams (is1272 boost is20 : Bool) (pwr : Int) (ramp : UInt8) : Prog Unit := do
  let rs ← readRegister REG_PA_CONFIG 2
  let ds ← readRegister (if is1272 then REG_1272_PA_DAC else REG_1276_PA_DAC) 1
  let c0 : UInt8 := (UInt8.ofNat (byteAt rs 0) &&& ~~~((1 : UInt8) <<< 7)) ||| (if boost then (1 : UInt8) <<< 7 else (0 : UInt8) <<< 7)
  let dac : UInt8 := (UInt8.ofNat (byteAt ds 0) &&& ~~~((7 : UInt8) <<< 0)) ||| (if is20 then 7 else 4)
  let c0' : UInt8 :=
    if boost then
      if is20 then (c0 &&& ~~~((15 : UInt8) <<< 0)) ||| (i2u8 (pwr - 5) &&& 0x0F)
      else (c0 &&& ~~~((15 : UInt8) <<< 0)) ||| (i2u8 (pwr - 2) &&& 0x0F)
    else if is1272 then (c0 &&& ~~~((15 : UInt8) <<< 0)) ||| (i2u8 (pwr + 1) &&& 0x0F)
    else
      let (mx, p) : UInt8 × Int := if pwr > 0 then (7, pwr) else (0, pwr + 4)
      (c0 &&& ~~~((7 : UInt8) <<< 4) &&& ~~~((15 : UInt8) <<< 0)) ||| (mx <<< 4) ||| (i2u8 p &&& 0x0F)
  let r1 : UInt8 := (UInt8.ofNat (byteAt rs 1) &&& ~~~((15 : UInt8) <<< 0)) ||| ramp
  writeRegister REG_PA_CONFIG [c0', r1]
  writeRegister (if is1272 then REG_1272_PA_DAC else REG_1276_PA_DAC) [dac]

/-- `sx127x_write_buffer(0, data)` in LoRa mode after packet parameters with payload length `pldLen`:
RegPayloadLength, FIFO TX base and pointer := 0, then `pldLen` bytes of the driver's buffer into the FIFO -/
def writeBuffer (pldLen : UInt8) (data : Bytes) : Prog Unit := do
  writeRegister REG_LORA_PAYLOAD_LENGTH [pldLen]
  writeRegister REG_LORA_FIFO_TX_BASE_ADDR [0]
  writeRegister REG_LORA_FIFO_ADDR_PTR [0]
  writeRegister REG_FIFO ((data ++ List.replicate (pldLen.toNat - data.length) 0).take pldLen.toNat)


end S127

end Spec.Semtech
