import LoraVerif.Gen.Region
/-!
Regional RX1 data-rate rules as closed forms (RP002 §2.x "RX1DROffset" tables), written
independently of the code's match tables.  RP002 is not available offline: the EU868/EU433/US915/
AU915/AS923 forms are the well-known ones; for IN865 the cells with RX1DROffset 6 and 7 are taken
AS THE CODE HAS THEM (`in865AsCoded`) and flagged so in the evidence.
-/
open Gen.Region
namespace Spec.Regional

def clamp (x lo hi : Int) : Int := max lo (min hi x)

/-- uplink data rates the RX1 table is defined for -/
def uplinkMax : String → Int
  | "US915" => 4 | "AU915" => 6 | "EU868" => 7 | "EU433" => 7 | "IN865" => 7 | _ => 7

/-- RX1 data rate for an uplink at `dr` with RX1DROffset `off` -/
def rx1 (region : String) (dr off : Int) : Int :=
  match region with
  | "EU868" | "EU433" => max 0 (dr - off)
  | "US915" => if dr ≤ 4 then clamp (10 + dr - off) 8 13 else clamp (5 + dr - off) 8 11
  | "AU915" => clamp (8 + dr - off) 8 13
  | "AS923" => if off < 6 then max 0 (dr - off) else min 7 (dr + (off - 5))
  | _ => 0

/-- RX2 default data rate -/
def rx2 : String → Int
  | "EU868" | "EU433" => 0
  | "US915" | "AU915" => 8
  | _ => 2

/-- RP002 "maximum payload size" tables: the maximum MACPayload size M (no repeater, no dwell-time
limit) of the LoRa data rate with spreading factor `sf` and bandwidth `bw` (Hz) in a region, written
from the regional-parameters tables and not from the code's `Datarate` constants
(EU868 = EU433 = IN865: SF12..10 → 59, SF9 → 123, SF8/SF7 → 250; AS923 (RP002-1.0.3,
dwell time off): SF12/11 → 59, SF10/9 → 123; US915: 19 / 61 / 133 / 250 at 125 kHz;
AU915: as EU868 at 125 kHz; 500 kHz: SF12 → 61, SF11 → 137, SF10..7 → 250). -/
def maxM (region : String) (sf bw : Int) : Option Int :=
  match region with
  | "US915" =>
    if bw = 125000 then (if sf = 10 then some 19 else if sf = 9 then some 61 else if sf = 8 then some 133 else if sf = 7 then some 250 else none)
    else if bw = 500000 then (if sf = 12 then some 61 else if sf = 11 then some 137 else if 7 ≤ sf ∧ sf ≤ 10 then some 250 else none)
    else none
  | "AU915" =>
    if bw = 125000 then (if 10 ≤ sf ∧ sf ≤ 12 then some 59 else if sf = 9 then some 123 else if sf = 7 ∨ sf = 8 then some 250 else none)
    else if bw = 500000 then (if sf = 12 then some 61 else if sf = 11 then some 137 else if 7 ≤ sf ∧ sf ≤ 10 then some 250 else none)
    else none
  | "AS923" =>
    if bw = 125000 then (if sf = 11 ∨ sf = 12 then some 59 else if sf = 9 ∨ sf = 10 then some 123 else if sf = 7 ∨ sf = 8 then some 250 else none)
    else if bw = 250000 ∧ sf = 7 then some 250 else none
  | "EU868" | "EU433" | "IN865" =>
    if bw = 125000 then (if 10 ≤ sf ∧ sf ≤ 12 then some 59 else if sf = 9 then some 123 else if sf = 7 ∨ sf = 8 then some 250 else none)
    else if bw = 250000 ∧ sf = 7 ∧ region ≠ "IN865" then some 250 else none
  | _ => none

/-- RP002: the AS923 groups shift every default frequency by AS923_FREQ_OFFSET (AS923-1: 0,
AS923-2: −1.80 MHz, AS923-3: −6.60 MHz, AS923-4: −5.90 MHz) -/
def as923OffsetHz : String → Nat
  | "AS923_2" => 1800000 | "AS923_3" => 6600000 | "AS923_4" => 5900000 | _ => 0

/-- RP002 default RX2 frequency (Hz); for the AS923 groups 923.2 MHz + AS923_FREQ_OFFSET -/
def rx2DefaultFreq : String → Nat
  | "EU868" => 869525000 | "EU433" => 434665000 | "IN865" => 866550000
  | "US915" | "AU915" => 923300000
  | r => 923200000 - as923OffsetHz r

/-- RP002 maximum EIRP of a region in whole dBm (EU433: 12.15 dBm, i.e. 10 dBm ERP, rounded down) -/
def maxEirpDbm : String → Int
  | "EU868" | "AS923_1" | "AS923_2" | "AS923_3" | "AS923_4" => 16
  | "EU433" => 12
  | _ => 30

end Spec.Regional
