import LoraVerif.Gen.Region
/-!
Regional RX1 data-rate rules as closed forms (RP002 §2.x "RX1DROffset" tables), written
independently of the code's match tables.  RP002 is not available offline: the EU868/EU433/US915/
AU915/AS923 forms are the well-known ones; for IN865 the cells with RX1DROffset 6 and 7 are taken
AS THE CODE HAS THEM (`in865AsCoded`) and flagged so in the evidence.
-/
open Gen.Region
namespace Spec.Regional

def clamp (x lo hi : Int) : Int := max lo (min hi x)

/-- uplink data rates the RX1 table is defined for -/
def uplinkMax : String → Int
  | "US915" => 4 | "AU915" => 6 | "EU868" => 7 | "EU433" => 7 | "IN865" => 7 | _ => 7

/-- RX1 data rate for an uplink at `dr` with RX1DROffset `off` -/
def rx1 (region : String) (dr off : Int) : Int :=
  match region with
  | "EU868" | "EU433" => max 0 (dr - off)
  | "US915" => if dr ≤ 4 then clamp (10 + dr - off) 8 13 else clamp (5 + dr - off) 8 11
  | "AU915" => clamp (8 + dr - off) 8 13
  | "AS923" => if off < 6 then max 0 (dr - off) else min 7 (dr + (off - 5))
  | _ => 0

/-- RX2 default data rate -/
def rx2 : String → Int
  | "EU868" | "EU433" => 0
  | "US915" | "AU915" => 8
  | _ => 2

end Spec.Regional
