/-!
# Independent specification of the six command sets

Written from the specifications, not from the Rust code:

* LoRaWAN 1.0.4 §5 "MAC Commands" (Table 4: CID, name, transmitted by; §5.1–§5.10 payload layouts);
* TS009-1.2.1 "LoRaWAN Certification Protocol" §5 (package commands on FPort 224);
* TS005-1.0.0 "Remote Multicast Setup" §3 (Table 2–…: commands and payloads).

A command stream is a concatenation of `CID ‖ payload`; the payload length follows from the CID
(and, for McGroupStatusAns, from the AnsGroupMask; the two TS009 commands without a length field
extend to the end of the message).  Fields are described as bit ranges of the little-endian value of
the payload; multi-octet integers are little-endian.  Import-free.
-/
namespace Spec.MacCmd

abbrev Bytes := List Nat

/-- how long the payload following a CID is -/
inductive PLen where
  | fixed (n : Nat)
  /-- no length field: everything up to the end of the message, at least one octet -/
  | toEnd
  /-- McGroupStatusAns: status octet + 5 octets per bit set in AnsGroupMask (low nibble) -/
  | groupStatus
  deriving Repr, DecidableEq

structure Cmd where
  cid : Nat
  name : String
  plen : PLen
  deriving Repr, DecidableEq

/-- LoRaWAN 1.0.4 Table 4, commands sent by the Network Server -/
def macDownlink : List Cmd := [
  ⟨0x02, "LinkCheckAns", .fixed 2⟩,      -- Margin, GwCnt
  ⟨0x03, "LinkADRReq", .fixed 4⟩,        -- DataRate_TXPower, ChMask(2), Redundancy
  ⟨0x04, "DutyCycleReq", .fixed 1⟩,      -- DutyCyclePL
  ⟨0x05, "RXParamSetupReq", .fixed 4⟩,   -- DLSettings, Frequency(3)
  ⟨0x06, "DevStatusReq", .fixed 0⟩,
  ⟨0x07, "NewChannelReq", .fixed 5⟩,     -- ChIndex, Frequency(3), DRRange
  ⟨0x08, "RXTimingSetupReq", .fixed 1⟩,  -- RxTimingSettings
  ⟨0x09, "TXParamSetupReq", .fixed 1⟩,   -- EIRP_DwellTime
  ⟨0x0A, "DlChannelReq", .fixed 4⟩,      -- ChIndex, Frequency(3)
  ⟨0x0D, "DeviceTimeAns", .fixed 5⟩]     -- seconds since epoch (4), fractional second (1)

/-- LoRaWAN 1.0.4 Table 4, commands sent by the end-device -/
def macUplink : List Cmd := [
  ⟨0x02, "LinkCheckReq", .fixed 0⟩,
  ⟨0x03, "LinkADRAns", .fixed 1⟩,        -- Status
  ⟨0x04, "DutyCycleAns", .fixed 0⟩,
  ⟨0x05, "RXParamSetupAns", .fixed 1⟩,   -- Status
  ⟨0x06, "DevStatusAns", .fixed 2⟩,      -- Battery, RadioStatus
  ⟨0x07, "NewChannelAns", .fixed 1⟩,     -- Status
  ⟨0x08, "RXTimingSetupAns", .fixed 0⟩,
  ⟨0x09, "TXParamSetupAns", .fixed 0⟩,
  ⟨0x0A, "DlChannelAns", .fixed 1⟩,      -- Status
  ⟨0x0D, "DeviceTimeReq", .fixed 0⟩]

/-- TS009 downlink commands implemented by the crate -/
def certDownlink : List Cmd := [
  ⟨0x01, "DutResetReq", .fixed 0⟩,
  ⟨0x02, "DutJoinReq", .fixed 0⟩,
  ⟨0x04, "AdrBitChangeReq", .fixed 1⟩,
  ⟨0x06, "TxPeriodicityChangeReq", .fixed 1⟩,
  ⟨0x07, "TxFramesCtrlReq", .toEnd⟩,
  ⟨0x08, "EchoIncPayloadReq", .toEnd⟩,   -- TS009 name: EchoPayloadReq
  ⟨0x09, "RxAppCntReq", .fixed 0⟩,
  ⟨0x20, "LinkCheckReq", .fixed 0⟩,
  ⟨0x7F, "DutVersionsReq", .fixed 0⟩]

/-- TS009 uplink commands implemented by the crate -/
def certUplink : List Cmd := [
  ⟨0x08, "EchoIncPayloadAns", .toEnd⟩,
  ⟨0x09, "RxAppCntAns", .fixed 2⟩,
  ⟨0x7F, "DutVersionsAns", .fixed 12⟩]   -- FwVersion(4), LrwanVersion(4), LrwanRpVersion(4)

/-- TS005 downlink -/
def mcastDownlink : List Cmd := [
  ⟨0x00, "PackageVersionReq", .fixed 0⟩,
  ⟨0x01, "McGroupStatusReq", .fixed 1⟩,
  ⟨0x02, "McGroupSetupReq", .fixed 29⟩,  -- McGroupIDHeader, McAddr(4), McKey_encrypted(16), minMcFCount(4), maxMcFCount(4)
  ⟨0x03, "McGroupDeleteReq", .fixed 1⟩,
  ⟨0x04, "McClassCSessionReq", .fixed 10⟩, -- McGroupIDHeader, SessionTime(4), SessionTimeOut(1), DLFrequ(3), DR(1)
  ⟨0x05, "McClassBSessionReq", .fixed 10⟩] -- McGroupIDHeader, SessionTime(4), TimeOutPeriodicity(1), DLFrequ(3), DR(1)

/-- TS005 uplink -/
def mcastUplink : List Cmd := [
  ⟨0x00, "PackageVersionAns", .fixed 2⟩,
  ⟨0x01, "McGroupStatusAns", .groupStatus⟩,
  ⟨0x02, "McGroupSetupAns", .fixed 1⟩,
  ⟨0x03, "McGroupDeleteAns", .fixed 1⟩,
  ⟨0x04, "McClassCSessionAns", .fixed 4⟩,  -- Status&McGroupID, TimeToStart(3)
  ⟨0x05, "McClassBSessionAns", .fixed 4⟩]

def setByName : String → Option (List Cmd)
  | "DownlinkMacCommand" => some macDownlink
  | "UplinkMacCommand" => some macUplink
  | "DownlinkDUTCommand" => some certDownlink
  | "UplinkDUTCommand" => some certUplink
  | "DownlinkRemoteSetup" => some mcastDownlink
  | "UplinkRemoteSetup" => some mcastUplink
  | _ => none

/-- number of bits set in the low `k` bits -/
def bitsSet : Nat → Nat → Nat
  | 0, _ => 0
  | k + 1, m => (m % 2) + bitsSet k (m / 2)

/-- payload length of command `c` at the front of `rest` (the octets after the CID), or `none` if the
message ends before the payload does -/
def payloadLen (c : Cmd) (rest : Bytes) : Option Nat :=
  match c.plen with
  | .fixed n => if n ≤ rest.length then some n else none
  | .toEnd => if rest.length ≥ 1 then some rest.length else none
  | .groupStatus =>
    match rest with
    | [] => none
    | status :: _ =>
      let n := 1 + 5 * bitsSet 4 (status % 16)
      if n ≤ rest.length then some n else none

inductive Item where
  | cmd (c : Cmd) (payload : Bytes)
  | unknown (cid : Nat)
  | truncated (cid : Nat)
  deriving Repr, DecidableEq

/-- Split a stream into whole commands; the first octet that does not start a whole known command
ends the split with one error item, and the unread octets (from that CID on) are returned. -/
def split (T : List Cmd) : Nat → Bytes → List Item × Bytes
  | 0, b => ([], b)
  | _ + 1, [] => ([], [])
  | fuel + 1, cid :: rest =>
    match T.find? (fun c => c.cid == cid) with
    | none => ([.unknown cid], cid :: rest)
    | some c =>
      match payloadLen c rest with
      | none => ([.truncated cid], cid :: rest)
      | some n =>
        let r := split T fuel (rest.drop n)
        (.cmd c (rest.take n) :: r.1, r.2)

def splitAll (T : List Cmd) (b : Bytes) : List Item × Bytes := split T (b.length + 1) b

/-! ## Field layouts -/

/-- little-endian value of an octet string -/
def leValue : Bytes → Nat
  | [] => 0
  | b :: bs => b + 256 * leValue bs

/-- the `w`-bit field starting at bit `lo` of the little-endian value of the payload (bit 0 = LSB of octet 0) -/
def field (p : Bytes) (lo w : Nat) : Nat := (leValue p / 2 ^ lo) % 2 ^ w

/-- octets `[off, off+n)` -/
def octets (p : Bytes) (off n : Nat) : Bytes := (p.drop off).take n

/-- printable field value (same vocabulary as the model's `Val`) -/
inductive Val where
  | n (v : Nat)
  | i (v : Int)
  | b (v : Bool)
  | hex (v : Bytes)
  | err (e : String)
  | none
  | items (l : List (Nat × Bytes))
  deriving Repr, DecidableEq

/-- TXParamSetupReq MaxEIRP coding (LoRaWAN 1.0.4 Table 16), dBm -/
def eirpDbm : List Nat := [8, 10, 12, 13, 14, 16, 18, 20, 21, 24, 26, 27, 29, 30, 33, 36]

/-- TS009 TxPeriodicityChangeReq periodicity coding, seconds (value 0 = application default) -/
def periodicitySeconds : List Nat := [5, 10, 20, 30, 40, 50, 60, 120, 240, 480]

/-- two's complement value of a `w`-bit field -/
def signed (w v : Nat) : Int := if v ≥ 2 ^ (w - 1) then (v : Int) - (2 ^ w : Nat) else (v : Int)

def groupItems : Nat → Bytes → List (Nat × Bytes)
  | 0, _ => []
  | k + 1, d => if d.length < 5 then [] else (d.headD 0, octets d 1 4) :: groupItems k (d.drop 5)

def decLinkCheckAns (p : Bytes) : List (String × Val) :=
  let f := field p
  [("margin", .n (f 0 8)), ("gateway_count", .n (f 8 8))]

def decLinkADRReq (p : Bytes) : List (String × Val) :=
  let f := field p
  [("data_rate", .n (f 4 4)), ("tx_power", .n (f 0 4)), ("channel_mask", .hex (octets p 1 2)),
     ("redundancy", .n (f 24 8)), ("chmask_cntl", .n (f 28 3)), ("nb_trans", .n (f 24 4))]

def decDutyCycleReq (p : Bytes) : List (String × Val) :=
  let f := field p
  -- aggregated duty cycle = 1 / 2^MaxDutyCycle; as an IEEE-754 single: exponent 127 - MaxDutyCycle, mantissa 0
  [("max_duty_cycle_raw", .n (f 0 4)), ("max_duty_cycle_bits", .n (2 ^ 23 * (127 - f 0 4)))]

def decRXParamSetupReq (p : Bytes) : List (String × Val) :=
  let f := field p
  [("dl_settings", .n (f 0 8)), ("rx1_dr_offset", .n (f 4 3)), ("rx2_data_rate", .n (f 0 4)),
     ("frequency", .n (100 * f 8 24))]

def decNewChannelReq (p : Bytes) : List (String × Val) :=
  let f := field p
  let minDr := f 32 4
    let maxDr := f 36 4
    let drr (v : Nat) : Val := if maxDr < minDr then .err "InvalidDataRateRange" else .n v
  [("channel_index", .n (f 0 8)), ("frequency", .n (100 * f 8 24)),
     ("data_rate_range", drr (f 32 8)), ("drr_max", drr maxDr), ("drr_min", drr minDr)]

def decRXTimingSetupReq (p : Bytes) : List (String × Val) :=
  let f := field p
  [("delay", .n (f 0 4))]

def decTXParamSetupReq (p : Bytes) : List (String × Val) :=
  let f := field p
  [("downlink_dwell_time", .b (f 5 1 = 1)), ("uplink_dwell_time", .b (f 4 1 = 1)),
     ("max_eirp", .n (eirpDbm.getD (f 0 4) 0))]

def decDlChannelReq (p : Bytes) : List (String × Val) :=
  let f := field p
  [("channel_index", .n (f 0 8)), ("frequency", .n (100 * f 8 24))]

def decDeviceTimeAns (p : Bytes) : List (String × Val) :=
  let f := field p
  -- 32-bit unsigned seconds since the GPS epoch (little-endian), fractional second in 1/256 s steps
  [("seconds", .n (f 0 32)), ("nano_seconds", .n (3906250 * f 32 8))]

def decLinkADRAns (p : Bytes) : List (String × Val) :=
  let f := field p
  [("channel_mask_ack", .b (f 0 1 = 1)), ("data_rate_ack", .b (f 1 1 = 1)), ("powert_ack", .b (f 2 1 = 1)),
     ("ack", .b (f 0 8 = 7))]

def decRXParamSetupAns (p : Bytes) : List (String × Val) :=
  let f := field p
  [("channel_ack", .b (f 0 1 = 1)), ("rx2_data_rate_ack", .b (f 1 1 = 1)), ("rx1_dr_offset_ack", .b (f 2 1 = 1)),
     ("ack", .b (f 0 8 = 7))]

def decDevStatusAns (p : Bytes) : List (String × Val) :=
  let f := field p
  [("battery", .n (f 0 8)), ("margin", .i (signed 6 (f 8 6)))]

def decNewChannelAns (p : Bytes) : List (String × Val) :=
  let f := field p
  [("channel_freq_ack", .b (f 0 1 = 1)), ("data_rate_range_ack", .b (f 1 1 = 1)), ("ack", .b (f 0 8 = 3))]

def decDlChannelAns (p : Bytes) : List (String × Val) :=
  let f := field p
  [("channel_freq_ack", .b (f 0 1 = 1)), ("uplink_freq_ack", .b (f 1 1 = 1)), ("ack", .b (f 0 2 = 3))]

def decAdrBitChangeReq (p : Bytes) : List (String × Val) :=
  let f := field p
  [("adr_enable", if f 0 8 = 0 then .b false else if f 0 8 = 1 then .b true else .err "RFU")]

def decTxPeriodicityChangeReq (p : Bytes) : List (String × Val) :=
  let f := field p
  let v := f 0 8
  [("periodicity", if v = 0 then .none else if v ≤ 10 then .n (periodicitySeconds.getD (v - 1) 0) else .err "RFU")]

def decTxFramesCtrlReq (p : Bytes) : List (String × Val) :=
  let f := field p
  let v := f 0 8
  [("len", .n p.length),
     ("frame_type_override", if v = 0 then .none else if v = 1 then .b false else if v = 2 then .b true else .err "RFU")]

def decEchoIncPayloadReq (p : Bytes) : List (String × Val) :=
  [("len", .n p.length), ("payload", .hex p)]

def decEchoIncPayloadAns (p : Bytes) : List (String × Val) :=
  [("len", .n p.length), ("payload", .hex p)]

def decMcGroupStatusReq (p : Bytes) : List (String × Val) :=
  let f := field p
  [("req_group_mask", .n (f 0 4))]

def decMcGroupSetupReq (unwrapKey : Bytes → Bytes) (p : Bytes) : List (String × Val) :=
  let f := field p
  [("mc_group_id_header", .n (f 0 2)), ("mc_addr", .hex (octets p 1 4)),
     ("mc_key_decrypted", .hex (unwrapKey (octets p 5 16))),
     ("min_mc_fcount", .n (leValue (octets p 21 4))), ("max_mc_fcount", .n (leValue (octets p 25 4)))]

def decMcGroupDeleteReq (p : Bytes) : List (String × Val) :=
  let f := field p
  [("mc_group_id_header", .n (f 0 2))]

def decPackageVersionAns (p : Bytes) : List (String × Val) :=
  let f := field p
  [("package_identifier", .n (f 0 8)), ("package_version", .n (f 8 8))]

def decMcGroupStatusAns (p : Bytes) : List (String × Val) :=
  let f := field p
  [("ans_group_mask", .n (f 0 4)), ("nb_total_groups", .n (f 4 3)),
     ("len", .n (1 + 5 * bitsSet 4 (f 0 4))),
     ("items", .items (groupItems 4 (p.drop 1)))]

def decMcGroupSetupAns (p : Bytes) : List (String × Val) :=
  let f := field p
  [("mc_group_id_header", .n (f 0 2))]

def decMcGroupDeleteAns (p : Bytes) : List (String × Val) :=
  let f := field p
  [("mc_group_id_header", .n (f 0 2)), ("mc_group_undefined", .b (f 2 1 = 1))]

/-- The value of every field of a payload, by payload type name (`<CommandName>Payload`), in the order
the harness prints them.  `unwrapKey` stands for the block operation the device applies to
McKey_encrypted (`aes128_encrypt(McKEKey, ·)`, abstract here). -/
def decode (unwrapKey : Bytes → Bytes) (ty : String) (p : Bytes) : List (String × Val) :=
  match ty with
  | "LinkCheckAnsPayload" => decLinkCheckAns p
  | "LinkADRReqPayload" => decLinkADRReq p
  | "DutyCycleReqPayload" => decDutyCycleReq p
  | "RXParamSetupReqPayload" => decRXParamSetupReq p
  | "NewChannelReqPayload" => decNewChannelReq p
  | "RXTimingSetupReqPayload" => decRXTimingSetupReq p
  | "TXParamSetupReqPayload" => decTXParamSetupReq p
  | "DlChannelReqPayload" => decDlChannelReq p
  | "DeviceTimeAnsPayload" => decDeviceTimeAns p
  | "LinkADRAnsPayload" => decLinkADRAns p
  | "RXParamSetupAnsPayload" => decRXParamSetupAns p
  | "DevStatusAnsPayload" => decDevStatusAns p
  | "NewChannelAnsPayload" => decNewChannelAns p
  | "DlChannelAnsPayload" => decDlChannelAns p
  | "AdrBitChangeReqPayload" => decAdrBitChangeReq p
  | "TxPeriodicityChangeReqPayload" => decTxPeriodicityChangeReq p
  | "TxFramesCtrlReqPayload" => decTxFramesCtrlReq p
  | "EchoIncPayloadReqPayload" => decEchoIncPayloadReq p
  | "EchoIncPayloadAnsPayload" => decEchoIncPayloadAns p
  | "McGroupStatusReqPayload" => decMcGroupStatusReq p
  | "McGroupSetupReqPayload" => decMcGroupSetupReq unwrapKey p
  | "McGroupDeleteReqPayload" => decMcGroupDeleteReq p
  | "PackageVersionAnsPayload" => decPackageVersionAns p
  | "McGroupStatusAnsPayload" => decMcGroupStatusAns p
  | "McGroupSetupAnsPayload" => decMcGroupSetupAns p
  | "McGroupDeleteAnsPayload" => decMcGroupDeleteAns p
  | _ => []

/-- the checked constructors `Payload::new(data)`: a view of exactly the command's payload when `data`
is one (fixed length: exactly that many octets; to-end: at least one octet; group status: at least
status + 5·groups octets, the view covering exactly those), else the refusal -/
def newPayload (T : List Cmd) (name : String) (data : Bytes) : Except String Bytes :=
  match T.find? (fun c => c.name == name) with
  | none => .error "unknown"
  | some c =>
    match c.plen with
    | .fixed 0 => .ok []
    | .fixed n => if data.length = n then .ok data else .error "BufferTooShort"
    | .toEnd => if data.length ≥ 1 then .ok data else .error "BufferTooShort"
    | .groupStatus =>
      match payloadLen c data with
      | some n => .ok (data.take n)
      | none => .error "BufferTooShort"

/-! ## Building commands: what a builder must produce

A payload is viewed as one little-endian number; setting a field replaces exactly the bits of that
field.  Out-of-range values are refused by the setters documented as fallible (`Result`) and reduced
modulo the field width by the others. -/

/-- little-endian octets of `v`, `n` of them -/
def toLe : Nat → Nat → Bytes
  | 0, _ => []
  | n + 1, v => (v % 256) :: toLe n (v / 256)

/-- replace the `w`-bit field at bit `lo` of `N` by `v mod 2^w`: the bits below `lo` and the bits from `lo + w` up are kept -/
def setField (N lo w v : Nat) : Nat := N % 2 ^ lo + 2 ^ lo * (v % 2 ^ w + 2 ^ w * (N / 2 ^ (lo + w)))

def setFieldBytes (p : Bytes) (lo w v : Nat) : Bytes := toLe p.length (setField (leValue p) lo w v)

/-- argument of a setter -/
inductive Arg where
  | n (v : Nat)
  | i (v : Int)
  | bytes (b : Bytes)
  | item (id : Nat) (addr : Bytes)
  deriving Repr, DecidableEq

inductive Policy where
  /-- fallible setter: a value that does not fit the field is refused with this error, nothing changes -/
  | refuse (err : String)
  /-- infallible setter: the value is reduced modulo the field width -/
  | mask
  deriving Repr, DecidableEq

/-- (setter, first bit, width, policy) for every setter of a command that writes one numeric / octet-string field -/
def fieldSetters : String → List (String × Nat × Nat × Policy)
  | "LinkCheckAns" => [("set_margin", 0, 8, .mask), ("set_gateway_count", 8, 8, .mask)]
  | "LinkADRReq" => [("set_data_rate", 4, 4, .refuse "InvalidDataRate"), ("set_tx_power", 0, 4, .refuse "InvalidTxPower"), ("set_channel_mask", 8, 16, .mask), ("set_redundancy", 24, 8, .mask)]
  | "LinkADRAns" => [("set_channel_mask_ack", 0, 1, .mask), ("set_data_rate_ack", 1, 1, .mask), ("set_tx_power_ack", 2, 1, .mask)]
  | "DutyCycleReq" => [("set_max_duty_cycle", 0, 4, .refuse "MaxDutyCycleOutOfRange")]
  | "RXParamSetupReq" => [("set_dl_settings", 0, 8, .mask), ("set_frequency", 8, 24, .mask)]
  | "RXParamSetupAns" => [("set_channel_ack", 0, 1, .mask), ("set_rx2_data_rate_ack", 1, 1, .mask), ("set_rx1_data_rate_offset_ack", 2, 1, .mask)]
  | "DevStatusAns" => [("set_battery", 0, 8, .mask)]
  | "NewChannelReq" => [("set_channel_index", 0, 8, .mask), ("set_frequency", 8, 24, .mask), ("set_data_rate_range", 32, 8, .mask)]
  | "NewChannelAns" => [("set_channel_frequency_ack", 0, 1, .mask), ("set_data_rate_range_ack", 1, 1, .mask)]
  | "RXTimingSetupReq" => [("set_delay", 0, 4, .refuse "DelayOutOfRange")]
  | "TXParamSetupReq" => [("set_downlink_dwell_time", 5, 1, .mask), ("set_uplink_dwell_time", 4, 1, .mask), ("set_max_eirp", 0, 4, .refuse "MaxEirpOutOfRange")]
  | "DlChannelReq" => [("set_channel_index", 0, 8, .mask), ("set_frequency", 8, 24, .mask)]
  | "DlChannelAns" => [("set_channel_frequency_ack", 0, 1, .mask), ("set_uplink_frequency_exists_ack", 1, 1, .mask)]
  | "DeviceTimeAns" => [("set_seconds", 0, 32, .mask)]
  | "DutVersionsAns" => [("set_versions_raw", 0, 96, .mask)]
  | "RxAppCntAns" => [("set_rx_app_cnt", 0, 16, .mask)]
  | "PackageVersionAns" => [("package_identifier", 0, 8, .mask), ("package_version", 8, 8, .mask)]
  | "McGroupStatusReq" => [("req_group_mask", 0, 4, .mask)]
  | "McGroupSetupReq" => [("mc_group_id_header", 0, 2, .mask), ("mc_addr", 8, 32, .mask), ("min_mc_fcount", 168, 32, .mask), ("max_mc_fcount", 200, 32, .mask)]
  | "McGroupSetupAns" => [("mc_group_id_header", 0, 2, .mask)]
  | "McGroupDeleteReq" => [("mc_group_id_header", 0, 2, .mask)]
  | "McGroupDeleteAns" => [("mc_group_id_header", 0, 2, .mask), ("mc_group_undefined", 2, 1, .mask)]
  | "McGroupStatusAns" => [("nb_total_groups", 4, 3, .mask)]
  | _ => []

/-- a setter that writes the single field `[lo, lo + w)`: numeric argument or octet string (little-endian value) -/
def applyField (lo w : Nat) (pol : Policy) (p : Bytes) (a : Arg) : Option (Option String × Bytes) :=
  let v? : Option Nat := match a with
    | .n v => some v
    | .bytes b => some (leValue b)
    | _ => none
  match v? with
  | none => none
  | some v =>
    match pol with
    | .mask => some (none, setFieldBytes p lo w v)
    | .refuse e => if v < 2 ^ w then some (none, setFieldBytes p lo w v) else some (some e, p)

/-- one setter call on the payload `p` of command `name`: the outcome (`none` = accepted, `some e` = refused)
and the payload afterwards; `wrapKey` is the block operation the server applies to the McKey
(`aes128_decrypt(McKEKey, ·)`, abstract) -/
def applySetter (wrapKey : Bytes → Bytes) (name : String) (p : Bytes) (setter : String) (a : Arg) : Option (Option String × Bytes) :=
  match name, setter, a with
  | "DevStatusAns", "set_margin", .i m =>
    -- SNR is a 6-bit signed integer, -32..31
    if -32 ≤ m ∧ m ≤ 31 then some (none, setFieldBytes p 8 6 (m % 64).toNat) else some (some "MarginOutOfRange", p)
  | "DeviceTimeAns", "set_nano_seconds", .n v =>
    -- fractional second in 1/256 s = 3906250 ns steps
    if v ≤ 1000000000 then some (none, setFieldBytes p 32 8 (v / 3906250)) else some (some "NanoSecondsOutOfRange", p)
  | "McGroupStatusReq", "req_group", .n v =>
    let k := v % 4
    some (none, if field p k 1 = 1 then p else setFieldBytes p k 1 1)
  | "McGroupSetupReq", "mc_key", .bytes k => some (none, setFieldBytes p 40 128 (leValue (wrapKey k)))
  | "EchoIncPayloadAns", "payload", .bytes b =>
    -- the answer echoes the request payload with every octet incremented (at most 241 octets fit)
    some (none, (b.take 241).map (fun x => (x + 1) % 256))
  | "McGroupStatusAns", "push", .item id addr =>
    let p := if p = [] then [0] else p
    if id ≥ 4 ∨ field p id 1 = 1 then some (some "InvalidIndex", p)
    else some (none, setFieldBytes p id 1 1 ++ (id :: addr))
  | _, _, _ =>
    match (fieldSetters name).find? (fun s => s.1 == setter) with
    | none => none
    | some (_, lo, w, pol) => applyField lo w pol (if name = "McGroupStatusAns" ∧ p = [] then [0] else p) a

/-- the payload of a freshly created command: all zero (`n` octets; the two growing answers start empty,
the McGroupStatusAns status octet appears with the first setter and is part of every built answer) -/
def freshPayload (c : Cmd) : Bytes :=
  match c.plen with
  | .fixed n => List.replicate n 0
  | .toEnd => []
  | .groupStatus => [0]

/-- build: fresh payload, the calls in order, `cid ‖ payload` -/
def build (wrapKey : Bytes → Bytes) (c : Cmd) (calls : List (String × Arg)) : Option (List (Option String) × Bytes) :=
  let r := calls.foldl (fun (acc : Option (List (Option String) × Bytes)) call =>
    match acc with
    | none => none
    | some (rs, p) =>
      match applySetter wrapKey c.name p call.1 call.2 with
      | none => none
      | some (r, p') => some (rs ++ [r], p')) (some ([], freshPayload c))
  r.map (fun (rs, p) => (rs, c.cid :: p))

/-- a sequence of built commands written into a buffer of `cap` octets: the concatenation, or refusal when it does not fit -/
def buildSeq (cmds : List Bytes) (cap : Nat) : Option Bytes :=
  let all := cmds.flatten
  if all.length ≤ cap then some all else none

end Spec.MacCmd
