import LoraVerif.Spec.Airtime
/-!
Independent specification of the *arithmetic* the radio drivers must get right (C15, C17), written
from the Semtech datasheets (SX1261/2 DS rev 2.2, SX1276/7/8/9 DS rev 7, SX1272/73 DS rev 4,
LR1110 user manual) and the Semtech reference driver SWL2001 (`sx126x.c`, `sx127x.c`, `ral_defs.h`),
not from the Rust code.  Everything here is a *decoder*: it says what a chip that receives the
written bytes does with them.  Core-only (no Mathlib), so that the driver executable links.
-/
namespace Spec.Semtech

/-- The chip variants the drivers distinguish. `stm32wl` is the SX126x die in ST's package. -/
inductive Chip where
  | sx1261 | sx1262 | stm32wl | sx1272 | sx1276 | lr1110
  deriving DecidableEq, Repr, Inhabited

def Chip.all : List Chip := [.sx1261, .sx1262, .stm32wl, .sx1272, .sx1276, .lr1110]

def Chip.name : Chip → String
  | .sx1261 => "sx1261" | .sx1262 => "sx1262" | .stm32wl => "stm32wl"
  | .sx1272 => "sx1272" | .sx1276 => "sx1276" | .lr1110 => "lr1110"

/-! ## C15 — which (SF, BW) pairs a chip offers, and the LDRO rule -/

/-- Spreading factors of the LoRa modem: SX127x offers SF6..12, SX126x and LR11xx SF5..12. -/
def supportsSf (c : Chip) (sf : Int) : Bool :=
  match c with
  | .sx1272 | .sx1276 => decide (6 ≤ sf ∧ sf ≤ 12)
  | _ => decide (5 ≤ sf ∧ sf ≤ 12)

open Spec.Airtime (Bw)

/-- Bandwidth settings: SX1272 has 125/250/500 kHz only; LR11xx lacks 7.81 kHz; SX1276 and SX126x
have all ten.  (Keyed by the setting, not by a figure in hertz: see `Spec.Airtime.Bw`.) -/
def supportsBw (c : Chip) (b : Bw) : Bool :=
  match c with
  | .sx1272 => b == .k125 || b == .k250 || b == .k500
  | .lr1110 => b != .k7
  | _ => true

/-- 250 kHz and 500 kHz are not offered in the lowest band (SX1276 DS table 7: "not supported in
band 3", 137–175 MHz).  There is no band between 175 and 410 MHz on any of the chips, so the
boundary is placed at 400 MHz. -/
def supportsAt (b : Bw) (rf : Int) : Bool := !((b == .k250 || b == .k500) && decide (rf < 400000000))

def supports (c : Chip) (sf : Int) (b : Bw) (rf : Int) : Bool := supportsSf c sf && supportsBw c b && supportsAt b rf

/-- The datasheets' rule (SX1276 DS §4.1.1.6, SX1261/2 DS §6.1.1.4): LowDataRateOptimize is
mandated when the symbol time reaches 16.38 ms — the symbol time of the bandwidth the chip
realises. Re-exported from `Spec.Airtime`. -/
abbrev ldro (sf : Int) (b : Bw) : Bool := Spec.Airtime.ldroPhys sf b

/-- `ral_compute_lora_ldro` of SWL2001 (`ral_defs.h`), transcribed literally: a table per bandwidth. -/
def ralLdro (sf : Int) (b : Bw) : Bool :=
  match b with
  | .k500 => false
  | .k250 => decide (sf = 12)
  | .k125 => decide (sf = 12 ∨ sf = 11)
  | .k62 => decide (sf = 12 ∨ sf = 11 ∨ sf = 10)
  | .k41 => decide (sf = 12 ∨ sf = 11 ∨ sf = 10 ∨ sf = 9)
  | .k31 | .k20 | .k15 | .k10 | .k7 => true

/-- Where the chip finds the LDRO flag in what the driver programs.
* SX126x `SetModulationParams` (0x8B) parameter 4, LR11xx `SetModulationParam` parameter 4: the byte itself;
* SX1276 `RegModemConfig3` (0x26) bit 3;
* SX1272 `RegModemConfig1` (0x1D) bit 0. -/
def ldroBit (c : Chip) (v : Nat) : Nat :=
  match c with
  | .sx1276 => (v >>> 3) &&& 1
  | .sx1272 => v &&& 1
  | _ => v

/-! ## C17 — decoding what the drivers program

Everything below reads register values the way the chip does.  Powers are integers in dBm
(tenths of dBm where the datasheet formula has a fractional part), frequencies in Hz. -/

/-! ### Synthesiser word -/

/-- SX126x `SetRfFrequency`: `RF = RFfreq · F_xtal / 2^25`, `F_xtal = 32 MHz` (DS §13.4.1).
`pll` is the nearest step to `f` iff the error is at most half a step:
`2·|pll·32·10^6 − f·2^25| ≤ 32·10^6` (error below 0.48 Hz). -/
def Sx126xNearest (f pll : Int) : Prop := 2 * (pll * 32000000 - f * 2 ^ 25).natAbs ≤ 32000000

/-- executable: the nearest step (no ties: the step 15625/16384 Hz has an odd numerator) -/
def sx126xPll (f : Int) : Int := (f * 2 ^ 25 + 16000000) / 32000000

/-- SX127x `RegFrf`: `F_rf = F_step · Frf(23:0)`, `F_step = 32 MHz / 2^19 = 61.035 Hz` (DS §4.1.4).
The word must fit 24 bits; the property asks for an error below one step (`Sx127xWithinStep`); the
reference driver (`sx127x_convert_freq_in_hz_to_pll_step`) rounds to the nearest step
(`Sx127xNearest`, error at most 30.52 Hz), which is what the executable spec computes. -/
def Sx127xWithinStep (f pll : Int) : Prop :=
  0 ≤ pll ∧ pll < 2 ^ 24 ∧ (f * 2 ^ 19 - pll * 32000000).natAbs < 32000000

def Sx127xNearest (f pll : Int) : Prop :=
  0 ≤ pll ∧ pll < 2 ^ 24 ∧ 2 * (f * 2 ^ 19 - pll * 32000000).natAbs ≤ 32000000

def sx127xPll (f : Int) : Int := (f * 2 ^ 19 + 16000000) / 32000000

/-! ### Power amplifier -/

/-- SX126x: the `(paDutyCycle, hpMax)` pairs of DS table 13-21 and, for the STM32WL, of ST's
radio driver (`SUBGRF_SetRfTxPower`): for each pair the `SetTxParams` power at which the pair is
characterised and the output power it then delivers.  `hp` = high-power PA (`deviceSel = 0`). -/
def paAnchor (c : Chip) (hp : Bool) (duty hpMax : Nat) : Option (Int × Int) :=
  if hp then
    match duty, hpMax with
    | 4, 7 => some (22, 22)
    | 3, 5 => some (22, 20)
    | 2, 3 => some (22, 17)
    | 2, 2 => if c = .stm32wl then some (14, 14) else some (22, 14)
    | _, _ => none
  else
    match duty, hpMax with
    | 6, 0 => some (14, 15)
    | 4, 0 => some (14, 14)
    | 1, 0 => some (13, 10)
    | _, _ => none

/-- Output power [dBm] of an SX126x-family chip programmed with `SetPaConfig(duty, hpMax, deviceSel, 1)`
and `SetTxParams(power, _)`: below the characterised point the output follows `power` one for one
(DS §13.1.14).  `none`: not a documented combination, `power` outside what the selected PA accepts
(low power −17..+14, high power −9..+22) or above the characterised point, or the wrong PA for the part. -/
def paOut126x (c : Chip) (duty hpMax devSel : Nat) (power : Int) : Option Int :=
  let hp := devSel == 0
  if devSel > 1 then none
  else if c = .sx1261 && hp then none
  else if c = .sx1262 && !hp then none
  else
    match paAnchor c hp duty hpMax with
    | none => none
    | some (pAt, out) =>
      let lo : Int := if hp then -9 else -17
      if lo ≤ power ∧ power ≤ pAt then some (out - (pAt - power)) else none

/-- what the selected PA can deliver: low-power PA −17..+15 dBm, high-power PA −9..+22 dBm -/
def paRange126x (hp : Bool) : Int × Int := if hp then (-9, 22) else (-17, 15)

def clampI (lo hi x : Int) : Int := max lo (min hi x)

/-- **SX126x PA requirement.** `obs = some (duty, hpMax, devSel, power)` is what was programmed,
`none` = the driver refused.  `rf = some f` when the driver was told the channel.
The programmed setting must deliver exactly the request clamped into the PA's range; below 400 MHz
the low-power PA must not be driven with `paDutyCycle > 4` (DS table 13-21 note), and the only
acceptable refusal is a request the chip cannot honour there (≥ +15 dBm on the low-power PA). -/
def PaOk126x (c : Chip) (hp : Bool) (req : Int) (rf : Option Int) (obs : Option (Nat × Nat × Nat × Int)) : Bool :=
  let below400 : Bool := match rf with | some f => decide (f < 400000000) | none => false
  match obs with
  | some (duty, hpMax, devSel, power) =>
    decide (devSel = (if hp then 0 else 1)) &&
    (paOut126x c duty hpMax devSel power == some (clampI (paRange126x hp).1 (paRange126x hp).2 req)) &&
    (!(below400 && !hp) || decide (duty ≤ 4))
  | none => !hp && decide (req ≥ 15) && below400

/-- SX1276 / SX1272 output power in **tenths of dBm** from `RegPaConfig` and `RegPaDac`
(SX1276 DS §5.4.2–5.4.3, SX1272 DS §5.4.2–5.4.3):
* SX1276 RFO (`PaSelect = 0`): `Pmax = 10.8 + 0.6·MaxPower`, `Pout = Pmax − (15 − OutputPower)`;
* SX1276 PA_BOOST: `Pout = 17 − (15 − OutputPower)`, +3 dB with `RegPaDac[2:0] = 7`;
* SX1272 RFO: `Pout = −1 + OutputPower`; PA_BOOST: `Pout = 2 + OutputPower`, +3 dB with `PaDac = 7`. -/
def paOut127x (c : Chip) (paConfig paDac : Nat) : Int :=
  let boost := paConfig / 128 % 2 == 1
  let maxPower : Int := (paConfig / 16 % 8 : Nat)
  let op : Int := (paConfig % 16 : Nat)
  let dac20 : Int := if paDac % 8 == 7 then 30 else 0
  match c with
  | .sx1272 => if boost then 20 + 10 * op + dac20 else -10 + 10 * op
  | _ => if boost then 20 + 10 * op + dac20 else 108 + 6 * maxPower - 150 + 10 * op

/-- ranges [dBm] of the two output pins (the board decides which one is wired: `boost`) -/
def paRange127x (c : Chip) (boost : Bool) : Int × Int :=
  if boost then (2, 20) else (match c with | .sx1272 => (-1, 14) | _ => (-4, 14))

/-- **SX127x PA requirement**: the wired pin is selected, the output is never above the clamped
request and less than 1 dB below it (the RFO pin of the SX1276 moves in 0.6 dB `Pmax` steps). -/
def PaOk127x (c : Chip) (boost : Bool) (req : Int) (paConfig paDac : Nat) : Bool :=
  let want := clampI (paRange127x c boost).1 (paRange127x c boost).2 req
  ((paConfig / 128 % 2 == 1) == boost) && decide (paOut127x c paConfig paDac ≤ 10 * want) &&
    decide (10 * want - paOut127x c paConfig paDac < 10)

/-! ### Symbol-count receive timeout -/

/-- SX126x: the timeout in symbols is `mant · 2^(2·exp+1)` with `mant = reg[7:3]`, `exp = reg[2:0]`
of register 0x0706 (SWL2001 `sx126x_set_lora_symb_nb_timeout`); the chip maximum is 248. -/
def symb126x (reg : Nat) : Nat := (reg / 8) * 2 ^ (2 * (reg % 8) + 1)

/-- **SX126x timeout requirement.** `cmd` is the `SetLoRaSymbNumTimeout` argument, `reg` the value
written to 0x0706 (if any).  `n = 0` means "no symbol timeout": nothing but a zero command.
Otherwise both encodings must denote the same count, not shorter than the request (up to 248). -/
def SymbOk126x (n cmd : Nat) (reg : Option Nat) : Bool :=
  match reg with
  | none => n == 0 && cmd == 0
  | some r => n != 0 && decide (r < 256) && symb126x r == cmd && decide (cmd ≥ min n 248) && decide (cmd ≤ 248)

/-- SX127x: `SymbTimeout(9:0)` = `RegModemConfig2[1:0]` : `RegSymbTimeoutLsb`; valid range 4..1023. -/
def symb127x (cfg2 lsb : Nat) : Nat := (cfg2 % 4) * 256 + lsb

/-- **SX127x timeout requirement**: not shorter than the request up to 1023, at least the chip minimum 4. -/
def SymbOk127x (n cfg2 lsb : Nat) : Bool :=
  decide (symb127x cfg2 lsb ≥ min n 1023) && decide (symb127x cfg2 lsb ≥ 4) && decide (lsb < 256)

/-- **LoRaWAN adapter requirement**: a single-shot window of `nsym` symbols covers the 12.25-symbol
preamble plus `ms` milliseconds, with the *exact* symbol time `2^SF/BW`:
`nsym · 2^SF/BW ≥ 12.25 · 2^SF/BW + ms/1000`. -/
def WindowCovers (sf hz ms nsym : Int) : Bool :=
  decide ((4 * nsym - 49) * 2 ^ sf.toNat * 1000 ≥ 4 * ms * hz)

/-! ### Packet status -/

/-- SX126x `GetPacketStatus` (DS §13.5.3): `RssiPkt = −raw/2` dBm, `SnrPkt = int8(raw)/4` dB;
a reported integer agrees when it is within 1 dB. -/
def s8 (raw : Nat) : Int := if raw % 256 ≥ 128 then (raw % 256 : Nat) - 256 else (raw % 256 : Nat)

def PktOk126x (rssiRaw snrRaw : Nat) (rssi snr : Int) : Bool :=
  decide ((2 * rssi + rssiRaw).natAbs ≤ 2) && decide ((4 * snr - s8 snrRaw).natAbs ≤ 4)

/-- SX126x `GetRssiInst`: `−raw/2` dBm -/
def RssiOk126x (raw : Nat) (rssi : Int) : Bool := decide ((2 * rssi + raw).natAbs ≤ 2)

/-- RSSI offset of the SX127x: SX1272 −139 dBm; SX1276 −157 dBm on the HF port (above 525 MHz),
−164 dBm on the LF port (DS §5.5.5). `rf` is the frequency the `Frf` registers denote. -/
def rssiOffset127x (c : Chip) (frf : Nat) : Int :=
  match c with
  | .sx1272 => -139
  | _ => if frf * 32000000 > 525000000 * 2 ^ 19 then -157 else -164

/-- SX127x packet status (DS §5.5.5, and the reference driver SWL2001 `sx127x_get_lora_pkt_status`,
which applies the 16/15 slope in both SNR branches — adopted here):
`SNR = int8(PacketSnr)/4`;  `RSSI = offset + 16/15·PacketRssi (+ SNR if SNR < 0)`.
Agreement within 1 dB, stated in sixtieths of a dB to stay in ℤ. -/
def PktOk127x (c : Chip) (frf rssiRaw snrRaw : Nat) (rssi snr : Int) : Bool :=
  decide ((4 * snr - s8 snrRaw).natAbs ≤ 4) &&
  decide ((60 * rssi - (60 * rssiOffset127x c frf + 64 * rssiRaw + (if s8 snrRaw < 0 then 15 * s8 snrRaw else 0))).natAbs ≤ 60)

/-- SX127x `RegRssiValue`: `offset + raw` dBm, exactly -/
def RssiOk127x (c : Chip) (frf raw : Nat) (rssi : Int) : Bool := rssi == rssiOffset127x c frf + raw

end Spec.Semtech
