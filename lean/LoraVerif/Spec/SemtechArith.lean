import LoraVerif.Spec.Airtime
/-!
Independent specification of the *arithmetic* the radio drivers must get right (C15, C17), written
from the Semtech datasheets (SX1261/2 DS rev 2.2, SX1276/7/8/9 DS rev 7, SX1272/73 DS rev 4,
LR1110 user manual) and the Semtech reference driver SWL2001 (`sx126x.c`, `sx127x.c`, `ral_defs.h`),
not from the Rust code.  Everything here is a *decoder*: it says what a chip that receives the
written bytes does with them.  Core-only (no Mathlib), so that the driver executable links.
-/
namespace Spec.Semtech

/-- The chip variants the drivers distinguish. `stm32wl` is the SX126x die in ST's package. -/
inductive Chip where
  | sx1261 | sx1262 | stm32wl | sx1272 | sx1276 | lr1110
  deriving DecidableEq, Repr, Inhabited

def Chip.all : List Chip := [.sx1261, .sx1262, .stm32wl, .sx1272, .sx1276, .lr1110]

def Chip.name : Chip → String
  | .sx1261 => "sx1261" | .sx1262 => "sx1262" | .stm32wl => "stm32wl"
  | .sx1272 => "sx1272" | .sx1276 => "sx1276" | .lr1110 => "lr1110"

/-! ## C15 — which (SF, BW) pairs a chip offers, and the LDRO rule -/

/-- Spreading factors of the LoRa modem: SX127x offers SF6..12, SX126x and LR11xx SF5..12. -/
def supportsSf (c : Chip) (sf : Int) : Bool :=
  match c with
  | .sx1272 | .sx1276 => decide (6 ≤ sf ∧ sf ≤ 12)
  | _ => decide (5 ≤ sf ∧ sf ≤ 12)

/-- Bandwidths in Hz: SX1272 has 125/250/500 kHz only; LR11xx lacks 7.81 kHz; SX1276 and SX126x
have all ten. -/
def supportsBw (c : Chip) (hz : Int) : Bool :=
  let ten := hz = 7810 ∨ hz = 10420 ∨ hz = 15630 ∨ hz = 20830 ∨ hz = 31250 ∨ hz = 41670 ∨
             hz = 62500 ∨ hz = 125000 ∨ hz = 250000 ∨ hz = 500000
  match c with
  | .sx1272 => decide (hz = 125000 ∨ hz = 250000 ∨ hz = 500000)
  | .lr1110 => decide (ten ∧ hz ≠ 7810)
  | _ => decide ten

/-- 250 kHz and 500 kHz are not offered in the lowest band (SX1276 DS table 7: "not supported in
band 3", 137–175 MHz).  There is no band between 175 and 410 MHz on any of the chips, so the
boundary is placed at 400 MHz. -/
def supportsAt (hz rf : Int) : Bool := !(decide (hz = 250000 ∨ hz = 500000) && decide (rf < 400000000))

def supports (c : Chip) (sf hz rf : Int) : Bool := supportsSf c sf && supportsBw c hz && supportsAt hz rf

/-- The datasheets' rule (SX1276 DS §4.1.1.6, SX1261/2 DS §6.1.1.4): LowDataRateOptimize is
mandated when the symbol time reaches 16.38 ms. Re-exported from `Spec.Airtime`. -/
abbrev ldro (sf hz : Int) : Bool := Spec.Airtime.ldro sf hz

/-- `ral_compute_lora_ldro` of SWL2001 (`ral_defs.h`), transcribed literally: a table per bandwidth. -/
def ralLdro (sf hz : Int) : Bool :=
  if hz = 500000 then false
  else if hz = 250000 then decide (sf = 12)
  else if hz = 125000 then decide (sf = 12 ∨ sf = 11)
  else if hz = 62500 then decide (sf = 12 ∨ sf = 11 ∨ sf = 10)
  else if hz = 41670 then decide (sf = 12 ∨ sf = 11 ∨ sf = 10 ∨ sf = 9)
  else if hz = 31250 ∨ hz = 20830 ∨ hz = 15630 ∨ hz = 10420 ∨ hz = 7810 then true
  else false

/-- Where the chip finds the LDRO flag in what the driver programs.
* SX126x `SetModulationParams` (0x8B) parameter 4, LR11xx `SetModulationParam` parameter 4: the byte itself;
* SX1276 `RegModemConfig3` (0x26) bit 3;
* SX1272 `RegModemConfig1` (0x1D) bit 0. -/
def ldroBit (c : Chip) (v : Nat) : Nat :=
  match c with
  | .sx1276 => (v >>> 3) &&& 1
  | .sx1272 => v &&& 1
  | _ => v

end Spec.Semtech
