/-!
# Specification for C18: what fetching a received packet must deliver

Written from the property text and the chip datasheets, not from the drivers:

* the chip reports a length `n` (explicit header: the received length; implicit header: the length
  the receiver was configured with) and a start position `off` in its 256-byte packet memory, whose
  address counter wraps modulo 256;
* SX126x only: the status byte that precedes the answer carries a *command status* in bits 3:1;
  values 3 (timeout), 4 (processing error) and 5 (execution failure) mean the answer is not valid
  (SX1261/2 datasheet table 13-76) — the fetch must then fail;
* if `n` exceeds the caller's buffer the fetch must fail (nothing may be written);
* otherwise the caller observes `n` and a buffer that is, index by index, the chip memory at
  `off+i mod 256` for `i < n` and its old content for `i ≥ n`.
-/
namespace Spec.RxFetch

def statusIsError (status : Nat) : Bool :=
  let cmdStatus := (status / 2) % 8
  cmdStatus == 3 || cmdStatus == 4 || cmdStatus == 5

inductive Verdict where
  | fetched (n : Nat) (buf : List UInt8)
  | refusedStatus (status : Nat)
  | refusedTooLong (n size : Nat)
  deriving Repr

/-- the buffer the caller must see, described index by index -/
def image (mem : Nat → UInt8) (off n : Nat) (buf : List UInt8) : List UInt8 :=
  buf.zipIdx.map (fun (b, i) => if i < n then mem ((off + i) % 256) else b)

/-- `status = none`: the chip has no status byte (SX127x) -/
def fetch (mem : Nat → UInt8) (status : Option Nat) (n off : Nat) (buf : List UInt8) : Verdict :=
  match status with
  | some s => if statusIsError s then .refusedStatus s else
      if n > buf.length then .refusedTooLong n buf.length else .fetched n (image mem off n buf)
  | none =>
      if n > buf.length then .refusedTooLong n buf.length else .fetched n (image mem off n buf)

end Spec.RxFetch
