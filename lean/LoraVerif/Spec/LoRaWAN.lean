import LoraVerif.Model.CodecBase
/-!
# LoRaWAN 1.0.x frame layout and cryptography — independent specification

Written from the LoRaWAN 1.0.x specification text (§4 MAC frame formats, §4.3.3 payload encryption,
§4.4 MIC, §6.2 OTAA join), *not* from the Rust code: frames are values assembled by list
concatenation of little-endian fields, no buffers, no in-place updates, no loops with counters.
Everything is parameterised by an abstract `Cipher` (`aes128_encrypt`, `aes128_decrypt`,
`aes128_cmac`), so the theorems of `Props/C01`, `Props/C02` hold for any cipher.

Conventions chosen where the specification text leaves a choice (all listed in the evidence):
* one-octet fields that the text defines as a length or index (`len(msg)` in B0, `i` in A_i) carry
  the value modulo 256 — frames above 255 octets cannot be transmitted at all;
* when several reasons to refuse a description apply, the reported kind follows the order
  FOpts too long, (FOpts with port 0 | missing key), buffer too small.
-/
namespace Lora.Spec

/-! ## Octet strings -/

/-- little-endian encoding of `v` on `n` octets (least significant octet first; higher bits dropped) -/
def le : Nat → Nat → Bytes
  | 0, _ => []
  | n + 1, v => UInt8.ofNat (v % 256) :: le n (v / 256)

/-- value of a little-endian octet string -/
def fromLe : Bytes → Nat
  | [] => 0
  | b :: bs => b.toNat + 256 * fromLe bs

def xorBytes (a b : Bytes) : Bytes := List.zipWith (· ^^^ ·) a b

/-- `2^n` if the flag is set -/
def bit (b : Bool) (n : Nat) : Nat := if b then 2 ^ n else 0

/-! ## MHDR (§4.2): MType (bits 7..5) | RFU (4..2) | Major (1..0); Major 0 = LoRaWAN R1 -/

def mtypeCode : FType → Nat
  | .unconfirmedUp => 2 | .unconfirmedDown => 3 | .confirmedUp => 4 | .confirmedDown => 5

def mhdrData (t : FType) : UInt8 := UInt8.ofNat (mtypeCode t * 32)
def mhdrJoinRequest : UInt8 := 0x00   -- MType 000
def mhdrJoinAccept : UInt8 := 0x20    -- MType 001

/-- the `Dir` field of B0 / A_i: 0 for uplink frames, 1 for downlink frames -/
def dirOf (t : FType) : UInt8 := if t.isUplink then 0 else 1

/-! ## Data frames (§4.3) -/

/-- Everything a data frame says.  `body` is FPort with FRMPayload: present together or not at all.
All four flags are part of a description; which of them exist on the wire depends on the direction. -/
structure DataDesc where
  ftype : FType
  devAddr : UInt32
  adr : Bool
  adrAckReq : Bool
  ack : Bool
  fPending : Bool
  /-- the full 32-bit frame counter -/
  fcnt : UInt32
  fopts : Bytes
  body : Option (UInt8 × Bytes)
  deriving DecidableEq, Repr

/-- FCtrl (§4.3.1.1).  Uplink: ADR|ADRACKReq|ACK|RFU(ClassB)|FOptsLen; downlink: ADR|RFU|ACK|FPending|FOptsLen. -/
def fctrlOf (uplink adr adrAckReq ack fPending : Bool) (foptsLen : Nat) : UInt8 :=
  UInt8.ofNat (bit adr 7 + bit (uplink && adrAckReq) 6 + bit ack 5 + bit (!uplink && fPending) 4 + foptsLen)

def fctrl (d : DataDesc) : UInt8 :=
  fctrlOf d.ftype.isUplink d.adr d.adrAckReq d.ack d.fPending d.fopts.length

/-- FHDR = DevAddr (4, LE) | FCtrl | FCnt (2, LE: the 16 least significant bits of the counter) | FOpts -/
def fhdr (d : DataDesc) : Bytes :=
  le 4 d.devAddr.toNat ++ [fctrl d] ++ le 2 (d.fcnt.toNat % 65536) ++ d.fopts

/-- B0 (§4.4) = 0x49 | 4×0x00 | Dir | DevAddr | FCntUp/Down (32 bit) | 0x00 | len(msg) -/
def blockB0 (dir : UInt8) (devAddr fcnt : UInt32) (len : Nat) : Bytes :=
  [0x49, 0, 0, 0, 0, dir] ++ le 4 devAddr.toNat ++ le 4 fcnt.toNat ++ [0, UInt8.ofNat len]

/-- A_i (§4.3.3.1) = 0x01 | 4×0x00 | Dir | DevAddr | FCnt (32 bit) | 0x00 | i -/
def blockA (dir : UInt8) (devAddr fcnt : UInt32) (i : Nat) : Block :=
  Block.ofPadded ([0x01, 0, 0, 0, 0, dir] ++ le 4 devAddr.toNat ++ le 4 fcnt.toNat ++ [0, UInt8.ofNat i])

/-- MIC (§4.4) = aes128_cmac(NwkSKey, B0 | msg)[0..3] where msg = MHDR | FHDR | FPort | FRMPayload -/
def dataMic (c : Cipher) (nwkSKey : Key) (dir : UInt8) (devAddr fcnt : UInt32) (msg : Bytes) : Bytes :=
  (c.cmac nwkSKey (blockB0 dir devAddr fcnt msg.length ++ msg)).toList.take 4

/-- S = S_1 | … | S_k with S_i = aes128_encrypt(K, A_i) -/
def keystream (c : Cipher) (k : Key) (dir : UInt8) (devAddr fcnt : UInt32) (blocks : Nat) : Bytes :=
  (List.range blocks).flatMap fun i => (c.enc k (blockA dir devAddr fcnt (i + 1))).toList

/-- (pld | pad16) xor S, truncated to the first len(pld) octets; k = ceil(len(pld)/16).
The same function encrypts and decrypts. -/
def cryptPayload (c : Cipher) (k : Key) (dir : UInt8) (devAddr fcnt : UInt32) (pld : Bytes) : Bytes :=
  xorBytes pld (keystream c k dir devAddr fcnt ((pld.length + 15) / 16))

/-- The key that protects FRMPayload (§4.3.3): NwkSKey iff FPort = 0, AppSKey otherwise; and the two
refusals that concern the payload.  (Without a body nothing is encrypted; NwkSKey is returned.) -/
def payloadKey (nwkSKey : Key) (appSKey : Option Key) (d : DataDesc) : Except Err Key :=
  match d.body with
  | none => .ok nwkSKey
  | some (port, _) =>
    if port = 0 then
      -- MAC commands are either in FOpts or, with FPort 0, in FRMPayload; never both (§4.3.1.6)
      if d.fopts.length ≠ 0 then .error .fOptsWithFPortZero else .ok nwkSKey
    else
      match appSKey with
      | some k => .ok k
      | none => .error .missingKey

/-- msg = MHDR | FHDR | FPort | FRMPayload (encrypted) -/
def dataMsg (c : Cipher) (key : Key) (d : DataDesc) : Bytes :=
  mhdrData d.ftype :: (fhdr d ++
    match d.body with
    | none => []
    | some (port, pld) => port :: cryptPayload c key (dirOf d.ftype) d.devAddr d.fcnt pld)

/-- **The data-frame encoder.**  PHYPayload = msg | MIC, or a refusal. `bufLen` is the room the
caller offers. -/
def encodeData (c : Cipher) (nwkSKey : Key) (appSKey : Option Key) (d : DataDesc) (bufLen : Nat) :
    Except Err Bytes :=
  if d.fopts.length > 15 then .error .fOptsTooLong else
  match payloadKey nwkSKey appSKey d with
  | .error e => .error e
  | .ok key =>
    let msg := dataMsg c key d
    if bufLen < msg.length + 4 then .error .bufferTooShort
    else .ok (msg ++ dataMic c nwkSKey (dirOf d.ftype) d.devAddr d.fcnt msg)

/-- the descriptions the specification forbids, as a proposition -/
def DataForbidden (appSKey : Option Key) (d : DataDesc) (bufLen : Nat) : Prop :=
  d.fopts.length > 15
  ∨ (∃ pld, d.body = some (0, pld) ∧ d.fopts ≠ [])
  ∨ (∃ port pld, d.body = some (port, pld) ∧ port ≠ 0 ∧ appSKey = none)
  ∨ bufLen < 1 + (7 + d.fopts.length) + (match d.body with | none => 0 | some (_, pld) => 1 + pld.length) + 4

/-! ## Join procedure (§6.2) -/

/-- JoinRequest = MHDR | AppEUI (8, LE) | DevEUI (8, LE) | DevNonce (2, LE) | MIC,
MIC = aes128_cmac(AppKey, MHDR | AppEUI | DevEUI | DevNonce)[0..3] -/
structure JoinRequestDesc where
  joinEui : UInt64
  devEui : UInt64
  devNonce : UInt16
  deriving DecidableEq, Repr

def joinMic (c : Cipher) (appKey : Key) (msg : Bytes) : Bytes := (c.cmac appKey msg).toList.take 4

def joinRequestMsg (d : JoinRequestDesc) : Bytes :=
  mhdrJoinRequest :: (le 8 d.joinEui.toNat ++ le 8 d.devEui.toNat ++ le 2 d.devNonce.toNat)

def encodeJoinRequest (c : Cipher) (appKey : Key) (d : JoinRequestDesc) (bufLen : Nat) : Except Err Bytes :=
  let msg := joinRequestMsg d
  if bufLen < msg.length + 4 then .error .bufferTooShort else .ok (msg ++ joinMic c appKey msg)

/-- CFList (16 octets).  Type 0: five 24-bit frequencies (units of 100 Hz) | CFListType 0.
Type 1 (fixed channel plans): 72 channel-mask bits | RFU zeros | CFListType 1. -/
inductive CfListDesc where
  | dynamic (f0 f1 f2 f3 f4 : Nat)      -- each taken modulo 2^24
  | fixed (mask : Nat)                  -- 72 mask bits: bit i = channel i
  deriving DecidableEq, Repr

def encodeCfList : CfListDesc → Bytes
  | .dynamic f0 f1 f2 f3 f4 => le 3 f0 ++ le 3 f1 ++ le 3 f2 ++ le 3 f3 ++ le 3 f4 ++ [0]
  | .fixed mask => le 9 mask ++ [0, 0, 0, 0, 0, 0] ++ [1]

/-- JoinAccept plaintext = MHDR | AppNonce (3) | NetID (3) | DevAddr (4) | DLSettings (1) | RxDelay (1) | [CFList (16)] -/
structure JoinAcceptDesc where
  joinNonce : Nat        -- 24 bit
  netId : Nat            -- 24 bit
  devAddr : UInt32
  /-- RFU | RX1DRoffset (6..4) | RX2DataRate (3..0), raw -/
  dlSettings : UInt8
  /-- Del, 0..15; RFU bits 7..4 are transmitted as zero -/
  rxDelay : UInt8
  cfList : Option CfListDesc
  deriving DecidableEq, Repr

def joinAcceptMsg (d : JoinAcceptDesc) : Bytes :=
  mhdrJoinAccept :: (le 3 d.joinNonce ++ le 3 d.netId ++ le 4 d.devAddr.toNat ++ [d.dlSettings, UInt8.ofNat (d.rxDelay.toNat % 16)]
    ++ match d.cfList with | none => [] | some l => encodeCfList l)

/-- ECB over whole 16-octet blocks with the given block function; a trailing partial block is kept
as it is (there is none in a well-formed JoinAccept) -/
def ecb (f : Block → Block) : Nat → Bytes → Bytes
  | 0, bs => bs
  | fuel + 1, bs =>
    match Block.ofList? (bs.take 16) with
    | some b => (f b).toList ++ ecb f fuel (bs.drop 16)
    | none => bs

/-- JoinAccept = MHDR | aes128_decrypt(AppKey, body | MIC), MIC = aes128_cmac(AppKey, MHDR | body)[0..3] -/
def encodeJoinAccept (c : Cipher) (appKey : Key) (d : JoinAcceptDesc) (bufLen : Nat) : Except Err Bytes :=
  let msg := joinAcceptMsg d
  if bufLen < msg.length + 4 then .error .bufferTooShort
  else
    let clear := msg.drop 1 ++ joinMic c appKey msg
    .ok (mhdrJoinAccept :: ecb (c.dec appKey) (clear.length / 16) clear)

/-- NwkSKey = aes128_encrypt(AppKey, 0x01 | AppNonce | NetID | DevNonce | pad16); AppSKey with 0x02 -/
def sessionKey (c : Cipher) (appKey : Key) (tag : UInt8) (joinNonce netId devNonce : Nat) : Key :=
  c.enc appKey (Block.ofPadded (tag :: (le 3 joinNonce ++ le 3 netId ++ le 2 devNonce)))

/-! ## Receiving (§4: the same layout read backwards)

A receiver is given an octet string.  Structure first (no keys needed): which message type, and for a
data frame the header fields, FOpts, FPort, FRMPayload and MIC as laid out in §4.  Refusals:
fewer than 12 octets (MHDR + minimal FHDR + MIC), Major ≠ 0, MType not a data type, FOptsLen larger
than what lies between FCnt and the MIC. -/

def mtypeOfCode : Nat → Option FType
  | 2 => some .unconfirmedUp | 3 => some .unconfirmedDown | 4 => some .confirmedUp | 5 => some .confirmedDown
  | _ => none

/-- bit `n` of an octet -/
def testBit (x : UInt8) (n : Nat) : Bool := x.toNat / 2 ^ n % 2 = 1

/-- what a data frame says on the wire (FRMPayload still encrypted) -/
structure DataView where
  ftype : FType
  uplink : Bool
  confirmed : Bool
  devAddr : UInt32
  fctrl : UInt8
  adr : Bool
  /-- exists on uplinks only -/
  adrAckReq : Bool
  ack : Bool
  /-- exists on downlinks only -/
  fPending : Bool
  foptsLen : Nat
  /-- the 16 bits of the counter that are transmitted -/
  fcnt16 : UInt16
  fopts : Bytes
  port : Option UInt8
  frm : Bytes
  mic : Bytes
  deriving DecidableEq, Repr

def decodeData (b : Bytes) : Except Err DataView :=
  if b.length < 12 then .error .tooShort else
  match b with
  | mhdr :: a0 :: a1 :: a2 :: a3 :: fc :: c0 :: c1 :: tail =>
    -- tail = FOpts | [FPort | FRMPayload] | MIC
    if mhdr.toNat % 4 ≠ 0 then .error .unsupportedMajorVersion else
    match mtypeOfCode (mhdr.toNat / 32) with
    | none => .error .notADataFrame
    | some ft =>
      let foptsLen := fc.toNat % 16
      let n := tail.length - 4
      if foptsLen > n then .error .truncatedFhdr else
      let body := (tail.take n).drop foptsLen
      .ok { ftype := ft, uplink := ft.isUplink, confirmed := ft.isConfirmed
            devAddr := UInt32.ofNat (fromLe [a0, a1, a2, a3])
            fctrl := fc
            adr := testBit fc 7
            adrAckReq := ft.isUplink && testBit fc 6
            ack := testBit fc 5
            fPending := !ft.isUplink && testBit fc 4
            foptsLen := foptsLen
            fcnt16 := UInt16.ofNat (fromLe [c0, c1])
            fopts := tail.take foptsLen
            port := body.head?
            frm := body.drop 1
            mic := tail.drop n }
  | _ => .error .tooShort

/-- msg of a received frame: everything but the last four octets -/
def msgOf (b : Bytes) : Bytes := b.take (b.length - 4)

/-- a received data frame is authentic under NwkSKey and the receiver's 32-bit counter iff the MIC
computed over B0 | msg, with the frame's own direction, equals the transmitted MIC -/
def dataAuthentic (c : Cipher) (nwkSKey : Key) (fcnt : UInt32) (b : Bytes) (v : DataView) : Bool :=
  dataMic c nwkSKey (dirOf v.ftype) v.devAddr fcnt (msgOf b) == v.mic

/-- the counter a receiver decrypts with: upper 16 bits from its own 32-bit counter, lower 16 bits
from the wire -/
def fullFcnt (fcnt : UInt32) (wire : UInt16) : UInt32 := UInt32.ofNat (fcnt.toNat / 65536 * 65536 + wire.toNat)

/-- the key protecting a received FRMPayload, if the receiver holds it -/
def receiveKey (nwkSKey appSKey : Option Key) (v : DataView) : Option Key :=
  match v.port with
  | some port => if port = 0 then nwkSKey else appSKey
  | none => nwkSKey

/-- plaintext FRMPayload of a received frame (the view, and the plaintext) -/
def decryptData (c : Cipher) (nwkSKey appSKey : Option Key) (fcnt : UInt32) (b : Bytes) : Except Err (DataView × Bytes) :=
  match decodeData b with
  | .error e => .error e
  | .ok v =>
    if v.frm.length = 0 then .ok (v, [])
    else match receiveKey nwkSKey appSKey v with
      | none => .error .missingKey
      | some k => .ok (v, cryptPayload c k (dirOf v.ftype) v.devAddr (fullFcnt fcnt v.fcnt16) v.frm)

/-- the octet string after the FRMPayload has been replaced by `plain` -/
def withPayload (b : Bytes) (v : DataView) (plain : Bytes) : Bytes :=
  b.take (b.length - 4 - v.frm.length) ++ plain ++ v.mic

structure JoinRequestView where
  joinEui : UInt64
  devEui : UInt64
  devNonce : UInt16
  mic : Bytes
  deriving DecidableEq, Repr

/-- JoinRequest: exactly 23 octets -/
def decodeJoinRequest (b : Bytes) : Except Err JoinRequestView :=
  match b with
  | [] => .error .tooShort
  | mhdr :: rest =>
    if mhdr.toNat % 4 ≠ 0 then .error .unsupportedMajorVersion
    else if mhdr.toNat / 32 ≠ 0 then .error .unexpectedMessageType
    else if rest.length ≠ 22 then .error .invalidLength
    else .ok { joinEui := UInt64.ofNat (fromLe (rest.take 8)), devEui := UInt64.ofNat (fromLe ((rest.drop 8).take 8)),
               devNonce := UInt16.ofNat (fromLe ((rest.drop 16).take 2)), mic := rest.drop 18 }

def joinRequestAuthentic (c : Cipher) (appKey : Key) (b : Bytes) (v : JoinRequestView) : Bool :=
  joinMic c appKey (msgOf b) == v.mic

/-- an (encrypted) JoinAccept: MHDR | 16 or 32 octets -/
def checkJoinAccept (b : Bytes) : Except Err Unit :=
  match b with
  | [] => .error .tooShort
  | mhdr :: rest =>
    if mhdr.toNat % 4 ≠ 0 then .error .unsupportedMajorVersion
    else if mhdr.toNat / 32 ≠ 1 then .error .unexpectedMessageType
    else if rest.length ≠ 16 ∧ rest.length ≠ 32 then .error .invalidLength
    else .ok ()

inductive CfListView where
  | dynamic (freqs : List Nat)     -- five 24-bit values (units of 100 Hz)
  | fixed (mask : Nat)             -- 72 mask bits
  deriving DecidableEq, Repr

structure JoinAcceptView where
  joinNonce : Nat
  netId : Nat
  devAddr : UInt32
  dlSettings : UInt8
  rxDelay : UInt8
  /-- `none` also when the CFListType octet is RFU (≥ 2) -/
  cfList : Option CfListView
  mic : Bytes
  deriving DecidableEq, Repr

/-- the device decrypts a JoinAccept with aes128_encrypt in ECB mode (§6.2.5) -/
def joinAcceptClear (c : Cipher) (appKey : Key) (b : Bytes) : Bytes :=
  match b with
  | [] => []
  | mhdr :: rest => mhdr :: ecb (c.enc appKey) (rest.length / 16) rest

def decodeCfList (l : Bytes) : Option CfListView :=
  -- 16 octets: 15 of content, then CFListType
  match l.drop 15 with
  | [t] =>
    if t = 0 then some (.dynamic [fromLe (l.take 3), fromLe ((l.drop 3).take 3), fromLe ((l.drop 6).take 3),
                                   fromLe ((l.drop 9).take 3), fromLe ((l.drop 12).take 3)])
    else if t = 1 then some (.fixed (fromLe (l.take 9)))
    else none
  | _ => none

/-- fields of a decrypted JoinAccept (`clear` = MHDR | plaintext) -/
def joinAcceptView (clear : Bytes) : JoinAcceptView :=
  let p := clear.drop 1
  { joinNonce := fromLe (p.take 3), netId := fromLe ((p.drop 3).take 3)
    devAddr := UInt32.ofNat (fromLe ((p.drop 6).take 4))
    dlSettings := match p.drop 10 with | x :: _ => x | [] => 0
    rxDelay := match p.drop 11 with | x :: _ => UInt8.ofNat (x.toNat % 16) | [] => 0
    cfList := if p.length = 32 then decodeCfList ((p.drop 12).take 16) else none
    mic := p.drop (p.length - 4) }

/-- decrypt, read, authenticate -/
def decodeJoinAccept (c : Cipher) (appKey : Key) (b : Bytes) : Except Err (Bytes × JoinAcceptView × Bool) :=
  match checkJoinAccept b with
  | .error e => .error e
  | .ok () =>
    let clear := joinAcceptClear c appKey b
    let v := joinAcceptView clear
    .ok (clear, v, joinMic c appKey (msgOf clear) == v.mic)

inductive Decoded where
  | joinRequest (v : JoinRequestView)
  | joinAccept (bytes : Bytes)
  | data (v : DataView)
  deriving DecidableEq, Repr

/-- classification by MHDR, then the type's own structure -/
def decode (b : Bytes) : Except Err Decoded :=
  match b with
  | [] => .error .tooShort
  | mhdr :: _ =>
    if mhdr.toNat % 4 ≠ 0 then .error .unsupportedMajorVersion
    else match mhdr.toNat / 32 with
      | 0 => (decodeJoinRequest b).map .joinRequest
      | 1 => (checkJoinAccept b).map fun _ => .joinAccept b
      | 6 | 7 => .error .unsupportedMessageType      -- RFU, Proprietary
      | _ => (decodeData b).map .data

/-- the description a built frame must decode to: the flag that does not exist in the frame's
direction (ADRACKReq on downlinks, FPending on uplinks) reads as false -/
def DataDesc.norm (d : DataDesc) : DataDesc :=
  { d with adrAckReq := d.ftype.isUplink && d.adrAckReq, fPending := !d.ftype.isUplink && d.fPending }

/-- the description a decoded-and-decrypted frame denotes -/
def DataView.toDesc (v : DataView) (fcnt : UInt32) (plain : Bytes) : DataDesc :=
  { ftype := v.ftype, devAddr := v.devAddr, adr := v.adr, adrAckReq := v.adrAckReq, ack := v.ack, fPending := v.fPending
    fcnt := fcnt, fopts := v.fopts, body := v.port.map fun p => (p, plain) }

end Lora.Spec
