/-
Independent specification of LoRa time on air (Semtech AN1200.13 / SX127x datasheet §4.1.1.7),
written over ℤ with an exact ceiling, not in the shape the Rust code uses.
Import-free.
-/
namespace Spec.Airtime

/-- exact ceiling of `a / d` for `d > 0`, via Euclidean (floor) division -/
def ceilDiv (a d : Int) : Int := -((-a) / d)

/-- symbol time in µs, truncated to the microsecond ("as documented") -/
def tsym (sf hz : Int) : Int := (2 ^ sf.toNat * 1000000) / hz

/-- number of payload symbols: `8 + max(ceil((8PL − 4SF + 28 + 16 − 20IH) / (4(SF − 2DE)))·(CR+4), 0)` -/
def payloadSymbols (sf : Int) (de ih : Bool) (crDenom len : Int) : Int :=
  let d := 4 * (sf - 2 * (if de then 1 else 0))
  let num := 8 * len - 4 * sf + 28 + 16 - 20 * (if ih then 1 else 0)
  8 + max 0 (ceilDiv num d * crDenom)

/-- `r` is the time on air in µs: `⌊(preamble + 4.25 + n)·tsym⌋`, characterised rather than computed;
without preamble: `n·tsym`. -/
def IsToa (sf hz : Int) (de ih : Bool) (crDenom len : Int) (preamble : Option Int) (r : Int) : Prop :=
  let n := payloadSymbols sf de ih crDenom len
  match preamble with
  | none => r = n * tsym sf hz
  | some p => 4 * r ≤ (4 * p + 17 + 4 * n) * tsym sf hz ∧ (4 * p + 17 + 4 * n) * tsym sf hz < 4 * (r + 1)

/-- executable form used by the driver -/
def toa (sf hz : Int) (de ih : Bool) (crDenom len : Int) (preamble : Option Int) : Int :=
  let n := payloadSymbols sf de ih crDenom len
  match preamble with
  | none => n * tsym sf hz
  | some p => ((4 * p + 17 + 4 * n) * tsym sf hz) / 4

/-- LDRO rule of the datasheets: on exactly when the symbol time is at least 16.38 ms,
stated without truncation: `2^SF · 10^6 ≥ 16380 · BW`, for a bandwidth given in whole hertz. -/
def ldro (sf hz : Int) : Bool := decide (2 ^ sf.toNat * 1000000 ≥ 16380 * hz)

/-! ## The bandwidths as the chips realise them

The ten LoRa bandwidth settings are fractions of the 32 MHz reference: 500 kHz / 2^k
(500, 250, 125, 62.5, 31.25, 15.625, 7.8125 kHz) and 125 kHz / 3, / 6, / 12 (41.667, 20.833,
10.417 kHz).  The datasheets print them rounded (7.81, 10.42, 15.63, 20.83, 41.67 kHz; SX127x: 7.8,
10.4, 15.6, 20.8, 41.7); Semtech's own drivers (`sx126x_get_lora_bw_in_hz`, `sx127x_get_lora_bw_in_hz`,
`lr11xx_radio_get_lora_bw_in_hz` of SWL2001) return 7812, 10417, 15625, 20833, 31250, 41667, 62500 Hz.
A decision about the *symbol time* `2^SF / BW` is a decision about these physical values, not about a
rounded figure: this table is the specification's own and is NOT taken from the Rust code. -/

/-- The ten settings, by the kHz label of the datasheets. -/
inductive Bw where
  | k7 | k10 | k15 | k20 | k31 | k41 | k62 | k125 | k250 | k500
  deriving DecidableEq, Repr, Inhabited

def Bw.all : List Bw := [.k7, .k10, .k15, .k20, .k31, .k41, .k62, .k125, .k250, .k500]

/-- physical bandwidth in units of 1/6 Hz (so that 7812.5 Hz and 125000/3 Hz are integers) -/
def Bw.hz6 : Bw → Int
  | .k7 => 46875      -- 500 kHz / 64  = 7 812.5 Hz
  | .k10 => 62500     -- 125 kHz / 12  = 10 416.67 Hz
  | .k15 => 93750     -- 500 kHz / 32  = 15 625 Hz
  | .k20 => 125000    -- 125 kHz / 6   = 20 833.33 Hz
  | .k31 => 187500    -- 500 kHz / 16  = 31 250 Hz
  | .k41 => 250000    -- 125 kHz / 3   = 41 666.67 Hz
  | .k62 => 375000    -- 62 500 Hz
  | .k125 => 750000
  | .k250 => 1500000
  | .k500 => 3000000

/-- LDRO rule on the physical symbol time: `2^SF / (hz6 / 6) ≥ 16.38 ms`, i.e.
`2^SF · 600 000 ≥ 1638 · hz6` — exact, no rounding anywhere. -/
def ldroPhys (sf : Int) (b : Bw) : Bool := decide (2 ^ sf.toNat * 600000 ≥ 1638 * b.hz6)

end Spec.Airtime
