/-
Independent specification of LoRa time on air (Semtech AN1200.13 / SX127x datasheet §4.1.1.7),
written over ℤ with an exact ceiling, not in the shape the Rust code uses.
Import-free.
-/
namespace Spec.Airtime

/-- exact ceiling of `a / d` for `d > 0`, via Euclidean (floor) division -/
def ceilDiv (a d : Int) : Int := -((-a) / d)

/-- symbol time in µs, truncated to the microsecond ("as documented") -/
def tsym (sf hz : Int) : Int := (2 ^ sf.toNat * 1000000) / hz

/-- number of payload symbols: `8 + max(ceil((8PL − 4SF + 28 + 16 − 20IH) / (4(SF − 2DE)))·(CR+4), 0)` -/
def payloadSymbols (sf : Int) (de ih : Bool) (crDenom len : Int) : Int :=
  let d := 4 * (sf - 2 * (if de then 1 else 0))
  let num := 8 * len - 4 * sf + 28 + 16 - 20 * (if ih then 1 else 0)
  8 + max 0 (ceilDiv num d * crDenom)

/-- `r` is the time on air in µs: `⌊(preamble + 4.25 + n)·tsym⌋`, characterised rather than computed;
without preamble: `n·tsym`. -/
def IsToa (sf hz : Int) (de ih : Bool) (crDenom len : Int) (preamble : Option Int) (r : Int) : Prop :=
  let n := payloadSymbols sf de ih crDenom len
  match preamble with
  | none => r = n * tsym sf hz
  | some p => 4 * r ≤ (4 * p + 17 + 4 * n) * tsym sf hz ∧ (4 * p + 17 + 4 * n) * tsym sf hz < 4 * (r + 1)

/-- executable form used by the driver -/
def toa (sf hz : Int) (de ih : Bool) (crDenom len : Int) (preamble : Option Int) : Int :=
  let n := payloadSymbols sf de ih crDenom len
  match preamble with
  | none => n * tsym sf hz
  | some p => ((4 * p + 17 + 4 * n) * tsym sf hz) / 4

/-- LDRO rule of the datasheets: on exactly when the symbol time is at least 16.38 ms,
stated without truncation: `2^SF · 10^6 ≥ 16380 · BW`. -/
def ldro (sf hz : Int) : Bool := decide (2 ^ sf.toNat * 1000000 ≥ 16380 * hz)

end Spec.Airtime
