/-!
Reference automaton for the uplink header bits and ADR back-off (LoRaWAN 1.0.x §4.3.1):
four fields — ACK owed, ADR on, uplinks since the last accepted downlink (ADR_ACK_CNT), data rate —
plus the session's device address.  Import-free.
-/
namespace Spec.Adr

structure Auto where
  ackOwed : Bool
  adrOn : Bool
  cnt : Nat
  dr : Nat
  deriving DecidableEq, Repr

def adrAckLimit : Nat := 64
def adrAckDelay : Nat := 32

/-- header bits of the next uplink: (ACK, ADR, ADRACKReq) -/
def Auto.header (a : Auto) (lowerExists : Nat → Bool) : Bool × Bool × Bool :=
  (a.ackOwed, a.adrOn, a.adrOn && decide (a.cnt ≥ adrAckLimit) && lowerExists a.dr)

/-- the ACK is sent once -/
def Auto.afterSend (a : Auto) : Auto := { a with ackOwed := false }

/-- an uplink completed without an accepted downlink -/
def Auto.timeout (a : Auto) (nextLower : Nat → Option Nat) : Auto :=
  if a.adrOn then
    let c := min (a.cnt + 1) 0xFFFFFFFF
    let dr := if c ≥ adrAckLimit + adrAckDelay ∧ (c - adrAckLimit) % adrAckDelay = 0 then
        (match nextLower a.dr with | some d => d | none => a.dr)
      else a.dr
    { a with cnt := c, dr := dr }
  else a

/-- a downlink was accepted -/
def Auto.accept (a : Auto) (confirmed : Bool) : Auto :=
  { a with cnt := 0, ackOwed := a.ackOwed || confirmed }

def Auto.setAdr (a : Auto) (on : Bool) : Auto :=
  { a with adrOn := on, cnt := if on then a.cnt else 0 }

def Auto.setDr (a : Auto) (dr : Nat) : Auto := { a with dr := dr }

end Spec.Adr
