import LoraVerif.Model.Codec
import LoraVerif.Spec.LoRaWAN
/-!
# What a Rust-side frame description *means* in the vocabulary of the specification

The Rust builders take wire-order byte arrays (`DevAddr([u8;4])`, `JoinEui([u8;8])`, …) and a
`Payload` enum; the specification speaks of integers and of an optional (FPort, FRMPayload) pair.
`toSpec` is the (total, injective on well-typed values) reading of the former as the latter: a
little-endian byte array denotes its positional value.  Both the theorems and the driver use these
functions, so what is proved is what is run.
-/
namespace Lora.Codec

def DataFrame.toSpec (d : DataFrame) : Spec.DataDesc :=
  { ftype := d.frameType
    devAddr := d.devAddr.value
    adr := d.adr, adrAckReq := d.adrAckReq, ack := d.ack, fPending := d.fPending
    fcnt := d.fcnt
    fopts := d.fOpts
    body := match d.payload with
      | .none => none
      | .data port _ bytes => some (port, bytes)
      | .macCommands cmds => some (0, cmds) }

def JoinRequest.toSpec (d : JoinRequest) : Spec.JoinRequestDesc :=
  { joinEui := UInt64.ofNat (leValue d.joinEui.toList)
    devEui := UInt64.ofNat (leValue d.devEui.toList)
    devNonce := UInt16.ofNat (leValue d.devNonce.toList) }

def CfList.toSpec : CfList → Spec.CfListDesc
  | .dynamicChannel f => .dynamic (leValue f[0].toList) (leValue f[1].toList) (leValue f[2].toList)
      (leValue f[3].toList) (leValue f[4].toList)
  | .fixedChannel m => .fixed (leValue m.toList)

def JoinAccept.toSpec (d : JoinAccept) : Spec.JoinAcceptDesc :=
  { joinNonce := leValue d.joinNonce.toList
    netId := leValue d.netId.toList
    devAddr := d.devAddr.value
    dlSettings := d.dlSettings
    rxDelay := d.rxDelay
    cfList := d.cFList.map CfList.toSpec }

/-- what the accessors of a parsed data frame say, in the vocabulary of the specification -/
def DataView.toSpec (v : DataView) : Spec.DataView :=
  { ftype := v.frameType, uplink := v.isUplink, confirmed := v.isConfirmed
    devAddr := UInt32.ofNat (leValue v.devAddr)
    fctrl := v.fctrlRaw, adr := v.adr, adrAckReq := v.adrAckReq, ack := v.ack, fPending := v.fPending
    foptsLen := v.fOptsLen, fcnt16 := v.fcnt, fopts := v.fOpts, port := v.fPort, frm := v.frm, mic := v.mic }

def JoinRequestView.toSpec (v : JoinRequestView) : Spec.JoinRequestView :=
  { joinEui := UInt64.ofNat (leValue v.joinEui), devEui := UInt64.ofNat (leValue v.devEui)
    devNonce := UInt16.ofNat (leValue v.devNonce), mic := v.mic }

def CfListView.toSpec : CfListView → Spec.CfListView
  | .dynamicChannel fs => .dynamic (fs.map leValue)
  | .fixedChannel m => .fixed (leValue m)

def JoinAcceptView.toSpec (v : JoinAcceptView) : Spec.JoinAcceptView :=
  { joinNonce := leValue v.joinNonce, netId := leValue v.netId, devAddr := UInt32.ofNat (leValue v.devAddr)
    dlSettings := v.dlSettings, rxDelay := v.rxDelay, cfList := v.cFList.map CfListView.toSpec, mic := v.mic }

end Lora.Codec
