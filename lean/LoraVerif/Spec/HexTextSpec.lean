/-!
# Specification of the text forms: MSB-first hexadecimal

An identifier or key of `n` octets is written as `2n` hexadecimal digits, most significant octet
first, most significant nibble of each octet first.  For the fields LoRaWAN transmits
little-endian (DevAddr, EUIs, nonces, NetID) the most significant octet is the LAST wire octet; keys
are octet strings written in order.  Parsing is the inverse (either letter case).  Import-free.
-/
namespace Spec.HexText

abbrev Bytes := List Nat

def nibbleChar (n : Nat) : Char := "0123456789abcdef".toList.getD n '?'

def nibbleVal? (c : Char) : Option Nat :=
  match "0123456789abcdef".toList.idxOf? c.toLower with
  | some i => some i
  | none => none

/-- octets, in the order given, two digits each -/
def msbFirst (octets : Bytes) : List Char := octets.flatMap (fun b => [nibbleChar (b / 16), nibbleChar (b % 16)])

/-- text of a little-endian wire field -/
def ofWireLe (wire : Bytes) : List Char := msbFirst wire.reverse
/-- text of a key -/
def ofKey (key : Bytes) : List Char := msbFirst key

def parseOctets : List Char → Option Bytes
  | [] => some []
  | [_] => none
  | a :: b :: rest =>
    match nibbleVal? a, nibbleVal? b, parseOctets rest with
    | some x, some y, some r => some ((16 * x + y) :: r)
    | _, _, _ => none

/-- exactly `n` octets, else nothing -/
def toKey (n : Nat) (s : List Char) : Option Bytes :=
  match parseOctets s with
  | some r => if r.length = n then some r else none
  | none => none

def toWireLe (n : Nat) (s : List Char) : Option Bytes := (toKey n s).map List.reverse

end Spec.HexText
