/-!
# Independent description of the LoRaWAN 1.0.x PHYPayload structure (what a parser must report)

From LoRaWAN 1.0.4 §4: `PHYPayload = MHDR | MACPayload | MIC(4)` (or Join-Request / Join-Accept),
`MHDR = MType[7:5] RFU[4:2] Major[1:0]`, `MACPayload = FHDR | FPort? | FRMPayload?`,
`FHDR = DevAddr(4) FCtrl(1) FCnt(2) FOpts(0..15)`, `FCtrl[3:0] = FOptsLen`;
Join-Request = `MHDR | JoinEUI(8) | DevEUI(8) | DevNonce(2) | MIC(4)` (23 octets);
Join-Accept = `MHDR | encrypted(JoinNonce(3) NetID(3) DevAddr(4) DLSettings(1) RxDelay(1) CFList(16)? MIC(4))`
(17 or 33 octets), CFList = five 3-octet frequencies + CFListType, or (type 1) ChMask0..4 (2 octets each,
 9 octets are kept by the crate) + RFU + CFListType.
The refusal names and their precedence are the crate's API (`parser::Error`), stated here as a decision
table per entry point.  Written as positional arithmetic on the octet string; import-free.
-/
namespace Spec.Frame

abbrev Bytes := List Nat

def mtype (mhdr : Nat) : Nat := mhdr / 32 % 8
def major (mhdr : Nat) : Nat := mhdr % 4
def sub (b : Bytes) (off n : Nat) : Bytes := (b.drop off).take n
def at_ (b : Bytes) (i : Nat) : Nat := b.getD i 0

/-- a structurally valid data frame, positions derived from FOptsLen and the total length -/
structure Data where
  mtype : Nat
  devAddr : Bytes
  fctrl : Nat
  fcnt : Nat
  fopts : Bytes
  fport : Option Nat
  /-- FRMPayload position -/
  frmOff : Nat
  frmLen : Nat
  mic : Bytes
  deriving Repr, DecidableEq

/-- the structural part shared by both data entry points (length, then FOptsLen against the length) -/
def dataBody (b : Bytes) : Except String Data :=
  let n := b.length
  let foptsLen := at_ b 5 % 16
  -- MHDR(1) + DevAddr(4) + FCtrl(1) + FCnt(2) + FOpts + MIC(4) must fit
  if 1 + 7 + foptsLen + 4 > n then .error "TruncatedFhdr"
  else
    let macRest := n - 4 - (8 + foptsLen)
    .ok { mtype := mtype (at_ b 0), devAddr := sub b 1 4, fctrl := at_ b 5, fcnt := at_ b 6 + 256 * at_ b 7,
          fopts := sub b 8 foptsLen,
          fport := if macRest = 0 then none else some (at_ b (8 + foptsLen)),
          frmOff := if macRest = 0 then 8 + foptsLen else 9 + foptsLen,
          frmLen := macRest - 1,
          mic := sub b (n - 4) 4 }

/-- `EncryptedDataPayload::parse` / `decrypt_in_place`: shortest data frame is 12 octets; then version; then type -/
def parseData (b : Bytes) : Except String Data :=
  if b.length < 12 then .error "TooShort"
  else if major (at_ b 0) ≠ 0 then .error "UnsupportedMajorVersion"
  else if mtype (at_ b 0) < 2 ∨ mtype (at_ b 0) > 5 then .error "NotADataFrame"
  else dataBody b

def checkJoin (b : Bytes) (mt : Nat) : Except String Unit :=
  if b.length = 0 then .error "TooShort"
  else if major (at_ b 0) ≠ 0 then .error "UnsupportedMajorVersion"
  else if mtype (at_ b 0) ≠ mt then .error "UnexpectedMessageType"
  else .ok ()

def parseJoinRequest (b : Bytes) : Except String Unit :=
  match checkJoin b 0 with
  | .error e => .error e
  | .ok () => if b.length = 23 then .ok () else .error "InvalidLength"

def parseJoinAccept (b : Bytes) : Except String Unit :=
  match checkJoin b 1 with
  | .error e => .error e
  | .ok () => if b.length = 17 ∨ b.length = 33 then .ok () else .error "InvalidLength"

/-- `parser::parse`: the classification -/
def classify (b : Bytes) : String :=
  if b.length = 0 then "ERR:TooShort"
  else if major (at_ b 0) ≠ 0 then "ERR:UnsupportedMajorVersion"
  else
    let mt := mtype (at_ b 0)
    if mt = 0 then (match parseJoinRequest b with | .ok () => "JR" | .error e => "ERR:" ++ e)
    else if mt = 1 then (match parseJoinAccept b with | .ok () => "JA" | .error e => "ERR:" ++ e)
    else if mt ≤ 5 then (match parseData b with | .ok _ => "DATA" | .error e => "ERR:" ++ e)
    else "ERR:UnsupportedMessageType"

/-- the device applies the block operation to every whole 16-octet block after the MHDR -/
def unwrapBlocks (op : Bytes → Bytes) : Nat → Bytes → Bytes
  | 0, d => d
  | k + 1, d => if d.length < 16 then d else op (d.take 16) ++ unwrapBlocks op k (d.drop 16)

inductive CfList where
  | absent
  | dynamic (freqs : List Bytes)
  | fixed (mask : Bytes)
  | rfu
  deriving Repr, DecidableEq

structure JoinAccept where
  joinNonce : Bytes
  netId : Bytes
  devAddr : Bytes
  dlSettings : Nat
  rxDelay : Nat
  cfList : CfList
  mic : Bytes
  deriving Repr, DecidableEq

/-- fields of a decrypted Join-Accept (`p` = the frame after the device's block operation) -/
def joinAcceptFields (p : Bytes) : JoinAccept :=
  let cf := if p.length = 17 then CfList.absent else
    let c := sub p 13 16
    if at_ c 15 = 0 then .dynamic [sub c 0 3, sub c 3 3, sub c 6 3, sub c 9 3, sub c 12 3]
    else if at_ c 15 = 1 then .fixed (sub c 0 9)
    else .rfu
  { joinNonce := sub p 1 3, netId := sub p 4 3, devAddr := sub p 7 4, dlSettings := at_ p 11,
    rxDelay := at_ p 12 % 16, cfList := cf, mic := sub p (p.length - 4) 4 }

end Spec.Frame
