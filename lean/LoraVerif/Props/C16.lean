import LoraVerif.Gen.Modulation
import LoraVerif.Spec.Airtime
import LoraVerif.Lemmas.RtLemmas
/-!
# C16 — time on air equals the Semtech LoRa airtime formula exactly

`Gen.Modulation` is regenerated from `/repo/lora-modulation/src/lib.rs` on every run; the theorems
below are therefore re-checked against what the code says now.  Rust's `u32`/`i32` arithmetic is
modelled with overflow checks (`none` = panic/overflow), so `= some _` includes "never overflows".

Property theorems: `new_spec`, `toa_eq_spec`, `toa_is_formula`, `toa_monotone`.
-/
open Gen.Modulation Spec.Airtime Rt

namespace C16

/-- Every value of `BaseBandModulationParams` a caller can hold: built by `new`
(the symbol time is a private field), with the public `ldro` flag possibly overridden. -/
def params (sf : SpreadingFactor) (bw : Bandwidth) (cr : CodingRate) (ldro : Bool) : BaseBandModulationParams :=
  { sf := sf, bw := bw, cr := cr, ldro := ldro, t_sym_us := tsym sf.factor bw.hz }

/-- `new` never overflows and stores the documented (truncated) symbol time. -/
theorem new_spec (sf : SpreadingFactor) (bw : Bandwidth) (cr : CodingRate) :
    BaseBandModulationParams.new sf bw cr
      = some (params sf bw cr (decide (tsym sf.factor bw.hz ≥ 16384))) := by
  cases sf <;> cases bw <;> cases cr <;> decide

theorem tsym_bounds (sf : SpreadingFactor) (bw : Bandwidth) :
    64 ≤ tsym sf.factor bw.hz ∧ tsym sf.factor bw.hz ≤ 524455 := by
  cases sf <;> cases bw <;> decide

/-- The ceiling-division helper of `time_on_air_us`, by its SHAPE and not by its name: the
translator emits a tactic `gen_unfold_helpers_<Unit>` that unfolds every helper it translated;
it in place, and this lemma evaluates the unfolded body.  Moving or renaming the helper in the
source therefore does not touch the proof. -/
private theorem div_ceil_shape (num d : Int)
    (hd : d = 12 ∨ d = 16 ∨ d = 20 ∨ d = 24 ∨ d = 28 ∨ d = 32 ∨ d = 36 ∨ d = 40 ∨ d = 44 ∨ d = 48)
    (h1 : -3000 ≤ num) (h2 : num ≤ 3000) :
    (if decide (num > 0) then
      (do
        let t1 ← Rt.ck .i32 (num - 1)
        let t2 ← Rt.divC .i32 t1 d
        let t3 ← Rt.ck .i32 (t2 + 1)
        pure t3)
    else
      (do
        let t4 ← Rt.divC .i32 num d
        pure t4) : Option Int) = some (ceilDiv num d) := by
  unfold ceilDiv
  rcases hd with rfl|rfl|rfl|rfl|rfl|rfl|rfl|rfl|rfl|rfl <;>
  · split
    · rename_i hn; simp at hn
      rt_simp
      congr 1; omega
    · rename_i hn; simp at hn
      rt_simp

private theorem ceilDiv_bounds (num d : Int)
    (hd : d = 12 ∨ d = 16 ∨ d = 20 ∨ d = 24 ∨ d = 28 ∨ d = 32 ∨ d = 36 ∨ d = 40 ∨ d = 44 ∨ d = 48)
    (h1 : -48 < num) (h2 : num ≤ 2084) : -3 ≤ ceilDiv num d ∧ ceilDiv num d ≤ 174 := by
  unfold ceilDiv
  rcases hd with rfl|rfl|rfl|rfl|rfl|rfl|rfl|rfl|rfl|rfl <;> omega

private theorem mul_bounds {a b A B : Int} (ha0 : 0 ≤ a) (ha : a ≤ A) (hb0 : 0 ≤ b) (hb : b ≤ B) :
    0 ≤ a * b ∧ a * b ≤ A * B := by
  constructor
  · exact Int.mul_nonneg ha0 hb0
  · exact Int.mul_le_mul ha hb hb0 (by omega)

theorem sf_bounds (sf : SpreadingFactor) : 5 ≤ sf.factor ∧ sf.factor ≤ 12 := by cases sf <;> decide
theorem cr_bounds (cr : CodingRate) : 5 ≤ cr.denom ∧ cr.denom ≤ 8 := by cases cr <;> decide

/-- symbolic evaluation of the generated function up to the payload symbol count -/
private theorem toa_common (sf : SpreadingFactor) (bw : Bandwidth) (cr : CodingRate) (ldro hdr : Bool)
    (len T : Int) (pre : Option Int) (hT0 : 64 ≤ T) (hT1 : T ≤ 524455) (hl0 : 0 ≤ len) (hl1 : len ≤ 255)
    (hpre : ∀ p, pre = some p → 0 ≤ p ∧ p ≤ 255) :
    ({ sf := sf, bw := bw, cr := cr, ldro := ldro, t_sym_us := T } : BaseBandModulationParams).time_on_air_us pre hdr len
      = some (match pre with
          | none => payloadSymbols sf.factor ldro (!hdr) cr.denom len * T
          | some p => ((4 * p + 17 + 4 * payloadSymbols sf.factor ldro (!hdr) cr.denom len) * T) / 4) := by
  unfold BaseBandModulationParams.time_on_air_us payloadSymbols
  obtain ⟨hs0, hs1⟩ := sf_bounds sf
  obtain ⟨hc0, hc1⟩ := cr_bounds cr
  generalize sf.factor = s at *
  generalize cr.denom = c at *
  cases ldro <;> cases hdr <;>
  · simp only [if_true, if_false, Bool.false_eq_true, Bool.not_true, Bool.not_false]
    rt_simp
    gen_unfold_helpers_Modulation
    rw [div_ceil_shape _ _ (by omega) (by omega) (by omega)]
    generalize hqe : ceilDiv _ _ = q
    have hq : -3 ≤ q ∧ q ≤ 174 := by
      rw [← hqe]; exact ceilDiv_bounds _ _ (by omega) (by omega) (by omega)
    clear hqe
    simp only [Option.bind_some, decide_eq_true_eq]
    have hQ : 0 ≤ (if q > 0 then q else 0) ∧ (if q > 0 then q else 0) ≤ 174 := by split <;> omega
    have hmax : max 0 (q * c) = (if q > 0 then q else 0) * c := by
      split
      · have := Int.mul_nonneg (by omega : 0 ≤ q) (by omega : 0 ≤ c); omega
      · have : q * c ≤ 0 := Int.mul_nonpos_of_nonpos_of_nonneg (by omega) (by omega)
        omega
    rw [hmax]
    generalize (if q > 0 then q else 0) = Q at *
    have hm := mul_bounds hQ.1 hQ.2 (by omega : 0 ≤ c) hc1
    generalize Q * c = m at *
    rt_simp
    cases pre with
    | none =>
      have hn := mul_bounds (by omega : 0 ≤ T) hT1 (by omega : 0 ≤ 8 + m) (by omega : 8 + m ≤ 1400)
      simp only []
      rw [ck_u32 (by omega) (by omega), Int.mul_comm]
    | some p =>
      obtain ⟨hp0, hp1⟩ := hpre p rfl
      simp only []
      rt_simp
      have hn := mul_bounds (by omega : 0 ≤ 4 * p + 17 + 4 * (8 + m)) (by omega : 4 * p + 17 + 4 * (8 + m) ≤ 6637)
        (by omega : 0 ≤ T) hT1
      rw [ck_u32 (by omega) (by omega)]
      simp only [Option.bind_some]
      rw [divC_pos (by omega) (by omega), ck_u32 (by omega) (by omega)]

/-- **C16 (main).** For every spreading factor, bandwidth, coding rate, LDRO flag, header mode,
payload length 0..255 and preamble (absent or 0..255 symbols), the model of `time_on_air_us`
generated from the current source returns — without overflow anywhere — the value `Spec.Airtime.toa`. -/
theorem toa_eq_spec (sf : SpreadingFactor) (bw : Bandwidth) (cr : CodingRate) (ldro hdr : Bool)
    (len : Int) (pre : Option Int) (hlen : 0 ≤ len ∧ len ≤ 255)
    (hpre : ∀ p, pre = some p → 0 ≤ p ∧ p ≤ 255) :
    (params sf bw cr ldro).time_on_air_us pre hdr len
      = some (toa sf.factor bw.hz ldro (!hdr) cr.denom len pre) := by
  have hT := tsym_bounds sf bw
  unfold params
  rw [toa_common sf bw cr ldro hdr len _ pre hT.1 hT.2 hlen.1 hlen.2 hpre]
  unfold toa
  cases pre <;> rfl

/-- `Spec.Airtime.toa` *is* the Semtech formula: `r = ⌊(preamble + 4.25 + n)·tsym⌋`, resp. `n·tsym`,
characterised by inequalities instead of being computed. -/
theorem toa_is_formula (sf hz : Int) (de ih : Bool) (crDenom len : Int) (pre : Option Int) :
    IsToa sf hz de ih crDenom len pre (toa sf hz de ih crDenom len pre) := by
  unfold IsToa toa
  cases pre with
  | none => simp
  | some p => simp only []; omega

private theorem ceilDiv_mono {a b d : Int} (hd : 0 < d) (h : a ≤ b) : ceilDiv a d ≤ ceilDiv b d := by
  unfold ceilDiv
  have := Int.ediv_le_ediv hd (by omega : -b ≤ -a)
  omega

theorem payloadSymbols_mono (sf : Int) (de ih : Bool) (cr len len' : Int) (hsf : 5 ≤ sf) (hcr : 0 ≤ cr)
    (h : len ≤ len') : payloadSymbols sf de ih cr len ≤ payloadSymbols sf de ih cr len' := by
  unfold payloadSymbols
  have hd : 0 < 4 * (sf - 2 * (if de then 1 else 0)) := by split <;> omega
  have := ceilDiv_mono hd (by omega : 8 * len - 4 * sf + 28 + 16 - 20 * (if ih then 1 else 0)
      ≤ 8 * len' - 4 * sf + 28 + 16 - 20 * (if ih then 1 else 0))
  have := Int.mul_le_mul_of_nonneg_right this hcr
  simp only []
  omega

/-- **C16 (monotone).** Time on air does not decrease when the payload grows. -/
theorem toa_monotone (sf : SpreadingFactor) (bw : Bandwidth) (cr : CodingRate) (ldro hdr : Bool)
    (len len' : Int) (pre : Option Int) (h : len ≤ len') (hpre : ∀ p, pre = some p → 0 ≤ p) :
    toa sf.factor bw.hz ldro (!hdr) cr.denom len pre ≤ toa sf.factor bw.hz ldro (!hdr) cr.denom len' pre := by
  have hT := (tsym_bounds sf bw).1
  have hn := payloadSymbols_mono sf.factor ldro (!hdr) cr.denom len len' (sf_bounds sf).1
    (by have := (cr_bounds cr).1; omega) h
  unfold toa
  generalize tsym sf.factor bw.hz = T at *
  generalize payloadSymbols sf.factor ldro (!hdr) cr.denom len = n at *
  generalize payloadSymbols sf.factor ldro (!hdr) cr.denom len' = n' at *
  cases pre with
  | none => exact Int.mul_le_mul_of_nonneg_right hn (by omega)
  | some p =>
    simp only []
    apply Int.ediv_le_ediv (by omega)
    exact Int.mul_le_mul_of_nonneg_right (by omega) (by omega)

/-- Corollary in terms of the code: through the generated function itself. -/
theorem code_monotone (sf : SpreadingFactor) (bw : Bandwidth) (cr : CodingRate) (ldro hdr : Bool)
    (len len' : Int) (pre : Option Int) (h0 : 0 ≤ len) (h : len ≤ len') (h1 : len' ≤ 255)
    (hpre : ∀ p, pre = some p → 0 ≤ p ∧ p ≤ 255) :
    ∃ a b, (params sf bw cr ldro).time_on_air_us pre hdr len = some a ∧
           (params sf bw cr ldro).time_on_air_us pre hdr len' = some b ∧ a ≤ b :=
  ⟨_, _, toa_eq_spec sf bw cr ldro hdr len pre ⟨h0, by omega⟩ hpre,
         toa_eq_spec sf bw cr ldro hdr len' pre ⟨by omega, h1⟩ hpre,
         toa_monotone sf bw cr ldro hdr len len' pre h (fun p hp => (hpre p hp).1)⟩

/-! Non-vacuity: published values (TTN airtime calculator; the repository's own test vectors) and the
former defect (SF11/125 kHz, explicit header, empty payload: 8 payload symbols, not 13). -/
example : toa 7 125000 false false 5 38 (some 8) = 82176 := by decide
example : toa 12 125000 true false 5 38 (some 8) = 1974272 := by decide
example : (params ._11 ._125KHz ._4_5 true).time_on_air_us none true 0 = some (8 * 16384) := by decide
example : (params ._12 ._7KHz ._4_8 false).time_on_air_us (some 255) false 255 = some 316377478 := by decide

end C16

#print axioms C16.new_spec
#print axioms C16.toa_eq_spec
#print axioms C16.toa_is_formula
#print axioms C16.toa_monotone
#print axioms C16.code_monotone
