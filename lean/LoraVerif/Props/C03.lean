import LoraVerif.Gen.CmdTables
import LoraVerif.Model.MacCmdFields
import LoraVerif.Spec.MacCmdSpec
import LoraVerif.Lemmas.MacCmdIter
import LoraVerif.Lemmas.MacCmdAccessors
import LoraVerif.Lemmas.FrameShapeLemmas
/-!
# C03 — parsing arbitrary bytes is total, bounds-safe and terminating

Part 1 (this section): the MAC-command stream iterators.  The theorems are stated for ANY command
table `T` and any `len()` helpers `vl` that return on non-empty input (`VlTotal`), then instantiated
on the six tables `Gen.CmdTables.*` that the translator regenerates from the `#[cmd(cid, len)]`
attributes of the current source on every run.  Panics are values (`Outcome.panic`), a hang is a
run that exhausts its step budget (`Run.hang`).
-/
open MacCmd

namespace C03

/-- **iter_no_panic / iter_terminates.** Draining the iterator over any byte string returns (no index,
slice or helper panics) and reaches `None` within `data.length + 2` calls of `next`. -/
theorem iter_terminates (T : Table) (vl : VarLen) (hvl : VlTotal T vl) (data : Bytes) :
    ∃ r, run T vl data = .ok r ∧ r.hang = false := by
  obtain ⟨r, h, ok⟩ := run_ok hvl data
  exact ⟨r, h, ok.no_hang⟩

/-- the result does not depend on the step budget once it is at least `data.length + 2`
(so the harness' budget of 300 steps for inputs ≤ 255 bytes observes the same run) -/
theorem iter_budget_irrelevant (T : Table) (vl : VarLen) (hvl : VlTotal T vl) (data : Bytes) (k : Nat) :
    runFuel T vl (data.length + 2 + k) { data := data, errored := false } = run T vl data := by
  obtain ⟨r, h, ok⟩ := run_ok hvl data
  rw [h]
  exact runFuel_mono _ _ r h ok.no_hang k

/-- **iter_prefix.** The wire bytes (`cid ‖ payload`) of the yielded commands, concatenated, followed by
the unconsumed rest, are exactly the input; every yielded command is a whole command of the table: its
CID selects the first matching entry and, for a fixed-length entry, its payload has exactly the
table's length (so the command occupies `1 + len` bytes). -/
theorem iter_prefix (T : Table) (vl : VarLen) (hvl : VlTotal T vl) (data : Bytes) :
    ∃ r, run T vl data = .ok r ∧
      (r.items.map Item.wire).flatten ++ r.final.data = data ∧
      ∀ c, Item.cmd c ∈ r.items →
        c.wire.length = 1 + c.payload.length ∧
        ∃ e, T.lookup c.cid = some e ∧ e ∈ T ∧ c.variant = e.variant ∧ c.payloadTy = e.payload ∧
          ∀ l, e.len = some l → c.payload.length = l := by
  obtain ⟨r, h, ok⟩ := run_ok hvl data
  refine ⟨r, h, ok.prefix_eq, ?_⟩
  intro c hc
  obtain ⟨h1, e, h2, h3, h4, h5, _⟩ := ok.whole c hc
  exact ⟨by omega, e, h2, (Table.lookup_mem h2).1, h3, h4, h5⟩

/-- **iter_fused.** At most one error is yielded and it is the last item; an error leaves the iterator in
its `errored` state (every later `next` is `None`), and without an error the whole input was consumed. -/
theorem iter_fused (T : Table) (vl : VarLen) (hvl : VlTotal T vl) (data : Bytes) :
    ∃ r, run T vl data = .ok r ∧
      (∀ pre it post, r.items = pre ++ it :: post → it.isErr = true → post = []) ∧
      (∀ pre it post, r.items = pre ++ it :: post → post ≠ [] → it.isErr = false) ∧
      ((r.final.errored = true ∧ ∃ e, r.items.getLast? = some (.err e)) ∨
       (r.final.errored = false ∧ r.final.data = [] ∧ ∀ it ∈ r.items, it.isErr = false)) := by
  obtain ⟨r, h, ok⟩ := run_ok hvl data
  refine ⟨r, h, ok.fused, ok.errs_last, ?_⟩
  rcases ok.final_state with ⟨h1, h2 | h2⟩ | h2
  · simp at h2
  · exact Or.inl ⟨h1, h2⟩
  · exact Or.inr h2

/-- once `next` has returned `None` it keeps returning `None` (state unchanged) -/
theorem next_none_stable (T : Table) (vl : VarLen) (s s' : Iter) (h : next T vl s = .ok (none, s')) :
    s' = s ∧ next T vl s' = .ok (none, s') := by
  unfold next at h
  split at h
  · rename_i hc
    simp at h; subst h
    exact ⟨rfl, by simp [next, hc]⟩
  · generalize parseOne T vl s.data = o at h
    cases o with
    | panic m => simp at h
    | ok r =>
      simp only [Outcome.ok_bind] at h
      split at h
      · generalize sliceFrom _ _ _ = o at h
        cases o <;> simp at h
      · simp at h

/-- **var_len_ok.** A command yielded by `parse_one` never extends beyond the input: either the helper's
length fits (`n ≤ data.length`, the command is exactly that prefix) or the result is an error naming the CID. -/
theorem parse_one_fits_or_error (T : Table) (vl : VarLen) (hvl : VlTotal T vl) (data : Bytes) (hne : data ≠ []) :
    (∃ c n, parseOne T vl data = .ok (.ok (c, n)) ∧ 1 ≤ n ∧ n ≤ data.length ∧ c.wire = data.take n) ∨
    (∃ cid rest, data = cid :: rest ∧
      (parseOne T vl data = .ok (.error (.unknownCid cid)) ∨ parseOne T vl data = .ok (.error (.truncated cid)))) := by
  obtain ⟨r, hr⟩ := parseOne_no_panic hvl hne
  match r, hr with
  | .ok (c, n), hr =>
    have sh := parseOne_ok_shape hr
    exact Or.inl ⟨c, n, hr, sh.pos, sh.le, sh.wire⟩
  | .error e, hr =>
    obtain ⟨cid, rest, hd, he⟩ := parseOne_err_cid hr
    refine Or.inr ⟨cid, rest, hd, ?_⟩
    rcases he with rfl | rfl
    · exact Or.inl hr
    · exact Or.inr hr

/-- the hand-written `len()` helpers as coded: on a non-empty slice they return, and the `max(1, n)`
family returns exactly the slice length (the command extends to the end of the message) -/
theorem var_len_helpers (rest : Bytes) (hne : rest ≠ []) :
    varLen "TxFramesCtrlReqPayload" rest = .ok rest.length ∧
    varLen "EchoIncPayloadReqPayload" rest = .ok rest.length ∧
    varLen "EchoIncPayloadAnsPayload" rest = .ok rest.length ∧
    ∃ n, varLen "McGroupStatusAnsPayload" rest = .ok n ∧ 1 ≤ n ∧ n ≤ 21 := by
  cases rest with
  | nil => exact absurd rfl hne
  | cons x xs =>
    refine ⟨by simp [varLen], by simp [varLen], by simp [varLen], ?_⟩
    refine ⟨_, rfl, by omega, ?_⟩
    have := popcount4_le (x &&& 0b1111)
    simp only [mcGroupStatusRequiredLen]
    omega

/-! ## The six generated tables -/

def T (rows : List Gen.CmdTables.Row) : Table := Table.ofRows rows

/-- the translator found exactly the six command sets (a seventh `CommandHandler` enum would need its own instance) -/
theorem six_sets : Gen.CmdTables.allSets.map (·.1) =
    ["DownlinkMacCommand", "UplinkMacCommand", "DownlinkDUTCommand", "UplinkDUTCommand",
     "DownlinkRemoteSetup", "UplinkRemoteSetup"] := by decide

/-- no CID occurs twice within a set (so `lookup` = "the" entry with that CID, and no `match` arm of the
derive is unreachable) -/
theorem no_duplicate_cids : ∀ s ∈ Gen.CmdTables.allSets, (s.2.map (·.1)).Nodup := by decide

/-- every CID is an octet and every fixed length leaves room in a 242-octet MAC payload / 15-octet FOpts
as applicable: all fixed lengths ≤ 29 -/
theorem cids_and_lens_bounded : ∀ s ∈ Gen.CmdTables.allSets, ∀ r ∈ s.2, r.1 < 256 ∧ ∀ l, r.2.1 = some l → l ≤ 29 := by
  decide

/-- no unit-struct payload carries a `len` attribute the derive would silently ignore -/
theorem attr_len_honoured : Gen.CmdTables.attrLenIgnored = [] := by decide

/-- the generated tables are the specification's tables (CID, name, payload length / variable-length rule) -/
def rowMatches (r : Gen.CmdTables.Row) (c : Spec.MacCmd.Cmd) : Bool :=
  r.1 == c.cid && r.2.2.1 == c.name && r.2.2.2 == c.name ++ "Payload" &&
  (match r.2.1, c.plen with
   | some n, .fixed m => n == m
   | none, .toEnd => true
   | none, .groupStatus => true
   | _, _ => false)

theorem tables_eq_spec : ∀ s ∈ Gen.CmdTables.allSets,
    ∃ S, Spec.MacCmd.setByName s.1 = some S ∧ s.2.length = S.length ∧ (s.2.zip S).all (fun p => rowMatches p.1 p.2) = true := by
  decide

/-- every variable-length entry of the six tables is one of the four payload types whose `len()` is modelled -/
theorem var_len_known : ∀ s ∈ Gen.CmdTables.allSets, ∀ e ∈ T s.2, e.len = none →
    e.payload = "TxFramesCtrlReqPayload" ∨ e.payload = "EchoIncPayloadReqPayload" ∨
    e.payload = "EchoIncPayloadAnsPayload" ∨ e.payload = "McGroupStatusAnsPayload" := by
  decide

theorem vl_total (s : String × List Gen.CmdTables.Row) (hs : s ∈ Gen.CmdTables.allSets) : VlTotal (T s.2) varLen :=
  varLen_total_of_known (var_len_known s hs)

/-- **C03 for the six sets**: for every set and every byte string, the iterator terminates without a panic,
yields whole commands adding up to a prefix of the input, and at most one error, last. -/
theorem six_sets_total (s : String × List Gen.CmdTables.Row) (hs : s ∈ Gen.CmdTables.allSets) (data : Bytes) :
    ∃ r, run (T s.2) varLen data = .ok r ∧ r.hang = false ∧
      (r.items.map Item.wire).flatten ++ r.final.data = data ∧
      (∀ pre it post, r.items = pre ++ it :: post → it.isErr = true → post = []) := by
  obtain ⟨r, h, ok⟩ := run_ok (vl_total s hs) data
  exact ⟨r, h, ok.no_hang, ok.prefix_eq, ok.fused⟩

/-- every entry of the six generated tables gives its payload type at least the number of octets its
accessors reach (`need`, proved sufficient per payload type in `Lemmas/MacCmdAccessors`); a
variable-length payload is never empty -/
theorem accessor_reach_within_len : ∀ s ∈ Gen.CmdTables.allSets, ∀ r ∈ s.2,
    need r.2.2.2 ≤ (match r.2.1 with | some l => l | none => 1) := by decide

/-- **accessors_no_panic.** Every accessor of every command the iterators of the six sets can yield returns
without panicking (all indices are below the generated length; `u32` products do not overflow; the
`unreachable!()` arms are unreachable), for every cipher plugged into the key accessor. -/
theorem accessors_no_panic (cph : Cipher) (s : String × List Gen.CmdTables.Row) (hs : s ∈ Gen.CmdTables.allSets)
    (data : Bytes) (hb : IsBytes data) :
    ∃ r, run (T s.2) varLen data = .ok r ∧
      ∀ c, Item.cmd c ∈ r.items → AllOk (accessors cph c.payloadTy c.payload) := by
  obtain ⟨r, h, ok⟩ := run_ok (vl_total s hs) data
  refine ⟨r, h, ?_⟩
  intro c hc
  obtain ⟨_, e, h2, _, h4, h5, h6⟩ := ok.whole c hc
  have hmem := (Table.lookup_mem h2).1
  simp only [T, Table.ofRows, List.mem_map] at hmem
  obtain ⟨row, hrow, rfl⟩ := hmem
  have hneed := accessor_reach_within_len s hs row hrow
  refine accessors_ok cph c.payloadTy c.payload ?_ (run_payload_isBytes ok hb c hc)
  rw [h4]
  simp only [Entry.ofRow] at h5 h6 ⊢
  cases hl : row.2.1 with
  | some l => rw [hl] at hneed; have := h5 l hl; simp at hneed; omega
  | none =>
    rw [hl] at hneed
    obtain ⟨rest, _, hv⟩ := h6 hl
    have := varLen_pos hv
    simp at hneed; omega

/-! ## Part 2: the frame parsers of parser.rs (structural model `Model/FrameShape.lean`)

`∃ r, f b = .ok r` is "does not panic" (`Outcome.panic` is the only other constructor). -/
section Frames
open FrameShape

/-- **EncryptedDataPayload::parse** (`Layout::validate`) returns for every byte string, and every accessor of the
view it yields (`fhdr`, `dev_addr`, `fctrl`, `fcnt`, `f_opts`, `f_port`, `mic`, the slices of `validate_mic`,
`frm_payload`'s range) returns as well. -/
theorem data_parse_no_panic (b : Bytes) :
    ∃ r, validate b = .ok r ∧ ∀ l, r = .ok l → ∃ v, dataAccessors b l = .ok v := by
  obtain ⟨r, hr, hok⟩ := validate_total b
  exact ⟨r, hr, fun l hl => dataAccessors_total (hok l hl)⟩

/-- **DecryptedDataPayload::decrypt_in_place** returns for every buffer of at most 4076 octets (every key
combination), and every accessor of the view returned — whatever the decryption wrote into the buffer
(`b'` of the same length) — returns.  Beyond 4076 octets the `u8` block counter of
`encrypt_frm_data_payload` can overflow (`decrypt_ctr_overflow` below); LoRa frames are ≤ 255 octets. -/
theorem decrypt_no_panic (b : Bytes) (hlen : b.length ≤ 4076) (hasNwk hasApp : Bool) :
    ∃ r, decryptData b hasNwk hasApp = .ok r ∧
      ∀ l, r = .ok l → ∀ b' : Bytes, b'.length = b.length → ∃ v, dataAccessors b' l = .ok v := by
  obtain ⟨r, hr, hok⟩ := decryptData_total hlen hasNwk hasApp
  refine ⟨r, hr, fun l hl b' hb' => dataAccessors_total ?_⟩
  rw [hb']; exact hok l hl

/-- the counter overflow that bounds `decrypt_no_panic`: a 4065-octet FRMPayload needs a 255th key-stream block -/
theorem decrypt_ctr_overflow : encLoop 5000 9 4065 0 1 = .panic "encrypt_frm_data_payload: ctr += 1" := by
  decide +kernel

/-- **JoinRequestPayload::parse** and every accessor of the view -/
theorem join_request_no_panic (b : Bytes) :
    parseJoinRequest b = .ok () → ∃ v, joinRequestAccessors b = .ok v :=
  fun h => joinRequestAccessors_total (parseJoinRequest_len h)

/-- **EncryptedJoinAcceptPayload::parse / DecryptedJoinAcceptPayload::decrypt_in_place** and every accessor of the
decrypted view incl. `c_f_list` (for every in-place block cipher) -/
theorem join_accept_no_panic (c : Cipher) (hc : c.LenPres) (b : Bytes) :
    ∃ r, decryptJoinAccept c b = .ok r ∧ ∀ b', r = .ok b' → ∃ v, joinAcceptAccessors b' = .ok v := by
  obtain ⟨r, hr, hok⟩ := decryptJoinAccept_total hc b
  refine ⟨r, hr, fun b' hb' => joinAcceptAccessors_total ?_⟩
  obtain ⟨h1, h2⟩ := hok b' hb'
  omega

/-- **parse_no_panic.** `parser::parse` returns a value or an error for every byte string, and whichever view
it returns can be used without panic: all accessors, and in-place decryption followed by all accessors. -/
theorem parse_no_panic (b : Bytes) :
    ∃ r, parse b = .ok r ∧
      match r with
      | .error _ => True
      | .ok .joinRequest => ∃ v, joinRequestAccessors b = .ok v
      | .ok .joinAccept => ∀ c : Cipher, c.LenPres →
          ∃ b', decryptJoinAccept c b = .ok (.ok b') ∧ ∃ v, joinAcceptAccessors b' = .ok v
      | .ok (.data l) => (∃ v, dataAccessors b l = .ok v) ∧
          (b.length ≤ 4076 → ∀ n a, ∃ r', decryptData b n a = .ok r' ∧
            ∀ l', r' = .ok l' → ∀ b' : Bytes, b'.length = b.length → ∃ v, dataAccessors b' l' = .ok v) := by
  cases b with
  | nil => exact ⟨_, rfl, trivial⟩
  | cons mhdr rest =>
    simp only [parse]
    by_cases hv : (mhdr &&& 0b11 != 0) = true
    · rw [if_pos hv]; exact ⟨_, rfl, trivial⟩
    · rw [if_neg hv]
      by_cases h0 : mhdr >>> 5 = 0
      · rw [if_pos h0]
        cases hj : parseJoinRequest (mhdr :: rest) with
        | error e => exact ⟨_, rfl, trivial⟩
        | ok u => exact ⟨_, rfl, joinRequestAccessors_total (parseJoinRequest_len hj)⟩
      · rw [if_neg h0]
        by_cases h1 : mhdr >>> 5 = 1
        · rw [if_pos h1]
          cases hj : validateJoinAccept (mhdr :: rest) with
          | error e => exact ⟨_, rfl, trivial⟩
          | ok u =>
            refine ⟨_, rfl, ?_⟩
            intro c hc
            obtain ⟨r, hr, hok⟩ := decryptJoinAccept_total hc (mhdr :: rest)
            have hr' := hr
            unfold decryptJoinAccept at hr'
            rw [hj] at hr'
            simp only at hr'
            generalize index _ _ _ = o at hr'
            cases o with
            | panic m => simp at hr'
            | ok x =>
              simp only [Outcome.ok_bind] at hr'
              generalize sliceFrom _ _ _ = o at hr'
              cases o with
              | panic m => simp at hr'
              | ok t =>
                simp only [Outcome.ok_bind] at hr'
                generalize encryptChunks _ _ _ = o at hr'
                cases o with
                | panic m => simp at hr'
                | ok t' =>
                  simp only [Outcome.ok_bind, Outcome.ok.injEq] at hr'
                  subst hr'
                  refine ⟨_, hr, joinAcceptAccessors_total ?_⟩
                  obtain ⟨h1, h2⟩ := hok _ rfl
                  omega
        · rw [if_neg h1]
          by_cases h5 : mhdr >>> 5 ≤ 5
          · rw [if_pos h5]
            obtain ⟨r, hr, hok⟩ := validate_total (mhdr :: rest)
            simp only [hr, Outcome.ok_bind]
            match r, hok with
            | .error e, _ => exact ⟨_, rfl, trivial⟩
            | .ok l, hok =>
              refine ⟨_, rfl, dataAccessors_total (hok l rfl), ?_⟩
              intro hlen n a
              exact decrypt_no_panic (mhdr :: rest) hlen n a
          · rw [if_neg h5]; exact ⟨_, rfl, trivial⟩

/-! non-vacuity: the README's example uplink; an FOptsLen that does not fit; a Join-Accept with a type-1 CFList -/
example : validate [0x40, 4, 3, 2, 1, 0x80, 1, 0, 1, 0xa6, 0x94, 0x64, 0x26, 0x15, 0xd6, 0xc3, 0xb5, 0x82] =
    .ok (.ok { frameType := 2, fhdrLen := 7, fPortOffset := some 8, frmStart := 9, frmEnd := 14 }) := by rfl
example : validate [0x40, 4, 3, 2, 1, 0x8f, 1, 0, 1, 2, 3, 4, 5, 6] = .ok (.error .TruncatedFhdr) := by rfl
example : (joinAcceptAccessors (0x20 :: List.replicate 27 0 ++ [1, 9, 9, 9, 9])).isOk = true := by decide

end Frames

/-! ## Non-vacuity -/

example : run (T Gen.CmdTables.downlinkMacCommand) varLen [0x03, 0x12, 0x04, 0x00, 0x45, 0x06, 0x0d, 1, 2] =
    .ok { items := [.cmd ⟨3, "LinkADRReq", "LinkADRReqPayload", [0x12, 0x04, 0x00, 0x45]⟩,
                    .cmd ⟨6, "DevStatusReq", "DevStatusReqPayload", []⟩, .err (.truncated 0x0d)],
          final := { data := [0x0d, 1, 2], errored := true }, hang := false } := by decide

example : run (T Gen.CmdTables.uplinkRemoteSetup) varLen [0x01, 0x01, 0, 1, 2, 3, 4, 0xff] =
    .ok { items := [.cmd ⟨1, "McGroupStatusAns", "McGroupStatusAnsPayload", [0x01, 0, 1, 2, 3, 4]⟩, .err (.unknownCid 0xff)],
          final := { data := [0xff], errored := true }, hang := false } := by decide

example : VlTotal (T Gen.CmdTables.downlinkDUTCommand) varLen :=
  vl_total ("DownlinkDUTCommand", Gen.CmdTables.downlinkDUTCommand) (by decide)

end C03

#print axioms C03.iter_terminates
#print axioms C03.iter_budget_irrelevant
#print axioms C03.iter_prefix
#print axioms C03.iter_fused
#print axioms C03.next_none_stable
#print axioms C03.parse_one_fits_or_error
#print axioms C03.var_len_helpers
#print axioms C03.no_duplicate_cids
#print axioms C03.tables_eq_spec
#print axioms C03.six_sets_total
#print axioms C03.accessor_reach_within_len
#print axioms C03.accessors_no_panic
#print axioms C03.data_parse_no_panic
#print axioms C03.decrypt_no_panic
#print axioms C03.decrypt_ctr_overflow
#print axioms C03.join_request_no_panic
#print axioms C03.join_accept_no_panic
#print axioms C03.parse_no_panic
