import LoraVerif.Gen.CmdTables
import LoraVerif.Model.MacCmdFields
import LoraVerif.Spec.MacCmdSpec
import LoraVerif.Lemmas.MacCmdIter
import LoraVerif.Lemmas.MacCmdAccessors
/-!
# C03 — parsing arbitrary bytes is total, bounds-safe and terminating

Part 1 (this section): the MAC-command stream iterators.  The theorems are stated for ANY command
table `T` and any `len()` helpers `vl` that return on non-empty input (`VlTotal`), then instantiated
on the six tables `Gen.CmdTables.*` that the translator regenerates from the `#[cmd(cid, len)]`
attributes of the current source on every run.  Panics are values (`Outcome.panic`), a hang is a
run that exhausts its step budget (`Run.hang`).
-/
open MacCmd

namespace C03

/-- **iter_no_panic / iter_terminates.** Draining the iterator over any byte string returns (no index,
slice or helper panics) and reaches `None` within `data.length + 2` calls of `next`. -/
theorem iter_terminates (T : Table) (vl : VarLen) (hvl : VlTotal T vl) (data : Bytes) :
    ∃ r, run T vl data = .ok r ∧ r.hang = false := by
  obtain ⟨r, h, ok⟩ := run_ok hvl data
  exact ⟨r, h, ok.no_hang⟩

/-- the result does not depend on the step budget once it is at least `data.length + 2`
(so the harness' budget of 300 steps for inputs ≤ 255 bytes observes the same run) -/
theorem iter_budget_irrelevant (T : Table) (vl : VarLen) (hvl : VlTotal T vl) (data : Bytes) (k : Nat) :
    runFuel T vl (data.length + 2 + k) { data := data, errored := false } = run T vl data := by
  obtain ⟨r, h, ok⟩ := run_ok hvl data
  rw [h]
  exact runFuel_mono _ _ r h ok.no_hang k

/-- **iter_prefix.** The wire bytes (`cid ‖ payload`) of the yielded commands, concatenated, followed by
the unconsumed rest, are exactly the input; every yielded command is a whole command of the table: its
CID selects the first matching entry and, for a fixed-length entry, its payload has exactly the
table's length (so the command occupies `1 + len` bytes). -/
theorem iter_prefix (T : Table) (vl : VarLen) (hvl : VlTotal T vl) (data : Bytes) :
    ∃ r, run T vl data = .ok r ∧
      (r.items.map Item.wire).flatten ++ r.final.data = data ∧
      ∀ c, Item.cmd c ∈ r.items →
        c.wire.length = 1 + c.payload.length ∧
        ∃ e, T.lookup c.cid = some e ∧ e ∈ T ∧ c.variant = e.variant ∧ c.payloadTy = e.payload ∧
          ∀ l, e.len = some l → c.payload.length = l := by
  obtain ⟨r, h, ok⟩ := run_ok hvl data
  refine ⟨r, h, ok.prefix_eq, ?_⟩
  intro c hc
  obtain ⟨h1, e, h2, h3, h4, h5, _⟩ := ok.whole c hc
  exact ⟨by omega, e, h2, (Table.lookup_mem h2).1, h3, h4, h5⟩

/-- **iter_fused.** At most one error is yielded and it is the last item; an error leaves the iterator in
its `errored` state (every later `next` is `None`), and without an error the whole input was consumed. -/
theorem iter_fused (T : Table) (vl : VarLen) (hvl : VlTotal T vl) (data : Bytes) :
    ∃ r, run T vl data = .ok r ∧
      (∀ pre it post, r.items = pre ++ it :: post → it.isErr = true → post = []) ∧
      (∀ pre it post, r.items = pre ++ it :: post → post ≠ [] → it.isErr = false) ∧
      ((r.final.errored = true ∧ ∃ e, r.items.getLast? = some (.err e)) ∨
       (r.final.errored = false ∧ r.final.data = [] ∧ ∀ it ∈ r.items, it.isErr = false)) := by
  obtain ⟨r, h, ok⟩ := run_ok hvl data
  refine ⟨r, h, ok.fused, ok.errs_last, ?_⟩
  rcases ok.final_state with ⟨h1, h2 | h2⟩ | h2
  · simp at h2
  · exact Or.inl ⟨h1, h2⟩
  · exact Or.inr h2

/-- once `next` has returned `None` it keeps returning `None` (state unchanged) -/
theorem next_none_stable (T : Table) (vl : VarLen) (s s' : Iter) (h : next T vl s = .ok (none, s')) :
    s' = s ∧ next T vl s' = .ok (none, s') := by
  unfold next at h
  split at h
  · rename_i hc
    simp at h; subst h
    exact ⟨rfl, by simp [next, hc]⟩
  · generalize parseOne T vl s.data = o at h
    cases o with
    | panic m => simp at h
    | ok r =>
      simp only [Outcome.ok_bind] at h
      split at h
      · generalize sliceFrom _ _ _ = o at h
        cases o <;> simp at h
      · simp at h

/-- **var_len_ok.** A command yielded by `parse_one` never extends beyond the input: either the helper's
length fits (`n ≤ data.length`, the command is exactly that prefix) or the result is an error naming the CID. -/
theorem parse_one_fits_or_error (T : Table) (vl : VarLen) (hvl : VlTotal T vl) (data : Bytes) (hne : data ≠ []) :
    (∃ c n, parseOne T vl data = .ok (.ok (c, n)) ∧ 1 ≤ n ∧ n ≤ data.length ∧ c.wire = data.take n) ∨
    (∃ cid rest, data = cid :: rest ∧
      (parseOne T vl data = .ok (.error (.unknownCid cid)) ∨ parseOne T vl data = .ok (.error (.truncated cid)))) := by
  obtain ⟨r, hr⟩ := parseOne_no_panic hvl hne
  match r, hr with
  | .ok (c, n), hr =>
    have sh := parseOne_ok_shape hr
    exact Or.inl ⟨c, n, hr, sh.pos, sh.le, sh.wire⟩
  | .error e, hr =>
    obtain ⟨cid, rest, hd, he⟩ := parseOne_err_cid hr
    refine Or.inr ⟨cid, rest, hd, ?_⟩
    rcases he with rfl | rfl
    · exact Or.inl hr
    · exact Or.inr hr

/-- the hand-written `len()` helpers as coded: on a non-empty slice they return, and the `max(1, n)`
family returns exactly the slice length (the command extends to the end of the message) -/
theorem var_len_helpers (rest : Bytes) (hne : rest ≠ []) :
    varLen "TxFramesCtrlReqPayload" rest = .ok rest.length ∧
    varLen "EchoIncPayloadReqPayload" rest = .ok rest.length ∧
    varLen "EchoIncPayloadAnsPayload" rest = .ok rest.length ∧
    ∃ n, varLen "McGroupStatusAnsPayload" rest = .ok n ∧ 1 ≤ n ∧ n ≤ 21 := by
  cases rest with
  | nil => exact absurd rfl hne
  | cons x xs =>
    refine ⟨by simp [varLen], by simp [varLen], by simp [varLen], ?_⟩
    refine ⟨_, rfl, by omega, ?_⟩
    have := popcount4_le (x &&& 0b1111)
    simp only [mcGroupStatusRequiredLen]
    omega

/-! ## The six generated tables -/

def T (rows : List Gen.CmdTables.Row) : Table := Table.ofRows rows

/-- the translator found exactly the six command sets (a seventh `CommandHandler` enum would need its own instance) -/
theorem six_sets : Gen.CmdTables.allSets.map (·.1) =
    ["DownlinkMacCommand", "UplinkMacCommand", "DownlinkDUTCommand", "UplinkDUTCommand",
     "DownlinkRemoteSetup", "UplinkRemoteSetup"] := by decide

/-- no CID occurs twice within a set (so `lookup` = "the" entry with that CID, and no `match` arm of the
derive is unreachable) -/
theorem no_duplicate_cids : ∀ s ∈ Gen.CmdTables.allSets, (s.2.map (·.1)).Nodup := by decide

/-- every CID is an octet and every fixed length leaves room in a 242-octet MAC payload / 15-octet FOpts
as applicable: all fixed lengths ≤ 29 -/
theorem cids_and_lens_bounded : ∀ s ∈ Gen.CmdTables.allSets, ∀ r ∈ s.2, r.1 < 256 ∧ ∀ l, r.2.1 = some l → l ≤ 29 := by
  decide

/-- no unit-struct payload carries a `len` attribute the derive would silently ignore -/
theorem attr_len_honoured : Gen.CmdTables.attrLenIgnored = [] := by decide

/-- the generated tables are the specification's tables (CID, name, payload length / variable-length rule) -/
def rowMatches (r : Gen.CmdTables.Row) (c : Spec.MacCmd.Cmd) : Bool :=
  r.1 == c.cid && r.2.2.1 == c.name && r.2.2.2 == c.name ++ "Payload" &&
  (match r.2.1, c.plen with
   | some n, .fixed m => n == m
   | none, .toEnd => true
   | none, .groupStatus => true
   | _, _ => false)

theorem tables_eq_spec : ∀ s ∈ Gen.CmdTables.allSets,
    ∃ S, Spec.MacCmd.setByName s.1 = some S ∧ s.2.length = S.length ∧ (s.2.zip S).all (fun p => rowMatches p.1 p.2) = true := by
  decide

/-- every variable-length entry of the six tables is one of the four payload types whose `len()` is modelled -/
theorem var_len_known : ∀ s ∈ Gen.CmdTables.allSets, ∀ e ∈ T s.2, e.len = none →
    e.payload = "TxFramesCtrlReqPayload" ∨ e.payload = "EchoIncPayloadReqPayload" ∨
    e.payload = "EchoIncPayloadAnsPayload" ∨ e.payload = "McGroupStatusAnsPayload" := by
  decide

theorem vl_total (s : String × List Gen.CmdTables.Row) (hs : s ∈ Gen.CmdTables.allSets) : VlTotal (T s.2) varLen :=
  varLen_total_of_known (var_len_known s hs)

/-- **C03 for the six sets**: for every set and every byte string, the iterator terminates without a panic,
yields whole commands adding up to a prefix of the input, and at most one error, last. -/
theorem six_sets_total (s : String × List Gen.CmdTables.Row) (hs : s ∈ Gen.CmdTables.allSets) (data : Bytes) :
    ∃ r, run (T s.2) varLen data = .ok r ∧ r.hang = false ∧
      (r.items.map Item.wire).flatten ++ r.final.data = data ∧
      (∀ pre it post, r.items = pre ++ it :: post → it.isErr = true → post = []) := by
  obtain ⟨r, h, ok⟩ := run_ok (vl_total s hs) data
  exact ⟨r, h, ok.no_hang, ok.prefix_eq, ok.fused⟩

/-- **accessors_no_panic.** Every accessor of every command the iterators of the six sets can yield returns
without panicking (all indices are below the generated length; `u32` products do not overflow; the
`unreachable!()` arms are unreachable), for every cipher plugged into the key accessor. -/
theorem accessors_no_panic (cph : Cipher) (s : String × List Gen.CmdTables.Row) (hs : s ∈ Gen.CmdTables.allSets)
    (data : Bytes) (hb : IsBytes data) :
    ∃ r, run (T s.2) varLen data = .ok r ∧
      ∀ c, Item.cmd c ∈ r.items → AllOk (accessors cph c.payloadTy c.payload) := by
  obtain ⟨r, h, ok⟩ := run_ok (vl_total s hs) data
  refine ⟨r, h, ?_⟩
  intro c hc
  obtain ⟨_, e, h2, _, h4, h5, h6⟩ := ok.whole c hc
  have hmem := (Table.lookup_mem h2).1
  simp only [T, Table.ofRows, List.mem_map] at hmem
  obtain ⟨row, hrow, rfl⟩ := hmem
  have hneed := tables_cover_need s hs row hrow
  refine accessors_ok cph c.payloadTy c.payload ?_ (run_payload_isBytes ok hb c hc)
  rw [h4]
  simp only [Entry.ofRow] at h5 h6 ⊢
  cases hl : row.2.1 with
  | some l => rw [hl] at hneed; have := h5 l hl; simp at hneed; omega
  | none =>
    rw [hl] at hneed
    obtain ⟨rest, _, hv⟩ := h6 hl
    have := varLen_pos hv
    simp at hneed; omega

/-! ## Non-vacuity -/

example : run (T Gen.CmdTables.downlinkMacCommand) varLen [0x03, 0x12, 0x04, 0x00, 0x45, 0x06, 0x0d, 1, 2] =
    .ok { items := [.cmd ⟨3, "LinkADRReq", "LinkADRReqPayload", [0x12, 0x04, 0x00, 0x45]⟩,
                    .cmd ⟨6, "DevStatusReq", "DevStatusReqPayload", []⟩, .err (.truncated 0x0d)],
          final := { data := [0x0d, 1, 2], errored := true }, hang := false } := by decide

example : run (T Gen.CmdTables.uplinkRemoteSetup) varLen [0x01, 0x01, 0, 1, 2, 3, 4, 0xff] =
    .ok { items := [.cmd ⟨1, "McGroupStatusAns", "McGroupStatusAnsPayload", [0x01, 0, 1, 2, 3, 4]⟩, .err (.unknownCid 0xff)],
          final := { data := [0xff], errored := true }, hang := false } := by decide

example : VlTotal (T Gen.CmdTables.downlinkDUTCommand) varLen :=
  vl_total ("DownlinkDUTCommand", Gen.CmdTables.downlinkDUTCommand) (by decide)

end C03

#print axioms C03.iter_terminates
#print axioms C03.iter_budget_irrelevant
#print axioms C03.iter_prefix
#print axioms C03.iter_fused
#print axioms C03.next_none_stable
#print axioms C03.parse_one_fits_or_error
#print axioms C03.var_len_helpers
#print axioms C03.no_duplicate_cids
#print axioms C03.tables_eq_spec
#print axioms C03.six_sets_total
#print axioms C03.accessors_no_panic
