import LoraVerif.Model.Mac
import LoraVerif.Lemmas.ExceptLemmas
import LoraVerif.Lemmas.Ghost
import LoraVerif.Lemmas.MacWFStep
import LoraVerif.Lemmas.GhostC
import LoraVerif.Lemmas.RefineC
import LoraVerif.Lemmas.HistoryCSafe
import LoraVerif.Lemmas.ChainC
/-!
# C08 — MAC command handling is consistent and atomic: the device does what it answers

Theorems about `Model/Mac.lean` / `Model/Region.lean` (the executable model tied to the real MAC by
the correspondence suite C08, which also evaluates an independent RP002/LoRaWAN oracle on the
implementation's own outputs).

* answers are queued whole, never beyond 15 bytes, and after the first answer that does not fit
  nothing is queued any more (`push_*`): the uplink carries a prefix of the answers in request order;
* full acknowledgement ⇒ exactly the commanded effect, any rejection ⇒ nothing changed
  (`rxParamSetup_*`, `linkAdr_*`, `newChannel_*`, `dlChannel_*`);
* unambiguously invalid requests are rejected (`*_rejects_*`);
* stickiness: `retainSticky` keeps exactly RXParamSetupAns/RXTimingSetupAns/DlChannelAns (`retainSticky_spec`).
* THE WHOLE COMMAND STREAM: `handleCmds_answers` / `accept_answers` — after `handle_downlink_macs` the
  pending queue is the old queue followed by the longest prefix that fits 15 bytes (`fit`: cut only at
  the limit, nothing later kept) of "one answer per handled request, in request order, a LinkADRReq
  block answered with identical copies" (`Answers`), each answer with its outcome: acknowledged ⇒ took
  effect exactly, rejected ⇒ changed nothing (the per-command theorems composed along `handleCmds`;
  `handleCmds_adr_run`: a block is decided once, with DataRate_TXPower of its last command).
* HISTORIES: `history_answers` — along every run every uplink carries exactly the owed answers; after
  a downlink accepted in a Class A window (judged by the reference tracker) the device owes the
  fitting prefix of the answers to that frame, sticky answers are repeated until the next such
  downlink, all others are sent once (`AnsStep`); `history_effects` — at every such uplink the state
  after is the `Answers`-outcome of the frame's command streams applied to the state before.
-/
open Model Gen.Region

namespace C08

/-! ## the answer queue -/

theorem push_length_le (c : MacCtx) (cid : Nat) (p : List Nat) (h : c.pending.length ≤ 15) :
    (c.push cid p).pending.length ≤ 15 := by
  unfold MacCtx.push
  split
  · exact h
  · split
    · simp only [List.length_append, List.length_cons]; omega
    · exact h

/-- an answer is queued whole or not at all -/
theorem push_whole_or_nothing (c : MacCtx) (cid : Nat) (p : List Nat) :
    (c.push cid p).pending = c.pending ++ cid :: p ∨ (c.push cid p).pending = c.pending := by
  unfold MacCtx.push
  split
  · exact Or.inr rfl
  · split
    · exact Or.inl rfl
    · exact Or.inr rfl

/-- once an answer has been dropped, every later answer of the downlink is dropped too:
only trailing answers are lost -/
theorem push_after_full (c : MacCtx) (cid : Nat) (p : List Nat) (h : c.full = true) :
    c.push cid p = c := by
  unfold MacCtx.push; simp [h]

/-- an answer is dropped only when it does not fit the 15-byte limit, and dropping sets the flag -/
theorem push_drop_iff (c : MacCtx) (cid : Nat) (p : List Nat) (h : c.full = false) :
    ((c.push cid p).pending = c.pending ++ cid :: p ∧ (c.push cid p).full = false ∧ c.pending.length + 1 + p.length ≤ 15)
    ∨ ((c.push cid p).pending = c.pending ∧ (c.push cid p).full = true ∧ 15 < c.pending.length + 1 + p.length) := by
  unfold MacCtx.push
  simp only [h]
  by_cases hf : c.pending.length + p.length < 15
  · simp [hf, h]; omega
  · simp [hf]; omega

/-- the queue only grows by appending while a downlink is processed -/
theorem push_prefix (c : MacCtx) (cid : Nat) (p : List Nat) : c.pending <+: (c.push cid p).pending := by
  rcases push_whole_or_nothing c cid p with h | h <;> rw [h]
  · exact List.prefix_append _ _
  · exact List.prefix_refl _

/-- pushing never touches configuration or channel plan -/
theorem push_cfg (c : MacCtx) (cid : Nat) (p : List Nat) :
    (c.push cid p).cfg = c.cfg ∧ (c.push cid p).region = c.region := by
  unfold MacCtx.push
  split
  · simp
  · split <;> simp

/-! ## RXParamSetupReq -/

/-- full acknowledgement (0b111) ⇒ RX1 offset, RX2 data rate and RX2 frequency are exactly the commanded ones -/
theorem rxParamSetup_ack (cfg : Config) (r : RegionId) (dl f : Nat) (h : (rxParamSetup cfg r dl f).1 = 7) :
    (rxParamSetup cfg r dl f).2 =
      { cfg with rx2DataRate := (if dl % 16 == 15 then cfg.rx2DataRate else some (dl % 16)),
                 rx2Frequency := some f, rx1DrOffset := (dl / 16) % 8 } := by
  unfold rxParamSetup rx1DrOffsetValidate at *
  simp only at h ⊢
  by_cases h1 : frequencyValid r f = true <;> by_cases h2 : (dl / 16) % 8 ≤ maxRx1DrOffset r <;>
    by_cases h3 : (dl % 16 == 15) = true <;> by_cases h4 : (getDatarate r (dl % 16)).isSome = true <;>
    simp_all

/-- any rejection ⇒ the configuration is unchanged -/
theorem rxParamSetup_nak (cfg : Config) (r : RegionId) (dl f : Nat) (h : (rxParamSetup cfg r dl f).1 ≠ 7) :
    (rxParamSetup cfg r dl f).2 = cfg := by
  unfold rxParamSetup rx1DrOffsetValidate at *
  simp only at h ⊢
  by_cases h1 : frequencyValid r f = true <;> by_cases h2 : (dl / 16) % 8 ≤ maxRx1DrOffset r <;>
    by_cases h3 : (dl % 16 == 15) = true <;> by_cases h4 : (getDatarate r (dl % 16)).isSome = true <;>
    simp_all

/-- invalid fields are rejected bit by bit: out-of-band frequency, undefined RX2 data rate, too large offset -/
theorem rxParamSetup_rejects (cfg : Config) (r : RegionId) (dl f : Nat) :
    (frequencyValid r f = false → (rxParamSetup cfg r dl f).1 % 2 = 0) ∧
    ((dl % 16 ≠ 15 ∧ getDatarate r (dl % 16) = none) → (rxParamSetup cfg r dl f).1 / 2 % 2 = 0) ∧
    (maxRx1DrOffset r < (dl / 16) % 8 → (rxParamSetup cfg r dl f).1 / 4 = 0) := by
  unfold rxParamSetup rx1DrOffsetValidate
  simp only
  refine ⟨?_, ?_, ?_⟩
  · intro h1
    by_cases h2 : (dl / 16) % 8 ≤ maxRx1DrOffset r <;>
      by_cases h3 : (dl % 16 == 15) = true <;> by_cases h4 : (getDatarate r (dl % 16)).isSome = true <;>
      simp [h1, h2, h3, h4]
  · intro ⟨h3, h4⟩
    have h3' : (dl % 16 == 15) = false := by simp [h3]
    by_cases h1 : frequencyValid r f = true <;> by_cases h2 : (dl / 16) % 8 ≤ maxRx1DrOffset r <;>
      simp [h1, h2, h3', h4]
  · intro h2
    have h2' : ¬ (dl / 16) % 8 ≤ maxRx1DrOffset r := by omega
    by_cases h1 : frequencyValid r f = true <;>
      by_cases h3 : (dl % 16 == 15) = true <;> by_cases h4 : (getDatarate r (dl % 16)).isSome = true <;>
      simp [h1, h2', h3, h4]

/-! ## LinkADRReq block -/

/-- what a LinkADRReq block decides, step by step -/
theorem linkAdr_decide_eq (cfg : Config) (region : RegionState) (mask : Mask) (rfu : Bool) (drRaw pwRaw : Nat)
    (res : Nat × Config × RegionState) (h : linkAdrDecide cfg region mask rfu drRaw pwRaw = .ok res) :
    ∃ pw cmAck, linkAdrPw cfg region.id pwRaw = .ok pw ∧
      linkAdrCmAck region mask rfu (linkAdrDr cfg region.id drRaw) = .ok cmAck ∧
      res = (match cmAck, linkAdrDr cfg region.id drRaw, pw with
        | true, some d, some p =>
          ((if cmAck then 1 else 0) + (if (linkAdrDr cfg region.id drRaw).isSome then 2 else 0) + (if pw.isSome then 4 else 0),
            { cfg with dataRate := d, txPower := p }, channelMaskSet region mask)
        | _, _, _ =>
          ((if cmAck then 1 else 0) + (if (linkAdrDr cfg region.id drRaw).isSome then 2 else 0) + (if pw.isSome then 4 else 0),
            cfg, region)) := by
  unfold linkAdrDecide at h
  obtain ⟨pw, hpw, h⟩ := Except.bind_eq_ok h
  obtain ⟨cm, hcm, h⟩ := Except.bind_eq_ok h
  refine ⟨pw, cm, hpw, hcm, ?_⟩
  cases cm <;> cases hd : linkAdrDr cfg region.id drRaw <;> cases pw <;> simp only [hd] at h ⊢ <;>
    exact (Except.pure_eq_ok h).symm

/-- **atomicity of a LinkADRReq block.** Full acknowledgement (0b111) ⇒ data rate, TX power and
channel mask are exactly the commanded ones and nothing else changes; any rejection ⇒ configuration
and channel plan are unchanged. -/
theorem linkAdr_atomic (cfg : Config) (region : RegionState) (mask : Mask) (rfu : Bool) (drRaw pwRaw : Nat)
    (ans : Nat) (cfg' : Config) (region' : RegionState)
    (h : linkAdrDecide cfg region mask rfu drRaw pwRaw = .ok (ans, cfg', region')) :
    (ans = 7 → ∃ d p, linkAdrDr cfg region.id drRaw = some d ∧ linkAdrPw cfg region.id pwRaw = .ok (some p) ∧
        cfg' = { cfg with dataRate := d, txPower := p } ∧ region' = channelMaskSet region mask)
    ∧ (ans ≠ 7 → cfg' = cfg ∧ region' = region) := by
  obtain ⟨pw, cm, hpw, hcm, hres⟩ := linkAdr_decide_eq _ _ _ _ _ _ _ h
  cases cm <;> cases hd : linkAdrDr cfg region.id drRaw <;> cases pw <;> simp only [hd] at hres <;>
    simp only [Prod.mk.injEq] at hres <;> obtain ⟨rfl, rfl, rfl⟩ := hres <;> simp_all

/-- the commanded data rate: 15 = keep, otherwise the value itself, and only if the region defines it -/
theorem linkAdrDr_spec (cfg : Config) (r : RegionId) (drRaw d : Nat) (h : linkAdrDr cfg r drRaw = some d) :
    (drRaw = 15 ∧ d = cfg.dataRate) ∨ (drRaw ≠ 15 ∧ d = drRaw ∧ isUplinkDatarate r drRaw) := by
  unfold linkAdrDr at h
  by_cases h15 : (drRaw == 15) = true
  · simp [h15] at h; left; simp_all
  · simp only [h15, if_false, Bool.false_eq_true] at h
    by_cases hg : isUplinkDatarate r drRaw = true
    · simp [hg] at h; right; simp_all
    · simp [hg] at h

/-- an RFU ChMaskCntl, an undefined data rate and an undefined power index are each refused -/
theorem linkAdr_rejects (cfg : Config) (region : RegionState) (mask : Mask) (rfu : Bool) (drRaw pwRaw : Nat)
    (ans : Nat) (cfg' : Config) (region' : RegionState)
    (h : linkAdrDecide cfg region mask rfu drRaw pwRaw = .ok (ans, cfg', region')) :
    (rfu = true → ans % 2 = 0)
    ∧ ((drRaw ≠ 15 ∧ isUplinkDatarate region.id drRaw = false) → ans / 2 % 2 = 0)
    ∧ ((pwRaw ≠ 15 ∧ txPowerAdjust region.id pwRaw = .ok none) → ans / 4 = 0) := by
  obtain ⟨pw, cm, hpw, hcm, hres⟩ := linkAdr_decide_eq _ _ _ _ _ _ _ h
  have hans : ans = (if cm then 1 else 0) + (if (linkAdrDr cfg region.id drRaw).isSome then 2 else 0) + (if pw.isSome then 4 else 0) := by
    cases cm <;> cases hd : linkAdrDr cfg region.id drRaw <;> cases pw <;> simp only [hd] at hres <;>
      simp only [Prod.mk.injEq] at hres <;> obtain ⟨rfl, _, _⟩ := hres <;> simp
  refine ⟨?_, ?_, ?_⟩
  · intro hr
    have : cm = false := by
      unfold linkAdrCmAck at hcm
      obtain ⟨_, _, hcm⟩ := Except.bind_eq_ok hcm
      simp only [hr, if_true] at hcm
      exact (Except.pure_eq_ok hcm).symm
    subst this
    rw [hans]; simp only [Bool.false_eq_true, if_false]; (repeat' split) <;> omega
  · intro ⟨h15, hg⟩
    have : linkAdrDr cfg region.id drRaw = none := by
      unfold linkAdrDr
      have : (drRaw == 15) = false := by simp [h15]
      simp [this, hg]
    rw [hans, this]; simp only [Option.isSome_none, Bool.false_eq_true, if_false]; cases cm <;> (repeat' split) <;> omega
  · intro ⟨h15, hg⟩
    have : pw = none := by
      unfold linkAdrPw at hpw
      have : (pwRaw == 15) = false := by simp [h15]
      simp only [this, Bool.false_eq_true, if_false, hg, bind, Except.bind] at hpw
      exact (Except.pure_eq_ok hpw).symm
    subst this
    rw [hans]; simp only [Option.isSome_none, Bool.false_eq_true, if_false]; cases cm <;> (repeat' split) <;> omega

/-! ## stickiness -/

/-- wire form of an answer -/
def wire (a : Nat × List Nat) : List Nat := a.1 :: a.2

/-- a list of whole answers: every payload has the length the uplink command table gives its CID -/
def Whole (as : List (Nat × List Nat)) : Prop := ∀ a ∈ as, uplinkCmdLen a.1 = some a.2.length

/-- `clear_mac_commands(true)` keeps exactly the sticky answers, in order, and drops all others -/
theorem retainSticky_spec (as : List (Nat × List Nat)) (h : Whole as) (fuel : Nat)
    (hf : (as.map wire).flatten.length < fuel) :
    retainSticky fuel (as.map wire).flatten = ((as.filter (fun a => isSticky a.1)).map wire).flatten := by
  induction as generalizing fuel with
  | nil => cases fuel <;> simp [retainSticky]
  | cons a rest ih =>
    obtain ⟨cid, p⟩ := a
    have hlen : uplinkCmdLen cid = some p.length := h (cid, p) (List.mem_cons_self)
    have hrest : Whole rest := fun b hb => h b (List.mem_cons_of_mem _ hb)
    cases fuel with
    | zero => simp at hf
    | succ fuel =>
      simp only [List.map_cons, List.flatten_cons, wire, List.cons_append, retainSticky, hlen]
      have hnl : ¬ (p ++ (rest.map wire).flatten).length < p.length := by simp
      simp only [hnl, if_false, List.take_left', List.drop_left', List.filter_cons]
      have hf' : (rest.map wire).flatten.length < fuel := by
        simp only [List.map_cons, List.flatten_cons, wire, List.length_cons, List.length_append] at hf
        omega
      rw [ih hrest fuel hf']
      split <;> simp_all [wire]

/-! ## NewChannelReq / DlChannelReq: acknowledged ⇒ exactly the commanded effect, otherwise nothing -/

/-- the channel after an acknowledged DlChannelReq -/
def withDl (c : Channel) (freq : Nat) : Channel := { c with dlFreq := if freq == c.freq then none else some freq }

/-- the region state with slot `index` of the dynamic plan `p` replaced and mask `m` -/
def setSlot (rs : RegionState) (p : DynPlan) (index : Nat) (slot : Option Channel) (m : Mask) : RegionState :=
  { rs with plan := .dyn { channels := p.channels.set index slot, mask := m } }

/-- **DlChannelReq.** The frequency bit of the answer is the band check; unless both bits are set
the channel plan is unchanged; when both are set, channel `index` existed, was enabled, and is the
only thing that changed: its RX1 frequency is now the requested one (a request naming the uplink
frequency itself drops the separate downlink frequency, which is the same frequency), mask and all
other channels are untouched. -/
theorem dlChannel_atomic (rs rs' : RegionState) (index freq : Nat) (a b : Bool)
    (h : channelDlUpdate rs index freq = .ok ((a, b), rs')) :
    a = frequencyValid rs.id freq
    ∧ ((a && b) = false → rs' = rs)
    ∧ ((a && b) = true → ∃ p c, rs.plan = .dyn p ∧ index < 16 ∧ p.channels[index]? = some (some c) ∧ c.freq ≠ 0 ∧
        p.mask.isEnabled index = .ok true ∧ rs' = setSlot rs p index (some (withDl c freq)) p.mask) := by
  unfold channelDlUpdate at h
  cases hp : rs.plan with
  | fix q => simp [hp, Model.panic] at h
  | dyn p =>
    simp only [hp] at h
    split at h
    · cases Except.pure_eq_ok h; simp
    · rename_i hidx
      obtain ⟨en, hen, h⟩ := Except.bind_eq_ok h
      split at h
      · simp [Model.panic] at h
      · rename_i slot hslot
        split at h
        · rename_i c
          split at h
          · rename_i hf
            split at h
            · rename_i hfv
              cases Except.pure_eq_ok h
              refine ⟨rfl, by simp [hfv], fun _ => ⟨p, c, rfl, by omega, hslot, by simpa using hf, hen, rfl⟩⟩
            · rename_i hfv
              cases Except.pure_eq_ok h
              have : frequencyValid rs.id freq = false := by simpa using hfv
              simp [this]
          · cases Except.pure_eq_ok h; simp
        · cases Except.pure_eq_ok h; simp

/-- after an acknowledged DlChannelReq the channel's RX1 frequency is the requested frequency -/
theorem dlChannel_rx1 (c : Channel) (freq : Nat) : (withDl c freq).dlFreq.getD (withDl c freq).freq = freq := by
  unfold withDl
  by_cases h : freq = c.freq <;> simp [h]

/-- **NewChannelReq.** Default (join) channels and indices ≥ 16 are refused with both bits clear;
unless both bits are set nothing changes; when both are set the slot `index` holds exactly the
commanded channel (or is removed for frequency 0), its mask bit follows, and every other slot is
untouched. -/
theorem newChannel_atomic (rs rs' : RegionState) (index freq : Nat) (dr : Option Nat) (a b : Bool)
    (h : handleNewChannel rs index freq dr = .ok ((a, b), rs')) :
    ((index < numJoinChannels rs.id ∨ index ≥ 16) → a = false ∧ b = false)
    ∧ ((a && b) = false → rs' = rs)
    ∧ ((a && b) = true → ∃ p m, rs.plan = .dyn p ∧ numJoinChannels rs.id ≤ index ∧ index < 16 ∧
        ((freq = 0 ∧ p.mask.setChannel index false = .ok m ∧ rs' = setSlot rs p index none m)
         ∨ (freq ≠ 0 ∧ frequencyValid rs.id freq = true ∧ ∃ r, dr = some r ∧ p.mask.setChannel index true = .ok m ∧
            rs' = setSlot rs p index (some { freq := freq, drRange := r, dlFreq := none }) m))) := by
  unfold handleNewChannel at h
  cases hp : rs.plan with
  | fix q => simp [hp, Model.panic] at h
  | dyn p =>
    simp only [hp] at h
    split at h
    · cases Except.pure_eq_ok h; simp
    · rename_i h1
      split at h
      · cases Except.pure_eq_ok h; simp
      · rename_i h2
        split at h
        · rename_i hf0
          obtain ⟨m, hm, h⟩ := Except.bind_eq_ok h
          cases Except.pure_eq_ok h
          refine ⟨by omega, by simp, fun _ => ⟨p, m, rfl, by omega, by omega, Or.inl ⟨by simpa using hf0, hm, rfl⟩⟩⟩
        · rename_i hf0
          have hfne : freq ≠ 0 := by simpa using hf0
          cases dr with
          | none =>
            cases Except.pure_eq_ok h
            refine ⟨by omega, by simp, by simp⟩
          | some r =>
            simp only at h
            obtain ⟨sup, hsup, h⟩ := Except.bind_eq_ok h
            split at h
            · rename_i hboth
              obtain ⟨m, hm, h⟩ := Except.bind_eq_ok h
              cases Except.pure_eq_ok h
              have hb : frequencyValid rs.id freq = true ∧ b = true := by simpa using hboth
              refine ⟨by omega, by simp [hb.1, hb.2], fun _ => ⟨p, m, rfl, by omega, by omega, Or.inr ⟨hfne, hb.1, r, rfl, hm, rfl⟩⟩⟩
            · rename_i hboth
              cases Except.pure_eq_ok h
              refine ⟨by omega, by simp, fun hh => absurd hh hboth⟩

/-! ## the whole command stream of a downlink -/


/-- a LinkADRReq block applied to the working copy of the channel mask: every command of the block
updates it; a ChMaskCntl the region does not define marks the whole block -/
def blockMask (region : RegionState) : Mask → Bool → List (List Nat) → M (Mask × Bool)
  | mask, rfu, [] => pure (mask, rfu)
  | mask, rfu, p :: ps => do
    let b3 ← byteAt p 3
    let b1 ← byteAt p 1
    let b2 ← byteAt p 2
    let upd ← channelMaskUpdate region mask ((b3 / 16) % 8) b1 b2
    match upd with
    | some m => blockMask region m rfu ps
    | none => blockMask region mask true ps

def startsAdr : List (Nat × List Nat) → Bool
  | (0x03, _) :: _ => true
  | _ => false

/-- the model's handling of a maximal run of LinkADRReq commands: fold the masks, decide once (with
DataRate_TXPower of the LAST command), answer every command of the run with that decision, go on with
a fresh working copy -/
theorem handleCmds_adr_run (snr : Int) (ps : List (List Nat)) (p : List Nat) (rest : List (Nat × List Nat)) (c : MacCtx)
    (mask : Mask) (rfu : Bool) (nAdr : Nat) (hr : startsAdr rest = false) :
    handleCmds snr ((ps ++ [p]).map (fun q => (0x03, q)) ++ rest) c mask rfu nAdr =
      (blockMask c.region mask rfu (ps ++ [p]) >>= fun mr =>
        finishLinkAdrBlock c mr.1 mr.2 (nAdr + ps.length + 1) p >>= fun c1 =>
          handleCmds snr rest c1 (channelMaskGet c1.region) false 0) := by
  induction ps generalizing mask rfu nAdr with
  | nil =>
    simp only [List.nil_append, List.map_cons, List.map_nil, List.cons_append, List.length_nil, Nat.add_zero]
    rw [handleCmds]
    simp only [blockMask, bind, Except.bind]
    cases byteAt p 3 with
    | error e => rfl
    | ok b3 =>
      simp only []
      cases byteAt p 1 with
      | error e => rfl
      | ok b1 =>
        simp only []
        cases byteAt p 2 with
        | error e => rfl
        | ok b2 =>
          simp only []
          cases channelMaskUpdate c.region mask (b3 / 16 % 8) b1 b2 with
          | error e => rfl
          | ok upd =>
            simp only []
            cases upd with
            | none =>
              simp only [pure, Except.pure]
              split
              · rename_i q tail; simp [startsAdr] at hr
              · rfl
            | some m =>
              simp only [pure, Except.pure]
              split
              · rename_i q tail; simp [startsAdr] at hr
              · rfl
  | cons q ps ih =>
    simp only [List.cons_append, List.map_cons, List.length_cons]
    rw [handleCmds]
    simp only [blockMask, bind, Except.bind]
    cases byteAt q 3 with
    | error e => rfl
    | ok b3 =>
      simp only []
      cases byteAt q 1 with
      | error e => rfl
      | ok b1 =>
        simp only []
        cases byteAt q 2 with
        | error e => rfl
        | ok b2 =>
          simp only []
          cases channelMaskUpdate c.region mask (b3 / 16 % 8) b1 b2 with
          | error e => rfl
          | ok upd =>
            simp only []
            have hnext : ∃ q' tail, (ps ++ [p]).map (fun q => ((0x03 : Nat), q)) ++ rest = (0x03, q') :: tail := by
              cases ps with
              | nil => exact ⟨p, rest, rfl⟩
              | cons q' ps' => exact ⟨q', _, rfl⟩
            obtain ⟨q', tail, hnext⟩ := hnext
            cases upd with
            | none =>
              simp only []
              have := ih mask true (nAdr + 1)
              rw [hnext] at this ⊢
              simp only []
              rw [this]
              have : nAdr + 1 + ps.length + 1 = nAdr + (ps.length + 1) + 1 := by omega
              rw [this]; rfl
            | some m =>
              simp only []
              have := ih m rfu (nAdr + 1)
              rw [hnext] at this ⊢
              simp only []
              rw [this]
              have : nAdr + 1 + ps.length + 1 = nAdr + (ps.length + 1) + 1 := by omega
              rw [this]; rfl



/-! ## the whole command stream -/

abbrev Cmd := Nat × List Nat
abbrev Ans := Nat × List Nat
/-- configuration, channel plan, and the working copy of the channel mask LinkADRReq blocks start
from (`region.channel_mask_get()` at the start of the downlink and again after each block) -/
abbrev St := Config × RegionState × Mask

/-- the requests this device handles (and answers) in region `r`; everything else is skipped -/
def handled (r : RegionId) (cid : Nat) : Bool :=
  cid == 0x03 || cid == 0x05 || cid == 0x06 || cid == 0x08 || ((cid == 0x07 || cid == 0x0A) && !r.isFixed)

/-- RXParamSetupReq with answer `ans`: acknowledged ⇒ exactly the commanded RX1 offset, RX2 data rate
and RX2 frequency; any rejection ⇒ nothing changed; invalid fields are rejected bit by bit -/
def RxParamOutcome (st : St) (p : List Nat) (ans : Nat) (st' : St) : Prop :=
  ∃ dl f, byteAt p 0 = .ok dl ∧ freq24 p 1 = .ok f ∧ st'.2 = st.2 ∧
    (ans = 7 → st'.1 = { st.1 with rx2DataRate := (if dl % 16 == 15 then st.1.rx2DataRate else some (dl % 16)),
                                    rx2Frequency := some f, rx1DrOffset := (dl / 16) % 8 }) ∧
    (ans ≠ 7 → st'.1 = st.1) ∧
    (frequencyValid st.2.1.id f = false → ans % 2 = 0) ∧
    ((dl % 16 ≠ 15 ∧ getDatarate st.2.1.id (dl % 16) = none) → ans / 2 % 2 = 0) ∧
    (maxRx1DrOffset st.2.1.id < (dl / 16) % 8 → ans / 4 = 0) ∧ ans ≤ 7

/-- RXTimingSetupReq: always accepted, the delay is the commanded one -/
def RxTimingOutcome (st : St) (p : List Nat) (st' : St) : Prop :=
  ∃ b d, byteAt p 0 = .ok b ∧ delToDelayMs (b % 16) = .ok d ∧ st' = ({ st.1 with rx1Delay := d }, st.2)

/-- NewChannelReq (dynamic plans): see `newChannel_atomic` -/
def NewChannelOutcome (st : St) (p : List Nat) (ans : Nat) (st' : St) : Prop :=
  ∃ idx f r a b, byteAt p 0 = .ok idx ∧ freq24 p 1 = .ok f ∧ byteAt p 4 = .ok r ∧
    ans = (if a then 1 else 0) + (if b then 2 else 0) ∧ st'.1 = st.1 ∧ st'.2.2 = st.2.2 ∧
    ((idx < numJoinChannels st.2.1.id ∨ idx ≥ 16) → a = false ∧ b = false) ∧
    ((a && b) = false → st'.2.1 = st.2.1) ∧
    ((a && b) = true → ∃ pl m, st.2.1.plan = .dyn pl ∧ numJoinChannels st.2.1.id ≤ idx ∧ idx < 16 ∧
      ((f = 0 ∧ pl.mask.setChannel idx false = .ok m ∧ st'.2.1 = setSlot st.2.1 pl idx none m)
       ∨ (f ≠ 0 ∧ frequencyValid st.2.1.id f = true ∧ r % 16 ≤ r / 16 ∧ pl.mask.setChannel idx true = .ok m ∧
          st'.2.1 = setSlot st.2.1 pl idx (some { freq := f, drRange := r, dlFreq := none }) m)))

/-- DlChannelReq (dynamic plans): see `dlChannel_atomic` -/
def DlChannelOutcome (st : St) (p : List Nat) (ans : Nat) (st' : St) : Prop :=
  ∃ idx f a b, byteAt p 0 = .ok idx ∧ freq24 p 1 = .ok f ∧
    ans = (if a then 1 else 0) + (if b then 2 else 0) ∧ st'.1 = st.1 ∧ st'.2.2 = st.2.2 ∧
    a = frequencyValid st.2.1.id f ∧
    ((a && b) = false → st'.2.1 = st.2.1) ∧
    ((a && b) = true → ∃ pl c, st.2.1.plan = .dyn pl ∧ idx < 16 ∧ pl.channels[idx]? = some (some c) ∧ c.freq ≠ 0 ∧
        pl.mask.isEnabled idx = .ok true ∧ st'.2.1 = setSlot st.2.1 pl idx (some (withDl c f)) pl.mask)

/-- a LinkADRReq block (`ps`: the payloads of its commands, `last` the final one): ONE decision
`ans` for the whole block; fully acknowledged ⇒ data rate and TX power are those of the LAST command,
the channel mask is the working copy after all commands of the block; any rejection ⇒ nothing changed;
an undefined ChMaskCntl, data rate or power index is refused -/
def LinkAdrOutcome (st : St) (ps : List (List Nat)) (last : List Nat) (ans : Nat) (st' : St) : Prop :=
  ∃ mask rfu b0, blockMask st.2.1 st.2.2 false ps = .ok (mask, rfu) ∧ byteAt last 0 = .ok b0 ∧
    (ans = 7 → ∃ d pw, linkAdrDr st.1 st.2.1.id (b0 / 16) = some d ∧ linkAdrPw st.1 st.2.1.id (b0 % 16) = .ok (some pw) ∧
        st'.1 = { st.1 with dataRate := d, txPower := pw } ∧ st'.2.1 = channelMaskSet st.2.1 mask) ∧
    (ans ≠ 7 → st'.1 = st.1 ∧ st'.2.1 = st.2.1) ∧
    st'.2.2 = channelMaskGet st'.2.1 ∧
    (rfu = true → ans % 2 = 0) ∧
    ((b0 / 16 ≠ 15 ∧ isUplinkDatarate st.2.1.id (b0 / 16) = false) → ans / 2 % 2 = 0) ∧
    ((b0 % 16 ≠ 15 ∧ txPowerAdjust st.2.1.id (b0 % 16) = .ok none) → ans / 4 = 0) ∧ ans ≤ 7

/-- **the answers to a downlink's command stream, and what the stream did**: one answer per handled
request, in request order; a LinkADRReq block is answered with identical copies (one per command);
each answer goes with the outcome the property demands (acknowledged ⇒ took effect exactly,
rejected ⇒ changed nothing) -/
inductive Answers (snr : Int) : List Cmd → St → List Ans → St → Prop
  | nil (st : St) : Answers snr [] st [] st
  | skip (cid : Nat) (p : List Nat) (rest : List Cmd) (st : St) (as : List Ans) (st' : St)
      (h : handled st.2.1.id cid = false) (hr : Answers snr rest st as st') : Answers snr ((cid, p) :: rest) st as st'
  | devStatus (p : List Nat) (rest : List Cmd) (st : St) (as : List Ans) (st' : St)
      (hr : Answers snr rest st as st') : Answers snr ((0x06, p) :: rest) st ((0x06, [255, devStatusMargin snr]) :: as) st'
  | rxParam (p : List Nat) (rest : List Cmd) (st : St) (ans : Nat) (st1 : St) (as : List Ans) (st' : St)
      (h : RxParamOutcome st p ans st1) (hr : Answers snr rest st1 as st') :
      Answers snr ((0x05, p) :: rest) st ((0x05, [ans]) :: as) st'
  | rxTiming (p : List Nat) (rest : List Cmd) (st st1 : St) (as : List Ans) (st' : St)
      (h : RxTimingOutcome st p st1) (hr : Answers snr rest st1 as st') :
      Answers snr ((0x08, p) :: rest) st ((0x08, []) :: as) st'
  | newChannel (p : List Nat) (rest : List Cmd) (st : St) (ans : Nat) (st1 : St) (as : List Ans) (st' : St)
      (hf : st.2.1.id.isFixed = false) (h : NewChannelOutcome st p ans st1) (hr : Answers snr rest st1 as st') :
      Answers snr ((0x07, p) :: rest) st ((0x07, [ans]) :: as) st'
  | dlChannel (p : List Nat) (rest : List Cmd) (st : St) (ans : Nat) (st1 : St) (as : List Ans) (st' : St)
      (hf : st.2.1.id.isFixed = false) (h : DlChannelOutcome st p ans st1) (hr : Answers snr rest st1 as st') :
      Answers snr ((0x0A, p) :: rest) st ((0x0A, [ans]) :: as) st'
  | linkAdr (ps : List (List Nat)) (p : List Nat) (rest : List Cmd) (st : St) (ans : Nat) (st1 : St) (as : List Ans) (st' : St)
      (hrest : startsAdr rest = false) (h : LinkAdrOutcome st (ps ++ [p]) p ans st1) (hr : Answers snr rest st1 as st') :
      Answers snr ((ps ++ [p]).map (fun q => (0x03, q)) ++ rest) st (List.replicate (ps.length + 1) (0x03, [ans]) ++ as) st'

/-- queueing a list of answers -/
def pushAll (c : MacCtx) (as : List Ans) : MacCtx := as.foldl (fun c a => c.push a.1 a.2) c

theorem pushAll_cfg (c : MacCtx) (as : List Ans) : (pushAll c as).cfg = c.cfg ∧ (pushAll c as).region = c.region := by
  induction as generalizing c with
  | nil => exact ⟨rfl, rfl⟩
  | cons a rest ih =>
    simp only [pushAll, List.foldl_cons]
    have := ih (c.push a.1 a.2)
    simp only [pushAll] at this
    rw [this.1, this.2]
    exact push_cfg c a.1 a.2

theorem adr_split (cmds : List Cmd) (h : startsAdr cmds = true) :
    ∃ ps p rest, cmds = (ps ++ [p]).map (fun q => ((0x03 : Nat), q)) ++ rest ∧ startsAdr rest = false := by
  induction cmds with
  | nil => simp [startsAdr] at h
  | cons x rest ih =>
    obtain ⟨cid, q⟩ := x
    have hc : cid = 3 := by
      unfold startsAdr at h
      split at h
      · rename_i heq; simp only [List.cons.injEq, Prod.mk.injEq] at heq; exact heq.1.1
      · cases h
    subst hc
    by_cases hr : startsAdr rest = true
    · obtain ⟨ps, p, rest', e, hr'⟩ := ih hr
      exact ⟨q :: ps, p, rest', by rw [e]; rfl, hr'⟩
    · exact ⟨[], q, rest, rfl, by simpa using hr⟩


theorem handleCmds_skip (snr : Int) (cid : Nat) (p : List Nat) (rest : List Cmd) (c : MacCtx) (mask : Mask) (rfu : Bool) (nAdr : Nat)
    (h : handled c.region.id cid = false) :
    handleCmds snr ((cid, p) :: rest) c mask rfu nAdr = handleCmds snr rest c mask rfu nAdr := by
  unfold handled at h
  simp only [Bool.or_eq_false_iff, Bool.and_eq_false_iff, beq_eq_false_iff_ne, ne_eq, Bool.not_eq_false'] at h
  obtain ⟨⟨⟨⟨h3, h5⟩, h6⟩, h8⟩, h7a⟩ := h
  by_cases e7 : cid = 7
  · subst e7
    have hf : c.region.id.isFixed = true := by rcases h7a with h | h; exact absurd rfl h.1; exact h
    rw [handleCmds]; simp [hf]
  · by_cases e10 : cid = 10
    · subst e10
      have hf : c.region.id.isFixed = true := by rcases h7a with h | h; exact absurd rfl h.2; exact h
      rw [handleCmds]; simp [hf]
    · rw [handleCmds] <;> (intro e; first | exact h3 e | exact h5 e | exact h6 e | exact h8 e | exact e7 e | exact e10 e)

/-- the state a context stands for, with working mask copy `mask` -/
def stOf (c : MacCtx) (mask : Mask) : St := (c.cfg, c.region, mask)

theorem pushAll_cons (c : MacCtx) (a : Ans) (as : List Ans) : pushAll c (a :: as) = pushAll (c.push a.1 a.2) as := rfl

theorem pushAll_append (c : MacCtx) (as bs : List Ans) : pushAll c (as ++ bs) = pushAll (pushAll c as) bs := by
  simp [pushAll, List.foldl_append]

theorem pushAll_replicate (c : MacCtx) (n : Nat) (cid : Nat) (pl : List Nat) :
    (List.range n).foldl (fun c _ => c.push cid pl) c = pushAll c (List.replicate n (cid, pl)) := by
  induction n generalizing c with
  | zero => rfl
  | succ n ih =>
    rw [List.range_succ, List.foldl_append, ih]
    simp only [List.foldl_cons, List.foldl_nil]
    rw [List.replicate_succ', pushAll_append]
    rfl

/-- pushing answers onto a context with other configuration: pending and flag move alike -/
theorem pushAll_pending_congr (c d : MacCtx) (as : List Ans) (hp : c.pending = d.pending) (hf : c.full = d.full) :
    (pushAll c as).pending = (pushAll d as).pending ∧ (pushAll c as).full = (pushAll d as).full := by
  induction as generalizing c d with
  | nil => exact ⟨hp, hf⟩
  | cons a rest ih =>
    rw [pushAll_cons, pushAll_cons]
    apply ih
    · unfold MacCtx.push; rw [hp, hf]; (repeat' split) <;> simp_all
    · unfold MacCtx.push; rw [hp, hf]; (repeat' split) <;> simp_all

theorem handleCmds_sem_aux (snr : Int) (n : Nat) : ∀ (cmds : List Cmd), cmds.length ≤ n → ∀ (c c' : MacCtx) (mask : Mask),
    handleCmds snr cmds c mask false 0 = .ok c' →
    ∃ as mask', Answers snr cmds (stOf c mask) as (stOf c' mask') ∧
      c'.pending = (pushAll c as).pending ∧ c'.full = (pushAll c as).full := by
  induction n with
  | zero =>
    intro cmds hlen c c' mask h
    have : cmds = [] := List.length_eq_zero_iff.mp (by omega)
    subst this
    rw [handleCmds] at h
    cases h
    exact ⟨[], mask, .nil _, rfl, rfl⟩
  | succ n ih =>
    intro cmds hlen c c' mask h
    cases cmds with
    | nil =>
      rw [handleCmds] at h
      cases h
      exact ⟨[], mask, .nil _, rfl, rfl⟩
    | cons x rest =>
      obtain ⟨cid, p⟩ := x
      have hrl : rest.length ≤ n := by simp only [List.length_cons] at hlen; omega
      by_cases hh : handled c.region.id cid = false
      · rw [handleCmds_skip snr cid p rest c mask false 0 hh] at h
        obtain ⟨as, mask', ha, hp, hf⟩ := ih rest hrl c c' mask h
        exact ⟨as, mask', .skip cid p rest _ as _ hh ha, hp, hf⟩
      · have hh' : handled c.region.id cid = true := by simpa using hh
        unfold handled at hh'
        simp only [Bool.or_eq_true, Bool.and_eq_true, beq_iff_eq, Bool.not_eq_true'] at hh'
        rcases hh' with (((h3 | h5) | h6) | h8) | ⟨h7a, hfix⟩
        · -- LinkADRReq block
          subst h3
          obtain ⟨ps, pl, rest', e, hr'⟩ := adr_split ((3, p) :: rest) rfl
          rw [e, handleCmds_adr_run snr ps pl rest' c mask false 0 hr'] at h
          obtain ⟨⟨mk, rfu⟩, hbm, h⟩ := Except.bind_eq_ok h
          obtain ⟨c1, hfin, h⟩ := Except.bind_eq_ok h
          have hlen' : rest'.length ≤ n := by
            have := congrArg List.length e
            simp only [List.length_cons, List.length_append, List.length_map, List.length_nil] at this
            simp only [List.length_cons] at hlen
            omega
          obtain ⟨as, mask', ha, hp, hf⟩ := ih rest' hlen' c1 c' _ h
          unfold finishLinkAdrBlock at hfin
          obtain ⟨b0, hb0, hfin⟩ := Except.bind_eq_ok hfin
          obtain ⟨⟨ans, cfg1, region1⟩, hdec, hfin⟩ := Except.bind_eq_ok hfin
          have hc1 := Except.pure_eq_ok hfin
          simp only [Nat.zero_add] at hc1
          rw [pushAll_replicate] at hc1
          obtain ⟨hatom7, hatomN⟩ := linkAdr_atomic c.cfg c.region mk rfu (b0 / 16) (b0 % 16) ans cfg1 region1 hdec
          obtain ⟨hrj1, hrj2, hrj3⟩ := linkAdr_rejects c.cfg c.region mk rfu (b0 / 16) (b0 % 16) ans cfg1 region1 hdec
          have hcfg1 : c1.cfg = cfg1 ∧ c1.region = region1 := by rw [← hc1]; exact pushAll_cfg _ _
          have hout : LinkAdrOutcome (stOf c mask) (ps ++ [pl]) pl ans (stOf c1 (channelMaskGet c1.region)) := by
            have hle : ans ≤ 7 := by
              obtain ⟨pw', cm', _, _, hres⟩ := linkAdr_decide_eq _ _ _ _ _ _ _ hdec
              cases cm' <;> cases hd' : linkAdrDr c.cfg c.region.id (b0 / 16) <;> cases pw' <;> simp only [hd'] at hres <;>
                simp only [Prod.mk.injEq] at hres <;> obtain ⟨rfl, _, _⟩ := hres <;> simp
            refine ⟨mk, rfu, b0, hbm, hb0, ?_, ?_, rfl, hrj1, hrj2, hrj3, hle⟩
            · intro h7
              obtain ⟨d, pw, hd, hpw, e1, e2⟩ := hatom7 h7
              exact ⟨d, pw, hd, hpw, by simp only [stOf]; rw [hcfg1.1, e1], by simp only [stOf]; rw [hcfg1.2, e2]⟩
            · intro hn
              obtain ⟨e1, e2⟩ := hatomN hn
              exact ⟨by simp only [stOf]; rw [hcfg1.1, e1], by simp only [stOf]; rw [hcfg1.2, e2]⟩
          refine ⟨List.replicate (ps.length + 1) (3, [ans]) ++ as, mask', ?_, ?_, ?_⟩
          · rw [e]; exact .linkAdr ps pl rest' _ ans _ as _ hr' hout ha
          · rw [hp, pushAll_append]
            have := pushAll_pending_congr c1 (pushAll c (List.replicate (ps.length + 1) (3, [ans]))) as
              (by rw [← hc1]; exact (pushAll_pending_congr { c with cfg := cfg1, region := region1 } c _ rfl rfl).1) (by rw [← hc1]; exact (pushAll_pending_congr { c with cfg := cfg1, region := region1 } c _ rfl rfl).2)
            exact this.1
          · rw [hf, pushAll_append]
            have := pushAll_pending_congr c1 (pushAll c (List.replicate (ps.length + 1) (3, [ans]))) as
              (by rw [← hc1]; exact (pushAll_pending_congr { c with cfg := cfg1, region := region1 } c _ rfl rfl).1) (by rw [← hc1]; exact (pushAll_pending_congr { c with cfg := cfg1, region := region1 } c _ rfl rfl).2)
            exact this.2
        · -- RXParamSetupReq
          subst h5
          rw [handleCmds] at h
          obtain ⟨dl, hdl, h⟩ := Except.bind_eq_ok h
          obtain ⟨f, hf24, h⟩ := Except.bind_eq_ok h
          simp only at h
          obtain ⟨as, mask', ha, hp, hf⟩ := ih rest hrl _ c' mask h
          refine ⟨(5, [(rxParamSetup c.cfg c.region.id dl f).1]) :: as, mask', ?_, ?_, ?_⟩
          · refine .rxParam p rest _ _ (stOf ({ c with cfg := (rxParamSetup c.cfg c.region.id dl f).2 }.push 5 [(rxParamSetup c.cfg c.region.id dl f).1]) mask) as _ ?_ ha
            have hpc := push_cfg { c with cfg := (rxParamSetup c.cfg c.region.id dl f).2 } 5 [(rxParamSetup c.cfg c.region.id dl f).1]
            obtain ⟨r1, r2, r3⟩ := rxParamSetup_rejects c.cfg c.region.id dl f
            have hle : (rxParamSetup c.cfg c.region.id dl f).1 ≤ 7 := by
              unfold rxParamSetup; simp only []; (repeat' split) <;> omega
            refine ⟨dl, f, hdl, hf24, ?_, ?_, ?_, r1, r2, r3, hle⟩
            · simp only [stOf]; rw [hpc.2]
            · intro h7; simp only [stOf]; rw [hpc.1]; exact rxParamSetup_ack c.cfg c.region.id dl f h7
            · intro h7; simp only [stOf]; rw [hpc.1]; exact rxParamSetup_nak c.cfg c.region.id dl f h7
          · rw [hp, pushAll_cons]
            exact (pushAll_pending_congr _ _ as (by unfold MacCtx.push; (repeat' split) <;> rfl) (by unfold MacCtx.push; (repeat' split) <;> rfl)).1
          · rw [hf, pushAll_cons]
            exact (pushAll_pending_congr _ _ as (by unfold MacCtx.push; (repeat' split) <;> rfl) (by unfold MacCtx.push; (repeat' split) <;> rfl)).2
        · -- DevStatusReq
          subst h6
          rw [handleCmds] at h
          obtain ⟨as, mask', ha, hp, hf⟩ := ih rest hrl _ c' mask h
          have hpc := push_cfg c 6 [255, devStatusMargin snr]
          refine ⟨(6, [255, devStatusMargin snr]) :: as, mask', ?_, hp, hf⟩
          have : stOf (c.push 6 [255, devStatusMargin snr]) mask = stOf c mask := by simp only [stOf]; rw [hpc.1, hpc.2]
          rw [this] at ha
          exact .devStatus p rest _ as _ ha
        · -- RXTimingSetupReq
          subst h8
          rw [handleCmds] at h
          obtain ⟨b, hb, h⟩ := Except.bind_eq_ok h
          obtain ⟨d, hd, h⟩ := Except.bind_eq_ok h
          obtain ⟨as, mask', ha, hp, hf⟩ := ih rest hrl _ c' mask h
          refine ⟨(8, []) :: as, mask', ?_, ?_, ?_⟩
          · refine .rxTiming p rest _ (stOf ({ c with cfg := { c.cfg with rx1Delay := d } }.push 8 []) mask) as _ ?_ ha
            have hpc := push_cfg { c with cfg := { c.cfg with rx1Delay := d } } 8 []
            exact ⟨b, d, hb, hd, by simp only [stOf]; rw [hpc.1, hpc.2]⟩
          · rw [hp, pushAll_cons]
            exact (pushAll_pending_congr _ _ as (by unfold MacCtx.push; (repeat' split) <;> rfl) (by unfold MacCtx.push; (repeat' split) <;> rfl)).1
          · rw [hf, pushAll_cons]
            exact (pushAll_pending_congr _ _ as (by unfold MacCtx.push; (repeat' split) <;> rfl) (by unfold MacCtx.push; (repeat' split) <;> rfl)).2
        · rcases h7a with h7 | hA
          · -- NewChannelReq
            subst h7
            rw [handleCmds] at h
            simp only [hfix, Bool.false_eq_true, if_false] at h
            obtain ⟨idx, hidx, h⟩ := Except.bind_eq_ok h
            obtain ⟨f, hf24, h⟩ := Except.bind_eq_ok h
            obtain ⟨r, hr, h⟩ := Except.bind_eq_ok h
            obtain ⟨⟨⟨a, b⟩, region1⟩, hnc, h⟩ := Except.bind_eq_ok h
            simp only at h
            obtain ⟨as, mask', ha, hp, hf⟩ := ih rest hrl _ c' mask h
            obtain ⟨n1, n2, n3⟩ := newChannel_atomic c.region region1 idx f _ a b hnc
            have hpc := push_cfg { c with region := region1 } 7 [(if a then 1 else 0) + (if b then 2 else 0)]
            refine ⟨(7, [(if a then 1 else 0) + (if b then 2 else 0)]) :: as, mask', ?_, ?_, ?_⟩
            · refine .newChannel p rest _ _ (stOf ({ c with region := region1 }.push 7 [(if a then 1 else 0) + (if b then 2 else 0)]) mask) as _ hfix ?_ ha
              refine ⟨idx, f, r, a, b, hidx, hf24, hr, rfl, by simp only [stOf]; rw [hpc.1], rfl, n1, ?_, ?_⟩
              · intro hab; simp only [stOf]; rw [hpc.2]; exact n2 hab
              · intro hab
                obtain ⟨pl, m, hpl, h1, h2, h3⟩ := n3 hab
                refine ⟨pl, m, hpl, h1, h2, ?_⟩
                rcases h3 with ⟨f0, hm, e⟩ | ⟨fne, hfv, r', hr', hm, e⟩
                · exact Or.inl ⟨f0, hm, by simp only [stOf]; rw [hpc.2]; exact e⟩
                · right
                  have hrr : ¬ r / 16 < r % 16 ∧ r' = r := by
                    by_cases hlt : r / 16 < r % 16
                    · simp [hlt] at hr'
                    · simp only [hlt, if_false, Option.some.injEq] at hr'; exact ⟨hlt, hr'.symm⟩
                  obtain ⟨hlt, rfl⟩ := hrr
                  exact ⟨fne, hfv, by omega, hm, by simp only [stOf]; rw [hpc.2]; exact e⟩
            · rw [hp, pushAll_cons]
              exact (pushAll_pending_congr _ _ as (by unfold MacCtx.push; (repeat' split) <;> rfl) (by unfold MacCtx.push; (repeat' split) <;> rfl)).1
            · rw [hf, pushAll_cons]
              exact (pushAll_pending_congr _ _ as (by unfold MacCtx.push; (repeat' split) <;> rfl) (by unfold MacCtx.push; (repeat' split) <;> rfl)).2
          · -- DlChannelReq
            subst hA
            rw [handleCmds] at h
            simp only [hfix, Bool.false_eq_true, if_false] at h
            obtain ⟨idx, hidx, h⟩ := Except.bind_eq_ok h
            obtain ⟨f, hf24, h⟩ := Except.bind_eq_ok h
            obtain ⟨⟨⟨a, b⟩, region1⟩, hdc, h⟩ := Except.bind_eq_ok h
            simp only at h
            obtain ⟨as, mask', ha, hp, hf⟩ := ih rest hrl _ c' mask h
            obtain ⟨d1, d2, d3⟩ := dlChannel_atomic c.region region1 idx f a b hdc
            have hpc := push_cfg { c with region := region1 } 10 [(if a then 1 else 0) + (if b then 2 else 0)]
            refine ⟨(10, [(if a then 1 else 0) + (if b then 2 else 0)]) :: as, mask', ?_, ?_, ?_⟩
            · refine .dlChannel p rest _ _ (stOf ({ c with region := region1 }.push 10 [(if a then 1 else 0) + (if b then 2 else 0)]) mask) as _ hfix ?_ ha
              refine ⟨idx, f, a, b, hidx, hf24, rfl, by simp only [stOf]; rw [hpc.1], rfl, d1, ?_, ?_⟩
              · intro hab; simp only [stOf]; rw [hpc.2]; exact d2 hab
              · intro hab
                obtain ⟨pl, ch, hpl, h1, h2, h3, h4, e⟩ := d3 hab
                exact ⟨pl, ch, hpl, h1, h2, h3, h4, by simp only [stOf]; rw [hpc.2]; exact e⟩
            · rw [hp, pushAll_cons]
              exact (pushAll_pending_congr _ _ as (by unfold MacCtx.push; (repeat' split) <;> rfl) (by unfold MacCtx.push; (repeat' split) <;> rfl)).1
            · rw [hf, pushAll_cons]
              exact (pushAll_pending_congr _ _ as (by unfold MacCtx.push; (repeat' split) <;> rfl) (by unfold MacCtx.push; (repeat' split) <;> rfl)).2


/-- the parsed command stream of a byte string (FOpts or a port-0 payload) -/
def cmdsOf (bytes : List Nat) : List Cmd := parseDownlinkCmds (bytes.length + 1) bytes

/-- queueing whole answers greedily into `room` bytes: after the first answer that does not fit,
nothing is queued any more — only trailing answers are lost -/
def fit : Nat → List Ans → List Ans
  | _, [] => []
  | room, a :: as => if a.2.length + 1 ≤ room then a :: fit (room - (a.2.length + 1)) as else []

/-- wire form of a list of answers -/
def wires (as : List Ans) : List Nat := (as.map wire).flatten

theorem pushAll_full (c : MacCtx) (as : List Ans) (h : c.full = true) : pushAll c as = c := by
  induction as with
  | nil => rfl
  | cons a rest ih => rw [pushAll_cons, push_after_full c a.1 a.2 h, ih]

theorem pushAll_spec (c : MacCtx) (as : List Ans) (h : c.full = false) :
    (pushAll c as).pending = c.pending ++ wires (fit (15 - c.pending.length) as) ∧
    ((pushAll c as).full = true ↔ fit (15 - c.pending.length) as ≠ as) := by
  induction as generalizing c with
  | nil => simp [pushAll, fit, wires, h]
  | cons a rest ih =>
    obtain ⟨cid, pl⟩ := a
    rw [pushAll_cons]
    rcases push_drop_iff c cid pl h with ⟨hp, hf, hfit⟩ | ⟨hp, hf, hnofit⟩
    · have hcond : pl.length + 1 ≤ 15 - c.pending.length := by omega
      obtain ⟨ih1, ih2⟩ := ih (c.push cid pl) hf
      have hroom : 15 - (c.push cid pl).pending.length = 15 - c.pending.length - (pl.length + 1) := by
        rw [hp]; simp only [List.length_append, List.length_cons]; omega
      rw [hroom] at ih1 ih2
      simp only [fit, hcond, if_true]
      constructor
      · rw [ih1, hp]; simp [wires, wire]
      · rw [ih2]; simp
    · have hcond : ¬ pl.length + 1 ≤ 15 - c.pending.length := by omega
      rw [pushAll_full _ _ hf]
      simp only [fit, hcond, if_false]
      exact ⟨by rw [hp]; simp [wires], by simp [hf]⟩

theorem fit_prefix (room : Nat) (as : List Ans) : fit room as <+: as := by
  induction as generalizing room with
  | nil => exact List.prefix_refl _
  | cons a rest ih =>
    unfold fit
    split
    · exact (List.prefix_cons_inj a).mpr (ih _)
    · exact List.nil_prefix

theorem wires_fit_le (room : Nat) (as : List Ans) : (wires (fit room as)).length ≤ room := by
  induction as generalizing room with
  | nil => simp [fit, wires]
  | cons a rest ih =>
    unfold fit
    split
    · rename_i h
      have := ih (room - (a.2.length + 1))
      simp only [wires, List.map_cons, List.flatten_cons, List.length_append, wire, List.length_cons] at this ⊢
      omega
    · simp [wires]

/-- **the answers to a whole downlink command stream** (`handle_downlink_macs` on FOpts or on a
port-0 payload): there is a list `as` of answers — ONE per handled request, in request order, a
LinkADRReq block answered with identical copies, each with the outcome `Answers` spells out
(acknowledged ⇒ took effect exactly as commanded, any rejection ⇒ changed nothing, invalid fields
rejected) — and the pending queue after the stream is the old queue followed by exactly the whole
answers of the longest prefix of `as` that fits the 15-byte limit (`fit`): cut only where the limit is
reached, and nothing later is kept. -/
theorem handleCmds_answers (snr : Int) (bytes : List Nat) (c c' : MacCtx) (hfull : c.full = false)
    (h : handleDownlinkMacs snr bytes c = .ok c') :
    ∃ as mask', Answers snr (cmdsOf bytes) (c.cfg, c.region, channelMaskGet c.region) as (c'.cfg, c'.region, mask') ∧
      c'.pending = c.pending ++ wires (fit (15 - c.pending.length) as) ∧
      (c'.full = true ↔ fit (15 - c.pending.length) as ≠ as) := by
  unfold handleDownlinkMacs at h
  obtain ⟨as, mask', ha, hp, hf⟩ := handleCmds_sem_aux snr _ _ (Nat.le_refl _) c c' _ h
  obtain ⟨s1, s2⟩ := pushAll_spec c as hfull
  exact ⟨as, mask', ha, by rw [hp, s1], by rw [hf, s2]⟩

/-- once the queue is closed (an earlier answer of this downlink did not fit) the stream still takes
effect but queues nothing -/
theorem handleCmds_answers_full (snr : Int) (bytes : List Nat) (c c' : MacCtx) (hfull : c.full = true)
    (h : handleDownlinkMacs snr bytes c = .ok c') :
    ∃ as mask', Answers snr (cmdsOf bytes) (c.cfg, c.region, channelMaskGet c.region) as (c'.cfg, c'.region, mask') ∧
      c'.pending = c.pending ∧ c'.full = true := by
  unfold handleDownlinkMacs at h
  obtain ⟨as, mask', ha, hp, hf⟩ := handleCmds_sem_aux snr _ _ (Nat.le_refl _) c c' _ h
  rw [pushAll_full c as hfull] at hp hf
  exact ⟨as, mask', ha, hp, by rw [hf, hfull]⟩


theorem fit_append_of_all (room : Nat) (as bs : List Ans) (h : fit room as = as) :
    fit room (as ++ bs) = as ++ fit (room - (wires as).length) bs := by
  induction as generalizing room with
  | nil => simp [wires]
  | cons a rest ih =>
    unfold fit at h
    split at h
    · rename_i hc
      simp only [List.cons.injEq, true_and] at h
      simp only [List.cons_append, fit, hc, if_true, ih _ h, wires, List.map_cons, List.flatten_cons, List.length_append, wire,
        List.length_cons]
      congr 2
      simp only [wires] at *
      congr 1
      omega
    · cases h

theorem fit_append_of_cut (room : Nat) (as bs : List Ans) (h : fit room as ≠ as) : fit room (as ++ bs) = fit room as := by
  induction as generalizing room with
  | nil => exact absurd rfl h
  | cons a rest ih =>
    simp only [List.cons_append, fit] at h ⊢
    split
    · rename_i hc
      simp only [hc, if_true, ne_eq, List.cons.injEq, true_and] at h
      rw [ih _ h]
    · rfl

/-- **both command streams of a frame accepted in a Class A window** (FOpts, then the FRMPayload when
it is on port 0): the queue left for the next uplink is exactly the whole answers of the longest
prefix of all answers, in request order, that fits 15 bytes — answers pending from before are gone -/
theorem accept_answers (pending : List Nat) (cfg : Config) (region : RegionState) (d : RxData) (snr : Int) (ctx : MacCtx)
    (h : acceptCmds pending cfg region d snr false = .ok ctx) :
    ∃ as1 as2 cfg1 rg1 m1,
      Answers snr (cmdsOf d.fopts) (cfg, region, channelMaskGet region) as1 (cfg1, rg1, m1) ∧
      (if d.fport = some 0 then ∃ m2, Answers snr (cmdsOf d.payload) (cfg1, rg1, channelMaskGet rg1) as2 (ctx.cfg, ctx.region, m2)
       else as2 = [] ∧ ctx.cfg = cfg1 ∧ ctx.region = rg1) ∧
      ctx.pending = wires (fit 15 (as1 ++ as2)) := by
  unfold acceptCmds at h
  simp only [Bool.false_eq_true, if_false] at h
  obtain ⟨c1, h1, h⟩ := Except.bind_eq_ok h
  obtain ⟨as1, m1, ha1, hp1, hf1⟩ := handleCmds_answers snr d.fopts _ c1 rfl h1
  simp only [List.length_nil, Nat.sub_zero, List.nil_append] at hp1 hf1
  by_cases hport : d.fport = some 0
  · have hb : (d.fport == some 0) = true := by simp [hport]
    simp only [hb, if_true] at h
    cases hfull : c1.full with
    | false =>
      obtain ⟨as2, m2, ha2, hp2, _⟩ := handleCmds_answers snr d.payload c1 ctx hfull h
      have hall : fit 15 as1 = as1 := by
        by_cases hq : fit 15 as1 = as1
        · exact hq
        · have := hf1.mpr hq; rw [hfull] at this; cases this
      refine ⟨as1, as2, c1.cfg, c1.region, m1, ha1, by simp only [hport, if_true]; exact ⟨m2, ha2⟩, ?_⟩
      rw [hp2, hp1, fit_append_of_all 15 as1 as2 hall, hall]
      simp [wires]
    | true =>
      obtain ⟨as2, m2, ha2, hp2, _⟩ := handleCmds_answers_full snr d.payload c1 ctx hfull h
      refine ⟨as1, as2, c1.cfg, c1.region, m1, ha1, by simp only [hport, if_true]; exact ⟨m2, ha2⟩, ?_⟩
      rw [hp2, hp1, fit_append_of_cut 15 as1 as2 (hf1.mp hfull)]
  · have hb : (d.fport == some 0) = false := by simp [hport]
    simp only [hb, Bool.false_eq_true, if_false] at h
    cases Except.pure_eq_ok h
    exact ⟨as1, [], ctx.cfg, ctx.region, m1, ha1, by rw [if_neg hport]; exact ⟨rfl, rfl, rfl⟩, by simpa using hp1⟩

/-! ## the shape of the answers, without the state -/

/-- one answer per handled request in request order, a LinkADRReq block answered with identical
copies — the part of `Answers` that does not mention the device state -/
inductive Shape (r : RegionId) (snr : Int) : List Cmd → List Ans → Prop
  | nil : Shape r snr [] []
  | skip (cid : Nat) (p : List Nat) (rest : List Cmd) (as : List Ans) (h : handled r cid = false) (hr : Shape r snr rest as) :
      Shape r snr ((cid, p) :: rest) as
  | devStatus (p : List Nat) (rest : List Cmd) (as : List Ans) (hr : Shape r snr rest as) :
      Shape r snr ((0x06, p) :: rest) ((0x06, [255, devStatusMargin snr]) :: as)
  | rxTiming (p : List Nat) (rest : List Cmd) (as : List Ans) (hr : Shape r snr rest as) :
      Shape r snr ((0x08, p) :: rest) ((0x08, []) :: as)
  | status (cid : Nat) (p : List Nat) (rest : List Cmd) (ans : Nat) (as : List Ans)
      (hc : cid = 0x05 ∨ ((cid = 0x07 ∨ cid = 0x0A) ∧ r.isFixed = false)) (hr : Shape r snr rest as) :
      Shape r snr ((cid, p) :: rest) ((cid, [ans]) :: as)
  | linkAdr (ps : List (List Nat)) (p : List Nat) (rest : List Cmd) (ans : Nat) (as : List Ans)
      (hrest : startsAdr rest = false) (hr : Shape r snr rest as) :
      Shape r snr ((ps ++ [p]).map (fun q => (0x03, q)) ++ rest) (List.replicate (ps.length + 1) (0x03, [ans]) ++ as)

theorem channelMaskSet_id (rs : RegionState) (m : Mask) : (channelMaskSet rs m).id = rs.id := by
  unfold channelMaskSet; split <;> rfl

theorem Answers.shape {snr : Int} {cmds : List Cmd} {st st' : St} {as : List Ans} (h : Answers snr cmds st as st') :
    Shape st.2.1.id snr cmds as ∧ st'.2.1.id = st.2.1.id := by
  induction h with
  | nil st => exact ⟨.nil, rfl⟩
  | skip cid p rest st as st' hh _ ih => exact ⟨.skip cid p rest as hh ih.1, ih.2⟩
  | devStatus p rest st as st' _ ih => exact ⟨.devStatus p rest as ih.1, ih.2⟩
  | rxParam p rest st ans st1 as st' ho _ ih =>
    obtain ⟨dl, f, _, _, e, _⟩ := ho
    rw [e] at ih
    exact ⟨.status 5 p rest ans as (Or.inl rfl) ih.1, ih.2⟩
  | rxTiming p rest st st1 as st' ho _ ih =>
    obtain ⟨b, d, _, _, e⟩ := ho
    subst e
    exact ⟨.rxTiming p rest as ih.1, ih.2⟩
  | newChannel p rest st ans st1 as st' hf ho _ ih =>
    obtain ⟨idx, f, r, a, b, _, _, _, _, _, _, _, hno, hyes⟩ := ho
    have hid : st1.2.1.id = st.2.1.id := by
      cases hab : (a && b) with
      | false => rw [hno hab]
      | true =>
        obtain ⟨pl, m, _, _, _, hh⟩ := hyes hab
        rcases hh with ⟨_, _, e⟩ | ⟨_, _, _, _, e⟩ <;> rw [e] <;> rfl
    rw [hid] at ih
    exact ⟨.status 7 p rest ans as (Or.inr ⟨Or.inl rfl, hf⟩) ih.1, ih.2⟩
  | dlChannel p rest st ans st1 as st' hf ho _ ih =>
    obtain ⟨idx, f, a, b, _, _, _, _, _, _, hno, hyes⟩ := ho
    have hid : st1.2.1.id = st.2.1.id := by
      cases hab : (a && b) with
      | false => rw [hno hab]
      | true =>
        obtain ⟨pl, c, _, _, _, _, _, e⟩ := hyes hab
        rw [e]; rfl
    rw [hid] at ih
    exact ⟨.status 10 p rest ans as (Or.inr ⟨Or.inr rfl, hf⟩) ih.1, ih.2⟩
  | linkAdr ps p rest st ans st1 as st' hrest ho _ ih =>
    obtain ⟨mask, rfu, b0, _, _, h7, hn, _⟩ := ho
    have hid : st1.2.1.id = st.2.1.id := by
      by_cases ha : ans = 7
      · obtain ⟨d, pw, _, _, _, e⟩ := h7 ha
        rw [e]; exact channelMaskSet_id _ _
      · rw [(hn ha).2]
    rw [hid] at ih
    exact ⟨.linkAdr ps p rest ans as hrest ih.1, ih.2⟩

/-- every answer is a whole uplink MAC command -/
theorem Shape.whole {r : RegionId} {snr : Int} {cmds : List Cmd} {as : List Ans} (h : Shape r snr cmds as) : Whole as := by
  induction h with
  | nil => intro a ha; cases ha
  | skip cid p rest as _ _ ih => exact ih
  | devStatus p rest as _ ih =>
    intro a ha
    rcases List.mem_cons.mp ha with rfl | ha
    · rfl
    · exact ih a ha
  | rxTiming p rest as _ ih =>
    intro a ha
    rcases List.mem_cons.mp ha with rfl | ha
    · rfl
    · exact ih a ha
  | status cid p rest ans as hc _ ih =>
    intro a ha
    rcases List.mem_cons.mp ha with rfl | ha
    · rcases hc with rfl | ⟨rfl | rfl, _⟩ <;> rfl
    · exact ih a ha
  | linkAdr ps p rest ans as _ _ ih =>
    intro a ha
    rcases List.mem_append.mp ha with ha | ha
    · rw [List.eq_of_mem_replicate ha]; rfl
    · exact ih a ha


/-! non-vacuity -/
def cfg0 : Config :=
  { dataRate := 0, rx1Delay := 1000, txPower := none, rx1DrOffset := 0, rx2DataRate := none, rx2Frequency := none, adrEnabled := true }
example : (rxParamSetup cfg0 .EU868 0x23 869525000).1 = 7 := by decide
example : (rxParamSetup cfg0 .EU868 0x7F 1000).1 = 2 := by decide
example : (linkAdrDecide cfg0 (RegionState.init .EU868) [7, 0, 255, 255, 255, 255, 255, 255, 255] false 5 1).toOption.map (·.1) = some 7 := by decide
example : ((channelDlUpdate (RegionState.init .EU868) 0 867100000).toOption.map (·.1)) = some (true, true) := by decide
example : ((handleNewChannel (RegionState.init .EU868) 4 867300000 (some 0x50)).toOption.map (·.1)) = some (true, true) := by decide
example : ((handleNewChannel (RegionState.init .EU868) 1 867300000 (some 0x50)).toOption.map (·.1)) = some (false, false) := by decide
example : retainSticky 16 [0x03, 7, 0x05, 7, 0x06, 255, 0, 0x08, 0x0A, 3] = [0x05, 7, 0x08, 0x0A, 3] := by decide


/-! ## histories: what the next uplink carries -/

/-- the MAC-command field of an uplink: FOpts, or the FRMPayload of a port-0 frame -/
def macField (u : UplinkDesc) : List Nat := if u.fport != 0 then u.fopts else u.payload

/-- the answers to both command streams of a frame (FOpts, then a port-0 payload), by shape -/
def frameShape (r : RegionId) (d : RxData) (snr : Int) (as : List Ans) : Prop :=
  ∃ as1 as2, Shape r snr (cmdsOf d.fopts) as1 ∧
    (if d.fport = some 0 then Shape r snr (cmdsOf d.payload) as2 else as2 = []) ∧ as = as1 ++ as2

/-- reference state for the answers: the session tracker of C05 and the whole answers the next uplink owes -/
abbrev AG := Gh × List Ans

/-- **one event, seen from the answer queue.**  An uplink of a joined device carries exactly the owed
answers (in FOpts, or as port-0 payload); if the reference accepts a frame in one of its Class A
windows (also when a radio fault cuts the procedure short afterwards), the device then owes exactly the
longest fitting prefix of the answers to that frame's requests — everything owed before is gone;
otherwise it goes on owing the sticky answers (RXParamSetupAns, RXTimingSetupAns, DlChannelAns) only.
Class C receptions and the ADR/data-rate calls do not touch the queue; activation empties it. -/
def AnsStep (r : RegionId) (g : AG) (ev : Ev) (out : Out) (g' : AG) : Prop :=
  g'.1 = ghStep g.1 ev ∧
  match ev, g.1 with
  | .uplink _ _ _ fault rx1 rx2 mp1 mp2, some last =>
    (∃ so resp dl, out = .up so resp dl ∧ macField so.frame = wires g.2) ∧
    (match upRes last fault rx1 rx2 mp1 mp2 with
     | .accepted _ d snr => ∃ as, frameShape r d snr as ∧ g'.2 = fit 15 as
     | _ => g'.2 = g.2.filter (fun a => isSticky a.1))
  | .joinAbp _ _ _, _ => g'.2 = []
  | .joinOtaa _ _ _ _ _, _ => g'.2 = []
  | _, _ => g'.2 = g.2

/-- the tie between model state and reference state -/
def AnsRel (r : RegionId) (m : MacState) (g : AG) : Prop :=
  GhRel m g.1 ∧ MacWF m ∧ m.region.id = r ∧ ∀ s, m.st = .joined s → s.pending = wires g.2 ∧ Whole g.2

theorem whole_filter {as : List Ans} (h : Whole as) (f : Ans → Bool) : Whole (as.filter f) :=
  fun a ha => h a (List.mem_filter.mp ha).1

theorem whole_prefix {as bs : List Ans} (h : Whole bs) (hp : as <+: bs) : Whole as :=
  fun a ha => h a (hp.subset ha)

theorem whole_append {as bs : List Ans} (ha : Whole as) (hb : Whole bs) : Whole (as ++ bs) := by
  intro a h
  rcases List.mem_append.mp h with h | h
  · exact ha a h
  · exact hb a h

theorem frameShape_whole {r : RegionId} {d : RxData} {snr : Int} {as : List Ans} (h : frameShape r d snr as) : Whole as := by
  obtain ⟨as1, as2, h1, h2, rfl⟩ := h
  refine whole_append h1.whole ?_
  split at h2
  · exact h2.whole
  · subst h2; intro a ha; cases ha

theorem sentSession_pending (s : Session) (conf : Bool) (pend : List Ans) (hp : s.pending = wires pend) (hw : Whole pend) :
    (sentSession s conf).pending = wires (pend.filter (fun a => isSticky a.1)) := by
  simp only [sentSession]
  rw [hp]
  exact retainSticky_spec pend hw _ (Nat.lt_succ_self _)

theorem timeoutState_pending (m : MacState) (s' : Session) (h : (timeoutState m).st = .joined s') :
    ∃ s, m.st = .joined s ∧ s'.pending = s.pending := by
  by_cases hj : ∃ s, m.st = .joined s
  · obtain ⟨s, hs⟩ := hj
    obtain ⟨fu, cnt, cfg', e⟩ := timeoutState_joined m s hs
    rw [e] at h
    simp only [JoinState.joined.injEq] at h
    subst h
    exact ⟨s, hs, rfl⟩
  · rw [timeoutState_notJoined m (fun s hs => hj ⟨s, hs⟩)] at h
    exact absurd ⟨s', h⟩ hj

theorem accept_frameShape (pending : List Nat) (cfg : Config) (region : RegionState) (d : RxData) (snr : Int) (ctx : MacCtx)
    (h : acceptCmds pending cfg region d snr false = .ok ctx) :
    ∃ as, frameShape region.id d snr as ∧ ctx.pending = wires (fit 15 as) := by
  obtain ⟨as1, as2, cfg1, rg1, m1, ha1, ha2, hp⟩ := accept_answers pending cfg region d snr ctx h
  obtain ⟨hs1, hid1⟩ := ha1.shape
  refine ⟨as1 ++ as2, ⟨as1, as2, hs1, ?_, rfl⟩, hp⟩
  by_cases hport : d.fport = some 0
  · rw [if_pos hport] at ha2 ⊢
    obtain ⟨m2, ha2⟩ := ha2
    have := ha2.shape.1
    simp only at this hid1
    rw [hid1] at this
    exact this
  · rw [if_neg hport] at ha2 ⊢
    exact ha2.1

theorem acceptState_pending (m : MacState) (s : Session) (d : RxData) (N : Nat) (ctx : MacCtx) (s' : Session)
    (h : (acceptState m s d N ctx).st = .joined s') : s'.pending = ctx.pending := by
  obtain ⟨fu, e⟩ := acceptFinish_session s d N ctx
  rw [acceptState_st, e] at h
  simp only [JoinState.joined.injEq] at h
  subst h; rfl

theorem step_ansRel {σ} (g : Rng σ) (r : RegionId) (m m' : MacState) (rs rs' : σ) (ev : Ev) (out : Out) (ag : AG)
    (hr : AnsRel r m ag) (hv : evOk ev = true ∧ validEv r ev = true) (h : step g (m, rs) ev = .ok ((m', rs'), out)) :
    ∃ ag', AnsStep r ag ev out ag' ∧ AnsRel r m' ag' := by
  obtain ⟨gh, pend⟩ := ag
  obtain ⟨hgh, hwf, hid, hpend⟩ := hr
  simp only at hgh hpend
  have hgh' := step_ghRel g m m' rs rs' ev out gh hgh hv.1 h
  have hk : Keeps m m' := (step_safe g m rs ev hwf (by unfold ValidEv; rw [hid]; exact hv.2)).elim h
  have hid' : m'.region.id = r := by rw [hk.2.1, hid]
  -- it suffices to name the new queue and show the two facts about it
  suffices hs : ∃ pend', (AnsStep r (gh, pend) ev out (ghStep gh ev, pend')) ∧
      (∀ s, m'.st = .joined s → s.pending = wires pend' ∧ Whole pend') by
    obtain ⟨pend', h1, h2⟩ := hs
    exact ⟨(ghStep gh ev, pend'), h1, hgh', hk.1, hid', h2⟩
  cases ev with
  | joinAbp da nwk app =>
    simp only [step, pure, Except.pure, Except.ok.injEq, Prod.mk.injEq] at h
    obtain ⟨⟨rfl, _⟩, _⟩ := h
    refine ⟨[], ⟨rfl, by cases gh <;> rfl⟩, ?_⟩
    intro s hs
    simp only [macJoinAbp, JoinState.joined.injEq] at hs
    subst hs
    exact ⟨rfl, fun a ha => by cases ha⟩
  | setDr dr =>
    simp only [step, pure, Except.pure, Except.ok.injEq, Prod.mk.injEq] at h
    obtain ⟨⟨rfl, _⟩, _⟩ := h
    exact ⟨pend, ⟨rfl, by cases gh <;> rfl⟩, hpend⟩
  | setAdr on =>
    simp only [step, pure, Except.pure, Except.ok.injEq, Prod.mk.injEq] at h
    obtain ⟨⟨rfl, _⟩, _⟩ := h
    refine ⟨pend, ⟨rfl, by cases gh <;> rfl⟩, ?_⟩
    intro s' hs'
    by_cases hj : ∃ s, m.st = .joined s
    · obtain ⟨s, hs⟩ := hj
      obtain ⟨cnt, e⟩ := (macSetAdr_st m on).1 s hs
      rw [e] at hs'
      simp only [JoinState.joined.injEq] at hs'
      subst hs'
      exact hpend s hs
    · rw [(macSetAdr_st m on).2 (fun s hs => hj ⟨s, hs⟩)] at hs'
      exact absurd ⟨s', hs'⟩ hj
  | joinOtaa fault rx1 rx2 mp1 mp2 =>
    obtain ⟨jo, m1, o, _, hst1, _, ht⟩ := step_joinOtaa_inv g m m' rs rs' fault rx1 rx2 mp1 mp2 out h
    refine ⟨[], ⟨rfl, by cases gh <;> rfl⟩, ?_⟩
    intro s hs
    cases hj : joinRes fault rx1 rx2 with
    | some j =>
      simp only [hj] at ht
      rw [otaaAccept_st m1 m' j ht.1] at hs
      simp only [JoinState.joined.injEq] at hs
      subst hs
      exact ⟨rfl, fun a ha => by cases ha⟩
    | none =>
      simp only [hj] at ht
      obtain ⟨rfl, _⟩ := ht
      rw [hst1] at hs; cases hs
  | rxc v snr mp =>
    cases gh with
    | none =>
      obtain ⟨rfl, _, _⟩ := step_rxc_notJoined g m m' rs rs' hgh v snr mp out h
      exact ⟨pend, ⟨rfl, rfl⟩, hpend⟩
    | some last =>
      obtain ⟨s, hst, rfl, hl⟩ := hgh
      have hvv : viewOk v = true := by simpa [evOk] using hv.1
      obtain ⟨_, rf, _, ht⟩ := step_rxc_joined g m m' rs rs' s hst hl v snr mp hvv out h
      refine ⟨pend, ⟨rfl, rfl⟩, ?_⟩
      intro s' hs'
      cases hs : specRxc s.fcntDown v mp with
      | none =>
        simp only [hs] at ht
        obtain ⟨rfl, _⟩ := ht
        exact hpend s' hs'
      | some p =>
        obtain ⟨N, d⟩ := p
        simp only [hs] at ht
        obtain ⟨rfl, _⟩ := ht
        rw [acceptState_pending m s d N _ s' hs']
        exact hpend s hst
  | uplink data fport conf fault rx1 rx2 mp1 mp2 =>
    cases gh with
    | none =>
      obtain ⟨rfl, _, _⟩ := step_uplink_notJoined g m m' rs rs' hgh data fport conf fault rx1 rx2 mp1 mp2 out h
      exact ⟨pend, ⟨rfl, rfl⟩, hpend⟩
    | some last =>
      obtain ⟨s, hst, rfl, hl⟩ := hgh
      have hvv : rxOk rx1 = true ∧ rxOk rx2 = true := by simpa [evOk] using hv.1
      have hval : (fport = 0 → data = []) ∧ data.length ≤ 222 := by
        have := hv.2
        simp only [validEv, Bool.and_eq_true, Bool.or_eq_true, bne_iff_ne, ne_eq, List.isEmpty_iff, decide_eq_true_eq] at this
        exact ⟨fun e => by rcases this.1.1.1 with h0 | h0; exact absurd e h0; exact h0, this.1.1.2⟩
      obtain ⟨so, m1, hsend, hfr, hst1, hcfg1, ht⟩ :=
        step_uplink_joined g m m' rs rs' s hst hl data fport conf fault rx1 rx2 mp1 mp2 hvv.1 hvv.2 out h
      have hk1 : Keeps m m1 := (macSend_safe g m data fport conf rs hwf hval.1 hval.2).elim hsend
      have hid1 : m1.region.id = r := by rw [hk1.2.1, hid]
      obtain ⟨hp0, hw0⟩ := hpend s hst
      have hmac : macField so.frame = wires pend := by
        rw [hfr, ← hp0]; simp only [macField, descOf]; split <;> rfl
      have hsent := sentSession_pending s conf pend hp0 hw0
      have hwsent : Whole (pend.filter (fun a => isSticky a.1)) := whole_filter hw0 _
      have hout : ∃ so' resp dl, out = .up so' resp dl ∧ macField so'.frame = wires pend := by
        unfold UplinkTail at ht
        cases fault with
        | none =>
          simp only at ht
          cases hsc : specCycle (sentSession s conf).fcntDown rx1 rx2 mp1 mp2 with
          | accepted N d snr => simp only [hsc] at ht; obtain ⟨ctx, _, _, e⟩ := ht; exact ⟨so, _, _, e, hmac⟩
          | ended => simp only [hsc] at ht; exact ⟨so, _, _, ht.2, hmac⟩
          | nothing => simp only [hsc] at ht; exact ⟨so, _, _, ht.2, hmac⟩
        | some k =>
          simp only at ht
          obtain ⟨m2, _, _, e⟩ := ht
          exact ⟨so, _, _, e, hmac⟩
      -- the verdict, and the state it leaves
      have hfd : (sentSession s conf).fcntDown = s.fcntDown := rfl
      cases hu : upRes s.fcntDown fault rx1 rx2 mp1 mp2 with
      | accepted N d snr =>
        have hctx : ∃ ctx, acceptCmds (sentSession s conf).pending m1.cfg m1.region d snr false = .ok ctx ∧
            (m' = acceptState m1 (sentSession s conf) d N ctx ∨ m' = timeoutState (acceptState m1 (sentSession s conf) d N ctx)) := by
          unfold UplinkTail at ht
          unfold upRes at hu
          cases fault with
          | none =>
            simp only at ht hu
            rw [hfd, hu] at ht
            obtain ⟨ctx, hc, e, _⟩ := ht
            exact ⟨ctx, hc, Or.inl e⟩
          | some k =>
            simp only at ht hu
            rw [hfd, hu] at ht
            obtain ⟨m2, ⟨ctx, hc, e2⟩, e, _⟩ := ht
            exact ⟨ctx, hc, Or.inr (by rw [e, e2]; rfl)⟩
        obtain ⟨ctx, hc, hm'⟩ := hctx
        obtain ⟨as, hshape, hpc⟩ := accept_frameShape _ _ _ d snr ctx hc
        rw [hid1] at hshape
        refine ⟨fit 15 as, ⟨rfl, ?_⟩, ?_⟩
        · simp only [hout, hu, true_and]
          exact ⟨as, hshape, rfl⟩
        · intro s' hs'
          refine ⟨?_, whole_prefix (frameShape_whole hshape) (fit_prefix _ _)⟩
          rcases hm' with rfl | rfl
          · rw [acceptState_pending _ _ d N ctx s' hs', hpc]
          · obtain ⟨s2, hs2, e⟩ := timeoutState_pending _ s' hs'
            rw [e, acceptState_pending _ _ d N ctx s2 hs2, hpc]
      | ended =>
        have hm' : m' = timeoutState m1 ∨ m' = timeoutState (timeoutState m1) := by
          unfold UplinkTail at ht
          unfold upRes at hu
          cases fault with
          | none => simp only at ht hu; rw [hfd, hu] at ht; exact Or.inl ht.1
          | some k =>
            simp only at ht hu; rw [hfd, hu] at ht
            obtain ⟨m2, e2, e, _⟩ := ht
            exact Or.inr (by rw [e, e2]; rfl)
        refine ⟨pend.filter (fun a => isSticky a.1), ⟨rfl, ?_⟩, ?_⟩
        · simp only [hout, hu, true_and]
        · intro s' hs'
          refine ⟨?_, hwsent⟩
          rcases hm' with rfl | rfl
          · obtain ⟨s2, hs2, e⟩ := timeoutState_pending _ s' hs'
            rw [hst1] at hs2; cases hs2
            rw [e, hsent]
          · obtain ⟨s2, hs2, e⟩ := timeoutState_pending _ s' hs'
            obtain ⟨s3, hs3, e3⟩ := timeoutState_pending _ s2 hs2
            rw [hst1] at hs3; cases hs3
            rw [e, e3, hsent]
      | nothing =>
        have hm' : m' = timeoutState m1 := by
          unfold UplinkTail at ht
          unfold upRes at hu
          cases fault with
          | none => simp only at ht hu; rw [hfd, hu] at ht; exact ht.1
          | some k =>
            simp only at ht hu; rw [hfd, hu] at ht
            obtain ⟨m2, e2, e, _⟩ := ht
            rw [e, e2]; rfl
        refine ⟨pend.filter (fun a => isSticky a.1), ⟨rfl, ?_⟩, ?_⟩
        · simp only [hout, hu, true_and]
        · intro s' hs'
          refine ⟨?_, hwsent⟩
          subst hm'
          obtain ⟨s2, hs2, e⟩ := timeoutState_pending _ s' hs'
          rw [hst1] at hs2; cases hs2
          rw [e, hsent]


/-- **C08 over every history**: from any well-formed state the reference state `ag` describes, for
every history of valid events (frames with 16-bit wire counters) and every random stream, there is a
run of the reference (`TraceR`) in which EVERY uplink carries exactly the answers owed at that point,
and the owed answers evolve as `AnsStep` says: after a downlink accepted in a Class A window — one
answer per handled request in request order, LinkADRReq blocks answered with identical copies, cut
only at the 15-byte limit; sticky answers repeated in every uplink until the next such downlink, all
others sent once. -/
theorem history_answers {σ} (g : Rng σ) (r : RegionId) (m : MacState) (rs : σ) (ag : AG) (hr : AnsRel r m ag)
    (evs : List Ev) (hv : ∀ ev ∈ evs, evOk ev = true ∧ validEv r ev = true) (ms' : MacState × σ) (outs : List Out)
    (h : run g (m, rs) evs = .ok (ms', outs)) : TraceR (AnsStep r) ag (evs.zip outs) := by
  have hc := run_chain g (m, rs) ms' evs outs h
  exact chain_traceR g (AnsStep r) (AnsRel r) (fun ev => evOk ev = true ∧ validEv r ev = true)
    (fun m s ev m' s' out gh hr hv hs => step_ansRel g r m m' s s' ev out gh hr hv hs)
    (m, rs) ms' (evs.zip outs) ag hr (fun x hx => hv x.1 (List.of_mem_zip hx).1) hc

theorem ansRel_init (r : RegionId) (maxPower : Nat) (gain : Int) (hg : gainOk r gain = true) :
    AnsRel r (MacState.init (RegionState.init r) maxPower gain) (none, []) := by
  refine ⟨ghRel_init _ _ _, ?_, by cases r <;> rfl, fun s hs => by cases hs⟩
  apply MacWF.mk
  · cases r <;> rfl
  · cases r <;> rfl
  · cases r <;> exact hg
  · rfl

/-- … in particular from the initial state of every region -/
theorem history_answers_init {σ} (g : Rng σ) (r : RegionId) (maxPower : Nat) (gain : Int) (hg : gainOk r gain = true) (rs : σ)
    (evs : List Ev) (hv : ∀ ev ∈ evs, evOk ev = true ∧ validEv r ev = true) (ms' : MacState × σ) (outs : List Out)
    (h : run g (MacState.init (RegionState.init r) maxPower gain, rs) evs = .ok (ms', outs)) :
    TraceR (AnsStep r) (none, []) (evs.zip outs) :=
  history_answers g r _ rs (none, []) (ansRel_init r maxPower gain hg) evs hv ms' outs h


/-- **what an accepted Class A downlink did to the device**, `mi` the state before the uplink, `mi'`
after the receive procedure (no radio fault): configuration and channel plan of `mi'` are exactly the
result of the frame's command streams (`Answers`: every acknowledged request took effect as
commanded, every rejected one changed nothing) applied to `mi`'s configuration and to the channel
plan as channel selection left it; the queue of `mi'` is the fitting prefix of the answers. -/
def Effects {σ} (g : Rng σ) (mi : MacState) (rsi : σ) (data : List Nat) (fport : Nat) (conf : Bool) (d : RxData) (snr : Int)
    (mi' : MacState) : Prop :=
  ∃ so m1 rs1 as1 as2 cfg1 rg1 mk s',
    macSend g mi data fport conf rsi = .ok (some so, m1, rs1) ∧ m1.cfg = mi.cfg ∧
    Answers snr (cmdsOf d.fopts) (mi.cfg, m1.region, channelMaskGet m1.region) as1 (cfg1, rg1, mk) ∧
    (if d.fport = some 0 then ∃ m2, Answers snr (cmdsOf d.payload) (cfg1, rg1, channelMaskGet rg1) as2 (mi'.cfg, mi'.region, m2)
     else as2 = [] ∧ mi'.cfg = cfg1 ∧ mi'.region = rg1) ∧
    mi'.st = .joined s' ∧ s'.pending = wires (fit 15 (as1 ++ as2))

theorem step_effects {σ} (g : Rng σ) (m m' : MacState) (rs rs' : σ) (gh : Gh) (hr : GhRel m gh) (data : List Nat) (fport : Nat)
    (conf : Bool) (rx1 rx2 : Option (RxView × Int)) (mp1 mp2 : Nat) (hv : evOk (.uplink data fport conf none rx1 rx2 mp1 mp2) = true)
    (out : Out) (h : step g (m, rs) (.uplink data fport conf none rx1 rx2 mp1 mp2) = .ok ((m', rs'), out))
    (last : Option Nat) (hgh : gh = some last) (N : Nat) (d : RxData) (snr : Int)
    (hacc : specCycle last rx1 rx2 mp1 mp2 = .accepted N d snr) : Effects g m rs data fport conf d snr m' := by
  subst hgh
  obtain ⟨s, hst, rfl, hl⟩ := hr
  have hvv : rxOk rx1 = true ∧ rxOk rx2 = true := by simpa [evOk] using hv
  obtain ⟨so, m1, hsend, _, hst1, hcfg1, ht⟩ :=
    step_uplink_joined g m m' rs rs' s hst hl data fport conf none rx1 rx2 mp1 mp2 hvv.1 hvv.2 out h
  unfold UplinkTail at ht
  simp only at ht
  have hfd : (sentSession s conf).fcntDown = s.fcntDown := rfl
  rw [hfd, hacc] at ht
  obtain ⟨ctx, hc, rfl, _⟩ := ht
  obtain ⟨as1, as2, cfg1, rg1, mk, ha1, ha2, hp⟩ := accept_answers _ _ _ d snr ctx hc
  rw [hcfg1] at ha1
  have hcfg' : (acceptState m1 (sentSession s conf) d N ctx).cfg = ctx.cfg := by
    unfold acceptState acceptFinish; simp only []; split <;> rfl
  have hreg' : (acceptState m1 (sentSession s conf) d N ctx).region = ctx.region := by
    unfold acceptState acceptFinish; simp only []; split <;> rfl
  obtain ⟨fu, e⟩ := acceptFinish_session (sentSession s conf) d N ctx
  refine ⟨so, m1, rs', as1, as2, cfg1, rg1, mk, _, hsend, hcfg1, ha1, ?_, acceptState_st _ _ d N ctx, by rw [e]; exact hp⟩
  rw [hcfg', hreg']
  exact ha2

/-- **C08 effects over every history**: at every uplink of every history in whose Class A windows the
reference accepts a frame (no radio fault), `Effects` holds between the state before and the state
after — the state that all later transmissions and receive windows are computed from (C09, C10). -/
theorem history_effects {σ} (g : Rng σ) (m : MacState) (rs : σ) (gh : Gh) (hr : GhRel m gh) (evs : List Ev)
    (hv : ∀ ev ∈ evs, evOk ev = true) (ms' : MacState × σ) (outs : List Out) (h : run g (m, rs) evs = .ok (ms', outs))
    (i : Nat) (data : List Nat) (fport : Nat) (conf : Bool) (rx1 rx2 : Option (RxView × Int)) (mp1 mp2 : Nat) (out : Out)
    (hi : (evs.zip outs)[i]? = some (.uplink data fport conf none rx1 rx2 mp1 mp2, out))
    (last : Option Nat) (hlast : ghRun gh (evs.take i) = some last) (N : Nat) (d : RxData) (snr : Int)
    (hacc : specCycle last rx1 rx2 mp1 mp2 = .accepted N d snr) :
    ∃ mi rsi mi' rsi', Chain g (m, rs) ((evs.zip outs).take i) (mi, rsi) ∧
      Chain g (mi', rsi') ((evs.zip outs).drop (i + 1)) ms' ∧ Effects g mi rsi data fport conf d snr mi' := by
  have hc := run_chain g (m, rs) ms' evs outs h
  have hlen := run_outs_length g (m, rs) ms' evs outs h
  obtain ⟨⟨mi, rsi⟩, ⟨mi', rsi'⟩, h1, hstep, h2⟩ := chain_at g (m, rs) ms' (evs.zip outs) i _ out hc hi
  have hvz : ∀ x ∈ evs.zip outs, evOk x.1 = true := fun x hx => hv x.1 (List.of_mem_zip hx).1
  have hri := chain_ghRel g (m, rs) (mi, rsi) _ gh hr (fun x hx => hvz x (List.mem_of_mem_take hx)) h1
  have hmap : ((evs.zip outs).take i).map (·.1) = evs.take i := by
    rw [List.map_take, List.map_fst_zip]; omega
  rw [hmap, hlast] at hri
  exact ⟨mi, rsi, mi', rsi', h1, h2, step_effects g mi mi' rsi rsi' _ hri data fport conf rx1 rx2 mp1 mp2
    (hvz _ (List.mem_of_getElem? hi)) out hstep last rfl N d snr hacc⟩

/-! non-vacuity: RXParamSetupReq + DevStatusReq in FOpts of a downlink accepted in RX1; the next
uplink carries both answers, the one after only the sticky RXParamSetupAns, and after the next
accepted Class A downlink nothing -/
def lcg : Rng Nat := fun x => ((x * 1103515245 + 12345) / 65536, x * 1103515245 + 12345)

def dl (w : Nat) (fopts : List Nat) : Option (RxView × Int) :=
  some (.data { len := 20, confirmed := false, fcnt16 := w, micFcnt := some w, fopts := fopts, fport := some 1, payload := [1] }, 5)

def demoHistory : List Ev :=
  [ .joinAbp 7 1 2,
    .uplink [1] 1 false none (dl 1 [0x05, 0x23, 0xD2, 0xAD, 0x84, 0x06]) none 51 51,
    .uplink [2] 1 false none none none 51 51,
    .uplink [3] 1 false none none (dl 2 []) 51 51,
    .uplink [4] 1 false none none none 51 51,
    .uplink [] 0 false none none none 51 51 ]

def macFields (outs : List Out) : List (List Nat) :=
  outs.filterMap (fun o => match o with | .up so _ _ => some (macField so.frame) | _ => none)

example : ∀ ev ∈ demoHistory, evOk ev = true ∧ validEv .EU868 ev = true := by decide
example : (run lcg (MacState.init (RegionState.init .EU868) 14 0, 1) demoHistory).toOption.map (fun r => macFields r.2)
    = some [[], [0x05, 7, 0x06, 255, 5], [0x05, 7], [], []] := by decide +kernel
example : fit 15 [(5, [7]), (6, [255, 5])] = [(5, [7]), (6, [255, 5])] := by decide
example : fit 4 [(5, [7]), (6, [255, 5]), (8, [])] = [(5, [7])] := by decide

/-! ## extended histories: Class C receptions — in or out of the receive procedure — leave the queue alone

`Model/HistoryC.lean`: frames heard on the RXC parameters between TX and RX1 and between RX1 and RX2 go
to `handle_rxc` in the middle of the procedure.  The reference procedure (`upRefC`, `Lemmas/CycleC.lean`)
decides on the ACTS of the procedure; the owed answers move along them (`ActsQ`): a Class C acceptance
(`accC`) and `rx2_complete` (`tmo`) leave them alone, a frame accepted in a Class A window (`accA`)
replaces them by the fitting prefix of the answers to ITS requests.  Since at most one `accA` occurs in
a procedure and nothing but timeouts follows it, what the device owes afterwards are the answers of the
last Class A acceptance — whatever was heard on the RXC parameters around it. -/

/-- validity of an extended event for the history theorems: 16-bit wire counters, the application contract -/
def evValidC (r : RegionId) (ev : EvC) : Prop := evOkC ev = true ∧ validEvC r ev = true

theorem validEv_joinPlain {r : RegionId} {cc : Bool} {fault : Option FaultPos} {c1 c2 : List (RxView × Int)}
    {rx1 rx2 : Option (RxView × Int)} (h : validEvC r (.joinC cc fault c1 rx1 c2 rx2) = true) :
    validEv r (joinPlain fault rx1 rx2) = true := by
  simp only [validEvC, Bool.and_eq_true] at h
  simp only [joinPlain, validEv, Bool.and_eq_true]
  exact ⟨h.1.1.2, h.2⟩

theorem acceptCmds_region_id (pending : List Nat) (cfg : Config) (region : RegionState) (d : RxData) (snr : Int) (ctx : MacCtx)
    (h : acceptCmds pending cfg region d snr false = .ok ctx) : ctx.region.id = region.id := by
  obtain ⟨as1, as2, cfg1, rg1, m1, ha1, ha2, _⟩ := accept_answers pending cfg region d snr ctx h
  have h1 := ha1.shape.2
  simp only at h1
  by_cases hport : d.fport = some 0
  · rw [if_pos hport] at ha2
    obtain ⟨m2, ha2⟩ := ha2
    have h2 := ha2.shape.2
    simp only at h2
    rw [h2, h1]
  · rw [if_neg hport] at ha2
    rw [ha2.2.2, h1]

/-- the owed answers along the acts of a receive procedure -/
def ActsQ (r : RegionId) : List Act → List Ans → List Ans → Prop
  | [], q, q' => q' = q
  | .accC _ _ :: rest, q, q' => ActsQ r rest q q'
  | .accA _ d snr :: rest, _, q' => ∃ as, frameShape r d snr as ∧ ActsQ r rest (fit 15 as) q'
  | .tmo :: rest, q, q' => ActsQ r rest q q'

/-- **one extended event, seen from the answer queue**: events of `Model/History.lean` as `AnsStep` says
(a join procedure: the plain `joinOtaa` it amounts to); the uplink of a device with a session carries
exactly the owed answers, and the device then owes what `ActsQ` makes of the sticky ones along the acts
the REFERENCE decides on for this procedure. -/
def AnsStepC (r : RegionId) (g : AG) (e : EvL) (out : OutC) (g' : AG) : Prop :=
  match e.2 with
  | .base ev => AnsStep r g ev out.out g'
  | .joinC _ fault _ rx1 _ rx2 => AnsStep r g (joinPlain fault rx1 rx2) out.out g'
  | .uplinkC cc _ _ conf fault c1 rx1 c2 rx2 =>
    g'.1 = ghNextC g.1 e out ∧
    (match g.1 with
     | some last =>
       ∃ so resp dl, out.out = .up so resp dl ∧ macField so.frame = wires g.2 ∧
         ActsQ r (upRefC cc last conf e.1 fault c1 rx1 c2 rx2 so).acts (g.2.filter (fun a => isSticky a.1)) g'.2
     | none => g'.2 = g.2)

/-- **the queue follows the model along the acts** -/
theorem acts_ans (r : RegionId) (acts : List Act) :
    ∀ (m m' : MacState) (s : Session) (q : List Ans), m.st = .joined s → m.region.id = r → s.pending = wires q → Whole q →
      Acts m acts m' → ∃ s' q', m'.st = .joined s' ∧ ActsQ r acts q q' ∧ s'.pending = wires q' ∧ Whole q' := by
  induction acts with
  | nil =>
    intro m m' s q hst hid hp hw h
    simp only [Acts] at h
    subst h
    exact ⟨s, q, hst, rfl, hp, hw⟩
  | cons a rest ih =>
    intro m m' s q hst hid hp hw h
    cases a with
    | accC N d =>
      simp only [Acts] at h
      obtain ⟨s0, hs0, _, h⟩ := h
      rw [hst] at hs0; cases hs0
      have hp1 : (acceptFinish s d N (ctxC m s)).2.1.pending = wires q := by rw [acceptFinish_session_eq]; exact hp
      have hid1 : (acceptState m s d N (ctxC m s)).region.id = r := by rw [(acceptState_cfg m s d N (ctxC m s)).2]; exact hid
      obtain ⟨s', q', hst', hA, hp', hw'⟩ := ih _ m' _ q (acceptState_st m s d N (ctxC m s)) hid1 hp1 hw h
      exact ⟨s', q', hst', by simp only [ActsQ]; exact hA, hp', hw'⟩
    | accA N d snr =>
      simp only [Acts] at h
      obtain ⟨s0, ctx, hs0, _, hc, h⟩ := h
      rw [hst] at hs0; cases hs0
      obtain ⟨as, hshape, hpc⟩ := accept_frameShape _ _ _ d snr ctx hc
      rw [hid] at hshape
      have hp1 : (acceptFinish s d N ctx).2.1.pending = wires (fit 15 as) := by rw [acceptFinish_session_eq]; exact hpc
      have hid1 : (acceptState m s d N ctx).region.id = r := by
        rw [(acceptState_cfg m s d N ctx).2, acceptCmds_region_id _ _ _ d snr ctx hc]; exact hid
      obtain ⟨s', q', hst', hA, hp', hw'⟩ := ih _ m' _ (fit 15 as) (acceptState_st m s d N ctx) hid1 hp1
        (whole_prefix (frameShape_whole hshape) (fit_prefix _ _)) h
      exact ⟨s', q', hst', by simp only [ActsQ]; exact ⟨as, hshape, hA⟩, hp', hw'⟩
    | tmo =>
      simp only [Acts] at h
      obtain ⟨s1, hs1, _, _, _, hp1, _, hreg⟩ := timeoutState_session m s hst
      have hid1 : (timeoutState m).region.id = r := by rw [hreg]; exact hid
      obtain ⟨s', q', hst', hA, hp', hw'⟩ := ih _ m' s1 q hs1 hid1 (by rw [hp1]; exact hp) hw h
      exact ⟨s', q', hst', by simp only [ActsQ]; exact hA, hp', hw'⟩

theorem stepC_ansRel {σ} (g : Rng σ) (r : RegionId) (m m' : MacState) (rs rs' : σ) (ev : EvC) (out : OutC) (ag : AG)
    (hr : AnsRel r m ag) (hv : evValidC r ev) (h : stepC g (m, rs) ev = .ok ((m', rs'), out)) :
    ∃ ag', AnsStepC r ag (rxcMp m, ev) out ag' ∧ AnsRel r m' ag' := by
  cases ev with
  | base e =>
    obtain ⟨hs, _⟩ := stepC_base g _ _ e out h
    exact step_ansRel g r m m' rs rs' e out.out ag hr hv hs
  | joinC cc fault c1 rx1 c2 rx2 =>
    obtain ⟨hs, _⟩ := stepC_joinC_plain g _ _ cc fault c1 rx1 c2 rx2 out h
    exact step_ansRel g r m m' rs rs' _ out.out ag hr ⟨evOk_joinPlain hv.1, validEv_joinPlain hv.2⟩ hs
  | uplinkC cc data fport conf fault c1 rx1 c2 rx2 =>
    obtain ⟨gh, pend⟩ := ag
    obtain ⟨hgh, hwf, hid, hpend⟩ := hr
    simp only at hgh hpend
    have hgh' := stepC_ghRel g m m' rs rs' _ out gh hgh hv.1 h
    have hk : Keeps m m' := (stepC_safe g m rs _ hwf (by unfold ValidEvC; rw [hid]; exact hv.2)).elim h
    have hid' : m'.region.id = r := by rw [hk.2.1, hid]
    cases gh with
    | none =>
      obtain ⟨rfl, _, rfl⟩ := stepC_uplinkC_notJoined g m m' rs rs' hgh cc data fport conf fault c1 rx1 c2 rx2 out h
      exact ⟨(none, pend), ⟨rfl, rfl⟩, hgh, hwf, hid, hpend⟩
    | some last =>
      obtain ⟨s, hst, rfl, hl⟩ := hgh
      obtain ⟨so, m1, hsend, hfr, hst1, hcfg1, hid1', hout, hacts, _⟩ :=
        stepC_uplinkC_joined g m m' rs rs' s hst hl cc data fport conf fault c1 rx1 c2 rx2 hv.1 out h
      have hid1 : m1.region.id = r := by rw [hid1', hid]
      obtain ⟨hp0, hw0⟩ := hpend s hst
      have hmac : macField so.frame = wires pend := by
        rw [hfr, ← hp0]; simp only [macField, descOf]; split <;> rfl
      have hsent := sentSession_pending s conf pend hp0 hw0
      have hwsent : Whole (pend.filter (fun a => isSticky a.1)) := whole_filter hw0 _
      obtain ⟨s', q', hst', hA, hp', hw'⟩ := acts_ans r _ m1 m' _ _ hst1 hid1 hsent hwsent hacts
      refine ⟨(ghNextC (some s.fcntDown) (rxcMp m, .uplinkC cc data fport conf fault c1 rx1 c2 rx2) out, q'),
        ⟨rfl, so, _, _, by rw [hout], hmac, hA⟩, hgh', hk.1, hid', ?_⟩
      intro s2 hs2
      rw [hst'] at hs2
      cases hs2
      exact ⟨hp', hw'⟩

/-- **C08 over every extended history** (Class C receptions inside the receive procedure included):
EVERY uplink carries exactly the answers owed at that point, and the owed answers evolve as
`AnsStepC` says: after a downlink accepted in a Class A window — one answer per handled request in
request order, LinkADRReq blocks answered with identical copies, cut only at the 15-byte limit; sticky
answers repeated in every uplink until the next such downlink, all others sent once; Class C
receptions, between uplinks or in the middle of a receive procedure, do not touch the queue. -/
theorem historyC_answers {σ} (g : Rng σ) (r : RegionId) (m : MacState) (rs : σ) (ag : AG) (hr : AnsRel r m ag)
    (evs : List EvC) (hv : ∀ ev ∈ evs, evValidC r ev) (ms' : MacState × σ) (outs : List OutC)
    (h : runC g (m, rs) evs = .ok (ms', outs)) : TraceRG (AnsStepC r) ag ((annotC g (m, rs) evs).zip outs) := by
  have hc := runC_chain g (m, rs) ms' evs outs h
  refine chainC_traceR g (AnsStepC r) (AnsRel r) (evValidC r)
    (fun m s ev m' s' out gh hr hv hs => stepC_ansRel g r m m' s s' ev out gh hr hv hs)
    (m, rs) ms' _ ag hr ?_ hc
  intro x hx
  have h1 := (List.of_mem_zip hx).1
  unfold annotC at h1
  exact hv _ (List.of_mem_zip h1).2

/-- **C08 on the async front-end, for EVERY script, both classes** -/
theorem asyncC_answers {σ} (g : Rng σ) (cfg : DevCfg) (r : RegionId) (d : DevRun) (rs : σ) (ag : AG)
    (hr : AnsRel r d.m ag) (ops : List AsyncOp) (hv : ∀ op ∈ ops, op.allView viewOk = true ∧ op.valid r = true)
    (obs : List OpObs) (d' : DevRun) (rs' : σ) (h : asyncOps g cfg d rs ops = .ok (obs, d', rs')) :
    ∃ outs, TraceRG (AnsStepC r) ag ((annotC g (d.m, rs) (abstractSessionC cfg ops)).zip outs) ∧ AllRel ObsRel obs outs := by
  obtain ⟨outs, hrun, hobs⟩ := asyncOps_runC g cfg d rs ops obs d' rs' h
  refine ⟨outs, historyC_answers g r d.m rs ag hr _ ?_ _ outs hrun, hobs⟩
  intro ev hev
  obtain ⟨op, hop, rfl⟩ := List.mem_map.mp hev
  exact ⟨abstractOp_evOkC cfg op (hv op hop).1, abstractOp_valid cfg r op (hv op hop).2⟩


/-! ### effects of a downlink accepted in a Class A window of an EXTENDED procedure

Class C acceptances before it (frames heard on the RXC parameters between TX and RX1, or between RX1
and RX2) change neither the configuration nor the channel plan nor the queue the command handling
starts from: `Effects` holds exactly as for the plain procedure. -/

/-- the acts are Class C acceptances only -/
def OnlyAccC (acts : List Act) : Prop := ∀ a ∈ acts, ∃ N d, a = .accC N d

theorem acts_onlyAccC (acts : List Act) (ho : OnlyAccC acts) :
    ∀ (m m' : MacState) (s : Session), m.st = .joined s → Acts m acts m' →
      ∃ s', m'.st = .joined s' ∧ m'.cfg = m.cfg ∧ m'.region = m.region ∧ s'.pending = s.pending := by
  induction acts with
  | nil => intro m m' s hst h; simp only [Acts] at h; subst h; exact ⟨s, hst, rfl, rfl, rfl⟩
  | cons a rest ih =>
    intro m m' s hst h
    obtain ⟨N, d, rfl⟩ := ho a List.mem_cons_self
    simp only [Acts] at h
    obtain ⟨s0, hs0, _, h⟩ := h
    rw [hst] at hs0; cases hs0
    obtain ⟨s', hst', hc, hr, hp⟩ := ih (fun a ha => ho a (List.mem_cons_of_mem _ ha)) _ m' _ (acceptState_st m s d N (ctxC m s)) h
    refine ⟨s', hst', ?_, ?_, ?_⟩
    · rw [hc, (acceptState_cfg m s d N (ctxC m s)).1]; rfl
    · rw [hr, (acceptState_cfg m s d N (ctxC m s)).2]; rfl
    · rw [hp, acceptFinish_session_eq]; rfl

/-- **what a downlink accepted in a Class A window of an extended receive procedure did to the
device** (`Effects`, as for the plain procedure), whatever was accepted on the RXC parameters before
it: the reference's acts for the procedure are Class C acceptances followed by the Class A acceptance
of `d` that ends it. -/
theorem stepC_effects {σ} (g : Rng σ) (m m' : MacState) (rs rs' : σ) (s : Session) (hst : m.st = .joined s)
    (hl : LastOk s.fcntDown) (cc : Bool) (data : List Nat) (fport : Nat) (conf : Bool) (fault : Option FaultPos)
    (c1 : List (RxView × Int)) (rx1 : Option (RxView × Int)) (c2 : List (RxView × Int)) (rx2 : Option (RxView × Int))
    (hv : evOkC (.uplinkC cc data fport conf fault c1 rx1 c2 rx2) = true) (out : OutC)
    (h : stepC g (m, rs) (.uplinkC cc data fport conf fault c1 rx1 c2 rx2) = .ok ((m', rs'), out))
    (pre : List Act) (N : Nat) (d : RxData) (snr : Int) (hpre : OnlyAccC pre)
    (hacc : ∀ so m1 rs1, macSend g m data fport conf rs = .ok (some so, m1, rs1) →
      (upRefC cc s.fcntDown conf (rxcMp m) fault c1 rx1 c2 rx2 so).acts = pre ++ [.accA N d snr]) :
    Effects g m rs data fport conf d snr m' := by
  obtain ⟨so, m1, hsend, _, hst1, hcfg1, _, _, hacts, _⟩ :=
    stepC_uplinkC_joined g m m' rs rs' s hst hl cc data fport conf fault c1 rx1 c2 rx2 hv out h
  rw [hacc so m1 rs' hsend] at hacts
  obtain ⟨m2, h1, h2⟩ := hacts.split
  obtain ⟨s2, hst2, hc2, hr2, hp2⟩ := acts_onlyAccC pre hpre m1 m2 _ hst1 h1
  simp only [Acts] at h2
  obtain ⟨s3, ctx, hs3, _, hc, rfl⟩ := h2
  rw [hst2] at hs3; cases hs3
  obtain ⟨as1, as2, cfg1, rg1, mk, ha1, ha2, hp⟩ := accept_answers _ _ _ d snr ctx hc
  rw [hc2, hcfg1, hr2] at ha1
  obtain ⟨hcfg', hreg'⟩ := acceptState_cfg m2 s2 d N ctx
  refine ⟨so, m1, rs', as1, as2, cfg1, rg1, mk, _, hsend, hcfg1, ha1, ?_, acceptState_st _ _ d N ctx, by rw [acceptFinish_session_eq]; exact hp⟩
  rw [hcfg', hreg']
  exact ha2

/-! non-vacuity: a Class C device; RXParamSetupReq + DevStatusReq accepted in RX1 AFTER a Class C frame
was accepted between TX and RX1; in the next procedure another Class C frame is accepted between the
windows: the sticky RXParamSetupAns is still owed after it -/
def dlC (w : Nat) : RxView × Int :=
  (.data { len := 14, confirmed := false, fcnt16 := w, micFcnt := some w, fopts := [], fport := some 1, payload := [w] }, 5)

def demoHistoryC : List EvC :=
  [ .base (.joinAbp 7 1 2),
    .uplinkC true [1] 1 false none [dlC 1] (dl 2 [0x05, 0x23, 0xD2, 0xAD, 0x84, 0x06]) [] none,
    .uplinkC true [2] 1 false none [] none [dlC 3] none,
    .uplinkC true [3] 1 false none [] none [] none ]

example : ∀ ev ∈ demoHistoryC, evOkC ev = true ∧ validEvC .EU868 ev = true := by decide
/-- the hypothesis of `stepC_effects` on the second event of `demoHistoryC`: a Class C acceptance, then
the Class A acceptance of the frame with the commands -/
example :
    (match macSend lcg (macJoinAbp (MacState.init (RegionState.init .EU868) 14 0) 7 1 2) [1] 1 false 1 with
     | .ok (some so, _, _) =>
       decide ((upRefC true none false (rxcMp (macJoinAbp (MacState.init (RegionState.init .EU868) 14 0) 7 1 2)) none [dlC 1]
         (dl 2 [0x05, 0x23, 0xD2, 0xAD, 0x84, 0x06]) [] none so).acts.map (fun a => match a with | .accC N _ => (0, N) | .accA N _ _ => (1, N) | .tmo => (2, 0))
         = [(0, 1), (1, 2)])
     | _ => false) = true := by decide +kernel
example : (runC lcg (MacState.init (RegionState.init .EU868) 14 0, 1) demoHistoryC).toOption.map
      (fun r => (macFields (r.2.map (·.out)), r.2.map (fun o => o.heard.length)))
    = some ([[], [0x05, 7, 0x06, 255, 5], [0x05, 7]], [0, 2, 1, 0]) := by decide +kernel

/-! ### … and INDEXED over every extended history (builder M)

`history_effects` for `runC`: the position is one of the ANNOTATED trace of the run (`annotC`: the event
with the RXC payload limit of the state it starts in), the reference counter is the tracker moved
across the first `i` annotated events (`ghNextC`: in-procedure acceptances included), and the
hypothesis is the reference's verdict on event `i` for the uplink the run reports there. -/

/-- **C08 effects over every EXTENDED history.**  Take any extended history (Class C receptions inside
the receive procedure included), any random stream, and ANY position `i` holding `send` + receive
procedure.  If, under the counter `last` the reference tracker holds before event `i`, the reference's
verdict on that procedure (`upRefC`, for the uplink `so` the run reports at `i`) is: Class C
acceptances only (`pre`, any number, anywhere between TX and the window), then the Class A acceptance of
`d` — then `Effects` holds between the state `mi` the history reached just before event `i` and the
state `mi'` just after it: configuration and channel plan of `mi'` are exactly the result of `d`'s command
streams applied to `mi`'s (every acknowledged request took effect as commanded, every rejected one
changed nothing), and the queue is the fitting prefix of the answers — the state all later
transmissions and receive windows are computed from. -/
theorem historyC_effects {σ} (g : Rng σ) (m : MacState) (rs : σ) (gh : Gh) (hr : GhRel m gh) (evs : List EvC)
    (hv : ∀ ev ∈ evs, evOkC ev = true) (ms' : MacState × σ) (outs : List OutC) (h : runC g (m, rs) evs = .ok (ms', outs))
    (i : Nat) (mpc : Nat) (cc : Bool) (data : List Nat) (fport : Nat) (conf : Bool) (fault : Option FaultPos)
    (c1 : List (RxView × Int)) (rx1 : Option (RxView × Int)) (c2 : List (RxView × Int)) (rx2 : Option (RxView × Int)) (out : OutC)
    (hi : ((annotC g (m, rs) evs).zip outs)[i]? = some ((mpc, .uplinkC cc data fport conf fault c1 rx1 c2 rx2), out))
    (last : Option Nat) (hlast : ghostAfterG ghNextC gh (((annotC g (m, rs) evs).zip outs).take i) = some last)
    (so : SendOut) (resp : Option Response) (dl : Option (Nat × List Nat)) (hout : out.out = .up so resp dl)
    (pre : List Act) (N : Nat) (d : RxData) (snr : Int) (hpre : OnlyAccC pre)
    (hacc : (upRefC cc last conf mpc fault c1 rx1 c2 rx2 so).acts = pre ++ [.accA N d snr]) :
    ∃ mi rsi mi' rsi', ChainC g (m, rs) (((annotC g (m, rs) evs).zip outs).take i) (mi, rsi) ∧
      ChainC g (mi', rsi') (((annotC g (m, rs) evs).zip outs).drop (i + 1)) ms' ∧ Effects g mi rsi data fport conf d snr mi' := by
  have hc := runC_chain g (m, rs) ms' evs outs h
  obtain ⟨⟨mi, rsi⟩, ⟨mi', rsi'⟩, h1, hmp, hstep, h2⟩ := chainC_at g (m, rs) ms' _ i _ out hc hi
  have hvz : ∀ x ∈ (annotC g (m, rs) evs).zip outs, evOkC x.1.2 = true := fun x hx => hv _ (mem_annot_zip g _ evs outs x hx)
  have hri := chainC_ghRel g (m, rs) (mi, rsi) _ gh hr (fun x hx => hvz x (List.mem_of_mem_take hx)) h1
  rw [hlast] at hri
  obtain ⟨s, hst, rfl, hl⟩ := hri
  simp only at hmp hstep hst
  have hve := hvz _ (List.mem_of_getElem? hi)
  simp only at hve
  refine ⟨mi, rsi, mi', rsi', h1, h2, stepC_effects g mi mi' rsi rsi' s hst hl cc data fport conf fault c1 rx1 c2 rx2 hve out hstep
    pre N d snr hpre ?_⟩
  intro so' m1 rs1 hsend
  obtain ⟨so2, m2, hsend2, _, _, _, _, hout2, _⟩ :=
    stepC_uplinkC_joined g mi mi' rsi rsi' s hst hl cc data fport conf fault c1 rx1 c2 rx2 hve out hstep
  rw [hsend2] at hsend
  simp only [Except.ok.injEq, Prod.mk.injEq, Option.some.injEq] at hsend
  obtain ⟨rfl, _, _⟩ := hsend
  rw [hout2] at hout
  simp only [Out.up.injEq] at hout
  obtain ⟨rfl, _, _⟩ := hout
  rw [← hmp]
  exact hacc

/-- **C08 effects on the async front-end, for EVERY script, both classes.**  A session of the async
front-end model that returns is a run of the extended history `abstractSessionC` of its calls, to the
front-end's final MAC state and generator state, with the front-end's answers call by call (`ObsRel`);
at every position of it that holds a `send` whose procedure the reference judges "Class C acceptances,
then the Class A acceptance of `d`", `Effects` holds between the MAC states before and after that call. -/
theorem asyncC_effects {σ} (g : Rng σ) (cfg : DevCfg) (d : DevRun) (rs : σ) (gh : Gh) (hr : GhRel d.m gh)
    (ops : List AsyncOp) (hv : ∀ op ∈ ops, op.allView viewOk = true)
    (obs : List OpObs) (d' : DevRun) (rs' : σ) (h : asyncOps g cfg d rs ops = .ok (obs, d', rs')) :
    ∃ outs, runC g (d.m, rs) (abstractSessionC cfg ops) = .ok ((d'.m, rs'), outs) ∧ AllRel ObsRel obs outs ∧
      ∀ (i mpc : Nat) (cc : Bool) (data : List Nat) (fport : Nat) (conf : Bool) (fault : Option FaultPos)
        (c1 : List (RxView × Int)) (rx1 : Option (RxView × Int)) (c2 : List (RxView × Int)) (rx2 : Option (RxView × Int)) (out : OutC),
        ((annotC g (d.m, rs) (abstractSessionC cfg ops)).zip outs)[i]? =
            some ((mpc, .uplinkC cc data fport conf fault c1 rx1 c2 rx2), out) →
        ∀ (last : Option Nat), ghostAfterG ghNextC gh (((annotC g (d.m, rs) (abstractSessionC cfg ops)).zip outs).take i) = some last →
        ∀ (so : SendOut) (resp : Option Response) (dl : Option (Nat × List Nat)), out.out = .up so resp dl →
        ∀ (pre : List Act) (N : Nat) (dd : RxData) (snr : Int), OnlyAccC pre →
          (upRefC cc last conf mpc fault c1 rx1 c2 rx2 so).acts = pre ++ [.accA N dd snr] →
          ∃ mi rsi mi' rsi', ChainC g (d.m, rs) (((annotC g (d.m, rs) (abstractSessionC cfg ops)).zip outs).take i) (mi, rsi) ∧
            ChainC g (mi', rsi') (((annotC g (d.m, rs) (abstractSessionC cfg ops)).zip outs).drop (i + 1)) (d'.m, rs') ∧
            Effects g mi rsi data fport conf dd snr mi' := by
  obtain ⟨outs, hrun, hobs⟩ := asyncOps_runC g cfg d rs ops obs d' rs' h
  refine ⟨outs, hrun, hobs, ?_⟩
  intro i mpc cc data fport conf fault c1 rx1 c2 rx2 out hi last hlast so resp dl hout pre N dd snr hpre hacc
  exact historyC_effects g d.m rs gh hr _ (abstractOps_evOkC cfg ops hv) _ outs hrun i mpc cc data fport conf fault c1 rx1 c2 rx2 out hi
    last hlast so resp dl hout pre N dd snr hpre hacc

/-- the hypotheses of `historyC_effects` at position `i` of an annotated trace, computed: the
reference's acts for that procedure under the tracker's counter (0 = Class C acceptance, 1 = Class A
acceptance, 2 = `rx2_complete`, each with its counter) -/
def effectsHyp (t : List (EvL × OutC)) (gh : Gh) (i : Nat) : Option (List (Nat × Nat)) :=
  match t[i]?, ghostAfterG ghNextC gh (t.take i) with
  | some ((mpc, .uplinkC cc _ _ conf fault c1 rx1 c2 rx2), out), some last =>
    (match out.out with
     | .up so _ _ =>
       some ((upRefC cc last conf mpc fault c1 rx1 c2 rx2 so).acts.map
         (fun a => match a with | .accC N _ => (0, N) | .accA N _ _ => (1, N) | .tmo => (2, 0)))
     | _ => none)
  | _, _ => none

/-- non-vacuity of `historyC_effects` on `demoHistoryC`: at position 1 the tracker (started at `none`,
moved across the `joinAbp`) holds "no downlink yet", and the reference's acts are a Class C acceptance
(counter 1, heard between TX and RX1) followed by the Class A acceptance of the frame with the commands
(counter 2); at position 2 the procedure ends by `rx2_complete` after a Class C acceptance — the
hypothesis fails there, as it must -/
example : (runC lcg (MacState.init (RegionState.init .EU868) 14 0, 1) demoHistoryC).toOption.map
      (fun r => (effectsHyp ((annotC lcg (MacState.init (RegionState.init .EU868) 14 0, 1) demoHistoryC).zip r.2) none 1,
                 effectsHyp ((annotC lcg (MacState.init (RegionState.init .EU868) 14 0, 1) demoHistoryC).zip r.2) none 2))
    = some (some [(0, 1), (1, 2)], some [(0, 3), (2, 0)]) := by decide +kernel

end C08

#print axioms C08.push_length_le
#print axioms C08.push_whole_or_nothing
#print axioms C08.push_after_full
#print axioms C08.push_drop_iff
#print axioms C08.rxParamSetup_ack
#print axioms C08.rxParamSetup_nak
#print axioms C08.rxParamSetup_rejects
#print axioms C08.linkAdr_atomic
#print axioms C08.linkAdr_rejects
#print axioms C08.linkAdrDr_spec
#print axioms C08.retainSticky_spec
#print axioms C08.dlChannel_atomic
#print axioms C08.dlChannel_rx1
#print axioms C08.newChannel_atomic
#print axioms C08.handleCmds_adr_run
#print axioms C08.handleCmds_answers
#print axioms C08.handleCmds_answers_full
#print axioms C08.accept_answers
#print axioms C08.Answers.shape
#print axioms C08.step_ansRel
#print axioms C08.history_answers
#print axioms C08.history_answers_init
#print axioms C08.step_effects
#print axioms C08.history_effects
#print axioms C08.stepC_ansRel
#print axioms C08.historyC_answers
#print axioms C08.asyncC_answers
#print axioms C08.stepC_effects
#print axioms C08.historyC_effects
#print axioms C08.asyncC_effects
