import LoraVerif.Model.Mac
import LoraVerif.Lemmas.ExceptLemmas
/-!
# C08 — MAC command handling is consistent and atomic: the device does what it answers

Theorems about `Model/Mac.lean` / `Model/Region.lean` (the executable model tied to the real MAC by
the correspondence suite C08, which also evaluates an independent RP002/LoRaWAN oracle on the
implementation's own outputs).

* answers are queued whole, never beyond 15 bytes, and after the first answer that does not fit
  nothing is queued any more (`push_*`): the uplink carries a prefix of the answers in request order;
* full acknowledgement ⇒ exactly the commanded effect, any rejection ⇒ nothing changed
  (`rxParamSetup_*`, `linkAdr_*`, `newChannel_*`, `dlChannel_*`);
* unambiguously invalid requests are rejected (`*_rejects_*`);
* stickiness: `retainSticky` keeps exactly RXParamSetupAns/RXTimingSetupAns/DlChannelAns (`retainSticky_spec`).
-/
open Model Gen.Region

namespace C08

/-! ## the answer queue -/

theorem push_length_le (c : MacCtx) (cid : Nat) (p : List Nat) (h : c.pending.length ≤ 15) :
    (c.push cid p).pending.length ≤ 15 := by
  unfold MacCtx.push
  split
  · exact h
  · split
    · simp only [List.length_append, List.length_cons]; omega
    · exact h

/-- an answer is queued whole or not at all -/
theorem push_whole_or_nothing (c : MacCtx) (cid : Nat) (p : List Nat) :
    (c.push cid p).pending = c.pending ++ cid :: p ∨ (c.push cid p).pending = c.pending := by
  unfold MacCtx.push
  split
  · exact Or.inr rfl
  · split
    · exact Or.inl rfl
    · exact Or.inr rfl

/-- once an answer has been dropped, every later answer of the downlink is dropped too:
only trailing answers are lost -/
theorem push_after_full (c : MacCtx) (cid : Nat) (p : List Nat) (h : c.full = true) :
    c.push cid p = c := by
  unfold MacCtx.push; simp [h]

/-- an answer is dropped only when it does not fit the 15-byte limit, and dropping sets the flag -/
theorem push_drop_iff (c : MacCtx) (cid : Nat) (p : List Nat) (h : c.full = false) :
    ((c.push cid p).pending = c.pending ++ cid :: p ∧ (c.push cid p).full = false ∧ c.pending.length + 1 + p.length ≤ 15)
    ∨ ((c.push cid p).pending = c.pending ∧ (c.push cid p).full = true ∧ 15 < c.pending.length + 1 + p.length) := by
  unfold MacCtx.push
  simp only [h]
  by_cases hf : c.pending.length + p.length < 15
  · simp [hf, h]; omega
  · simp [hf]; omega

/-- the queue only grows by appending while a downlink is processed -/
theorem push_prefix (c : MacCtx) (cid : Nat) (p : List Nat) : c.pending <+: (c.push cid p).pending := by
  rcases push_whole_or_nothing c cid p with h | h <;> rw [h]
  · exact List.prefix_append _ _
  · exact List.prefix_refl _

/-- pushing never touches configuration or channel plan -/
theorem push_cfg (c : MacCtx) (cid : Nat) (p : List Nat) :
    (c.push cid p).cfg = c.cfg ∧ (c.push cid p).region = c.region := by
  unfold MacCtx.push
  split
  · simp
  · split <;> simp

/-! ## RXParamSetupReq -/

/-- full acknowledgement (0b111) ⇒ RX1 offset, RX2 data rate and RX2 frequency are exactly the commanded ones -/
theorem rxParamSetup_ack (cfg : Config) (r : RegionId) (dl f : Nat) (h : (rxParamSetup cfg r dl f).1 = 7) :
    (rxParamSetup cfg r dl f).2 =
      { cfg with rx2DataRate := (if dl % 16 == 15 then cfg.rx2DataRate else some (dl % 16)),
                 rx2Frequency := some f, rx1DrOffset := (dl / 16) % 8 } := by
  unfold rxParamSetup rx1DrOffsetValidate at *
  simp only at h ⊢
  by_cases h1 : frequencyValid r f = true <;> by_cases h2 : (dl / 16) % 8 ≤ maxRx1DrOffset r <;>
    by_cases h3 : (dl % 16 == 15) = true <;> by_cases h4 : (getDatarate r (dl % 16)).isSome = true <;>
    simp_all

/-- any rejection ⇒ the configuration is unchanged -/
theorem rxParamSetup_nak (cfg : Config) (r : RegionId) (dl f : Nat) (h : (rxParamSetup cfg r dl f).1 ≠ 7) :
    (rxParamSetup cfg r dl f).2 = cfg := by
  unfold rxParamSetup rx1DrOffsetValidate at *
  simp only at h ⊢
  by_cases h1 : frequencyValid r f = true <;> by_cases h2 : (dl / 16) % 8 ≤ maxRx1DrOffset r <;>
    by_cases h3 : (dl % 16 == 15) = true <;> by_cases h4 : (getDatarate r (dl % 16)).isSome = true <;>
    simp_all

/-- invalid fields are rejected bit by bit: out-of-band frequency, undefined RX2 data rate, too large offset -/
theorem rxParamSetup_rejects (cfg : Config) (r : RegionId) (dl f : Nat) :
    (frequencyValid r f = false → (rxParamSetup cfg r dl f).1 % 2 = 0) ∧
    ((dl % 16 ≠ 15 ∧ getDatarate r (dl % 16) = none) → (rxParamSetup cfg r dl f).1 / 2 % 2 = 0) ∧
    (maxRx1DrOffset r < (dl / 16) % 8 → (rxParamSetup cfg r dl f).1 / 4 = 0) := by
  unfold rxParamSetup rx1DrOffsetValidate
  simp only
  refine ⟨?_, ?_, ?_⟩
  · intro h1
    by_cases h2 : (dl / 16) % 8 ≤ maxRx1DrOffset r <;>
      by_cases h3 : (dl % 16 == 15) = true <;> by_cases h4 : (getDatarate r (dl % 16)).isSome = true <;>
      simp [h1, h2, h3, h4]
  · intro ⟨h3, h4⟩
    have h3' : (dl % 16 == 15) = false := by simp [h3]
    by_cases h1 : frequencyValid r f = true <;> by_cases h2 : (dl / 16) % 8 ≤ maxRx1DrOffset r <;>
      simp [h1, h2, h3', h4]
  · intro h2
    have h2' : ¬ (dl / 16) % 8 ≤ maxRx1DrOffset r := by omega
    by_cases h1 : frequencyValid r f = true <;>
      by_cases h3 : (dl % 16 == 15) = true <;> by_cases h4 : (getDatarate r (dl % 16)).isSome = true <;>
      simp [h1, h2', h3, h4]

/-! ## LinkADRReq block -/

/-- what a LinkADRReq block decides, step by step -/
theorem linkAdr_decide_eq (cfg : Config) (region : RegionState) (mask : Mask) (rfu : Bool) (drRaw pwRaw : Nat)
    (res : Nat × Config × RegionState) (h : linkAdrDecide cfg region mask rfu drRaw pwRaw = .ok res) :
    ∃ pw cmAck, linkAdrPw cfg region.id pwRaw = .ok pw ∧
      linkAdrCmAck region mask rfu (linkAdrDr cfg region.id drRaw) = .ok cmAck ∧
      res = (match cmAck, linkAdrDr cfg region.id drRaw, pw with
        | true, some d, some p =>
          ((if cmAck then 1 else 0) + (if (linkAdrDr cfg region.id drRaw).isSome then 2 else 0) + (if pw.isSome then 4 else 0),
            { cfg with dataRate := d, txPower := p }, channelMaskSet region mask)
        | _, _, _ =>
          ((if cmAck then 1 else 0) + (if (linkAdrDr cfg region.id drRaw).isSome then 2 else 0) + (if pw.isSome then 4 else 0),
            cfg, region)) := by
  unfold linkAdrDecide at h
  obtain ⟨pw, hpw, h⟩ := Except.bind_eq_ok h
  obtain ⟨cm, hcm, h⟩ := Except.bind_eq_ok h
  refine ⟨pw, cm, hpw, hcm, ?_⟩
  cases cm <;> cases hd : linkAdrDr cfg region.id drRaw <;> cases pw <;> simp only [hd] at h ⊢ <;>
    exact (Except.pure_eq_ok h).symm

/-- **atomicity of a LinkADRReq block.** Full acknowledgement (0b111) ⇒ data rate, TX power and
channel mask are exactly the commanded ones and nothing else changes; any rejection ⇒ configuration
and channel plan are unchanged. -/
theorem linkAdr_atomic (cfg : Config) (region : RegionState) (mask : Mask) (rfu : Bool) (drRaw pwRaw : Nat)
    (ans : Nat) (cfg' : Config) (region' : RegionState)
    (h : linkAdrDecide cfg region mask rfu drRaw pwRaw = .ok (ans, cfg', region')) :
    (ans = 7 → ∃ d p, linkAdrDr cfg region.id drRaw = some d ∧ linkAdrPw cfg region.id pwRaw = .ok (some p) ∧
        cfg' = { cfg with dataRate := d, txPower := p } ∧ region' = channelMaskSet region mask)
    ∧ (ans ≠ 7 → cfg' = cfg ∧ region' = region) := by
  obtain ⟨pw, cm, hpw, hcm, hres⟩ := linkAdr_decide_eq _ _ _ _ _ _ _ h
  cases cm <;> cases hd : linkAdrDr cfg region.id drRaw <;> cases pw <;> simp only [hd] at hres <;>
    simp only [Prod.mk.injEq] at hres <;> obtain ⟨rfl, rfl, rfl⟩ := hres <;> simp_all

/-- the commanded data rate: 15 = keep, otherwise the value itself, and only if the region defines it -/
theorem linkAdrDr_spec (cfg : Config) (r : RegionId) (drRaw d : Nat) (h : linkAdrDr cfg r drRaw = some d) :
    (drRaw = 15 ∧ d = cfg.dataRate) ∨ (drRaw ≠ 15 ∧ d = drRaw ∧ isUplinkDatarate r drRaw) := by
  unfold linkAdrDr at h
  by_cases h15 : (drRaw == 15) = true
  · simp [h15] at h; left; simp_all
  · simp only [h15, if_false, Bool.false_eq_true] at h
    by_cases hg : isUplinkDatarate r drRaw = true
    · simp [hg] at h; right; simp_all
    · simp [hg] at h

/-- an RFU ChMaskCntl, an undefined data rate and an undefined power index are each refused -/
theorem linkAdr_rejects (cfg : Config) (region : RegionState) (mask : Mask) (rfu : Bool) (drRaw pwRaw : Nat)
    (ans : Nat) (cfg' : Config) (region' : RegionState)
    (h : linkAdrDecide cfg region mask rfu drRaw pwRaw = .ok (ans, cfg', region')) :
    (rfu = true → ans % 2 = 0)
    ∧ ((drRaw ≠ 15 ∧ isUplinkDatarate region.id drRaw = false) → ans / 2 % 2 = 0)
    ∧ ((pwRaw ≠ 15 ∧ txPowerAdjust region.id pwRaw = .ok none) → ans / 4 = 0) := by
  obtain ⟨pw, cm, hpw, hcm, hres⟩ := linkAdr_decide_eq _ _ _ _ _ _ _ h
  have hans : ans = (if cm then 1 else 0) + (if (linkAdrDr cfg region.id drRaw).isSome then 2 else 0) + (if pw.isSome then 4 else 0) := by
    cases cm <;> cases hd : linkAdrDr cfg region.id drRaw <;> cases pw <;> simp only [hd] at hres <;>
      simp only [Prod.mk.injEq] at hres <;> obtain ⟨rfl, _, _⟩ := hres <;> simp
  refine ⟨?_, ?_, ?_⟩
  · intro hr
    have : cm = false := by
      unfold linkAdrCmAck at hcm
      obtain ⟨_, _, hcm⟩ := Except.bind_eq_ok hcm
      simp only [hr, if_true] at hcm
      exact (Except.pure_eq_ok hcm).symm
    subst this
    rw [hans]; simp only [Bool.false_eq_true, if_false]; (repeat' split) <;> omega
  · intro ⟨h15, hg⟩
    have : linkAdrDr cfg region.id drRaw = none := by
      unfold linkAdrDr
      have : (drRaw == 15) = false := by simp [h15]
      simp [this, hg]
    rw [hans, this]; simp only [Option.isSome_none, Bool.false_eq_true, if_false]; cases cm <;> (repeat' split) <;> omega
  · intro ⟨h15, hg⟩
    have : pw = none := by
      unfold linkAdrPw at hpw
      have : (pwRaw == 15) = false := by simp [h15]
      simp only [this, Bool.false_eq_true, if_false, hg, bind, Except.bind] at hpw
      exact (Except.pure_eq_ok hpw).symm
    subst this
    rw [hans]; simp only [Option.isSome_none, Bool.false_eq_true, if_false]; cases cm <;> (repeat' split) <;> omega

/-! ## stickiness -/

/-- wire form of an answer -/
def wire (a : Nat × List Nat) : List Nat := a.1 :: a.2

/-- a list of whole answers: every payload has the length the uplink command table gives its CID -/
def Whole (as : List (Nat × List Nat)) : Prop := ∀ a ∈ as, uplinkCmdLen a.1 = some a.2.length

/-- `clear_mac_commands(true)` keeps exactly the sticky answers, in order, and drops all others -/
theorem retainSticky_spec (as : List (Nat × List Nat)) (h : Whole as) (fuel : Nat)
    (hf : (as.map wire).flatten.length < fuel) :
    retainSticky fuel (as.map wire).flatten = ((as.filter (fun a => isSticky a.1)).map wire).flatten := by
  induction as generalizing fuel with
  | nil => cases fuel <;> simp [retainSticky]
  | cons a rest ih =>
    obtain ⟨cid, p⟩ := a
    have hlen : uplinkCmdLen cid = some p.length := h (cid, p) (List.mem_cons_self)
    have hrest : Whole rest := fun b hb => h b (List.mem_cons_of_mem _ hb)
    cases fuel with
    | zero => simp at hf
    | succ fuel =>
      simp only [List.map_cons, List.flatten_cons, wire, List.cons_append, retainSticky, hlen]
      have hnl : ¬ (p ++ (rest.map wire).flatten).length < p.length := by simp
      simp only [hnl, if_false, List.take_left', List.drop_left', List.filter_cons]
      have hf' : (rest.map wire).flatten.length < fuel := by
        simp only [List.map_cons, List.flatten_cons, wire, List.length_cons, List.length_append] at hf
        omega
      rw [ih hrest fuel hf']
      split <;> simp_all [wire]

/-! ## NewChannelReq / DlChannelReq: acknowledged ⇒ exactly the commanded effect, otherwise nothing -/

/-- the channel after an acknowledged DlChannelReq -/
def withDl (c : Channel) (freq : Nat) : Channel := { c with dlFreq := if freq == c.freq then none else some freq }

/-- the region state with slot `index` of the dynamic plan `p` replaced and mask `m` -/
def setSlot (rs : RegionState) (p : DynPlan) (index : Nat) (slot : Option Channel) (m : Mask) : RegionState :=
  { rs with plan := .dyn { channels := p.channels.set index slot, mask := m } }

/-- **DlChannelReq.** The frequency bit of the answer is the band check; unless both bits are set
the channel plan is unchanged; when both are set, channel `index` existed, was enabled, and is the
only thing that changed: its RX1 frequency is now the requested one (a request naming the uplink
frequency itself drops the separate downlink frequency, which is the same frequency), mask and all
other channels are untouched. -/
theorem dlChannel_atomic (rs rs' : RegionState) (index freq : Nat) (a b : Bool)
    (h : channelDlUpdate rs index freq = .ok ((a, b), rs')) :
    a = frequencyValid rs.id freq
    ∧ ((a && b) = false → rs' = rs)
    ∧ ((a && b) = true → ∃ p c, rs.plan = .dyn p ∧ index < 16 ∧ p.channels[index]? = some (some c) ∧ c.freq ≠ 0 ∧
        p.mask.isEnabled index = .ok true ∧ rs' = setSlot rs p index (some (withDl c freq)) p.mask) := by
  unfold channelDlUpdate at h
  cases hp : rs.plan with
  | fix q => simp [hp, Model.panic] at h
  | dyn p =>
    simp only [hp] at h
    split at h
    · cases Except.pure_eq_ok h; simp
    · rename_i hidx
      obtain ⟨en, hen, h⟩ := Except.bind_eq_ok h
      split at h
      · simp [Model.panic] at h
      · rename_i slot hslot
        split at h
        · rename_i c
          split at h
          · rename_i hf
            split at h
            · rename_i hfv
              cases Except.pure_eq_ok h
              refine ⟨rfl, by simp [hfv], fun _ => ⟨p, c, rfl, by omega, hslot, by simpa using hf, hen, rfl⟩⟩
            · rename_i hfv
              cases Except.pure_eq_ok h
              have : frequencyValid rs.id freq = false := by simpa using hfv
              simp [this]
          · cases Except.pure_eq_ok h; simp
        · cases Except.pure_eq_ok h; simp

/-- after an acknowledged DlChannelReq the channel's RX1 frequency is the requested frequency -/
theorem dlChannel_rx1 (c : Channel) (freq : Nat) : (withDl c freq).dlFreq.getD (withDl c freq).freq = freq := by
  unfold withDl
  by_cases h : freq = c.freq <;> simp [h]

/-- **NewChannelReq.** Default (join) channels and indices ≥ 16 are refused with both bits clear;
unless both bits are set nothing changes; when both are set the slot `index` holds exactly the
commanded channel (or is removed for frequency 0), its mask bit follows, and every other slot is
untouched. -/
theorem newChannel_atomic (rs rs' : RegionState) (index freq : Nat) (dr : Option Nat) (a b : Bool)
    (h : handleNewChannel rs index freq dr = .ok ((a, b), rs')) :
    ((index < numJoinChannels rs.id ∨ index ≥ 16) → a = false ∧ b = false)
    ∧ ((a && b) = false → rs' = rs)
    ∧ ((a && b) = true → ∃ p m, rs.plan = .dyn p ∧ numJoinChannels rs.id ≤ index ∧ index < 16 ∧
        ((freq = 0 ∧ p.mask.setChannel index false = .ok m ∧ rs' = setSlot rs p index none m)
         ∨ (freq ≠ 0 ∧ frequencyValid rs.id freq = true ∧ ∃ r, dr = some r ∧ p.mask.setChannel index true = .ok m ∧
            rs' = setSlot rs p index (some { freq := freq, drRange := r, dlFreq := none }) m))) := by
  unfold handleNewChannel at h
  cases hp : rs.plan with
  | fix q => simp [hp, Model.panic] at h
  | dyn p =>
    simp only [hp] at h
    split at h
    · cases Except.pure_eq_ok h; simp
    · rename_i h1
      split at h
      · cases Except.pure_eq_ok h; simp
      · rename_i h2
        split at h
        · rename_i hf0
          obtain ⟨m, hm, h⟩ := Except.bind_eq_ok h
          cases Except.pure_eq_ok h
          refine ⟨by omega, by simp, fun _ => ⟨p, m, rfl, by omega, by omega, Or.inl ⟨by simpa using hf0, hm, rfl⟩⟩⟩
        · rename_i hf0
          have hfne : freq ≠ 0 := by simpa using hf0
          cases dr with
          | none =>
            cases Except.pure_eq_ok h
            refine ⟨by omega, by simp, by simp⟩
          | some r =>
            simp only at h
            obtain ⟨sup, hsup, h⟩ := Except.bind_eq_ok h
            split at h
            · rename_i hboth
              obtain ⟨m, hm, h⟩ := Except.bind_eq_ok h
              cases Except.pure_eq_ok h
              have hb : frequencyValid rs.id freq = true ∧ b = true := by simpa using hboth
              refine ⟨by omega, by simp [hb.1, hb.2], fun _ => ⟨p, m, rfl, by omega, by omega, Or.inr ⟨hfne, hb.1, r, rfl, hm, rfl⟩⟩⟩
            · rename_i hboth
              cases Except.pure_eq_ok h
              refine ⟨by omega, by simp, fun hh => absurd hh hboth⟩

/-! non-vacuity -/
def cfg0 : Config :=
  { dataRate := 0, rx1Delay := 1000, txPower := none, rx1DrOffset := 0, rx2DataRate := none, rx2Frequency := none, adrEnabled := true }
example : (rxParamSetup cfg0 .EU868 0x23 869525000).1 = 7 := by decide
example : (rxParamSetup cfg0 .EU868 0x7F 1000).1 = 2 := by decide
example : (linkAdrDecide cfg0 (RegionState.init .EU868) [7, 0, 255, 255, 255, 255, 255, 255, 255] false 5 1).toOption.map (·.1) = some 7 := by decide
example : ((channelDlUpdate (RegionState.init .EU868) 0 867100000).toOption.map (·.1)) = some (true, true) := by decide
example : ((handleNewChannel (RegionState.init .EU868) 4 867300000 (some 0x50)).toOption.map (·.1)) = some (true, true) := by decide
example : ((handleNewChannel (RegionState.init .EU868) 1 867300000 (some 0x50)).toOption.map (·.1)) = some (false, false) := by decide
example : retainSticky 16 [0x03, 7, 0x05, 7, 0x06, 255, 0, 0x08, 0x0A, 3] = [0x05, 7, 0x08, 0x0A, 3] := by decide

end C08

#print axioms C08.push_length_le
#print axioms C08.push_whole_or_nothing
#print axioms C08.push_after_full
#print axioms C08.push_drop_iff
#print axioms C08.rxParamSetup_ack
#print axioms C08.rxParamSetup_nak
#print axioms C08.rxParamSetup_rejects
#print axioms C08.linkAdr_atomic
#print axioms C08.linkAdr_rejects
#print axioms C08.linkAdrDr_spec
#print axioms C08.retainSticky_spec
#print axioms C08.dlChannel_atomic
#print axioms C08.dlChannel_rx1
#print axioms C08.newChannel_atomic
