import LoraVerif.Props.C02
/-!
# C11, byte level: the JoinRequest the device sends and the session keys it derives

`Props/C11.lean` works on the MAC model, where a received JoinAccept arrives as the reference codec's
view.  The byte-level half of C11 — the JoinRequest layout and MIC, JoinAccept decryption and MIC,
the field extraction, and the derivation of NwkSKey/AppSKey from (AppKey, JoinNonce, NetID,
DevNonce) — is proved on the codec model (`Model/Codec.lean`, tied to `lorawan-encoding` by the
C01/C02 correspondence) for ANY block cipher; the statements are restated here under the names the
C11 check audits.
-/
open Lora Lora.Codec Lora.CodecLemmas Lora.C01Lemmas Lora.C02Lemmas

namespace C11

/-- the JoinRequest handed to the radio is byte-exact LoRaWAN §6.2.4 (MHDR | AppEUI | DevEUI | DevNonce | MIC) -/
theorem join_request_bytes (c : Cipher) (d : JoinRequest) (buf : Bytes) (appKey : Key) :
    d.buildInto buf ⟨c, appKey⟩ = Outcome.ofExcept (Spec.encodeJoinRequest c appKey d.toSpec buf.length) :=
  C01.build_join_request_eq_spec c d buf appKey

/-- a received JoinAccept is decrypted and authenticated exactly as §6.2.5 says; nothing else is accepted -/
theorem join_accept_decode (c : Cipher) (k : Key) (b : Bytes) :
    joinAcceptCheckMicAndDecryptInPlace b ⟨c, k⟩ =
      match Spec.decodeJoinAccept c k b with
      | .error e => (.err e, b)
      | .ok (clear, _, authentic) => (if authentic then .ok clear else .err .invalidMic, clear) :=
  C02.join_accept_check_eq_spec c k b

/-- the fields the MAC reads from the decrypted JoinAccept (JoinNonce, NetID, DevAddr, DLSettings,
RxDelay, CFList type 0 / 1) are the specification's -/
theorem join_accept_fields (clear : Bytes) (hl : clear.length = 17 ∨ clear.length = 33) :
    (joinAcceptView clear).map JoinAcceptView.toSpec = .ok (Spec.joinAcceptView clear) :=
  C02.join_accept_view_eq_spec clear hl

/-- NwkSKey (tag 1) and AppSKey (tag 2) are aes128_encrypt(AppKey, tag | JoinNonce | NetID | DevNonce | pad) -/
theorem session_keys (c : Cipher) (k : Key) (clear : Bytes) (tag : UInt8) (dn : DevNonce)
    (hl : clear.length = 17 ∨ clear.length = 33) :
    deriveSessionKey clear tag dn ⟨c, k⟩
      = .ok (Spec.sessionKey c k tag (Spec.joinAcceptView clear).joinNonce (Spec.joinAcceptView clear).netId
          (Spec.fromLe dn.toList)).toList :=
  C02.derive_session_key_eq_spec c k clear tag dn hl

end C11
