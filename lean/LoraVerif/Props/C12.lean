import LoraVerif.Model.Mac
import LoraVerif.Spec.Adr
import LoraVerif.Lemmas.ExceptLemmas
import LoraVerif.Props.C08
import LoraVerif.Props.C09
import LoraVerif.Lemmas.GhostC
import LoraVerif.Lemmas.RefineC
import LoraVerif.Lemmas.HistoryCSafe
/-!
# C12 — uplink header bits and ADR back-off follow the session history

Refinement of the MAC model to the four-field reference automaton `Spec.Adr.Auto` through the
abstraction `abs` (ACK owed, ADR on, ADR_ACK_CNT, data rate): every operation of the model commutes
with the corresponding automaton step, and the header of every uplink is the automaton's header.
By induction over any history the uplink bits are therefore exactly those of the automaton:
ACK once after ≥1 accepted confirmed downlinks, ADR bit = ADR enabled, ADRACKReq ⇔ ADR ∧ cnt ≥ 64 ∧ a
lower rate exists, step-down exactly at cnt = 96, 128, … to the next lower DEFINED rate, restart on any
accepted downlink (`header_refines`, `timeout_refines`, `accept_refines`, `setAdr_refines`, `setDr_refines`).

That induction is carried out in `history_header_bits` (over `Model/History.lean`, with the reference
session tracker of `Lemmas/Ghost.lean` deciding which downlinks are accepted): along every run every
data uplink carries the automaton's header bits and goes out at the automaton's data rate (`TxAt`: in
regions with a dynamic plan always; in US915/AU915 when no join bias was configured — `NoBias`, an
invariant of every history, `step_nobias`); the automaton moves by `afterSend` then `timeout` / `accept`
(`AdrStep`), its data rate changing otherwise only by `set_datarate` or by an accepted Class A frame
that carries a LinkADRReq (`answers_adr`: no other MAC command touches it; the commanded value: C08).
-/
open Model Spec.Adr Gen.Region

namespace C12

def abs (s : Session) (cfg : Config) : Auto :=
  { ackOwed := s.ackOwed, adrOn := cfg.adrEnabled, cnt := s.adrAckCnt, dr := cfg.dataRate }

def lowerExists (r : RegionId) (dr : Nat) : Bool := (nextLowerDatarate r dr).isSome

/-- every uplink: address of the session, requested message type, and the automaton's header bits;
building it performs the automaton's `afterSend` -/
theorem header_refines (s : Session) (cfg : Config) (r : RegionId) (data : List Nat) (port : Nat) (conf : Bool)
    (desc : UplinkDesc) (s' : Session) (h : prepareBuffer s cfg r data port conf = .ok (desc, s')) :
    (desc.ack, desc.adr, desc.adrAckReq) = (abs s cfg).header (lowerExists r) ∧
    desc.confirmed = conf ∧ desc.devAddr = s.devAddr ∧ abs s' cfg = (abs s cfg).afterSend := by
  unfold prepareBuffer at h
  simp only [bind, Except.bind, pure, Except.pure] at h
  repeat' split at h
  all_goals
    first
    | (simp only [Except.ok.injEq, Prod.mk.injEq] at h
       obtain ⟨rfl, rfl⟩ := h
       simp [abs, Auto.header, Auto.afterSend, lowerExists, adrAckLimit, Gen.Session.ADR_ACK_LIMIT])
    | cases h

/-- an uplink without accepted downlink: the model's `rx2_complete` is the automaton's `timeout` -/
theorem timeout_refines (s : Session) (cfg : Config) (r : RegionId) (hx : s.fcntUp ≠ 0xFFFFFFFF) :
    abs (rx2Complete s cfg r).2.1 (rx2Complete s cfg r).2.2 = (abs s cfg).timeout (nextLowerDatarate r) := by
  unfold rx2Complete
  have hx' : (s.fcntUp == 0xFFFFFFFF) = false := by simp [hx]
  have e64 : Gen.Session.ADR_ACK_LIMIT.toNat = 64 := by decide
  have e32 : Gen.Session.ADR_ACK_DELAY.toNat = 32 := by decide
  simp only [hx', Bool.false_eq_true, if_false, e64, e32, abs, Auto.timeout, adrAckLimit, adrAckDelay]
  by_cases hadr : cfg.adrEnabled = true
  · simp only [hadr, if_true]
    by_cases h1 : min (s.adrAckCnt + 1) 4294967295 ≥ 64 + 32
    · by_cases h2 : (min (s.adrAckCnt + 1) 4294967295 - 64) % 32 = 0
      · have h2b : ((min (s.adrAckCnt + 1) 4294967295 - 64) % 32 == 0) = true := by simp [h2]
        simp only [h1, h2, h2b, and_self, if_true]
        cases nextLowerDatarate r cfg.dataRate <;> simp [hadr]
      · have h2b : ((min (s.adrAckCnt + 1) 4294967295 - 64) % 32 == 0) = false := by simp [h2]
        simp [h1, h2, h2b, hadr]
    · simp [h1, hadr]
  · have hadr' : cfg.adrEnabled = false := by simpa using hadr
    simp [hadr']

/-- an accepted downlink without MAC commands: the automaton's `accept` -/
theorem accept_refines (s : Session) (cfg : Config) (region : RegionState) (d : RxData) (mp : Nat) (snr : Int) (ig : Bool)
    (o : RxOut) (s' : Session) (cfg' : Config) (region' : RegionState) (N : Nat)
    (h : sessionHandleRx s cfg region d mp snr ig = .ok (o, s', cfg', region'))
    (hlen : d.len ≤ mp + 5) (hn : nextFcntDown s.fcntDown d.fcnt16 = some N) (hm : d.micFcnt = some N)
    (hnocmd : d.fopts = [] ∧ d.fport ≠ some 0) :
    abs s' cfg' = (abs s cfg).accept d.confirmed := by
  unfold sessionHandleRx at h
  have hlen' : ¬ d.len > mp + 5 := by omega
  simp only [hlen', if_false, hn] at h
  have : (d.micFcnt != some N) = false := by simp [hm]
  simp only [this, Bool.false_eq_true, if_false] at h
  obtain ⟨ctx, hctx, h⟩ := Except.bind_eq_ok h
  have hcfg : ctx.cfg = cfg := by
    cases ig
    · simp only [Bool.false_eq_true, if_false, hnocmd.1] at hctx
      obtain ⟨c1, hc1, hctx⟩ := Except.bind_eq_ok hctx
      have : c1.cfg = cfg := by
        simp only [handleDownlinkMacs, parseDownlinkCmds, List.length_nil, handleCmds, Except.ok.injEq] at hc1
        subst hc1; rfl
      have hp : (d.fport == some 0) = false := by simp [hnocmd.2]
      simp only [hp, Bool.false_eq_true, if_false, pure, Except.pure, Except.ok.injEq] at hctx
      subst hctx; exact this
    · simp only [if_true, pure, Except.pure, Except.ok.injEq] at hctx
      subst hctx; rfl
  cases hc : d.confirmed <;> cases ig <;>
    simp only [hc, Bool.false_eq_true, if_false, if_true] at h <;>
    (split at h) <;>
    simp only [pure, Except.pure, Except.ok.injEq, Prod.mk.injEq] at h <;>
    obtain ⟨rfl, rfl, rfl, rfl⟩ := h <;>
    simp [abs, Auto.accept, hcfg]

theorem setAdr_refines (m : MacState) (s : Session) (hst : m.st = .joined s) (on : Bool) :
    ∃ s', (macSetAdr m on).st = .joined s' ∧
      abs s' (macSetAdr m on).cfg = (abs s m.cfg).setAdr on := by
  unfold macSetAdr
  cases on
  · simp only [hst]; exact ⟨_, rfl, by simp [abs, Auto.setAdr]⟩
  · simp only [hst]; exact ⟨s, rfl, by simp [abs, Auto.setAdr]⟩

theorem setDr_refines (m : MacState) (s : Session) (dr : Nat) :
    abs s (macSetDatarate m dr).cfg = (abs s m.cfg).setDr dr := rfl

/-! corollaries in the words of the property -/

/-- ADRACKReq exactly when ADR is on, at least 64 uplinks passed without accepted downlink and a lower rate exists -/
theorem adrAckReq_iff (a : Auto) (le : Nat → Bool) :
    (a.header le).2.2 = true ↔ a.adrOn = true ∧ 64 ≤ a.cnt ∧ le a.dr = true := by
  simp [Auto.header, adrAckLimit, and_assoc]

/-- the data rate only ever steps down at 96, 128, … uplinks, and only to the next lower defined rate -/
theorem stepdown_only_at (a : Auto) (nl : Nat → Option Nat) (h : (a.timeout nl).dr ≠ a.dr) :
    a.adrOn = true ∧ 96 ≤ min (a.cnt + 1) 0xFFFFFFFF ∧ (min (a.cnt + 1) 0xFFFFFFFF - 64) % 32 = 0 ∧ nl a.dr = some (a.timeout nl).dr := by
  unfold Auto.timeout at h ⊢
  cases ha : a.adrOn
  · simp [ha] at h
  · simp only [ha, if_true, adrAckLimit, adrAckDelay] at h ⊢
    by_cases hc : min (a.cnt + 1) 0xFFFFFFFF ≥ 64 + 32 ∧ (min (a.cnt + 1) 0xFFFFFFFF - 64) % 32 = 0
    · simp only [hc, and_self, if_true] at h ⊢
      cases hn : nl a.dr with
      | none => simp [hn] at h
      | some d => simp [hn] at h ⊢ <;> omega
    · simp [hc] at h

/-! non-vacuity -/
example : (Auto.timeout { ackOwed := false, adrOn := true, cnt := 95, dr := 3 } (fun d => if d > 0 then some (d - 1) else none)).dr = 2 := by decide
example : (Auto.timeout { ackOwed := false, adrOn := true, cnt := 96, dr := 3 } (fun d => if d > 0 then some (d - 1) else none)).dr = 3 := by decide
example : (Auto.header { ackOwed := true, adrOn := true, cnt := 64, dr := 0 } (fun d => decide (d > 0))) = (true, true, false) := by decide


/-! ## histories -/

/-- a timeout of the automaton, unless the uplink counter space is exhausted (`fc` = the counter of
the uplink just sent: at 2^32−1 the device reports `SessionExpired` and nothing moves) -/
def tmo (r : RegionId) (fc : Nat) (a : Auto) : Auto :=
  if fc = 0xFFFFFFFF then a else a.timeout (nextLowerDatarate r)

/-- the uplink counter after the procedure ended -/
def bump (fc : Nat) : Nat := if fc = 0xFFFFFFFF then fc else fc + 1

/-- the frame carries a LinkADRReq (in FOpts, or in a port-0 payload) -/
def hasLinkAdr (d : RxData) : Prop :=
  (∃ c ∈ C08.cmdsOf d.fopts, c.1 = 3) ∨ (d.fport = some 0 ∧ ∃ c ∈ C08.cmdsOf d.payload, c.1 = 3)

/-- the automaton after a frame accepted in a Class A window: `accept`, and the data rate is the old
one unless the frame carried a LinkADRReq (then it is whatever the network commanded: C08) -/
def AcceptedA (a : Auto) (d : RxData) (a' : Auto) : Prop :=
  ∃ dr', (¬ hasLinkAdr d → dr' = a.dr) ∧ a' = (a.accept d.confirmed).setDr dr'

abbrev DG := Gh × Auto

/-- the frame goes out at data rate `dr` of region `r` (spreading factor and bandwidth of the TxConfig) -/
def TxAt (r : RegionId) (dr : Nat) (t : TxOut) : Prop :=
  ∃ d, getDatarate r dr = some d ∧ t.rf.sf = d.spreading_factor.factor ∧ t.rf.bwHz = d.bandwidth.hz

/-- **one event, seen from the uplink header.**  Every data uplink carries the automaton's header
bits — ACK iff an accepted confirmed downlink is unacknowledged, ADR iff ADR is enabled, ADRACKReq iff
ADR is on, ≥ 64 uplinks passed without accepted downlink and a lower data rate exists — and the
requested message type; then: no accepted downlink ⇒ `timeout` (count + 1, step down exactly at 96,
128, …); a frame accepted in a Class A window ⇒ `accept` (count restarts, ACK owed if confirmed); a
radio fault after the procedure counts as one more timeout.  Class C acceptances restart the count;
`set_adr`, `set_datarate` are the automaton's; activation clears ACK and count. -/
def AdrStep (r : RegionId) (nb : Bool) (g : DG) (ev : Ev) (out : Out) (g' : DG) : Prop :=
  g'.1 = ghStep g.1 ev ∧
  match ev, g.1 with
  | .uplink _ _ conf fault rx1 rx2 mp1 mp2, some last =>
    ∃ so resp dl, out = .up so resp dl ∧
      (so.frame.ack, so.frame.adr, so.frame.adrAckReq) = g.2.header (lowerExists r) ∧ so.frame.confirmed = conf ∧
      ((r.isFixed = false ∨ nb = true) → TxAt r g.2.dr so.tx) ∧
      (match upRes last fault rx1 rx2 mp1 mp2, fault with
       | .accepted _ d _, none => AcceptedA g.2.afterSend d g'.2
       | .accepted _ d _, some _ => ∃ a1, AcceptedA g.2.afterSend d a1 ∧ g'.2 = tmo r (bump so.frame.fcnt) a1
       | .ended, some _ => g'.2 = tmo r (bump so.frame.fcnt) (tmo r so.frame.fcnt g.2.afterSend)
       | _, _ => g'.2 = tmo r so.frame.fcnt g.2.afterSend)
  | .uplink _ _ _ _ _ _ _ _, none => out = .notJoined ∧ g'.2 = g.2
  | .rxc v _ mp, some last =>
    (match specRxc last v mp with
     | some (_, d) => g'.2 = g.2.accept d.confirmed
     | none => g'.2 = g.2)
  | .rxc _ _ _, none => g'.2 = g.2
  | .setAdr on, _ => g'.2 = g.2.setAdr on
  | .setDr dr, _ => g'.2 = g.2.setDr dr
  | .joinAbp _ _ _, _ => g'.2 = { g.2 with ackOwed := false, cnt := 0 }
  | .joinOtaa _ _ _ _ _, _ => g'.2 = { g.2 with ackOwed := false, cnt := 0 }

/-- the tie: the automaton's ADR switch and data rate are the configuration's (joined or not); ACK
owed and count are the session's -/
def AdrRel (r : RegionId) (nb : Bool) (m : MacState) (g : DG) : Prop :=
  GhRel m g.1 ∧ MacWF m ∧ m.region.id = r ∧ g.2.adrOn = m.cfg.adrEnabled ∧ g.2.dr = m.cfg.dataRate ∧
    (nb = true → ∀ p, m.region.plan = .fix p → p.jc.preferredSubband = none) ∧
    ∀ s, m.st = .joined s → g.2.ackOwed = s.ackOwed ∧ g.2.cnt = s.adrAckCnt

theorem absRel {m : MacState} {s : Session} (hst : m.st = .joined s) : 
    (abs s m.cfg).adrOn = m.cfg.adrEnabled ∧ (abs s m.cfg).dr = m.cfg.dataRate ∧
      ∀ s', m.st = .joined s' → (abs s m.cfg).ackOwed = s'.ackOwed ∧ (abs s m.cfg).cnt = s'.adrAckCnt := by
  refine ⟨rfl, rfl, fun s' hs' => ?_⟩
  rw [hst] at hs'; cases hs'; exact ⟨rfl, rfl⟩

/-- `rx2_complete` at the level of the MAC state is the automaton's timeout (nothing at exhaustion) -/
theorem timeoutState_abs (m : MacState) (s : Session) (hst : m.st = .joined s) :
    ∃ s', (timeoutState m).st = .joined s' ∧ abs s' (timeoutState m).cfg = tmo m.region.id s.fcntUp (abs s m.cfg) ∧
      s'.fcntUp = bump s.fcntUp ∧ (timeoutState m).region = m.region := by
  have e : timeoutState m = { m with st := .joined (rx2Complete s m.cfg m.region.id).2.1, cfg := (rx2Complete s m.cfg m.region.id).2.2 } := by
    unfold timeoutState macRx2Complete; simp only [hst]
  rw [e]
  refine ⟨(rx2Complete s m.cfg m.region.id).2.1, rfl, ?_, ?_, rfl⟩
  · unfold tmo
    by_cases hx : s.fcntUp = 0xFFFFFFFF
    · simp only [hx, if_true]
      unfold rx2Complete
      simp [hx]
    · simp only [hx, if_false]
      exact timeout_refines s m.cfg m.region.id hx
  · unfold bump
    by_cases hx : s.fcntUp = 0xFFFFFFFF
    · unfold rx2Complete; simp [hx]
    · simp only [hx, if_false]
      unfold rx2Complete
      have hx' : (s.fcntUp == 0xFFFFFFFF) = false := by simp [hx]
      simp only [hx', Bool.false_eq_true, if_false]
      repeat' split
      all_goals rfl


/-- MAC commands never touch the ADR switch, and only a LinkADRReq can change the data rate -/
theorem answers_adr {snr : Int} {cmds : List C08.Cmd} {st st' : C08.St} {as : List C08.Ans} (h : C08.Answers snr cmds st as st') :
    st'.1.adrEnabled = st.1.adrEnabled ∧ ((∀ c ∈ cmds, c.1 ≠ 3) → st'.1.dataRate = st.1.dataRate) := by
  induction h with
  | nil st => exact ⟨rfl, fun _ => rfl⟩
  | skip cid p rest st as st' _ _ ih => exact ⟨ih.1, fun hc => ih.2 (fun c hm => hc c (List.mem_cons_of_mem _ hm))⟩
  | devStatus p rest st as st' _ ih => exact ⟨ih.1, fun hc => ih.2 (fun c hm => hc c (List.mem_cons_of_mem _ hm))⟩
  | rxParam p rest st ans st1 as st' ho _ ih =>
    obtain ⟨dl, f, _, _, _, h7, hn, _⟩ := ho
    have e : st1.1.adrEnabled = st.1.adrEnabled ∧ st1.1.dataRate = st.1.dataRate := by
      by_cases ha : ans = 7
      · rw [h7 ha]; exact ⟨rfl, rfl⟩
      · rw [hn ha]; exact ⟨rfl, rfl⟩
    exact ⟨by rw [ih.1, e.1], fun hc => by rw [ih.2 (fun c hm => hc c (List.mem_cons_of_mem _ hm)), e.2]⟩
  | rxTiming p rest st st1 as st' ho _ ih =>
    obtain ⟨b, d, _, _, e⟩ := ho
    subst e
    exact ⟨ih.1, fun hc => ih.2 (fun c hm => hc c (List.mem_cons_of_mem _ hm))⟩
  | newChannel p rest st ans st1 as st' hf ho _ ih =>
    obtain ⟨idx, f, r, a, b, _, _, _, _, e, _⟩ := ho
    exact ⟨by rw [ih.1, e], fun hc => by rw [ih.2 (fun c hm => hc c (List.mem_cons_of_mem _ hm)), e]⟩
  | dlChannel p rest st ans st1 as st' hf ho _ ih =>
    obtain ⟨idx, f, a, b, _, _, _, e, _⟩ := ho
    exact ⟨by rw [ih.1, e], fun hc => by rw [ih.2 (fun c hm => hc c (List.mem_cons_of_mem _ hm)), e]⟩
  | linkAdr ps p rest st ans st1 as st' hrest ho _ ih =>
    obtain ⟨mask, rfu, b0, _, _, h7, hn, _⟩ := ho
    constructor
    · by_cases ha : ans = 7
      · obtain ⟨d, pw, _, _, e, _⟩ := h7 ha
        rw [ih.1, e]
      · rw [ih.1, (hn ha).1]
    · intro hc
      exact absurd rfl (hc (3, p) (by simp))

theorem acceptCmds_adr (pending : List Nat) (cfg : Config) (region : RegionState) (d : RxData) (snr : Int) (ctx : MacCtx)
    (h : acceptCmds pending cfg region d snr false = .ok ctx) :
    ctx.cfg.adrEnabled = cfg.adrEnabled ∧ (¬ hasLinkAdr d → ctx.cfg.dataRate = cfg.dataRate) := by
  obtain ⟨as1, as2, cfg1, rg1, m1, ha1, ha2, _⟩ := C08.accept_answers pending cfg region d snr ctx h
  obtain ⟨e1, d1⟩ := answers_adr ha1
  simp only at e1 d1
  by_cases hport : d.fport = some 0
  · rw [if_pos hport] at ha2
    obtain ⟨m2, ha2⟩ := ha2
    obtain ⟨e2, d2⟩ := answers_adr ha2
    simp only at e2 d2
    refine ⟨by rw [e2, e1], fun hno => ?_⟩
    rw [d2 (fun c hc e => hno (Or.inr ⟨hport, c, hc, e⟩)), d1 (fun c hc e => hno (Or.inl ⟨c, hc, e⟩))]
  · rw [if_neg hport] at ha2
    obtain ⟨_, e2, _⟩ := ha2
    refine ⟨by rw [e2, e1], fun hno => ?_⟩
    rw [e2, d1 (fun c hc e => hno (Or.inl ⟨c, hc, e⟩))]

/-- a frame accepted in a Class A window, at the level of the MAC state -/
theorem acceptState_abs (m : MacState) (s : Session) (d : RxData) (N : Nat) (snr : Int) (ctx : MacCtx)
    (h : acceptCmds s.pending m.cfg m.region d snr false = .ok ctx) :
    ∃ s', (acceptState m s d N ctx).st = .joined s' ∧ AcceptedA (abs s m.cfg) d (abs s' (acceptState m s d N ctx).cfg) ∧
      s'.fcntUp = bump s.fcntUp := by
  obtain ⟨ea, ed⟩ := acceptCmds_adr _ _ _ d snr ctx h
  refine ⟨(acceptFinish s d N ctx).2.1, rfl, ⟨ctx.cfg.dataRate, fun hno => by rw [ed hno]; rfl, ?_⟩, ?_⟩
  · unfold acceptState acceptFinish abs Auto.accept Auto.setDr
    simp only []
    split <;> simp [ea]
  · unfold acceptFinish bump
    simp only []
    by_cases hx : s.fcntUp = 0xFFFFFFFF <;> simp [hx]

/-- … between uplinks (Class C: commands ignored) -/
theorem acceptStateC_abs (m : MacState) (s : Session) (d : RxData) (N : Nat) :
    ∃ s', (acceptState m s d N { cfg := m.cfg, region := m.region, pending := s.pending }).st = .joined s' ∧
      abs s' (acceptState m s d N { cfg := m.cfg, region := m.region, pending := s.pending }).cfg = (abs s m.cfg).accept d.confirmed := by
  refine ⟨_, rfl, ?_⟩
  unfold acceptState acceptFinish abs Auto.accept
  simp only []
  split <;> rfl



/-- dynamic plans: the uplink goes out at the data rate `send` was given -/
theorem selectTxChannel_dyn_dr {σ} (g : Rng σ) (rs rs' : RegionState) (p : DynPlan) (hp : rs.plan = .dyn p) (dr : DR)
    (frame : FrameKind) (s s' : σ) (tx : TxChannel) (h : selectTxChannel g rs dr frame s = .ok (tx, rs', s')) : tx.dr = dr := by
  unfold selectTxChannel at h
  simp only [hp] at h
  obtain ⟨drv, _, h⟩ := Except.bind_eq_ok h
  cases frame with
  | join =>
    simp only at h
    obtain ⟨⟨idx, s1⟩, _, h⟩ := Except.bind_eq_ok h
    simp only at h
    split at h
    · obtain ⟨d, _, h⟩ := Except.bind_eq_ok h
      cases Except.pure_eq_ok h; rfl
    · cases h
  | data =>
    simp only at h
    obtain ⟨ua, _, h⟩ := Except.bind_eq_ok h
    obtain ⟨p', _, h⟩ := Except.bind_eq_ok h
    obtain ⟨⟨c, s1⟩, _, h⟩ := Except.bind_eq_ok h
    obtain ⟨d, _, h⟩ := Except.bind_eq_ok h
    cases Except.pure_eq_ok h; rfl


/-- in a region with a dynamic plan the uplink's TxConfig carries the configured data rate -/
theorem macSend_txAt {σ} (g : Rng σ) (m m1 : MacState) (s : Session) (hst : m.st = .joined s) (hwf : MacWF m)
    (hfix : m.region.id.isFixed = false) (data : List Nat) (fport : Nat) (conf : Bool) (rs rs' : σ) (so : SendOut)
    (h : macSend g m data fport conf rs = .ok (some so, m1, rs')) : TxAt m.region.id m.cfg.dataRate so.tx := by
  obtain ⟨dr, tx, region', pw, r1, r2, _, hdr, hsel, _, _, ho⟩ := macSend_joined g m s hst data fport conf rs rs' _ m1 h
  simp only [Option.some.injEq] at ho
  subst ho
  obtain ⟨p, hp⟩ := (regionWF_isFixed hwf.region).2 hfix
  have e := selectTxChannel_dyn_dr g m.region region' p hp dr .data rs rs' tx hsel
  obtain ⟨_, hg, _, _⟩ := C09.selectTxChannel_legal g m.region region' dr .data rs rs' tx hwf.region hsel
  have hup := (cfgWF_iff.mp hwf.cfg).1
  obtain ⟨_, _, hlt⟩ := isUplink_get hup
  have hn := (drOfNat_tot m.cfg.dataRate).elim hdr
  rw [e, hn, Nat.mod_eq_of_lt (by omega)] at hg
  exact ⟨tx.datarate, hg, rfl, rfl⟩


/-- no join bias is configured (`set_join_bias` was never called; US915/AU915 only) -/
def NoBias (rs : RegionState) : Prop := ∀ p, rs.plan = .fix p → p.jc.preferredSubband = none

theorem availGetNext_nobias {σ} (g : Rng σ) (j j' : JoinChannels) (s s' : σ) (ch : Nat)
    (h : availGetNext g j s = .ok (ch, j', s')) : j'.preferredSubband = j.preferredSubband := by
  unfold availGetNext at h
  simp only at h
  obtain ⟨⟨c, s1⟩, _, h⟩ := Except.bind_eq_ok h
  obtain ⟨a, _, h⟩ := Except.bind_eq_ok h
  simp only [pure, Except.pure, Except.ok.injEq, Prod.mk.injEq] at h
  obtain ⟨_, rfl, _⟩ := h
  rfl

theorem getNextChannel_nobias {σ} (g : Rng σ) (j j' : JoinChannels) (s s' : σ) (ch : Nat) (hn : j.preferredSubband = none)
    (h : j.getNextChannel g s = .ok (ch, j', s')) : j'.preferredSubband = none := by
  unfold JoinChannels.getNextChannel at h
  simp only [hn] at h
  have := availGetNext_nobias g _ j' s s' ch h
  rw [this]

/-- without a join bias a fixed plan sends a data frame at the data rate `send` was given, and no
bias appears -/
theorem selectTxChannel_nobias {σ} (g : Rng σ) (rs rs' : RegionState) (dr : DR) (frame : FrameKind) (s s' : σ)
    (tx : TxChannel) (hn : NoBias rs) (h : selectTxChannel g rs dr frame s = .ok (tx, rs', s')) :
    NoBias rs' ∧ (frame = .data → tx.dr = dr) := by
  cases hp : rs.plan with
  | dyn p =>
    have hd := selectTxChannel_dyn_dr g rs rs' p hp dr frame s s' tx h
    refine ⟨?_, fun _ => hd⟩
    unfold selectTxChannel at h
    simp only [hp] at h
    obtain ⟨drv, _, h⟩ := Except.bind_eq_ok h
    cases frame with
    | join =>
      simp only at h
      obtain ⟨⟨idx, s1⟩, _, h⟩ := Except.bind_eq_ok h
      simp only at h
      split at h
      · obtain ⟨d, _, h⟩ := Except.bind_eq_ok h
        cases Except.pure_eq_ok h
        exact hn
      · cases h
    | data =>
      simp only at h
      obtain ⟨ua, _, h⟩ := Except.bind_eq_ok h
      obtain ⟨p', _, h⟩ := Except.bind_eq_ok h
      obtain ⟨⟨c, s1⟩, _, h⟩ := Except.bind_eq_ok h
      obtain ⟨d, _, h⟩ := Except.bind_eq_ok h
      cases Except.pure_eq_ok h
      intro q hq; cases hq
  | fix p =>
    have hpn := hn p hp
    unfold selectTxChannel at h
    simp only [hp] at h
    obtain ⟨⟨dr', channel, jc, mask, s1⟩, hsel, h⟩ := Except.bind_eq_ok h
    simp only at h
    obtain ⟨oi, _, h⟩ := Except.bind_eq_ok h
    obtain ⟨d, _, h⟩ := Except.bind_eq_ok h
    have hres : rs'.plan = .fix { mask := mask, jc := jc } := by
      split at h
      · cases Except.pure_eq_ok h; rfl
      · cases h
    suffices hs : jc.preferredSubband = none ∧ (frame = .data → dr' = dr) by
      refine ⟨fun q hq => ?_, fun hf => ?_⟩
      · rw [hres] at hq; cases hq; exact hs.1
      · split at h
        · cases Except.pure_eq_ok h; exact hs.2 hf
        · cases h
    cases frame with
    | join =>
      simp only at hsel
      obtain ⟨⟨ch, jc', s2⟩, hg, hsel⟩ := Except.bind_eq_ok hsel
      simp only [pure, Except.pure, Except.ok.injEq, Prod.mk.injEq] at hsel
      obtain ⟨_, _, rfl, _, _⟩ := hsel
      exact ⟨getNextChannel_nobias g p.jc jc' s s2 ch hpn hg, fun hf => by cases hf⟩
    | data =>
      simp only at hsel
      have hb : p.jc.hasBiasAndNotExhausted = false := by simp [JoinChannels.hasBiasAndNotExhausted, hpn]
      simp only [hb, Bool.false_eq_true, if_false, pure, Except.pure, bind, Except.bind] at hsel
      have hfd : p.jc.firstDataChannel g s = (none, p.jc, s) := by simp [JoinChannels.firstDataChannel, hpn]
      simp only [hfd] at hsel
      split at hsel
      · cases hsel
      · split at hsel
        · cases hsel
        · split at hsel
          · split at hsel
            · cases hsel
            · split at hsel
              · cases hsel
              · split at hsel
                · cases hsel
                · simp only [Except.ok.injEq, Prod.mk.injEq] at hsel
                  obtain ⟨rfl, _, rfl, _, _⟩ := hsel
                  exact ⟨hpn, fun _ => rfl⟩
          · split at hsel
            · cases hsel
            · split at hsel
              · cases hsel
              · split at hsel
                · cases hsel
                · simp only [Except.ok.injEq, Prod.mk.injEq] at hsel
                  obtain ⟨rfl, _, rfl, _, _⟩ := hsel
                  exact ⟨hpn, fun _ => rfl⟩


theorem noBias_dyn {rs : RegionState} {p : DynPlan} (hp : rs.plan = .dyn p) : NoBias rs := by
  intro q hq; rw [hp] at hq; cases hq

theorem noBias_init (r : RegionId) : NoBias (RegionState.init r) := by
  intro p hp
  unfold RegionState.init at hp
  simp only at hp
  split at hp
  · cases hp; rfl
  · cases hp

theorem channelMaskSet_nobias (rs : RegionState) (m : Mask) (h : NoBias rs) : NoBias (channelMaskSet rs m) := by
  unfold channelMaskSet
  cases hp : rs.plan with
  | dyn p => exact noBias_dyn (p := { p with mask := m }) rfl
  | fix p =>
    intro q hq
    simp only [Plan.fix.injEq] at hq
    cases hq
    exact h p hp

theorem processJoinAccept_nobias (rs rs' : RegionState) (cf : Option CfList) (h : NoBias rs)
    (hp : processJoinAccept rs cf = .ok rs') : NoBias rs' := by
  unfold processJoinAccept at hp
  split at hp
  · rename_i p freqs hpl
    obtain ⟨chans, _, hp⟩ := Except.bind_eq_ok hp
    cases Except.pure_eq_ok hp
    exact noBias_dyn (p := { p with channels := chans }) rfl
  · rename_i p m hpl
    cases Except.pure_eq_ok hp
    intro q hq
    simp only [Plan.fix.injEq] at hq
    cases hq
    exact h p hpl
  · cases Except.pure_eq_ok hp; exact h

theorem otaaAccept_nobias (m m' : MacState) (j : RxJoinAccept) (h : NoBias m.region) (ha : otaaAccept m j = .ok m') :
    NoBias m'.region := by
  unfold otaaAccept at ha
  obtain ⟨region, hreg, ha⟩ := Except.bind_eq_ok ha
  obtain ⟨dd, _, ha⟩ := Except.bind_eq_ok ha
  cases Except.pure_eq_ok ha
  exact processJoinAccept_nobias m.region region j.cfList h hreg

theorem answers_nobias {snr : Int} {cmds : List C08.Cmd} {st st' : C08.St} {as : List C08.Ans} (h : C08.Answers snr cmds st as st')
    (hn : NoBias st.2.1) : NoBias st'.2.1 := by
  induction h with
  | nil st => exact hn
  | skip cid p rest st as st' _ _ ih => exact ih hn
  | devStatus p rest st as st' _ ih => exact ih hn
  | rxParam p rest st ans st1 as st' ho _ ih =>
    obtain ⟨dl, f, _, _, e, _⟩ := ho
    exact ih (by rw [e]; exact hn)
  | rxTiming p rest st st1 as st' ho _ ih =>
    obtain ⟨b, d, _, _, e⟩ := ho
    subst e; exact ih hn
  | newChannel p rest st ans st1 as st' hf ho _ ih =>
    obtain ⟨idx, f, r, a, b, _, _, _, _, _, _, _, hno, hyes⟩ := ho
    apply ih
    cases hab : (a && b) with
    | false => rw [hno hab]; exact hn
    | true =>
      obtain ⟨pl, m, _, _, _, hh⟩ := hyes hab
      rcases hh with ⟨_, _, e⟩ | ⟨_, _, _, _, e⟩ <;> rw [e] <;> exact noBias_dyn (p := _) rfl
  | dlChannel p rest st ans st1 as st' hf ho _ ih =>
    obtain ⟨idx, f, a, b, _, _, _, _, _, _, hno, hyes⟩ := ho
    apply ih
    cases hab : (a && b) with
    | false => rw [hno hab]; exact hn
    | true =>
      obtain ⟨pl, c, _, _, _, _, _, e⟩ := hyes hab
      rw [e]; exact noBias_dyn (p := _) rfl
  | linkAdr ps p rest st ans st1 as st' hrest ho _ ih =>
    obtain ⟨mask, rfu, b0, _, _, h7, hnn, _⟩ := ho
    apply ih
    by_cases ha : ans = 7
    · obtain ⟨d, pw, _, _, _, e⟩ := h7 ha
      rw [e]; exact channelMaskSet_nobias _ _ hn
    · rw [(hnn ha).2]; exact hn

theorem acceptCmds_nobias (pending : List Nat) (cfg : Config) (region : RegionState) (d : RxData) (snr : Int) (ctx : MacCtx)
    (hn : NoBias region) (h : acceptCmds pending cfg region d snr false = .ok ctx) : NoBias ctx.region := by
  obtain ⟨as1, as2, cfg1, rg1, m1, ha1, ha2, _⟩ := C08.accept_answers pending cfg region d snr ctx h
  have h1 := answers_nobias ha1 hn
  by_cases hport : d.fport = some 0
  · rw [if_pos hport] at ha2
    obtain ⟨m2, ha2⟩ := ha2
    exact answers_nobias ha2 h1
  · rw [if_neg hport] at ha2
    rw [ha2.2.2]; exact h1


theorem acceptState_region (m : MacState) (s : Session) (d : RxData) (N : Nat) (ctx : MacCtx) :
    (acceptState m s d N ctx).region = ctx.region := by
  unfold acceptState acceptFinish; simp only []; split <;> rfl

theorem timeoutState_region (m : MacState) : (timeoutState m).region = m.region := by
  unfold timeoutState macRx2Complete
  cases m.st <;> rfl

/-- no step configures a join bias -/
theorem step_nobias {σ} (g : Rng σ) (m m' : MacState) (rs rs' : σ) (ev : Ev) (out : Out) (gh : Gh)
    (hr : GhRel m gh) (hv : evOk ev = true) (hn : NoBias m.region) (h : step g (m, rs) ev = .ok ((m', rs'), out)) :
    NoBias m'.region := by
  cases ev with
  | joinAbp da nwk app =>
    simp only [step, pure, Except.pure, Except.ok.injEq, Prod.mk.injEq] at h
    obtain ⟨⟨rfl, _⟩, _⟩ := h; exact hn
  | setDr dr =>
    simp only [step, pure, Except.pure, Except.ok.injEq, Prod.mk.injEq] at h
    obtain ⟨⟨rfl, _⟩, _⟩ := h; exact hn
  | setAdr on =>
    simp only [step, pure, Except.pure, Except.ok.injEq, Prod.mk.injEq] at h
    obtain ⟨⟨rfl, _⟩, _⟩ := h
    have : (macSetAdr m on).region = m.region := by unfold macSetAdr; cases m.st <;> cases on <;> rfl
    rw [this]; exact hn
  | joinOtaa fault rx1 rx2 mp1 mp2 =>
    obtain ⟨jo, m1, o, hj, _, _, ht⟩ := step_joinOtaa_inv g m m' rs rs' fault rx1 rx2 mp1 mp2 out h
    obtain ⟨dr, tx, region', pw, r1, r2, _, hsel, hm1, _, _⟩ := macJoinOtaa_ok g m rs rs' jo m1 hj
    have hn1 : NoBias m1.region := by rw [hm1]; exact (selectTxChannel_nobias g m.region region' dr .join _ rs' tx hn hsel).1
    cases hjr : joinRes fault rx1 rx2 with
    | some j => simp only [hjr] at ht; exact otaaAccept_nobias m1 m' j hn1 ht.1
    | none => simp only [hjr] at ht; rw [ht.1]; exact hn1
  | rxc v snr mp =>
    cases gh with
    | none =>
      obtain ⟨rfl, _, _⟩ := step_rxc_notJoined g m m' rs rs' hr v snr mp out h
      exact hn
    | some last =>
      obtain ⟨s, hst, rfl, hl⟩ := hr
      have hvv : viewOk v = true := by simpa [evOk] using hv
      obtain ⟨_, rf, _, ht⟩ := step_rxc_joined g m m' rs rs' s hst hl v snr mp hvv out h
      cases hs : specRxc s.fcntDown v mp with
      | none => simp only [hs] at ht; rw [ht.1]; exact hn
      | some p =>
        obtain ⟨N, d⟩ := p
        simp only [hs] at ht
        rw [ht.1, acceptState_region]; exact hn
  | uplink data fport conf fault rx1 rx2 mp1 mp2 =>
    cases gh with
    | none =>
      obtain ⟨rfl, _, _⟩ := step_uplink_notJoined g m m' rs rs' hr data fport conf fault rx1 rx2 mp1 mp2 out h
      exact hn
    | some last =>
      obtain ⟨s, hst, rfl, hl⟩ := hr
      have hvv : rxOk rx1 = true ∧ rxOk rx2 = true := by simpa [evOk] using hv
      obtain ⟨so, m1, hsend, _, hst1, _, ht⟩ :=
        step_uplink_joined g m m' rs rs' s hst hl data fport conf fault rx1 rx2 mp1 mp2 hvv.1 hvv.2 out h
      obtain ⟨dr, tx, region', pw, r1, r2, _, _, hsel, hm1, _, _⟩ := macSend_joined g m s hst data fport conf rs rs' _ m1 hsend
      have hn1 : NoBias m1.region := by rw [hm1]; exact (selectTxChannel_nobias g m.region region' dr .data rs rs' tx hn hsel).1
      have hacc : ∀ N d snr ctx, acceptCmds (sentSession s conf).pending m1.cfg m1.region d snr false = .ok ctx →
          NoBias (acceptState m1 (sentSession s conf) d N ctx).region := by
        intro N d snr ctx hc
        rw [acceptState_region]; exact acceptCmds_nobias _ _ _ d snr ctx hn1 hc
      unfold UplinkTail at ht
      cases fault with
      | none =>
        simp only at ht
        cases hsc : specCycle (sentSession s conf).fcntDown rx1 rx2 mp1 mp2 with
        | accepted N d snr => simp only [hsc] at ht; obtain ⟨ctx, hc, rfl, _⟩ := ht; exact hacc N d snr ctx hc
        | ended => simp only [hsc] at ht; rw [ht.1, timeoutState_region]; exact hn1
        | nothing => simp only [hsc] at ht; rw [ht.1, timeoutState_region]; exact hn1
      | some k =>
        simp only at ht
        obtain ⟨m2, hm2, rfl, _⟩ := ht
        rw [faultAfterTx_eq, timeoutState_region]
        cases hsc : specFaulted (sentSession s conf).fcntDown k rx1 rx2 mp1 mp2 with
        | accepted N d snr => simp only [hsc] at hm2; obtain ⟨ctx, hc, rfl⟩ := hm2; exact hacc N d snr ctx hc
        | ended => simp only [hsc] at hm2; rw [hm2, timeoutState_region]; exact hn1
        | nothing => simp only [hsc] at hm2; rw [hm2]; exact hn1

/-- without a join bias the uplink's TxConfig carries the configured data rate (in every region) -/
theorem macSend_txAt_nobias {σ} (g : Rng σ) (m m1 : MacState) (s : Session) (hst : m.st = .joined s) (hwf : MacWF m)
    (hnb : NoBias m.region) (data : List Nat) (fport : Nat) (conf : Bool) (rs rs' : σ) (so : SendOut)
    (h : macSend g m data fport conf rs = .ok (some so, m1, rs')) : TxAt m.region.id m.cfg.dataRate so.tx := by
  obtain ⟨dr, tx, region', pw, r1, r2, _, hdr, hsel, _, _, ho⟩ := macSend_joined g m s hst data fport conf rs rs' _ m1 h
  simp only [Option.some.injEq] at ho
  subst ho
  have e := (selectTxChannel_nobias g m.region region' dr .data rs rs' tx hnb hsel).2 rfl
  obtain ⟨_, hg, _, _⟩ := C09.selectTxChannel_legal g m.region region' dr .data rs rs' tx hwf.region hsel
  have hup := (cfgWF_iff.mp hwf.cfg).1
  obtain ⟨_, _, hlt⟩ := isUplink_get hup
  have hn := (drOfNat_tot m.cfg.dataRate).elim hdr
  rw [e, hn, Nat.mod_eq_of_lt (by omega)] at hg
  exact ⟨tx.datarate, hg, rfl, rfl⟩


theorem otaaAccept_cfg (m m' : MacState) (j : RxJoinAccept) (h : otaaAccept m j = .ok m') :
    m'.cfg.adrEnabled = m.cfg.adrEnabled ∧ m'.cfg.dataRate = m.cfg.dataRate := by
  unfold otaaAccept at h
  obtain ⟨region, _, h⟩ := Except.bind_eq_ok h
  obtain ⟨dd, _, h⟩ := Except.bind_eq_ok h
  cases Except.pure_eq_ok h
  simp only []
  constructor <;> (repeat' split) <;> rfl

theorem macSetAdr_cfg (m : MacState) (on : Bool) : (macSetAdr m on).cfg = { m.cfg with adrEnabled := on } := by
  unfold macSetAdr
  cases m.st <;> cases on <;> rfl

theorem auto_eq_abs {a : Auto} {s : Session} {cfg : Config} (h1 : a.adrOn = cfg.adrEnabled) (h2 : a.dr = cfg.dataRate)
    (h3 : a.ackOwed = s.ackOwed) (h4 : a.cnt = s.adrAckCnt) : a = abs s cfg := by
  cases a; simp only [abs] at *; simp [h1, h2, h3, h4]

theorem header_descOf (s : Session) (cfg : Config) (r : RegionId) (data : List Nat) (fport : Nat) (conf : Bool) :
    ((descOf s cfg r data fport conf).ack, (descOf s cfg r data fport conf).adr, (descOf s cfg r data fport conf).adrAckReq)
      = (abs s cfg).header (lowerExists r) ∧ (descOf s cfg r data fport conf).confirmed = conf ∧
      (descOf s cfg r data fport conf).fcnt = s.fcntUp := by
  refine ⟨?_, rfl, rfl⟩
  have e64 : Gen.Session.ADR_ACK_LIMIT.toNat = 64 := by decide
  simp [descOf, abs, Auto.header, lowerExists, adrAckLimit, e64]

theorem step_adrRel {σ} (g : Rng σ) (r : RegionId) (m m' : MacState) (rs rs' : σ) (ev : Ev) (out : Out) (dg : DG)
    (nb : Bool) (hr : AdrRel r nb m dg) (hv : evOk ev = true ∧ validEv r ev = true)
    (h : step g (m, rs) ev = .ok ((m', rs'), out)) : ∃ dg', AdrStep r nb dg ev out dg' ∧ AdrRel r nb m' dg' := by
  obtain ⟨gh, a⟩ := dg
  obtain ⟨hgh, hwf, hid, hon, hdr, hnb, hses⟩ := hr
  simp only at hgh hon hdr hnb hses
  have hnb' : nb = true → NoBias m'.region := fun e => step_nobias g m m' rs rs' ev out gh hgh hv.1 (hnb e) h
  have hgh' := step_ghRel g m m' rs rs' ev out gh hgh hv.1 h
  have hk : Keeps m m' := (step_safe g m rs ev hwf (by unfold ValidEv; rw [hid]; exact hv.2)).elim h
  have hid' : m'.region.id = r := by rw [hk.2.1, hid]
  suffices hs : ∃ a', (AdrStep r nb (gh, a) ev out (ghStep gh ev, a')) ∧ a'.adrOn = m'.cfg.adrEnabled ∧ a'.dr = m'.cfg.dataRate ∧
      (∀ s, m'.st = .joined s → a'.ackOwed = s.ackOwed ∧ a'.cnt = s.adrAckCnt) by
    obtain ⟨a', h1, h2, h3, h4⟩ := hs
    exact ⟨(ghStep gh ev, a'), h1, hgh', hk.1, hid', h2, h3, hnb', h4⟩
  cases ev with
  | joinAbp da nwk app =>
    simp only [step, pure, Except.pure, Except.ok.injEq, Prod.mk.injEq] at h
    obtain ⟨⟨rfl, _⟩, _⟩ := h
    refine ⟨{ a with ackOwed := false, cnt := 0 }, ⟨rfl, by cases gh <;> rfl⟩, hon, hdr, ?_⟩
    intro s hs
    simp only [macJoinAbp, JoinState.joined.injEq] at hs
    subst hs; exact ⟨rfl, rfl⟩
  | setDr dr =>
    simp only [step, pure, Except.pure, Except.ok.injEq, Prod.mk.injEq] at h
    obtain ⟨⟨rfl, _⟩, _⟩ := h
    exact ⟨a.setDr dr, ⟨rfl, by cases gh <;> rfl⟩, hon, rfl, hses⟩
  | setAdr on =>
    simp only [step, pure, Except.pure, Except.ok.injEq, Prod.mk.injEq] at h
    obtain ⟨⟨rfl, _⟩, _⟩ := h
    refine ⟨a.setAdr on, ⟨rfl, by cases gh <;> rfl⟩, ?_, ?_, ?_⟩
    · rw [macSetAdr_cfg]; rfl
    · rw [macSetAdr_cfg]; exact hdr
    · intro s' hs'
      by_cases hj : ∃ s, m.st = .joined s
      · obtain ⟨s, hs⟩ := hj
        obtain ⟨ho, hc⟩ := hses s hs
        unfold macSetAdr at hs'
        cases on
        · simp only [hs, JoinState.joined.injEq] at hs'
          subst hs'
          exact ⟨ho, by simp [Auto.setAdr]⟩
        · simp only [hs, JoinState.joined.injEq] at hs'
          subst hs'
          exact ⟨ho, by simp [Auto.setAdr, hc]⟩
      · rw [(macSetAdr_st m on).2 (fun s hs => hj ⟨s, hs⟩)] at hs'
        exact absurd ⟨s', hs'⟩ hj
  | joinOtaa fault rx1 rx2 mp1 mp2 =>
    obtain ⟨jo, m1, o, _, hst1, hcfg1, ht⟩ := step_joinOtaa_inv g m m' rs rs' fault rx1 rx2 mp1 mp2 out h
    refine ⟨{ a with ackOwed := false, cnt := 0 }, ⟨rfl, by cases gh <;> rfl⟩, ?_⟩
    cases hj : joinRes fault rx1 rx2 with
    | some j =>
      simp only [hj] at ht
      obtain ⟨e1, e2⟩ := otaaAccept_cfg m1 m' j ht.1
      refine ⟨by rw [e1, hcfg1]; exact hon, by rw [e2, hcfg1]; exact hdr, ?_⟩
      intro s hs
      rw [otaaAccept_st m1 m' j ht.1] at hs
      simp only [JoinState.joined.injEq] at hs
      subst hs; exact ⟨rfl, rfl⟩
    | none =>
      simp only [hj] at ht
      obtain ⟨rfl, _⟩ := ht
      refine ⟨by rw [hcfg1]; exact hon, by rw [hcfg1]; exact hdr, ?_⟩
      intro s hs; rw [hst1] at hs; cases hs
  | rxc v snr mp =>
    cases gh with
    | none =>
      obtain ⟨rfl, _, _⟩ := step_rxc_notJoined g m m' rs rs' hgh v snr mp out h
      exact ⟨a, ⟨rfl, rfl⟩, hon, hdr, hses⟩
    | some last =>
      obtain ⟨s, hst, rfl, hl⟩ := hgh
      have hvv : viewOk v = true := by simpa [evOk] using hv.1
      obtain ⟨_, rf, _, ht⟩ := step_rxc_joined g m m' rs rs' s hst hl v snr mp hvv out h
      obtain ⟨ho, hc⟩ := hses s hst
      have ha : a = abs s m.cfg := auto_eq_abs hon hdr ho hc
      cases hs : specRxc s.fcntDown v mp with
      | none =>
        simp only [hs] at ht
        obtain ⟨rfl, _⟩ := ht
        exact ⟨a, ⟨rfl, by simp only [hs]⟩, hon, hdr, hses⟩
      | some p =>
        obtain ⟨N, d⟩ := p
        simp only [hs] at ht
        obtain ⟨rfl, _⟩ := ht
        obtain ⟨s', hs', habs⟩ := acceptStateC_abs m s d N
        refine ⟨a.accept d.confirmed, ⟨rfl, by simp only [hs]⟩, ?_⟩
        rw [ha, ← habs]
        exact absRel hs'
  | uplink data fport conf fault rx1 rx2 mp1 mp2 =>
    cases gh with
    | none =>
      obtain ⟨rfl, _, rfl⟩ := step_uplink_notJoined g m m' rs rs' hgh data fport conf fault rx1 rx2 mp1 mp2 out h
      exact ⟨a, ⟨rfl, rfl, rfl⟩, hon, hdr, hses⟩
    | some last =>
      obtain ⟨s, hst, rfl, hl⟩ := hgh
      have hvv : rxOk rx1 = true ∧ rxOk rx2 = true := by simpa [evOk] using hv.1
      have hval : (fport = 0 → data = []) ∧ data.length ≤ 222 := by
        have := hv.2
        simp only [validEv, Bool.and_eq_true, Bool.or_eq_true, bne_iff_ne, ne_eq, List.isEmpty_iff, decide_eq_true_eq] at this
        exact ⟨fun e => by rcases this.1.1.1 with h0 | h0; exact absurd e h0; exact h0, this.1.1.2⟩
      obtain ⟨so, m1, hsend, hfr, hst1, hcfg1, ht⟩ :=
        step_uplink_joined g m m' rs rs' s hst hl data fport conf fault rx1 rx2 mp1 mp2 hvv.1 hvv.2 out h
      have hk1 : Keeps m m1 := (macSend_safe g m data fport conf rs hwf hval.1 hval.2).elim hsend
      have hid1 : m1.region.id = r := by rw [hk1.2.1, hid]
      obtain ⟨ho, hc⟩ := hses s hst
      have ha : a = abs s m.cfg := auto_eq_abs hon hdr ho hc
      obtain ⟨hhead, hconf, hfc⟩ := header_descOf s m.cfg m.region.id data fport conf
      rw [← hfr, hid, ← ha] at hhead
      rw [← hfr] at hconf hfc
      have hsent : abs (sentSession s conf) m1.cfg = a.afterSend := by rw [hcfg1, ha]; rfl
      have htx : (r.isFixed = false ∨ nb = true) → TxAt r a.dr so.tx := by
        intro hfx
        have hno : NoBias m.region := by
          rcases hfx with hfx | hfx
          · obtain ⟨p, hp⟩ := (regionWF_isFixed hwf.region).2 (by rw [hid]; exact hfx)
            exact noBias_dyn hp
          · exact hnb hfx
        have := macSend_txAt_nobias g m m1 s hst hwf hno data fport conf rs rs' so hsend
        rw [hid, ← hdr] at this
        exact this
      have hfd : (sentSession s conf).fcntDown = s.fcntDown := rfl
      have hfu : (sentSession s conf).fcntUp = so.frame.fcnt := by rw [hfc]; rfl
      -- the shape of the output
      have hout : ∃ resp dl, out = .up so resp dl := by
        unfold UplinkTail at ht
        cases fault with
        | none =>
          simp only at ht
          cases hsc : specCycle (sentSession s conf).fcntDown rx1 rx2 mp1 mp2 with
          | accepted N d snr => simp only [hsc] at ht; obtain ⟨ctx, _, _, e⟩ := ht; exact ⟨_, _, e⟩
          | ended => simp only [hsc] at ht; exact ⟨_, _, ht.2⟩
          | nothing => simp only [hsc] at ht; exact ⟨_, _, ht.2⟩
        | some k =>
          simp only at ht
          obtain ⟨m2, _, _, e⟩ := ht
          exact ⟨_, _, e⟩
      obtain ⟨resp, dl, hout⟩ := hout
      -- one timeout of a joined state with region r
      have tmo1 : ∀ (mm : MacState) (ss : Session), mm.st = .joined ss → mm.region.id = r →
          ∃ s', (timeoutState mm).st = .joined s' ∧ abs s' (timeoutState mm).cfg = tmo r ss.fcntUp (abs ss mm.cfg) ∧
            s'.fcntUp = bump ss.fcntUp ∧ (timeoutState mm).region.id = r := by
        intro mm ss hss hrr
        obtain ⟨s', h1, h2, h3, h4⟩ := timeoutState_abs mm ss hss
        exact ⟨s', h1, by rw [h2, hrr], h3, by rw [h4, hrr]⟩
      cases hu : upRes s.fcntDown fault rx1 rx2 mp1 mp2 with
      | nothing =>
        have hm' : m' = timeoutState m1 := by
          unfold UplinkTail at ht
          unfold upRes at hu
          cases fault with
          | none => simp only at ht hu; rw [hfd, hu] at ht; exact ht.1
          | some k =>
            simp only at ht hu; rw [hfd, hu] at ht
            obtain ⟨m2, e2, e, _⟩ := ht
            rw [e, e2]; rfl
        subst hm'
        obtain ⟨s', hs', habs, _, _⟩ := tmo1 m1 _ hst1 hid1
        rw [hsent, hfu] at habs
        refine ⟨tmo r so.frame.fcnt a.afterSend, ⟨rfl, so, resp, dl, hout, hhead, hconf, htx, ?_⟩, ?_⟩
        · simp only [hu]
        · rw [← habs]; exact absRel hs'
      | ended =>
        cases fault with
        | none =>
          have hm' : m' = timeoutState m1 := by
            unfold UplinkTail at ht
            unfold upRes at hu
            simp only at ht hu; rw [hfd, hu] at ht; exact ht.1
          subst hm'
          obtain ⟨s', hs', habs, _, _⟩ := tmo1 m1 _ hst1 hid1
          rw [hsent, hfu] at habs
          refine ⟨tmo r so.frame.fcnt a.afterSend, ⟨rfl, so, resp, dl, hout, hhead, hconf, htx, ?_⟩, ?_⟩
          · simp only [hu]
          · rw [← habs]; exact absRel hs'
        | some k =>
          have hm' : m' = timeoutState (timeoutState m1) := by
            unfold UplinkTail at ht
            unfold upRes at hu
            simp only at ht hu; rw [hfd, hu] at ht
            obtain ⟨m2, e2, e, _⟩ := ht
            rw [e, e2]; rfl
          subst hm'
          obtain ⟨s1', hs1', habs1, hfu1, hid2⟩ := tmo1 m1 _ hst1 hid1
          obtain ⟨s2', hs2', habs2, _, _⟩ := tmo1 _ _ hs1' hid2
          rw [habs1, hsent, hfu1, hfu] at habs2
          refine ⟨tmo r (bump so.frame.fcnt) (tmo r so.frame.fcnt a.afterSend), ⟨rfl, so, resp, dl, hout, hhead, hconf, htx, ?_⟩, ?_⟩
          · simp only [hu]
          · rw [← habs2]; exact absRel hs2'
      | accepted N d snr =>
        cases fault with
        | none =>
          have hctx : ∃ ctx, acceptCmds (sentSession s conf).pending m1.cfg m1.region d snr false = .ok ctx ∧
              m' = acceptState m1 (sentSession s conf) d N ctx := by
            unfold UplinkTail at ht
            unfold upRes at hu
            simp only at ht hu
            rw [hfd, hu] at ht
            obtain ⟨ctx, hc, e, _⟩ := ht
            exact ⟨ctx, hc, e⟩
          obtain ⟨ctx, hcx, rfl⟩ := hctx
          obtain ⟨s', hs', hacc, _⟩ := acceptState_abs m1 _ d N snr ctx hcx
          rw [hsent] at hacc
          refine ⟨_, ⟨rfl, so, resp, dl, hout, hhead, hconf, htx, ?_⟩, absRel hs'⟩
          simp only [hu]
          exact hacc
        | some k =>
          have hctx : ∃ ctx, acceptCmds (sentSession s conf).pending m1.cfg m1.region d snr false = .ok ctx ∧
              m' = timeoutState (acceptState m1 (sentSession s conf) d N ctx) := by
            unfold UplinkTail at ht
            unfold upRes at hu
            simp only at ht hu
            rw [hfd, hu] at ht
            obtain ⟨m2, ⟨ctx, hc, e2⟩, e, _⟩ := ht
            exact ⟨ctx, hc, by rw [e, e2]; rfl⟩
          obtain ⟨ctx, hcx, rfl⟩ := hctx
          obtain ⟨s1', hs1', hacc, hfu1⟩ := acceptState_abs m1 _ d N snr ctx hcx
          rw [hsent] at hacc
          have hidA : (acceptState m1 (sentSession s conf) d N ctx).region.id = r := by
            obtain ⟨_, _, _, _, hreg⟩ := timeoutState_abs _ s1' hs1'
            rw [← hreg]; exact hid'
          obtain ⟨s2', hs2', habs2, _, _⟩ := tmo1 _ _ hs1' hidA
          rw [hfu1, hfu] at habs2
          refine ⟨_, ⟨rfl, so, resp, dl, hout, hhead, hconf, htx, ?_⟩, absRel hs2'⟩
          simp only [hu]
          exact ⟨_, hacc, habs2⟩

/-- **C12 over every history**: along every run of valid events from a well-formed state the
reference automaton describes, every data uplink carries the automaton's header bits, and the
automaton moves as `AdrStep` says — the data rate steps down exactly when the count of uplinks without
accepted downlink reaches 96, 128, … with ADR on (`Auto.timeout`, `stepdown_only_at`), any accepted
downlink restarts the count, the ACK bit is set in the first uplink after one or more accepted
confirmed downlinks and in no other. -/
theorem history_header_bits {σ} (g : Rng σ) (r : RegionId) (nb : Bool) (m : MacState) (rs : σ) (dg : DG) (hr : AdrRel r nb m dg)
    (evs : List Ev) (hv : ∀ ev ∈ evs, evOk ev = true ∧ validEv r ev = true) (ms' : MacState × σ) (outs : List Out)
    (h : run g (m, rs) evs = .ok (ms', outs)) : TraceR (AdrStep r nb) dg (evs.zip outs) := by
  have hc := run_chain g (m, rs) ms' evs outs h
  exact chain_traceR g (AdrStep r nb) (AdrRel r nb) (fun ev => evOk ev = true ∧ validEv r ev = true)
    (fun m s ev m' s' out gh hr hv hs => step_adrRel g r m m' s s' ev out gh nb hr hv hs)
    (m, rs) ms' (evs.zip outs) dg hr (fun x hx => hv x.1 (List.of_mem_zip hx).1) hc

/-- the automaton of a freshly initialised device: ADR on, data rate 0 -/
def auto0 : Auto := { ackOwed := false, adrOn := true, cnt := 0, dr := 0 }

theorem history_header_bits_init {σ} (g : Rng σ) (r : RegionId) (maxPower : Nat) (gain : Int) (hg : gainOk r gain = true) (rs : σ)
    (evs : List Ev) (hv : ∀ ev ∈ evs, evOk ev = true ∧ validEv r ev = true) (ms' : MacState × σ) (outs : List Out)
    (h : run g (MacState.init (RegionState.init r) maxPower gain, rs) evs = .ok (ms', outs)) :
    TraceR (AdrStep r true) (none, auto0) (evs.zip outs) := by
  refine history_header_bits g r true _ rs (none, auto0) ?_ evs hv ms' outs h
  obtain ⟨h1, h2, h3, _⟩ := C08.ansRel_init r maxPower gain hg
  exact ⟨h1, h2, h3, rfl, rfl, fun _ => noBias_init r, fun s hs => by cases hs⟩

/-! non-vacuity: 97 uplinks without any downlink at DR3 in EU868 — ADRACKReq from the 65th on, the
data rate steps down once (at 96); a confirmed downlink then restarts the count and is ACKed once -/
def lcg : Rng Nat := fun x => ((x * 1103515245 + 12345) / 65536, x * 1103515245 + 12345)

def up : Ev := .uplink [1] 1 false none none none 51 51
def cdl : Option (RxView × Int) :=
  some (.data { len := 14, confirmed := true, fcnt16 := 1, micFcnt := some 1, fopts := [], fport := some 1, payload := [1] }, 5)

def demoHistory : List Ev :=
  [.joinAbp 7 1 2, .setDr 3] ++ List.replicate 97 up ++ [.uplink [1] 1 false none cdl none 51 51, up, up]

def bits (outs : List Out) : List (Bool × Bool × Bool) :=
  outs.filterMap (fun o => match o with | .up so _ _ => some (so.frame.ack, so.frame.adr, so.frame.adrAckReq) | _ => none)

example : ∀ ev ∈ demoHistory, evOk ev = true ∧ validEv .EU868 ev = true := by decide +kernel
example : (run lcg (MacState.init (RegionState.init .EU868) 14 0, 1) demoHistory).toOption.map
      (fun r => (r.1.1.cfg.dataRate, ((bits r.2).drop 63).take 3, (bits r.2).drop 97)) =
    some (2, [(false, true, false), (false, true, true), (false, true, true)],
          [(false, true, true), (true, true, false), (false, true, false)]) := by decide +kernel
example : AdrRel .EU868 true (MacState.init (RegionState.init .EU868) 14 0) (none, auto0) := by
  obtain ⟨h1, h2, h3, _⟩ := C08.ansRel_init .EU868 14 0 (by decide)
  exact ⟨h1, h2, h3, rfl, rfl, fun _ => noBias_init _, fun s hs => by cases hs⟩
/-! ## extended histories: the automaton also moves at acceptances INSIDE the receive procedure

`Model/HistoryC.lean`: a Class C device hands the frames it hears on the RXC parameters between TX and
RX1 and between RX1 and RX2 to `handle_rxc` in the middle of the procedure.  The reference procedure
(`Lemmas/CycleC.lean`, `upRefC`) decides — from the event, the tracker's counter and the uplink's
counter — on the list of ACTS of the procedure; the automaton moves along them (`ActsA`): a frame
accepted on the RXC parameters restarts the count and makes an ACK owed if confirmed (`accept`), a
frame accepted in a Class A window likewise (and may command a data rate: `AcceptedA`), every
`rx2_complete` — both windows empty, an oversized frame, a radio fault — is a `timeout`. -/

theorem bump_eq (fc : Nat) : bump fc = bumpFu fc := rfl

/-- the automaton along the acts of a receive procedure; the second component is the uplink counter
(at 2^32−1 `rx2_complete` reports `SessionExpired` and moves nothing) -/
def ActsA (r : RegionId) : List Act → Auto × Nat → Auto → Prop
  | [], x, a' => a' = x.1
  | .accC _ d :: rest, x, a' => ActsA r rest (x.1.accept d.confirmed, bumpFu x.2) a'
  | .accA _ d _ :: rest, x, a' => ∃ a1, AcceptedA x.1 d a1 ∧ ActsA r rest (a1, bumpFu x.2) a'
  | .tmo :: rest, x, a' => ActsA r rest (tmo r x.2 x.1, bumpFu x.2) a'

/-- **one extended event, seen from the uplink header**: events of `Model/History.lean` as `AdrStep`
says (a join procedure: the plain `joinOtaa` it amounts to); `send` + receive procedure of a device
with a session: the uplink carries the automaton's header bits and the requested message type, goes
out at the automaton's data rate, and the automaton then moves along the acts the REFERENCE decides on
for this procedure, Class C acceptances inside it included. -/
def AdrStepC (r : RegionId) (nb : Bool) (g : DG) (e : EvL) (out : OutC) (g' : DG) : Prop :=
  match e.2 with
  | .base ev => AdrStep r nb g ev out.out g'
  | .joinC cc fault c1 rx1 c2 rx2 => AdrStep r nb g (joinPlain fault rx1 rx2) out.out g'
  | .uplinkC cc _ _ conf fault c1 rx1 c2 rx2 =>
    g'.1 = ghNextC g.1 e out ∧
    (match g.1 with
     | some last =>
       ∃ so resp dl, out.out = .up so resp dl ∧
         (so.frame.ack, so.frame.adr, so.frame.adrAckReq) = g.2.header (lowerExists r) ∧ so.frame.confirmed = conf ∧
         ((r.isFixed = false ∨ nb = true) → TxAt r g.2.dr so.tx) ∧
         ActsA r (upRefC cc last conf e.1 fault c1 rx1 c2 rx2 so).acts (g.2.afterSend, so.frame.fcnt) g'.2
     | none => out.out = .notJoined ∧ g'.2 = g.2)

/-- **the automaton follows the model along the acts** -/
theorem acts_adr (r : RegionId) (acts : List Act) :
    ∀ (m m' : MacState) (s : Session), m.st = .joined s → m.region.id = r → Acts m acts m' →
      ∃ s', m'.st = .joined s' ∧ m'.region.id = r ∧ ActsA r acts (abs s m.cfg, s.fcntUp) (abs s' m'.cfg) := by
  induction acts with
  | nil =>
    intro m m' s hst hid h
    simp only [Acts] at h
    subst h
    exact ⟨s, hst, hid, rfl⟩
  | cons a rest ih =>
    intro m m' s hst hid h
    cases a with
    | accC N d =>
      simp only [Acts] at h
      obtain ⟨s0, hs0, _, h⟩ := h
      rw [hst] at hs0; cases hs0
      obtain ⟨s1, hs1, habs⟩ := acceptStateC_abs m s d N
      have hfu : s1.fcntUp = bumpFu s.fcntUp := by
        have := acceptState_st m s d N { cfg := m.cfg, region := m.region, pending := s.pending }
        rw [this, acceptFinish_session_eq] at hs1
        cases hs1; rfl
      have hid1 : (acceptState m s d N (ctxC m s)).region.id = r := by rw [(acceptState_cfg m s d N (ctxC m s)).2]; exact hid
      obtain ⟨s', hst', hid', hA⟩ := ih _ m' s1 hs1 hid1 h
      refine ⟨s', hst', hid', ?_⟩
      simp only [ActsA]
      rw [← habs, ← hfu]
      exact hA
    | accA N d snr =>
      simp only [Acts] at h
      obtain ⟨s0, ctx, hs0, _, hc, h⟩ := h
      rw [hst] at hs0; cases hs0
      obtain ⟨s1, hs1, hacc, hfu⟩ := acceptState_abs m s d N snr ctx hc
      have hid1 : (acceptState m s d N ctx).region.id = r := by
        rw [(acceptState_cfg m s d N ctx).2, C08.acceptCmds_region_id _ _ _ d snr ctx hc]; exact hid
      obtain ⟨s', hst', hid', hA⟩ := ih _ m' s1 hs1 hid1 h
      refine ⟨s', hst', hid', ?_⟩
      simp only [ActsA]
      refine ⟨_, hacc, ?_⟩
      rw [← bump_eq, ← hfu]
      exact hA
    | tmo =>
      simp only [Acts] at h
      obtain ⟨s1, hs1, habs, hfu, hreg⟩ := timeoutState_abs m s hst
      have hid1 : (timeoutState m).region.id = r := by rw [hreg]; exact hid
      obtain ⟨s', hst', hid', hA⟩ := ih _ m' s1 hs1 hid1 h
      refine ⟨s', hst', hid', ?_⟩
      simp only [ActsA]
      rw [hid] at habs
      rw [← bump_eq, ← hfu, ← habs]
      exact hA

theorem acts_nobias (acts : List Act) : ∀ (m m' : MacState), NoBias m.region → Acts m acts m' → NoBias m'.region := by
  induction acts with
  | nil => intro m m' hn h; simp only [Acts] at h; subst h; exact hn
  | cons a rest ih =>
    intro m m' hn h
    cases a with
    | accC N d =>
      simp only [Acts] at h
      obtain ⟨s, _, _, h⟩ := h
      exact ih _ m' (by rw [acceptState_region]; exact hn) h
    | accA N d snr =>
      simp only [Acts] at h
      obtain ⟨s, ctx, _, _, hc, h⟩ := h
      exact ih _ m' (by rw [acceptState_region]; exact acceptCmds_nobias _ _ _ d snr ctx hn hc) h
    | tmo =>
      simp only [Acts] at h
      exact ih _ m' (by rw [timeoutState_region]; exact hn) h

theorem stepC_adrRel {σ} (g : Rng σ) (r : RegionId) (m m' : MacState) (rs rs' : σ) (ev : EvC) (out : OutC) (dg : DG)
    (nb : Bool) (hr : AdrRel r nb m dg) (hv : C08.evValidC r ev)
    (h : stepC g (m, rs) ev = .ok ((m', rs'), out)) : ∃ dg', AdrStepC r nb dg (rxcMp m, ev) out dg' ∧ AdrRel r nb m' dg' := by
  cases ev with
  | base e =>
    obtain ⟨hs, _⟩ := stepC_base g _ _ e out h
    exact step_adrRel g r m m' rs rs' e out.out dg nb hr hv hs
  | joinC cc fault c1 rx1 c2 rx2 =>
    obtain ⟨hs, _⟩ := stepC_joinC_plain g _ _ cc fault c1 rx1 c2 rx2 out h
    exact step_adrRel g r m m' rs rs' _ out.out dg nb hr ⟨evOk_joinPlain hv.1, C08.validEv_joinPlain hv.2⟩ hs
  | uplinkC cc data fport conf fault c1 rx1 c2 rx2 =>
    obtain ⟨gh, a⟩ := dg
    obtain ⟨hgh, hwf, hid, hon, hdr, hnb, hses⟩ := hr
    simp only at hgh hon hdr hnb hses
    have hgh' := stepC_ghRel g m m' rs rs' _ out gh hgh hv.1 h
    have hk : Keeps m m' := (stepC_safe g m rs _ hwf (by unfold ValidEvC; rw [hid]; exact hv.2)).elim h
    have hid' : m'.region.id = r := by rw [hk.2.1, hid]
    cases gh with
    | none =>
      obtain ⟨rfl, _, rfl⟩ := stepC_uplinkC_notJoined g m m' rs rs' hgh cc data fport conf fault c1 rx1 c2 rx2 out h
      exact ⟨(none, a), ⟨rfl, rfl, rfl⟩, hgh, hwf, hid, hon, hdr, hnb, hses⟩
    | some last =>
      obtain ⟨s, hst, rfl, hl⟩ := hgh
      have hval : (fport = 0 → data = []) ∧ data.length ≤ 222 := by
        have := hv.2
        simp only [validEvC, Bool.and_eq_true, Bool.or_eq_true, bne_iff_ne, ne_eq, List.isEmpty_iff, decide_eq_true_eq] at this
        exact ⟨fun e => by rcases this.1.1.1.1.1 with h0 | h0; exact absurd e h0; exact h0, this.1.1.1.1.2⟩
      obtain ⟨so, m1, hsend, hfr, hst1, hcfg1, hid1', hout, hacts, s', hst', hp', hl'⟩ :=
        stepC_uplinkC_joined g m m' rs rs' s hst hl cc data fport conf fault c1 rx1 c2 rx2 hv.1 out h
      have hid1 : m1.region.id = r := by rw [hid1', hid]
      obtain ⟨ho, hc⟩ := hses s hst
      have ha : a = abs s m.cfg := auto_eq_abs hon hdr ho hc
      obtain ⟨hhead, hconf, hfc⟩ := header_descOf s m.cfg m.region.id data fport conf
      rw [← hfr, hid, ← ha] at hhead
      rw [← hfr] at hconf hfc
      have hsent : abs (sentSession s conf) m1.cfg = a.afterSend := by rw [hcfg1, ha]; rfl
      have hno : (r.isFixed = false ∨ nb = true) → NoBias m.region := by
        intro hfx
        rcases hfx with hfx | hfx
        · obtain ⟨p, hp⟩ := (regionWF_isFixed hwf.region).2 (by rw [hid]; exact hfx)
          exact noBias_dyn hp
        · exact hnb hfx
      have htx : (r.isFixed = false ∨ nb = true) → TxAt r a.dr so.tx := by
        intro hfx
        have := macSend_txAt_nobias g m m1 s hst hwf (hno hfx) data fport conf rs rs' so hsend
        rw [hid, ← hdr] at this
        exact this
      have hnb' : nb = true → NoBias m'.region := by
        intro e
        obtain ⟨dr, tx, region', pw, r1, r2, _, _, hsel, hm1, _, _⟩ := macSend_joined g m s hst data fport conf rs rs' _ m1 hsend
        have hn1 : NoBias m1.region := by rw [hm1]; exact (selectTxChannel_nobias g m.region region' dr .data rs rs' tx (hnb e) hsel).1
        exact acts_nobias _ m1 m' hn1 hacts
      obtain ⟨s2, hst2, _, hA⟩ := acts_adr r _ m1 m' _ hst1 hid1 hacts
      rw [hsent] at hA
      have hfu : (sentSession s conf).fcntUp = so.frame.fcnt := by rw [hfc]; rfl
      rw [hfu] at hA
      refine ⟨(ghNextC (some s.fcntDown) (rxcMp m, .uplinkC cc data fport conf fault c1 rx1 c2 rx2) out, abs s2 m'.cfg),
        ⟨rfl, so, _, _, by rw [hout], hhead, hconf, htx, hA⟩, hgh', hk.1, hid', ?_, ?_, hnb', ?_⟩
      · exact (absRel hst2).1
      · exact (absRel hst2).2.1
      · exact (absRel hst2).2.2

/-- **C12 over every extended history** (Class C receptions inside the receive procedure included):
along every `runC` of valid events from a well-formed state the reference automaton describes, every
data uplink carries the automaton's header bits, and the automaton moves as `AdrStepC` says — an
accepted downlink, wherever it is heard (RX1, RX2, on the RXC parameters between uplinks or INSIDE the
receive procedure), restarts the count and, if confirmed, sets the ACK bit of the first uplink after
it and of no other; every uplink that completes without one counts. -/
theorem historyC_header_bits {σ} (g : Rng σ) (r : RegionId) (nb : Bool) (m : MacState) (rs : σ) (dg : DG) (hr : AdrRel r nb m dg)
    (evs : List EvC) (hv : ∀ ev ∈ evs, C08.evValidC r ev) (ms' : MacState × σ) (outs : List OutC)
    (h : runC g (m, rs) evs = .ok (ms', outs)) : TraceRG (AdrStepC r nb) dg ((annotC g (m, rs) evs).zip outs) := by
  have hc := runC_chain g (m, rs) ms' evs outs h
  refine chainC_traceR g (AdrStepC r nb) (AdrRel r nb) (C08.evValidC r)
    (fun m s ev m' s' out gh hr hv hs => stepC_adrRel g r m m' s s' ev out gh nb hr hv hs)
    (m, rs) ms' _ dg hr ?_ hc
  intro x hx
  have h1 := (List.of_mem_zip hx).1
  unfold annotC at h1
  exact hv _ (List.of_mem_zip h1).2

/-- **C12 on the async front-end, for EVERY script, both classes** -/
theorem asyncC_header_bits {σ} (g : Rng σ) (cfg : DevCfg) (r : RegionId) (nb : Bool) (d : DevRun) (rs : σ) (dg : DG)
    (hr : AdrRel r nb d.m dg) (ops : List AsyncOp) (hv : ∀ op ∈ ops, op.allView viewOk = true ∧ op.valid r = true)
    (obs : List OpObs) (d' : DevRun) (rs' : σ) (h : asyncOps g cfg d rs ops = .ok (obs, d', rs')) :
    ∃ outs, TraceRG (AdrStepC r nb) dg ((annotC g (d.m, rs) (abstractSessionC cfg ops)).zip outs) ∧ AllRel ObsRel obs outs := by
  obtain ⟨outs, hrun, hobs⟩ := asyncOps_runC g cfg d rs ops obs d' rs' h
  refine ⟨outs, historyC_header_bits g r nb d.m rs dg hr _ ?_ _ outs hrun, hobs⟩
  intro ev hev
  obtain ⟨op, hop, rfl⟩ := List.mem_map.mp hev
  exact ⟨abstractOp_evOkC cfg op (hv op hop).1, abstractOp_valid cfg r op (hv op hop).2⟩

/-! non-vacuity, and the numbers of `C06.classC_inside_frontend`: ONE `send` of a Class C device that
hears a confirmed downlink between TX and RX1 leaves ADR count 1 and an ACK owed; the uplink itself went
out with counter 0 and without ACK; the next uplink carries the ACK -/
def cdlC : RxView × Int :=
  (.data { len := 14, confirmed := true, fcnt16 := 3, micFcnt := some 3, fopts := [], fport := some 2, payload := [3] }, 5)

def demoHistoryC : List EvC :=
  [ .base (.joinAbp 7 1 2),
    .uplinkC true [1] 1 false none [cdlC] none [] none,
    .uplinkC true [2] 1 false none [] none [] none ]

example : ∀ ev ∈ demoHistoryC, evOkC ev = true ∧ validEvC .EU868 ev = true := by decide
example : (runC lcg (MacState.init (RegionState.init .EU868) 14 0, 1) demoHistoryC).toOption.map
      (fun r => (bits (r.2.map (·.out)), r.1.1.st)) =
    some ([(false, true, false), (true, true, false)],
      .joined { pending := [], ackOwed := false, confirmed := false, devAddr := 7, fcntUp := 3, fcntDown := some 3,
                adrAckCnt := 2, nwkKey := 1, appKey := 2 }) := by decide +kernel
example : ActsA .EU868 [.accC 3 { len := 14, confirmed := true, fcnt16 := 3, micFcnt := some 3, fopts := [], fport := some 2, payload := [3] }, .tmo]
    (auto0.afterSend, 0) { ackOwed := true, adrOn := true, cnt := 1, dr := 0 } := by
  simp only [ActsA]; decide

end C12

#print axioms C12.header_refines
#print axioms C12.timeout_refines
#print axioms C12.accept_refines
#print axioms C12.setAdr_refines
#print axioms C12.adrAckReq_iff
#print axioms C12.stepdown_only_at
#print axioms C12.step_adrRel
#print axioms C12.history_header_bits
#print axioms C12.history_header_bits_init
#print axioms C12.answers_adr
#print axioms C12.macSend_txAt
#print axioms C12.selectTxChannel_nobias
#print axioms C12.step_nobias
#print axioms C12.macSend_txAt_nobias

#print axioms C12.stepC_adrRel
#print axioms C12.historyC_header_bits
#print axioms C12.asyncC_header_bits
