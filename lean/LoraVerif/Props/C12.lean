import LoraVerif.Model.Mac
import LoraVerif.Spec.Adr
import LoraVerif.Lemmas.ExceptLemmas
/-!
# C12 — uplink header bits and ADR back-off follow the session history

Refinement of the MAC model to the four-field reference automaton `Spec.Adr.Auto` through the
abstraction `abs` (ACK owed, ADR on, ADR_ACK_CNT, data rate): every operation of the model commutes
with the corresponding automaton step, and the header of every uplink is the automaton's header.
By induction over any history the uplink bits are therefore exactly those of the automaton:
ACK once after ≥1 accepted confirmed downlinks, ADR bit = ADR enabled, ADRACKReq ⇔ ADR ∧ cnt ≥ 64 ∧ a
lower rate exists, step-down exactly at cnt = 96, 128, … to the next lower DEFINED rate, restart on any
accepted downlink (`header_refines`, `timeout_refines`, `accept_refines`, `setAdr_refines`, `setDr_refines`).
-/
open Model Spec.Adr

namespace C12

def abs (s : Session) (cfg : Config) : Auto :=
  { ackOwed := s.ackOwed, adrOn := cfg.adrEnabled, cnt := s.adrAckCnt, dr := cfg.dataRate }

def lowerExists (r : RegionId) (dr : Nat) : Bool := (nextLowerDatarate r dr).isSome

/-- every uplink: address of the session, requested message type, and the automaton's header bits;
building it performs the automaton's `afterSend` -/
theorem header_refines (s : Session) (cfg : Config) (r : RegionId) (data : List Nat) (port : Nat) (conf : Bool)
    (desc : UplinkDesc) (s' : Session) (h : prepareBuffer s cfg r data port conf = .ok (desc, s')) :
    (desc.ack, desc.adr, desc.adrAckReq) = (abs s cfg).header (lowerExists r) ∧
    desc.confirmed = conf ∧ desc.devAddr = s.devAddr ∧ abs s' cfg = (abs s cfg).afterSend := by
  unfold prepareBuffer at h
  simp only [bind, Except.bind, pure, Except.pure] at h
  repeat' split at h
  all_goals
    first
    | (simp only [Except.ok.injEq, Prod.mk.injEq] at h
       obtain ⟨rfl, rfl⟩ := h
       simp [abs, Auto.header, Auto.afterSend, lowerExists, adrAckLimit, Gen.Session.ADR_ACK_LIMIT])
    | cases h

/-- an uplink without accepted downlink: the model's `rx2_complete` is the automaton's `timeout` -/
theorem timeout_refines (s : Session) (cfg : Config) (r : RegionId) (hx : s.fcntUp ≠ 0xFFFFFFFF) :
    abs (rx2Complete s cfg r).2.1 (rx2Complete s cfg r).2.2 = (abs s cfg).timeout (nextLowerDatarate r) := by
  unfold rx2Complete
  have hx' : (s.fcntUp == 0xFFFFFFFF) = false := by simp [hx]
  have e64 : Gen.Session.ADR_ACK_LIMIT.toNat = 64 := by decide
  have e32 : Gen.Session.ADR_ACK_DELAY.toNat = 32 := by decide
  simp only [hx', Bool.false_eq_true, if_false, e64, e32, abs, Auto.timeout, adrAckLimit, adrAckDelay]
  by_cases hadr : cfg.adrEnabled = true
  · simp only [hadr, if_true]
    by_cases h1 : min (s.adrAckCnt + 1) 4294967295 ≥ 64 + 32
    · by_cases h2 : (min (s.adrAckCnt + 1) 4294967295 - 64) % 32 = 0
      · have h2b : ((min (s.adrAckCnt + 1) 4294967295 - 64) % 32 == 0) = true := by simp [h2]
        simp only [h1, h2, h2b, and_self, if_true]
        cases nextLowerDatarate r cfg.dataRate <;> simp [hadr]
      · have h2b : ((min (s.adrAckCnt + 1) 4294967295 - 64) % 32 == 0) = false := by simp [h2]
        simp [h1, h2, h2b, hadr]
    · simp [h1, hadr]
  · have hadr' : cfg.adrEnabled = false := by simpa using hadr
    simp [hadr']

/-- an accepted downlink without MAC commands: the automaton's `accept` -/
theorem accept_refines (s : Session) (cfg : Config) (region : RegionState) (d : RxData) (mp : Nat) (snr : Int) (ig : Bool)
    (o : RxOut) (s' : Session) (cfg' : Config) (region' : RegionState) (N : Nat)
    (h : sessionHandleRx s cfg region d mp snr ig = .ok (o, s', cfg', region'))
    (hlen : d.len ≤ mp + 5) (hn : nextFcntDown s.fcntDown d.fcnt16 = some N) (hm : d.micFcnt = some N)
    (hnocmd : d.fopts = [] ∧ d.fport ≠ some 0) :
    abs s' cfg' = (abs s cfg).accept d.confirmed := by
  unfold sessionHandleRx at h
  have hlen' : ¬ d.len > mp + 5 := by omega
  simp only [hlen', if_false, hn] at h
  have : (d.micFcnt != some N) = false := by simp [hm]
  simp only [this, Bool.false_eq_true, if_false] at h
  obtain ⟨ctx, hctx, h⟩ := Except.bind_eq_ok h
  have hcfg : ctx.cfg = cfg := by
    cases ig
    · simp only [Bool.false_eq_true, if_false, hnocmd.1] at hctx
      obtain ⟨c1, hc1, hctx⟩ := Except.bind_eq_ok hctx
      have : c1.cfg = cfg := by
        simp only [handleDownlinkMacs, parseDownlinkCmds, List.length_nil, handleCmds, Except.ok.injEq] at hc1
        subst hc1; rfl
      have hp : (d.fport == some 0) = false := by simp [hnocmd.2]
      simp only [hp, Bool.false_eq_true, if_false, pure, Except.pure, Except.ok.injEq] at hctx
      subst hctx; exact this
    · simp only [if_true, pure, Except.pure, Except.ok.injEq] at hctx
      subst hctx; rfl
  cases hc : d.confirmed <;> cases ig <;>
    simp only [hc, Bool.false_eq_true, if_false, if_true] at h <;>
    (split at h) <;>
    simp only [pure, Except.pure, Except.ok.injEq, Prod.mk.injEq] at h <;>
    obtain ⟨rfl, rfl, rfl, rfl⟩ := h <;>
    simp [abs, Auto.accept, hcfg]

theorem setAdr_refines (m : MacState) (s : Session) (hst : m.st = .joined s) (on : Bool) :
    ∃ s', (macSetAdr m on).st = .joined s' ∧
      abs s' (macSetAdr m on).cfg = (abs s m.cfg).setAdr on := by
  unfold macSetAdr
  cases on
  · simp only [hst]; exact ⟨_, rfl, by simp [abs, Auto.setAdr]⟩
  · simp only [hst]; exact ⟨s, rfl, by simp [abs, Auto.setAdr]⟩

theorem setDr_refines (m : MacState) (s : Session) (dr : Nat) :
    abs s (macSetDatarate m dr).cfg = (abs s m.cfg).setDr dr := rfl

/-! corollaries in the words of the property -/

/-- ADRACKReq exactly when ADR is on, at least 64 uplinks passed without accepted downlink and a lower rate exists -/
theorem adrAckReq_iff (a : Auto) (le : Nat → Bool) :
    (a.header le).2.2 = true ↔ a.adrOn = true ∧ 64 ≤ a.cnt ∧ le a.dr = true := by
  simp [Auto.header, adrAckLimit, and_assoc]

/-- the data rate only ever steps down at 96, 128, … uplinks, and only to the next lower defined rate -/
theorem stepdown_only_at (a : Auto) (nl : Nat → Option Nat) (h : (a.timeout nl).dr ≠ a.dr) :
    a.adrOn = true ∧ 96 ≤ min (a.cnt + 1) 0xFFFFFFFF ∧ (min (a.cnt + 1) 0xFFFFFFFF - 64) % 32 = 0 ∧ nl a.dr = some (a.timeout nl).dr := by
  unfold Auto.timeout at h ⊢
  cases ha : a.adrOn
  · simp [ha] at h
  · simp only [ha, if_true, adrAckLimit, adrAckDelay] at h ⊢
    by_cases hc : min (a.cnt + 1) 0xFFFFFFFF ≥ 64 + 32 ∧ (min (a.cnt + 1) 0xFFFFFFFF - 64) % 32 = 0
    · simp only [hc, and_self, if_true] at h ⊢
      cases hn : nl a.dr with
      | none => simp [hn] at h
      | some d => simp [hn] at h ⊢ <;> omega
    · simp [hc] at h

/-! non-vacuity -/
example : (Auto.timeout { ackOwed := false, adrOn := true, cnt := 95, dr := 3 } (fun d => if d > 0 then some (d - 1) else none)).dr = 2 := by decide
example : (Auto.timeout { ackOwed := false, adrOn := true, cnt := 96, dr := 3 } (fun d => if d > 0 then some (d - 1) else none)).dr = 3 := by decide
example : (Auto.header { ackOwed := true, adrOn := true, cnt := 64, dr := 0 } (fun d => decide (d > 0))) = (true, true, false) := by decide

end C12

#print axioms C12.header_refines
#print axioms C12.timeout_refines
#print axioms C12.accept_refines
#print axioms C12.setAdr_refines
#print axioms C12.adrAckReq_iff
#print axioms C12.stepdown_only_at
