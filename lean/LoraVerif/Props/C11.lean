import LoraVerif.Model.Mac
import LoraVerif.Lemmas.ExceptLemmas
import LoraVerif.Props.C11Codec
import LoraVerif.Lemmas.Ghost
import LoraVerif.Lemmas.CycleC
import LoraVerif.Lemmas.RefineC
/-!
# C11 — OTAA join establishes exactly the session the JoinAccept defines

On the MAC model (the JoinAccept arrives as the reference codec's view `RxJoinAccept`; the byte
layout, MIC and key derivation themselves are theorems on the codec model — `Props/C11Codec.lean`:
`join_request_bytes`, `join_accept_decode`, `join_accept_fields`, `session_keys` — and are also
checked against the LoRaWAN §6.2 formulas by the C11 correspondence oracle):
* `joined_iff_mic`: while a join is in progress a received frame makes the device joined exactly
  when it is a JoinAccept whose MIC verifies under the root key; anything else changes nothing;
* `accept_spec`: the new session carries the assigned address, both counters restarted
  (`fcnt_up = 0`, no downlink yet), no pending answers; the RX delay is the one of the accept
  (0 and 1 = one second); RX1DROffset and RX2 data rate are applied when the region defines them and
  left alone when not; the CFList goes through `processJoinAccept` (type 0 only to dynamic plans and
  only in-band frequencies — `C09.joinAccept_chanInv` —, type 1 only to fixed plans);
* `no_accept`: without such a frame the attempt ends in `NoJoinAccept` and the device stays unjoined;
* `join_nonce`: the DevNonce of the request is the low 16 bits of the draw and is what the session
  derivation will use.
* HISTORIES: `history_join` — at every join attempt of every history (`Model/History.lean`: after
  failed attempts, from a joined state, with radio faults cutting the procedure short) the state after
  is exactly the session the authentic JoinAccept heard in a served window defines, or the device is
  not joined and its configuration untouched (`JoinStep`, `step_join`).
-/
open Model Gen.Region

namespace C11

theorem processJoinAccept_id (rs : RegionState) (cf : Option CfList) (rs' : RegionState)
    (h : processJoinAccept rs cf = .ok rs') : rs'.id = rs.id := by
  unfold processJoinAccept at h
  cases hp : rs.plan with
  | dyn p =>
    cases cf with
    | none => simp only [hp, pure, Except.pure, Except.ok.injEq] at h; subst h; rfl
    | some c =>
      cases c with
      | fixedChannel mk => simp only [hp, pure, Except.pure, Except.ok.injEq] at h; subst h; rfl
      | dynamicChannel fs =>
        simp only [hp] at h
        obtain ⟨chans, _, h⟩ := Except.bind_eq_ok h
        simp only [pure, Except.pure, Except.ok.injEq] at h; subst h; rfl
  | fix p =>
    cases cf with
    | none => simp only [hp, pure, Except.pure, Except.ok.injEq] at h; subst h; rfl
    | some c =>
      cases c with
      | fixedChannel mk => simp only [hp, pure, Except.pure, Except.ok.injEq] at h; subst h; rfl
      | dynamicChannel fs => simp only [hp, pure, Except.pure, Except.ok.injEq] at h; subst h; rfl

theorem accept_spec (m : MacState) (j : RxJoinAccept) (m' : MacState) (h : otaaAccept m j = .ok m') :
    m'.st = .joined (Session.new j.devAddr j.nwkKey j.appKey) ∧
    processJoinAccept m.region j.cfList = .ok m'.region ∧
    delToDelayMs (j.rxDelay % 16) = .ok m'.cfg.rx1Delay ∧
    m'.cfg.rx1DrOffset = (if (j.dlSettings / 16) % 8 ≤ maxRx1DrOffset m.region.id then (j.dlSettings / 16) % 8 else m.cfg.rx1DrOffset) ∧
    m'.cfg.rx2DataRate = (if (getDatarate m.region.id (j.dlSettings % 16)).isSome then some (j.dlSettings % 16) else m.cfg.rx2DataRate) ∧
    m'.cfg.dataRate = m.cfg.dataRate ∧ m'.cfg.txPower = m.cfg.txPower ∧ m'.cfg.rx2Frequency = m.cfg.rx2Frequency ∧
    m'.cfg.adrEnabled = m.cfg.adrEnabled ∧ m'.maxPower = m.maxPower ∧ m'.antennaGain = m.antennaGain := by
  unfold otaaAccept at h
  obtain ⟨region, hreg, h⟩ := Except.bind_eq_ok h
  obtain ⟨d, hd, h⟩ := Except.bind_eq_ok h
  simp only [pure, Except.pure, Except.ok.injEq] at h
  subst h
  have hid : region.id = m.region.id := processJoinAccept_id _ _ _ hreg
  refine ⟨rfl, hreg, ?_, ?_, ?_, ?_, ?_, ?_, ?_, rfl, rfl⟩
  all_goals
    simp only [rx1DrOffsetValidate, hid]
    by_cases ho : (j.dlSettings / 16) % 8 ≤ maxRx1DrOffset m.region.id <;>
      by_cases hr : (getDatarate m.region.id (j.dlSettings % 16)).isSome = true <;> simp [ho, hr, hd]

/-- the fresh session: address assigned, counters restarted, nothing pending -/
theorem new_session (a n k : Nat) :
    (Session.new a n k).devAddr = a ∧ (Session.new a n k).fcntUp = 0 ∧ (Session.new a n k).fcntDown = none ∧
    (Session.new a n k).pending = [] ∧ (Session.new a n k).ackOwed = false ∧ (Session.new a n k).adrAckCnt = 0 :=
  ⟨rfl, rfl, rfl, rfl, rfl, rfl⟩

/-- joined exactly upon an authentic JoinAccept -/
theorem joined_iff_mic (m : MacState) (o : OtaaState) (hst : m.st = .otaa o) (v : RxView) (mp : Nat) (snr : Int)
    (out : Option RxOut) (m' : MacState) (h : macHandleRx m v mp snr false = .ok (out, m')) :
    ((∃ s, m'.st = .joined s) ↔ ∃ j, v = .joinAccept j ∧ j.micOk = true) ∧
    ((¬ ∃ j, v = .joinAccept j ∧ j.micOk = true) → m' = m ∧ out = some { resp := .noUpdate, downlink := none }) := by
  unfold macHandleRx at h
  simp only [hst, Bool.false_eq_true, if_false] at h
  cases v with
  | garbage =>
    simp only [pure, Except.pure, Except.ok.injEq, Prod.mk.injEq] at h
    obtain ⟨rfl, rfl⟩ := h
    simp [hst]
  | data d =>
    simp only [pure, Except.pure, Except.ok.injEq, Prod.mk.injEq] at h
    obtain ⟨rfl, rfl⟩ := h
    simp [hst]
  | joinAccept j =>
    by_cases hm : j.micOk = true
    · simp only [hm, if_true] at h
      obtain ⟨m1, hacc, h⟩ := Except.bind_eq_ok h
      simp only [pure, Except.pure, Except.ok.injEq, Prod.mk.injEq] at h
      obtain ⟨rfl, rfl⟩ := h
      have := (accept_spec m j m1 hacc).1
      constructor
      · constructor
        · intro _; exact ⟨j, rfl, hm⟩
        · intro _; exact ⟨_, this⟩
      · intro hn; exact absurd ⟨j, rfl, hm⟩ hn
    · simp only [hm, Bool.false_eq_true, if_false, pure, Except.pure, Except.ok.injEq, Prod.mk.injEq] at h
      obtain ⟨rfl, rfl⟩ := h
      constructor
      · constructor
        · intro ⟨s, hs⟩; rw [hst] at hs; cases hs
        · intro ⟨j', hj', hm'⟩; cases hj'; exact absurd hm' hm
      · intro _; exact ⟨rfl, rfl⟩

/-- no JoinAccept: `NoJoinAccept`, still unjoined, nothing changed; and a `send` is refused -/
theorem no_accept (m : MacState) (o : OtaaState) (hst : m.st = .otaa o) :
    macRx2Complete m = (.noJoinAccept, m) := by
  unfold macRx2Complete; simp [hst]

theorem send_refused_while_joining {σ} (g : Rng σ) (m : MacState) (o : OtaaState) (hst : m.st = .otaa o)
    (data : List Nat) (port : Nat) (conf : Bool) (rs : σ) : macSend g m data port conf rs = .ok (none, m, rs) := by
  unfold macSend; simp [hst, pure, Except.pure]

/-- the JoinRequest carries the low 16 bits of the draw as DevNonce and the MAC remembers it -/
theorem join_nonce {σ} (g : Rng σ) (m : MacState) (rs : σ) (out : JoinOut) (m' : MacState) (rs' : σ)
    (h : macJoinOtaa g m rs = .ok (out, m', rs')) :
    out.devNonce = (draw g rs).1 % 65536 ∧ m'.st = .otaa { devNonce := out.devNonce } := by
  unfold macJoinOtaa at h
  simp only at h
  obtain ⟨dr, _, h⟩ := Except.bind_eq_ok h
  obtain ⟨⟨tx, region, rs1⟩, _, h⟩ := Except.bind_eq_ok h
  obtain ⟨pw, _, h⟩ := Except.bind_eq_ok h
  obtain ⟨⟨r1, r2⟩, _, h⟩ := Except.bind_eq_ok h
  simp only [pure, Except.pure, Except.ok.injEq, Prod.mk.injEq] at h
  obtain ⟨rfl, rfl, rfl⟩ := h
  exact ⟨rfl, rfl⟩

/-! non-vacuity -/
def mOtaa : MacState := { MacState.init (RegionState.init .EU868) 14 0 with st := .otaa { devNonce := 7 } }
def ja : RxJoinAccept := { micOk := true, devAddr := 0x01020304, dlSettings := 0x23, rxDelay := 5, cfList := none, nwkKey := 3, appKey := 4 }
example : ((otaaAccept mOtaa ja).toOption.map (fun m => (m.cfg.rx1Delay, m.cfg.rx1DrOffset, m.cfg.rx2DataRate))) = some (5000, 2, some 3) := by decide
example : ((otaaAccept mOtaa { ja with dlSettings := 0x7F }).toOption.map (fun m => (m.cfg.rx1DrOffset, m.cfg.rx2DataRate))) = some (0, none) := by decide


/-! ## histories -/

/-- the authentic JoinAccept the reference finds in the windows a join attempt served (`joinRes`) was
really heard there -/
theorem joinRes_heard {fault : Option Nat} {rx1 rx2 : Option (RxView × Int)} {j : RxJoinAccept}
    (h : joinRes fault rx1 rx2 = some j) :
    j.micOk = true ∧ ((∃ snr, rx1 = some (.joinAccept j, snr)) ∨ (∃ snr, rx2 = some (.joinAccept j, snr))) := by
  have hacc : ∀ (f : Option (RxView × Int)), joinAcc f = some j → j.micOk = true ∧ ∃ snr, f = some (.joinAccept j, snr) := by
    intro f hf
    unfold joinAcc at hf
    split at hf
    · rename_i j' snr
      split at hf
      · rename_i hm; cases hf; exact ⟨hm, snr, rfl⟩
      · cases hf
    · cases hf
  have hsj : specJoin rx1 rx2 = some j → j.micOk = true ∧ ((∃ snr, rx1 = some (.joinAccept j, snr)) ∨ (∃ snr, rx2 = some (.joinAccept j, snr))) := by
    intro hs
    unfold specJoin at hs
    cases h1 : joinAcc rx1 with
    | some j1 => rw [h1] at hs; cases hs; exact ⟨(hacc rx1 h1).1, Or.inl (hacc rx1 h1).2⟩
    | none => rw [h1] at hs; exact ⟨(hacc rx2 hs).1, Or.inr (hacc rx2 hs).2⟩
  unfold joinRes at h
  cases fault with
  | none => exact hsj h
  | some k =>
    simp only at h
    unfold specJoinFaulted at h
    match k with
    | 0 => cases h
    | 1 => exact ⟨(hacc rx1 h).1, Or.inl (hacc rx1 h).2⟩
    | k + 2 => exact hsj h

/-- **what a join attempt leaves behind**, `m` the state before it (joined, joining or fresh):
a JoinRequest with a fresh DevNonce goes out; if an authentic JoinAccept `j` was heard in a window the
procedure served (RX1, else RX2), the device holds EXACTLY the session `j` defines — `Session.new` of
the assigned address and the keys derived for this DevNonce, counters restarted, nothing pending —
with `j`'s RX delay, DLSettings and CFList applied when the region defines them (`accept_spec`) and
every other parameter as before; otherwise it reports `NoJoinAccept`, is NOT joined (the previous
session, if any, is gone: `join_otaa` dropped it) and its configuration is untouched. -/
def JoinStep {σ} (g : Rng σ) (m : MacState) (rs : σ) (fault : Option Nat) (rx1 rx2 : Option (RxView × Int))
    (m' : MacState) (out : Out) : Prop :=
  ∃ jo m1 rs1, macJoinOtaa g m rs = .ok (jo, m1, rs1) ∧ m1.st = .otaa { devNonce := jo.devNonce } ∧ m1.cfg = m.cfg ∧
    match joinRes fault rx1 rx2 with
    | some j =>
      j.micOk = true ∧ ((∃ snr, rx1 = some (.joinAccept j, snr)) ∨ (∃ snr, rx2 = some (.joinAccept j, snr))) ∧
      otaaAccept m1 j = .ok m' ∧ m'.st = .joined (Session.new j.devAddr j.nwkKey j.appKey) ∧
      out = .join jo (if fault.isSome then none else some .joinSuccess)
    | none => m' = m1 ∧ out = .join jo (if fault.isSome then none else some .noJoinAccept)

theorem step_join {σ} (g : Rng σ) (m m' : MacState) (rs rs' : σ) (fault : Option Nat) (rx1 rx2 : Option (RxView × Int))
    (mp1 mp2 : Nat) (out : Out) (h : step g (m, rs) (.joinOtaa fault rx1 rx2 mp1 mp2) = .ok ((m', rs'), out)) :
    JoinStep g m rs fault rx1 rx2 m' out := by
  obtain ⟨jo, m1, o, hj, hst1, hcfg, ht⟩ := step_joinOtaa_inv g m m' rs rs' fault rx1 rx2 mp1 mp2 out h
  obtain ⟨hn, hst1'⟩ := join_nonce g m rs jo m1 rs' hj
  refine ⟨jo, m1, rs', hj, hst1', hcfg, ?_⟩
  cases hr : joinRes fault rx1 rx2 with
  | none => simp only [hr] at ht ⊢; exact ht
  | some j =>
    simp only [hr] at ht ⊢
    obtain ⟨hm, hh⟩ := joinRes_heard hr
    exact ⟨hm, hh, ht.1, (accept_spec m1 j m' ht.1).1, ht.2⟩

/-- **C11 over every history**: at EVERY join attempt of every history — after any number of failed
attempts, from a joined state, after radio faults — `JoinStep` holds between the state before and
the state after. -/
theorem history_join {σ} (g : Rng σ) (m : MacState) (rs : σ) (evs : List Ev) (ms' : MacState × σ) (outs : List Out)
    (h : run g (m, rs) evs = .ok (ms', outs)) (i : Nat) (fault : Option Nat) (rx1 rx2 : Option (RxView × Int)) (mp1 mp2 : Nat)
    (out : Out) (hi : (evs.zip outs)[i]? = some (.joinOtaa fault rx1 rx2 mp1 mp2, out)) :
    ∃ mi rsi mi' rsi', Chain g (m, rs) ((evs.zip outs).take i) (mi, rsi) ∧
      Chain g (mi', rsi') ((evs.zip outs).drop (i + 1)) ms' ∧ JoinStep g mi rsi fault rx1 rx2 mi' out := by
  have hc := run_chain g (m, rs) ms' evs outs h
  obtain ⟨⟨mi, rsi⟩, ⟨mi', rsi'⟩, h1, hstep, h2⟩ := chain_at g (m, rs) ms' (evs.zip outs) i _ out hc hi
  exact ⟨mi, rsi, mi', rsi', h1, h2, step_join g mi mi' rsi rsi' fault rx1 rx2 mp1 mp2 out hstep⟩

/-! non-vacuity: a failed attempt, then a join accepted in RX2, then a re-join from the joined state
that fails: the device is not joined any more -/
def lcg : Rng Nat := fun x => ((x * 1103515245 + 12345) / 65536, x * 1103515245 + 12345)
def jaOk : Option (RxView × Int) := some (.joinAccept ja, 3)
def jaBad : Option (RxView × Int) := some (.joinAccept { ja with micOk := false }, 3)
def demoHistory : List Ev :=
  [ .joinOtaa none jaBad none 250 250, .joinOtaa none none jaOk 250 250, .uplink [1] 1 false none none none 51 51,
    .joinOtaa (some 1) none jaOk 250 250, .uplink [2] 1 false none none none 51 51 ]

def respOf : Out → String
  | .join _ (some .joinSuccess) => "JoinSuccess"
  | .join _ (some .noJoinAccept) => "NoJoinAccept"
  | .join _ none => "radio error"
  | .up _ _ _ => "uplink"
  | .notJoined => "not joined"
  | _ => ""

example : (run lcg (MacState.init (RegionState.init .EU868) 14 0, 1) demoHistory).toOption.map (fun r => r.2.map respOf) =
    some ["NoJoinAccept", "JoinSuccess", "uplink", "radio error", "not joined"] := by decide +kernel

/-! ## extended histories (`Model/HistoryC.lean`): the join procedure of the async front-end, both classes

A Class C device listens on the RXC parameters while it waits for RX1 and RX2 of a join procedure as
well.  Whatever it hears there (`c1`, `c2`: any frames) plays no part (`stepC_joinC_plain`): the
procedure is the plain `joinOtaa` with the fault position `joinFaultC` (radio faults only), so
`JoinStep` holds of it. -/

theorem stepC_join {σ} (g : Rng σ) (m m' : MacState) (rs rs' : σ) (cc : Bool) (fault : Option FaultPos)
    (c1 : List (RxView × Int)) (rx1 : Option (RxView × Int)) (c2 : List (RxView × Int)) (rx2 : Option (RxView × Int)) (out : OutC)
    (h : stepC g (m, rs) (.joinC cc fault c1 rx1 c2 rx2) = .ok ((m', rs'), out)) :
    JoinStep g m rs (joinFaultC fault rx1) rx1 rx2 m' out.out :=
  step_join g m m' rs rs' _ rx1 rx2 0 0 out.out (stepC_joinC_plain g _ _ cc fault c1 rx1 c2 rx2 out h).1

/-- **C11 over every extended history**: at EVERY join procedure of every extended history — either
class, whatever is heard on the RXC parameters between the windows, after any number of failed
attempts, from a joined state, after radio faults — `JoinStep` holds between the state before and the
state after: joined exactly upon an authentic JoinAccept heard in a served window, with exactly the
session it defines; otherwise `NoJoinAccept` (or the radio error), not joined, configuration untouched. -/
theorem historyC_join {σ} (g : Rng σ) (m : MacState) (rs : σ) (evs : List EvC) (ms' : MacState × σ) (outs : List OutC)
    (h : runC g (m, rs) evs = .ok (ms', outs)) (i : Nat) (mpc : Nat) (cc : Bool) (fault : Option FaultPos)
    (c1 : List (RxView × Int)) (rx1 : Option (RxView × Int)) (c2 : List (RxView × Int)) (rx2 : Option (RxView × Int)) (out : OutC)
    (hi : ((annotC g (m, rs) evs).zip outs)[i]? = some ((mpc, .joinC cc fault c1 rx1 c2 rx2), out)) :
    ∃ mi rsi mi' rsi', ChainC g (m, rs) (((annotC g (m, rs) evs).zip outs).take i) (mi, rsi) ∧
      ChainC g (mi', rsi') (((annotC g (m, rs) evs).zip outs).drop (i + 1)) ms' ∧
      JoinStep g mi rsi (joinFaultC fault rx1) rx1 rx2 mi' out.out := by
  have hc := runC_chain g (m, rs) ms' evs outs h
  obtain ⟨⟨mi, rsi⟩, ⟨mi', rsi'⟩, h1, _, hstep, h2⟩ := chainC_at g (m, rs) ms' _ i _ out hc hi
  exact ⟨mi, rsi, mi', rsi', h1, h2, stepC_join g mi mi' rsi rsi' cc fault c1 rx1 c2 rx2 out hstep⟩

/-- **C11 on the async front-end, for EVERY script, both classes**: a session that returns is a run of
its extended history (outputs = the front-end's answers, `ObsRel`), and `JoinStep` holds at every join
procedure of it -/
theorem asyncC_join {σ} (g : Rng σ) (cfg : DevCfg) (d : DevRun) (rs : σ) (ops : List AsyncOp)
    (obs : List OpObs) (d' : DevRun) (rs' : σ) (h : asyncOps g cfg d rs ops = .ok (obs, d', rs')) :
    ∃ outs, runC g (d.m, rs) (abstractSessionC cfg ops) = .ok ((d'.m, rs'), outs) ∧ AllRel ObsRel obs outs ∧
      ∀ i mpc cc fault c1 rx1 c2 rx2 out,
        ((annotC g (d.m, rs) (abstractSessionC cfg ops)).zip outs)[i]? = some ((mpc, .joinC cc fault c1 rx1 c2 rx2), out) →
        ∃ mi rsi mi', ChainC g (d.m, rs) (((annotC g (d.m, rs) (abstractSessionC cfg ops)).zip outs).take i) (mi, rsi) ∧
          JoinStep g mi rsi (joinFaultC fault rx1) rx1 rx2 mi' out.out := by
  obtain ⟨outs, hrun, hobs⟩ := asyncOps_runC g cfg d rs ops obs d' rs' h
  refine ⟨outs, hrun, hobs, ?_⟩
  intro i mpc cc fault c1 rx1 c2 rx2 out hi
  obtain ⟨mi, rsi, mi', rsi', h1, _, hj⟩ := historyC_join g d.m rs _ _ outs hrun i mpc cc fault c1 rx1 c2 rx2 out hi
  exact ⟨mi, rsi, mi', h1, hj⟩

/-! non-vacuity: a Class C device; a failed attempt with noise between the windows, then a join accepted
in RX2 although frames were heard on the RXC parameters before RX1 and before RX2 -/
def demoHistoryC : List EvC :=
  [ .joinC true none [(.garbage, 0)] jaBad [] none,
    .joinC true none [(.garbage, 0), (.joinAccept ja, 1)] none [(.garbage, 2)] jaOk,
    .uplinkC true [1] 1 false none [] none [] none ]

example : (runC lcg (MacState.init (RegionState.init .EU868) 14 0, 1) demoHistoryC).toOption.map (fun r => r.2.map (fun o => respOf o.out)) =
    some ["NoJoinAccept", "JoinSuccess", "uplink"] := by decide +kernel

end C11

#print axioms C11.accept_spec
#print axioms C11.joined_iff_mic
#print axioms C11.no_accept
#print axioms C11.send_refused_while_joining
#print axioms C11.join_nonce
#print axioms C11.join_request_bytes
#print axioms C11.join_accept_decode
#print axioms C11.join_accept_fields
#print axioms C11.session_keys
#print axioms C11.step_join
#print axioms C11.history_join
#print axioms C11.stepC_join
#print axioms C11.historyC_join
#print axioms C11.asyncC_join
