import LoraVerif.Model.Mac
import LoraVerif.Lemmas.ExceptLemmas
import LoraVerif.Props.C11Codec
/-!
# C11 — OTAA join establishes exactly the session the JoinAccept defines

On the MAC model (the JoinAccept arrives as the reference codec's view `RxJoinAccept`; the byte
layout, MIC and key derivation themselves are theorems on the codec model — `Props/C11Codec.lean`:
`join_request_bytes`, `join_accept_decode`, `join_accept_fields`, `session_keys` — and are also
checked against the LoRaWAN §6.2 formulas by the C11 correspondence oracle):
* `joined_iff_mic`: while a join is in progress a received frame makes the device joined exactly
  when it is a JoinAccept whose MIC verifies under the root key; anything else changes nothing;
* `accept_spec`: the new session carries the assigned address, both counters restarted
  (`fcnt_up = 0`, no downlink yet), no pending answers; the RX delay is the one of the accept
  (0 and 1 = one second); RX1DROffset and RX2 data rate are applied when the region defines them and
  left alone when not; the CFList goes through `processJoinAccept` (type 0 only to dynamic plans and
  only in-band frequencies — `C09.joinAccept_chanInv` —, type 1 only to fixed plans);
* `no_accept`: without such a frame the attempt ends in `NoJoinAccept` and the device stays unjoined;
* `join_nonce`: the DevNonce of the request is the low 16 bits of the draw and is what the session
  derivation will use.
-/
open Model Gen.Region

namespace C11

theorem processJoinAccept_id (rs : RegionState) (cf : Option CfList) (rs' : RegionState)
    (h : processJoinAccept rs cf = .ok rs') : rs'.id = rs.id := by
  unfold processJoinAccept at h
  cases hp : rs.plan with
  | dyn p =>
    cases cf with
    | none => simp only [hp, pure, Except.pure, Except.ok.injEq] at h; subst h; rfl
    | some c =>
      cases c with
      | fixedChannel mk => simp only [hp, pure, Except.pure, Except.ok.injEq] at h; subst h; rfl
      | dynamicChannel fs =>
        simp only [hp] at h
        obtain ⟨chans, _, h⟩ := Except.bind_eq_ok h
        simp only [pure, Except.pure, Except.ok.injEq] at h; subst h; rfl
  | fix p =>
    cases cf with
    | none => simp only [hp, pure, Except.pure, Except.ok.injEq] at h; subst h; rfl
    | some c =>
      cases c with
      | fixedChannel mk => simp only [hp, pure, Except.pure, Except.ok.injEq] at h; subst h; rfl
      | dynamicChannel fs => simp only [hp, pure, Except.pure, Except.ok.injEq] at h; subst h; rfl

theorem accept_spec (m : MacState) (j : RxJoinAccept) (m' : MacState) (h : otaaAccept m j = .ok m') :
    m'.st = .joined (Session.new j.devAddr j.nwkKey j.appKey) ∧
    processJoinAccept m.region j.cfList = .ok m'.region ∧
    delToDelayMs (j.rxDelay % 16) = .ok m'.cfg.rx1Delay ∧
    m'.cfg.rx1DrOffset = (if (j.dlSettings / 16) % 8 ≤ maxRx1DrOffset m.region.id then (j.dlSettings / 16) % 8 else m.cfg.rx1DrOffset) ∧
    m'.cfg.rx2DataRate = (if (getDatarate m.region.id (j.dlSettings % 16)).isSome then some (j.dlSettings % 16) else m.cfg.rx2DataRate) ∧
    m'.cfg.dataRate = m.cfg.dataRate ∧ m'.cfg.txPower = m.cfg.txPower ∧ m'.cfg.rx2Frequency = m.cfg.rx2Frequency ∧
    m'.cfg.adrEnabled = m.cfg.adrEnabled ∧ m'.maxPower = m.maxPower ∧ m'.antennaGain = m.antennaGain := by
  unfold otaaAccept at h
  obtain ⟨region, hreg, h⟩ := Except.bind_eq_ok h
  obtain ⟨d, hd, h⟩ := Except.bind_eq_ok h
  simp only [pure, Except.pure, Except.ok.injEq] at h
  subst h
  have hid : region.id = m.region.id := processJoinAccept_id _ _ _ hreg
  refine ⟨rfl, hreg, ?_, ?_, ?_, ?_, ?_, ?_, ?_, rfl, rfl⟩
  all_goals
    simp only [rx1DrOffsetValidate, hid]
    by_cases ho : (j.dlSettings / 16) % 8 ≤ maxRx1DrOffset m.region.id <;>
      by_cases hr : (getDatarate m.region.id (j.dlSettings % 16)).isSome = true <;> simp [ho, hr, hd]

/-- the fresh session: address assigned, counters restarted, nothing pending -/
theorem new_session (a n k : Nat) :
    (Session.new a n k).devAddr = a ∧ (Session.new a n k).fcntUp = 0 ∧ (Session.new a n k).fcntDown = none ∧
    (Session.new a n k).pending = [] ∧ (Session.new a n k).ackOwed = false ∧ (Session.new a n k).adrAckCnt = 0 :=
  ⟨rfl, rfl, rfl, rfl, rfl, rfl⟩

/-- joined exactly upon an authentic JoinAccept -/
theorem joined_iff_mic (m : MacState) (o : OtaaState) (hst : m.st = .otaa o) (v : RxView) (mp : Nat) (snr : Int)
    (out : Option RxOut) (m' : MacState) (h : macHandleRx m v mp snr false = .ok (out, m')) :
    ((∃ s, m'.st = .joined s) ↔ ∃ j, v = .joinAccept j ∧ j.micOk = true) ∧
    ((¬ ∃ j, v = .joinAccept j ∧ j.micOk = true) → m' = m ∧ out = some { resp := .noUpdate, downlink := none }) := by
  unfold macHandleRx at h
  simp only [hst, Bool.false_eq_true, if_false] at h
  cases v with
  | garbage =>
    simp only [pure, Except.pure, Except.ok.injEq, Prod.mk.injEq] at h
    obtain ⟨rfl, rfl⟩ := h
    simp [hst]
  | data d =>
    simp only [pure, Except.pure, Except.ok.injEq, Prod.mk.injEq] at h
    obtain ⟨rfl, rfl⟩ := h
    simp [hst]
  | joinAccept j =>
    by_cases hm : j.micOk = true
    · simp only [hm, if_true] at h
      obtain ⟨m1, hacc, h⟩ := Except.bind_eq_ok h
      simp only [pure, Except.pure, Except.ok.injEq, Prod.mk.injEq] at h
      obtain ⟨rfl, rfl⟩ := h
      have := (accept_spec m j m1 hacc).1
      constructor
      · constructor
        · intro _; exact ⟨j, rfl, hm⟩
        · intro _; exact ⟨_, this⟩
      · intro hn; exact absurd ⟨j, rfl, hm⟩ hn
    · simp only [hm, Bool.false_eq_true, if_false, pure, Except.pure, Except.ok.injEq, Prod.mk.injEq] at h
      obtain ⟨rfl, rfl⟩ := h
      constructor
      · constructor
        · intro ⟨s, hs⟩; rw [hst] at hs; cases hs
        · intro ⟨j', hj', hm'⟩; cases hj'; exact absurd hm' hm
      · intro _; exact ⟨rfl, rfl⟩

/-- no JoinAccept: `NoJoinAccept`, still unjoined, nothing changed; and a `send` is refused -/
theorem no_accept (m : MacState) (o : OtaaState) (hst : m.st = .otaa o) :
    macRx2Complete m = (.noJoinAccept, m) := by
  unfold macRx2Complete; simp [hst]

theorem send_refused_while_joining {σ} (g : Rng σ) (m : MacState) (o : OtaaState) (hst : m.st = .otaa o)
    (data : List Nat) (port : Nat) (conf : Bool) (rs : σ) : macSend g m data port conf rs = .ok (none, m, rs) := by
  unfold macSend; simp [hst, pure, Except.pure]

/-- the JoinRequest carries the low 16 bits of the draw as DevNonce and the MAC remembers it -/
theorem join_nonce {σ} (g : Rng σ) (m : MacState) (rs : σ) (out : JoinOut) (m' : MacState) (rs' : σ)
    (h : macJoinOtaa g m rs = .ok (out, m', rs')) :
    out.devNonce = (draw g rs).1 % 65536 ∧ m'.st = .otaa { devNonce := out.devNonce } := by
  unfold macJoinOtaa at h
  simp only at h
  obtain ⟨dr, _, h⟩ := Except.bind_eq_ok h
  obtain ⟨⟨tx, region, rs1⟩, _, h⟩ := Except.bind_eq_ok h
  obtain ⟨pw, _, h⟩ := Except.bind_eq_ok h
  obtain ⟨⟨r1, r2⟩, _, h⟩ := Except.bind_eq_ok h
  simp only [pure, Except.pure, Except.ok.injEq, Prod.mk.injEq] at h
  obtain ⟨rfl, rfl, rfl⟩ := h
  exact ⟨rfl, rfl⟩

/-! non-vacuity -/
def mOtaa : MacState := { MacState.init (RegionState.init .EU868) 14 0 with st := .otaa { devNonce := 7 } }
def ja : RxJoinAccept := { micOk := true, devAddr := 0x01020304, dlSettings := 0x23, rxDelay := 5, cfList := none, nwkKey := 3, appKey := 4 }
example : ((otaaAccept mOtaa ja).toOption.map (fun m => (m.cfg.rx1Delay, m.cfg.rx1DrOffset, m.cfg.rx2DataRate))) = some (5000, 2, some 3) := by decide
example : ((otaaAccept mOtaa { ja with dlSettings := 0x7F }).toOption.map (fun m => (m.cfg.rx1DrOffset, m.cfg.rx2DataRate))) = some (0, none) := by decide

end C11

#print axioms C11.accept_spec
#print axioms C11.joined_iff_mic
#print axioms C11.no_accept
#print axioms C11.send_refused_while_joining
#print axioms C11.join_nonce
#print axioms C11.join_request_bytes
#print axioms C11.join_accept_decode
#print axioms C11.join_accept_fields
#print axioms C11.session_keys
