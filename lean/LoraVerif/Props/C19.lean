import LoraVerif.Gen.CmdTables
import LoraVerif.Model.MacCmdCreators
import LoraVerif.Model.HexText
import LoraVerif.Spec.MacCmdSpec
import LoraVerif.Spec.HexTextSpec
/-!
# C19 — MAC-command builders, parsers and identifier text forms round-trip
(under construction: first the known finding)
-/
open MacCmd

namespace C19

def idCipher : Cipher := { enc := id, dec := id }

/-- the entry of DeviceTimeAns in the generated downlink table -/
def deviceTimeAns : Entry := { cid := 13, len := some 5, variant := "DeviceTimeAns", payload := "DeviceTimeAnsPayload" }

theorem deviceTimeAns_in_table : deviceTimeAns ∈ Table.ofRows Gen.CmdTables.downlinkMacCommand := by decide

/-- **Known finding C19-devicetime-seconds.** Building DeviceTimeAns with seconds = 0x01020304 and reading the
field back through the parser's accessor gives 0x04030201: the creator writes little-endian, the accessor reads
most-significant-byte first. -/
theorem c19_devicetime_counterexample :
    (buildWith idCipher deviceTimeAns [("set_seconds", .n 0x01020304)]) = .ok ([.ok], [13, 4, 3, 2, 1, 0]) ∧
    (accDeviceTimeAns [4, 3, 2, 1, 0]).head? = some ("seconds", .ok (.n 0x04030201)) := by
  constructor <;> decide

end C19

#print axioms C19.c19_devicetime_counterexample
