import LoraVerif.Gen.CmdTables
import LoraVerif.Lemmas.MacCmdSetAgree
import LoraVerif.Lemmas.MacCmdBuild
import LoraVerif.Lemmas.MacCmdGrowing
import LoraVerif.Lemmas.HexTextLemmas
import LoraVerif.Lemmas.FieldAlgebra
/-!
# C19 — MAC-command builders, parsers and identifier text forms round-trip

Structure of the argument (model = `Model/MacCmdCreators`, `Model/MacCmdFields`, `Model/MacCmd`, `Model/HexText`;
specification = `Spec/MacCmdSpec` field layouts, `Spec/HexTextSpec`):

* **(S)** in the specification a command payload is one little-endian number and a setter replaces one bit
  field; `field_read_back`, `neighbours_undisturbed`, `fields_last_write`, `fields_untouched` prove, for ALL payloads,
  field positions and values, and for arbitrary sequences of writes, that a field reads back as the last
  value written to it reduced to the field width and that no other field changes;
* **(B)** every setter of every fixed-length creator, as coded, refines the specification's setter on every
  reachable creator state (`MacCmd.set_*` in `Lemmas/MacCmdSetAgree`, 47 lemmas: same verdict — refusal of
  out-of-range values for the fallible setters —, same payload, no panic);
* **(C)** every accessor of every payload type, as coded, returns the specification's field value on every
  payload of the table's length (`MacCmd.acc_*` in `Lemmas/MacCmdAccAgree`, 32 lemmas), except
  `DeviceTimeAnsPayload::seconds` — **known finding**, `c19_devicetime_counterexample`, `devicetime_partial`;
* the composition (B)+(C) is spelled out for LinkADRReq (`linkADRReq_step_roundtrip`);
* **sequences**: `parse_buildSeq`, `build_mac_commands_writes_concatenation`, framing lemmas for the six generated tables;
* **text forms**: `newtype_text_roundtrip`, `key_text_roundtrip`, `eui_text_roundtrip` and equality with MSB-first hex.

The two growing creators are treated on their own invariants: `echo_builder` (any state: built bytes = CID ‖ first 241 octets
each + 1 = the specification's answer) and `group_status_builder` (`push` refuses ids ≥ 4 and repeated groups, otherwise
appends the item and sets the mask bit; `nb_total_groups` touches only its three bits; `build` returns CID, status and the
items; nothing panics).  Not proved, correspondence only: that the items accessor of a parsed McGroupStatusAns returns the
pushed (id, address) pairs in order for an arbitrary number of pushes (the accessor side is (C) for 0..4 items).
-/
set_option linter.unusedSimpArgs false
open MacCmd

namespace C19

/-! ## (S) the specification's field algebra -/

/-- reading back the field just written gives the value reduced to the field width ("truncated to the field") -/
theorem field_read_back (p : Spec.MacCmd.Bytes) (lo w v : Nat) (h : lo + w ≤ 8 * p.length) :
    Spec.MacCmd.field (Spec.MacCmd.setFieldBytes p lo w v) lo w = v % 2 ^ w :=
  Spec.MacCmd.field_setFieldBytes_same p lo w v h

/-- a write never disturbs a field it does not overlap -/
theorem neighbours_undisturbed (p : Spec.MacCmd.Bytes) (lo w v lo' w' : Nat) (hd : lo + w ≤ lo' ∨ lo' + w' ≤ lo)
    (h : lo' + w' ≤ 8 * p.length) :
    Spec.MacCmd.field (Spec.MacCmd.setFieldBytes p lo w v) lo' w' = Spec.MacCmd.field p lo' w' :=
  Spec.MacCmd.field_setFieldBytes_other p lo w v lo' w' hd h

/-- after ANY sequence of writes a field holds the last value written to it (mod its width), if the later writes do not overlap it -/
theorem fields_last_write (p : Spec.MacCmd.Bytes) (pre post : List (Nat × Nat × Nat)) (lo w v : Nat)
    (hfit : lo + w ≤ 8 * p.length) (h : ∀ c ∈ post, c.1 + c.2.1 ≤ lo ∨ lo + w ≤ c.1) :
    Spec.MacCmd.field (Spec.MacCmd.applyAll p (pre ++ (lo, w, v) :: post)) lo w = v % 2 ^ w :=
  Spec.MacCmd.field_applyAll_last p pre post lo w v hfit h

/-- a field no write overlaps keeps its value through ANY sequence of writes -/
theorem fields_untouched (p : Spec.MacCmd.Bytes) (cs : List (Nat × Nat × Nat)) (lo w : Nat) (hfit : lo + w ≤ 8 * p.length)
    (h : ∀ c ∈ cs, c.1 + c.2.1 ≤ lo ∨ lo + w ≤ c.1) :
    Spec.MacCmd.field (Spec.MacCmd.applyAll p cs) lo w = Spec.MacCmd.field p lo w :=
  Spec.MacCmd.field_applyAll_untouched p cs lo w hfit h

/-- the fields of every command of the specification's layout tables do not overlap each other unless they are the
same setter's field (checked over `Spec.MacCmd.fieldSetters`): distinct setters of one command write disjoint or
identical bit ranges -/
theorem setter_fields_disjoint_or_equal :
    ∀ name ∈ ["LinkCheckAns", "LinkADRReq", "LinkADRAns", "DutyCycleReq", "RXParamSetupReq", "RXParamSetupAns", "DevStatusAns",
        "NewChannelReq", "NewChannelAns", "RXTimingSetupReq", "TXParamSetupReq", "DlChannelReq", "DlChannelAns", "DeviceTimeAns",
        "DutVersionsAns", "RxAppCntAns", "PackageVersionAns", "McGroupStatusReq", "McGroupSetupReq", "McGroupSetupAns",
        "McGroupDeleteReq", "McGroupDeleteAns", "McGroupStatusAns"],
      ∀ a ∈ Spec.MacCmd.fieldSetters name, ∀ b ∈ Spec.MacCmd.fieldSetters name,
        (a.2.1 = b.2.1 ∧ a.2.2.1 = b.2.2.1) ∨ a.2.1 + a.2.2.1 ≤ b.2.1 ∨ b.2.1 + b.2.2.1 ≤ a.2.1 := by
  decide

/-! ## the payload lengths the agreement lemmas are stated for are the generated ones -/

/-- payload length used by the `MacCmd.acc_*` / `MacCmd.set_*` lemmas, by payload type -/
def arity : String → Option Nat
  | "LinkCheckAnsPayload" => some 2 | "LinkADRReqPayload" => some 4 | "DutyCycleReqPayload" => some 1
  | "RXParamSetupReqPayload" => some 4 | "NewChannelReqPayload" => some 5 | "RXTimingSetupReqPayload" => some 1
  | "TXParamSetupReqPayload" => some 1 | "DlChannelReqPayload" => some 4 | "DeviceTimeAnsPayload" => some 5
  | "LinkADRAnsPayload" => some 1 | "RXParamSetupAnsPayload" => some 1 | "DevStatusAnsPayload" => some 2
  | "NewChannelAnsPayload" => some 1 | "DlChannelAnsPayload" => some 1 | "AdrBitChangeReqPayload" => some 1
  | "TxPeriodicityChangeReqPayload" => some 1 | "RxAppCntAnsPayload" => some 2 | "DutVersionsAnsPayload" => some 12
  | "McGroupStatusReqPayload" => some 1 | "McGroupSetupReqPayload" => some 29 | "McGroupDeleteReqPayload" => some 1
  | "PackageVersionAnsPayload" => some 2 | "McGroupSetupAnsPayload" => some 1 | "McGroupDeleteAnsPayload" => some 1
  | _ => none

theorem lemma_lengths_are_generated : ∀ s ∈ Gen.CmdTables.allSets, ∀ r ∈ s.2,
    ∀ n, arity r.2.2.2 = some n → r.2.1 = some n := by decide

/-! ## (B)+(C) composed: one step of LinkADRReq -/

theorem toLe4 (x : Nat) : Spec.MacCmd.toLe 4 x = [x % 256, x / 256 % 256, x / 256 / 256 % 256, x / 256 / 256 / 256 % 256] := by
  simp [Spec.MacCmd.toLe]

/-- For every reachable LinkADRReq creator state and every call of each of its four setters: the setter returns, agrees with the
specification's setter (verdict and payload), and the parser's accessors on the new payload are the specification's
fields of it — so by (S) the written field reads back truncated and the other fields are unchanged. -/
theorem linkADRReq_step_roundtrip (wrap : Bytes → Bytes) (cid b0 b1 b2 b3 : Nat)
    (h0 : b0 < 256) (h1 : b1 < 256) (h2 : b2 < 256) (h3 : b3 < 256) :
    ∀ call : String × Arg,
      (∃ v, v < 256 ∧ (call = ("set_data_rate", .n v) ∨ call = ("set_tx_power", .n v) ∨ call = ("set_redundancy", .n v))) ∨
      (∃ c0 c1, c0 < 256 ∧ c1 < 256 ∧ call = ("set_channel_mask", .bytes [c0, c1])) →
      ∃ r p', setLinkADRReq { data := cid :: [b0, b1, b2, b3], count := 0 } call.1 call.2 = .ok (r, { data := cid :: p', count := 0 }) ∧
        Spec.MacCmd.applySetter wrap "LinkADRReq" [b0, b1, b2, b3] call.1
          (match call.2 with | .n v => .n v | .i v => .i v | .bytes b => .bytes b | .item i a => .item i a) = some (toSpecRes r, p') ∧
        AccAgree (accLinkADRReq p') (Spec.MacCmd.decLinkADRReq p') := by
  intro call hc
  have fin : ∀ (m : Outcome (SetRes × Creator)) (s : Option (Option String × Bytes)), SetAgree m cid s →
      (∀ r p', s = some (r, p') → ∃ c0 c1 c2 c3, p' = [c0, c1, c2, c3] ∧ c0 < 256 ∧ c1 < 256 ∧ c2 < 256 ∧ c3 < 256) →
      ∃ r p', m = .ok (r, { data := cid :: p', count := 0 }) ∧ s = some (toSpecRes r, p') ∧
        AccAgree (accLinkADRReq p') (Spec.MacCmd.decLinkADRReq p') := by
    intro m s ⟨r, p', hm, hs⟩ hshape
    obtain ⟨c0, c1, c2, c3, rfl, g0, g1, g2, g3⟩ := hshape _ _ hs
    exact ⟨r, _, hm, hs, acc_LinkADRReq c0 c1 c2 c3 g0 g1 g2 g3⟩
  -- the payload the specification's setter returns is the old one or four octets
  have shape : ∀ (lo w : Nat) (pol : Spec.MacCmd.Policy) (a : Spec.MacCmd.Arg) r p',
      Spec.MacCmd.applyField lo w pol [b0, b1, b2, b3] a = some (r, p') →
      ∃ c0 c1 c2 c3, p' = [c0, c1, c2, c3] ∧ c0 < 256 ∧ c1 < 256 ∧ c2 < 256 ∧ c3 < 256 := by
    intro lo w pol a r p' h
    have key : ∀ x, ∃ c0 c1 c2 c3, Spec.MacCmd.setFieldBytes [b0, b1, b2, b3] lo w x = [c0, c1, c2, c3] ∧ c0 < 256 ∧ c1 < 256 ∧ c2 < 256 ∧ c3 < 256 := by
      intro x
      refine ⟨_, _, _, _, by simp only [Spec.MacCmd.setFieldBytes, List.length_cons, List.length_nil]; exact toLe4 _, ?_, ?_, ?_, ?_⟩ <;> omega
    have old : ∃ c0 c1 c2 c3, [b0, b1, b2, b3] = [c0, c1, c2, c3] ∧ c0 < 256 ∧ c1 < 256 ∧ c2 < 256 ∧ c3 < 256 :=
      ⟨b0, b1, b2, b3, rfl, h0, h1, h2, h3⟩
    have num : ∀ v, (match pol with
        | .mask => some ((none : Option String), Spec.MacCmd.setFieldBytes [b0, b1, b2, b3] lo w v)
        | .refuse e => if v < 2 ^ w then some (none, Spec.MacCmd.setFieldBytes [b0, b1, b2, b3] lo w v)
                       else some (some e, [b0, b1, b2, b3])) = some (r, p') →
        ∃ c0 c1 c2 c3, p' = [c0, c1, c2, c3] ∧ c0 < 256 ∧ c1 < 256 ∧ c2 < 256 ∧ c3 < 256 := by
      intro v hv
      cases pol with
      | mask => simp only [Option.some.injEq, Prod.mk.injEq] at hv; obtain ⟨_, rfl⟩ := hv; exact key v
      | refuse e =>
        by_cases hlt : v < 2 ^ w
        · simp only [hlt, if_true, Option.some.injEq, Prod.mk.injEq] at hv; obtain ⟨_, rfl⟩ := hv; exact key v
        · simp only [hlt, if_false, Option.some.injEq, Prod.mk.injEq] at hv; obtain ⟨_, rfl⟩ := hv; exact old
    cases a with
    | n v => exact num v h
    | bytes b => exact num _ h
    | i v => simp [Spec.MacCmd.applyField] at h
    | item id addr => simp [Spec.MacCmd.applyField] at h
  rcases hc with ⟨v, hv, rfl | rfl | rfl⟩ | ⟨c0, c1, g0, g1, rfl⟩
  · exact fin _ _ (set_LinkADRReq_set_data_rate wrap cid b0 b1 b2 b3 v h0 h1 h2 h3 hv) (fun r p' h => shape 4 4 (.refuse "InvalidDataRate") (.n v) r p' h)
  · exact fin _ _ (set_LinkADRReq_set_tx_power wrap cid b0 b1 b2 b3 v h0 h1 h2 h3 hv) (fun r p' h => shape 0 4 (.refuse "InvalidTxPower") (.n v) r p' h)
  · exact fin _ _ (set_LinkADRReq_set_redundancy wrap cid b0 b1 b2 b3 v h0 h1 h2 h3 hv) (fun r p' h => shape 24 8 .mask (.n v) r p' h)
  · exact fin _ _ (set_LinkADRReq_set_channel_mask wrap cid b0 b1 b2 b3 c0 c1 h0 h1 h2 h3 g0 g1) (fun r p' h => shape 8 16 .mask (.bytes [c0, c1]) r p' h)

/-! ## the growing creators -/

/-- **EchoIncPayloadAnsCreator** in any state (also after an earlier, longer payload): `payload(b)` then `build()` gives the CID
followed by the first 241 octets of `b`, each incremented modulo 256 — exactly the specification's answer; a longer
argument is truncated, never a panic (fix C19-0002). -/
theorem echo_builder (cid : Nat) (tail : Bytes) (ht : tail.length = 241) (cnt : Nat) (b : Bytes) (wrap : Bytes → Bytes) (p : Bytes) :
    ∃ c', setEchoIncPayloadAns { data := cid :: tail, count := cnt } "payload" (.bytes b) = .ok (.ok, c') ∧
      c'.build eEcho = .ok (cid :: (b.take 241).map (fun x => (x + 1) % 256)) ∧
      (∃ tail', c'.data = cid :: tail' ∧ tail'.length = 241) ∧
      Spec.MacCmd.applySetter wrap "EchoIncPayloadAns" p "payload" (.bytes b) = some (none, (b.take 241).map (fun x => (x + 1) % 256)) :=
  echo_payload_build cid tail ht cnt b wrap p

/-- **McGroupStatusAnsCreator** on every reachable state (`GroupStatusInv`: 22 octets, `items` = bits set in AnsGroupMask; a fresh
creator satisfies it): `push` refuses group ids outside AnsGroupMask and groups already reported and changes nothing
(fix C19-0001), otherwise sets the mask bit and appends `id ‖ McAddr` after the items present, keeping the invariant;
`nb_total_groups` writes `v mod 8` into its three bits and nothing else; `build()` is CID ‖ status ‖ items. No panic. -/
theorem group_status_builder (c : Creator) (cid st : Nat) (area : Bytes) (inv : GroupStatusInv c cid st area) :
    (∀ id addr, addr.length = 4 →
      (id ≥ 4 ∨ (st &&& (1 <<< id) != 0) = true → setMcGroupStatusAns c "push" (.item id addr) = .ok (.err "InvalidIndex", c)) ∧
      (id < 4 → (st &&& (1 <<< id) != 0) = false →
        ∃ c', setMcGroupStatusAns c "push" (.item id addr) = .ok (.ok, c') ∧
          GroupStatusInv c' cid (st ||| (1 <<< id)) (area.take (c.count * 5) ++ (id :: addr) ++ area.drop (c.count * 5 + 5)))) ∧
    (∀ v, ∃ st', setMcGroupStatusAns c "nb_total_groups" (.n v) = .ok (.ok, { c with data := cid :: st' :: area }) ∧
      GroupStatusInv { c with data := cid :: st' :: area } cid st' area ∧ st' &&& 15 = st &&& 15 ∧ (st' >>> 4) &&& 7 = v % 8) ∧
    c.build eGroupStatus = .ok (cid :: st :: area.take (c.count * 5)) :=
  ⟨fun id addr ha => push_ok c cid st area inv id addr ha, fun v => nb_total_groups_ok c cid st area inv v,
   groupStatus_build c cid st area inv⟩

theorem group_status_fresh : ∃ c, Creator.new eGroupStatus = .ok c ∧ GroupStatusInv c 1 0 (List.replicate 20 0) := groupStatus_new

/-! ## DeviceTimeAns: the known finding -/

def idCipher : Cipher := { enc := id, dec := id }

/-- the entry of DeviceTimeAns in the generated downlink table -/
def deviceTimeAns : Entry := { cid := 13, len := some 5, variant := "DeviceTimeAns", payload := "DeviceTimeAnsPayload" }

theorem deviceTimeAns_in_table : deviceTimeAns ∈ Table.ofRows Gen.CmdTables.downlinkMacCommand := by decide

/-- **Known finding C19-devicetime-seconds.** Building DeviceTimeAns with seconds = 0x01020304 and reading the
field back through the parser's accessor gives 0x04030201: the creator writes little-endian (as the specification
says, `set_DeviceTimeAns_set_seconds`), the accessor reads most-significant-octet first.

Full statement that therefore does NOT hold:
`∀ s < 2^32, accessor seconds (payload (build [set_seconds s])) = s`. -/
theorem c19_devicetime_counterexample :
    (buildWith idCipher deviceTimeAns [("set_seconds", .n 0x01020304)]) = .ok ([.ok], [13, 4, 3, 2, 1, 0]) ∧
    (accDeviceTimeAns [4, 3, 2, 1, 0]).head? = some ("seconds", .ok (.n 0x04030201)) ∧
    (Spec.MacCmd.decDeviceTimeAns [4, 3, 2, 1, 0]).head? = some ("seconds", .n 0x01020304) := by
  refine ⟨by decide, by decide, by decide⟩

/-- **devicetime_partial.** Everything about DeviceTimeAns except that one accessor: both setters refine the specification
(seconds little-endian, fractional second in 1/256 s, refusal above 10^9 ns), the `nano_seconds` accessor is the
specification's field, and the `seconds` accessor is characterised exactly (the four octets read most significant first). -/
theorem devicetime_partial (wrap : Bytes → Bytes) (cid b0 b1 b2 b3 b4 : Nat)
    (h0 : b0 < 256) (h1 : b1 < 256) (h2 : b2 < 256) (h3 : b3 < 256) (h4 : b4 < 256) :
    (∀ v, v < 4294967296 → SetAgree (setDeviceTimeAns { data := cid :: [b0, b1, b2, b3, b4], count := 0 } "set_seconds" (.n v)) cid
        (Spec.MacCmd.applySetter wrap "DeviceTimeAns" [b0, b1, b2, b3, b4] "set_seconds" (.n v))) ∧
    (∀ v, SetAgree (setDeviceTimeAns { data := cid :: [b0, b1, b2, b3, b4], count := 0 } "set_nano_seconds" (.n v)) cid
        (Spec.MacCmd.applySetter wrap "DeviceTimeAns" [b0, b1, b2, b3, b4] "set_nano_seconds" (.n v))) ∧
    AccAgree (accDeviceTimeAns [b0, b1, b2, b3, b4]).tail (Spec.MacCmd.decDeviceTimeAns [b0, b1, b2, b3, b4]).tail ∧
    (accDeviceTimeAns [b0, b1, b2, b3, b4]).head? = some ("seconds", .ok (.n (b3 + 256 * b2 + 65536 * b1 + 16777216 * b0))) ∧
    (Spec.MacCmd.decDeviceTimeAns [b0, b1, b2, b3, b4]).head? = some ("seconds", .n (b0 + 256 * b1 + 65536 * b2 + 16777216 * b3)) :=
  ⟨fun v hv => set_DeviceTimeAns_set_seconds wrap cid b0 b1 b2 b3 b4 v h0 h1 h2 h3 h4 hv,
   fun v => set_DeviceTimeAns_set_nano_seconds wrap cid b0 b1 b2 b3 b4 v h0 h1 h2 h3 h4,
   acc_DeviceTimeAns_partial b0 b1 b2 b3 b4 h0 h1 h2 h3 h4,
   acc_DeviceTimeAns_seconds b0 b1 b2 b3 b4,
   dec_DeviceTimeAns_seconds b0 b1 b2 b3 b4 h0 h1 h2 h3⟩

/-! ## sequences of commands -/

/-- **parse (buildSeq cs) = cs**, for any table: the iterator over the concatenated wire bytes of commands that are each
framed correctly in front of what follows yields exactly those commands, consumes everything, reports no error. -/
theorem parse_buildSeq (T : Table) (vl : VarLen) (cs : List Cmd) (h : AllFramed T vl cs) :
    run T vl (cs.map Cmd.wire).flatten =
      .ok { items := cs.map Item.cmd, final := { data := [], errored := false }, hang := false } :=
  run_flatten' cs h

/-- commands of fixed-length entries are framed correctly whatever follows (any table, any position) -/
theorem fixed_commands_framed (T : Table) (vl : VarLen) (c : Cmd) (e : Entry) (hl : T.lookup c.cid = some e)
    (hlen : e.len = some c.payload.length) (hv : c.variant = e.variant) (hp : c.payloadTy = e.payload) (tail : Bytes) :
    WellFramed T vl c tail :=
  wellFramed_fixed hl hlen hv hp tail

/-- a McGroupStatusAns is self-delimiting (status octet + 5 octets per reported group) -/
theorem group_status_framed (T : Table) (c : Cmd) (e : Entry) (hl : T.lookup c.cid = some e) (hlen : e.len = none)
    (hv : c.variant = e.variant) (hp : c.payloadTy = e.payload) (hty : e.payload = "McGroupStatusAnsPayload")
    (status : Nat) (items : Bytes) (hpl : c.payload = status :: items) (hil : items.length = mcGroupStatusRequiredLen status)
    (tail : Bytes) : WellFramed T varLen c tail :=
  wellFramed_groupStatus hl hlen hv hp hty status items hpl hil tail

/-- the TS009 commands without a length field round-trip in last position -/
theorem to_end_commands_framed_last (T : Table) (c : Cmd) (e : Entry) (hl : T.lookup c.cid = some e) (hlen : e.len = none)
    (hv : c.variant = e.variant) (hp : c.payloadTy = e.payload)
    (hty : e.payload = "TxFramesCtrlReqPayload" ∨ e.payload = "EchoIncPayloadReqPayload" ∨ e.payload = "EchoIncPayloadAnsPayload")
    (hne : c.payload ≠ []) : WellFramed T varLen c [] :=
  wellFramed_greedy hl hlen hv hp hty hne

/-- in the six generated tables every entry is found by its own CID (no earlier entry shadows it), so every command built
for an entry of these tables is framed by that entry -/
theorem six_sets_lookup_self : ∀ s ∈ Gen.CmdTables.allSets, ∀ e ∈ Table.ofRows s.2, (Table.ofRows s.2).lookup e.cid = some e := by
  decide

/-- **build_mac_commands** writes exactly the concatenation of the commands (`cid ‖ payload` each) to the front of the
buffer and returns its length, or refuses (`BufferTooShort`) when it does not fit; it never panics. -/
theorem build_mac_commands_writes_concatenation (cmds : List Bytes) (h : ∀ b ∈ cmds, b ≠ []) (out : Bytes) :
    buildMacCommands cmds out =
      if cmds.flatten.length > out.length then .ok none
      else .ok (some (cmds.flatten ++ out.drop cmds.flatten.length, cmds.flatten.length)) :=
  buildMacCommands_eq cmds h out

/-! ## text forms -/

/-- **fromStr (toString x) = x** for the seven `wire_value_newtype` identifiers (DevAddr, McAddr: 4 octets / u32;
DevEui, JoinEui: 8 / u64; DevNonce: 2 / u16; JoinNonce, NetId: 3 / u32): every value. -/
theorem newtype_text_roundtrip (n bits : Nat) (wire : HexText.Bytes) (hl : wire.length = n) (hn : 0 < n)
    (hb : HexText.IsBytes wire) (hbits : 8 * n ≤ bits) :
    HexText.newtypeFromStr n bits (HexText.newtypeToString wire) = some wire :=
  HexText.newtype_roundtrip n bits wire hl hn hb hbits

/-- and the printed form is the MSB-first hexadecimal of the specification: last wire octet first -/
theorem newtype_text_is_msb_first (wire : HexText.Bytes) (hb : HexText.IsBytes wire) :
    HexText.newtypeToString wire = Spec.HexText.ofWireLe wire := by
  rw [HexText.newtypeToString_eq wire hb, Spec.HexText.ofWireLe, HexText.msbFirst_eq _ hb.reverse]

/-- **fromStr (toString k) = k** for the nine 128-bit key types, and the text is the 16 octets in order -/
theorem key_text_roundtrip (k : HexText.Bytes) (hl : k.length = 16) (hb : HexText.IsBytes k) :
    HexText.keyFromStr (HexText.keyToString k) = .ok k ∧ HexText.keyToString k = Spec.HexText.ofKey k :=
  ⟨HexText.key_roundtrip k hl hb, by rw [HexText.keyToString, Spec.HexText.ofKey, HexText.msbFirst_eq _ hb]⟩

/-- **fromStr (toString e) = e** for keys::DevEui / keys::AppEui (stored LSB first, printed MSB first) -/
theorem eui_text_roundtrip (w : HexText.Bytes) (hl : w.length = 8) (hb : HexText.IsBytes w) :
    HexText.euiFromStr (HexText.euiToString w) = .ok w ∧ HexText.euiToString w = Spec.HexText.ofWireLe w :=
  ⟨HexText.eui_roundtrip w hl hb, by rw [HexText.euiToString, Spec.HexText.ofWireLe, HexText.msbFirst_eq _ hb.reverse]⟩

/-! ## Non-vacuity -/

example : HexText.newtypeToString [0x04, 0x03, 0x02, 0x01] = "01020304".toList := by decide
example : HexText.newtypeFromStr 4 32 "01020304".toList = some [0x04, 0x03, 0x02, 0x01] := by decide
example : HexText.euiToString [0xf0, 0xde, 0xbc, 0x9a, 0x78, 0x56, 0x34, 0x12] = "123456789abcdef0".toList := by decide
example : (buildWith idCipher ⟨3, some 4, "LinkADRReq", "LinkADRReqPayload"⟩
    [("set_data_rate", .n 5), ("set_tx_power", .n 3), ("set_channel_mask", .bytes [0xc7, 0x0b]), ("set_redundancy", .n 0x37),
     ("set_data_rate", .n 16)]) = .ok ([.ok, .ok, .ok, .ok, .err "InvalidDataRate"], [3, 0x53, 0xc7, 0x0b, 0x37]) := by decide
example : AllFramed (Table.ofRows Gen.CmdTables.uplinkMacCommand) varLen
    [⟨3, "LinkADRAns", "LinkADRAnsPayload", [7]⟩, ⟨2, "LinkCheckReq", "LinkCheckReqPayload", []⟩] := by
  refine ⟨?_, ?_, trivial⟩ <;> (unfold WellFramed; rfl)

end C19

#print axioms C19.field_read_back
#print axioms C19.neighbours_undisturbed
#print axioms C19.fields_last_write
#print axioms C19.fields_untouched
#print axioms C19.setter_fields_disjoint_or_equal
#print axioms C19.lemma_lengths_are_generated
#print axioms C19.linkADRReq_step_roundtrip
#print axioms C19.echo_builder
#print axioms C19.group_status_builder
#print axioms C19.group_status_fresh
#print axioms C19.c19_devicetime_counterexample
#print axioms C19.devicetime_partial
#print axioms C19.parse_buildSeq
#print axioms C19.fixed_commands_framed
#print axioms C19.group_status_framed
#print axioms C19.to_end_commands_framed_last
#print axioms C19.six_sets_lookup_self
#print axioms C19.build_mac_commands_writes_concatenation
#print axioms C19.newtype_text_roundtrip
#print axioms C19.newtype_text_is_msb_first
#print axioms C19.key_text_roundtrip
#print axioms C19.eui_text_roundtrip
