import LoraVerif.Model.Persist
import LoraVerif.Props.C05
/-!
# C20 — a persisted session restores losslessly and never rewinds counters

* `deser_ser`: for every session satisfying the type invariants, deserialising its serialisation
  yields a session equal in every field (keys, address, both counters incl. "no downlink yet", ADR
  counter, pending answers, owed ACK);
* `deser_wf`: whatever document is accepted, the resulting session satisfies the type invariants
  (in particular at most 15 pending bytes), so every operation on it is covered by the no-panic
  results of C04;
* `restored_same_uplink`, `restored_same_replay_verdict`: the model's operations are functions of
  the session, so the restored device emits the same next uplink and rejects exactly the same
  downlinks as the original.
-/
open Model

namespace C20

theorem take_append_replicate (l : List Nat) (k : Nat) : (l ++ List.replicate k 0).take l.length = l := by
  simp

theorem deser_ser (s : Session) (h : SessionWF s) : deser (ser s) = some s := by
  obtain ⟨hlen, hb, hup, hdown, hadr, hda⟩ := h
  unfold deser ser
  have h1 : (s.pending ++ List.replicate (15 - s.pending.length) 0).length = 15 := by
    simp; omega
  have h2 : (s.pending ++ List.replicate (15 - s.pending.length) 0).all (· < 256) = true := by
    simp only [List.all_append, Bool.and_eq_true, List.all_eq_true, decide_eq_true_eq]
    exact ⟨hb, by intro x hx; simp [List.mem_replicate] at hx; omega⟩
  have h3 : optU32 s.fcntDown = true := by
    cases hd : s.fcntDown with
    | none => rfl
    | some n => simp [optU32, u32, hdown n hd]
  simp only [h1, h2, h3, hlen, u32, hup, hadr, hda, decide_true, and_self, if_true, take_append_replicate]

theorem deser_wf (d : SessionDoc) (s : Session) (h : deser d = some s) : SessionWF s := by
  unfold deser at h
  split at h
  · rename_i hc
    obtain ⟨hl, hlen, hall, hup, hdown, hadr, hda⟩ := hc
    simp only [Option.some.injEq] at h
    subst h
    refine ⟨?_, ?_, ?_, ?_, ?_, ?_⟩
    · simp only [List.length_take]; omega
    · intro b hb
      have := List.mem_of_mem_take hb
      simp only [List.all_eq_true, decide_eq_true_eq] at hall
      exact hall b this
    · simpa [u32] using hup
    · intro n hn
      simp only at hn
      rw [hn] at hdown
      simpa [optU32, u32] using hdown
    · simpa [u32] using hadr
    · simpa [u32] using hda
  · cases h

/-- the restored device builds the same next uplink -/
theorem restored_same_uplink (s : Session) (h : SessionWF s) (cfg : Config) (r : RegionId) (data : List Nat) (port : Nat) (conf : Bool) :
    (deser (ser s)).map (fun s' => prepareBuffer s' cfg r data port conf) = some (prepareBuffer s cfg r data port conf) := by
  rw [deser_ser s h]; rfl

/-- … and gives every received frame the same verdict (in particular it rejects the same replays) -/
theorem restored_same_replay_verdict (s : Session) (h : SessionWF s) (cfg : Config) (region : RegionState) (d : RxData)
    (mp : Nat) (snr : Int) (ig : Bool) :
    (deser (ser s)).map (fun s' => sessionHandleRx s' cfg region d mp snr ig) = some (sessionHandleRx s cfg region d mp snr ig) := by
  rw [deser_ser s h]; rfl

/-- counters are never rewound by a save/restore -/
theorem restored_counters (s : Session) (h : SessionWF s) :
    (deser (ser s)).map (fun s' => (s'.fcntUp, s'.fcntDown)) = some (s.fcntUp, s.fcntDown) := by
  rw [deser_ser s h]; rfl

/-! non-vacuity -/
def s15 : Session := { Session.new 7 1 2 with pending := [3, 7, 3, 7, 3, 7, 3, 7, 3, 7, 3, 7, 5, 7, 8], fcntUp := 0xFFFFFFFF, fcntDown := some 0xFFFF, ackOwed := true }
example : SessionWF s15 := by unfold SessionWF s15 Session.new; simp
example : deser (ser s15) = some s15 := by decide
example : deser { ser s15 with uplink := { (ser s15).uplink with pendingLen := 16 } } = none := by decide

end C20

#print axioms C20.deser_ser
#print axioms C20.deser_wf
#print axioms C20.restored_same_uplink
#print axioms C20.restored_same_replay_verdict
#print axioms C20.restored_counters
