import LoraVerif.Model.Persist
import LoraVerif.Props.C05
import LoraVerif.Props.C08
/-!
# C20 — a persisted session restores losslessly and never rewinds counters

* `deser_ser`: for every session satisfying the type invariants, deserialising its serialisation
  yields a session equal in every field (keys, address, both counters incl. "no downlink yet", ADR
  counter, pending answers, owed ACK);
* `deser_wf`: whatever document is accepted, the resulting session satisfies the type invariants
  (in particular at most 15 pending bytes), so every operation on it is covered by the no-panic
  results of C04;
* `restored_same_uplink`, `restored_same_replay_verdict`: the model's operations are functions of
  the session, so the restored device emits the same next uplink and rejects exactly the same
  downlinks as the original.
* HISTORIES: `history_persist` — the hypothesis `SessionWF` of the round-trip theorems holds in EVERY
  state EVERY history reaches (`step_sessInv`: u32 counters, ≤ 15 pending bytes each < 256 — the
  latter from C08's `Answers`: `answers_bytes`), so persisting at any point of any history and
  restoring yields the very same device state, and every continuation runs identically.
-/
open Model

namespace C20

theorem take_append_replicate (l : List Nat) (k : Nat) : (l ++ List.replicate k 0).take l.length = l := by
  simp

theorem deser_ser (s : Session) (h : SessionWF s) : deser (ser s) = some s := by
  obtain ⟨hlen, hb, hup, hdown, hadr, hda⟩ := h
  unfold deser ser
  have h1 : (s.pending ++ List.replicate (15 - s.pending.length) 0).length = 15 := by
    simp; omega
  have h2 : (s.pending ++ List.replicate (15 - s.pending.length) 0).all (· < 256) = true := by
    simp only [List.all_append, Bool.and_eq_true, List.all_eq_true, decide_eq_true_eq]
    exact ⟨hb, by intro x hx; simp [List.mem_replicate] at hx; omega⟩
  have h3 : optU32 s.fcntDown = true := by
    cases hd : s.fcntDown with
    | none => rfl
    | some n => simp [optU32, u32, hdown n hd]
  simp only [h1, h2, h3, hlen, u32, hup, hadr, hda, decide_true, and_self, if_true, take_append_replicate]

theorem deser_wf (d : SessionDoc) (s : Session) (h : deser d = some s) : SessionWF s := by
  unfold deser at h
  split at h
  · rename_i hc
    obtain ⟨hl, hlen, hall, hup, hdown, hadr, hda⟩ := hc
    simp only [Option.some.injEq] at h
    subst h
    refine ⟨?_, ?_, ?_, ?_, ?_, ?_⟩
    · simp only [List.length_take]; omega
    · intro b hb
      have := List.mem_of_mem_take hb
      simp only [List.all_eq_true, decide_eq_true_eq] at hall
      exact hall b this
    · simpa [u32] using hup
    · intro n hn
      simp only at hn
      rw [hn] at hdown
      simpa [optU32, u32] using hdown
    · simpa [u32] using hadr
    · simpa [u32] using hda
  · cases h

/-- the restored device builds the same next uplink -/
theorem restored_same_uplink (s : Session) (h : SessionWF s) (cfg : Config) (r : RegionId) (data : List Nat) (port : Nat) (conf : Bool) :
    (deser (ser s)).map (fun s' => prepareBuffer s' cfg r data port conf) = some (prepareBuffer s cfg r data port conf) := by
  rw [deser_ser s h]; rfl

/-- … and gives every received frame the same verdict (in particular it rejects the same replays) -/
theorem restored_same_replay_verdict (s : Session) (h : SessionWF s) (cfg : Config) (region : RegionState) (d : RxData)
    (mp : Nat) (snr : Int) (ig : Bool) :
    (deser (ser s)).map (fun s' => sessionHandleRx s' cfg region d mp snr ig) = some (sessionHandleRx s cfg region d mp snr ig) := by
  rw [deser_ser s h]; rfl

/-- counters are never rewound by a save/restore -/
theorem restored_counters (s : Session) (h : SessionWF s) :
    (deser (ser s)).map (fun s' => (s'.fcntUp, s'.fcntDown)) = some (s.fcntUp, s.fcntDown) := by
  rw [deser_ser s h]; rfl

/-! non-vacuity -/
def s15 : Session := { Session.new 7 1 2 with pending := [3, 7, 3, 7, 3, 7, 3, 7, 3, 7, 3, 7, 5, 7, 8], fcntUp := 0xFFFFFFFF, fcntDown := some 0xFFFF, ackOwed := true }
example : SessionWF s15 := by unfold SessionWF s15 Session.new; simp
example : deser (ser s15) = some s15 := by decide
example : deser { ser s15 with uplink := { (ser s15).uplink with pendingLen := 16 } } = none := by decide


/-! ## histories: every session a history reaches restores losslessly, at any point -/

/-- representation facts of the addresses an event carries: DevAddr is a 32-bit field -/
def addrOk : Ev → Bool
  | .joinAbp da _ _ => decide (da < 4294967296)
  | .joinOtaa _ rx1 rx2 _ _ =>
    (match rx1 with | some (.joinAccept j, _) => decide (j.devAddr < 4294967296) | _ => true) &&
    (match rx2 with | some (.joinAccept j, _) => decide (j.devAddr < 4294967296) | _ => true)
  | _ => true

/-- the session of the state, if any, satisfies the type invariants of `Session` -/
def SessInv (m : MacState) : Prop := ∀ s, m.st = .joined s → SessionWF s

theorem retainSticky_mem (fuel : Nat) (l : List Nat) : ∀ b ∈ retainSticky fuel l, b ∈ l := by
  induction fuel generalizing l with
  | zero => intro b hb; simp [retainSticky] at hb
  | succ fuel ih =>
    cases l with
    | nil => intro b hb; simp [retainSticky] at hb
    | cons cid rest =>
      intro b hb
      unfold retainSticky at hb
      split at hb
      · cases hb
      · rename_i n _
        split at hb
        · cases hb
        · rcases List.mem_append.mp hb with h1 | h2
          · split at h1
            · rcases List.mem_cons.mp h1 with rfl | h1
              · exact List.mem_cons_self
              · exact List.mem_cons_of_mem _ (List.mem_of_mem_take h1)
            · cases h1
          · exact List.mem_cons_of_mem _ (List.mem_of_mem_drop (ih _ b h2))

theorem retainSticky_length (fuel : Nat) (l : List Nat) : (retainSticky fuel l).length ≤ l.length := by
  induction fuel generalizing l with
  | zero => simp [retainSticky]
  | succ fuel ih =>
    cases l with
    | nil => simp [retainSticky]
    | cons cid rest =>
      unfold retainSticky
      split
      · simp
      · rename_i n _
        split
        · simp
        · rename_i hn
          have := ih (rest.drop n)
          simp only [List.length_append, List.length_cons, List.length_drop] at this ⊢
          split
          · simp only [List.length_cons, List.length_take]; omega
          · simp only [List.length_nil]; omega

theorem sentSession_wf (s : Session) (conf : Bool) (h : SessionWF s) : SessionWF (sentSession s conf) := by
  obtain ⟨h1, h2, h3, h4, h5, h6⟩ := h
  refine ⟨?_, ?_, h3, h4, h5, h6⟩
  · exact Nat.le_trans (retainSticky_length _ _) h1
  · intro b hb; exact h2 b (retainSticky_mem _ _ b hb)

theorem rx2Complete_wf (s : Session) (cfg : Config) (r : RegionId) (h : SessionWF s) : SessionWF (rx2Complete s cfg r).2.1 := by
  obtain ⟨h1, h2, h3, h4, h5, h6⟩ := h
  unfold rx2Complete
  by_cases hx : s.fcntUp = 0xFFFFFFFF
  · simp only [hx, beq_self_eq_true, if_true]; exact ⟨h1, h2, by omega, h4, h5, h6⟩
  · have hx' : (s.fcntUp == 0xFFFFFFFF) = false := by simp [hx]
    simp only [hx', Bool.false_eq_true, if_false]
    (repeat' split) <;> refine ⟨h1, h2, ?_, h4, ?_, h6⟩ <;> simp only [] <;> omega

theorem timeoutState_inv (m : MacState) (h : SessInv m) : SessInv (timeoutState m) := by
  intro s' hs'
  by_cases hj : ∃ s, m.st = .joined s
  · obtain ⟨s, hs⟩ := hj
    have e : (timeoutState m).st = .joined (rx2Complete s m.cfg m.region.id).2.1 := by
      unfold timeoutState macRx2Complete; simp only [hs]
    rw [e] at hs'; cases hs'
    exact rx2Complete_wf s m.cfg m.region.id (h s hs)
  · rw [timeoutState_notJoined m (fun s hs => hj ⟨s, hs⟩)] at hs'
    exact h s' hs'

theorem devStatusMargin_lt (snr : Int) : devStatusMargin snr < 256 := by
  unfold devStatusMargin
  split
  · omega
  · omega

/-- every byte of every answer is a byte -/
theorem answers_bytes {snr : Int} {cmds : List C08.Cmd} {st st' : C08.St} {as : List C08.Ans} (h : C08.Answers snr cmds st as st') :
    ∀ b ∈ C08.wires as, b < 256 := by
  induction h with
  | nil st => intro b hb; simp [C08.wires] at hb
  | skip cid p rest st as st' _ _ ih => exact ih
  | devStatus p rest st as st' _ ih =>
    intro b hb
    simp only [C08.wires, List.map_cons, List.flatten_cons, C08.wire, List.mem_append, List.mem_cons] at hb
    rcases hb with (rfl | rfl | rfl | hb) | hb
    · omega
    · omega
    · exact devStatusMargin_lt snr
    · cases hb
    · exact ih b hb
  | rxParam p rest st ans st1 as st' ho _ ih =>
    obtain ⟨dl, f, _, _, _, _, _, _, _, _, hle⟩ := ho
    intro b hb
    simp only [C08.wires, List.map_cons, List.flatten_cons, C08.wire, List.mem_append, List.mem_cons] at hb
    rcases hb with (rfl | rfl | hb) | hb
    · omega
    · omega
    · cases hb
    · exact ih b hb
  | rxTiming p rest st st1 as st' _ _ ih =>
    intro b hb
    simp only [C08.wires, List.map_cons, List.flatten_cons, C08.wire, List.mem_append, List.mem_cons] at hb
    rcases hb with (rfl | hb) | hb
    · omega
    · cases hb
    · exact ih b hb
  | newChannel p rest st ans st1 as st' _ ho _ ih =>
    obtain ⟨idx, f, r, a, bb, _, _, _, hans, _⟩ := ho
    intro b hb
    simp only [C08.wires, List.map_cons, List.flatten_cons, C08.wire, List.mem_append, List.mem_cons] at hb
    rcases hb with (rfl | rfl | hb) | hb
    · omega
    · rw [hans]; cases a <;> cases bb <;> simp
    · cases hb
    · exact ih b hb
  | dlChannel p rest st ans st1 as st' _ ho _ ih =>
    obtain ⟨idx, f, a, bb, _, _, hans, _⟩ := ho
    intro b hb
    simp only [C08.wires, List.map_cons, List.flatten_cons, C08.wire, List.mem_append, List.mem_cons] at hb
    rcases hb with (rfl | rfl | hb) | hb
    · omega
    · rw [hans]; cases a <;> cases bb <;> simp
    · cases hb
    · exact ih b hb
  | linkAdr ps p rest st ans st1 as st' _ ho _ ih =>
    obtain ⟨mask, rfu, b0, _, _, _, _, _, _, _, _, hle⟩ := ho
    intro b hb
    simp only [C08.wires, List.map_append, List.flatten_append, List.mem_append] at hb
    rcases hb with hb | hb
    · simp only [List.map_replicate, C08.wire, List.mem_flatten, List.mem_replicate] at hb
      obtain ⟨l, ⟨_, rfl⟩, hb⟩ := hb
      simp only [List.mem_cons, List.not_mem_nil, or_false] at hb
      rcases hb with rfl | rfl <;> omega
    · exact ih b hb


theorem wires_append (as bs : List C08.Ans) : C08.wires (as ++ bs) = C08.wires as ++ C08.wires bs := by
  simp [C08.wires]

theorem wires_prefix_mem {as bs : List C08.Ans} (hp : as <+: bs) : ∀ b ∈ C08.wires as, b ∈ C08.wires bs := by
  obtain ⟨t, rfl⟩ := hp
  intro b hb
  rw [wires_append]; exact List.mem_append_left _ hb

/-- the queue an accepted Class A frame leaves is a well-formed queue -/
theorem acceptCmds_pending (pending : List Nat) (cfg : Config) (region : RegionState) (d : RxData) (snr : Int) (ctx : MacCtx)
    (h : acceptCmds pending cfg region d snr false = .ok ctx) : ctx.pending.length ≤ 15 ∧ ∀ b ∈ ctx.pending, b < 256 := by
  obtain ⟨as1, as2, cfg1, rg1, m1, ha1, ha2, hp⟩ := C08.accept_answers pending cfg region d snr ctx h
  rw [hp]
  refine ⟨C08.wires_fit_le 15 _, fun b hb => ?_⟩
  have hb' := wires_prefix_mem (C08.fit_prefix 15 (as1 ++ as2)) b hb
  rw [wires_append] at hb'
  rcases List.mem_append.mp hb' with h1 | h2
  · exact answers_bytes ha1 b h1
  · by_cases hport : d.fport = some 0
    · rw [if_pos hport] at ha2
      obtain ⟨m2, ha2⟩ := ha2
      exact answers_bytes ha2 b h2
    · rw [if_neg hport] at ha2
      rw [ha2.1] at h2
      simp [C08.wires] at h2

theorem acceptFinish_wf (s : Session) (d : RxData) (N : Nat) (ctx : MacCtx) (h : SessionWF s) (hN : N < 4294967296)
    (hp : ctx.pending.length ≤ 15 ∧ ∀ b ∈ ctx.pending, b < 256) : SessionWF (acceptFinish s d N ctx).2.1 := by
  obtain ⟨h1, h2, h3, h4, h5, h6⟩ := h
  unfold acceptFinish
  simp only []
  by_cases hx : s.fcntUp = 0xFFFFFFFF
  · simp only [hx, beq_self_eq_true, if_true]
    exact ⟨hp.1, hp.2, by simp only []; omega, fun n hn => by cases hn; exact hN, by simp only []; omega, h6⟩
  · have hx' : (s.fcntUp == 0xFFFFFFFF) = false := by simp [hx]
    simp only [hx', Bool.false_eq_true, if_false]
    exact ⟨hp.1, hp.2, by simp only []; omega, fun n hn => by cases hn; exact hN, by simp only []; omega, h6⟩

theorem acceptState_inv (m : MacState) (s : Session) (d : RxData) (N : Nat) (ctx : MacCtx) (h : SessionWF s)
    (hN : N < 4294967296) (hp : ctx.pending.length ≤ 15 ∧ ∀ b ∈ ctx.pending, b < 256) : SessInv (acceptState m s d N ctx) := by
  intro s' hs'
  rw [acceptState_st] at hs'; cases hs'
  exact acceptFinish_wf s d N ctx h hN hp

theorem new_wf (da nwk app : Nat) (h : da < 4294967296) : SessionWF (Session.new da nwk app) := by
  refine ⟨by simp [Session.new], fun b hb => by simp [Session.new] at hb, by simp [Session.new], fun n hn => by simp [Session.new] at hn,
    by simp [Session.new], h⟩

/-- **every step keeps the session's type invariants** -/
theorem step_sessInv {σ} (g : Rng σ) (m m' : MacState) (rs rs' : σ) (ev : Ev) (out : Out) (gh : Gh)
    (hr : GhRel m gh) (hi : SessInv m) (hv : evOk ev = true ∧ addrOk ev = true)
    (h : step g (m, rs) ev = .ok ((m', rs'), out)) : SessInv m' := by
  cases ev with
  | joinAbp da nwk app =>
    simp only [step, pure, Except.pure, Except.ok.injEq, Prod.mk.injEq] at h
    obtain ⟨⟨rfl, _⟩, _⟩ := h
    intro s hs
    simp only [macJoinAbp, JoinState.joined.injEq] at hs
    subst hs
    exact new_wf da nwk app (by simpa [addrOk] using hv.2)
  | setDr dr =>
    simp only [step, pure, Except.pure, Except.ok.injEq, Prod.mk.injEq] at h
    obtain ⟨⟨rfl, _⟩, _⟩ := h
    exact hi
  | setAdr on =>
    simp only [step, pure, Except.pure, Except.ok.injEq, Prod.mk.injEq] at h
    obtain ⟨⟨rfl, _⟩, _⟩ := h
    intro s' hs'
    by_cases hj : ∃ s, m.st = .joined s
    · obtain ⟨s, hs⟩ := hj
      obtain ⟨cnt, e⟩ := (macSetAdr_st m on).1 s hs
      have hc : cnt = 0 ∨ cnt = s.adrAckCnt := by
        unfold macSetAdr at e
        cases on
        · simp only [hs, JoinState.joined.injEq] at e
          left; have := congrArg Session.adrAckCnt e; simpa using this.symm
        · simp only [hs, JoinState.joined.injEq] at e
          right; have := congrArg Session.adrAckCnt e; simpa using this.symm
      rw [e] at hs'; cases hs'
      obtain ⟨h1, h2, h3, h4, h5, h6⟩ := hi s hs
      exact ⟨h1, h2, h3, h4, by rcases hc with rfl | rfl <;> simp only [] <;> omega, h6⟩
    · rw [(macSetAdr_st m on).2 (fun s hs => hj ⟨s, hs⟩)] at hs'
      exact absurd ⟨s', hs'⟩ hj
  | joinOtaa fault rx1 rx2 mp1 mp2 =>
    obtain ⟨jo, m1, o, _, hst1, _, ht⟩ := step_joinOtaa_inv g m m' rs rs' fault rx1 rx2 mp1 mp2 out h
    intro s hs
    cases hj : joinRes fault rx1 rx2 with
    | some j =>
      simp only [hj] at ht
      rw [otaaAccept_st m1 m' j ht.1] at hs
      cases hs
      refine new_wf _ _ _ ?_
      -- the JoinAccept was heard in RX1 or RX2: its address is a 32-bit field
      have hacc : ∀ (f : Option (RxView × Int)), joinAcc f = some j → ∃ snr, f = some (.joinAccept j, snr) := by
        intro f hf
        unfold joinAcc at hf
        split at hf
        · rename_i j' snr; split at hf
          · cases hf; exact ⟨snr, rfl⟩
          · cases hf
        · cases hf
      have hheard : (∃ snr, rx1 = some (.joinAccept j, snr)) ∨ (∃ snr, rx2 = some (.joinAccept j, snr)) := by
        have hsj : specJoin rx1 rx2 = some j → (∃ snr, rx1 = some (.joinAccept j, snr)) ∨ (∃ snr, rx2 = some (.joinAccept j, snr)) := by
          intro hs
          unfold specJoin at hs
          cases h1 : joinAcc rx1 with
          | some j1 => rw [h1] at hs; cases hs; exact Or.inl (hacc rx1 h1)
          | none => rw [h1] at hs; exact Or.inr (hacc rx2 hs)
        unfold joinRes at hj
        cases fault with
        | none => exact hsj hj
        | some k =>
          simp only at hj
          unfold specJoinFaulted at hj
          match k with
          | 0 => cases hj
          | 1 => exact Or.inl (hacc rx1 hj)
          | k + 2 => exact hsj hj
      have ha := hv.2
      simp only [addrOk, Bool.and_eq_true] at ha
      rcases hheard with ⟨snr, rfl⟩ | ⟨snr, rfl⟩
      · simpa using ha.1
      · simpa using ha.2
    | none =>
      simp only [hj] at ht
      obtain ⟨rfl, _⟩ := ht
      rw [hst1] at hs; cases hs
  | rxc v snr mp =>
    cases gh with
    | none =>
      obtain ⟨rfl, _, _⟩ := step_rxc_notJoined g m m' rs rs' hr v snr mp out h
      exact hi
    | some last =>
      obtain ⟨s, hst, rfl, hl⟩ := hr
      have hvv : viewOk v = true := by simpa [evOk] using hv.1
      obtain ⟨_, rf, _, ht⟩ := step_rxc_joined g m m' rs rs' s hst hl v snr mp hvv out h
      cases hs : specRxc s.fcntDown v mp with
      | none => simp only [hs] at ht; obtain ⟨rfl, _⟩ := ht; exact hi
      | some p =>
        obtain ⟨N, d⟩ := p
        simp only [hs] at ht
        obtain ⟨rfl, _⟩ := ht
        have hN : N < 4294967296 := by
          unfold specRxc at hs
          cases v with
          | garbage => cases hs
          | joinAccept j => cases hs
          | data d' =>
            simp only [Option.map_eq_some_iff, Prod.mk.injEq] at hs
            obtain ⟨N', ha, rfl, rfl⟩ := hs
            exact lastOk_accepts (by simpa [viewOk] using hvv) ha N' rfl
        have hw := hi s hst
        exact acceptState_inv m s d N _ hw hN ⟨hw.1, hw.2.1⟩
  | uplink data fport conf fault rx1 rx2 mp1 mp2 =>
    cases gh with
    | none =>
      obtain ⟨rfl, _, _⟩ := step_uplink_notJoined g m m' rs rs' hr data fport conf fault rx1 rx2 mp1 mp2 out h
      exact hi
    | some last =>
      obtain ⟨s, hst, rfl, hl⟩ := hr
      have hvv : rxOk rx1 = true ∧ rxOk rx2 = true := by simpa [evOk] using hv.1
      obtain ⟨so, m1, _, _, hst1, _, ht⟩ :=
        step_uplink_joined g m m' rs rs' s hst hl data fport conf fault rx1 rx2 mp1 mp2 hvv.1 hvv.2 out h
      have hw1 : SessionWF (sentSession s conf) := sentSession_wf s conf (hi s hst)
      have hi1 : SessInv m1 := by intro s' hs'; rw [hst1] at hs'; cases hs'; exact hw1
      have hfd : (sentSession s conf).fcntDown = s.fcntDown := rfl
      have hacc : ∀ N d snr ctx, upRes s.fcntDown fault rx1 rx2 mp1 mp2 = .accepted N d snr →
          acceptCmds (sentSession s conf).pending m1.cfg m1.region d snr false = .ok ctx →
          SessInv (acceptState m1 (sentSession s conf) d N ctx) := by
        intro N d snr ctx hu hc
        obtain ⟨mp, ha, hw⟩ := upRes_accepted hvv.1 hvv.2 hu
        exact acceptState_inv m1 _ d N ctx hw1 (lastOk_accepts hw ha N rfl) (acceptCmds_pending _ _ _ d snr ctx hc)
      unfold UplinkTail at ht
      cases fault with
      | none =>
        simp only at ht
        cases hsc : specCycle s.fcntDown rx1 rx2 mp1 mp2 with
        | accepted N d snr =>
          rw [hfd, hsc] at ht
          obtain ⟨ctx, hc, rfl, _⟩ := ht
          exact hacc N d snr ctx hsc hc
        | ended => rw [hfd, hsc] at ht; obtain ⟨rfl, _⟩ := ht; exact timeoutState_inv m1 hi1
        | nothing => rw [hfd, hsc] at ht; obtain ⟨rfl, _⟩ := ht; exact timeoutState_inv m1 hi1
      | some k =>
        simp only at ht
        obtain ⟨m2, hm2, rfl, _⟩ := ht
        rw [faultAfterTx_eq]
        refine timeoutState_inv m2 ?_
        cases hsc : specFaulted s.fcntDown k rx1 rx2 mp1 mp2 with
        | accepted N d snr =>
          rw [hfd, hsc] at hm2
          obtain ⟨ctx, hc, rfl⟩ := hm2
          exact hacc N d snr ctx hsc hc
        | ended => rw [hfd, hsc] at hm2; subst hm2; exact timeoutState_inv m1 hi1
        | nothing => rw [hfd, hsc] at hm2; subst hm2; exact hi1

/-- what is written to non-volatile memory: the session, if there is one -/
def persist (m : MacState) : Option SessionDoc :=
  match m.st with
  | .joined s => some (ser s)
  | _ => none

/-- a device (same configuration and channel plan) restored from a document -/
def restore (m : MacState) (d : SessionDoc) : Option MacState := (deser d).map (fun s => { m with st := .joined s })

theorem restore_persist (m : MacState) (hi : SessInv m) (d : SessionDoc) (h : persist m = some d) : restore m d = some m := by
  unfold persist at h
  cases hst : m.st with
  | joined s =>
    simp only [hst, Option.some.injEq] at h
    subst h
    unfold restore
    rw [deser_ser s (hi s hst)]
    simp only [Option.map_some, Option.some.injEq]
    cases m; simp only at hst; subst hst; rfl
  | otaa o => simp [hst] at h
  | unjoined => simp [hst] at h

/-- **C20 over every history.**  Run ANY history `evs1` (valid address fields, 16-bit wire counters)
from a state whose session, if any, satisfies the type invariants (e.g. the initial state); persist
the session there; restore it into the device: the restored device IS the original
(`restore … = some m1`), so every continuation `evs2` — next uplinks, verdicts on replayed downlinks,
counters — runs identically. -/
theorem history_persist {σ} (g : Rng σ) (m : MacState) (rs : σ) (gh : Gh) (hr : GhRel m gh) (hi : SessInv m)
    (evs1 : List Ev) (hv : ∀ ev ∈ evs1, evOk ev = true ∧ addrOk ev = true) (m1 : MacState) (rs1 : σ) (outs1 : List Out)
    (h : run g (m, rs) evs1 = .ok ((m1, rs1), outs1)) :
    SessInv m1 ∧ ∀ d, persist m1 = some d → restore m1 d = some m1 ∧
      ∀ evs2, (restore m1 d).map (fun mr => run g (mr, rs1) evs2) = some (run g (m1, rs1) evs2) := by
  have hc := run_chain g (m, rs) (m1, rs1) evs1 outs1 h
  have hv' : ∀ x ∈ evs1.zip outs1, evOk x.1 = true ∧ addrOk x.1 = true := fun x hx => hv x.1 (List.of_mem_zip hx).1
  have hinv : SessInv m1 := by
    generalize evs1.zip outs1 = t at hc hv'
    clear h hv
    induction t generalizing m rs gh with
    | nil => simp only [Chain] at hc; cases hc; exact hi
    | cons x rest ih =>
      obtain ⟨ev, out⟩ := x
      simp only [Chain] at hc
      obtain ⟨⟨m2, rs2⟩, hs, hrest⟩ := hc
      have hve := hv' (ev, out) List.mem_cons_self
      exact ih m2 rs2 (ghStep gh ev) (step_ghRel g m m2 rs rs2 ev out gh hr hve.1 hs)
        (step_sessInv g m m2 rs rs2 ev out gh hr hi hve hs) hrest (fun x hx => hv' x (List.mem_cons_of_mem _ hx))
  refine ⟨hinv, fun d hd => ?_⟩
  have := restore_persist m1 hinv d hd
  exact ⟨this, fun evs2 => by rw [this]; rfl⟩

theorem sessInv_init (r : RegionState) (p : Nat) (gain : Int) : SessInv (MacState.init r p gain) := by
  intro s hs; cases hs


/-! non-vacuity: a session with pending sticky answers and a stored downlink counter, persisted after
three events and restored -/
def lcg : Rng Nat := fun x => ((x * 1103515245 + 12345) / 65536, x * 1103515245 + 12345)
def demoFrame : RxData :=
  { len := 20, confirmed := true, fcnt16 := 9, micFcnt := some 9, fopts := [0x05, 0x23, 0xD2, 0xAD, 0x84, 0x06],
    fport := some 1, payload := [1] }
def demoHistory : List Ev :=
  [ .joinAbp 7 1 2, .uplink [1] 1 true none (some (.data demoFrame, 5)) none 51 51, .uplink [2] 1 false none none none 51 51 ]

example : ∀ ev ∈ demoHistory, evOk ev = true ∧ addrOk ev = true := by decide
example : (run lcg (MacState.init (RegionState.init .EU868) 14 0, 1) demoHistory).toOption.bind
      (fun r => (persist r.1.1).bind (restore r.1.1)) =
    (run lcg (MacState.init (RegionState.init .EU868) 14 0, 1) demoHistory).toOption.map (fun r => r.1.1) := by decide +kernel
example : (run lcg (MacState.init (RegionState.init .EU868) 14 0, 1) demoHistory).toOption.bind (fun r => persist r.1.1) =
    some { uplink := { confirmed := false, pendingLen := 2, pendingData := [5, 7, 0, 0, 0, 0, 0, 0, 0, 0, 0, 0, 0, 0, 0] },
           confirmed := false, nwkKey := 1, appKey := 2, devAddr := 7, fcntUp := 2, fcntDown := some 9, adrAckCnt := 1 } := by
  decide +kernel

/-! ## extended histories (Class C receptions inside the receive procedure, `Model/HistoryC.lean`)

The type invariants of the session survive the acts of an extended receive procedure too (a Class C
acceptance stores a 32-bit counter and keeps the queue; a Class A acceptance stores the fitting answers;
`rx2_complete` saturates its counters), so a session persisted at ANY point of ANY extended history —
in particular after a procedure in which Class C frames were accepted between the windows — restores to
the identical device, and every extended continuation runs identically. -/

def addrOkC : EvC → Bool
  | .base e => addrOk e
  | .joinC _ fault _ rx1 _ rx2 => addrOk (joinPlain fault rx1 rx2)
  | .uplinkC _ _ _ _ _ _ _ _ _ => true

theorem acts_sessInv (acts : List Act) : ∀ (m m' : MacState), SessInv m → Acts m acts m' → SessInv m' := by
  induction acts with
  | nil => intro m m' hi h; simp only [Acts] at h; subst h; exact hi
  | cons a rest ih =>
    intro m m' hi h
    cases a with
    | accC N d =>
      simp only [Acts] at h
      obtain ⟨s, hs, hN, h⟩ := h
      have hw := hi s hs
      exact ih _ m' (acceptState_inv m s d N (ctxC m s) hw hN ⟨hw.1, hw.2.1⟩) h
    | accA N d snr =>
      simp only [Acts] at h
      obtain ⟨s, ctx, hs, hN, hc, h⟩ := h
      exact ih _ m' (acceptState_inv m s d N ctx (hi s hs) hN (acceptCmds_pending _ _ _ d snr ctx hc)) h
    | tmo =>
      simp only [Acts] at h
      exact ih _ m' (timeoutState_inv m hi) h

/-- **every extended step keeps the session's type invariants** -/
theorem stepC_sessInv {σ} (g : Rng σ) (m m' : MacState) (rs rs' : σ) (ev : EvC) (out : OutC) (gh : Gh)
    (hr : GhRel m gh) (hi : SessInv m) (hv : evOkC ev = true ∧ addrOkC ev = true)
    (h : stepC g (m, rs) ev = .ok ((m', rs'), out)) : SessInv m' := by
  cases ev with
  | base e => exact step_sessInv g m m' rs rs' e out.out gh hr hi hv (stepC_base g _ _ e out h).1
  | joinC cc fault c1 rx1 c2 rx2 =>
    exact step_sessInv g m m' rs rs' _ out.out gh hr hi ⟨evOk_joinPlain hv.1, hv.2⟩
      (stepC_joinC_plain g _ _ cc fault c1 rx1 c2 rx2 out h).1
  | uplinkC cc data fport conf fault c1 rx1 c2 rx2 =>
    cases gh with
    | none =>
      obtain ⟨rfl, _, _⟩ := stepC_uplinkC_notJoined g m m' rs rs' hr cc data fport conf fault c1 rx1 c2 rx2 out h
      exact hi
    | some last =>
      obtain ⟨s, hst, rfl, hl⟩ := hr
      obtain ⟨so, m1, _, _, hst1, _, _, _, hacts, _⟩ :=
        stepC_uplinkC_joined g m m' rs rs' s hst hl cc data fport conf fault c1 rx1 c2 rx2 hv.1 out h
      refine acts_sessInv _ m1 m' ?_ hacts
      intro s1 hs1
      rw [hst1] at hs1; cases hs1
      exact sentSession_wf s conf (hi s hst)

/-- **C20 over every extended history.**  Run ANY extended history `evs1` (Class C receptions inside
the receive procedure included) from a state whose session, if any, satisfies the type invariants;
persist the session there; restore it into the device: the restored device IS the original, so every
extended continuation `evs2` runs identically. -/
theorem historyC_persist {σ} (g : Rng σ) (m : MacState) (rs : σ) (gh : Gh) (hr : GhRel m gh) (hi : SessInv m)
    (evs1 : List EvC) (hv : ∀ ev ∈ evs1, evOkC ev = true ∧ addrOkC ev = true) (m1 : MacState) (rs1 : σ) (outs1 : List OutC)
    (h : runC g (m, rs) evs1 = .ok ((m1, rs1), outs1)) :
    SessInv m1 ∧ ∀ d, persist m1 = some d → restore m1 d = some m1 ∧
      ∀ evs2, (restore m1 d).map (fun mr => runC g (mr, rs1) evs2) = some (runC g (m1, rs1) evs2) := by
  have hinv : (∀ ev ∈ evs1, evOkC ev = true ∧ addrOkC ev = true) → SessInv m1 := by
    clear hv
    induction evs1 generalizing m rs gh outs1 with
    | nil =>
      intro _
      simp only [runC, pure, Except.pure, Except.ok.injEq, Prod.mk.injEq] at h
      obtain ⟨⟨rfl, _⟩, _⟩ := h
      exact hi
    | cons ev rest ih =>
      intro hv
      unfold runC at h
      obtain ⟨⟨⟨m2, rs2⟩, o⟩, hs, h⟩ := Except.bind_eq_ok h
      obtain ⟨⟨ms3, os⟩, hrest, h⟩ := Except.bind_eq_ok h
      simp only [pure, Except.pure, Except.ok.injEq, Prod.mk.injEq] at h
      obtain ⟨rfl, _⟩ := h
      have hve := hv ev List.mem_cons_self
      exact ih m2 rs2 _ (stepC_ghRel g m m2 rs rs2 ev o gh hr hve.1 hs)
        (stepC_sessInv g m m2 rs rs2 ev o gh hr hi hve hs) os hrest (fun e he => hv e (List.mem_cons_of_mem _ he))
  refine ⟨hinv hv, fun d hd => ?_⟩
  have := restore_persist m1 (hinv hv) d hd
  exact ⟨this, fun evs2 => by rw [this]; rfl⟩

/-- **C20 on the async front-end, for EVERY script, both classes**: the MAC state a session of the
async front-end ends in — whatever was heard inside its receive procedures — has a session that
restores losslessly -/
theorem asyncC_persist {σ} (g : Rng σ) (cfg : DevCfg) (d : DevRun) (rs : σ) (gh : Gh) (hr : GhRel d.m gh) (hi : SessInv d.m)
    (ops : List AsyncOp) (hv : ∀ op ∈ ops, op.allView viewOk = true ∧ addrOkC (abstractOp cfg op) = true)
    (obs : List OpObs) (d' : DevRun) (rs' : σ) (h : asyncOps g cfg d rs ops = .ok (obs, d', rs')) :
    SessInv d'.m ∧ ∀ doc, persist d'.m = some doc → restore d'.m doc = some d'.m := by
  obtain ⟨outs, hrun, _⟩ := asyncOps_runC g cfg d rs ops obs d' rs' h
  have hev : ∀ ev ∈ abstractSessionC cfg ops, evOkC ev = true ∧ addrOkC ev = true := by
    intro ev hev
    obtain ⟨op, hop, rfl⟩ := List.mem_map.mp hev
    exact ⟨abstractOp_evOkC cfg op (hv op hop).1, (hv op hop).2⟩
  obtain ⟨h1, h2⟩ := historyC_persist g d.m rs gh hr hi _ hev d'.m rs' outs hrun
  exact ⟨h1, fun doc hd => (h2 doc hd).1⟩

/-! non-vacuity: persisted right after a procedure in which a confirmed Class C frame was accepted
between TX and RX1 (ACK owed, both counters moved) -/
def demoHistoryC : List EvC :=
  [ .base (.joinAbp 7 1 2),
    .uplinkC true [1] 1 false none [(.data { demoFrame with fcnt16 := 3, micFcnt := some 3 }, 5)] none [] none ]

example : ∀ ev ∈ demoHistoryC, evOkC ev = true ∧ addrOkC ev = true := by decide
example : (runC lcg (MacState.init (RegionState.init .EU868) 14 0, 1) demoHistoryC).toOption.bind
      (fun r => (persist r.1.1).bind (restore r.1.1)) =
    (runC lcg (MacState.init (RegionState.init .EU868) 14 0, 1) demoHistoryC).toOption.map (fun r => r.1.1) := by decide +kernel
example : (runC lcg (MacState.init (RegionState.init .EU868) 14 0, 1) demoHistoryC).toOption.bind (fun r => persist r.1.1) =
    some { uplink := { confirmed := true, pendingLen := 0, pendingData := [0, 0, 0, 0, 0, 0, 0, 0, 0, 0, 0, 0, 0, 0, 0] },
           confirmed := false, nwkKey := 1, appKey := 2, devAddr := 7, fcntUp := 2, fcntDown := some 3, adrAckCnt := 1 } := by
  decide +kernel

end C20

#print axioms C20.deser_ser
#print axioms C20.deser_wf
#print axioms C20.restored_same_uplink
#print axioms C20.restored_same_replay_verdict
#print axioms C20.restored_counters
#print axioms C20.step_sessInv
#print axioms C20.restore_persist
#print axioms C20.history_persist
#print axioms C20.answers_bytes
#print axioms C20.stepC_sessInv
#print axioms C20.historyC_persist
#print axioms C20.asyncC_persist
