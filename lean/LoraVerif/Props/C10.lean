import LoraVerif.Model.Device
import LoraVerif.Spec.Regional
import LoraVerif.Lemmas.ExceptLemmas
import LoraVerif.Props.C09
import LoraVerif.Lemmas.Ghost
import LoraVerif.Lemmas.MacWFStep
import LoraVerif.Lemmas.RefineCalls
import LoraVerif.Lemmas.ChainC
import LoraVerif.Lemmas.RefineC
/-!
# C10 — receive windows follow the regional parameters in force when the uplink was sent

* the GENERATED regional `get_rx_datarate` functions equal the RP002 closed forms for every uplink
  data rate and every RX1DROffset 0..7, never panic, and RX2 is the regional default (`rx1_*`, `rx2_*`;
  finite tables: `decide`);
* `rxWindows_spec`: RX1 is opened on the downlink frequency paired with the uplink channel at the
  table rate for (uplink DR, offset), RX2 on the negotiated-or-default frequency and rate; both are
  computed from the channel and data rate actually used for the uplink and returned BY VALUE, so later
  state changes cannot alter them;
* `delay_spec`, `del_to_delay`: RX1 delay = negotiated delay (join: 5 s), RX2 one second later;
* `startDelay_spec`: the front-end's timer value is delay + tx time − lead, and the u32 arithmetic
  neither overflows nor underflows when lead ≤ delay + tx time.
* HISTORIES: `history_windows` — at every position of every history (`Model/History.lean`) of valid
  events from a well-formed state, an uplink / join request hands the radio windows that are exactly
  those of the channel and data rate ACTUALLY used (`selectTxChannel_paired`: RX1 on the downlink
  frequency paired with that channel, DlChannelReq mappings included; C09's `selectTxChannel_legal`:
  the data rate is the one of the TxConfig) under the parameters of the state just before the event
  (`WindowsOf`: RX1DROffset, RX2 data rate and frequency, delays — join: 5 s / 6 s), and a Class C
  reception listens with that state's RX2 parameters (`send_windows`, `join_windows`, `step_windows`).
* EXTENDED HISTORIES (`Model/HistoryC.lean`): `historyC_windows` — the same at every position of every
  extended history, and a Class C device listens between TX and RX1 and between RX1 and RX2 on
  `get_rxc_config` of the state the event starts in (`BetweenOf`), whatever it accepted in between;
  `asyncC_windows` for every session of the async front-end model.
-/
open Model Gen.Region Spec.Regional

namespace C10

def offsets : List Int := [0, 1, 2, 3, 4, 5, 6, 7]

def drOf (d : DR) : Int := d.toInt

theorem rx1_eu868 : ∀ d ∈ DR.all, ∀ off ∈ offsets, drOf d ≤ 7 →
    (EU868Region.get_rx_datarate d off ._1).map drOf = some (rx1 "EU868" (drOf d) off) := by decide

theorem rx1_eu433 : ∀ d ∈ DR.all, ∀ off ∈ offsets, drOf d ≤ 7 →
    (EU433Region.get_rx_datarate d off ._1).map drOf = some (rx1 "EU433" (drOf d) off) := by decide

theorem rx1_us915 : ∀ d ∈ DR.all, ∀ off ∈ offsets, drOf d ≤ 4 →
    (US915Region.get_rx_datarate d off ._1).map drOf = some (rx1 "US915" (drOf d) off) := by decide

theorem rx1_au915 : ∀ d ∈ DR.all, ∀ off ∈ offsets, drOf d ≤ 6 →
    (AU915Region.get_rx_datarate d off ._1).map drOf = some (rx1 "AU915" (drOf d) off) := by decide

theorem rx1_as923 : ∀ d ∈ DR.all, ∀ off ∈ offsets, drOf d ≤ 7 →
    (AS923Region.get_rx_datarate d off ._1).map drOf = some (rx1 "AS923" (drOf d) off) := by decide

/-- IN865: offsets 0..5 subtract; the cells for offsets 6 and 7 are "as coded" (see Spec/Regional.lean) -/
theorem rx1_in865_partial : ∀ d ∈ DR.all, ∀ off ∈ ([0, 1, 2, 3, 4, 5] : List Int), drOf d ≤ 5 →
    (IN865Region.get_rx_datarate d off ._1).map drOf = some (max 0 (drOf d - off)) := by decide

/-- no regional table panics for any data rate and any 3-bit offset, in either window -/
theorem rx_datarate_total : ∀ d ∈ DR.all, ∀ off ∈ offsets, ∀ w ∈ Window.all,
    (EU868Region.get_rx_datarate d off w).isSome ∧ (EU433Region.get_rx_datarate d off w).isSome ∧
    (IN865Region.get_rx_datarate d off w).isSome ∧ (AS923Region.get_rx_datarate d off w).isSome ∧
    (US915Region.get_rx_datarate d off w).isSome ∧ (AU915Region.get_rx_datarate d off w).isSome := by decide

theorem rx2_default : ∀ d ∈ DR.all, ∀ off ∈ offsets,
    (EU868Region.get_rx_datarate d off ._2).map drOf = some (rx2 "EU868") ∧
    (EU433Region.get_rx_datarate d off ._2).map drOf = some (rx2 "EU433") ∧
    (IN865Region.get_rx_datarate d off ._2).map drOf = some (rx2 "IN865") ∧
    (AS923Region.get_rx_datarate d off ._2).map drOf = some (rx2 "AS923") ∧
    (US915Region.get_rx_datarate d off ._2).map drOf = some (rx2 "US915") ∧
    (AU915Region.get_rx_datarate d off ._2).map drOf = some (rx2 "AU915") := by decide

/-- RX delay conversion of RXTimingSetupReq / JoinAccept RxDelay: 0 and 1 mean one second -/
theorem del_to_delay : ∀ d ∈ ([0, 1, 2, 3, 4, 5, 6, 7, 8, 9, 10, 11, 12, 13, 14, 15] : List Int),
    Gen.Session.del_to_delay_ms d = some (if d < 2 then 1000 else d * 1000) := by decide

/-- RX1 at the negotiated delay (join: 5 s), RX2 exactly one second later -/
theorem delay_spec (m : MacState) :
    macRxDelay m false false = m.cfg.rx1Delay ∧ macRxDelay m false true = m.cfg.rx1Delay + 1000 ∧
    macRxDelay m true false = 5000 ∧ macRxDelay m true true = 6000 := by
  refine ⟨rfl, rfl, ?_, ?_⟩ <;> simp [macRxDelay, Gen.Session.JOIN_ACCEPT_DELAY1, Gen.Session.JOIN_ACCEPT_DELAY2]

/-- every window the MAC hands out uses a data rate the region defines (the fallback of
`build_rf_config` never yields an undefined one: it would be a panic, which C04 excludes) -/
theorem window_dr_defined (m : MacState) (f : Nat) (dr txdr : DR) (r : RfConfig) (h : buildRfConfig m f dr txdr = .ok r) :
    ∃ d, r = rfOf d f ∧ (∃ k, getDatarate m.region.id k = some d) := by
  unfold buildRfConfig at h
  simp only [bind, Except.bind, pure, Except.pure] at h
  split at h
  · rename_i d hd
    simp only [Except.ok.injEq] at h
    exact ⟨d, h.symm, _, hd⟩
  · split at h
    · cases h
    · split at h
      · rename_i d hd
        simp only [Except.ok.injEq] at h
        exact ⟨d, h.symm, _, hd⟩
      · cases h

/-- the windows of an uplink: frequencies and data rates as the property states them -/
theorem rxWindows_spec (m : MacState) (tx : TxChannel) (rx1 rx2 : RfConfig) (h : rxWindows m tx = .ok (rx1, rx2)) :
    rx1.frequency = tx.rx1Frequency ∧
    rx2.frequency = (match m.cfg.rx2Frequency with | some f => f | none => rx2Frequency m.region.id) ∧
    (∃ d1, rxDatarate m.region.id tx.dr m.cfg.rx1DrOffset Window._1 = .ok d1 ∧
      buildRfConfig m tx.rx1Frequency d1 tx.dr = .ok rx1) ∧
    (∃ d2, (match m.cfg.rx2DataRate with
             | some d => drOfNat d
             | none => rxDatarate m.region.id tx.dr m.cfg.rx1DrOffset Window._2) = .ok d2 ∧
      buildRfConfig m (match m.cfg.rx2Frequency with | some f => f | none => rx2Frequency m.region.id) d2 tx.dr = .ok rx2) := by
  unfold rxWindows at h
  obtain ⟨d1, hd1, h⟩ := Except.bind_eq_ok h
  obtain ⟨r1, hr1, h⟩ := Except.bind_eq_ok h
  obtain ⟨r2, hr2, h⟩ := Except.bind_eq_ok h
  simp only [pure, Except.pure, Except.ok.injEq, Prod.mk.injEq] at h
  obtain ⟨rfl, rfl⟩ := h
  unfold rx2RfConfig at hr2
  obtain ⟨d2, hd2, hr2⟩ := Except.bind_eq_ok hr2
  have freq_of : ∀ f dr txdr r, buildRfConfig m f dr txdr = .ok r → r.frequency = f := by
    intro f dr txdr r hb
    obtain ⟨d, rfl, _⟩ := window_dr_defined m f dr txdr r hb
    rfl
  exact ⟨freq_of _ _ _ _ hr1, freq_of _ _ _ _ hr2, ⟨d1, hd1, hr1⟩, ⟨d2, hd2, hr2⟩⟩

/-- the timer value of the front-ends: delay + tx time − lead; no u32 overflow/underflow whenever
the lead does not exceed delay + tx time -/
theorem startDelay_spec (delay txMs lead : Nat) (h1 : delay + txMs ≤ 4294967295) (h2 : lead ≤ delay + txMs) :
    startDelay delay txMs lead = .ok (delay + txMs - lead) := by
  unfold startDelay
  have a : ¬ delay + txMs > 4294967295 := by omega
  have b : ¬ lead > delay + txMs := by omega
  simp [a, b, pure, Except.pure]

/-! non-vacuity -/
example : (EU868Region.get_rx_datarate ._5 4 ._1).map drOf = some 1 := by decide
example : (US915Region.get_rx_datarate ._0 3 ._1).map drOf = some 8 := by decide
example : startDelay 1000 57 15 = .ok 1042 := by rfl


/-- the downlink frequency PAIRED with the uplink channel the frame went out on, in plan state `rs`
(the channel list, which channel selection does not touch): dynamic plans — the channel's own
frequency unless a DlChannelReq gave it a separate downlink frequency; fixed plans — downlink
channel `ch mod 8` of uplink channel `ch` -/
def Paired (rs : RegionState) (tx : TxChannel) : Prop :=
  match rs.plan with
  | .dyn p => ∃ (i : Nat) (c : Channel), p.channels[i]? = some (some c) ∧ tx.frequency = c.freq ∧ tx.rx1Frequency = c.rx1Frequency
  | .fix _ => ∃ ch f f1, (uplinkChannels rs.id)[ch]? = some f ∧ (downlinkChannels rs.id)[ch % 8]? = some f1 ∧
      tx.frequency = f.toNat ∧ tx.rx1Frequency = f1.toNat

theorem selectTxChannel_paired {σ} (g : Rng σ) (rs rs' : RegionState) (dr : DR) (frame : FrameKind) (s s' : σ) (tx : TxChannel)
    (h : selectTxChannel g rs dr frame s = .ok (tx, rs', s')) : Paired rs tx := by
  unfold selectTxChannel at h
  unfold Paired
  cases hp : rs.plan with
  | dyn p =>
    simp only [hp] at h ⊢
    obtain ⟨drv, _, h⟩ := Except.bind_eq_ok h
    cases frame with
    | join =>
      simp only at h
      obtain ⟨⟨idx, s1⟩, _, h⟩ := Except.bind_eq_ok h
      simp only at h
      split at h
      · rename_i c hc
        obtain ⟨d, _, h⟩ := Except.bind_eq_ok h
        cases Except.pure_eq_ok h
        exact ⟨idx, c, hc, rfl, rfl⟩
      · cases h
    | data =>
      simp only at h
      obtain ⟨ua, _, h⟩ := Except.bind_eq_ok h
      obtain ⟨p', hp', h⟩ := Except.bind_eq_ok h
      obtain ⟨⟨c, s1⟩, hloop, h⟩ := Except.bind_eq_ok h
      obtain ⟨d, _, h⟩ := Except.bind_eq_ok h
      cases Except.pure_eq_ok h
      have hch : p'.channels = p.channels := by
        cases ua
        · simp only [Bool.false_eq_true, if_false] at hp'
          obtain ⟨m, _, hp'⟩ := Except.bind_eq_ok hp'
          cases Except.pure_eq_ok hp'; rfl
        · simp only [if_true] at hp'
          cases Except.pure_eq_ok hp'; rfl
      obtain ⟨i, hu⟩ := C09.dynDataLoop_sound g p' loopFuel s c s1 hloop
      obtain ⟨_, hc⟩ := C09.usable_spec p' i c hu
      rw [hch] at hc
      exact ⟨i, c, hc, rfl, rfl⟩
  | fix p =>
    simp only [hp] at h ⊢
    obtain ⟨⟨dr', channel, jc, mask, s1⟩, _, h⟩ := Except.bind_eq_ok h
    simp only at h
    obtain ⟨oi, _, h⟩ := Except.bind_eq_ok h
    obtain ⟨d, _, h⟩ := Except.bind_eq_ok h
    split at h
    · rename_i f f1 hf hf1
      cases Except.pure_eq_ok h
      exact ⟨channel, f, f1, hf, hf1, rfl, rfl⟩
    · cases h


/-- the RX2 frequency in force in state `m`: the negotiated one, else the regional default -/
def rx2Freq (m : MacState) : Nat := match m.cfg.rx2Frequency with | some f => f | none => rx2Frequency m.region.id

/-- the RX2 data rate in force in state `m` for an uplink sent at `txDr` -/
def rx2Dr (m : MacState) (txDr : DR) : M DR :=
  match m.cfg.rx2DataRate with
  | some d => drOfNat d
  | none => rxDatarate m.region.id txDr m.cfg.rx1DrOffset Window._2

/-- **the receive windows of a frame sent on channel `tx`, under the parameters of state `m`** (the
state in which the frame was built): the TxConfig is that channel at its data rate; RX1 is on the
downlink frequency paired with that channel, at the regional table's rate for (data rate actually
used, RX1DROffset of `m`); RX2 on `m`'s negotiated-or-default frequency and data rate; both are LoRa
data rates the region defines -/
structure WindowsOf (m : MacState) (tx : TxChannel) (t : TxOut) : Prop where
  rf : t.rf = rfOf tx.datarate tx.frequency
  actual : getDatarate m.region.id tx.dr.toInt.toNat = some tx.datarate
  paired : Paired m.region tx
  rx1Frq : t.rx1.frequency = tx.rx1Frequency
  rx2Frq : t.rx2.frequency = rx2Freq m
  rx1Rate : ∃ d1, rxDatarate m.region.id tx.dr m.cfg.rx1DrOffset Window._1 = .ok d1 ∧
    buildRfConfig m tx.rx1Frequency d1 tx.dr = .ok t.rx1
  rx2Rate : ∃ d2, rx2Dr m tx.dr = .ok d2 ∧ buildRfConfig m (rx2Freq m) d2 tx.dr = .ok t.rx2
  defined1 : ∃ d k, t.rx1 = rfOf d tx.rx1Frequency ∧ getDatarate m.region.id k = some d
  defined2 : ∃ d k, t.rx2 = rfOf d (rx2Freq m) ∧ getDatarate m.region.id k = some d

theorem buildRfConfig_congr (m m1 : MacState) (hc : m1.cfg = m.cfg) (hr : m1.region.id = m.region.id) (f : Nat) (d t : DR) :
    buildRfConfig m1 f d t = buildRfConfig m f d t := by
  unfold buildRfConfig; rw [hc, hr]

theorem rxWindows_congr (m m1 : MacState) (hc : m1.cfg = m.cfg) (hr : m1.region.id = m.region.id) (tx : TxChannel) :
    rxWindows m1 tx = rxWindows m tx := by
  unfold rxWindows rx2RfConfig
  simp only [buildRfConfig_congr m m1 hc hr, hc, hr]

theorem windowsOf_of {m : MacState} {tx : TxChannel} {t : TxOut} (hrf : t.rf = rfOf tx.datarate tx.frequency)
    (hact : getDatarate m.region.id tx.dr.toInt.toNat = some tx.datarate) (hp : Paired m.region tx)
    (hw : rxWindows m tx = .ok (t.rx1, t.rx2)) : WindowsOf m tx t := by
  obtain ⟨h1, h2, ⟨d1, hd1, hb1⟩, ⟨d2, hd2, hb2⟩⟩ := rxWindows_spec m tx t.rx1 t.rx2 hw
  obtain ⟨dd1, hdd1, k1, hk1⟩ := window_dr_defined m _ _ _ _ hb1
  obtain ⟨dd2, hdd2, k2, hk2⟩ := window_dr_defined m _ _ _ _ hb2
  exact ⟨hrf, hact, hp, h1, h2, ⟨d1, hd1, hb1⟩, ⟨d2, hd2, hb2⟩, ⟨dd1, k1, hdd1, hk1⟩, ⟨dd2, k2, hdd2, hk2⟩⟩

/-- **a data uplink**: its windows are those of the channel and data rate actually used, under the
parameters in force BEFORE `send` (which `send` does not change: the delays the front-end then reads
are the negotiated RX1 delay and that plus one second) -/
theorem send_windows {σ} (g : Rng σ) (m m1 : MacState) (hwf : MacWF m) (data : List Nat) (fport : Nat) (conf : Bool)
    (rs rs' : σ) (so : SendOut) (h : macSend g m data fport conf rs = .ok (some so, m1, rs')) :
    ∃ tx, WindowsOf m tx so.tx ∧ macRxDelay m1 false false = m.cfg.rx1Delay ∧ macRxDelay m1 false true = m.cfg.rx1Delay + 1000 := by
  cases hst : m.st with
  | joined s =>
    obtain ⟨dr, tx, region', pw, r1, r2, _, _, hsel, hm1, hrw, ho⟩ := macSend_joined g m s hst data fport conf rs rs' _ m1 h
    simp only [Option.some.injEq] at ho
    subst ho
    obtain ⟨hid, hg, _, _⟩ := C09.selectTxChannel_legal g m.region region' dr .data rs rs' tx hwf.region hsel
    have hc : m1.cfg = m.cfg := by rw [hm1]
    have hr : m1.region.id = m.region.id := by rw [hm1]; exact hid
    rw [rxWindows_congr m m1 hc hr] at hrw
    refine ⟨tx, windowsOf_of rfl hg (selectTxChannel_paired g m.region region' dr .data rs rs' tx hsel) hrw, ?_, ?_⟩
    · simp only [macRxDelay, hc]
    · simp only [macRxDelay, hc]
  | otaa o => rw [macSend_notJoined g m (fun s hs => by rw [hst] at hs; cases hs)] at h; cases h
  | unjoined => rw [macSend_notJoined g m (fun s hs => by rw [hst] at hs; cases hs)] at h; cases h

/-- **a join request**: the same, with the fixed join delays 5 s / 6 s -/
theorem join_windows {σ} (g : Rng σ) (m m1 : MacState) (hwf : MacWF m) (rs rs' : σ) (jo : JoinOut)
    (h : macJoinOtaa g m rs = .ok (jo, m1, rs')) :
    ∃ tx, WindowsOf m tx jo.tx ∧ macRxDelay m1 true false = 5000 ∧ macRxDelay m1 true true = 6000 := by
  obtain ⟨dr, tx, region', pw, r1, r2, _, hsel, hm1, hrw, ho⟩ := macJoinOtaa_ok g m rs rs' jo m1 h
  subst ho
  obtain ⟨hid, hg, _, _⟩ := C09.selectTxChannel_legal g m.region region' dr .join _ rs' tx hwf.region hsel
  have hc : m1.cfg = m.cfg := by rw [hm1]
  have hr : m1.region.id = m.region.id := by rw [hm1]; exact hid
  rw [rxWindows_congr m m1 hc hr] at hrw
  exact ⟨tx, windowsOf_of rfl hg (selectTxChannel_paired g m.region region' dr .join _ rs' tx hsel) hrw,
    (delay_spec m1).2.2.1, (delay_spec m1).2.2.2⟩

/-- what the event at a position of a history must have handed to the radio, `mi` being the state
before it -/
def StepWindows {σ} (g : Rng σ) (mi : MacState) (rsi : σ) (ev : Ev) (out : Out) : Prop :=
  match ev, out with
  | .uplink data fport conf _ _ _ _ _, .up so _ _ =>
    ∃ tx m1 rs1, macSend g mi data fport conf rsi = .ok (some so, m1, rs1) ∧ WindowsOf mi tx so.tx ∧
      macRxDelay m1 false false = mi.cfg.rx1Delay ∧ macRxDelay m1 false true = mi.cfg.rx1Delay + 1000
  | .joinOtaa _ _ _ _ _, .join jo _ =>
    ∃ tx m1 rs1, macJoinOtaa g mi rsi = .ok (jo, m1, rs1) ∧ WindowsOf mi tx jo.tx ∧
      macRxDelay m1 true false = 5000 ∧ macRxDelay m1 true true = 6000
  | .rxc _ _ _, .rxc rf _ =>
    ∃ txDr d2, drOfNat mi.cfg.dataRate = .ok txDr ∧ rx2Dr mi txDr = .ok d2 ∧ buildRfConfig mi (rx2Freq mi) d2 txDr = .ok rf ∧
      rf.frequency = rx2Freq mi
  | _, _ => True

theorem step_windows {σ} (g : Rng σ) (m m' : MacState) (rs rs' : σ) (ev : Ev) (out : Out) (hwf : MacWF m)
    (h : step g (m, rs) ev = .ok ((m', rs'), out)) : StepWindows g m rs ev out := by
  cases ev with
  | joinAbp da nwk app => simp only [step, pure, Except.pure, Except.ok.injEq, Prod.mk.injEq] at h; rw [← h.2]; trivial
  | setAdr on => simp only [step, pure, Except.pure, Except.ok.injEq, Prod.mk.injEq] at h; rw [← h.2]; trivial
  | setDr dr => simp only [step, pure, Except.pure, Except.ok.injEq, Prod.mk.injEq] at h; rw [← h.2]; trivial
  | rxc v snr mp =>
    unfold step at h
    simp only at h
    obtain ⟨rf, hrf, h⟩ := Except.bind_eq_ok h
    obtain ⟨⟨o, m2⟩, _, h⟩ := Except.bind_eq_ok h
    simp only [pure, Except.pure, Except.ok.injEq, Prod.mk.injEq] at h
    obtain ⟨_, rfl⟩ := h
    unfold macRxcConfig at hrf
    obtain ⟨txDr, htx, hrf⟩ := Except.bind_eq_ok hrf
    unfold rx2RfConfig at hrf
    obtain ⟨d2, hd2, hrf⟩ := Except.bind_eq_ok hrf
    obtain ⟨dd, hdd, _⟩ := window_dr_defined m _ _ _ _ hrf
    exact ⟨txDr, d2, htx, hd2, hrf, by rw [hdd]; rfl⟩
  | joinOtaa fault rx1 rx2 mp1 mp2 =>
    obtain ⟨jo, m1, o, hj, _, _, ht⟩ := step_joinOtaa_inv g m m' rs rs' fault rx1 rx2 mp1 mp2 out h
    obtain ⟨tx, hw, d1, d2⟩ := join_windows g m m1 hwf rs rs' jo hj
    have : ∃ resp, out = .join jo resp := by
      cases hjr : joinRes fault rx1 rx2 with
      | some j => simp only [hjr] at ht; exact ⟨_, ht.2⟩
      | none => simp only [hjr] at ht; exact ⟨_, ht.2⟩
    obtain ⟨resp, rfl⟩ := this
    exact ⟨tx, m1, rs', hj, hw, d1, d2⟩
  | uplink data fport conf fault rx1 rx2 mp1 mp2 =>
    unfold step at h
    simp only at h
    obtain ⟨⟨o, m1, rs1⟩, hsend, h⟩ := Except.bind_eq_ok h
    cases o with
    | none =>
      simp only [pure, Except.pure, Except.ok.injEq, Prod.mk.injEq] at h
      rw [← h.2]; trivial
    | some so =>
      obtain ⟨tx, hw, d1, d2⟩ := send_windows g m m1 hwf data fport conf rs rs1 so hsend
      simp only at h
      cases fault with
      | none =>
        simp only at h
        obtain ⟨⟨r, dl, m2⟩, _, h⟩ := Except.bind_eq_ok h
        simp only [pure, Except.pure, Except.ok.injEq, Prod.mk.injEq] at h
        rw [← h.2]
        exact ⟨tx, m1, rs1, hsend, hw, d1, d2⟩
      | some k =>
        simp only at h
        obtain ⟨m2, _, h⟩ := Except.bind_eq_ok h
        simp only [pure, Except.pure, Except.ok.injEq, Prod.mk.injEq] at h
        rw [← h.2]
        exact ⟨tx, m1, rs1, hsend, hw, d1, d2⟩

/-- every state along a chain of valid events from a well-formed state is well-formed -/
theorem chain_wf {σ} (g : Rng σ) (ms ms' : MacState × σ) (t : List (Ev × Out)) (hwf : MacWF ms.1)
    (hv : ∀ x ∈ t, validEv ms.1.region.id x.1 = true) (h : Chain g ms t ms') :
    MacWF ms'.1 ∧ ms'.1.region.id = ms.1.region.id := by
  induction t generalizing ms with
  | nil => simp only [Chain] at h; subst h; exact ⟨hwf, rfl⟩
  | cons x rest ih =>
    obtain ⟨ev, out⟩ := x
    simp only [Chain] at h
    obtain ⟨⟨m1, s1⟩, hs, hrest⟩ := h
    have hk : Keeps ms.1 m1 := (step_safe g ms.1 ms.2 ev hwf (hv (ev, out) List.mem_cons_self)).elim hs
    obtain ⟨h1, h2⟩ := ih (m1, s1) hk.1 (fun x hx => by rw [hk.2.1]; exact hv x (List.mem_cons_of_mem _ hx)) hrest
    exact ⟨h1, by rw [h2, hk.2.1]⟩

/-- **C10 over every history.**  Take any history of valid events from a well-formed state, any
random stream, and ANY position `i` of it.  With `mi` the state the history reached just before
event `i`: an uplink hands the radio the TxConfig of the channel selected and RX1/RX2 configurations
that are exactly those of that channel and data rate under `mi`'s parameters — RX1 on the paired
downlink frequency (DlChannelReq mappings included) at the regional table's rate for (rate actually
used, `mi`'s RX1DROffset), RX2 on `mi`'s negotiated-or-default frequency and rate, delays `mi`'s RX1
delay and + 1 s (join: 5 s / 6 s) — whatever MAC commands arrive later; a Class C reception listens
with `mi`'s RX2 parameters. -/
theorem history_windows {σ} (g : Rng σ) (m : MacState) (rs : σ) (hwf : MacWF m) (evs : List Ev)
    (hv : ∀ ev ∈ evs, validEv m.region.id ev = true) (ms' : MacState × σ) (outs : List Out)
    (h : run g (m, rs) evs = .ok (ms', outs)) (i : Nat) (ev : Ev) (out : Out)
    (hi : (evs.zip outs)[i]? = some (ev, out)) :
    ∃ mi rsi, Chain g (m, rs) ((evs.zip outs).take i) (mi, rsi) ∧ MacWF mi ∧ mi.region.id = m.region.id ∧
      StepWindows g mi rsi ev out := by
  have hc := run_chain g (m, rs) ms' evs outs h
  obtain ⟨⟨mi, rsi⟩, ⟨mi', rsi'⟩, h1, hstep, _⟩ := chain_at g (m, rs) ms' (evs.zip outs) i ev out hc hi
  obtain ⟨hwfi, hidi⟩ := chain_wf g (m, rs) (mi, rsi) _ hwf
    (fun x hx => hv x.1 (List.of_mem_zip (List.mem_of_mem_take hx)).1) h1
  exact ⟨mi, rsi, h1, hwfi, hidi, step_windows g mi mi' rsi rsi' ev out hwfi hstep⟩


/-! non-vacuity of the history theorem: DlChannelReq for channels 0–2 accepted in RX1 of the first
uplink, RXParamSetupReq (RX2 → DR3) + RXTimingSetupReq (3 s) accepted in RX2 of the second.  The
second uplink already opens RX1 on the new downlink frequency; its RX2 — handed out before the
RXParamSetupReq arrived — is still the default SF12, the third uplink's RX2 is SF9. -/
def lcg : Rng Nat := fun x => ((x * 1103515245 + 12345) / 65536, x * 1103515245 + 12345)

def dl (w : Nat) (fopts : List Nat) : Option (RxView × Int) :=
  some (.data { len := 30, confirmed := false, fcnt16 := w, micFcnt := some w, fopts := fopts, fport := some 1, payload := [1] }, 5)

def demoHistory : List Ev :=
  [ .joinAbp 7 1 2,
    .uplink [1] 1 false none (dl 1 [0x0A, 0, 0xD2, 0xAD, 0x84, 0x0A, 1, 0xD2, 0xAD, 0x84, 0x0A, 2, 0xD2, 0xAD, 0x84]) none 51 51,
    .uplink [2] 1 false none none (dl 2 [0x05, 0x23, 0xD2, 0xAD, 0x84, 0x08, 0x03]) 51 51,
    .uplink [3] 1 false none none none 51 51 ]

def winOf (o : Out) : List Int :=
  match o with
  | .up so _ _ => [so.tx.rf.frequency, so.tx.rx1.frequency, so.tx.rx1.sf, so.tx.rx2.frequency, so.tx.rx2.sf]
  | _ => []

example : ∀ ev ∈ demoHistory, validEv .EU868 ev = true := by decide
example : MacWF (MacState.init (RegionState.init .EU868) 14 0) := by decide
example : (run lcg (MacState.init (RegionState.init .EU868) 14 0, 1) demoHistory).toOption.map
      (fun r => (r.2.map winOf, r.1.1.cfg.rx1Delay)) =
    some ([[], [868300000, 868300000, 12, 869525000, 12], [868500000, 869525000, 12, 869525000, 12],
           [868300000, 869525000, 12, 869525000, 9]], 3000) := by decide +kernel

/-! ## extended histories (builder M): the windows, the delays and the RXC configuration used BETWEEN the windows -/

/-- **the RXC configuration of state `mi`** (`get_rxc_config`): the RX2 frequency in force in `mi` at
the RX2 data rate in force in `mi` for `mi`'s own uplink data rate -/
def RxcOf (mi : MacState) (rf : RfConfig) : Prop :=
  macRxcConfig mi = .ok rf ∧ ∃ txDr d2, drOfNat mi.cfg.dataRate = .ok txDr ∧ rx2Dr mi txDr = .ok d2 ∧
    buildRfConfig mi (rx2Freq mi) d2 txDr = .ok rf ∧ rf.frequency = rx2Freq mi

theorem rxcOf_of (m : MacState) (rf : RfConfig) (hrf : macRxcConfig m = .ok rf) : RxcOf m rf := by
  refine ⟨hrf, ?_⟩
  unfold macRxcConfig at hrf
  obtain ⟨txDr, htx, hrf⟩ := Except.bind_eq_ok hrf
  unfold rx2RfConfig at hrf
  obtain ⟨d2, hd2, hrf⟩ := Except.bind_eq_ok hrf
  obtain ⟨dd, hdd, _⟩ := window_dr_defined m _ _ _ _ hrf
  exact ⟨txDr, d2, htx, hd2, hrf, by rw [hdd]; rfl⟩

/-- what the receive procedure started in `m1` (the state `send` / `join_otaa` left, `mi` being the
state the event starts in) uses BETWEEN the windows: a Class C device listens on `get_rxc_config` of
`mi` — before RX1, and again before RX2 whatever it heard and accepted before RX1 —, and the RX2 delay
read after RX1 closed without a response is still the one of the state the frame was built in -/
def BetweenOf (cc join : Bool) (mi m1 : MacState) (fault : Option FaultPos) (c1 : List (RxView × Int))
    (rx1 : Option (RxView × Int)) (mp1 : Nat) : Prop :=
  (cc = true → ∃ rf, RxcOf mi rf ∧ macRxcConfig m1 = .ok rf ∧
    ∀ h1 ma, winC cc m1 c1 rx1 mp1 (fault == some .before1) (fault == some .close1) = .ok (some none, h1, ma) →
      macRxcConfig ma = .ok rf) ∧
  (∀ h1 ma, winC cc m1 c1 rx1 mp1 (fault == some .before1) (fault == some .close1) = .ok (some none, h1, ma) →
    macRxDelay ma join true = macRxDelay m1 join true)

theorem betweenOf_of (cc join : Bool) (mi m1 : MacState) (fault : Option FaultPos) (c1 : List (RxView × Int))
    (rx1 : Option (RxView × Int)) (mp1 : Nat) (hwfi : MacWF mi) (hwf1 : MacWF m1) (hc : m1.cfg = mi.cfg)
    (hr : m1.region.id = mi.region.id) (hc1 : csWF c1 = true) (hr1 : rxWF rx1 = true) : BetweenOf cc join mi m1 fault c1 rx1 mp1 := by
  constructor
  · intro _
    obtain ⟨rf, hrf, _⟩ := macRxcConfig_tot mi hwfi
    refine ⟨rf, rxcOf_of mi rf hrf, by rw [macRxcConfig_congr mi m1 hc hr]; exact hrf, ?_⟩
    intro h1 ma hw
    have hcfg := winC_none_cfg _ _ _ _ _ _ _ _ _ hw
    have hk : Keeps m1 ma := (winC_tot cc m1 c1 rx1 mp1 _ _ hwf1 hc1 hr1).elim hw
    rw [macRxcConfig_congr mi ma (hcfg.trans hc) (hk.2.1.trans hr)]
    exact hrf
  · intro h1 ma hw
    have hcfg := winC_none_cfg _ _ _ _ _ _ _ _ _ hw
    cases join <;> simp only [macRxDelay, hcfg]

theorem macSend_cfg {σ} (g : Rng σ) (m m1 : MacState) (data : List Nat) (fport : Nat) (conf : Bool) (rs rs' : σ) (so : SendOut)
    (h : macSend g m data fport conf rs = .ok (some so, m1, rs')) : m1.cfg = m.cfg := by
  cases hst : m.st with
  | joined s =>
    obtain ⟨dr, tx, region', pw, r1, r2, _, _, _, hm1, _, _⟩ := macSend_joined g m s hst data fport conf rs rs' _ m1 h
    rw [hm1]
  | otaa o => rw [macSend_notJoined g m (fun s hs => by rw [hst] at hs; cases hs)] at h; cases h
  | unjoined => rw [macSend_notJoined g m (fun s hs => by rw [hst] at hs; cases hs)] at h; cases h

theorem macJoinOtaa_cfg {σ} (g : Rng σ) (m m1 : MacState) (rs rs' : σ) (jo : JoinOut)
    (h : macJoinOtaa g m rs = .ok (jo, m1, rs')) : m1.cfg = m.cfg := by
  obtain ⟨dr, tx, region', pw, r1, r2, _, _, hm1, _, _⟩ := macJoinOtaa_ok g m rs rs' jo m1 h
  rw [hm1]

/-- what the extended event at a position of an extended history must have handed to the radio, `mi`
being the state before it -/
def StepWindowsC {σ} (g : Rng σ) (mi : MacState) (rsi : σ) (ev : EvC) (out : OutC) : Prop :=
  match ev, out.out with
  | .base e, o => StepWindows g mi rsi e o
  | .uplinkC cc data fport conf fault c1 rx1 _ _, .up so _ _ =>
    ∃ tx m1 rs1, macSend g mi data fport conf rsi = .ok (some so, m1, rs1) ∧ WindowsOf mi tx so.tx ∧
      macRxDelay m1 false false = mi.cfg.rx1Delay ∧ macRxDelay m1 false true = mi.cfg.rx1Delay + 1000 ∧
      BetweenOf cc false mi m1 fault c1 rx1 so.tx.rx1.maxPayload.toNat
  | .joinC cc fault c1 rx1 _ _, .join jo _ =>
    ∃ tx m1 rs1, macJoinOtaa g mi rsi = .ok (jo, m1, rs1) ∧ WindowsOf mi tx jo.tx ∧
      macRxDelay m1 true false = 5000 ∧ macRxDelay m1 true true = 6000 ∧
      BetweenOf cc true mi m1 fault c1 rx1 jo.tx.rx1.maxPayload.toNat
  | _, _ => True

/-- one extended step: the windows handed to the radio, the delays, and what is used between the
windows are those of the state the event starts in -/
theorem stepC_windows {σ} (g : Rng σ) (m m' : MacState) (rs rs' : σ) (ev : EvC) (out : OutC) (hwf : MacWF m)
    (hv : validEvC m.region.id ev = true) (h : stepC g (m, rs) ev = .ok ((m', rs'), out)) : StepWindowsC g m rs ev out := by
  cases ev with
  | base e =>
    obtain ⟨hs, _⟩ := stepC_base g _ _ e out h
    exact step_windows g m m' rs rs' e out.out hwf hs
  | uplinkC cc data fport conf fault c1 rx1 c2 rx2 =>
    simp only [validEvC, Bool.and_eq_true, Bool.or_eq_true, bne_iff_ne, ne_eq, List.isEmpty_iff, decide_eq_true_eq] at hv
    obtain ⟨⟨⟨⟨⟨h0, hlen⟩, hc1⟩, hr1⟩, hc2⟩, hr2⟩ := hv
    unfold stepC at h
    simp only at h
    obtain ⟨⟨o, m1, rs1⟩, hsend, h⟩ := Except.bind_eq_ok h
    cases o with
    | none =>
      simp only [pure, Except.pure, Except.ok.injEq, Prod.mk.injEq] at h
      rw [← h.2]; trivial
    | some so =>
      obtain ⟨tx, hw, d1, d2⟩ := send_windows g m m1 hwf data fport conf rs rs1 so hsend
      have hk1 : Keeps m m1 := (macSend_safe g m data fport conf rs hwf
        (fun e => by rcases h0 with h0 | h0; exact absurd e h0; exact h0) hlen).elim hsend
      have hb := betweenOf_of cc false m m1 fault c1 rx1 so.tx.rx1.maxPayload.toNat hwf hk1.1
        (macSend_cfg g m m1 data fport conf rs rs1 so hsend) hk1.2.1 hc1 hr1
      simp only at h
      obtain ⟨⟨fin, hd, m2⟩, _, h⟩ := Except.bind_eq_ok h
      cases fin <;>
        (simp only [pure, Except.pure, Except.ok.injEq, Prod.mk.injEq] at h
         rw [← h.2]
         exact ⟨tx, m1, rs1, hsend, hw, d1, d2, hb⟩)
  | joinC cc fault c1 rx1 c2 rx2 =>
    simp only [validEvC, Bool.and_eq_true] at hv
    obtain ⟨⟨⟨hc1, hr1⟩, hc2⟩, hr2⟩ := hv
    unfold stepC at h
    simp only at h
    obtain ⟨⟨jo, m1, rs1⟩, hj, h⟩ := Except.bind_eq_ok h
    obtain ⟨tx, hw, d1, d2⟩ := join_windows g m m1 hwf rs rs1 jo hj
    have hk1 : Keeps m m1 := (macJoinOtaa_safe g m rs hwf).elim hj
    have hb := betweenOf_of cc true m m1 fault c1 rx1 jo.tx.rx1.maxPayload.toNat hwf hk1.1
      (macJoinOtaa_cfg g m m1 rs rs1 jo hj) hk1.2.1 hc1 hr1
    simp only at h
    obtain ⟨⟨fin, hd, m2⟩, _, h⟩ := Except.bind_eq_ok h
    cases fin <;>
      (simp only [pure, Except.pure, Except.ok.injEq, Prod.mk.injEq] at h
       rw [← h.2]
       exact ⟨tx, m1, rs1, hj, hw, d1, d2, hb⟩)

/-- **C10 over every EXTENDED history.**  Take any extended history (Class C receptions inside the
receive procedure included) of valid events from a well-formed state, any random stream, and ANY
position `i` of it.  With `mi` the state the history reached just before event `i`: `send` / `join` +
receive procedure hands the radio the TxConfig of the channel selected and RX1/RX2 configurations that
are exactly those of that channel and data rate under `mi`'s parameters (`WindowsOf`, as for plain
histories), with `mi`'s RX1 delay and + 1 s (join: 5 s / 6 s) — and that RX2 delay is still what the MAC
answers after RX1 closed without a response, whatever was heard and accepted on the RXC parameters
before; a Class C device listens between TX and RX1, and again between RX1 and RX2, on `get_rxc_config`
of `mi` (`RxcOf`: `mi`'s RX2 frequency and data rate; the annotation of the event is that
configuration's payload limit) — although frames accepted there have moved the counters in between.  Events of
`Model/History.lean` as in `history_windows`. -/
theorem historyC_windows {σ} (g : Rng σ) (m : MacState) (rs : σ) (hwf : MacWF m) (evs : List EvC)
    (hv : ∀ ev ∈ evs, validEvC m.region.id ev = true) (ms' : MacState × σ) (outs : List OutC)
    (h : runC g (m, rs) evs = .ok (ms', outs)) (i : Nat) (ev : EvL) (out : OutC)
    (hi : ((annotC g (m, rs) evs).zip outs)[i]? = some (ev, out)) :
    ∃ mi rsi, ChainC g (m, rs) (((annotC g (m, rs) evs).zip outs).take i) (mi, rsi) ∧ MacWF mi ∧ mi.region.id = m.region.id ∧
      ev.1 = rxcMp mi ∧ StepWindowsC g mi rsi ev.2 out := by
  have hc := runC_chain g (m, rs) ms' evs outs h
  obtain ⟨⟨mi, rsi⟩, ⟨mi', rsi'⟩, h1, hmp, hstep, _⟩ := chainC_at g (m, rs) ms' _ i ev out hc hi
  have hvz : ∀ x ∈ (annotC g (m, rs) evs).zip outs, validEvC m.region.id x.1.2 = true :=
    fun x hx => hv _ (mem_annot_zip g _ evs outs x hx)
  obtain ⟨hwfi, hidi⟩ := chainC_wf g (m, rs) (mi, rsi) _ hwf (fun x hx => hvz x (List.mem_of_mem_take hx)) h1
  simp only at hwfi hidi
  refine ⟨mi, rsi, h1, hwfi, hidi, hmp, stepC_windows g mi mi' rsi rsi' ev.2 out hwfi ?_ hstep⟩
  rw [hidi]
  exact hvz _ (List.mem_of_getElem? hi)

/-- **C10 on the async front-end, for EVERY script, both classes**: a session of the async front-end
model that returns is a run of the extended history of its calls (same final MAC state and generator
state, the front-end's answers and transmitted frames call by call), and `StepWindowsC` holds at every
position of it.  (`async_send_windows` / `async_join_windows` read the radio and timer CALLS of one
`send` / `join` off the script; this is the statement along whole sessions.) -/
theorem asyncC_windows {σ} (g : Rng σ) (cfg : DevCfg) (d : DevRun) (rs : σ) (hwf : MacWF d.m)
    (ops : List AsyncOp) (hv : ∀ op ∈ ops, op.valid d.m.region.id = true)
    (obs : List OpObs) (d' : DevRun) (rs' : σ) (h : asyncOps g cfg d rs ops = .ok (obs, d', rs')) :
    ∃ outs, runC g (d.m, rs) (abstractSessionC cfg ops) = .ok ((d'.m, rs'), outs) ∧ AllRel ObsRel obs outs ∧
      ∀ (i : Nat) (ev : EvL) (out : OutC), ((annotC g (d.m, rs) (abstractSessionC cfg ops)).zip outs)[i]? = some (ev, out) →
        ∃ mi rsi, ChainC g (d.m, rs) (((annotC g (d.m, rs) (abstractSessionC cfg ops)).zip outs).take i) (mi, rsi) ∧ MacWF mi ∧
          mi.region.id = d.m.region.id ∧ ev.1 = rxcMp mi ∧ StepWindowsC g mi rsi ev.2 out := by
  obtain ⟨outs, hrun, hobs⟩ := asyncOps_runC g cfg d rs ops obs d' rs' h
  refine ⟨outs, hrun, hobs, fun i ev out hi => ?_⟩
  refine historyC_windows g d.m rs hwf _ ?_ _ outs hrun i ev out hi
  intro e he
  obtain ⟨op, hop, rfl⟩ := List.mem_map.mp he
  exact abstractOp_valid cfg _ op (hv op hop)


/-! non-vacuity over extended histories: a Class C device.  Procedure 1: a frame accepted on the RXC
parameters between TX and RX1, then RXParamSetupReq (RX2 → DR3, RX1DROffset 2) + RXTimingSetupReq (3 s)
accepted in RX1.  Procedure 2 opens RX2 at SF9 and listens between the windows with the NEW RXC
configuration (payload limit 123 instead of 59), where it accepts another frame; then a join procedure
that hears frames on the RXC parameters.  Procedure 1 itself — built before the commands arrived —
has RX2 at SF12 and RXC limit 59. -/
def dlC (w : Nat) : RxView × Int :=
  (.data { len := 14, confirmed := false, fcnt16 := w, micFcnt := some w, fopts := [], fport := some 1, payload := [w] }, 5)

def demoHistoryC : List EvC :=
  [ .base (.joinAbp 7 1 2),
    .uplinkC true [1] 1 false none [dlC 1] (dl 2 [0x05, 0x23, 0xD2, 0xAD, 0x84, 0x08, 0x03]) [] none,
    .uplinkC true [2] 1 false none [] none [dlC 3] none,
    .joinC true none [dlC 9] none [(.garbage, 0)] none ]

def winOfC (o : OutC) : List Int :=
  match o.out with
  | .join jo _ => [jo.tx.rf.frequency, jo.tx.rx1.frequency, jo.tx.rx1.sf, jo.tx.rx2.frequency, jo.tx.rx2.sf]
  | oo => winOf oo

example : ∀ ev ∈ demoHistoryC, validEvC .EU868 ev = true := by decide
example : (runC lcg (MacState.init (RegionState.init .EU868) 14 0, 1) demoHistoryC).toOption.map
      (fun r => (r.2.map winOfC, r.2.map (fun o => o.heard.length), r.1.1.cfg.rx1Delay)) =
    some ([[], [868300000, 868300000, 12, 869525000, 12], [868500000, 868500000, 12, 869525000, 9],
           [868100000, 868100000, 12, 869525000, 9]], [0, 2, 1, 0], 3000) := by decide +kernel
example : limitsC lcg (MacState.init (RegionState.init .EU868) 14 0, 1) demoHistoryC = [59, 59, 123, 123] := by decide +kernel

/-! ## the device front-ends open the windows the MAC computed at TX time, for every script

`Lemmas/RefineCalls.lean` reads the radio and timer calls of the async front-end model off ANY
script: after the transmission the calls fall into an RX1 segment followed by an RX2 segment; every
window set-up of a segment uses the configuration returned BY VALUE by `Mac::send` / `Mac::join_otaa`
— which `send_windows` / `join_windows` identify as `WindowsOf` the state the frame was built in — and
the board's window buffer; every timer is `delay + tx_ms − lead` for the RX1 / RX2 delay of that state,
whatever is handled in between (Class C frames: MAC commands ignored; a frame in RX1 answered
`NoUpdate`: nothing changes).  The non-blocking state machine keeps the windows in its state
(`nb_windows`) and requests exactly them (`nb_rxRequest`). -/

/-- **async `send`, every script, both classes**: the frame goes out with the TxConfig, and the
windows are opened with the RX1 / RX2 configurations, of the channel and data rate actually used under
the parameters of the state `send` met (`WindowsOf`); the timers are that state's RX1 delay (+ 1 s)
+ time on air − lead -/
theorem async_send_windows {σ} (g : Rng σ) (cfg : DevCfg) (d : DevRun) (hwf : MacWF d.m) (data : List Nat) (port : Nat)
    (conf : Bool) (rs : σ) (res : DevResult) (d' : DevRun) (rs' : σ)
    (h : asyncSend g cfg d data port conf rs = .ok (res, d', rs')) :
    (∃ m1 rs1, macSend g d.m data port conf rs = .ok (none, m1, rs1) ∧ d'.calls = d.calls) ∨
    ∃ so m1 rs1 tx, macSend g d.m data port conf rs = .ok (some so, m1, rs1) ∧ WindowsOf d.m tx so.tx ∧
      (d'.calls = Call.tx so.tx (frameLen so.frame) :: d.calls ∨
       ∃ seg1 seg2, d'.calls = seg2 ++ seg1 ++ Call.reset :: Call.tx so.tx (frameLen so.frame) :: d.calls ∧
         (∀ c ∈ seg1, WinCall cfg so.tx.rx1 (d.m.cfg.rx1Delay + cfg.txMs - cfg.lead) c) ∧
         (∀ c ∈ seg2, WinCall cfg so.tx.rx2 (d.m.cfg.rx1Delay + 1000 + cfg.txMs - cfg.lead) c)) := by
  rcases asyncSend_calls g cfg d data port conf rs res d' rs' h with hn | ⟨so, m1, rs1, hsend, hc⟩
  · exact Or.inl hn
  · obtain ⟨tx, hw, hd1, hd2⟩ := send_windows g d.m m1 hwf data port conf rs rs1 so hsend
    refine Or.inr ⟨so, m1, rs1, tx, hsend, hw, ?_⟩
    unfold SendCalls at hc
    rw [hd1, hd2] at hc
    exact hc

/-- **async `join`**: the same with the join delays 5 s / 6 s -/
theorem async_join_windows {σ} (g : Rng σ) (cfg : DevCfg) (d : DevRun) (hwf : MacWF d.m) (rs : σ)
    (res : DevResult) (d' : DevRun) (rs' : σ) (h : asyncJoin g cfg d rs = .ok (res, d', rs')) :
    ∃ jo m1 rs1 tx, macJoinOtaa g d.m rs = .ok (jo, m1, rs1) ∧ WindowsOf d.m tx jo.tx ∧
      (d'.calls = Call.tx jo.tx 23 :: d.calls ∨
       ∃ seg1 seg2, d'.calls = seg2 ++ seg1 ++ Call.reset :: Call.tx jo.tx 23 :: d.calls ∧
         (∀ c ∈ seg1, WinCall cfg jo.tx.rx1 (5000 + cfg.txMs - cfg.lead) c) ∧
         (∀ c ∈ seg2, WinCall cfg jo.tx.rx2 (6000 + cfg.txMs - cfg.lead) c)) := by
  obtain ⟨jo, m1, rs1, hjoin, hc⟩ := asyncJoin_calls g cfg d rs res d' rs' h
  obtain ⟨tx, hw, hd1, hd2⟩ := join_windows g d.m m1 hwf rs rs1 jo hjoin
  refine ⟨jo, m1, rs1, tx, hjoin, hw, ?_⟩
  unfold JoinCalls at hc
  rw [hd1, hd2] at hc
  exact hc

/-- **non-blocking front-end**: while an exchange is in progress, the windows the state machine
carries are `WindowsOf` the state in which the frame was built (`pre`, the history's state), and the
delays it reads from the MAC are that state's -/
theorem nb_windows {σ} (g : Rng σ) (pre : MacState × σ) (x : NbGhost) (r : NbRun) (rs : σ) (hwf : MacWF pre.1)
    (hinv : NbInv g pre (some x) r rs) :
    ∃ join tx txc, (r.st = .sendingData join tx ∨ (∃ second t, r.st = .waitingForRxWindow join tx second t) ∨
        (∃ second t, r.st = .waitingForRx join tx second t)) ∧ WindowsOf pre.1 txc tx ∧
      macRxDelay r.m join false = (if join then 5000 else pre.1.cfg.rx1Delay) ∧
      macRxDelay r.m join true = (if join then 6000 else pre.1.cfg.rx1Delay + 1000) := by
  have key : ∀ join tx, Started g pre x.kind join tx r.m rs →
      ∃ txc, WindowsOf pre.1 txc tx ∧ macRxDelay r.m join false = (if join then 5000 else pre.1.cfg.rx1Delay) ∧
        macRxDelay r.m join true = (if join then 6000 else pre.1.cfg.rx1Delay + 1000) := by
    intro join tx hs
    unfold Started at hs
    cases hk : x.kind with
    | some dpc =>
      obtain ⟨dd, p, c⟩ := dpc
      rw [hk] at hs
      obtain ⟨rfl, o, hsend, rfl⟩ := hs
      obtain ⟨txc, hw, h1, h2⟩ := send_windows g pre.1 r.m hwf dd p c pre.2 rs o hsend
      exact ⟨txc, hw, by simpa using h1, by simpa using h2⟩
    | none =>
      rw [hk] at hs
      obtain ⟨rfl, o, hjoin, rfl⟩ := hs
      obtain ⟨txc, hw, h1, h2⟩ := join_windows g pre.1 r.m hwf pre.2 rs o hjoin
      exact ⟨txc, hw, by simpa using h1, by simpa using h2⟩
  unfold NbInv at hinv
  cases hst : r.st with
  | idle => rw [hst] at hinv; cases hinv.1
  | sendingData join tx =>
    rw [hst] at hinv
    obtain ⟨⟨k, a, c, e, hs, _⟩, _⟩ := hinv
    cases e
    obtain ⟨txc, h1, h2, h3⟩ := key join tx hs
    exact ⟨join, tx, txc, Or.inl rfl, h1, h2, h3⟩
  | waitingForRxWindow join tx second t =>
    rw [hst] at hinv
    obtain ⟨k, a, c, e, hs, _⟩ := hinv
    cases e
    obtain ⟨txc, h1, h2, h3⟩ := key join tx hs
    exact ⟨join, tx, txc, Or.inr (Or.inl ⟨second, t, rfl⟩), h1, h2, h3⟩
  | waitingForRx join tx second t =>
    rw [hst] at hinv
    obtain ⟨k, a, c, e, hs, _⟩ := hinv
    cases e
    obtain ⟨txc, h1, h2, h3⟩ := key join tx hs
    exact ⟨join, tx, txc, Or.inr (Or.inr ⟨second, t, rfl⟩), h1, h2, h3⟩

/-- … and at the window's time it requests exactly that window from the radio: RX1 first, then RX2 -/
theorem nb_rxRequest {σ} (g : Rng σ) (cfg : NbCfg) (r : NbRun) (rs : σ) (items : List NbItem) (join : Bool) (tx : TxOut)
    (second : Bool) (t : Nat) (hst : r.st = .waitingForRxWindow join tx second t) (resp : NbResp) (r' : NbRun) (rs' : σ)
    (h : nbEvent g cfg r rs .timeout items = .ok (resp, r', rs')) :
    r'.calls = NbCall.rxRequest (if second then tx.rx2 else tx.rx1) :: r.calls := by
  unfold nbEvent nbStep at h
  simp only [hst, next_eq] at h
  cases hit : headItem items <;> simp only [hit] at h
  · obtain ⟨close, _, h⟩ := Except.bind_eq_ok h
    simp only [pure, Except.pure, Except.ok.injEq, Prod.mk.injEq] at h
    obtain ⟨_, rfl, _⟩ := h; rfl
  · simp only [pure, Except.pure, Except.ok.injEq, Prod.mk.injEq] at h
    obtain ⟨_, rfl, _⟩ := h; rfl
  · obtain ⟨close, _, h⟩ := Except.bind_eq_ok h
    simp only [pure, Except.pure, Except.ok.injEq, Prod.mk.injEq] at h
    obtain ⟨_, rfl, _⟩ := h; rfl
  · obtain ⟨close, _, h⟩ := Except.bind_eq_ok h
    simp only [pure, Except.pure, Except.ok.injEq, Prod.mk.injEq] at h
    obtain ⟨_, rfl, _⟩ := h; rfl

/-- the hypotheses are satisfiable: a Class C `send` whose RX1 set-up is EU868 868.1–868.5 MHz at the
uplink's rate, RX2 869.525 MHz, timers 1000 + 57 − 15 and 2000 + 57 − 15 -/
example : (asyncSend (fun (x : Nat) => (x, x + 1)) { lead := 15, buffer := 40, classC := false, txMs := 57 }
      { m := macJoinAbp (MacState.init (RegionState.init .EU868) 14 0) 7 1 2, script := [], calls := [], downlinks := [] }
      [1] 1 false 1).toOption.map (fun r => r.2.1.calls.filterMap (fun c => match c with | .at t => some t | _ => none)) =
    some [2042, 1042] := by decide +kernel


end C10

#print axioms C10.async_send_windows
#print axioms C10.async_join_windows
#print axioms C10.nb_windows
#print axioms C10.nb_rxRequest
#print axioms C10.rx1_eu868
#print axioms C10.rx1_eu433
#print axioms C10.rx1_us915
#print axioms C10.rx1_au915
#print axioms C10.rx1_as923
#print axioms C10.rx1_in865_partial
#print axioms C10.rx_datarate_total
#print axioms C10.rx2_default
#print axioms C10.del_to_delay
#print axioms C10.delay_spec
#print axioms C10.rxWindows_spec
#print axioms C10.window_dr_defined
#print axioms C10.startDelay_spec
#print axioms C10.selectTxChannel_paired
#print axioms C10.send_windows
#print axioms C10.join_windows
#print axioms C10.step_windows
#print axioms C10.chain_wf
#print axioms C10.history_windows
#print axioms C10.stepC_windows
#print axioms C10.historyC_windows
#print axioms C10.asyncC_windows
