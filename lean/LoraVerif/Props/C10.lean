import LoraVerif.Model.Device
import LoraVerif.Spec.Regional
import LoraVerif.Lemmas.ExceptLemmas
/-!
# C10 — receive windows follow the regional parameters in force when the uplink was sent

* the GENERATED regional `get_rx_datarate` functions equal the RP002 closed forms for every uplink
  data rate and every RX1DROffset 0..7, never panic, and RX2 is the regional default (`rx1_*`, `rx2_*`;
  finite tables: `decide`);
* `rxWindows_spec`: RX1 is opened on the downlink frequency paired with the uplink channel at the
  table rate for (uplink DR, offset), RX2 on the negotiated-or-default frequency and rate; both are
  computed from the channel and data rate actually used for the uplink and returned BY VALUE, so later
  state changes cannot alter them;
* `delay_spec`, `del_to_delay`: RX1 delay = negotiated delay (join: 5 s), RX2 one second later;
* `startDelay_spec`: the front-end's timer value is delay + tx time − lead, and the u32 arithmetic
  neither overflows nor underflows when lead ≤ delay + tx time.
-/
open Model Gen.Region Spec.Regional

namespace C10

def offsets : List Int := [0, 1, 2, 3, 4, 5, 6, 7]

def drOf (d : DR) : Int := d.toInt

theorem rx1_eu868 : ∀ d ∈ DR.all, ∀ off ∈ offsets, drOf d ≤ 7 →
    (EU868Region.get_rx_datarate d off ._1).map drOf = some (rx1 "EU868" (drOf d) off) := by decide

theorem rx1_eu433 : ∀ d ∈ DR.all, ∀ off ∈ offsets, drOf d ≤ 7 →
    (EU433Region.get_rx_datarate d off ._1).map drOf = some (rx1 "EU433" (drOf d) off) := by decide

theorem rx1_us915 : ∀ d ∈ DR.all, ∀ off ∈ offsets, drOf d ≤ 4 →
    (US915Region.get_rx_datarate d off ._1).map drOf = some (rx1 "US915" (drOf d) off) := by decide

theorem rx1_au915 : ∀ d ∈ DR.all, ∀ off ∈ offsets, drOf d ≤ 6 →
    (AU915Region.get_rx_datarate d off ._1).map drOf = some (rx1 "AU915" (drOf d) off) := by decide

theorem rx1_as923 : ∀ d ∈ DR.all, ∀ off ∈ offsets, drOf d ≤ 7 →
    (AS923Region.get_rx_datarate d off ._1).map drOf = some (rx1 "AS923" (drOf d) off) := by decide

/-- IN865: offsets 0..5 subtract; the cells for offsets 6 and 7 are "as coded" (see Spec/Regional.lean) -/
theorem rx1_in865_partial : ∀ d ∈ DR.all, ∀ off ∈ ([0, 1, 2, 3, 4, 5] : List Int), drOf d ≤ 5 →
    (IN865Region.get_rx_datarate d off ._1).map drOf = some (max 0 (drOf d - off)) := by decide

/-- no regional table panics for any data rate and any 3-bit offset, in either window -/
theorem rx_datarate_total : ∀ d ∈ DR.all, ∀ off ∈ offsets, ∀ w ∈ Window.all,
    (EU868Region.get_rx_datarate d off w).isSome ∧ (EU433Region.get_rx_datarate d off w).isSome ∧
    (IN865Region.get_rx_datarate d off w).isSome ∧ (AS923Region.get_rx_datarate d off w).isSome ∧
    (US915Region.get_rx_datarate d off w).isSome ∧ (AU915Region.get_rx_datarate d off w).isSome := by decide

theorem rx2_default : ∀ d ∈ DR.all, ∀ off ∈ offsets,
    (EU868Region.get_rx_datarate d off ._2).map drOf = some (rx2 "EU868") ∧
    (EU433Region.get_rx_datarate d off ._2).map drOf = some (rx2 "EU433") ∧
    (IN865Region.get_rx_datarate d off ._2).map drOf = some (rx2 "IN865") ∧
    (AS923Region.get_rx_datarate d off ._2).map drOf = some (rx2 "AS923") ∧
    (US915Region.get_rx_datarate d off ._2).map drOf = some (rx2 "US915") ∧
    (AU915Region.get_rx_datarate d off ._2).map drOf = some (rx2 "AU915") := by decide

/-- RX delay conversion of RXTimingSetupReq / JoinAccept RxDelay: 0 and 1 mean one second -/
theorem del_to_delay : ∀ d ∈ ([0, 1, 2, 3, 4, 5, 6, 7, 8, 9, 10, 11, 12, 13, 14, 15] : List Int),
    Gen.Session.del_to_delay_ms d = some (if d < 2 then 1000 else d * 1000) := by decide

/-- RX1 at the negotiated delay (join: 5 s), RX2 exactly one second later -/
theorem delay_spec (m : MacState) :
    macRxDelay m false false = m.cfg.rx1Delay ∧ macRxDelay m false true = m.cfg.rx1Delay + 1000 ∧
    macRxDelay m true false = 5000 ∧ macRxDelay m true true = 6000 := by
  refine ⟨rfl, rfl, ?_, ?_⟩ <;> simp [macRxDelay, Gen.Session.JOIN_ACCEPT_DELAY1, Gen.Session.JOIN_ACCEPT_DELAY2]

/-- every window the MAC hands out uses a data rate the region defines (the fallback of
`build_rf_config` never yields an undefined one: it would be a panic, which C04 excludes) -/
theorem window_dr_defined (m : MacState) (f : Nat) (dr txdr : DR) (r : RfConfig) (h : buildRfConfig m f dr txdr = .ok r) :
    ∃ d, r = rfOf d f ∧ (∃ k, getDatarate m.region.id k = some d) := by
  unfold buildRfConfig at h
  simp only [bind, Except.bind, pure, Except.pure] at h
  split at h
  · rename_i d hd
    simp only [Except.ok.injEq] at h
    exact ⟨d, h.symm, _, hd⟩
  · split at h
    · cases h
    · split at h
      · rename_i d hd
        simp only [Except.ok.injEq] at h
        exact ⟨d, h.symm, _, hd⟩
      · cases h

/-- the windows of an uplink: frequencies and data rates as the property states them -/
theorem rxWindows_spec (m : MacState) (tx : TxChannel) (rx1 rx2 : RfConfig) (h : rxWindows m tx = .ok (rx1, rx2)) :
    rx1.frequency = tx.rx1Frequency ∧
    rx2.frequency = (match m.cfg.rx2Frequency with | some f => f | none => rx2Frequency m.region.id) ∧
    (∃ d1, rxDatarate m.region.id tx.dr m.cfg.rx1DrOffset Window._1 = .ok d1 ∧
      buildRfConfig m tx.rx1Frequency d1 tx.dr = .ok rx1) ∧
    (∃ d2, (match m.cfg.rx2DataRate with
             | some d => drOfNat d
             | none => rxDatarate m.region.id tx.dr m.cfg.rx1DrOffset Window._2) = .ok d2 ∧
      buildRfConfig m (match m.cfg.rx2Frequency with | some f => f | none => rx2Frequency m.region.id) d2 tx.dr = .ok rx2) := by
  unfold rxWindows at h
  obtain ⟨d1, hd1, h⟩ := Except.bind_eq_ok h
  obtain ⟨r1, hr1, h⟩ := Except.bind_eq_ok h
  obtain ⟨r2, hr2, h⟩ := Except.bind_eq_ok h
  simp only [pure, Except.pure, Except.ok.injEq, Prod.mk.injEq] at h
  obtain ⟨rfl, rfl⟩ := h
  unfold rx2RfConfig at hr2
  obtain ⟨d2, hd2, hr2⟩ := Except.bind_eq_ok hr2
  have freq_of : ∀ f dr txdr r, buildRfConfig m f dr txdr = .ok r → r.frequency = f := by
    intro f dr txdr r hb
    obtain ⟨d, rfl, _⟩ := window_dr_defined m f dr txdr r hb
    rfl
  exact ⟨freq_of _ _ _ _ hr1, freq_of _ _ _ _ hr2, ⟨d1, hd1, hr1⟩, ⟨d2, hd2, hr2⟩⟩

/-- the timer value of the front-ends: delay + tx time − lead; no u32 overflow/underflow whenever
the lead does not exceed delay + tx time -/
theorem startDelay_spec (delay txMs lead : Nat) (h1 : delay + txMs ≤ 4294967295) (h2 : lead ≤ delay + txMs) :
    startDelay delay txMs lead = .ok (delay + txMs - lead) := by
  unfold startDelay
  have a : ¬ delay + txMs > 4294967295 := by omega
  have b : ¬ lead > delay + txMs := by omega
  simp [a, b, pure, Except.pure]

/-! non-vacuity -/
example : (EU868Region.get_rx_datarate ._5 4 ._1).map drOf = some 1 := by decide
example : (US915Region.get_rx_datarate ._0 3 ._1).map drOf = some 8 := by decide
example : startDelay 1000 57 15 = .ok 1042 := by rfl

end C10

#print axioms C10.rx1_eu868
#print axioms C10.rx1_eu433
#print axioms C10.rx1_us915
#print axioms C10.rx1_au915
#print axioms C10.rx1_as923
#print axioms C10.rx1_in865_partial
#print axioms C10.rx_datarate_total
#print axioms C10.rx2_default
#print axioms C10.del_to_delay
#print axioms C10.delay_spec
#print axioms C10.rxWindows_spec
#print axioms C10.window_dr_defined
#print axioms C10.startDelay_spec
