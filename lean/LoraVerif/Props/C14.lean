import LoraVerif.Model.PhyState
import LoraVerif.Model.Chip
import LoraVerif.Lemmas.PhyLemmas
import LoraVerif.Lemmas.PhyHistory
import LoraVerif.Lemmas.PhyOps126
import LoraVerif.Lemmas.PhyOps127
import LoraVerif.Props.C14IrqMode
/-!
# C14 — the PHY driver and the radio chip never disagree about the radio's state

Model: `Model/PhyState.lean` (`LoRa<RK>` of lib.rs over the SX126x / SX127x `RadioKind` models), the
chip's abstract state is computed from the I/O transcript by `Model/Chip.lean`.  The model is tied to
the real `LoRa` by the C14 correspondence, which compares result, transcript and
`verif_state()` call by call and evaluates the invariants I1–I5 on every generated scenario
(all call sequences up to depth 3/4 × interrupt outcomes × a fault at every I/O step × a drop at
every `await_irq`).

Proved here for ALL histories (any calls, chip contents and answers, interrupt outcomes, a fault at
any I/O step and a drop at any `await_irq` of every call), for both chip families and the LoRaWAN
adapter: `c14_invariants` — I1–I5 hold after every call, by induction over the call list with the
invariant `Inv` of `Lemmas/PhyInv.lean` (per-call preservation: `Model.Phy.apiStep_inv`,
`adapterStep_inv`; per-operation obligations: `Sx126x.opsSpec`, `Sx127x.opsSpec`; the tie between
the proof calculus and the interpreter: `wp_sound`).
Also: I5 on its own for any radio kind (`wrong_mode_refused`), the error path of I4 with the exact
transcript suffix (`fail_to_standby_spec126`), chip-side facts about the tracker, and the three
defects the invariants exposed, shown on the pre-fix model (`*_unfixed_counterexample`) and absent
after the fixes (`*_fixed`).
-/
open Model.Phy Model.Phy.M

namespace C14

variable {σ μ : Type}

/-! ### I5 — a call in the wrong mode is refused without commanding the chip -/

/-- which driver modes an operation needs -/
def modeOk : ApiCall μ → RadioMode → Bool
  | .tx, m => m == .transmit
  | .startRx, .receive _ => true
  | .startRx, _ => false
  | .completeRx _ _, .receive _ => true
  | .completeRx _ _, _ => false
  | .rx _ _, .receive _ => true
  | .rx _ _, _ => false
  | .rxSwitchChannel _, .receive _ => true
  | .rxSwitchChannel _, _ => false
  | .cad _, m => m == .cad
  | _, _ => true

/-- **I5.** For every radio kind, every driver state, every world and every environment: an
operation invoked in the wrong mode returns `InvalidRadioMode`, leaves the driver's bookkeeping
untouched and performs no I/O at all (empty transcript: the chip is not commanded). -/
theorem wrong_mode_refused (rk : RadioKindOps σ μ) (c : ApiCall μ) (env : Env) (d : DriverState σ) (w : World)
    (h : modeOk c d.radioMode = false) :
    let r := apiStep rk c env (d, w)
    r.1 = .err .InvalidRadioMode ∧ r.2.1 = d ∧ r.2.2.log = [] := by
  cases c <;> simp [modeOk] at h
  case tx =>
    simp [apiStep, apiProg, tx, bind, M.bind', M.get, M.throw, h]
  case startRx =>
    cases hm : d.radioMode <;> simp_all [apiStep, apiProg, startRx, bind, M.bind', M.get, M.throw]
  case completeRx =>
    cases hm : d.radioMode <;> simp_all [apiStep, apiProg, completeRx, bind, M.bind', M.get, M.throw]
  case rx =>
    cases hm : d.radioMode <;> simp_all [apiStep, apiProg, rx, startRx, bind, M.bind', M.get, M.throw]
  case rxSwitchChannel =>
    cases hm : d.radioMode <;> simp_all [apiStep, apiProg, rxSwitchChannel, bind, M.bind', M.get, M.throw]
  case cad =>
    simp [apiStep, apiProg, cad, bind, M.bind', M.get, M.throw, h]

/-- a whole history: the calls with their environments, threaded through `apiStep` -/
def runHistory (rk : RadioKindOps σ μ) : List (ApiCall μ × Env) → DriverState σ × World →
    List (ApiCall μ × Out ApiResult × List Ev × DriverState σ)
  | [], _ => []
  | (c, env) :: rest, s =>
    let r := apiStep rk c env s
    (c, r.1, r.2.2.log, s.1) :: runHistory rk rest r.2

/-- **I5 over all histories** (induction on the history): whatever was called before, with whatever
interrupt outcomes, faults and drops — a call made in the wrong mode commands nothing. -/
theorem refused_calls_never_touch_the_chip (rk : RadioKindOps σ μ) (h : List (ApiCall μ × Env)) (s : DriverState σ × World) :
    ∀ e ∈ runHistory rk h s, modeOk e.1 e.2.2.2.radioMode = false → e.2.1 = .err .InvalidRadioMode ∧ e.2.2.1 = [] := by
  induction h generalizing s with
  | nil => simp [runHistory]
  | cons ce rest ih =>
    obtain ⟨c, env⟩ := ce
    intro e he hm
    simp only [runHistory, List.mem_cons] at he
    rcases he with rfl | he
    · have := wrong_mode_refused rk c env s.1 s.2 hm
      exact ⟨this.1, this.2.2⟩
    · exact ih _ e he hm

/-! ### I4 — after a radio-reported failure chip and driver are in standby -/

/-- SX126x `set_standby`: either all three steps happened, in this order, or an infrastructure error -/
theorem setStandby126_spec (w : World) :
    let r := run Sx126x.setStandby w
    (r.1 = .ok () ∧ r.2.log = w.log ++ [⟨.spi [0x80, 0x00] 0, .done⟩, ⟨.busy, .done⟩, ⟨.rfOff, .done⟩]) ∨
    r.1 = .err .SPI ∨ r.1 = .err .Busy ∨ r.1 = .err .RfSwitchRx := by
  have hb : (Sx126x.setStandby : Prog Unit) = Prog.bind (intfWrite [0x80, 0x00]) (fun _ => Prog.req .rfOff) := by
    simp +decide [Sx126x.setStandby, Sx126x.op, byte, Gen.PhyCodes126.OpCode.value, Gen.PhyCodes126.OpCode.toInt,
      Gen.PhyCodes126.StandbyMode.value, Gen.PhyCodes126.StandbyMode.toInt, Rt.wrap, Rt.ITy.bits]
  intro r
  simp only [r, hb, run_bind, run_intfWrite]
  by_cases h1 : w.fault = some w.step
  · simp [h1]
  · by_cases h2 : w.fault = some (w.step + 1)
    · simp [h1, h2]
    · simp only [h1, h2, if_false, run_rfOff]
      by_cases h3 : w.fault = some (w.step + 2)
      · simp [h3]
      · simp [h3, List.append_assoc]

/-- SX126x `ensure_ready`: it only ever appends to the transcript, and fails only with an infrastructure error -/
theorem ensureReady126_spec (m : RadioMode) (w : World) :
    let r := run (Sx126x.ensureReady m) w
    (r.1 = .ok () ∧ ∃ l, r.2.log = w.log ++ l) ∨ r.1 = .err .SPI ∨ r.1 = .err .Busy := by
  intro r
  have key : (Sx126x.ensureReady m = intfWrite [0xC0, 0x00]) ∨ (Sx126x.ensureReady m = Prog.req .busy) := by
    cases m with
    | receive rm => cases rm <;> simp +decide [Sx126x.ensureReady, Sx126x.op, byte, Gen.PhyCodes126.OpCode.value, Gen.PhyCodes126.OpCode.toInt, Rt.wrap, Rt.ITy.bits]
    | _ => simp +decide [Sx126x.ensureReady, Sx126x.op, byte, Gen.PhyCodes126.OpCode.value, Gen.PhyCodes126.OpCode.toInt, Rt.wrap, Rt.ITy.bits]
  rcases key with h | h
  · simp only [r, h, run_intfWrite]
    by_cases h1 : w.fault = some w.step
    · simp [h1]
    · by_cases h2 : w.fault = some (w.step + 1)
      · simp [h1, h2]
      · simp [h1, h2]
  · simp only [r, h, run_busy]
    by_cases h1 : w.fault = some w.step <;> simp [h1]

/-- **I4, per call (SX126x).**  Whatever the state, the transcript so far and the scheduled fault:
if the error path `ensure_ready; set_standby; radio_mode = Standby; return Err(e)` reports the
radio's own error `e` (a TX/RX timeout), then no infrastructure fault happened inside it, the last
three events are the executed SetStandby (+BUSY, RF switch off) and the driver says `Standby`. -/
theorem fail_to_standby_spec126 (cfg : Sx126x.Config) (e : RadioError) (he : e = .TransmitTimeout ∨ e = .ReceiveTimeout)
    (d : DriverState Unit) (w : World) :
    let r := (failToStandby (sx126xOps cfg) e : M Unit Unit) (d, w)
    r.1 = .err e → r.2.1.radioMode = .standby ∧
      ∃ pre, r.2.2.log = w.log ++ pre ++ [⟨.spi [0x80, 0x00] 0, .done⟩, ⟨.busy, .done⟩, ⟨.rfOff, .done⟩] := by
  intro r hr
  have hne : e ≠ .SPI ∧ e ≠ .Busy ∧ e ≠ .RfSwitchRx := by rcases he with rfl | rfl <;> simp
  simp only [r, failToStandby, sx126xOps, bind, M.bind', M.get, M.call, setMode, M.modify, M.throw] at hr ⊢
  have h1 := ensureReady126_spec d.radioMode w
  generalize run (Sx126x.ensureReady d.radioMode) w = r1 at h1 hr ⊢
  obtain ⟨o1, w1⟩ := r1
  rcases h1 with ⟨ho, l, hl⟩ | ho | ho
  · simp only at ho hl; subst ho
    simp only at hr ⊢
    have h2 := setStandby126_spec w1
    generalize run Sx126x.setStandby w1 = r2 at h2 hr ⊢
    obtain ⟨o2, w2⟩ := r2
    rcases h2 with ⟨ho2, hl2⟩ | ho2 | ho2 | ho2
    · simp only at ho2 hl2; subst ho2
      simp only at hr ⊢
      exact ⟨trivial, l, by rw [hl2, hl]⟩
    all_goals (simp only at ho2; subst ho2; simp_all)
  all_goals (simp only at ho; subst ho; simp_all)


/-- chip side: whatever happened before, a transcript that ends with an executed SetStandby leaves
the SX126x in standby -/
theorem track_ends_in_standby126 (n : Needs) (t : ChipTrack) (pre : List Ev) :
    (track .sx126x n t (pre ++ [⟨.spi [0x80, 0x00] 0, .done⟩, ⟨.busy, .done⟩, ⟨.rfOff, .done⟩])).mode = .standby := by
  simp +decide [track, List.foldl_append, trackEv, step126, apply126, decode126]

/-- **I4 (SX126x), chip and driver together.** -/
theorem i4_standby_after_reported_failure126 (cfg : Sx126x.Config) (e : RadioError)
    (he : e = .TransmitTimeout ∨ e = .ReceiveTimeout) (d : DriverState Unit) (w : World) (n : Needs) (t : ChipTrack)
    (hlog : w.log = []) :
    let r := (failToStandby (sx126xOps cfg) e : M Unit Unit) (d, w)
    r.1 = .err e → r.2.1.radioMode = .standby ∧ (track .sx126x n t r.2.2.log).mode = .standby := by
  intro r hr
  obtain ⟨h1, pre, h2⟩ := fail_to_standby_spec126 cfg e he d w hr
  refine ⟨h1, ?_⟩
  rw [h2, hlog, List.nil_append]
  exact track_ends_in_standby126 n t pre

/-- SX127x `set_standby`: RegOpMode := LoRa | Standby, then the RF switch -/
theorem setStandby127_spec (w : World) :
    let r := run Sx127x.setStandby w
    (r.1 = .ok () ∧ r.2.log = w.log ++ [⟨.spi [0x81, 0x81] 0, .done⟩, ⟨.busy, .done⟩, ⟨.rfOff, .done⟩]) ∨
    r.1 = .err .SPI ∨ r.1 = .err .Busy ∨ r.1 = .err .RfSwitchRx := by
  have hb : (Sx127x.setStandby : Prog Unit) = Prog.bind (intfWrite [0x81, 0x81]) (fun _ => Prog.req .rfOff) := by
    simp +decide [Sx127x.setStandby, Sx127x.writeRegister, Sx127x.wr, byte, Gen.PhyCodes127.Register.write_addr,
      Gen.PhyCodes127.Register.toInt, Gen.PhyCodes127.LoRaMode.value, Gen.PhyCodes127.LoRaMode.toInt, Rt.wrap, Rt.orI, Rt.ITy.bits]
  intro r
  simp only [r, hb, run_bind, run_intfWrite]
  by_cases h1 : w.fault = some w.step
  · simp [h1]
  · by_cases h2 : w.fault = some (w.step + 1)
    · simp [h1, h2]
    · simp only [h1, h2, if_false, run_rfOff]
      by_cases h3 : w.fault = some (w.step + 2)
      · simp [h3]
      · simp [h3, List.append_assoc]

theorem track_ends_in_standby127 (n : Needs) (t : ChipTrack) (pre : List Ev) :
    (track .sx127x n t (pre ++ [⟨.spi [0x81, 0x81] 0, .done⟩, ⟨.busy, .done⟩, ⟨.rfOff, .done⟩])).mode = .standby := by
  simp [track, List.foldl_append, trackEv, step127]

/-- **I4 (SX127x), chip and driver together** (`ensure_ready` is a no-op on this chip). -/
theorem i4_standby_after_reported_failure127 (cfg : Sx127x.Config) (e : RadioError)
    (he : e = .TransmitTimeout ∨ e = .ReceiveTimeout) (d : DriverState Sx127x.Data) (w : World) (n : Needs) (t : ChipTrack)
    (hlog : w.log = []) :
    let r := (failToStandby (sx127xOps cfg) e : M Sx127x.Data Unit) (d, w)
    r.1 = .err e → r.2.1.radioMode = .standby ∧ (track .sx127x n t r.2.2.log).mode = .standby := by
  intro r hr
  have hne : e ≠ .SPI ∧ e ≠ .Busy ∧ e ≠ .RfSwitchRx := by rcases he with rfl | rfl <;> simp
  simp only [r, failToStandby, sx127xOps, Sx127x.ensureReady, bind, M.bind', M.get, M.call, setMode, M.modify, M.throw,
    pure, run] at hr ⊢
  have h2 := setStandby127_spec w
  generalize run Sx127x.setStandby w = r2 at h2 hr ⊢
  obtain ⟨o2, w2⟩ := r2
  rcases h2 with ⟨ho2, hl2⟩ | ho2 | ho2 | ho2
  · simp only at ho2 hl2; subst ho2
    simp only at hr ⊢
    refine ⟨trivial, ?_⟩
    rw [hl2, hlog, List.nil_append]
    exact track_ends_in_standby127 n t []
  all_goals (simp only at ho2; subst ho2; simp_all)

/-! ### chip side: the wake-up wakes, flags never clear -/

/-- a command's own effect never clears the "commanded while asleep" flag -/
theorem apply126_keeps_flag (n : Needs) (t : ChipTrack) (op : UInt8) (args : Bytes) :
    (apply126 n t op args).commandedAsleep = t.commandedAsleep := by
  unfold apply126
  cases decode126 op <;> simp only [start]
  split <;> rfl

theorem wake_up_wakes (n : Needs) (t : ChipTrack) (h : t.mode = .sleep ∨ t.mode = .rxDuty) :
    (step126 n t [0xC0, 0x00]).mode = .standby ∧ (step126 n t [0xC0, 0x00]).commandedAsleep = t.commandedAsleep := by
  rcases h with h | h <;> simp +decide [step126, pre126, apply126, decode126, h]

/-- any transaction but the wake-up that reaches a sleeping SX126x is recorded, for good -/
theorem command_to_sleeping_chip_recorded (n : Needs) (t : ChipTrack) (h : t.mode = .sleep) (op : UInt8) (args : Bytes)
    (hop : op ≠ 0xC0) : (step126 n t (op :: args)).commandedAsleep = true := by
  have : (op == 0xC0) = false := by simpa using hop
  simp [step126, apply126_keeps_flag, pre126, this, h]

/-! ### the scenario machinery used by the examples below (SX1262 board with DC-DC, SX1276 board) -/

def cfg126 : Sx126x.Config := { chip := .sx1262, tcxo := none, useDcdc := true, rxBoost := false }
def cfg127 : Sx127x.Config := { chip := .sx1276, tcxoUsed := false, txBoost := false, rxBoost := false }
def mod126 : Sx126x.ModulationParams := { sf := ._7, bw := ._125KHz, cr := ._4_5, ldro := 0, freq := 868100000 }
def mod127 : Sx127x.ModulationParams := { sf := ._7, bw := ._125KHz, cr := ._4_5, ldro := 0, freq := 868100000 }
def rxPkt : PacketParams := { preambleLength := 8, implicitHeader := false, payloadLength := 255, crcOn := true, iqInverted := true }
def txPkt : PacketParams := { preambleLength := 8, implicitHeader := false, payloadLength := 0, crcOn := true, iqInverted := false }
def chip126 : Chip := { kind := .sx126x, regs := fun _ => 0, buffer := fun _ => 0 }
def chip127 : Chip := { kind := .sx127x, regs := fun _ => 0, buffer := fun _ => 0 }
def needs126 : Needs := needsFor true false
def needs127 : Needs := needsFor false false
def duty : RxMode := .dutyCycle 1000 2000

/-- run API programs one after the other (each with a fresh transcript) and feed every transcript to the tracker -/
def scenario {σ : Type} (kind : Kind) (needs : Needs) (s : DriverState σ × World) (t : ChipTrack) :
    List (M σ Unit × Env) → (DriverState σ × World) × ChipTrack
  | [] => (s, t)
  | (m, env) :: rest =>
    let w : World := { chip := { s.2.chip with irqScript := env.irq, irqDefault := env.irqDefault },
                       log := [], step := 0, fault := env.fault, pendAt := env.pendAt }
    let r := m (s.1, w)
    scenario kind needs r.2 (track kind needs t r.2.2.log) rest

def start126 : DriverState Unit × World := ({ rk := (), syncWord := 0x3444 }, { chip := chip126 })
def start127 : DriverState Sx127x.Data × World := ({ rk := {}, syncWord := 0x3444 }, { chip := chip127 })
def ops126 := sx126xOps cfg126
def ops127 := sx127xOps cfg127

/-! ### the three defects, on the model of the code before the fixes, and after -/

/-- **Defect 1 (fixed).** `prepare_for_rx(DutyCycle)`, `start_rx`, then `rx_switch_channel` as it
was: SetStandby reaches the SX126x while it is duty-cycling (possibly asleep) without the wake-up. -/
theorem rx_switch_channel_unfixed_counterexample :
    (scenario .sx126x needs126 start126 {}
      [(init ops126, {}), (prepareForRx ops126 duty mod126 rxPkt, {}), (startRxUnfixed ops126, {}),
       (rxSwitchChannelUnfixed ops126 868300000, {})]).2.commandedAsleep = true := by decide +kernel

theorem rx_switch_channel_fixed :
    (scenario .sx126x needs126 start126 {}
      [(init ops126, {}), (prepareForRx ops126 duty mod126 rxPkt, {}), (startRx ops126, {}),
       (rxSwitchChannel ops126 868300000, {})]).2.commandedAsleep = false := by decide +kernel

/-- **Defect 2 (fixed).** Restarting a duty-cycle reception: `start_rx` as it was commands the
duty-cycling chip without the wake-up. -/
theorem start_rx_unfixed_counterexample :
    (scenario .sx126x needs126 start126 {}
      [(init ops126, {}), (prepareForRx ops126 duty mod126 rxPkt, {}), (startRxUnfixed ops126, {}),
       (startRxUnfixed ops126, {})]).2.commandedAsleep = true := by decide +kernel

theorem start_rx_fixed :
    (scenario .sx126x needs126 start126 {}
      [(init ops126, {}), (prepareForRx ops126 duty mod126 rxPkt, {}), (startRx ops126, {}),
       (startRx ops126, {})]).2.commandedAsleep = false := by decide +kernel

/-- **Defect 3 (fixed).** `prepare_for_tx`, then a re-`init` whose second I/O step fails (the chip
has been reset), then `tx()`: with the old `init` the driver still says `Transmit` and SetTx starts
on a chip that lost its configuration. -/
theorem init_unfixed_counterexample :
    (scenario .sx126x needs126 start126 {}
      [(init ops126, {}), (prepareForTx ops126 mod126 txPkt 14 [1, 2, 3], {}),
       (initUnfixed ops126, { fault := some 1 }), (tx ops126 8, { irqDefault := 1 })]).2.startedUnprogrammed = true := by
  decide +kernel

theorem init_fixed :
    (scenario .sx126x needs126 start126 {}
      [(init ops126, {}), (prepareForTx ops126 mod126 txPkt 14 [1, 2, 3], {}),
       (init ops126, { fault := some 1 }), (tx ops126 8, { irqDefault := 1 })]).2.startedUnprogrammed = false := by
  decide +kernel

/-! ### I1–I5 for all histories, by induction over the call list

The invariant `Inv` (Lemmas/PhyInv.lean) over driver bookkeeping × tracker state:
  * the tracker's flags are down (I1: no command ever reached a chip that may be asleep; I3: nothing
    was ever started with a required item unprogrammed since the last configuration loss);
  * chip possibly asleep (sleep / RX duty cycle) ⇒ `radio_mode` is `Sleep` (or the duty-cycle
    reception), so that the next `ensure_ready` is the wake-up;
  * `cold_start` down ⇒ bring-up items, TX parameters and IRQ routing are programmed (I2);
  * `radio_mode` ∈ {Transmit, Receive, CAD} ⇒ everything that start needs is programmed.
It holds in the constructor state (`inv_new`), every API call preserves it under every chip answer,
interrupt outcome, fault position and drop position (`Lemmas/PhyApi.lean`, one lemma per program,
generic over the radio kind; `Lemmas/PhyOps126/127.lean` discharge the per-operation obligations
for the SX126x and SX127x models), and it implies I1–I4 for the call's transcript. -/

/-- the state `LoRa::new` builds before it calls `init`: `radio_mode = Sleep`, `cold_start`,
`calibrate_image` set; the tracker has seen nothing -/
theorem inv_new {σ : Type} (reg tcxo : Bool) (sb : Items) (rk : σ) (sw : Nat) :
    Inv reg tcxo sb ({ rk := rk, syncWord := sw } : DriverState σ) {} :=
  ⟨⟨rfl, rfl⟩, Link.sleep _, fun h => by simp at h, trivial⟩

/-- one executed call of a history: the call, the driver state before, the outcome, the call's
transcript, the driver state and the tracker state after -/
structure Rec (σ μ : Type) where
  call : ApiCall μ
  before : DriverState σ
  out : Out ApiResult
  log : List Ev
  after : DriverState σ
  track : ChipTrack

/-- a whole history: the calls with their environments, threaded through `apiStep`; the tracker
is fed every call's transcript -/
def runTracked (kind : Kind) (n : Needs) (rk : RadioKindOps σ μ) :
    List (ApiCall μ × Env) → DriverState σ × World → ChipTrack → List (Rec σ μ)
  | [], _, _ => []
  | (c, env) :: rest, s, t =>
    let r := apiStep rk c env s
    let t' := track kind n t r.2.2.log
    ⟨c, s.1, r.1, r.2.2.log, r.2.1, t'⟩ :: runTracked kind n rk rest r.2 t'

/-- I1–I5 of one record -/
def RecOk (reg tcxo : Bool) (e : Rec σ μ) : Prop :=
  -- I1
  e.track.commandedAsleep = false ∧
  -- I2
  (e.track.items.covers (baseItems reg tcxo) = false → e.after.coldStart = true) ∧
  -- I3
  e.track.startedUnprogrammed = false ∧
  -- I4
  (e.out.timeout = true → e.before.radioMode ≠ .receive .continuous →
    e.track.mode = .standby ∧ e.after.radioMode = .standby) ∧
  -- I5
  (modeOk e.call e.before.radioMode = false → e.out = .err .InvalidRadioMode ∧ e.log = [])

/-- the items of I2 are the ones the correspondence driver (Driver/C14.lean) uses -/
theorem baseItems_eq (reg tcxo : Bool) :
    baseItems reg tcxo = { (needsFor reg tcxo).rx with modulation := false, frequency := false } := rfl

/-- **C14 for any radio kind that satisfies `OpsSpec`**: induction over the history. -/
theorem history_ok {kind : Kind} {reg tcxo : Bool} {sb : Items} {Rdy : ChipTrack → Prop} {rk : RadioKindOps σ μ}
    (S : OpsSpec kind reg tcxo sb Rdy rk) (h : List (ApiCall μ × Env)) (hwf : ∀ ce ∈ h, ce.1.wf)
    (s : DriverState σ × World) (t : ChipTrack) (hinv : Inv reg tcxo sb s.1 t) :
    ∀ e ∈ runTracked kind (needsFor reg tcxo) rk h s t, RecOk reg tcxo e := by
  induction h generalizing s t with
  | nil => simp [runTracked]
  | cons ce rest ih =>
    obtain ⟨c, env⟩ := ce
    obtain ⟨d, w⟩ := s
    have step := apiStep_inv S c (hwf _ (List.mem_cons_self ..)) env d w t hinv
    intro e he
    simp only [runTracked, List.mem_cons] at he
    rcases he with rfl | he
    · obtain ⟨i, i4⟩ := step
      refine ⟨i.clean.1, ?_, i.clean.2, fun ht hc => (i4 ht hc).symm, ?_⟩
      · intro hcov
        cases hcs : (apiStep rk c env (d, w)).2.1.coldStart with
        | true => rfl
        | false =>
          have hb : (baseItems reg tcxo).le (bringUp reg tcxo) := by simp [Items.le, bringUp]
          have := (Items.covers_iff _ _).2 (Items.le_trans hb (i.cold hcs))
          rw [this] at hcov
          exact absurd hcov (by simp)
      · intro hm
        have := wrong_mode_refused rk c env d w hm
        exact ⟨this.1, this.2.2⟩
    · exact ih (fun ce hce => hwf ce (List.mem_cons_of_mem _ hce)) _ _ step.1 e he

/-- **C14, SX126x** (SX1261 / SX1262 / STM32WL, with or without DC-DC regulator and TCXO): every
history of API calls — any calls with well-formed parameters, any chip content and answers, any
interrupt outcomes, a fault at any I/O step and a drop at any `await_irq` of every call — started in
the constructor state satisfies I1–I5 after every call. -/
theorem c14_invariants126 (cfg : Sx126x.Config) (sw : Nat) (w : World) (h : List (ApiCall Sx126x.ModulationParams × Env))
    (hwf : ∀ ce ∈ h, ce.1.wf) :
    ∀ e ∈ runTracked .sx126x (needsFor cfg.useDcdc cfg.tcxo.isSome) (sx126xOps cfg) h
        ({ rk := (), syncWord := sw }, w) {}, RecOk cfg.useDcdc cfg.tcxo.isSome e :=
  history_ok (Sx126x.opsSpec cfg) h hwf _ _ (inv_new _ _ _ _ _)

/-- **C14, SX127x** (SX1276 / SX1272, any board configuration). -/
theorem c14_invariants127 (cfg : Sx127x.Config) (d0 : Sx127x.Data) (sw : Nat) (w : World)
    (h : List (ApiCall Sx127x.ModulationParams × Env)) (hwf : ∀ ce ∈ h, ce.1.wf) :
    ∀ e ∈ runTracked .sx127x (needsFor false false) (sx127xOps cfg) h ({ rk := d0, syncWord := sw }, w) {},
      RecOk false false e :=
  history_ok (Sx127x.opsSpec cfg) h hwf _ _ (inv_new _ _ _ _ _)

/-! ### the LoRaWAN adapter (`LorawanRadio`) over histories -/

structure AdpRec (σ μ : Type) where
  call : AdapterCall μ
  before : DriverState σ
  out : Out (AdapterResult × AdapterState)
  after : DriverState σ
  track : ChipTrack

def runAdapter (kind : Kind) (n : Needs) (rk : RadioKindOps σ μ) :
    List (AdapterCall μ × Env) → AdapterState → DriverState σ × World → ChipTrack → List (AdpRec σ μ)
  | [], _, _, _ => []
  | (c, env) :: rest, a, s, t =>
    let r := adapterStep rk a c env s
    let t' := track kind n t r.2.2.log
    let a' := match r.1 with | .ok (_, a') => a' | _ => a
    ⟨c, s.1, r.1, r.2.1, t'⟩ :: runAdapter kind n rk rest a' r.2 t'

def AdpRecOk (reg tcxo : Bool) (e : AdpRec σ μ) : Prop :=
  e.track.commandedAsleep = false ∧
  (e.track.items.covers (baseItems reg tcxo) = false → e.after.coldStart = true) ∧
  e.track.startedUnprogrammed = false ∧
  (adapterTimeout e.out = true → e.before.radioMode ≠ .receive .continuous →
    e.track.mode = .standby ∧ e.after.radioMode = .standby)

theorem adapter_history_ok {kind : Kind} {reg tcxo : Bool} {sb : Items} {Rdy : ChipTrack → Prop} {rk : RadioKindOps σ μ}
    (S : OpsSpec kind reg tcxo sb Rdy rk) (h : List (AdapterCall μ × Env)) (a : AdapterState)
    (s : DriverState σ × World) (t : ChipTrack) (hinv : Inv reg tcxo sb s.1 t) :
    ∀ e ∈ runAdapter kind (needsFor reg tcxo) rk h a s t, AdpRecOk reg tcxo e := by
  induction h generalizing a s t with
  | nil => simp [runAdapter]
  | cons ce rest ih =>
    obtain ⟨c, env⟩ := ce
    obtain ⟨d, w⟩ := s
    have step := adapterStep_inv S a c env d w t hinv
    intro e he
    simp only [runAdapter, List.mem_cons] at he
    rcases he with rfl | he
    · obtain ⟨i, i4⟩ := step
      refine ⟨i.clean.1, ?_, i.clean.2, fun ht hc => (i4 ht hc).symm⟩
      intro hcov
      cases hcs : (adapterStep rk a c env (d, w)).2.1.coldStart with
      | true => rfl
      | false =>
        have hb : (baseItems reg tcxo).le (bringUp reg tcxo) := by simp [Items.le, bringUp]
        have := (Items.covers_iff _ _).2 (Items.le_trans hb (i.cold hcs))
        rw [this] at hcov
        exact absurd hcov (by simp)
    · exact ih _ _ _ step.1 e he

/-- **C14, the LoRaWAN adapter on both chip families**: after a successful `LoRa::new` or not — any
state satisfying the invariant, in particular the constructor state followed by any API history —
every history of `LorawanRadio` calls keeps I1–I4. -/
theorem c14_adapter126 (cfg : Sx126x.Config) (sw : Nat) (w : World) (a : AdapterState)
    (h : List (AdapterCall Sx126x.ModulationParams × Env)) :
    ∀ e ∈ runAdapter .sx126x (needsFor cfg.useDcdc cfg.tcxo.isSome) (sx126xOps cfg) h a
        ({ rk := (), syncWord := sw }, w) {}, AdpRecOk cfg.useDcdc cfg.tcxo.isSome e :=
  adapter_history_ok (Sx126x.opsSpec cfg) h a _ _ (inv_new _ _ _ _ _)

theorem c14_adapter127 (cfg : Sx127x.Config) (d0 : Sx127x.Data) (sw : Nat) (w : World) (a : AdapterState)
    (h : List (AdapterCall Sx127x.ModulationParams × Env)) :
    ∀ e ∈ runAdapter .sx127x (needsFor false false) (sx127xOps cfg) h a ({ rk := d0, syncWord := sw }, w) {},
      AdpRecOk false false e :=
  adapter_history_ok (Sx127x.opsSpec cfg) h a _ _ (inv_new _ _ _ _ _)

/-- **C14 (full).**  I1–I5 over all histories, both chip families, API and adapter. -/
theorem c14_invariants :
    (∀ (cfg : Sx126x.Config) (sw : Nat) (w : World) (h : List (ApiCall Sx126x.ModulationParams × Env)),
      (∀ ce ∈ h, ce.1.wf) →
      ∀ e ∈ runTracked .sx126x (needsFor cfg.useDcdc cfg.tcxo.isSome) (sx126xOps cfg) h ({ rk := (), syncWord := sw }, w) {},
        RecOk cfg.useDcdc cfg.tcxo.isSome e) ∧
    (∀ (cfg : Sx127x.Config) (d0 : Sx127x.Data) (sw : Nat) (w : World) (h : List (ApiCall Sx127x.ModulationParams × Env)),
      (∀ ce ∈ h, ce.1.wf) →
      ∀ e ∈ runTracked .sx127x (needsFor false false) (sx127xOps cfg) h ({ rk := d0, syncWord := sw }, w) {},
        RecOk false false e) ∧
    (∀ (cfg : Sx126x.Config) (sw : Nat) (w : World) (a : AdapterState) (h : List (AdapterCall Sx126x.ModulationParams × Env)),
      ∀ e ∈ runAdapter .sx126x (needsFor cfg.useDcdc cfg.tcxo.isSome) (sx126xOps cfg) h a ({ rk := (), syncWord := sw }, w) {},
        AdpRecOk cfg.useDcdc cfg.tcxo.isSome e) ∧
    (∀ (cfg : Sx127x.Config) (d0 : Sx127x.Data) (sw : Nat) (w : World) (a : AdapterState)
      (h : List (AdapterCall Sx127x.ModulationParams × Env)),
      ∀ e ∈ runAdapter .sx127x (needsFor false false) (sx127xOps cfg) h a ({ rk := d0, syncWord := sw }, w) {},
        AdpRecOk false false e) :=
  ⟨c14_invariants126, c14_invariants127, c14_adapter126, c14_adapter127⟩

/-! ### the hypotheses are satisfiable, the statements are not vacuous -/

/-- every call of the correspondence alphabet is well-formed (`listen` gets the `Ok` of `create_modulation_params`) -/
example : ∀ ce ∈ ([(.init, {}), (.prepareForTx mod126 txPkt 14 [1, 2, 3], {}), (.tx, { irqDefault := 0x200 }),
    (.listen 868100000 (.ok mod126), { fault := some 3 }), (.sleep false, {})] : List (ApiCall Sx126x.ModulationParams × Env)),
    ce.1.wf := by
  intro ce h
  simp only [List.mem_cons, List.not_mem_nil, or_false] at h
  rcases h with rfl | rfl | rfl | rfl | rfl <;> trivial

/-- a `listen` that forwards `create_modulation_params`' error is well-formed too -/
example : (ApiCall.listen 868100000 (.error .UnavailableBandwidth) : ApiCall Sx126x.ModulationParams).wf := rfl

/-- the premise of I4 occurs: `tx` whose interrupt status says RxTxTimeout reports TransmitTimeout … -/
example : (runTracked .sx126x needs126 ops126
    [(.init, {}), (.prepareForTx mod126 txPkt 14 [1, 2, 3], {}), (.tx, { irqDefault := 0x200 })] start126 {}).map
      (fun e => e.out.timeout) = [false, false, true] := by decide +kernel

/-- … and the conclusion is about a real change of state (the chip was transmitting) -/
example : (runTracked .sx126x needs126 ops126
    [(.init, {}), (.prepareForTx mod126 txPkt 14 [1, 2, 3], {}), (.tx, { irqDefault := 0x200 })] start126 {}).map
      (fun e => (e.track.mode, e.track.items.covers needs126.tx)) =
      [(.standby, false), (.standby, true), (.standby, true)] := by decide +kernel

/-- the premise of I2 occurs: after a cold sleep the SX126x has lost its configuration and the driver knows -/
example : (runTracked .sx126x needs126 ops126 [(.init, {}), (.sleep false, {})] start126 {}).map
      (fun e => (e.track.items.covers (baseItems true false), e.after.coldStart)) = [(true, false), (false, true)] := by
  decide +kernel

/-- the premise of I5 occurs: `tx` right after the constructor -/
example : modeOk (ApiCall.tx : ApiCall Sx126x.ModulationParams) start126.1.radioMode = false := rfl

/-- SX127x: a reception that times out (RxTimeout = 0x80) ends in standby on both sides -/
example : (runTracked .sx127x needs127 ops127
    [(.init, {}), (.prepareForRx (.single 13) mod127 rxPkt, {}), (.rx rxPkt 255, { irqDefault := 0x80 })] start127 {}).map
      (fun e => (e.out.timeout, e.track.mode, e.after.radioMode)) =
      [(false, .standby, .standby), (false, .standby, .receive (.single 13)), (true, .standby, .standby)] := by
  decide +kernel

#print axioms C14.wrong_mode_refused
#print axioms C14.refused_calls_never_touch_the_chip
#print axioms C14.fail_to_standby_spec126
#print axioms C14.i4_standby_after_reported_failure126
#print axioms C14.i4_standby_after_reported_failure127
#print axioms C14.inv_new
#print axioms C14.history_ok
#print axioms C14.adapter_history_ok
#print axioms C14.c14_invariants126
#print axioms C14.c14_invariants127
#print axioms C14.c14_adapter126
#print axioms C14.c14_adapter127
#print axioms C14.c14_invariants
#print axioms Model.Phy.wp_sound
#print axioms Model.Phy.apiStep_inv
#print axioms Model.Phy.adapterStep_inv
#print axioms Model.Phy.Sx126x.opsSpec
#print axioms Model.Phy.Sx127x.opsSpec

end C14
