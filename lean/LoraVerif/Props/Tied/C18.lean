import LoraVerif.Props.C18
import LoraVerif.Props.TieA.C18RadioBuffer
import LoraVerif.Props.TieA.C18PhyRx126
import LoraVerif.Props.TieA.C18LoraRx
/-!
# C18 — the module `./check C18` builds: the property theorems (`Props/C18.lean`) together with the
tie-A equalities between the hand model they are proved about (`Model/PhyRx.lean`) and the methods
regenerated from the current source (`Props/TieA/C18RadioBuffer.lean`: `RadioBuffer`; `Props/TieA/C18PhyRx126.lean`: `Sx126x::get_rx_payload` in the I/O mode; builder B).
-/
