import LoraVerif.Props.C04
import LoraVerif.Props.TieA.MacTopC
import LoraVerif.Props.TieA.MacTopTx
import LoraVerif.Props.TieA.MacTopGen
import LoraVerif.Props.TieA.JoinWalk
/-!
# C04 — the module `./check C04` builds: the property theorems (`Props/C04.lean`) together with the tie-A theorems
that the regenerated dispatch of the MAC's state machine (`Gen/MacTopFn.lean`) is the model's
(`Props/TieA/MacTopC.lean`).  Kept separate from `Props/C04.lean` so that properties which only import C04's
lemmas do not inherit its generated units.
-/
