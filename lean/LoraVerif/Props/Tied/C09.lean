import LoraVerif.Props.C09
import LoraVerif.Props.TieA.RegionDispatch
import LoraVerif.Props.TieA.RegionBand
import LoraVerif.Props.TieA.C09
import LoraVerif.Props.C05Size
import LoraVerif.Props.TieA.PlanSelect
import LoraVerif.Props.TieA.PlanSelectFixed
import LoraVerif.Props.TieA.MacTopTx
import LoraVerif.Props.TieA.JoinWalk
import LoraVerif.Props.TieA.JoinWalkData
/-!
# C09 — the module `./check C09` builds: the property theorems (`Props/C09.lean`) together with the
tie-A equalities between the hand model's constants and the items regenerated from the current
source (`Props/TieA/C09.lean`).  Kept separate from `Props/C09.lean` so that properties which only
import C09's lemmas do not inherit its generated units.
-/
