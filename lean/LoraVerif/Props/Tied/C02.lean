import LoraVerif.Props.C02
import LoraVerif.Props.TieA.Codec
/-!
# C02 — the module `./check C02` builds: the property theorems (`Props/C02.lean`) together with the tie-A
equalities between the hand model of `securityhelpers.rs` and the unit regenerated from the current source
(`Gen.CodecFn`, `Props/TieA/Codec.lean`).
-/
