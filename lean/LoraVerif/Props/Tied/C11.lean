import LoraVerif.Props.C11
import LoraVerif.Props.TieA.C11
import LoraVerif.Props.TieA.PlanMask
import LoraVerif.Props.TieA.MacTopC
import LoraVerif.Props.TieA.MacTopTx
import LoraVerif.Props.TieA.MacTopOtaa
/-!
# C11 — the module `./check C11` builds: the property theorems (`Props/C11.lean`) together with the
tie-A equalities between the hand model's constants and the items regenerated from the current
source (`Props/TieA/C11.lean`).  Kept separate from `Props/C11.lean` so that properties which only
import C11's lemmas do not inherit its generated units.
-/
