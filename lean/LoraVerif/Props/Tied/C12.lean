import LoraVerif.Props.C12
import LoraVerif.Props.TieA.RegionDispatch
import LoraVerif.Props.TieA.NextLowerOps
import LoraVerif.Props.TieA.C12
/-!
# C12 — the module `./check C12` builds: the property theorems (`Props/C12.lean`) together with the
tie-A equalities between the hand model's constants and the items regenerated from the current
source (`Props/TieA/C12.lean`).  Kept separate from `Props/C12.lean` so that properties which only
import C12's lemmas do not inherit its generated units.
-/
