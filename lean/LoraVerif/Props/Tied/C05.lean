import LoraVerif.Props.C05
import LoraVerif.Props.TieA.RegionPayload
import LoraVerif.Props.TieA.C05
import LoraVerif.Props.C05Size
import LoraVerif.Props.TieA.MacRfC05
/-!
# C05 — the module `./check C05` builds: the property theorems (`Props/C05.lean`) together with the
tie-A equalities between the hand model's constants and the items regenerated from the current
source (`Props/TieA/C05.lean`).  Kept separate from `Props/C05.lean` so that properties which only
import C05's lemmas do not inherit its generated units.
-/
