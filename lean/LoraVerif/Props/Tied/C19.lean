import LoraVerif.Props.C19
import LoraVerif.Props.TieA.MacCmdCreators
import LoraVerif.Props.TieA.MacCmdCreatorsInto
/-!
# C19 — the module `./check C19` builds: the property theorems (`Props/C19.lean`) together with the tie-A equalities
between the hand model of the command creators and the creators regenerated from the current source
(`Props/TieA/MacCmdCreators.lean`, builder F).
-/
