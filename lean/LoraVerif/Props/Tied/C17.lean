import LoraVerif.Props.C17
import LoraVerif.Props.TieA.C17
import LoraVerif.Props.TieA.C13E
import LoraVerif.Props.TieA.C13EWl
/-!
# C17 — the module `./check C17` builds: the property theorems (`Props/C17.lean`) together with the
tie-A equalities between the hand-written SX127x TX-power fragments they are proved about and the
variant methods regenerated from the current driver source (`Props/TieA/C17.lean`, builder P).
-/
