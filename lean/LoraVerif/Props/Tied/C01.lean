import LoraVerif.Props.C01
import LoraVerif.Props.TieA.Codec
/-!
# C01 — the module `./check C01` builds: the property theorems (`Props/C01.lean`) together with the tie-A
equalities between the hand model of `securityhelpers.rs` and the unit regenerated from the current source
(`Gen.CodecFn`, `Props/TieA/Codec.lean`).
-/
