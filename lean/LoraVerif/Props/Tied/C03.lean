import LoraVerif.Props.C03
import LoraVerif.Props.TieA.MacCmdFrame
import LoraVerif.Props.TieA.MacCmdFrameUplinkMacCommand
import LoraVerif.Props.TieA.MacCmdFrameDownlinkDUTCommand
import LoraVerif.Props.TieA.MacCmdFrameUplinkDUTCommand
import LoraVerif.Props.TieA.MacCmdFrameDownlinkRemoteSetup
import LoraVerif.Props.TieA.MacCmdFrameUplinkRemoteSetup
/-!
# C03 — the module `./check C03` builds: the property theorems (`Props/C03.lean`) together with the tie-A
equalities between the hand model of the MAC-command iterator and the framing step regenerated from the current
source (`Props/TieA/MacCmdFrame.lean`, builder U).
-/
