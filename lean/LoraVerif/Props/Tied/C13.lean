import LoraVerif.Props.C13
import LoraVerif.Props.TieA.C13
import LoraVerif.Props.TieA.C13Sx127
import LoraVerif.Props.TieA.C13Sx127Mod
import LoraVerif.Props.TieA.C13E
import LoraVerif.Props.TieA.C13EWl
import LoraVerif.Props.TieA.C13ECal
import LoraVerif.Props.TieA.C13ECh
/-!
# C13 — the module `./check C13` builds: the property theorems (`Props/C13.lean`: the hand model of
the drivers against Semtech's reference) together with the tie-A equalities between the hand model's
SX126x command encoders and the encoders regenerated from the current driver source
(`Props/TieA/C13.lean`).  Kept separate from `Props/C13.lean` so that properties which import C13's
lemmas do not inherit its generated units.
-/
