import LoraVerif.Props.C10
import LoraVerif.Props.TieA.RegionDispatch
import LoraVerif.Props.TieA.RegionCfgOps
import LoraVerif.Props.TieA.RxWindowsGet
import LoraVerif.Props.TieA.C10
import LoraVerif.Props.C05Size
import LoraVerif.Props.TieA.MacTopTx
import LoraVerif.Props.TieA.MacTopTxRf
/-!
# C10 — the module `./check C10` builds: the property theorems (`Props/C10.lean`) together with the
tie-A equalities between the hand model's constants and the items regenerated from the current
source (`Props/TieA/C10.lean`).  Kept separate from `Props/C10.lean` so that properties which only
import C10's lemmas do not inherit its generated units.
-/
