import LoraVerif.Props.C08
import LoraVerif.Props.TieA.C08
import LoraVerif.Props.TieA.Band
import LoraVerif.Props.TieA.Rx1Offset
import LoraVerif.Props.TieA.NewChannel
import LoraVerif.Props.TieA.HandleMacs
import LoraVerif.Props.TieA.HandleMacsLoop
import LoraVerif.Props.TieA.PlanMask
import LoraVerif.Props.TieA.PlanMaskOps
import LoraVerif.Props.TieA.MacCmd
/-!
# C08 — the module `./check C08` builds: the property theorems (`Props/C08.lean`) together with the
tie-A equalities between the hand model's constants and the items regenerated from the current
source (`Props/TieA/C08.lean`).  Kept separate from `Props/C08.lean` so that properties which only
import C08's lemmas do not inherit its generated units.
-/
