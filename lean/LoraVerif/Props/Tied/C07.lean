import LoraVerif.Props.C07
import LoraVerif.Props.TieA.C07
import LoraVerif.Props.TieA.MacTopC
import LoraVerif.Props.TieA.MacTopRx
import LoraVerif.Props.TieA.MacTopOtaa
/-!
# C07 — the module `./check C07` builds: the property theorems (`Props/C07.lean`) together with the
tie-A theorem that the generated `Session::handle_rx` is the model function they are about
(`Props/TieA/C07.lean`).  Kept separate from `Props/C07.lean` so that properties which only import C07's
lemmas do not inherit its generated units.
-/
