import LoraVerif.Props.C14
import LoraVerif.Props.TieA.C14
import LoraVerif.Props.TieA.C14b
import LoraVerif.Props.TieA.C14c
/-!
# C14 — the module `./check C14` builds: the property theorems (`Props/C14.lean`: the invariants
I1–I5 over every history of the hand model of `LoRa<RK, DLY>`) together with the tie-A equalities
between the hand model's API programs and the methods of `LoRa` regenerated from the current
`lora-phy/src/lib.rs` (`Props/TieA/C14.lean`, unit `Gen.LoRaApiFn`).
-/
