import LoraVerif.Props.C06
import LoraVerif.Props.TieA.C06
/-!
# C06 — the module `./check C06` builds: the property theorems (`Props/C06.lean`) together with the
tie-A equalities between the hand model's constants and the items regenerated from the current
source (`Props/TieA/C06.lean`).  Kept separate from `Props/C06.lean` so that properties which only
import C06's lemmas do not inherit its generated units.
-/
