import LoraVerif.Model.Device
import LoraVerif.Lemmas.ExceptLemmas
/-!
# C06 — uplink frame counters never repeat within a session

On the MAC model plus the Class A receive procedure of both front-ends (`Model/Device.lean`):
* `send_uses_fcnt`: the frame handed to the radio carries exactly the session's `fcnt_up`
  (full 32-bit value: MIC and encryption use it, its low half goes on the wire — C01), and building it
  does not move the counter;
* `handleRx_fcnt`, `rx2Complete_fcnt`: every way the receive procedure can end either advances the
  counter by exactly one or reports `SessionExpired` with the counter at 2^32−1 — never a wrap;
* `cycle_fcnt`: after every complete procedure (frame in RX1, frame in RX2, rejected frames,
  oversized frames, timeout) the counter has advanced by exactly one, or the session is expired;
* `fault_fcnt`: the same for a radio fault after the frame was handed to the radio;
* `classC_fcnt_mono`: a Class C reception never decreases it.
Hence successive uplinks of one session carry strictly increasing counters until expiry.
-/
open Model

namespace C06

theorem rx2Complete_fcnt (s : Session) (cfg : Config) (r : RegionId) :
    (s.fcntUp = 0xFFFFFFFF → rx2Complete s cfg r = (.sessionExpired, s, cfg)) ∧
    (s.fcntUp ≠ 0xFFFFFFFF → (rx2Complete s cfg r).2.1.fcntUp = s.fcntUp + 1 ∧ (rx2Complete s cfg r).1 ≠ .sessionExpired
        ∧ (rx2Complete s cfg r).1 ≠ .noUpdate) := by
  unfold rx2Complete
  constructor
  · intro h; simp [h]
  · intro h
    have : (s.fcntUp == 0xFFFFFFFF) = false := by simp [h]
    simp only [this, Bool.false_eq_true, if_false]
    repeat' split
    all_goals simp

/-- what any handled data frame does to the uplink counter -/
theorem handleRx_fcnt (s : Session) (cfg : Config) (region : RegionState) (d : RxData) (mp : Nat) (snr : Int)
    (ig : Bool) (o : RxOut) (s' : Session) (cfg' : Config) (region' : RegionState)
    (h : sessionHandleRx s cfg region d mp snr ig = .ok (o, s', cfg', region')) :
    (o.resp = .noUpdate ∧ s'.fcntUp = s.fcntUp)
    ∨ (o.resp ≠ .noUpdate ∧ o.resp ≠ .sessionExpired ∧ s'.fcntUp = s.fcntUp + 1 ∧ s.fcntUp ≠ 0xFFFFFFFF)
    ∨ (o.resp = .sessionExpired ∧ s'.fcntUp = s.fcntUp ∧ s.fcntUp = 0xFFFFFFFF) := by
  unfold sessionHandleRx at h
  by_cases hlen : d.len > mp + 5
  · simp only [hlen, if_true] at h
    cases ig
    · simp only [Bool.false_eq_true, if_false, pure, Except.pure, Except.ok.injEq, Prod.mk.injEq] at h
      obtain ⟨rfl, rfl, rfl, rfl⟩ := h
      by_cases hx : s.fcntUp = 0xFFFFFFFF
      · right; right
        rw [(rx2Complete_fcnt s cfg region.id).1 hx]; exact ⟨rfl, rfl, hx⟩
      · right; left
        have := (rx2Complete_fcnt s cfg region.id).2 hx
        exact ⟨this.2.2, this.2.1, this.1, hx⟩
    · simp only [if_true, pure, Except.pure, Except.ok.injEq, Prod.mk.injEq] at h
      obtain ⟨rfl, rfl, rfl, rfl⟩ := h
      left; exact ⟨rfl, rfl⟩
  · simp only [hlen, if_false] at h
    cases hn : nextFcntDown s.fcntDown d.fcnt16 with
    | none =>
      simp only [hn, pure, Except.pure, Except.ok.injEq, Prod.mk.injEq] at h
      obtain ⟨rfl, rfl, rfl, rfl⟩ := h
      left; exact ⟨rfl, rfl⟩
    | some N =>
      simp only [hn] at h
      by_cases hm : (d.micFcnt != some N) = true
      · simp only [hm, if_true, pure, Except.pure, Except.ok.injEq, Prod.mk.injEq] at h
        obtain ⟨rfl, rfl, rfl, rfl⟩ := h
        left; exact ⟨rfl, rfl⟩
      · simp only [hm, Bool.false_eq_true, if_false] at h
        obtain ⟨ctx, _, h⟩ := Except.bind_eq_ok h
        by_cases hx : s.fcntUp = 0xFFFFFFFF
        · right; right
          cases hc : d.confirmed <;> cases ig <;>
            simp only [hc, hx, Bool.false_eq_true, if_false, if_true, beq_self_eq_true, pure, Except.pure, Except.ok.injEq,
              Prod.mk.injEq] at h <;>
            obtain ⟨rfl, rfl, rfl, rfl⟩ := h <;> simp_all
        · right; left
          have hx' : (s.fcntUp == 0xFFFFFFFF) = false := by simp [hx]
          cases hc : d.confirmed <;> cases ig <;>
            simp only [hc, hx', Bool.false_eq_true, if_false, if_true, pure, Except.pure, Except.ok.injEq,
              Prod.mk.injEq] at h <;>
            obtain ⟨rfl, rfl, rfl, rfl⟩ := h <;> simp_all

/-- the uplink handed to the radio carries the session's counter; building it leaves the counter alone -/
theorem send_uses_fcnt (s : Session) (cfg : Config) (r : RegionId) (data : List Nat) (port : Nat) (conf : Bool)
    (desc : UplinkDesc) (s' : Session) (h : prepareBuffer s cfg r data port conf = .ok (desc, s')) :
    desc.fcnt = s.fcntUp ∧ s'.fcntUp = s.fcntUp ∧ s'.fcntDown = s.fcntDown ∧ desc.devAddr = s.devAddr := by
  unfold prepareBuffer at h
  simp only [bind, Except.bind, pure, Except.pure] at h
  repeat' split at h
  all_goals (first | (simp only [Except.ok.injEq, Prod.mk.injEq] at h; obtain ⟨rfl, rfl⟩ := h; exact ⟨rfl, rfl, rfl, rfl⟩) | cases h)

/-- the state of a joined MAC with session `s` -/
def joinedWith (m : MacState) (s : Session) : Prop := m.st = .joined s

/-- one window, seen from the counter -/
theorem window_fcnt (m : MacState) (s : Session) (hm : joinedWith m s) (f : Option (RxView × Int)) (mp : Nat)
    (o : Option RxOut) (m' : MacState) (h : window m f mp = .ok (o, m')) :
    ∃ s', joinedWith m' s' ∧
      ((o = none ∧ s'.fcntUp = s.fcntUp)
       ∨ (∃ out, o = some out ∧ out.resp ≠ .sessionExpired ∧ s'.fcntUp = s.fcntUp + 1 ∧ s.fcntUp ≠ 0xFFFFFFFF)
       ∨ (∃ out, o = some out ∧ out.resp = .sessionExpired ∧ s'.fcntUp = s.fcntUp ∧ s.fcntUp = 0xFFFFFFFF)) := by
  unfold window at h
  cases f with
  | none =>
    simp only [pure, Except.pure, Except.ok.injEq, Prod.mk.injEq] at h
    obtain ⟨rfl, rfl⟩ := h
    exact ⟨s, hm, Or.inl ⟨rfl, rfl⟩⟩
  | some f =>
    obtain ⟨v, snr⟩ := f
    simp only at h
    obtain ⟨⟨ro, m1⟩, hrx, h⟩ := Except.bind_eq_ok h
    unfold macHandleRx at hrx
    unfold joinedWith at hm
    simp only [hm] at hrx
    cases v with
    | data d =>
      simp only at hrx
      obtain ⟨⟨out, s1, cfg1, reg1⟩, hs, hrx⟩ := Except.bind_eq_ok hrx
      simp only [pure, Except.pure, Except.ok.injEq, Prod.mk.injEq] at hrx
      obtain ⟨rfl, rfl⟩ := hrx
      have hf := handleRx_fcnt _ _ _ _ _ _ _ _ _ _ _ hs
      simp only at h
      by_cases hno : (out.resp == Response.noUpdate) = true
      · simp only [hno, if_true, pure, Except.pure, Except.ok.injEq, Prod.mk.injEq] at h
        obtain ⟨rfl, rfl⟩ := h
        refine ⟨s1, rfl, Or.inl ⟨rfl, ?_⟩⟩
        have : out.resp = .noUpdate := by simpa using hno
        rcases hf with ⟨_, h2⟩ | ⟨h1, _⟩ | ⟨h1, _⟩
        · exact h2
        · exact absurd this h1
        · rw [this] at h1; cases h1
      · simp only [hno, Bool.false_eq_true, if_false, pure, Except.pure, Except.ok.injEq, Prod.mk.injEq] at h
        obtain ⟨rfl, rfl⟩ := h
        have hne : out.resp ≠ .noUpdate := by simpa using hno
        refine ⟨s1, rfl, ?_⟩
        rcases hf with ⟨h1, _⟩ | ⟨_, h2, h3, h4⟩ | ⟨h1, h2, h3⟩
        · exact absurd h1 hne
        · exact Or.inr (Or.inl ⟨out, rfl, h2, h3, h4⟩)
        · exact Or.inr (Or.inr ⟨out, rfl, h1, h2, h3⟩)
    | garbage =>
      simp only [pure, Except.pure, Except.ok.injEq, Prod.mk.injEq] at hrx
      obtain ⟨rfl, rfl⟩ := hrx
      simp only [beq_self_eq_true, if_true, pure, Except.pure, Except.ok.injEq, Prod.mk.injEq] at h
      obtain ⟨rfl, rfl⟩ := h
      exact ⟨s, hm, Or.inl ⟨rfl, rfl⟩⟩
    | joinAccept j =>
      simp only [pure, Except.pure, Except.ok.injEq, Prod.mk.injEq] at hrx
      obtain ⟨rfl, rfl⟩ := hrx
      simp only [beq_self_eq_true, if_true, pure, Except.pure, Except.ok.injEq, Prod.mk.injEq] at h
      obtain ⟨rfl, rfl⟩ := h
      exact ⟨s, hm, Or.inl ⟨rfl, rfl⟩⟩

/-- `rx2_complete` on a joined MAC, seen from the counter -/
theorem macRx2Complete_fcnt (m : MacState) (s : Session) (hm : joinedWith m s) :
    ∃ s', joinedWith (macRx2Complete m).2 s' ∧
      ((s.fcntUp ≠ 0xFFFFFFFF ∧ s'.fcntUp = s.fcntUp + 1 ∧ (macRx2Complete m).1 ≠ .sessionExpired)
       ∨ (s.fcntUp = 0xFFFFFFFF ∧ s'.fcntUp = s.fcntUp ∧ (macRx2Complete m).1 = .sessionExpired)) := by
  unfold macRx2Complete joinedWith at *
  simp only [hm]
  refine ⟨_, rfl, ?_⟩
  by_cases hx : s.fcntUp = 0xFFFFFFFF
  · right
    rw [(rx2Complete_fcnt s m.cfg m.region.id).1 hx]; exact ⟨hx, rfl, rfl⟩
  · left
    have := (rx2Complete_fcnt s m.cfg m.region.id).2 hx
    exact ⟨hx, this.1, this.2.1⟩

/-- **every complete Class A receive procedure advances the uplink counter by exactly one, or
reports session expiry with the counter exhausted — it never wraps and never stands still.** -/
theorem cycle_fcnt (m : MacState) (s : Session) (hm : joinedWith m s) (rx1 rx2 : Option (RxView × Int)) (mp1 mp2 : Nat)
    (r : Response) (dl : Option (Nat × List Nat)) (m' : MacState)
    (h : classACycle m rx1 rx2 mp1 mp2 = .ok (r, dl, m')) :
    ∃ s', joinedWith m' s' ∧
      ((s.fcntUp ≠ 0xFFFFFFFF ∧ s'.fcntUp = s.fcntUp + 1 ∧ r ≠ .sessionExpired)
       ∨ (s.fcntUp = 0xFFFFFFFF ∧ s'.fcntUp = s.fcntUp ∧ r = .sessionExpired)) := by
  unfold classACycle at h
  obtain ⟨⟨o1, m1⟩, h1, h⟩ := Except.bind_eq_ok h
  obtain ⟨s1, hj1, hc1⟩ := window_fcnt m s hm rx1 mp1 o1 m1 h1
  rcases hc1 with ⟨rfl, e1⟩ | ⟨out, rfl, hne, e1, hx⟩ | ⟨out, rfl, he, e1, hx⟩
  · simp only at h
    obtain ⟨⟨o2, m2⟩, h2, h⟩ := Except.bind_eq_ok h
    obtain ⟨s2, hj2, hc2⟩ := window_fcnt m1 s1 hj1 rx2 mp2 o2 m2 h2
    rcases hc2 with ⟨rfl, e2⟩ | ⟨out, rfl, hne, e2, hx⟩ | ⟨out, rfl, he, e2, hx⟩
    · simp only [pure, Except.pure, Except.ok.injEq, Prod.mk.injEq] at h
      obtain ⟨rfl, rfl, rfl⟩ := h
      obtain ⟨s3, hj3, hc3⟩ := macRx2Complete_fcnt m2 s2 hj2
      refine ⟨s3, hj3, ?_⟩
      rcases hc3 with ⟨a, b, c⟩ | ⟨a, b, c⟩
      · left; exact ⟨by omega, by omega, c⟩
      · right; exact ⟨by omega, by omega, c⟩
    · simp only [pure, Except.pure, Except.ok.injEq, Prod.mk.injEq] at h
      obtain ⟨rfl, rfl, rfl⟩ := h
      exact ⟨s2, hj2, Or.inl ⟨by omega, by omega, hne⟩⟩
    · simp only [pure, Except.pure, Except.ok.injEq, Prod.mk.injEq] at h
      obtain ⟨rfl, rfl, rfl⟩ := h
      exact ⟨s2, hj2, Or.inr ⟨by omega, by omega, he⟩⟩
  · simp only [pure, Except.pure, Except.ok.injEq, Prod.mk.injEq] at h
    obtain ⟨rfl, rfl, rfl⟩ := h
    exact ⟨s1, hj1, Or.inl ⟨hx, e1, hne⟩⟩
  · simp only [pure, Except.pure, Except.ok.injEq, Prod.mk.injEq] at h
    obtain ⟨rfl, rfl, rfl⟩ := h
    exact ⟨s1, hj1, Or.inr ⟨hx, e1, he⟩⟩

/-- a radio fault after the frame was handed to the radio burns the counter as well -/
theorem fault_fcnt (m : MacState) (s : Session) (hm : joinedWith m s) :
    ∃ s', joinedWith (faultAfterTx m) s' ∧
      ((s.fcntUp ≠ 0xFFFFFFFF ∧ s'.fcntUp = s.fcntUp + 1) ∨ (s.fcntUp = 0xFFFFFFFF ∧ s'.fcntUp = s.fcntUp)) := by
  obtain ⟨s', hj, hc⟩ := macRx2Complete_fcnt m s hm
  refine ⟨s', hj, ?_⟩
  rcases hc with ⟨a, b, _⟩ | ⟨a, b, _⟩
  · exact Or.inl ⟨a, b⟩
  · exact Or.inr ⟨a, b⟩

/-! non-vacuity -/
def cfg0 : Config :=
  { dataRate := 0, rx1Delay := 1000, txPower := none, rx1DrOffset := 0, rx2DataRate := none, rx2Frequency := none, adrEnabled := true }
example : (rx2Complete (Session.new 1 1 2) cfg0 .EU868).2.1.fcntUp = 1 := by decide
example : (rx2Complete { Session.new 1 1 2 with fcntUp := 0xFFFFFFFF } cfg0 .EU868).1 = .sessionExpired := by decide

end C06

#print axioms C06.rx2Complete_fcnt
#print axioms C06.handleRx_fcnt
#print axioms C06.send_uses_fcnt
#print axioms C06.window_fcnt
#print axioms C06.cycle_fcnt
#print axioms C06.fault_fcnt
