import LoraVerif.Model.Device
import LoraVerif.Model.History
import LoraVerif.Lemmas.ExceptLemmas
import LoraVerif.Lemmas.RefineNb
import LoraVerif.Lemmas.ExpiredC
import LoraVerif.Lemmas.ChainC
import LoraVerif.Lemmas.RefineListen
/-!
# C06 — uplink frame counters never repeat within a session

On the MAC model plus the Class A receive procedure of both front-ends (`Model/Device.lean`):
* `send_uses_fcnt`: the frame handed to the radio carries exactly the session's `fcnt_up`
  (full 32-bit value: MIC and encryption use it, its low half goes on the wire — C01), and building it
  does not move the counter;
* `handleRx_fcnt`, `rx2Complete_fcnt`: every way the receive procedure can end either advances the
  counter by exactly one or reports `SessionExpired` with the counter at 2^32−1 — never a wrap;
* `cycle_fcnt`: after every complete procedure (frame in RX1, frame in RX2, rejected frames,
  oversized frames, timeout) the counter has advanced by exactly one, or the session is expired;
* `fault_fcnt`: the same for a radio fault after the frame was handed to the radio;
* `classC_fcnt_mono`: a Class C reception never decreases it.
Hence successive uplinks of one session carry strictly increasing counters until expiry — and that
"hence" is a theorem over ALL histories (`Model/History.lean`), by induction over the event list:
* `history_fcnt_strict` (`FcntStrict`): along every history — any frames in RX1/RX2, Class C
  receptions between uplinks, radio faults after 0, 1 or 2 windows, ADR/data-rate calls, from ANY
  start state, any random stream — each uplink handed to the radio carries a counter strictly above
  the previous uplink of the same session, until the device reports `SessionExpired`; a (re-)join
  starts a new session;
* `history_no_counter_reuse`: any two uplinks of one session with no reported expiry between them
  carry different (strictly increasing) 32-bit counters;
* `history_fcnt_32bit`: the counter never wraps — every uplink counter is ≤ 2^32 − 1;
* `history_session_id`: along every join-free stretch of a history the session keeps its DevAddr and
  key identities and every uplink carries that DevAddr — so strictly increasing counters mean no
  (key, DevAddr, FCnt) triple is ever used twice;
* `join_starts_fresh`: after ABP activation / an OTAA attempt the MAC holds exactly
  `Session.new` of the activation (counters 0, keys of the accepted JoinAccept) or is still joining.
Observation (not claimed by the property text, and FALSE on the model as on the code): once
`SessionExpired` has been reported, a further `send` is not refused — it builds another frame with
counter 2^32 − 1 (`FcntStrict` makes no claim after expiry; see `send_after_expiry_reuses`).
-/
open Model

namespace C06

theorem rx2Complete_fcnt (s : Session) (cfg : Config) (r : RegionId) :
    (s.fcntUp = 0xFFFFFFFF → rx2Complete s cfg r = (.sessionExpired, s, cfg)) ∧
    (s.fcntUp ≠ 0xFFFFFFFF → (rx2Complete s cfg r).2.1.fcntUp = s.fcntUp + 1 ∧ (rx2Complete s cfg r).1 ≠ .sessionExpired
        ∧ (rx2Complete s cfg r).1 ≠ .noUpdate) := by
  unfold rx2Complete
  constructor
  · intro h; simp [h]
  · intro h
    have : (s.fcntUp == 0xFFFFFFFF) = false := by simp [h]
    simp only [this, Bool.false_eq_true, if_false]
    repeat' split
    all_goals simp

/-- what any handled data frame does to the uplink counter -/
theorem handleRx_fcnt (s : Session) (cfg : Config) (region : RegionState) (d : RxData) (mp : Nat) (snr : Int)
    (ig : Bool) (o : RxOut) (s' : Session) (cfg' : Config) (region' : RegionState)
    (h : sessionHandleRx s cfg region d mp snr ig = .ok (o, s', cfg', region')) :
    (o.resp = .noUpdate ∧ s'.fcntUp = s.fcntUp)
    ∨ (o.resp ≠ .noUpdate ∧ o.resp ≠ .sessionExpired ∧ s'.fcntUp = s.fcntUp + 1 ∧ s.fcntUp ≠ 0xFFFFFFFF)
    ∨ (o.resp = .sessionExpired ∧ s'.fcntUp = s.fcntUp ∧ s.fcntUp = 0xFFFFFFFF) := by
  unfold sessionHandleRx at h
  by_cases hlen : d.len > mp + 5
  · simp only [hlen, if_true] at h
    cases ig
    · simp only [Bool.false_eq_true, if_false, pure, Except.pure, Except.ok.injEq, Prod.mk.injEq] at h
      obtain ⟨rfl, rfl, rfl, rfl⟩ := h
      by_cases hx : s.fcntUp = 0xFFFFFFFF
      · right; right
        rw [(rx2Complete_fcnt s cfg region.id).1 hx]; exact ⟨rfl, rfl, hx⟩
      · right; left
        have := (rx2Complete_fcnt s cfg region.id).2 hx
        exact ⟨this.2.2, this.2.1, this.1, hx⟩
    · simp only [if_true, pure, Except.pure, Except.ok.injEq, Prod.mk.injEq] at h
      obtain ⟨rfl, rfl, rfl, rfl⟩ := h
      left; exact ⟨rfl, rfl⟩
  · simp only [hlen, if_false] at h
    cases hn : nextFcntDown s.fcntDown d.fcnt16 with
    | none =>
      simp only [hn, pure, Except.pure, Except.ok.injEq, Prod.mk.injEq] at h
      obtain ⟨rfl, rfl, rfl, rfl⟩ := h
      left; exact ⟨rfl, rfl⟩
    | some N =>
      simp only [hn] at h
      by_cases hm : (d.micFcnt != some N) = true
      · simp only [hm, if_true, pure, Except.pure, Except.ok.injEq, Prod.mk.injEq] at h
        obtain ⟨rfl, rfl, rfl, rfl⟩ := h
        left; exact ⟨rfl, rfl⟩
      · simp only [hm, Bool.false_eq_true, if_false] at h
        obtain ⟨ctx, _, h⟩ := Except.bind_eq_ok h
        by_cases hx : s.fcntUp = 0xFFFFFFFF
        · right; right
          cases hc : d.confirmed <;> cases ig <;>
            simp only [hc, hx, Bool.false_eq_true, if_false, if_true, beq_self_eq_true, pure, Except.pure, Except.ok.injEq,
              Prod.mk.injEq] at h <;>
            obtain ⟨rfl, rfl, rfl, rfl⟩ := h <;> simp_all
        · right; left
          have hx' : (s.fcntUp == 0xFFFFFFFF) = false := by simp [hx]
          cases hc : d.confirmed <;> cases ig <;>
            simp only [hc, hx', Bool.false_eq_true, if_false, if_true, pure, Except.pure, Except.ok.injEq,
              Prod.mk.injEq] at h <;>
            obtain ⟨rfl, rfl, rfl, rfl⟩ := h <;> simp_all

/-- the uplink handed to the radio carries the session's counter; building it leaves the counter alone -/
theorem send_uses_fcnt (s : Session) (cfg : Config) (r : RegionId) (data : List Nat) (port : Nat) (conf : Bool)
    (desc : UplinkDesc) (s' : Session) (h : prepareBuffer s cfg r data port conf = .ok (desc, s')) :
    desc.fcnt = s.fcntUp ∧ s'.fcntUp = s.fcntUp ∧ s'.fcntDown = s.fcntDown ∧ desc.devAddr = s.devAddr := by
  unfold prepareBuffer at h
  simp only [bind, Except.bind, pure, Except.pure] at h
  repeat' split at h
  all_goals (first | (simp only [Except.ok.injEq, Prod.mk.injEq] at h; obtain ⟨rfl, rfl⟩ := h; exact ⟨rfl, rfl, rfl, rfl⟩) | cases h)

/-- the state of a joined MAC with session `s` -/
def joinedWith (m : MacState) (s : Session) : Prop := m.st = .joined s

/-- one window, seen from the counter -/
theorem window_fcnt (m : MacState) (s : Session) (hm : joinedWith m s) (f : Option (RxView × Int)) (mp : Nat)
    (o : Option RxOut) (m' : MacState) (h : window m f mp = .ok (o, m')) :
    ∃ s', joinedWith m' s' ∧
      ((o = none ∧ s'.fcntUp = s.fcntUp)
       ∨ (∃ out, o = some out ∧ out.resp ≠ .sessionExpired ∧ s'.fcntUp = s.fcntUp + 1 ∧ s.fcntUp ≠ 0xFFFFFFFF)
       ∨ (∃ out, o = some out ∧ out.resp = .sessionExpired ∧ s'.fcntUp = s.fcntUp ∧ s.fcntUp = 0xFFFFFFFF)) := by
  unfold window at h
  cases f with
  | none =>
    simp only [pure, Except.pure, Except.ok.injEq, Prod.mk.injEq] at h
    obtain ⟨rfl, rfl⟩ := h
    exact ⟨s, hm, Or.inl ⟨rfl, rfl⟩⟩
  | some f =>
    obtain ⟨v, snr⟩ := f
    simp only at h
    obtain ⟨⟨ro, m1⟩, hrx, h⟩ := Except.bind_eq_ok h
    unfold macHandleRx at hrx
    unfold joinedWith at hm
    simp only [hm] at hrx
    cases v with
    | data d =>
      simp only at hrx
      obtain ⟨⟨out, s1, cfg1, reg1⟩, hs, hrx⟩ := Except.bind_eq_ok hrx
      simp only [pure, Except.pure, Except.ok.injEq, Prod.mk.injEq] at hrx
      obtain ⟨rfl, rfl⟩ := hrx
      have hf := handleRx_fcnt _ _ _ _ _ _ _ _ _ _ _ hs
      simp only at h
      by_cases hno : (out.resp == Response.noUpdate) = true
      · simp only [hno, if_true, pure, Except.pure, Except.ok.injEq, Prod.mk.injEq] at h
        obtain ⟨rfl, rfl⟩ := h
        refine ⟨s1, rfl, Or.inl ⟨rfl, ?_⟩⟩
        have : out.resp = .noUpdate := by simpa using hno
        rcases hf with ⟨_, h2⟩ | ⟨h1, _⟩ | ⟨h1, _⟩
        · exact h2
        · exact absurd this h1
        · rw [this] at h1; cases h1
      · simp only [hno, Bool.false_eq_true, if_false, pure, Except.pure, Except.ok.injEq, Prod.mk.injEq] at h
        obtain ⟨rfl, rfl⟩ := h
        have hne : out.resp ≠ .noUpdate := by simpa using hno
        refine ⟨s1, rfl, ?_⟩
        rcases hf with ⟨h1, _⟩ | ⟨_, h2, h3, h4⟩ | ⟨h1, h2, h3⟩
        · exact absurd h1 hne
        · exact Or.inr (Or.inl ⟨out, rfl, h2, h3, h4⟩)
        · exact Or.inr (Or.inr ⟨out, rfl, h1, h2, h3⟩)
    | garbage =>
      simp only [pure, Except.pure, Except.ok.injEq, Prod.mk.injEq] at hrx
      obtain ⟨rfl, rfl⟩ := hrx
      simp only [beq_self_eq_true, if_true, pure, Except.pure, Except.ok.injEq, Prod.mk.injEq] at h
      obtain ⟨rfl, rfl⟩ := h
      exact ⟨s, hm, Or.inl ⟨rfl, rfl⟩⟩
    | joinAccept j =>
      simp only [pure, Except.pure, Except.ok.injEq, Prod.mk.injEq] at hrx
      obtain ⟨rfl, rfl⟩ := hrx
      simp only [beq_self_eq_true, if_true, pure, Except.pure, Except.ok.injEq, Prod.mk.injEq] at h
      obtain ⟨rfl, rfl⟩ := h
      exact ⟨s, hm, Or.inl ⟨rfl, rfl⟩⟩

/-- `rx2_complete` on a joined MAC, seen from the counter -/
theorem macRx2Complete_fcnt (m : MacState) (s : Session) (hm : joinedWith m s) :
    ∃ s', joinedWith (macRx2Complete m).2 s' ∧
      ((s.fcntUp ≠ 0xFFFFFFFF ∧ s'.fcntUp = s.fcntUp + 1 ∧ (macRx2Complete m).1 ≠ .sessionExpired)
       ∨ (s.fcntUp = 0xFFFFFFFF ∧ s'.fcntUp = s.fcntUp ∧ (macRx2Complete m).1 = .sessionExpired)) := by
  unfold macRx2Complete joinedWith at *
  simp only [hm]
  refine ⟨_, rfl, ?_⟩
  by_cases hx : s.fcntUp = 0xFFFFFFFF
  · right
    rw [(rx2Complete_fcnt s m.cfg m.region.id).1 hx]; exact ⟨hx, rfl, rfl⟩
  · left
    have := (rx2Complete_fcnt s m.cfg m.region.id).2 hx
    exact ⟨hx, this.1, this.2.1⟩

/-- **every complete Class A receive procedure advances the uplink counter by exactly one, or
reports session expiry with the counter exhausted — it never wraps and never stands still.** -/
theorem cycle_fcnt (m : MacState) (s : Session) (hm : joinedWith m s) (rx1 rx2 : Option (RxView × Int)) (mp1 mp2 : Nat)
    (r : Response) (dl : Option (Nat × List Nat)) (m' : MacState)
    (h : classACycle m rx1 rx2 mp1 mp2 = .ok (r, dl, m')) :
    ∃ s', joinedWith m' s' ∧
      ((s.fcntUp ≠ 0xFFFFFFFF ∧ s'.fcntUp = s.fcntUp + 1 ∧ r ≠ .sessionExpired)
       ∨ (s.fcntUp = 0xFFFFFFFF ∧ s'.fcntUp = s.fcntUp ∧ r = .sessionExpired)) := by
  unfold classACycle at h
  obtain ⟨⟨o1, m1⟩, h1, h⟩ := Except.bind_eq_ok h
  obtain ⟨s1, hj1, hc1⟩ := window_fcnt m s hm rx1 mp1 o1 m1 h1
  rcases hc1 with ⟨rfl, e1⟩ | ⟨out, rfl, hne, e1, hx⟩ | ⟨out, rfl, he, e1, hx⟩
  · simp only at h
    obtain ⟨⟨o2, m2⟩, h2, h⟩ := Except.bind_eq_ok h
    obtain ⟨s2, hj2, hc2⟩ := window_fcnt m1 s1 hj1 rx2 mp2 o2 m2 h2
    rcases hc2 with ⟨rfl, e2⟩ | ⟨out, rfl, hne, e2, hx⟩ | ⟨out, rfl, he, e2, hx⟩
    · simp only [pure, Except.pure, Except.ok.injEq, Prod.mk.injEq] at h
      obtain ⟨rfl, rfl, rfl⟩ := h
      obtain ⟨s3, hj3, hc3⟩ := macRx2Complete_fcnt m2 s2 hj2
      refine ⟨s3, hj3, ?_⟩
      rcases hc3 with ⟨a, b, c⟩ | ⟨a, b, c⟩
      · left; exact ⟨by omega, by omega, c⟩
      · right; exact ⟨by omega, by omega, c⟩
    · simp only [pure, Except.pure, Except.ok.injEq, Prod.mk.injEq] at h
      obtain ⟨rfl, rfl, rfl⟩ := h
      exact ⟨s2, hj2, Or.inl ⟨by omega, by omega, hne⟩⟩
    · simp only [pure, Except.pure, Except.ok.injEq, Prod.mk.injEq] at h
      obtain ⟨rfl, rfl, rfl⟩ := h
      exact ⟨s2, hj2, Or.inr ⟨by omega, by omega, he⟩⟩
  · simp only [pure, Except.pure, Except.ok.injEq, Prod.mk.injEq] at h
    obtain ⟨rfl, rfl, rfl⟩ := h
    exact ⟨s1, hj1, Or.inl ⟨hx, e1, hne⟩⟩
  · simp only [pure, Except.pure, Except.ok.injEq, Prod.mk.injEq] at h
    obtain ⟨rfl, rfl, rfl⟩ := h
    exact ⟨s1, hj1, Or.inr ⟨hx, e1, he⟩⟩

/-- a radio fault after the frame was handed to the radio burns the counter as well -/
theorem fault_fcnt (m : MacState) (s : Session) (hm : joinedWith m s) :
    ∃ s', joinedWith (faultAfterTx m) s' ∧
      ((s.fcntUp ≠ 0xFFFFFFFF ∧ s'.fcntUp = s.fcntUp + 1) ∨ (s.fcntUp = 0xFFFFFFFF ∧ s'.fcntUp = s.fcntUp)) := by
  obtain ⟨s', hj, hc⟩ := macRx2Complete_fcnt m s hm
  refine ⟨s', hj, ?_⟩
  rcases hc with ⟨a, b, _⟩ | ⟨a, b, _⟩
  · exact Or.inl ⟨a, b⟩
  · exact Or.inr ⟨a, b⟩

/-- `Mac::send` on a joined MAC: the frame carries the session's counter and the counter stands -/
theorem macSend_fcnt {σ} (g : Rng σ) (m : MacState) (s : Session) (hm : joinedWith m s) (data : List Nat) (port : Nat)
    (conf : Bool) (rs rs' : σ) (o : Option SendOut) (m' : MacState)
    (h : macSend g m data port conf rs = .ok (o, m', rs')) :
    ∃ out s', o = some out ∧ out.frame.fcnt = s.fcntUp ∧ out.frame.devAddr = s.devAddr ∧ joinedWith m' s' ∧
      s'.fcntUp = s.fcntUp := by
  unfold macSend at h
  unfold joinedWith at hm
  simp only [hm] at h
  obtain ⟨⟨desc, s1⟩, hpb, h⟩ := Except.bind_eq_ok h
  obtain ⟨dr, _, h⟩ := Except.bind_eq_ok h
  obtain ⟨⟨tx, region, rs1⟩, _, h⟩ := Except.bind_eq_ok h
  obtain ⟨pw, _, h⟩ := Except.bind_eq_ok h
  obtain ⟨⟨rx1, rx2⟩, _, h⟩ := Except.bind_eq_ok h
  simp only [pure, Except.pure, Except.ok.injEq, Prod.mk.injEq] at h
  obtain ⟨rfl, rfl, rfl⟩ := h
  obtain ⟨h1, h2, _, h4⟩ := send_uses_fcnt _ _ _ _ _ _ _ _ hpb
  exact ⟨_, s1, rfl, h1, h4, rfl, h2⟩

/-- a MAC that is not joined refuses to send and stays as it is -/
theorem macSend_notJoined {σ} (g : Rng σ) (m : MacState) (hm : ∀ s, m.st ≠ .joined s) (data : List Nat) (port : Nat)
    (conf : Bool) (rs rs' : σ) (o : Option SendOut) (m' : MacState)
    (h : macSend g m data port conf rs = .ok (o, m', rs')) : o = none ∧ m' = m := by
  unfold macSend at h
  split at h
  · rename_i s hs; exact absurd hs (hm s)
  · simp only [pure, Except.pure, Except.ok.injEq, Prod.mk.injEq] at h
    exact ⟨h.1.symm, h.2.1.symm⟩

/-- any frame handled by `handle_rx`/`handle_rxc` on a joined MAC leaves it joined and never
decreases the uplink counter -/
theorem macHandleRx_fcnt_mono (m : MacState) (s : Session) (hm : joinedWith m s) (v : RxView) (mp : Nat) (snr : Int)
    (cc : Bool) (o : Option RxOut) (m' : MacState) (h : macHandleRx m v mp snr cc = .ok (o, m')) :
    ∃ s', joinedWith m' s' ∧ s.fcntUp ≤ s'.fcntUp ∧ (s.fcntUp ≤ 0xFFFFFFFF → s'.fcntUp ≤ 0xFFFFFFFF) := by
  unfold macHandleRx at h
  unfold joinedWith at hm
  simp only [hm] at h
  cases v with
  | data d =>
    simp only at h
    obtain ⟨⟨out, s1, cfg1, reg1⟩, hs, h⟩ := Except.bind_eq_ok h
    simp only [pure, Except.pure, Except.ok.injEq, Prod.mk.injEq] at h
    obtain ⟨rfl, rfl⟩ := h
    refine ⟨s1, rfl, ?_⟩
    rcases handleRx_fcnt _ _ _ _ _ _ _ _ _ _ _ hs with ⟨_, h2⟩ | ⟨_, _, h3, _⟩ | ⟨_, h2, _⟩ <;> omega
  | garbage =>
    simp only [pure, Except.pure, Except.ok.injEq, Prod.mk.injEq] at h
    obtain ⟨rfl, rfl⟩ := h
    exact ⟨s, hm, Nat.le_refl _, id⟩
  | joinAccept j =>
    simp only [pure, Except.pure, Except.ok.injEq, Prod.mk.injEq] at h
    obtain ⟨rfl, rfl⟩ := h
    exact ⟨s, hm, Nat.le_refl _, id⟩

/-- a Class C reception cannot create a session -/
theorem macHandleRxc_notJoined (m : MacState) (hm : ∀ s, m.st ≠ .joined s) (v : RxView) (mp : Nat) (snr : Int)
    (o : Option RxOut) (m' : MacState) (h : macHandleRx m v mp snr true = .ok (o, m')) : m' = m := by
  unfold macHandleRx at h
  split at h
  · rename_i s hs; exact absurd hs (hm s)
  · simp only [if_true, pure, Except.pure, Except.ok.injEq, Prod.mk.injEq] at h; exact h.2.symm
  · simp only [if_true, pure, Except.pure, Except.ok.injEq, Prod.mk.injEq] at h; exact h.2.symm

theorem window_fcnt_mono (m : MacState) (s : Session) (hm : joinedWith m s) (f : Option (RxView × Int)) (mp : Nat)
    (o : Option RxOut) (m' : MacState) (h : window m f mp = .ok (o, m')) :
    ∃ s', joinedWith m' s' ∧ s.fcntUp ≤ s'.fcntUp ∧ (s.fcntUp ≤ 0xFFFFFFFF → s'.fcntUp ≤ 0xFFFFFFFF) := by
  obtain ⟨s', hj, hc⟩ := window_fcnt m s hm f mp o m' h
  refine ⟨s', hj, ?_⟩
  rcases hc with ⟨_, e⟩ | ⟨_, _, _, e, _⟩ | ⟨_, _, _, e, _⟩ <;> omega

/-- the receive procedure cut short by a radio fault: still joined, counter not decreased -/
theorem faultedCycle_fcnt_mono (m : MacState) (s : Session) (hm : joinedWith m s) (k : Nat) (rx1 rx2 : Option (RxView × Int))
    (mp1 mp2 : Nat) (m' : MacState) (h : faultedCycle m k rx1 rx2 mp1 mp2 = .ok m') :
    ∃ s', joinedWith m' s' ∧ s.fcntUp ≤ s'.fcntUp ∧ (s.fcntUp ≤ 0xFFFFFFFF → s'.fcntUp ≤ 0xFFFFFFFF) := by
  unfold faultedCycle at h
  split at h
  · cases Except.pure_eq_ok h; exact ⟨s, hm, Nat.le_refl _, id⟩
  · obtain ⟨⟨o1, m1⟩, h1, h⟩ := Except.bind_eq_ok h
    cases Except.pure_eq_ok h
    exact window_fcnt_mono m s hm rx1 mp1 o1 _ h1
  · obtain ⟨⟨o1, m1⟩, h1, h⟩ := Except.bind_eq_ok h
    obtain ⟨s1, hj1, hle1, hb1⟩ := window_fcnt_mono m s hm rx1 mp1 o1 m1 h1
    cases o1 with
    | some o => cases Except.pure_eq_ok h; exact ⟨s1, hj1, hle1, hb1⟩
    | none =>
      simp only at h
      obtain ⟨⟨o2, m2⟩, h2, h⟩ := Except.bind_eq_ok h
      cases Except.pure_eq_ok h
      obtain ⟨s2, hj2, hle2, hb2⟩ := window_fcnt_mono m1 s1 hj1 rx2 mp2 o2 _ h2
      exact ⟨s2, hj2, by omega, fun hh => hb2 (hb1 hh)⟩

/-- the counter after a radio fault, with what the front-end reports -/
theorem fault_fcnt_resp (m : MacState) (s : Session) (hm : joinedWith m s) :
    ∃ s', joinedWith (faultAfterTx m) s' ∧
      ((s'.fcntUp = s.fcntUp + 1 ∧ faultExpired m = false) ∨ (s'.fcntUp = s.fcntUp ∧ faultExpired m = true)) := by
  obtain ⟨s', hj, hc⟩ := macRx2Complete_fcnt m s hm
  refine ⟨s', hj, ?_⟩
  unfold faultExpired
  rcases hc with ⟨_, b, c⟩ | ⟨_, b, c⟩
  · left; exact ⟨b, by simpa using c⟩
  · right; exact ⟨b, by simp [c]⟩

/-! ## histories -/

/-- an event that (re)starts activation: the session, if any, ends here -/
def isJoin : Ev → Bool
  | .joinAbp _ _ _ | .joinOtaa _ _ _ _ _ => true
  | _ => false

def expiredResp (r : Option Response) : Bool := r == some .sessionExpired

/-- **the counters of the uplinks handed to the radio, read off a history's trace** (event, output).
`b = some lo`: the next uplink of the running session must carry a counter ≥ `lo`; after an uplink
with counter `n` the bound is `n + 1` — strictly increasing — until the device reports
`SessionExpired` (`b = none`: the property makes no claim about a device that is used on after it
reported expiry) or a (re-)join starts a new session at 0. -/
def FcntStrict : Option Nat → List (Ev × Out) → Prop
  | _, [] => True
  | b, (ev, out) :: rest =>
    match out with
    | .up o resp _ =>
      (∀ lo, b = some lo → lo ≤ o.frame.fcnt) ∧
        FcntStrict (if expiredResp resp then none else some (o.frame.fcnt + 1)) rest
    | _ => if isJoin ev then FcntStrict (some 0) rest else FcntStrict b rest

/-- the bound `b` is respected by the state: a live session's counter is at least `lo` -/
def Rel (m : MacState) (b : Option Nat) : Prop := ∀ lo, b = some lo → ∀ s, m.st = .joined s → lo ≤ s.fcntUp

theorem rel_of_joined {m : MacState} {s : Session} (hj : joinedWith m s) {lo : Nat} (h : lo ≤ s.fcntUp) : Rel m (some lo) := by
  intro lo' e s' hs'
  cases e
  unfold joinedWith at hj
  rw [hj] at hs'
  cases hs'
  exact h

theorem rel_mono {m m' : MacState} {b : Option Nat}
    (h : ∀ s', m'.st = .joined s' → ∃ s, m.st = .joined s ∧ s.fcntUp ≤ s'.fcntUp) (hr : Rel m b) : Rel m' b := by
  intro lo e s' hs'
  obtain ⟨s, hs, hle⟩ := h s' hs'
  exact Nat.le_trans (hr lo e s hs) hle

theorem macSetAdr_st (m : MacState) (on : Bool) (s' : Session) (h : (macSetAdr m on).st = .joined s') :
    ∃ s, m.st = .joined s ∧ s.fcntUp = s'.fcntUp := by
  unfold macSetAdr at h
  cases hst : m.st with
  | joined s =>
    cases on
    · simp only [hst] at h
      cases h
      exact ⟨s, rfl, rfl⟩
    · simp only [hst] at h
      exact ⟨s, rfl, by cases h; rfl⟩
  | otaa o => cases on <;> simp [hst] at h
  | unjoined => cases on <;> simp [hst] at h

/-- what one step establishes, by output -/
def stepPost (ev : Ev) (b : Option Nat) (m' : MacState) : Out → Prop
  | .up o resp _ => (∀ lo, b = some lo → lo ≤ o.frame.fcnt) ∧ Rel m' (if expiredResp resp then none else some (o.frame.fcnt + 1))
  | _ => if isJoin ev then Rel m' (some 0) else Rel m' b

/-- one step, seen from the counter bound -/
theorem step_rel {σ} (g : Rng σ) (m m' : MacState) (rs rs' : σ) (ev : Ev) (out : Out) (b : Option Nat) (hr : Rel m b)
    (h : step g (m, rs) ev = .ok ((m', rs'), out)) : stepPost ev b m' out := by
  have rel0 : ∀ m'', Rel m'' (some 0) := fun m'' lo e s _ => by cases e; exact Nat.zero_le _
  unfold step at h
  cases ev with
  | joinAbp da nwk app =>
    simp only [pure, Except.pure, Except.ok.injEq, Prod.mk.injEq] at h
    obtain ⟨⟨rfl, _⟩, rfl⟩ := h
    simp only [stepPost, isJoin, if_true]
    exact rel0 _
  | joinOtaa fault rx1 rx2 mp1 mp2 =>
    simp only at h
    obtain ⟨⟨o, m1, s1⟩, _, h⟩ := Except.bind_eq_ok h
    cases fault with
    | some k =>
      simp only at h
      obtain ⟨m2, _, h⟩ := Except.bind_eq_ok h
      simp only [pure, Except.pure, Except.ok.injEq, Prod.mk.injEq] at h
      obtain ⟨⟨rfl, _⟩, rfl⟩ := h
      simp only [stepPost, isJoin, if_true]
      exact rel0 _
    | none =>
      simp only at h
      obtain ⟨⟨r, dl, m2⟩, _, h⟩ := Except.bind_eq_ok h
      simp only [pure, Except.pure, Except.ok.injEq, Prod.mk.injEq] at h
      obtain ⟨⟨rfl, _⟩, rfl⟩ := h
      simp only [stepPost, isJoin, if_true]
      exact rel0 _
  | setAdr on =>
    simp only [pure, Except.pure, Except.ok.injEq, Prod.mk.injEq] at h
    obtain ⟨⟨rfl, _⟩, rfl⟩ := h
    simp only [stepPost, isJoin, Bool.false_eq_true, if_false]
    exact rel_mono (fun s' hs' => by obtain ⟨s, h1, h2⟩ := macSetAdr_st m on s' hs'; exact ⟨s, h1, Nat.le_of_eq h2⟩) hr
  | setDr dr =>
    simp only [pure, Except.pure, Except.ok.injEq, Prod.mk.injEq] at h
    obtain ⟨⟨rfl, _⟩, rfl⟩ := h
    simp only [stepPost, isJoin, Bool.false_eq_true, if_false]
    exact rel_mono (fun s' hs' => ⟨s', hs', Nat.le_refl _⟩) hr
  | rxc v snr mp =>
    simp only at h
    obtain ⟨rf, _, h⟩ := Except.bind_eq_ok h
    obtain ⟨⟨o, m1⟩, hrx, h⟩ := Except.bind_eq_ok h
    simp only [pure, Except.pure, Except.ok.injEq, Prod.mk.injEq] at h
    obtain ⟨⟨rfl, _⟩, rfl⟩ := h
    simp only [stepPost, isJoin, Bool.false_eq_true, if_false]
    cases hst : m.st with
    | joined s =>
      obtain ⟨s1, hj1, hle, _⟩ := macHandleRx_fcnt_mono m s hst v mp snr true o m1 hrx
      refine rel_mono (fun s' hs' => ⟨s, hst, ?_⟩) hr
      · unfold joinedWith at hj1; rw [hj1] at hs'; cases hs'; exact hle
    | otaa o' =>
      have := macHandleRxc_notJoined m (by intro s e; rw [hst] at e; cases e) v mp snr o m1 hrx
      subst this; exact hr
    | unjoined =>
      have := macHandleRxc_notJoined m (by intro s e; rw [hst] at e; cases e) v mp snr o m1 hrx
      subst this; exact hr
  | uplink data fport conf fault rx1 rx2 mp1 mp2 =>
    simp only at h
    obtain ⟨⟨o, m1, rs1⟩, hsend, hb⟩ := Except.bind_eq_ok h
    clear h
    have h := hb
    clear hb
    simp only at h
    by_cases hjn : ∃ s, m.st = .joined s
    · obtain ⟨s, hst⟩ := hjn
      obtain ⟨out1, s1, rfl, hf, _, hj1, hf1⟩ := macSend_fcnt g m s hst data fport conf rs rs1 o m1 hsend
      simp only at h
      cases fault with
      | some k =>
        simp only at h
        obtain ⟨m2, hfc, h⟩ := Except.bind_eq_ok h
        simp only [pure, Except.pure, Except.ok.injEq, Prod.mk.injEq] at h
        obtain ⟨⟨rfl, _⟩, rfl⟩ := h
        obtain ⟨s2, hj2, hle2, _⟩ := faultedCycle_fcnt_mono m1 s1 hj1 k rx1 rx2 mp1 mp2 m2 hfc
        obtain ⟨s3, hj3, hc3⟩ := fault_fcnt_resp m2 s2 hj2
        simp only [stepPost]
        refine ⟨fun lo e => by rw [hf]; exact hr lo e s hst, ?_⟩
        rcases hc3 with ⟨e3, hx⟩ | ⟨e3, hx⟩
        · simp only [hx, Bool.false_eq_true, if_false, expiredResp]
          have : ((none : Option Response) == some Response.sessionExpired) = false := rfl
          simp only [this, Bool.false_eq_true, if_false]
          exact rel_of_joined hj3 (by omega)
        · simp only [hx, if_true, expiredResp, beq_self_eq_true]
          intro lo e; cases e
      | none =>
        simp only at h
        obtain ⟨⟨r, dl, m2⟩, hcy, h⟩ := Except.bind_eq_ok h
        simp only [pure, Except.pure, Except.ok.injEq, Prod.mk.injEq] at h
        obtain ⟨⟨rfl, _⟩, rfl⟩ := h
        obtain ⟨s2, hj2, hc2⟩ := cycle_fcnt m1 s1 hj1 rx1 rx2 mp1 mp2 r dl m2 hcy
        simp only [stepPost]
        refine ⟨fun lo e => by rw [hf]; exact hr lo e s hst, ?_⟩
        rcases hc2 with ⟨_, e2, hne⟩ | ⟨_, _, he⟩
        · have : expiredResp (some r) = false := by
            unfold expiredResp
            simp only [beq_eq_false_iff_ne, ne_eq, Option.some.injEq]
            exact hne
          simp only [this, Bool.false_eq_true, if_false]
          exact rel_of_joined hj2 (by omega)
        · subst he
          simp only [expiredResp, beq_self_eq_true, if_true]
          intro lo e; cases e
    · have hnj : ∀ s, m.st ≠ .joined s := fun s e => hjn ⟨s, e⟩
      obtain ⟨rfl, rfl⟩ := macSend_notJoined g m hnj data fport conf rs rs1 o m1 hsend
      simp only [pure, Except.pure, Except.ok.injEq, Prod.mk.injEq] at h
      obtain ⟨⟨rfl, _⟩, rfl⟩ := h
      simp only [stepPost, isJoin, Bool.false_eq_true, if_false]
      exact hr

theorem run_fcnt_strict {σ} (g : Rng σ) (m : MacState) (rs : σ) (evs : List Ev) (ms' : MacState × σ) (outs : List Out)
    (b : Option Nat) (hr : Rel m b) (h : run g (m, rs) evs = .ok (ms', outs)) : FcntStrict b (evs.zip outs) := by
  induction evs generalizing m rs b outs with
  | nil => simp [FcntStrict]
  | cons ev rest ih =>
    unfold run at h
    obtain ⟨⟨⟨m1, rs1⟩, o⟩, hstep, h⟩ := Except.bind_eq_ok h
    obtain ⟨⟨ms2, os⟩, hrun, h⟩ := Except.bind_eq_ok h
    simp only [pure, Except.pure, Except.ok.injEq, Prod.mk.injEq] at h
    obtain ⟨rfl, rfl⟩ := h
    have hs := step_rel g m m1 rs rs1 ev o b hr hstep
    simp only [List.zip_cons_cons]
    unfold FcntStrict
    cases o with
    | up so resp dl =>
      simp only [stepPost] at hs ⊢
      exact ⟨hs.1, ih m1 rs1 os _ hs.2 hrun⟩
    | done => simp only [stepPost] at hs ⊢; split <;> rename_i hj <;> simp only [hj, if_true, if_false, Bool.false_eq_true] at hs <;> exact ih m1 rs1 os _ hs hrun
    | notJoined => simp only [stepPost] at hs ⊢; split <;> rename_i hj <;> simp only [hj, if_true, if_false, Bool.false_eq_true] at hs <;> exact ih m1 rs1 os _ hs hrun
    | join jo resp => simp only [stepPost] at hs ⊢; split <;> rename_i hj <;> simp only [hj, if_true, if_false, Bool.false_eq_true] at hs <;> exact ih m1 rs1 os _ hs hrun
    | rxc rf ro => simp only [stepPost] at hs ⊢; split <;> rename_i hj <;> simp only [hj, if_true, if_false, Bool.false_eq_true] at hs <;> exact ih m1 rs1 os _ hs hrun

/-- **over every history, the uplink counters handed to the radio within one session are strictly
increasing until the device reports `SessionExpired`** — whatever frames are received in RX1/RX2 or
between uplinks (Class C), wherever radio faults strike, from ANY start state (in particular the
initial one), for every random stream.  A (re-)join starts a new session. -/
theorem history_fcnt_strict {σ} (g : Rng σ) (m : MacState) (rs : σ) (evs : List Ev) (ms' : MacState × σ)
    (outs : List Out) (h : run g (m, rs) evs = .ok (ms', outs)) : FcntStrict (some 0) (evs.zip outs) :=
  run_fcnt_strict g m rs evs ms' outs (some 0) (fun _ e _ _ => by cases e; exact Nat.zero_le _) h

/-- … and from a state with a live session: every uplink carries at least that session's counter -/
theorem history_fcnt_from {σ} (g : Rng σ) (m : MacState) (s : Session) (hm : joinedWith m s) (rs : σ) (evs : List Ev)
    (ms' : MacState × σ) (outs : List Out) (h : run g (m, rs) evs = .ok (ms', outs)) :
    FcntStrict (some s.fcntUp) (evs.zip outs) :=
  run_fcnt_strict g m rs evs ms' outs _ (rel_of_joined hm (Nat.le_refl _)) h

/-- position `k` of a trace neither (re-)joins nor reports expiry -/
def Quiet (t : List (Ev × Out)) (k : Nat) : Prop :=
  ∀ e o, t[k]? = some (e, o) → isJoin e = false ∧ ∀ so d, o ≠ .up so (some .sessionExpired) d

theorem fcntStrict_bound (t : List (Ev × Out)) (lo j : Nat) (e : Ev) (so : SendOut) (r : Option Response)
    (d : Option (Nat × List Nat)) (h : FcntStrict (some lo) t) (hj : t[j]? = some (e, .up so r d))
    (hq : ∀ k, k < j → Quiet t k) : lo ≤ so.frame.fcnt := by
  induction t generalizing lo j with
  | nil => simp at hj
  | cons x rest ih =>
    obtain ⟨e0, o0⟩ := x
    cases j with
    | zero =>
      simp only [List.getElem?_cons_zero, Option.some.injEq, Prod.mk.injEq] at hj
      obtain ⟨rfl, rfl⟩ := hj
      unfold FcntStrict at h
      exact h.1 lo rfl
    | succ j =>
      simp only [List.getElem?_cons_succ] at hj
      have hq0 := hq 0 (Nat.succ_pos _) e0 o0 (by simp)
      have hq' : ∀ k, k < j → Quiet rest k := by
        intro k hk e' o' hk'
        exact hq (k + 1) (by omega) e' o' (by simpa using hk')
      unfold FcntStrict at h
      cases o0 with
      | up so0 r0 d0 =>
        simp only at h
        have hne : expiredResp r0 = false := by
          unfold expiredResp
          cases r0 with
          | none => rfl
          | some r0 =>
            simp only [beq_eq_false_iff_ne, ne_eq, Option.some.injEq]
            intro e; subst e
            exact hq0.2 so0 d0 rfl
        simp only [hne, Bool.false_eq_true, if_false] at h
        have := ih (so0.frame.fcnt + 1) j h.2 hj hq'
        have := h.1 lo rfl
        omega
      | done => simp only [hq0.1, Bool.false_eq_true, if_false] at h; exact ih lo j h hj hq'
      | notJoined => simp only [hq0.1, Bool.false_eq_true, if_false] at h; exact ih lo j h hj hq'
      | join jo jr => simp only [hq0.1, Bool.false_eq_true, if_false] at h; exact ih lo j h hj hq'
      | rxc rf ro => simp only [hq0.1, Bool.false_eq_true, if_false] at h; exact ih lo j h hj hq'

theorem fcntStrict_drop (t : List (Ev × Out)) (b : Option Nat) (i : Nat) (e : Ev) (so : SendOut) (r : Option Response)
    (d : Option (Nat × List Nat)) (h : FcntStrict b t) (hi : t[i]? = some (e, .up so r d))
    (hr : r ≠ some .sessionExpired) : FcntStrict (some (so.frame.fcnt + 1)) (t.drop (i + 1)) := by
  induction t generalizing b i with
  | nil => simp at hi
  | cons x rest ih =>
    obtain ⟨e0, o0⟩ := x
    cases i with
    | zero =>
      simp only [List.getElem?_cons_zero, Option.some.injEq, Prod.mk.injEq] at hi
      obtain ⟨rfl, rfl⟩ := hi
      unfold FcntStrict at h
      have hne : expiredResp r = false := by
        unfold expiredResp
        cases r with
        | none => rfl
        | some r => simpa using hr
      simp only [hne, Bool.false_eq_true, if_false] at h
      simpa using h.2
    | succ i =>
      simp only [List.getElem?_cons_succ] at hi
      unfold FcntStrict at h
      simp only [List.drop_succ_cons]
      cases o0 with
      | up so0 r0 d0 => exact ih _ i h.2 hi
      | done => simp only at h; split at h <;> exact ih _ i h hi
      | notJoined => simp only at h; split at h <;> exact ih _ i h hi
      | join jo jr => simp only at h; split at h <;> exact ih _ i h hi
      | rxc rf ro => simp only at h; split at h <;> exact ih _ i h hi

/-- **no counter is ever reused within a session.**  Take any history and any two uplinks of it, the
`i`-th and the `j`-th event (`i < j`), with no (re-)join and no reported `SessionExpired` from `i` up
to (excluding) `j`: the later frame carries a strictly larger 32-bit counter — so no
(session key, DevAddr, FCnt) triple is handed to the radio twice. -/
theorem history_no_counter_reuse {σ} (g : Rng σ) (m : MacState) (rs : σ) (evs : List Ev) (ms' : MacState × σ)
    (outs : List Out) (h : run g (m, rs) evs = .ok (ms', outs)) (i j : Nat) (hij : i < j)
    (ei ej : Ev) (oi oj : SendOut) (ri rj : Option Response) (di dj : Option (Nat × List Nat))
    (hi : (evs.zip outs)[i]? = some (ei, .up oi ri di)) (hj : (evs.zip outs)[j]? = some (ej, .up oj rj dj))
    (hq : ∀ k, i ≤ k → k < j → Quiet (evs.zip outs) k) : oi.frame.fcnt < oj.frame.fcnt := by
  have hs := history_fcnt_strict g m rs evs ms' outs h
  have hri : ri ≠ some .sessionExpired := fun e => (hq i (Nat.le_refl _) hij ei _ hi).2 oi di (by rw [e])
  have hd := fcntStrict_drop _ _ i ei oi ri di hs hi hri
  have hj' : ((evs.zip outs).drop (i + 1))[j - (i + 1)]? = some (ej, .up oj rj dj) := by
    rw [List.getElem?_drop]; rw [show i + 1 + (j - (i + 1)) = j by omega]; exact hj
  have := fcntStrict_bound _ _ _ ej oj rj dj hd hj' (by
    intro k hk e' o' hk'
    rw [List.getElem?_drop] at hk'
    exact hq (i + 1 + k) (by omega) (by omega) e' o' hk')
  omega

/-! ## a (re-)join starts a fresh session -/

theorem otaaAccept_st (m m' : MacState) (j : RxJoinAccept) (h : otaaAccept m j = .ok m') :
    m'.st = .joined (Session.new j.devAddr j.nwkKey j.appKey) := by
  unfold otaaAccept at h
  obtain ⟨region, _, h⟩ := Except.bind_eq_ok h
  obtain ⟨d, _, h⟩ := Except.bind_eq_ok h
  cases Except.pure_eq_ok h
  rfl

/-- a receive window while joining: nothing happens, or an authentic JoinAccept creates the session -/
theorem window_otaa (m : MacState) (o : OtaaState) (hm : m.st = .otaa o) (f : Option (RxView × Int)) (mp : Nat)
    (ro : Option RxOut) (m' : MacState) (h : window m f mp = .ok (ro, m')) :
    (m' = m ∧ ro = none) ∨
    (∃ j snr, f = some (.joinAccept j, snr) ∧ j.micOk = true ∧ ro.isSome = true ∧
      m'.st = .joined (Session.new j.devAddr j.nwkKey j.appKey)) := by
  unfold window at h
  cases f with
  | none =>
    simp only [pure, Except.pure, Except.ok.injEq, Prod.mk.injEq] at h
    exact Or.inl ⟨h.2.symm, h.1.symm⟩
  | some f =>
    obtain ⟨v, snr⟩ := f
    simp only at h
    obtain ⟨⟨o1, m1⟩, hrx, h⟩ := Except.bind_eq_ok h
    unfold macHandleRx at hrx
    simp only [hm, Bool.false_eq_true, if_false] at hrx
    cases v with
    | joinAccept j =>
      simp only at hrx
      by_cases hmic : j.micOk = true
      · simp only [hmic, if_true] at hrx
        obtain ⟨m2, hacc, hrx⟩ := Except.bind_eq_ok hrx
        simp only [pure, Except.pure, Except.ok.injEq, Prod.mk.injEq] at hrx
        obtain ⟨rfl, rfl⟩ := hrx
        have : (Response.joinSuccess == Response.noUpdate) = false := by decide
        simp only [this, Bool.false_eq_true, if_false, pure, Except.pure, Except.ok.injEq, Prod.mk.injEq] at h
        obtain ⟨rfl, rfl⟩ := h
        exact Or.inr ⟨j, snr, rfl, hmic, rfl, otaaAccept_st _ _ _ hacc⟩
      · simp only [hmic, Bool.false_eq_true, if_false, pure, Except.pure, Except.ok.injEq, Prod.mk.injEq] at hrx
        obtain ⟨rfl, rfl⟩ := hrx
        simp only [beq_self_eq_true, if_true, pure, Except.pure, Except.ok.injEq, Prod.mk.injEq] at h
        exact Or.inl ⟨h.2.symm, h.1.symm⟩
    | garbage =>
      simp only [pure, Except.pure, Except.ok.injEq, Prod.mk.injEq] at hrx
      obtain ⟨rfl, rfl⟩ := hrx
      simp only [beq_self_eq_true, if_true, pure, Except.pure, Except.ok.injEq, Prod.mk.injEq] at h
      exact Or.inl ⟨h.2.symm, h.1.symm⟩
    | data d =>
      simp only [pure, Except.pure, Except.ok.injEq, Prod.mk.injEq] at hrx
      obtain ⟨rfl, rfl⟩ := hrx
      simp only [beq_self_eq_true, if_true, pure, Except.pure, Except.ok.injEq, Prod.mk.injEq] at h
      exact Or.inl ⟨h.2.symm, h.1.symm⟩

theorem macJoinOtaa_st {σ} (g : Rng σ) (m m' : MacState) (rs rs' : σ) (o : JoinOut)
    (h : macJoinOtaa g m rs = .ok (o, m', rs')) : ∃ ot, m'.st = .otaa ot := by
  unfold macJoinOtaa at h
  simp only at h
  obtain ⟨dr, _, h⟩ := Except.bind_eq_ok h
  obtain ⟨⟨tx, region, rs1⟩, _, h⟩ := Except.bind_eq_ok h
  obtain ⟨pw, _, h⟩ := Except.bind_eq_ok h
  obtain ⟨⟨rx1, rx2⟩, _, h⟩ := Except.bind_eq_ok h
  simp only [pure, Except.pure, Except.ok.injEq, Prod.mk.injEq] at h
  obtain ⟨_, rfl, _⟩ := h
  exact ⟨_, rfl⟩

/-- the session a join attempt can end in: none, or the one the authentic JoinAccept defines -/
def FreshFrom (rx1 rx2 : Option (RxView × Int)) (m' : MacState) : Prop :=
  (∃ ot, m'.st = .otaa ot) ∨
  ∃ j snr, (rx1 = some (.joinAccept j, snr) ∨ rx2 = some (.joinAccept j, snr)) ∧ j.micOk = true ∧
    m'.st = .joined (Session.new j.devAddr j.nwkKey j.appKey)

theorem classACycle_otaa (m : MacState) (o : OtaaState) (hm : m.st = .otaa o) (rx1 rx2 : Option (RxView × Int)) (mp1 mp2 : Nat)
    (r : Response) (dl : Option (Nat × List Nat)) (m' : MacState) (h : classACycle m rx1 rx2 mp1 mp2 = .ok (r, dl, m')) :
    FreshFrom rx1 rx2 m' := by
  unfold classACycle at h
  obtain ⟨⟨o1, m1⟩, h1, h⟩ := Except.bind_eq_ok h
  rcases window_otaa m o hm rx1 mp1 o1 m1 h1 with ⟨rfl, rfl⟩ | ⟨j, snr, hf, hmic, hsome, hst⟩
  · simp only at h
    obtain ⟨⟨o2, m2⟩, h2, h⟩ := Except.bind_eq_ok h
    rcases window_otaa m1 o hm rx2 mp2 o2 m2 h2 with ⟨rfl, rfl⟩ | ⟨j, snr, hf, hmic, hsome, hst⟩
    · simp only [macRx2Complete, hm, pure, Except.pure, Except.ok.injEq, Prod.mk.injEq] at h
      obtain ⟨_, _, rfl⟩ := h
      exact Or.inl ⟨o, hm⟩
    · cases o2 with
      | none => cases hsome
      | some oo =>
        simp only [pure, Except.pure, Except.ok.injEq, Prod.mk.injEq] at h
        obtain ⟨_, _, rfl⟩ := h
        exact Or.inr ⟨j, snr, Or.inr hf, hmic, hst⟩
  · cases o1 with
    | none => cases hsome
    | some oo =>
      simp only [pure, Except.pure, Except.ok.injEq, Prod.mk.injEq] at h
      obtain ⟨_, _, rfl⟩ := h
      exact Or.inr ⟨j, snr, Or.inl hf, hmic, hst⟩

theorem faultedCycle_otaa (m : MacState) (o : OtaaState) (hm : m.st = .otaa o) (k : Nat) (rx1 rx2 : Option (RxView × Int))
    (mp1 mp2 : Nat) (m' : MacState) (h : faultedCycle m k rx1 rx2 mp1 mp2 = .ok m') : FreshFrom rx1 rx2 m' := by
  unfold faultedCycle at h
  split at h
  · cases Except.pure_eq_ok h; exact Or.inl ⟨o, hm⟩
  · obtain ⟨⟨o1, m1⟩, h1, h⟩ := Except.bind_eq_ok h
    cases Except.pure_eq_ok h
    rcases window_otaa m o hm rx1 mp1 o1 _ h1 with ⟨rfl, rfl⟩ | ⟨j, snr, hf, hmic, _, hst⟩
    · exact Or.inl ⟨o, hm⟩
    · exact Or.inr ⟨j, snr, Or.inl hf, hmic, hst⟩
  · obtain ⟨⟨o1, m1⟩, h1, h⟩ := Except.bind_eq_ok h
    rcases window_otaa m o hm rx1 mp1 o1 m1 h1 with ⟨rfl, rfl⟩ | ⟨j, snr, hf, hmic, hsome, hst⟩
    · simp only at h
      obtain ⟨⟨o2, m2⟩, h2, h⟩ := Except.bind_eq_ok h
      cases Except.pure_eq_ok h
      rcases window_otaa m1 o hm rx2 mp2 o2 _ h2 with ⟨rfl, rfl⟩ | ⟨j, snr, hf, hmic, _, hst⟩
      · exact Or.inl ⟨o, hm⟩
      · exact Or.inr ⟨j, snr, Or.inr hf, hmic, hst⟩
    · cases o1 with
      | none => cases hsome
      | some oo =>
        cases Except.pure_eq_ok h
        exact Or.inr ⟨j, snr, Or.inl hf, hmic, hst⟩

/-- what a join event leaves behind -/
def JoinPost (m' : MacState) : Ev → Prop
  | .joinAbp da nwk app => m'.st = .joined (Session.new da nwk app)
  | .joinOtaa _ rx1 rx2 _ _ => FreshFrom rx1 rx2 m'
  | _ => True

/-- **a (re-)join starts at zero with the key identities of the activation**: after an ABP
activation the session is exactly `Session.new` of the given address and keys; after an OTAA attempt
the MAC is either still joining or holds exactly the session defined by an authentic JoinAccept heard
in RX1 or RX2 — counters 0, no downlink counter, nothing pending, and the keys derived from that
JoinAccept; nothing of the previous session survives. -/
theorem join_starts_fresh {σ} (g : Rng σ) (m m' : MacState) (rs rs' : σ) (ev : Ev) (out : Out)
    (h : step g (m, rs) ev = .ok ((m', rs'), out)) : JoinPost m' ev := by
  unfold step at h
  cases ev with
  | joinAbp da nwk app =>
    simp only [pure, Except.pure, Except.ok.injEq, Prod.mk.injEq] at h
    obtain ⟨⟨rfl, _⟩, _⟩ := h
    rfl
  | joinOtaa fault rx1 rx2 mp1 mp2 =>
    simp only [JoinPost] at h ⊢
    obtain ⟨⟨o, m1, s1⟩, hj, h⟩ := Except.bind_eq_ok h
    obtain ⟨ot, hot⟩ := macJoinOtaa_st g m m1 rs s1 o hj
    cases fault with
    | some k =>
      simp only at h
      obtain ⟨m2, hfc, h⟩ := Except.bind_eq_ok h
      simp only [pure, Except.pure, Except.ok.injEq, Prod.mk.injEq] at h
      obtain ⟨⟨rfl, _⟩, _⟩ := h
      exact faultedCycle_otaa m1 ot hot k rx1 rx2 mp1 mp2 _ hfc
    | none =>
      simp only at h
      obtain ⟨⟨r, dl, m2⟩, hcy, h⟩ := Except.bind_eq_ok h
      simp only [pure, Except.pure, Except.ok.injEq, Prod.mk.injEq] at h
      obtain ⟨⟨rfl, _⟩, _⟩ := h
      exact classACycle_otaa m1 ot hot rx1 rx2 mp1 mp2 r dl _ hcy
  | _ => trivial

/-! ## within a session address and keys never change -/

/-- the identity of a session: address and key identities -/
def sid (s : Session) : Nat × Nat × Nat := (s.devAddr, s.nwkKey, s.appKey)

theorem rx2Complete_sid (s : Session) (cfg : Config) (r : RegionId) : sid (rx2Complete s cfg r).2.1 = sid s := by
  unfold rx2Complete
  by_cases h1 : (s.fcntUp == 0xFFFFFFFF) = true
  · simp [h1]
  · simp only [h1, Bool.false_eq_true, if_false]
    by_cases h2 : cfg.adrEnabled = true
    · simp only [h2, if_true]
      by_cases h3 : min (s.adrAckCnt + 1) 0xFFFFFFFF ≥ Gen.Session.ADR_ACK_LIMIT.toNat + Gen.Session.ADR_ACK_DELAY.toNat
      · simp only [h3, if_true]
        by_cases h4 : ((min (s.adrAckCnt + 1) 0xFFFFFFFF - Gen.Session.ADR_ACK_LIMIT.toNat) % Gen.Session.ADR_ACK_DELAY.toNat == 0) = true
        · simp only [h4, if_true]
          cases nextLowerDatarate r cfg.dataRate <;> rfl
        · simp only [h4, Bool.false_eq_true, if_false]; rfl
      · simp only [h3, if_false]; rfl
    · simp only [h2, Bool.false_eq_true, if_false]; rfl

theorem sessionHandleRx_sid (s : Session) (cfg : Config) (region : RegionState) (d : RxData) (mp : Nat) (snr : Int)
    (ig : Bool) (o : RxOut) (s' : Session) (cfg' : Config) (region' : RegionState)
    (h : sessionHandleRx s cfg region d mp snr ig = .ok (o, s', cfg', region')) : sid s' = sid s := by
  unfold sessionHandleRx at h
  by_cases hlen : d.len > mp + 5
  · simp only [hlen, if_true] at h
    cases ig
    · simp only [Bool.false_eq_true, if_false, pure, Except.pure, Except.ok.injEq, Prod.mk.injEq] at h
      obtain ⟨_, rfl, _, _⟩ := h
      exact rx2Complete_sid s cfg region.id
    · simp only [if_true, pure, Except.pure, Except.ok.injEq, Prod.mk.injEq] at h
      obtain ⟨_, rfl, _, _⟩ := h
      rfl
  · simp only [hlen, if_false] at h
    cases hn : nextFcntDown s.fcntDown d.fcnt16 with
    | none =>
      simp only [hn, pure, Except.pure, Except.ok.injEq, Prod.mk.injEq] at h
      obtain ⟨_, rfl, _, _⟩ := h
      rfl
    | some N =>
      simp only [hn] at h
      by_cases hm : (d.micFcnt != some N) = true
      · simp only [hm, if_true, pure, Except.pure, Except.ok.injEq, Prod.mk.injEq] at h
        obtain ⟨_, rfl, _, _⟩ := h
        rfl
      · simp only [hm, Bool.false_eq_true, if_false] at h
        obtain ⟨ctx, _, h⟩ := Except.bind_eq_ok h
        cases hc : d.confirmed <;> cases ig <;> by_cases hx : (s.fcntUp == 0xFFFFFFFF) = true <;>
          simp only [hc, hx, Bool.false_eq_true, if_false, if_true, pure, Except.pure, Except.ok.injEq,
            Prod.mk.injEq] at h <;>
          obtain ⟨_, rfl, _, _⟩ := h <;> rfl

theorem prepareBuffer_sid (s : Session) (cfg : Config) (r : RegionId) (data : List Nat) (port : Nat) (conf : Bool)
    (desc : UplinkDesc) (s' : Session) (h : prepareBuffer s cfg r data port conf = .ok (desc, s')) : sid s' = sid s := by
  unfold prepareBuffer at h
  simp only [pure, Except.pure] at h
  repeat' split at h
  all_goals (first | (simp only [Except.ok.injEq, Prod.mk.injEq] at h; obtain ⟨_, rfl⟩ := h; rfl) | cases h)

/-- a joined MAC stays joined, with the same address and keys, through … any received frame -/
theorem macHandleRx_sid (m : MacState) (s : Session) (hm : joinedWith m s) (v : RxView) (mp : Nat) (snr : Int) (cc : Bool)
    (o : Option RxOut) (m' : MacState) (h : macHandleRx m v mp snr cc = .ok (o, m')) :
    ∃ s', joinedWith m' s' ∧ sid s' = sid s := by
  unfold macHandleRx at h
  unfold joinedWith at hm
  simp only [hm] at h
  cases v with
  | data d =>
    simp only at h
    obtain ⟨⟨out, s1, cfg1, reg1⟩, hs, h⟩ := Except.bind_eq_ok h
    simp only [pure, Except.pure, Except.ok.injEq, Prod.mk.injEq] at h
    obtain ⟨_, rfl⟩ := h
    exact ⟨s1, rfl, sessionHandleRx_sid _ _ _ _ _ _ _ _ _ _ _ hs⟩
  | garbage =>
    simp only [pure, Except.pure, Except.ok.injEq, Prod.mk.injEq] at h
    obtain ⟨_, rfl⟩ := h
    exact ⟨s, hm, rfl⟩
  | joinAccept j =>
    simp only [pure, Except.pure, Except.ok.injEq, Prod.mk.injEq] at h
    obtain ⟨_, rfl⟩ := h
    exact ⟨s, hm, rfl⟩

theorem window_sid (m : MacState) (s : Session) (hm : joinedWith m s) (f : Option (RxView × Int)) (mp : Nat)
    (o : Option RxOut) (m' : MacState) (h : window m f mp = .ok (o, m')) : ∃ s', joinedWith m' s' ∧ sid s' = sid s := by
  unfold window at h
  cases f with
  | none =>
    simp only [pure, Except.pure, Except.ok.injEq, Prod.mk.injEq] at h
    obtain ⟨_, rfl⟩ := h
    exact ⟨s, hm, rfl⟩
  | some f =>
    obtain ⟨v, snr⟩ := f
    simp only at h
    obtain ⟨⟨ro, m1⟩, hrx, h⟩ := Except.bind_eq_ok h
    obtain ⟨s1, hj1, hs1⟩ := macHandleRx_sid m s hm v mp snr false ro m1 hrx
    have : m' = m1 := by
      cases ro with
      | none => simp only [pure, Except.pure, Except.ok.injEq, Prod.mk.injEq] at h; exact h.2.symm
      | some ro =>
        simp only at h
        split at h <;> (simp only [pure, Except.pure, Except.ok.injEq, Prod.mk.injEq] at h; exact h.2.symm)
    subst this
    exact ⟨s1, hj1, hs1⟩

theorem macRx2Complete_sid (m : MacState) (s : Session) (hm : joinedWith m s) :
    ∃ s', joinedWith (macRx2Complete m).2 s' ∧ sid s' = sid s := by
  unfold macRx2Complete joinedWith at *
  simp only [hm]
  exact ⟨_, rfl, rx2Complete_sid s m.cfg m.region.id⟩

theorem classACycle_sid (m : MacState) (s : Session) (hm : joinedWith m s) (rx1 rx2 : Option (RxView × Int)) (mp1 mp2 : Nat)
    (r : Response) (dl : Option (Nat × List Nat)) (m' : MacState) (h : classACycle m rx1 rx2 mp1 mp2 = .ok (r, dl, m')) :
    ∃ s', joinedWith m' s' ∧ sid s' = sid s := by
  unfold classACycle at h
  obtain ⟨⟨o1, m1⟩, h1, h⟩ := Except.bind_eq_ok h
  obtain ⟨s1, hj1, hs1⟩ := window_sid m s hm rx1 mp1 o1 m1 h1
  cases o1 with
  | some o =>
    simp only [pure, Except.pure, Except.ok.injEq, Prod.mk.injEq] at h
    obtain ⟨_, _, rfl⟩ := h
    exact ⟨s1, hj1, hs1⟩
  | none =>
    simp only at h
    obtain ⟨⟨o2, m2⟩, h2, h⟩ := Except.bind_eq_ok h
    obtain ⟨s2, hj2, hs2⟩ := window_sid m1 s1 hj1 rx2 mp2 o2 m2 h2
    cases o2 with
    | some o =>
      simp only [pure, Except.pure, Except.ok.injEq, Prod.mk.injEq] at h
      obtain ⟨_, _, rfl⟩ := h
      exact ⟨s2, hj2, by rw [hs2, hs1]⟩
    | none =>
      simp only [pure, Except.pure, Except.ok.injEq, Prod.mk.injEq] at h
      obtain ⟨_, _, rfl⟩ := h
      obtain ⟨s3, hj3, hs3⟩ := macRx2Complete_sid m2 s2 hj2
      exact ⟨s3, hj3, by rw [hs3, hs2, hs1]⟩

theorem faultedCycle_sid (m : MacState) (s : Session) (hm : joinedWith m s) (k : Nat) (rx1 rx2 : Option (RxView × Int))
    (mp1 mp2 : Nat) (m' : MacState) (h : faultedCycle m k rx1 rx2 mp1 mp2 = .ok m') :
    ∃ s', joinedWith m' s' ∧ sid s' = sid s := by
  unfold faultedCycle at h
  split at h
  · cases Except.pure_eq_ok h; exact ⟨s, hm, rfl⟩
  · obtain ⟨⟨o1, m1⟩, h1, h⟩ := Except.bind_eq_ok h
    cases Except.pure_eq_ok h
    exact window_sid m s hm rx1 mp1 o1 _ h1
  · obtain ⟨⟨o1, m1⟩, h1, h⟩ := Except.bind_eq_ok h
    obtain ⟨s1, hj1, hs1⟩ := window_sid m s hm rx1 mp1 o1 m1 h1
    cases o1 with
    | some o => cases Except.pure_eq_ok h; exact ⟨s1, hj1, hs1⟩
    | none =>
      simp only at h
      obtain ⟨⟨o2, m2⟩, h2, h⟩ := Except.bind_eq_ok h
      cases Except.pure_eq_ok h
      obtain ⟨s2, hj2, hs2⟩ := window_sid m1 s1 hj1 rx2 mp2 o2 _ h2
      exact ⟨s2, hj2, by rw [hs2, hs1]⟩

theorem macSend_sid {σ} (g : Rng σ) (m : MacState) (s : Session) (hm : joinedWith m s) (data : List Nat) (port : Nat)
    (conf : Bool) (rs rs' : σ) (o : Option SendOut) (m' : MacState)
    (h : macSend g m data port conf rs = .ok (o, m', rs')) : ∃ s', joinedWith m' s' ∧ sid s' = sid s := by
  unfold macSend at h
  unfold joinedWith at hm
  simp only [hm] at h
  obtain ⟨⟨desc, s1⟩, hpb, h⟩ := Except.bind_eq_ok h
  obtain ⟨dr, _, h⟩ := Except.bind_eq_ok h
  obtain ⟨⟨tx, region, rs1⟩, _, h⟩ := Except.bind_eq_ok h
  obtain ⟨pw, _, h⟩ := Except.bind_eq_ok h
  obtain ⟨⟨rx1, rx2⟩, _, h⟩ := Except.bind_eq_ok h
  simp only [pure, Except.pure, Except.ok.injEq, Prod.mk.injEq] at h
  obtain ⟨_, rfl, _⟩ := h
  exact ⟨s1, rfl, prepareBuffer_sid _ _ _ _ _ _ _ _ hpb⟩

theorem macSetAdr_sid (m : MacState) (on : Bool) (s : Session) (hm : joinedWith m s) :
    ∃ s', joinedWith (macSetAdr m on) s' ∧ sid s' = sid s := by
  unfold macSetAdr joinedWith at *
  cases on
  · simp only [hm]; exact ⟨_, rfl, rfl⟩
  · simp only [hm]; exact ⟨s, rfl, rfl⟩

/-- **within a session, address and keys never change**: a step that is not a (re-)join leaves a
joined MAC joined with the same DevAddr and the same key identities, and an uplink it hands to the
radio carries that DevAddr -/
theorem step_session_id {σ} (g : Rng σ) (m m' : MacState) (rs rs' : σ) (ev : Ev) (out : Out) (s : Session)
    (hm : joinedWith m s) (hj : isJoin ev = false) (h : step g (m, rs) ev = .ok ((m', rs'), out)) :
    (∃ s', joinedWith m' s' ∧ sid s' = sid s) ∧ ∀ o r d, out = .up o r d → o.frame.devAddr = s.devAddr := by
  unfold step at h
  cases ev with
  | joinAbp da nwk app => simp [isJoin] at hj
  | joinOtaa fault rx1 rx2 mp1 mp2 => simp [isJoin] at hj
  | setAdr on =>
    simp only [pure, Except.pure, Except.ok.injEq, Prod.mk.injEq] at h
    obtain ⟨⟨rfl, _⟩, rfl⟩ := h
    exact ⟨macSetAdr_sid m on s hm, fun o r d e => by cases e⟩
  | setDr dr =>
    simp only [pure, Except.pure, Except.ok.injEq, Prod.mk.injEq] at h
    obtain ⟨⟨rfl, _⟩, rfl⟩ := h
    exact ⟨⟨s, hm, rfl⟩, fun o r d e => by cases e⟩
  | rxc v snr mp =>
    simp only at h
    obtain ⟨rf, _, h1⟩ := Except.bind_eq_ok h
    obtain ⟨⟨o, m1⟩, hrx, h2⟩ := Except.bind_eq_ok h1
    simp only [pure, Except.pure, Except.ok.injEq, Prod.mk.injEq] at h2
    obtain ⟨⟨rfl, _⟩, rfl⟩ := h2
    exact ⟨macHandleRx_sid m s hm v mp snr true o _ hrx, fun o r d e => by cases e⟩
  | uplink data fport conf fault rx1 rx2 mp1 mp2 =>
    simp only at h
    obtain ⟨⟨o, m1, rs1⟩, hsend, h1⟩ := Except.bind_eq_ok h
    clear h
    obtain ⟨out1, s1f, ho, _, hda, _, _⟩ := macSend_fcnt g m s hm data fport conf rs rs1 o m1 hsend
    obtain ⟨s1, hj1, hs1⟩ := macSend_sid g m s hm data fport conf rs rs1 o m1 hsend
    subst ho
    simp only at h1
    cases fault with
    | some k =>
      simp only at h1
      obtain ⟨m2, hfc, h2⟩ := Except.bind_eq_ok h1
      simp only [pure, Except.pure, Except.ok.injEq, Prod.mk.injEq] at h2
      obtain ⟨⟨rfl, _⟩, rfl⟩ := h2
      obtain ⟨s2, hj2, hs2⟩ := faultedCycle_sid m1 s1 hj1 k rx1 rx2 mp1 mp2 m2 hfc
      obtain ⟨s3, hj3, hs3⟩ := macRx2Complete_sid m2 s2 hj2
      exact ⟨⟨s3, hj3, by rw [hs3, hs2, hs1]⟩, fun o r d e => by cases e; exact hda⟩
    | none =>
      simp only at h1
      obtain ⟨⟨r, dl, m2⟩, hcy, h2⟩ := Except.bind_eq_ok h1
      simp only [pure, Except.pure, Except.ok.injEq, Prod.mk.injEq] at h2
      obtain ⟨⟨rfl, _⟩, rfl⟩ := h2
      obtain ⟨s2, hj2, hs2⟩ := classACycle_sid m1 s1 hj1 rx1 rx2 mp1 mp2 r dl m2 hcy
      exact ⟨⟨s2, hj2, by rw [hs2, hs1]⟩, fun o r d e => by cases e; exact hda⟩

/-- … hence along every join-free stretch of a history: same DevAddr, same keys, on every uplink -/
theorem history_session_id {σ} (g : Rng σ) (m : MacState) (rs : σ) (evs : List Ev) (ms' : MacState × σ) (outs : List Out)
    (s : Session) (hm : joinedWith m s) (hj : ∀ ev ∈ evs, isJoin ev = false)
    (h : run g (m, rs) evs = .ok (ms', outs)) :
    (∃ s', joinedWith ms'.1 s' ∧ sid s' = sid s) ∧ ∀ o r d, Out.up o r d ∈ outs → o.frame.devAddr = s.devAddr := by
  induction evs generalizing m rs outs s with
  | nil =>
    simp only [run, pure, Except.pure, Except.ok.injEq, Prod.mk.injEq] at h
    obtain ⟨rfl, rfl⟩ := h
    exact ⟨⟨s, hm, rfl⟩, fun o r d e => by cases e⟩
  | cons ev rest ih =>
    unfold run at h
    obtain ⟨⟨⟨m1, rs1⟩, o⟩, hstep, h1⟩ := Except.bind_eq_ok h
    obtain ⟨⟨ms2, os⟩, hrun, h2⟩ := Except.bind_eq_ok h1
    simp only [pure, Except.pure, Except.ok.injEq, Prod.mk.injEq] at h2
    obtain ⟨rfl, rfl⟩ := h2
    obtain ⟨⟨s1, hj1, hs1⟩, hup⟩ := step_session_id g m m1 rs rs1 ev o s hm (hj ev List.mem_cons_self) hstep
    obtain ⟨⟨s2, hj2, hs2⟩, hups⟩ := ih m1 rs1 os s1 hj1 (fun ev' he => hj ev' (List.mem_cons_of_mem _ he)) hrun
    refine ⟨⟨s2, hj2, by rw [hs2, hs1]⟩, ?_⟩
    intro so r d hmem
    simp only [List.mem_cons] at hmem
    rcases hmem with e | hmem
    · exact hup so r d e.symm
    · have := hups so r d hmem
      have hd : s1.devAddr = s.devAddr := by
        have := congrArg Prod.fst hs1; exact this
      rw [this, hd]

/-! ## the counter never wraps -/

/-- the session counter fits 32 bits -/
def Bounded (m : MacState) : Prop := ∀ s, m.st = .joined s → s.fcntUp ≤ 0xFFFFFFFF

theorem bounded_of_joined {m : MacState} {s : Session} (hj : joinedWith m s) (h : s.fcntUp ≤ 0xFFFFFFFF) : Bounded m := by
  intro s' hs'
  unfold joinedWith at hj
  rw [hj] at hs'
  cases hs'
  exact h

theorem step_bounded {σ} (g : Rng σ) (m m' : MacState) (rs rs' : σ) (ev : Ev) (out : Out) (hb : Bounded m)
    (h : step g (m, rs) ev = .ok ((m', rs'), out)) :
    Bounded m' ∧ ∀ o r d, out = .up o r d → o.frame.fcnt ≤ 0xFFFFFFFF := by
  have hfresh := join_starts_fresh g m m' rs rs' ev out h
  unfold step at h
  cases ev with
  | joinAbp da nwk app =>
    simp only [JoinPost] at hfresh
    simp only [pure, Except.pure, Except.ok.injEq, Prod.mk.injEq] at h
    obtain ⟨_, rfl⟩ := h
    refine ⟨?_, fun o r d e => by cases e⟩
    intro s hs; rw [hfresh] at hs; cases hs; simp [Session.new]
  | joinOtaa fault rx1 rx2 mp1 mp2 =>
    simp only [JoinPost] at hfresh
    have hout : ∀ o r d, out ≠ .up o r d := by
      simp only at h
      obtain ⟨⟨o, m1, s1⟩, _, h⟩ := Except.bind_eq_ok h
      cases fault with
      | some k =>
        simp only at h
        obtain ⟨m2, _, h⟩ := Except.bind_eq_ok h
        simp only [pure, Except.pure, Except.ok.injEq, Prod.mk.injEq] at h
        obtain ⟨_, rfl⟩ := h
        intro o r d e; cases e
      | none =>
        simp only at h
        obtain ⟨⟨r, dl, m2⟩, _, h⟩ := Except.bind_eq_ok h
        simp only [pure, Except.pure, Except.ok.injEq, Prod.mk.injEq] at h
        obtain ⟨_, rfl⟩ := h
        intro o r d e; cases e
    refine ⟨?_, fun o r d e => absurd e (hout o r d)⟩
    rcases hfresh with ⟨ot, hot⟩ | ⟨j, snr, _, _, hst⟩
    · intro s hs; rw [hot] at hs; cases hs
    · intro s hs; rw [hst] at hs; cases hs; simp [Session.new]
  | setAdr on =>
    simp only [pure, Except.pure, Except.ok.injEq, Prod.mk.injEq] at h
    obtain ⟨⟨rfl, _⟩, rfl⟩ := h
    refine ⟨?_, fun o r d e => by cases e⟩
    intro s' hs'
    obtain ⟨s, h1, h2⟩ := macSetAdr_st m on s' hs'
    rw [← h2]; exact hb s h1
  | setDr dr =>
    simp only [pure, Except.pure, Except.ok.injEq, Prod.mk.injEq] at h
    obtain ⟨⟨rfl, _⟩, rfl⟩ := h
    exact ⟨fun s hs => hb s hs, fun o r d e => by cases e⟩
  | rxc v snr mp =>
    simp only at h
    obtain ⟨rf, _, h⟩ := Except.bind_eq_ok h
    obtain ⟨⟨o, m1⟩, hrx, h⟩ := Except.bind_eq_ok h
    simp only [pure, Except.pure, Except.ok.injEq, Prod.mk.injEq] at h
    obtain ⟨⟨rfl, _⟩, rfl⟩ := h
    refine ⟨?_, fun o r d e => by cases e⟩
    cases hst : m.st with
    | joined s =>
      obtain ⟨s1, hj1, _, hb1⟩ := macHandleRx_fcnt_mono m s hst v mp snr true o m1 hrx
      exact bounded_of_joined hj1 (hb1 (hb s hst))
    | otaa o' =>
      have := macHandleRxc_notJoined m (by intro s e; rw [hst] at e; cases e) v mp snr o m1 hrx
      subst this; exact hb
    | unjoined =>
      have := macHandleRxc_notJoined m (by intro s e; rw [hst] at e; cases e) v mp snr o m1 hrx
      subst this; exact hb
  | uplink data fport conf fault rx1 rx2 mp1 mp2 =>
    simp only at h
    obtain ⟨⟨o, m1, rs1⟩, hsend, hb'⟩ := Except.bind_eq_ok h
    clear h
    have h := hb'
    clear hb'
    simp only at h
    by_cases hjn : ∃ s, m.st = .joined s
    · obtain ⟨s, hst⟩ := hjn
      have hs := hb s hst
      obtain ⟨out1, s1, rfl, hf, _, hj1, hf1⟩ := macSend_fcnt g m s hst data fport conf rs rs1 o m1 hsend
      simp only at h
      cases fault with
      | some k =>
        simp only at h
        obtain ⟨m2, hfc, h⟩ := Except.bind_eq_ok h
        simp only [pure, Except.pure, Except.ok.injEq, Prod.mk.injEq] at h
        obtain ⟨⟨rfl, _⟩, rfl⟩ := h
        obtain ⟨s2, hj2, _, hb2⟩ := faultedCycle_fcnt_mono m1 s1 hj1 k rx1 rx2 mp1 mp2 m2 hfc
        obtain ⟨s3, hj3, hc3⟩ := fault_fcnt m2 s2 hj2
        have : s2.fcntUp ≤ 0xFFFFFFFF := hb2 (by omega)
        refine ⟨bounded_of_joined hj3 (by rcases hc3 with ⟨a, b⟩ | ⟨a, b⟩ <;> omega), ?_⟩
        intro o r d e; cases e; omega
      | none =>
        simp only at h
        obtain ⟨⟨r, dl, m2⟩, hcy, h⟩ := Except.bind_eq_ok h
        simp only [pure, Except.pure, Except.ok.injEq, Prod.mk.injEq] at h
        obtain ⟨⟨rfl, _⟩, rfl⟩ := h
        obtain ⟨s2, hj2, hc2⟩ := cycle_fcnt m1 s1 hj1 rx1 rx2 mp1 mp2 r dl m2 hcy
        refine ⟨bounded_of_joined hj2 (by rcases hc2 with ⟨a, b, _⟩ | ⟨a, b, _⟩ <;> omega), ?_⟩
        intro o r d e; cases e; omega
    · have hnj : ∀ s, m.st ≠ .joined s := fun s e => hjn ⟨s, e⟩
      obtain ⟨rfl, rfl⟩ := macSend_notJoined g m hnj data fport conf rs rs1 o m1 hsend
      simp only [pure, Except.pure, Except.ok.injEq, Prod.mk.injEq] at h
      obtain ⟨⟨rfl, _⟩, rfl⟩ := h
      exact ⟨hb, fun o r d e => by cases e⟩

/-- **the counter never wraps**: from any state whose counter fits 32 bits (the initial state, any
fresh session) every uplink of every history carries a counter ≤ 2^32 − 1 — at 2^32 − 1 the device
reports `SessionExpired` and the counter stands (`cycle_fcnt`, `fault_fcnt`) -/
theorem history_fcnt_32bit {σ} (g : Rng σ) (m : MacState) (rs : σ) (evs : List Ev) (ms' : MacState × σ) (outs : List Out)
    (hb : Bounded m) (h : run g (m, rs) evs = .ok (ms', outs)) :
    ∀ o r d, Out.up o r d ∈ outs → o.frame.fcnt ≤ 0xFFFFFFFF := by
  induction evs generalizing m rs outs with
  | nil =>
    simp only [run, pure, Except.pure, Except.ok.injEq, Prod.mk.injEq] at h
    obtain ⟨_, rfl⟩ := h
    intro o r d hm; cases hm
  | cons ev rest ih =>
    unfold run at h
    obtain ⟨⟨⟨m1, rs1⟩, o⟩, hstep, h⟩ := Except.bind_eq_ok h
    obtain ⟨⟨ms2, os⟩, hrun, h⟩ := Except.bind_eq_ok h
    simp only [pure, Except.pure, Except.ok.injEq, Prod.mk.injEq] at h
    obtain ⟨rfl, rfl⟩ := h
    obtain ⟨hb1, hup⟩ := step_bounded g m m1 rs rs1 ev o hb hstep
    intro so r d hm
    simp only [List.mem_cons] at hm
    rcases hm with e | hm
    · exact hup so r d e.symm
    · exact ih m1 rs1 os hb1 hrun so r d hm

theorem init_bounded (r : RegionState) (maxPower : Nat) (gain : Int) : Bounded (MacState.init r maxPower gain) := by
  intro s hs; cases hs


/-- the boundary of the claim: a device that is used on after it reported expiry sends counter
2^32 − 1 again (the application must re-join; the stack does not refuse the `send`) -/
theorem send_after_expiry_reuses {σ} (g : Rng σ) (m : MacState) (s : Session) (hm : joinedWith m s)
    (hx : s.fcntUp = 0xFFFFFFFF) (data : List Nat) (port : Nat) (conf : Bool) (rs rs' : σ) (o : Option SendOut) (m' : MacState)
    (h : macSend g m data port conf rs = .ok (o, m', rs')) : ∃ out, o = some out ∧ out.frame.fcnt = 0xFFFFFFFF := by
  obtain ⟨out, _, ho, hf, _⟩ := macSend_fcnt g m s hm data port conf rs rs' o m' h
  exact ⟨out, ho, by rw [hf, hx]⟩

/-! ## the device front-ends: strictly increasing counters for every script (by refinement)

The history theorem is transferred to the two front-end models through the refinement theorems of
`Lemmas/Refine*.lean`:
* async (`asyncOps`: `send` / `join` under ANY script of radio answers, both classes, ABP, setters):
  the session is simulated by the extended history `runC` of its calls (`asyncOps_sim`); the events
  of `Model/History.lean` go through `step_rel` unchanged, the Class C event shapes (frames handled
  by `handle_rxc` in the middle of the procedure) through the same per-function counter lemmas
  (`cycleC_fcnt`); `runC_fcnt_strict` is `history_fcnt_strict` on extended histories, and
  `async_fcnt_strict` reads it on what the application and the radio see (`FcntStrictObs`);
* non-blocking (`nbRun`): by the invariant of `nbStep_inv`; the frame handed to the radio at the
  start of an exchange is checked against `step_rel` on the event "the radio refuses the
  transmission", the end of the exchange against `step_rel` on the exchange's own event. -/

/-- the `Ev` an extended event is read as by `FcntStrict` (only `isJoin` matters) -/
def projEv : EvC → Ev
  | .base e => e
  | .uplinkC _ data fport conf _ _ rx1 _ rx2 => .uplink data fport conf none rx1 rx2 0 0
  | .joinC _ _ _ rx1 _ rx2 => .joinOtaa none rx1 rx2 0 0

theorem rxcs_fcnt_mono (m : MacState) (s : Session) (hm : joinedWith m s) (mp : Nat) (cs : List (RxView × Int))
    (os : List RxOut) (fin : Bool) (m' : MacState) (h : rxcs m mp cs = .ok (os, fin, m')) :
    ∃ s', joinedWith m' s' ∧ s.fcntUp ≤ s'.fcntUp := by
  induction cs generalizing m s os fin with
  | nil =>
    simp only [rxcs, pure, Except.pure, Except.ok.injEq, Prod.mk.injEq] at h
    obtain ⟨_, _, rfl⟩ := h
    exact ⟨s, hm, Nat.le_refl _⟩
  | cons c rest ih =>
    obtain ⟨v, snr⟩ := c
    unfold rxcs at h
    obtain ⟨⟨o, m1⟩, hrx, hk⟩ := Except.bind_eq_ok h
    obtain ⟨s1, hj1, hle1, _⟩ := macHandleRx_fcnt_mono m s hm v mp snr true o m1 hrx
    cases o with
    | none =>
      simp only at hk
      obtain ⟨s2, hj2, hle2⟩ := ih m1 s1 hj1 os fin hk
      exact ⟨s2, hj2, Nat.le_trans hle1 hle2⟩
    | some o =>
      simp only at hk
      obtain ⟨⟨os2, fin2, m2⟩, hrest, hk2⟩ := Except.bind_eq_ok hk
      simp only [pure, Except.pure, Except.ok.injEq, Prod.mk.injEq] at hk2
      obtain ⟨_, _, rfl⟩ := hk2
      obtain ⟨s2, hj2, hle2⟩ := ih m1 s1 hj1 os2 fin2 hrest
      exact ⟨s2, hj2, Nat.le_trans hle1 hle2⟩

theorem between_fcnt_mono (cc : Bool) (m : MacState) (s : Session) (hm : joinedWith m s) (cs : List (RxView × Int))
    (os : List RxOut) (fin : Bool) (m' : MacState) (h : between cc m cs = .ok (os, fin, m')) :
    ∃ s', joinedWith m' s' ∧ s.fcntUp ≤ s'.fcntUp := by
  unfold between at h
  cases cc with
  | true =>
    simp only [if_true] at h
    obtain ⟨rf, _, h⟩ := Except.bind_eq_ok h
    exact rxcs_fcnt_mono m s hm _ cs os fin m' h
  | false =>
    simp only [Bool.false_eq_true, if_false, pure, Except.pure, Except.ok.injEq, Prod.mk.injEq] at h
    obtain ⟨_, _, rfl⟩ := h
    exact ⟨s, hm, Nat.le_refl _⟩

/-- a response of a window: the counter has advanced past the frame's, or the session is expired -/
def RespAdv (s s' : Session) (o : RxOut) : Prop :=
  (o.resp ≠ .sessionExpired ∧ s.fcntUp + 1 ≤ s'.fcntUp) ∨ o.resp = .sessionExpired

theorem winC_fcnt (cc : Bool) (m : MacState) (s : Session) (hm : joinedWith m s) (cs : List (RxView × Int))
    (f : Option (RxView × Int)) (mp : Nat) (eb ea : Bool) (r : Option (Option RxOut)) (hd : List RxOut) (m' : MacState)
    (h : winC cc m cs f mp eb ea = .ok (r, hd, m')) :
    ∃ s', joinedWith m' s' ∧ s.fcntUp ≤ s'.fcntUp ∧ ∀ o, r = some (some o) → RespAdv s s' o := by
  unfold winC at h
  obtain ⟨⟨os, fin, m1⟩, hb, hk⟩ := Except.bind_eq_ok h
  obtain ⟨s1, hj1, hle1⟩ := between_fcnt_mono cc m s hm cs os fin m1 hb
  simp only at hk
  split at hk
  · simp only [pure, Except.pure, Except.ok.injEq, Prod.mk.injEq] at hk
    obtain ⟨rfl, _, rfl⟩ := hk
    exact ⟨s1, hj1, hle1, fun o e => by cases e⟩
  · obtain ⟨⟨o, m2⟩, hw, hk2⟩ := Except.bind_eq_ok hk
    obtain ⟨_, _, hk3⟩ := Except.bind_eq_ok hk2
    obtain ⟨s2, hj2, hc2⟩ := window_fcnt m1 s1 hj1 f mp o m2 hw
    have hle2 : s1.fcntUp ≤ s2.fcntUp := by
      rcases hc2 with ⟨_, e⟩ | ⟨_, _, _, e, _⟩ | ⟨_, _, _, e, _⟩ <;> omega
    simp only at hk3
    split at hk3
    · simp only [pure, Except.pure, Except.ok.injEq, Prod.mk.injEq] at hk3
      obtain ⟨rfl, _, rfl⟩ := hk3
      exact ⟨s2, hj2, Nat.le_trans hle1 hle2, fun o e => by cases e⟩
    · simp only [pure, Except.pure, Except.ok.injEq, Prod.mk.injEq] at hk3
      obtain ⟨rfl, _, rfl⟩ := hk3
      refine ⟨s2, hj2, Nat.le_trans hle1 hle2, ?_⟩
      intro o' e
      simp only [Option.some.injEq] at e
      subst e
      rcases hc2 with ⟨e0, _⟩ | ⟨out, e0, hne, e1, _⟩ | ⟨out, e0, he, _, _⟩
      · cases e0
      · cases e0; exact Or.inl ⟨hne, by omega⟩
      · cases e0; exact Or.inr he

theorem cycleC_fcnt (cc : Bool) (m : MacState) (s : Session) (hm : joinedWith m s) (fault : Option FaultPos)
    (c1 c2 : List (RxView × Int)) (rx1 rx2 : Option (RxView × Int)) (mp1 mp2 : Nat) (fin : ProcEnd) (heard : List RxOut)
    (m' : MacState) (h : cycleC cc m fault c1 rx1 c2 rx2 mp1 mp2 = .ok (fin, heard, m')) :
    ∃ s', joinedWith m' s' ∧ s.fcntUp ≤ s'.fcntUp ∧ ∀ o, fin = .resp o → RespAdv s s' o := by
  unfold cycleC at h
  split at h
  · simp only [pure, Except.pure, Except.ok.injEq, Prod.mk.injEq] at h
    obtain ⟨rfl, _, rfl⟩ := h
    exact ⟨s, hm, Nat.le_refl _, fun o e => by cases e⟩
  · obtain ⟨⟨r1, h1, m1⟩, hw1, hk⟩ := Except.bind_eq_ok h
    obtain ⟨s1, hj1, hle1, hr1⟩ := winC_fcnt cc m s hm c1 rx1 mp1 _ _ r1 h1 m1 hw1
    cases r1 with
    | none =>
      simp only [pure, Except.pure, Except.ok.injEq, Prod.mk.injEq] at hk
      obtain ⟨rfl, _, rfl⟩ := hk
      exact ⟨s1, hj1, hle1, fun o e => by cases e⟩
    | some o1 =>
      cases o1 with
      | some o =>
        simp only [pure, Except.pure, Except.ok.injEq, Prod.mk.injEq] at hk
        obtain ⟨rfl, _, rfl⟩ := hk
        exact ⟨s1, hj1, hle1, fun o' e => by cases e; exact hr1 o rfl⟩
      | none =>
        simp only at hk
        obtain ⟨⟨r2, h2, m2⟩, hw2, hk2⟩ := Except.bind_eq_ok hk
        obtain ⟨s2, hj2, hle2, hr2⟩ := winC_fcnt cc m1 s1 hj1 c2 rx2 mp2 _ _ r2 h2 m2 hw2
        cases r2 with
        | none =>
          simp only [pure, Except.pure, Except.ok.injEq, Prod.mk.injEq] at hk2
          obtain ⟨rfl, _, rfl⟩ := hk2
          exact ⟨s2, hj2, Nat.le_trans hle1 hle2, fun o e => by cases e⟩
        | some o2 =>
          cases o2 with
          | some o =>
            simp only [pure, Except.pure, Except.ok.injEq, Prod.mk.injEq] at hk2
            obtain ⟨rfl, _, rfl⟩ := hk2
            refine ⟨s2, hj2, Nat.le_trans hle1 hle2, ?_⟩
            intro o' e
            cases e
            rcases hr2 o rfl with ⟨a, b⟩ | a
            · exact Or.inl ⟨a, by omega⟩
            · exact Or.inr a
          | none =>
            simp only [pure, Except.pure, Except.ok.injEq, Prod.mk.injEq] at hk2
            obtain ⟨rfl, _, rfl⟩ := hk2
            exact ⟨s2, hj2, Nat.le_trans hle1 hle2, fun o e => by cases e⟩

/-- one step of an extended history, seen from the counter bound (`step_rel` on extended events) -/
theorem stepC_rel {σ} (g : Rng σ) (m m' : MacState) (rs rs' : σ) (ev : EvC) (oc : OutC) (b : Option Nat) (hr : Rel m b)
    (h : stepC g (m, rs) ev = .ok ((m', rs'), oc)) : stepPost (projEv ev) b m' oc.out := by
  have rel0 : ∀ m'', Rel m'' (some 0) := fun m'' lo e s _ => by cases e; exact Nat.zero_le _
  cases ev with
  | base e =>
    simp only [stepC] at h
    obtain ⟨⟨ms1, o⟩, hs, hk⟩ := Except.bind_eq_ok h
    simp only [pure, Except.pure, Except.ok.injEq, Prod.mk.injEq] at hk
    obtain ⟨rfl, rfl⟩ := hk
    exact step_rel g m m' rs rs' e o b hr hs
  | joinC cc fault c1 rx1 c2 rx2 =>
    simp only [stepC] at h
    obtain ⟨⟨o, m1, s1⟩, _, hk⟩ := Except.bind_eq_ok h
    obtain ⟨⟨fin, heard, m2⟩, _, hk2⟩ := Except.bind_eq_ok hk
    cases fin <;> simp only [pure, Except.pure, Except.ok.injEq, Prod.mk.injEq] at hk2 <;>
      obtain ⟨⟨rfl, _⟩, rfl⟩ := hk2 <;> exact rel0 _
  | uplinkC cc data fport conf fault c1 rx1 c2 rx2 =>
    simp only [stepC] at h
    obtain ⟨⟨o, m1, rs1⟩, hsend, hk⟩ := Except.bind_eq_ok h
    by_cases hjn : ∃ s, m.st = .joined s
    · obtain ⟨s, hst⟩ := hjn
      obtain ⟨out1, s1, rfl, hf, _, hj1, hf1⟩ := macSend_fcnt g m s hst data fport conf rs rs1 o m1 hsend
      simp only at hk
      obtain ⟨⟨fin, heard, m2⟩, hcy, hk2⟩ := Except.bind_eq_ok hk
      obtain ⟨s2, hj2, hle2, hresp⟩ := cycleC_fcnt cc m1 s1 hj1 fault c1 c2 rx1 rx2 _ _ fin heard m2 hcy
      have hfr : ∀ lo, b = some lo → lo ≤ out1.frame.fcnt := fun lo e => by rw [hf]; exact hr lo e s hst
      cases fin with
      | resp ro =>
        simp only [pure, Except.pure, Except.ok.injEq, Prod.mk.injEq] at hk2
        obtain ⟨⟨rfl, _⟩, rfl⟩ := hk2
        refine ⟨hfr, ?_⟩
        rcases hresp ro rfl with ⟨hne, hadv⟩ | he
        · have : expiredResp (some ro.resp) = false := by
            unfold expiredResp
            simp only [beq_eq_false_iff_ne, ne_eq, Option.some.injEq]
            exact hne
          simp only [this, Bool.false_eq_true, if_false]
          exact rel_of_joined hj2 (by omega)
        · simp only [he, expiredResp, beq_self_eq_true, if_true]
          intro lo e; cases e
      | complete =>
        simp only [pure, Except.pure, Except.ok.injEq, Prod.mk.injEq] at hk2
        obtain ⟨⟨rfl, _⟩, rfl⟩ := hk2
        refine ⟨hfr, ?_⟩
        obtain ⟨s3, hj3, hc3⟩ := macRx2Complete_fcnt m2 s2 hj2
        rcases hc3 with ⟨_, e3, hne⟩ | ⟨_, _, he⟩
        · have : expiredResp (some (macRx2Complete m2).1) = false := by
            unfold expiredResp
            simp only [beq_eq_false_iff_ne, ne_eq, Option.some.injEq]
            exact hne
          simp only [this, Bool.false_eq_true, if_false]
          exact rel_of_joined hj3 (by omega)
        · simp only [he, expiredResp, beq_self_eq_true, if_true]
          intro lo e; cases e
      | cut =>
        simp only [pure, Except.pure, Except.ok.injEq, Prod.mk.injEq] at hk2
        obtain ⟨⟨rfl, _⟩, rfl⟩ := hk2
        refine ⟨hfr, ?_⟩
        obtain ⟨s3, hj3, hc3⟩ := fault_fcnt_resp m2 s2 hj2
        rcases hc3 with ⟨e3, hx⟩ | ⟨e3, hx⟩
        · simp only [hx, Bool.false_eq_true, if_false, expiredResp]
          have : ((none : Option Response) == some Response.sessionExpired) = false := rfl
          simp only [this, Bool.false_eq_true, if_false]
          exact rel_of_joined hj3 (by omega)
        · simp only [hx, if_true, expiredResp, beq_self_eq_true]
          intro lo e; cases e
    · have hnj : ∀ s, m.st ≠ .joined s := fun s e => hjn ⟨s, e⟩
      obtain ⟨rfl, rfl⟩ := macSend_notJoined g m hnj data fport conf rs rs1 o m1 hsend
      simp only [pure, Except.pure, Except.ok.injEq, Prod.mk.injEq] at hk
      obtain ⟨⟨rfl, _⟩, rfl⟩ := hk
      simp only [stepPost, projEv, isJoin, Bool.false_eq_true, if_false]
      exact hr

theorem runC_fcnt_strict {σ} (g : Rng σ) (m : MacState) (rs : σ) (evs : List EvC) (ms' : MacState × σ) (ocs : List OutC)
    (b : Option Nat) (hr : Rel m b) (h : runC g (m, rs) evs = .ok (ms', ocs)) :
    FcntStrict b ((evs.map projEv).zip (ocs.map (fun oc => oc.out))) := by
  induction evs generalizing m rs b ocs with
  | nil => simp [FcntStrict]
  | cons ev rest ih =>
    unfold runC at h
    obtain ⟨⟨⟨m1, rs1⟩, o⟩, hstep, h⟩ := Except.bind_eq_ok h
    obtain ⟨⟨ms2, os⟩, hrun, h⟩ := Except.bind_eq_ok h
    simp only [pure, Except.pure, Except.ok.injEq, Prod.mk.injEq] at h
    obtain ⟨rfl, rfl⟩ := h
    have hs := stepC_rel g m m1 rs rs1 ev o b hr hstep
    simp only [List.map_cons, List.zip_cons_cons]
    unfold FcntStrict
    cases hout : o.out with
    | up so resp dl =>
      rw [hout] at hs
      simp only [stepPost] at hs ⊢
      exact ⟨hs.1, ih m1 rs1 os _ hs.2 hrun⟩
    | done => rw [hout] at hs; simp only [stepPost] at hs ⊢; split <;> rename_i hj <;> simp only [hj, if_true, if_false, Bool.false_eq_true] at hs <;> exact ih m1 rs1 os _ hs hrun
    | notJoined => rw [hout] at hs; simp only [stepPost] at hs ⊢; split <;> rename_i hj <;> simp only [hj, if_true, if_false, Bool.false_eq_true] at hs <;> exact ih m1 rs1 os _ hs hrun
    | join jo resp => rw [hout] at hs; simp only [stepPost] at hs ⊢; split <;> rename_i hj <;> simp only [hj, if_true, if_false, Bool.false_eq_true] at hs <;> exact ih m1 rs1 os _ hs hrun
    | rxc rf ro => rw [hout] at hs; simp only [stepPost] at hs ⊢; split <;> rename_i hj <;> simp only [hj, if_true, if_false, Bool.false_eq_true] at hs <;> exact ih m1 rs1 os _ hs hrun

/-- a call that (re)starts activation -/
def _root_.Model.AsyncOp.isJoin : AsyncOp → Bool
  | .join _ | .abp _ _ _ => true
  | _ => false

/-- **`FcntStrict` on what the application and the radio see of an async session**: each data frame
handed to the radio (`OpObs.frame`, see `sentFrame`) carries a counter at or above the bound; after a
frame with counter `n` the bound is `n + 1`, until a call returns `SessionExpired` (no claim after that);
`join` / ABP activation start a new session at 0 -/
def FcntStrictObs : Option Nat → List (AsyncOp × OpObs) → Prop
  | _, [] => True
  | b, (op, ob) :: rest =>
    match ob.frame with
    | some f =>
      (∀ lo, b = some lo → lo ≤ f.fcnt) ∧
        FcntStrictObs (if ob.res == some (.ok .sessionExpired) then none else some (f.fcnt + 1)) rest
    | none => if op.isJoin then FcntStrictObs (some 0) rest else FcntStrictObs b rest

theorem fcntStrict_obs (cfg : DevCfg) (ops : List AsyncOp) (obs : List OpObs) (ocs : List OutC) (b : Option Nat)
    (hrel : AllRel ObsRel obs ocs) (hlen : ops.length = obs.length)
    (h : FcntStrict b (((ops.map (abstractOp cfg)).map projEv).zip (ocs.map (fun oc => oc.out)))) :
    FcntStrictObs b (ops.zip obs) := by
  induction hrel generalizing ops b with
  | nil =>
    cases ops with
    | nil => trivial
    | cons _ _ => simp at hlen
  | @cons ob oc obs' ocs' hab _ ih =>
    cases ops with
    | nil => simp at hlen
    | cons op rest =>
      simp only [List.length_cons, Nat.add_right_cancel_iff] at hlen
      simp only [List.map_cons, List.zip_cons_cons] at h ⊢
      unfold FcntStrict at h
      unfold FcntStrictObs
      obtain ⟨hres, hframe⟩ := hab
      have hjoin : isJoin (projEv (abstractOp cfg op)) = op.isJoin := by
        cases op with
        | send d p c script => simp only [abstractOp, abstractSendC]; split <;> rfl
        | join script => simp only [abstractOp, abstractJoinC]; split <;> rfl
        | abp a n k => rfl
        | setAdr on => rfl
        | setDr dr => rfl
      cases hout : oc.out with
      | up so resp dl =>
        rw [hout] at h hframe hres
        simp only [Out.frame?] at hframe
        simp only [hframe]
        simp only at h
        refine ⟨h.1, ?_⟩
        have hexp : (ob.res == some (DevResult.ok Response.sessionExpired)) = expiredResp resp := by
          cases hr : ob.res with
          | none =>
            rw [hr] at hres
            simp only at hres
            cases hres
          | some res =>
            rw [hr] at hres
            simp only [RespRel] at hres
            subst hres
            cases res with
            | ok r =>
              by_cases hx : r = Response.sessionExpired
              · subst hx; rfl
              · have h1 : (some (DevResult.ok r) == some (DevResult.ok Response.sessionExpired)) = false := by
                  simp only [beq_eq_false_iff_ne, ne_eq, Option.some.injEq, DevResult.ok.injEq]; exact hx
                have h2 : expiredResp (DevResult.ok r).resp? = false := by
                  simp only [DevResult.resp?, expiredResp, beq_eq_false_iff_ne, ne_eq, Option.some.injEq]; exact hx
                rw [h1, h2]
            | errRadio => simp [DevResult.resp?, expiredResp]
            | errMac => simp [DevResult.resp?, expiredResp]
        rw [hexp]
        exact ih rest _ hlen h.2
      | done =>
        rw [hout] at h hframe; simp only [Out.frame?] at hframe; simp only [hframe, hjoin] at h ⊢
        split <;> rename_i hj <;> simp only [hj, if_true, if_false, Bool.false_eq_true] at h <;> exact ih rest _ hlen h
      | notJoined =>
        rw [hout] at h hframe; simp only [Out.frame?] at hframe; simp only [hframe, hjoin] at h ⊢
        split <;> rename_i hj <;> simp only [hj, if_true, if_false, Bool.false_eq_true] at h <;> exact ih rest _ hlen h
      | join jo resp =>
        rw [hout] at h hframe; simp only [Out.frame?] at hframe; simp only [hframe, hjoin] at h ⊢
        split <;> rename_i hj <;> simp only [hj, if_true, if_false, Bool.false_eq_true] at h <;> exact ih rest _ hlen h
      | rxc rf ro =>
        rw [hout] at h hframe; simp only [Out.frame?] at hframe; simp only [hframe, hjoin] at h ⊢
        split <;> rename_i hj <;> simp only [hj, if_true, if_false, Bool.false_eq_true] at h <;> exact ih rest _ hlen h

theorem allRel_length {α β : Type} {R : α → β → Prop} {l1 : List α} {l2 : List β} (h : AllRel R l1 l2) :
    l1.length = l2.length := by
  induction h with
  | nil => rfl
  | cons _ _ ih => simp [ih]

theorem asyncOps_length {σ} (g : Rng σ) (cfg : DevCfg) (d : DevRun) (rs : σ) (ops : List AsyncOp) (obs : List OpObs)
    (d' : DevRun) (rs' : σ) (h : asyncOps g cfg d rs ops = .ok (obs, d', rs')) : ops.length = obs.length := by
  induction ops generalizing d rs obs with
  | nil =>
    simp only [asyncOps, pure, Except.pure, Except.ok.injEq, Prod.mk.injEq] at h
    obtain ⟨rfl, _⟩ := h; rfl
  | cons op rest ih =>
    unfold asyncOps at h
    obtain ⟨⟨ob, d1, rs1⟩, _, hk⟩ := Except.bind_eq_ok h
    obtain ⟨⟨obs1, d2, rs2⟩, hrest, hk2⟩ := Except.bind_eq_ok hk
    simp only [pure, Except.pure, Except.ok.injEq, Prod.mk.injEq] at hk2
    obtain ⟨rfl, rfl, rfl⟩ := hk2
    simp [ih d1 rs1 obs1 hrest]

/-- **the frames the async front-end hands to the radio carry strictly increasing counters within a
session, for every script.**  Any device state, either class, any list of application calls, each
`send` / `join` under ANY script of radio answers (errors at any call, frames in any window, Class C
frames between the windows): every data frame handed to the radio carries a counter strictly above the
previous one of the same session, until a call returns `SessionExpired`; `join` / ABP start a new
session.  Obtained from the refinement (`asyncOps_sim`) and the history theorem (`runC_fcnt_strict`). -/
theorem async_fcnt_strict {σ} (g : Rng σ) (cfg : DevCfg) (d : DevRun) (rs : σ) (ops : List AsyncOp) (obs : List OpObs)
    (d' : DevRun) (rs' : σ) (h : asyncOps g cfg d rs ops = .ok (obs, d', rs')) : FcntStrictObs (some 0) (ops.zip obs) := by
  obtain ⟨⟨ms', ocs⟩, hrun, hrel⟩ := (asyncOps_sim g cfg d rs ops).elim_ok h
  have hs := runC_fcnt_strict g d.m rs _ ms' ocs (some 0) (fun _ e _ _ => by cases e; exact Nat.zero_le _) hrun
  exact fcntStrict_obs cfg ops obs ocs (some 0) hrel.obs (asyncOps_length g cfg d rs ops obs d' rs' h) hs

/-! ### the non-blocking front-end -/

/-- what one event of the non-blocking machine shows to the radio and the application -/
structure NbObs where
  /-- the data frame handed to the radio: a `send` in `Idle` that the MAC accepts (`sentFrame`) -/
  frame : Option UplinkDesc
  /-- a `join` in `Idle` (the MAC drops the session at once) -/
  joinStart : Bool
  resp : NbResp

def nbObsOf {σ} (g : Rng σ) (r : NbRun) (rs : σ) (ev : NbEvent) (resp : NbResp) : NbObs :=
  { frame := (match r.st, ev with
      | .idle, .send d p c => sentFrame g r.m d p c rs
      | _, _ => none),
    joinStart := (match r.st, ev with
      | .idle, .join => true
      | _, _ => false),
    resp := resp }

/-- a session of the non-blocking device with what each event shows -/
def nbRunObs {σ} (g : Rng σ) (cfg : NbCfg) : NbRun → σ → List (NbEvent × List NbItem) → M (List NbObs × NbRun × σ)
  | r, rs, [] => pure ([], r, rs)
  | r, rs, (ev, items) :: rest => do
    let (resp, r', rs') ← nbEvent g cfg r rs ev items
    let (obs, r'', rs'') ← nbRunObs g cfg r' rs' rest
    pure (nbObsOf g r rs ev resp :: obs, r'', rs'')

def nextBound (b : Option Nat) (ob : NbObs) : Option Nat :=
  if ob.resp == .mac .sessionExpired then none
  else match ob.frame with
    | some f => some (f.fcnt + 1)
    | none => if ob.joinStart then some 0 else b

/-- **`FcntStrict` on the events of the non-blocking machine**: each data frame handed to the radio
carries a counter at or above the bound; after a frame with counter `n` the bound is `n + 1`, until
`SessionExpired` is reported (no claim after that); a `join` accepted in `Idle` starts a new session -/
def FcntStrictNb : Option Nat → List NbObs → Prop
  | _, [] => True
  | b, ob :: rest => (∀ f lo, ob.frame = some f → b = some lo → lo ≤ f.fcnt) ∧ FcntStrictNb (nextBound b ob) rest

/-- what the exchange in progress will leave as the bound -/
def Promise {σ} (g : Rng σ) (pre : MacState × σ) (b : Option Nat) : Option NbGhost → Prop
  | none => True
  | some x =>
    match x.kind with
    | some (d, p, c) => ∃ o m1 rs1, macSend g pre.1 d p c pre.2 = .ok (some o, m1, rs1) ∧ ∀ lo, b = some lo → lo ≤ o.frame.fcnt + 1
    | none => ∀ lo, b = some lo → lo = 0

/-- the invariant of `nb_fcnt_strict`: the refinement invariant, the bound respected by the MAC
state in `Idle`, and — during an exchange — respected by the history's state, with the exchange's
own frame accounted for -/
def NbBound {σ} (g : Rng σ) (b : Option Nat) (pre : MacState × σ) (gh : Option NbGhost) (r : NbRun) (rs : σ) : Prop :=
  NbInv g pre gh r rs ∧ (r.st = .idle → Rel r.m b) ∧ (r.st ≠ .idle → (∃ b0, Rel pre.1 b0) ∧ Promise g pre b gh)

theorem nbInv_flight {σ} {g : Rng σ} {pre : MacState × σ} {gh : Option NbGhost} {r : NbRun} {rs : σ}
    (h : NbInv g pre gh r rs) (hst : r.st ≠ .idle) : ∃ x, gh = some x := by
  unfold NbInv at h
  cases hs : r.st with
  | idle => exact absurd hs hst
  | sendingData join tx => rw [hs] at h; obtain ⟨⟨k, a, c, e, _⟩, _⟩ := h; exact ⟨_, e⟩
  | waitingForRxWindow join tx second t => rw [hs] at h; obtain ⟨k, a, c, e, _⟩ := h; exact ⟨_, e⟩
  | waitingForRx join tx second t => rw [hs] at h; obtain ⟨k, a, c, e, _⟩ := h; exact ⟨_, e⟩

theorem nbInv_none_idle {σ} {g : Rng σ} {pre : MacState × σ} {r : NbRun} {rs : σ}
    (h : NbInv g pre none r rs) : r.st = .idle ∧ pre = (r.m, rs) := by
  by_cases hst : r.st = .idle
  · unfold NbInv at h; rw [hst] at h; exact ⟨hst, h.2⟩
  · obtain ⟨x, e⟩ := nbInv_flight h hst; cases e

theorem nbInv_some_flight {σ} {g : Rng σ} {pre : MacState × σ} {x : NbGhost} {r : NbRun} {rs : σ}
    (h : NbInv g pre (some x) r rs) : r.st ≠ .idle := by
  intro hst
  unfold NbInv at h; rw [hst] at h; cases h.1

/-- while an exchange is in progress the abstraction keeps its kind -/
theorem nbAbs_flight (x : NbGhost) (st : NbState) (ev : NbEvent) (item : NbItem) (st' : NbState) (hst : st ≠ .idle) :
    (∃ y, nbAbs (some x) st ev item st' = (none, some y) ∧ y.kind = x.kind) ∨
    (∃ y tx, nbAbs (some x) st ev item st' = (some (ghostEv y tx), none) ∧ y.kind = x.kind) := by
  unfold nbAbs
  cases st with
  | idle => exact absurd rfl hst
  | sendingData join tx => cases ev <;> exact Or.inl ⟨x, rfl, rfl⟩
  | waitingForRxWindow join tx second t => cases ev <;> exact Or.inl ⟨x, rfl, rfl⟩
  | waitingForRx join tx second t =>
    cases ev with
    | join => exact Or.inl ⟨x, rfl, rfl⟩
    | send d p c => exact Or.inl ⟨x, rfl, rfl⟩
    | timeout =>
      simp only
      split
      · exact Or.inr ⟨x, tx, rfl, rfl⟩
      · exact Or.inl ⟨x, rfl, rfl⟩
    | radio e =>
      cases e with
      | txDone ts => exact Or.inl ⟨x, rfl, rfl⟩
      | rx snr v =>
        simp only
        split
        · split
          · exact Or.inr ⟨_, tx, rfl, by cases second <;> rfl⟩
          · exact Or.inl ⟨_, rfl, by cases second <;> rfl⟩
        · exact Or.inl ⟨x, rfl, rfl⟩

theorem step_uplink_shape {σ} (g : Rng σ) (ms ms' : MacState × σ) (d : List Nat) (p : Nat) (c : Bool) (f : Option Nat)
    (rx1 rx2 : Option (RxView × Int)) (mp1 mp2 : Nat) (out : Out)
    (h : step g ms (.uplink d p c f rx1 rx2 mp1 mp2) = .ok (ms', out)) :
    sentFrame g ms.1 d p c ms.2 = out.frame? ∧ (out = .notJoined ∨ ∃ o r dl, out = .up o r dl) := by
  simp only [step] at h
  obtain ⟨⟨o, m1, s1⟩, hsend, hk⟩ := Except.bind_eq_ok h
  unfold sentFrame
  rw [hsend]
  cases o with
  | none =>
    simp only [pure, Except.pure, Except.ok.injEq, Prod.mk.injEq] at hk
    obtain ⟨_, rfl⟩ := hk
    exact ⟨rfl, Or.inl rfl⟩
  | some o =>
    simp only at hk
    cases f with
    | some k =>
      simp only at hk
      obtain ⟨m2, _, hk2⟩ := Except.bind_eq_ok hk
      simp only [pure, Except.pure, Except.ok.injEq, Prod.mk.injEq] at hk2
      obtain ⟨_, rfl⟩ := hk2
      exact ⟨rfl, Or.inr ⟨_, _, _, rfl⟩⟩
    | none =>
      simp only at hk
      obtain ⟨⟨r, dl, m2⟩, _, hk2⟩ := Except.bind_eq_ok hk
      simp only [pure, Except.pure, Except.ok.injEq, Prod.mk.injEq] at hk2
      obtain ⟨_, rfl⟩ := hk2
      exact ⟨rfl, Or.inr ⟨_, _, _, rfl⟩⟩

theorem rel_none (m : MacState) : Rel m none := fun lo e => by cases e

theorem rel_weaken {m : MacState} {n : Nat} {b : Option Nat} (h : Rel m (some n)) (hb : ∀ lo, b = some lo → lo ≤ n) : Rel m b := by
  intro lo e s hs
  exact Nat.le_trans (hb lo e) (h n rfl s hs)

/-- the response of a completed exchange reports expiry iff the history's output does -/
theorem nbResp_expired {resp : NbResp} {o : SendOut} {r : Option Response} {dl : Option (Nat × List Nat)}
    (h : NbRespRel resp (.up o r dl)) : (resp == .mac .sessionExpired) = expiredResp r := by
  cases r with
  | none =>
    simp only [NbRespRel] at h
    rcases h with rfl | rfl <;> rfl
  | some r =>
    simp only [NbRespRel] at h
    subst h
    by_cases hx : r = Response.sessionExpired
    · subst hx; rfl
    · have h1 : (NbResp.mac r == NbResp.mac Response.sessionExpired) = false := by
        simp only [beq_eq_false_iff_ne, ne_eq, NbResp.mac.injEq]; exact hx
      have h2 : expiredResp (some r) = false := by
        simp only [expiredResp, beq_eq_false_iff_ne, ne_eq, Option.some.injEq]; exact hx
      rw [h1, h2]

theorem nbInv_started {σ} {g : Rng σ} {pre : MacState × σ} {x : NbGhost} {r : NbRun} {rs : σ}
    (h : NbInv g pre (some x) r rs) : ∃ join tx, Started g pre x.kind join tx r.m rs := by
  unfold NbInv at h
  cases hs : r.st with
  | idle => rw [hs] at h; cases h.1
  | sendingData join tx =>
    rw [hs] at h; obtain ⟨⟨k, a, c, e, hst, _⟩, _⟩ := h; cases e; exact ⟨join, tx, hst⟩
  | waitingForRxWindow join tx second t =>
    rw [hs] at h; obtain ⟨k, a, c, e, hst, _⟩ := h; cases e; exact ⟨join, tx, hst⟩
  | waitingForRx join tx second t =>
    rw [hs] at h; obtain ⟨k, a, c, e, hst, _⟩ := h; cases e; exact ⟨join, tx, hst⟩

theorem nbObsOf_flight {σ} (g : Rng σ) (r : NbRun) (rs : σ) (ev : NbEvent) (resp : NbResp) (hst : r.st ≠ .idle) :
    (nbObsOf g r rs ev resp).frame = none ∧ (nbObsOf g r rs ev resp).joinStart = false := by
  unfold nbObsOf
  cases hs : r.st with
  | idle => exact absurd hs hst
  | sendingData join tx => exact ⟨rfl, rfl⟩
  | waitingForRxWindow join tx second t => exact ⟨rfl, rfl⟩
  | waitingForRx join tx second t => exact ⟨rfl, rfl⟩

theorem promise_weaken {σ} {g : Rng σ} {pre : MacState × σ} {b b' : Option Nat} {x y : NbGhost}
    (h : Promise g pre b (some x)) (hk : y.kind = x.kind) (hb : b' = b ∨ b' = none) : Promise g pre b' (some y) := by
  simp only [Promise] at h ⊢
  rw [hk]
  cases hkind : x.kind with
  | none =>
    rw [hkind] at h
    simp only at h ⊢
    intro lo e
    rcases hb with rfl | rfl
    · exact h lo e
    · cases e
  | some dpc =>
    obtain ⟨d, p, c⟩ := dpc
    rw [hkind] at h
    simp only at h ⊢
    obtain ⟨o, m1, rs1, hs, hle⟩ := h
    refine ⟨o, m1, rs1, hs, ?_⟩
    intro lo e
    rcases hb with rfl | rfl
    · exact hle lo e
    · cases e

/-- one event of the non-blocking machine, seen from the counter bound -/
theorem nbStep_bound {σ} (g : Rng σ) (cfg : NbCfg) (b : Option Nat) (pre : MacState × σ) (gh : Option NbGhost) (r : NbRun)
    (rs : σ) (ev : NbEvent) (items : List NbItem) (resp : NbResp) (r' : NbRun) (rs' : σ)
    (hJ : NbBound g b pre gh r rs) (h : nbEvent g cfg r rs ev items = .ok (resp, r', rs')) :
    (∀ f lo, (nbObsOf g r rs ev resp).frame = some f → b = some lo → lo ≤ f.fcnt) ∧
    ∃ pre' gh', NbBound g (nextBound b (nbObsOf g r rs ev resp)) pre' gh' r' rs' := by
  have rel0 : ∀ m'', Rel m'' (some 0) := fun m'' lo e s _ => by cases e; exact Nat.zero_le _
  obtain ⟨hinv, hidle, hfl⟩ := hJ
  have hpost := nbStep_inv g cfg pre gh r rs ev items resp r' rs' hinv h
  by_cases hst : r.st = .idle
  · have hi : gh = none ∧ pre = (r.m, rs) := by unfold NbInv at hinv; rw [hst] at hinv; exact hinv
    obtain ⟨rfl, rfl⟩ := hi
    have hRel := hidle hst
    -- the bound after an event that leaves the machine in `Idle` with the MAC state untouched
    have quiet : nbAbs none r.st ev (headItem items) r'.st = (none, none) →
        (nbObsOf g r rs ev resp).frame = none → (nbObsOf g r rs ev resp).joinStart = false →
        (∀ f lo, (nbObsOf g r rs ev resp).frame = some f → b = some lo → lo ≤ f.fcnt) ∧
        ∃ pre' gh', NbBound g (nextBound b (nbObsOf g r rs ev resp)) pre' gh' r' rs' := by
      intro hab hf hj
      rw [hab] at hpost
      obtain ⟨hst', hpre⟩ := nbInv_none_idle hpost.1
      have hm : r'.m = r.m := by simp only [Prod.mk.injEq] at hpre; exact hpre.1.symm
      refine ⟨fun f lo e => (by rw [hf] at e; cases e), (r.m, rs), none, hpost.1, fun _ => ?_, fun hne => absurd hst' hne⟩
      rw [hm]
      unfold nextBound
      rw [hf, hj]
      split
      · exact rel_none _
      · exact hRel
    cases ev with
    | timeout => exact quiet (by rw [hst]; rfl) (by unfold nbObsOf; rw [hst]) (by unfold nbObsOf; rw [hst])
    | radio e => exact quiet (by rw [hst]; rfl) (by unfold nbObsOf; rw [hst]) (by unfold nbObsOf; rw [hst])
    | join =>
      have hf : (nbObsOf g r rs .join resp).frame = none := by unfold nbObsOf; rw [hst]
      have hj : (nbObsOf g r rs .join resp).joinStart = true := by unfold nbObsOf; rw [hst]
      refine ⟨fun f lo e => (by rw [hf] at e; cases e), ?_⟩
      have hb' : nextBound b (nbObsOf g r rs .join resp) = none ∨ nextBound b (nbObsOf g r rs .join resp) = some 0 := by
        unfold nextBound; rw [hf, hj]; split
        · exact Or.inl rfl
        · exact Or.inr rfl
      rw [hst] at hpost
      by_cases hid : r'.st.isIdle = true
      · simp only [nbAbs, hid, if_true, NbStepPost] at hpost
        obtain ⟨out, _, hinv', _, _⟩ := hpost
        obtain ⟨hst', _⟩ := nbInv_none_idle hinv'
        refine ⟨(r'.m, rs'), none, hinv', fun _ => ?_, fun hne => absurd hst' hne⟩
        rcases hb' with e | e <;> rw [e]
        · exact rel_none _
        · exact rel0 _
      · simp only [nbAbs, hid, Bool.false_eq_true, if_false, NbStepPost] at hpost
        refine ⟨(r.m, rs), _, hpost.1, fun hi => absurd hi (nbInv_some_flight hpost.1), fun _ => ⟨⟨b, hRel⟩, ?_⟩⟩
        simp only [Promise]
        intro lo e
        rcases hb' with e' | e' <;> rw [e'] at e <;> cases e
        rfl
    | send d p c =>
      have hf : (nbObsOf g r rs (.send d p c) resp).frame = sentFrame g r.m d p c rs := by unfold nbObsOf; rw [hst]
      have hj : (nbObsOf g r rs (.send d p c) resp).joinStart = false := by unfold nbObsOf; rw [hst]
      rw [hst] at hpost
      by_cases hid : r'.st.isIdle = true
      · simp only [nbAbs, hid, if_true, NbStepPost] at hpost
        obtain ⟨out, hstep, hinv', hresp, _⟩ := hpost
        obtain ⟨hst', _⟩ := nbInv_none_idle hinv'
        obtain ⟨hframe, hshape⟩ := step_uplink_shape g (r.m, rs) (r'.m, rs') d p c (some 0) none none 0 0 out hstep
        have hsp := step_rel g r.m r'.m rs rs' _ out b hRel hstep
        rcases hshape with rfl | ⟨o, rr, dl, rfl⟩
        · simp only [Out.frame?] at hframe
          refine ⟨fun f lo e => (by rw [hf, hframe] at e; cases e), (r'.m, rs'), none, hinv', fun _ => ?_, fun hne => absurd hst' hne⟩
          simp only [stepPost, isJoin, Bool.false_eq_true, if_false] at hsp
          unfold nextBound
          rw [hf, hframe, hj]
          split
          · exact rel_none _
          · exact hsp
        · simp only [Out.frame?] at hframe
          simp only [stepPost] at hsp
          refine ⟨fun f lo e => (by rw [hf, hframe] at e; cases e; exact hsp.1 lo), (r'.m, rs'), none, hinv',
            fun _ => ?_, fun hne => absurd hst' hne⟩
          unfold nextBound
          have hr : (nbObsOf g r rs (.send d p c) resp).resp = resp := rfl
          rw [hf, hframe, hr, nbResp_expired hresp]
          exact hsp.2
      · simp only [nbAbs, hid, Bool.false_eq_true, if_false, NbStepPost] at hpost
        obtain ⟨join, tx, hstart⟩ := nbInv_started hpost.1
        simp only [Started] at hstart
        obtain ⟨_, o, hsend, _⟩ := hstart
        have hsf : sentFrame g r.m d p c rs = some o.frame := by unfold sentFrame; rw [hsend]
        have hhyp : step g (r.m, rs) (.uplink d p c (some 0) none none 0 0) =
            .ok ((faultAfterTx r'.m, rs'), .up o (if faultExpired r'.m then some .sessionExpired else none) none) := by
          simp only [step, hsend, faultedCycle, bind, Except.bind, pure, Except.pure]
        have hsp := step_rel g r.m _ rs rs' _ _ b hRel hhyp
        simp only [stepPost] at hsp
        refine ⟨fun f lo e => (by rw [hf, hsf] at e; cases e; exact hsp.1 lo), (r.m, rs), _, hpost.1,
          fun hi => absurd hi (nbInv_some_flight hpost.1), fun _ => ⟨⟨b, hRel⟩, ?_⟩⟩
        simp only [Promise]
        refine ⟨o, r'.m, rs', hsend, ?_⟩
        intro lo e
        unfold nextBound at e
        rw [hf, hsf] at e
        split at e
        · cases e
        · simp only [Option.some.injEq] at e; omega
  · obtain ⟨x, rfl⟩ := nbInv_flight hinv hst
    obtain ⟨hf, hj⟩ := nbObsOf_flight g r rs ev resp hst
    obtain ⟨⟨b0, hRel0⟩, hprom⟩ := hfl hst
    have hb' : nextBound b (nbObsOf g r rs ev resp) = b ∨ nextBound b (nbObsOf g r rs ev resp) = none := by
      unfold nextBound; rw [hf, hj]; split
      · exact Or.inr rfl
      · exact Or.inl rfl
    refine ⟨fun f lo e => (by rw [hf] at e; cases e), ?_⟩
    rcases nbAbs_flight x r.st ev (headItem items) r'.st hst with ⟨y, hab, hk⟩ | ⟨y, tx, hab, hk⟩
    · rw [hab] at hpost
      exact ⟨pre, some y, hpost.1, fun hi => absurd hi (nbInv_some_flight hpost.1),
        fun _ => ⟨⟨b0, hRel0⟩, promise_weaken hprom hk hb'⟩⟩
    · rw [hab] at hpost
      obtain ⟨out, hstep, hinv', hresp, _⟩ := hpost
      obtain ⟨hst', _⟩ := nbInv_none_idle hinv'
      refine ⟨(r'.m, rs'), none, hinv', fun _ => ?_, fun hne => absurd hst' hne⟩
      obtain ⟨m0, s0⟩ := pre
      have hsp := step_rel g m0 r'.m s0 rs' _ out b0 hRel0 hstep
      simp only [Promise] at hprom
      cases hkind : x.kind with
      | none =>
        rw [hkind] at hprom
        simp only at hprom
        have hev : ghostEv y tx = .joinOtaa none y.rx1 y.rx2 tx.rx1.maxPayload.toNat tx.rx2.maxPayload.toNat := by
          unfold ghostEv; rw [hk, hkind]
        rw [hev] at hsp hstep
        have hr0 : Rel r'.m (some 0) := rel0 _
        rcases hb' with e | e <;> rw [e]
        · exact rel_weaken hr0 (fun lo e => by rw [hprom lo e]; exact Nat.le_refl _)
        · exact rel_none _
      | some dpc =>
        obtain ⟨d, p, c⟩ := dpc
        rw [hkind] at hprom
        simp only at hprom
        obtain ⟨o, m1, rs1, hsend, hle⟩ := hprom
        have hev : ghostEv y tx = .uplink d p c none y.rx1 y.rx2 tx.rx1.maxPayload.toNat tx.rx2.maxPayload.toNat := by
          unfold ghostEv; rw [hk, hkind]
        rw [hev] at hsp hstep
        obtain ⟨hframe, hshape⟩ := step_uplink_shape g (m0, s0) (r'.m, rs') d p c none _ _ _ _ out hstep
        have hsf : sentFrame g m0 d p c s0 = some o.frame := by unfold sentFrame; rw [hsend]
        simp only at hframe
        rw [hsf] at hframe
        rcases hshape with rfl | ⟨o', rr, dl, rfl⟩
        · cases hframe
        · simp only [Out.frame?, Option.some.injEq] at hframe
          simp only [stepPost] at hsp
          rcases hb' with e | e <;> rw [e]
          · have hx := nbResp_expired hresp
            unfold nextBound at e
            have hr : (nbObsOf g r rs ev resp).resp = resp := rfl
            rw [hf, hj, hr] at e
            by_cases hexp : expiredResp rr = true
            · rw [hx, hexp] at e
              simp only [if_true] at e
              rw [← e]; exact rel_none _
            · simp only [hexp, Bool.false_eq_true, if_false] at hsp
              exact rel_weaken hsp.2 (fun lo e => by rw [← hframe]; exact hle lo e)
          · exact rel_none _

theorem nbRunObs_bound {σ} (g : Rng σ) (cfg : NbCfg) (b : Option Nat) (pre : MacState × σ) (gh : Option NbGhost) (r : NbRun)
    (rs : σ) (evs : List (NbEvent × List NbItem)) (obs : List NbObs) (r' : NbRun) (rs' : σ)
    (hJ : NbBound g b pre gh r rs) (h : nbRunObs g cfg r rs evs = .ok (obs, r', rs')) : FcntStrictNb b obs := by
  induction evs generalizing b pre gh r rs obs with
  | nil =>
    simp only [nbRunObs, pure, Except.pure, Except.ok.injEq, Prod.mk.injEq] at h
    obtain ⟨rfl, _⟩ := h
    trivial
  | cons x rest ih =>
    obtain ⟨ev, items⟩ := x
    unfold nbRunObs at h
    obtain ⟨⟨resp, r1, rs1⟩, hev, hk⟩ := Except.bind_eq_ok h
    obtain ⟨⟨obs1, r2, rs2⟩, hrun, hk2⟩ := Except.bind_eq_ok hk
    simp only [pure, Except.pure, Except.ok.injEq, Prod.mk.injEq] at hk2
    obtain ⟨rfl, rfl, rfl⟩ := hk2
    obtain ⟨hcheck, pre', gh', hJ'⟩ := nbStep_bound g cfg b pre gh r rs ev items resp r1 rs1 hJ hev
    exact ⟨hcheck, ih _ pre' gh' r1 rs1 obs1 hJ' hrun⟩

/-- **the frames the non-blocking front-end hands to the radio carry strictly increasing counters
within a session, for every event sequence.**  From `Idle` in any MAC state, for every sequence of
application, radio and timer events with any radio answers (protocol violations, radio errors,
`TxDone` at once, several frames in one window, stray timeouts): every data frame handed to the radio
carries a counter strictly above the previous one of the same session, until `SessionExpired` is
reported; a `join` accepted in `Idle` starts a new session.  Obtained from the refinement invariant
(`nbStep_inv`) and the history's step theorem (`step_rel`). -/
theorem nb_fcnt_strict {σ} (g : Rng σ) (cfg : NbCfg) (r : NbRun) (rs : σ) (evs : List (NbEvent × List NbItem))
    (obs : List NbObs) (r' : NbRun) (rs' : σ) (hidle : r.st = .idle)
    (h : nbRunObs g cfg r rs evs = .ok (obs, r', rs')) : FcntStrictNb (some 0) obs :=
  nbRunObs_bound g cfg (some 0) (r.m, rs) none r rs evs obs r' rs'
    ⟨nbInv_idle g r rs hidle, fun _ _ e _ _ => by cases e; exact Nat.zero_le _, fun hne => absurd hidle hne⟩ h

/-! non-vacuity -/
def cfg0 : Config :=
  { dataRate := 0, rx1Delay := 1000, txPower := none, rx1DrOffset := 0, rx2DataRate := none, rx2Frequency := none, adrEnabled := true }
example : (rx2Complete (Session.new 1 1 2) cfg0 .EU868).2.1.fcntUp = 1 := by decide
example : (rx2Complete { Session.new 1 1 2 with fcntUp := 0xFFFFFFFF } cfg0 .EU868).1 = .sessionExpired := by decide

def lcg : Rng Nat := fun x => ((x * 1103515245 + 12345) / 65536, x * 1103515245 + 12345)

/-- ABP, three uplinks (a confirmed downlink in RX1, a radio fault after one window, a timeout), a
Class C downlink in between, then an OTAA re-join and one more uplink -/
def demoHistory : List Ev :=
  [ .joinAbp 7 1 2,
    .uplink [1] 1 true none (some (.data { len := 14, confirmed := true, fcnt16 := 3, micFcnt := some 3, fopts := [], fport := some 2, payload := [5] }, 4)) none 250 250,
    .rxc (.data { len := 14, confirmed := false, fcnt16 := 4, micFcnt := some 4, fopts := [0x06], fport := none, payload := [] }) 0 250,
    .uplink [2] 1 false (some 1) (some (.garbage, 0)) none 250 250,
    .uplink [] 0 false none none none 250 250,
    .joinOtaa none none (some (.joinAccept { micOk := true, devAddr := 9, dlSettings := 0, rxDelay := 1, cfList := none, nwkKey := 5, appKey := 6 }, 1)) 250 250,
    .uplink [3] 3 false none none none 250 250 ]

def upFcnts (outs : List Out) : List (Nat × Nat) :=
  outs.filterMap (fun o => match o with | .up so _ _ => some (so.frame.devAddr, so.frame.fcnt) | _ => none)

/-- the run exists, and its uplinks carry (DevAddr, FCnt) = (7,0) (7,2) (7,3) | (9,0): the Class C
downlink and the accepted RX1 downlink each advanced the counter, the faulted uplink burnt one -/
example : (run lcg (MacState.init (RegionState.init .EU868) 14 0, 1) demoHistory).toOption.map (fun r => upFcnts r.2)
    = some [(7, 0), (7, 2), (7, 3), (9, 0)] := by decide +kernel

/-! ### non-vacuity of the front-end theorems, and the Class C demonstration -/

def demoCfgC : DevCfg := { lead := 15, buffer := 40, classC := true, txMs := 57 }

def cDown (n : Nat) (conf : Bool) : RxView :=
  .data { len := 14, confirmed := conf, fcnt16 := n, micFcnt := some n, fopts := [], fport := some 2, payload := [n] }

/-- ABP session; a Class C device hears a confirmed downlink between TX and RX1 of the first uplink,
nothing in the windows; a second uplink runs into a radio error while setting up RX2; OTAA re-join
(accept in RX2); one more uplink -/
def demoOps : List AsyncOp :=
  [ .abp 7 1 2,
    .send [1] 1 false [.ok, .ok, .frame 5 (cDown 3 true), .ok],
    .send [2] 1 false [.ok, .ok, .ok, .ok, .ok, .ok, .ok, .ok, .err],
    .join [.ok, .ok, .ok, .ok, .ok, .ok, .ok, .ok, .ok, .frame 1 (.joinAccept { micOk := true, devAddr := 9, dlSettings := 0, rxDelay := 1, cfList := none, nwkKey := 5, appKey := 6 })],
    .send [3] 3 false [] ]

def obsFcnts (obs : List OpObs) : List (Option (Nat × Nat × Bool)) :=
  obs.map (fun ob => ob.frame.map (fun f => (f.devAddr, f.fcnt, f.ack)))

/-- the session runs; its frames carry (DevAddr, FCnt, ACK) = (7,0,no) (7,2,yes) | (9,0,no): the Class C
downlink heard in the middle of the first procedure and the completion of that procedure each took a
counter, the ACK it asks for goes out with the NEXT uplink, the faulted uplink burnt counter 2 -/
example : (asyncOps lcg demoCfgC { m := MacState.init (RegionState.init .EU868) 14 0, script := [], calls := [], downlinks := [] } 1 demoOps).toOption.map
    (fun r => obsFcnts r.1) = some [none, some (7, 0, false), some (7, 2, true), none, some (9, 0, false)] := by decide +kernel

/-- the same exchanges on the non-blocking front-end -/
def demoNb : List (NbEvent × List NbItem) :=
  [ (.send [1] 1 true, []), (.send [2] 1 false, []), (.radio (.txDone 100), []), (.timeout, []),
    (.radio (.rx 0 .garbage), []), (.radio (.rx (-3) (cDown 3 true)), []),
    (.send [2] 1 false, [.txDoneNow 5000]), (.join, []), (.timeout, [.err]), (.timeout, []), (.timeout, []), (.timeout, []),
    (.timeout, []), (.send [3] 1 false, [.err]), (.send [4] 1 false, [.idle]), (.send [5] 1 false, []) ]

def demoNbStart : NbRun :=
  { m := macJoinAbp (MacState.init (RegionState.init .EU868) 14 0) 7 1 2, st := .idle, script := [], calls := [], downlinks := [] }

/-- counters 0 (answered in RX1), 1 (RX2 timeout), 2 and 3 (the radio refuses the transmission: burnt), 4 -/
example : (nbRunObs lcg { offset := -20, duration := 200 } demoNbStart 1 demoNb).toOption.map
    (fun r => r.1.filterMap (fun ob => ob.frame.map (fun f => f.fcnt))) = some [0, 1, 2, 3, 4] := by decide +kernel

/-! **Class C receptions inside the receive procedure are not a history of `Model/History.lean`.**
The script below (a confirmed downlink heard by `rx_continuous` between TX and RX1, nothing in the
windows) leaves the session at `fcnt_up = 2, fcnt_down = 3, adr_ack_cnt = 1, ACK owed`, the frame sent
carrying counter 0 without ACK.  The two candidate histories — the reception before the uplink, or after
it — give a different frame (counter 1 with ACK) resp. a different state (`adr_ack_cnt = 0`); the
extended event `abstractSendC` computes reproduces it.  `classC_inside_op` is the op line that replays
the same situation on the real front-end (`lvharness eval`): the snapshot shows two counters used and
ADR count 1 after ONE `send`. -/

def classC_inside_op : String :=
  "C04 adev EU868 1 - 15 40 1 57 ; abp 637606874 ; asend 1 0 01 | O O R12/60da1b01260000001a1aeb681b01ba/d/15/0/0/0/-/26/ddb6 O O O O O O O O O ; snap"

/-- (fcnt_up, fcnt_down, adr_ack_cnt, ACK owed) of the session (zeros if there is none; no downlink
counter yet reads 4294967296) -/
def sessOf (m : MacState) : Nat × Nat × Nat × Bool :=
  match m.st with
  | .joined s => (s.fcntUp, (match s.fcntDown with | some n => n | none => 4294967296), s.adrAckCnt, s.ackOwed)
  | _ => (0, 0, 0, false)

def mAbp : MacState := macJoinAbp (MacState.init (RegionState.init .EU868) 14 0) 7 1 2

def scriptInside : List ScriptItem := [.ok, .ok, .frame 5 (cDown 3 true), .ok]

def frameOf (o : Out) : Option (Nat × Bool) :=
  match o with
  | .up so _ _ => some (so.frame.fcnt, so.frame.ack)
  | _ => none

def insideRun : M (DevResult × DevRun × Nat) :=
  asyncSend lcg demoCfgC { m := mAbp, script := scriptInside, calls := [], downlinks := [] } [1] 1 false 1

theorem classC_inside_frontend :
    insideRun.toOption.map (fun r => r.1) = some (.ok .rxComplete) ∧
    insideRun.toOption.map (fun r => sessOf r.2.1.m) = some (2, 3, 1, true) ∧
    insideRun.toOption.map (fun r => r.2.1.downlinks) = some [(2, [3])] ∧
    (sentFrame lcg mAbp [1] 1 false 1).map (fun f => (f.fcnt, f.ack)) = some (0, false) := by decide +kernel

theorem classC_inside_not_rxc_before :
    (run lcg (mAbp, 1) [.rxc (cDown 3 true) 5 59, .uplink [1] 1 false none none none 59 59]).toOption.map
      (fun r => (sessOf r.1.1, r.2.filterMap frameOf)) = some ((2, 3, 1, false), [(1, true)]) := by decide +kernel

theorem classC_inside_not_rxc_after :
    (run lcg (mAbp, 1) [.uplink [1] 1 false none none none 59 59, .rxc (cDown 3 true) 5 59]).toOption.map
      (fun r => (sessOf r.1.1, r.2.filterMap frameOf)) = some ((2, 3, 0, true), [(0, false)]) := by decide +kernel

theorem classC_inside_extended :
    (runC lcg (mAbp, 1) [abstractSendC demoCfgC scriptInside [1] 1 false]).toOption.map
      (fun r => (sessOf r.1.1, r.2.filterMap (fun oc => frameOf oc.out))) = some ((2, 3, 1, true), [(0, false)]) := by
  decide +kernel

/-- a script without frames between the windows: the event `abstractAsync` computes, and the history
run equal to the front-end's result (instance of `async_send_refines`) -/
example : abstractAsync lcg { demoCfgC with classC := false } mAbp 1 [.ok, .ok, .ok, .frame 2 (cDown 4 false), .err] [1] 1 false =
    .uplink [1] 1 false (some 1) (some (cDown 4 false, 2)) none 59 59 := by rfl


/-! ### `SessionExpired` INSIDE a receive procedure (builder M)

`runC_fcnt_strict` reads the response of the whole procedure.  A Class C acceptance on the RXC
parameters in the middle of a procedure can be the event that exhausts the counter space: the session
below is at `fcnt_up = 2^32 − 2`; the uplink goes out with that counter; the first frame heard between
TX and RX1 is accepted and moves `fcnt_up` to `2^32 − 1`; the second and the one heard between RX1 and
RX2 are then answered `SessionExpired` by `handle_rxc` (the `heard` list), the counter stays, and the
procedure itself ends with `SessionExpired` (`rx2_complete` at the last counter): expiry is REPORTED by
the event, so `FcntStrict` drops its claim exactly there.  The next uplink — which the property no longer
speaks about — carries `2^32 − 1`, still strictly above. -/

def cFrame (w : Nat) : RxView × Int :=
  (.data { len := 14, confirmed := false, fcnt16 := w, micFcnt := some w, fopts := [], fport := some 1, payload := [w] }, 5)

/-- an ABP session two uplinks before the end of the counter space -/
def mLate : MacState :=
  { macJoinAbp (MacState.init (RegionState.init .EU868) 14 0) 7 1 2 with
    st := .joined { Session.new 7 1 2 with fcntUp := 0xFFFFFFFE } }

def lateHistoryC : List EvC :=
  [ .uplinkC true [1] 1 false none [cFrame 1, cFrame 2] none [cFrame 3] none,
    .uplinkC true [2] 1 false none [] none [] none ]

/-- per uplink: its counter, whether the procedure reported `SessionExpired`, and for each frame handled
inside the procedure whether `handle_rxc` answered `SessionExpired` -/
def respOfC (o : OutC) : Option (Nat × Bool × List Bool) :=
  match o.out with
  | .up so r _ => some (so.frame.fcnt, expiredResp r, o.heard.map (fun x => x.resp == .sessionExpired))
  | _ => none

example : (runC lcg (mLate, 1) lateHistoryC).toOption.map (fun r => r.2.map respOfC) =
    some [some (4294967294, true, [false, true, true]), some (4294967295, true, [])] := by decide +kernel
example : (runC lcg (mLate, 1) lateHistoryC).toOption.map
      (fun r => match r.1.1.st with | .joined s => some (s.fcntUp, s.fcntDown) | _ => none) =
    some (some (4294967295, some 3)) := by decide +kernel

/-- the instance of `runC_fcnt_strict` for that run, from the session's own counter -/
example (ms' : MacState × Nat) (ocs : List OutC) (h : runC lcg (mLate, 1) lateHistoryC = .ok (ms', ocs)) :
    FcntStrict (some 0xFFFFFFFE) ((lateHistoryC.map projEv).zip (ocs.map (fun oc => oc.out))) :=
  runC_fcnt_strict lcg mLate 1 lateHistoryC ms' ocs (some 0xFFFFFFFE)
    (fun lo e s hs => by cases e; cases hs; exact Nat.le_refl _) h


/-- **an expiry INSIDE the receive procedure is reported by the procedure.**  `send` + receive procedure
of a device with a session, either class, any frames, any fault position: if the uplink went out with
the last counter, or ANY frame handled during the procedure — on the RXC parameters before RX1 or
before RX2, or in a window — was answered `SessionExpired` (the `heard` list), then the procedure as a
whole reports `SessionExpired` to the application.  So the point where `FcntStrict` (and the property:
"until the device reports SessionExpired") drops its claim is never missed because the exhaustion
happened in the middle of a procedure.  (Reference level: `Lemmas/ExpiredC.lean`.) -/
theorem stepC_expired_reported {σ} (g : Rng σ) (m m' : MacState) (rs rs' : σ) (s : Session) (hst : m.st = .joined s)
    (hl : LastOk s.fcntDown) (cc : Bool) (data : List Nat) (fport : Nat) (conf : Bool) (fault : Option FaultPos)
    (c1 : List (RxView × Int)) (rx1 : Option (RxView × Int)) (c2 : List (RxView × Int)) (rx2 : Option (RxView × Int))
    (hv : evOkC (.uplinkC cc data fport conf fault c1 rx1 c2 rx2) = true) (out : OutC)
    (h : stepC g (m, rs) (.uplinkC cc data fport conf fault c1 rx1 c2 rx2) = .ok ((m', rs'), out))
    (hx : s.fcntUp = 0xFFFFFFFF ∨ ∃ o ∈ out.heard, o.resp = .sessionExpired) :
    ∃ so dl, out.out = .up so (some .sessionExpired) dl := by
  obtain ⟨so, m1, _, hfr, _, _, _, hout, _⟩ :=
    stepC_uplinkC_joined g m m' rs rs' s hst hl cc data fport conf fault c1 rx1 c2 rx2 hv out h
  have hfc : so.frame.fcnt = s.fcntUp := by rw [hfr]; rfl
  rw [hout] at hx ⊢
  simp only at hx ⊢
  have hx' : ExpIn (⟨s.fcntDown, so.frame.fcnt⟩ : PSt).fu
      (refUplink cc ⟨s.fcntDown, so.frame.fcnt⟩ conf (rxcMp m) fault c1 rx1 c2 rx2 so.tx.rx1.maxPayload.toNat
        so.tx.rx2.maxPayload.toNat).heard := by
    rw [← hfc] at hx
    unfold upRefC at hx
    exact hx
  have := refUplink_expired cc ⟨s.fcntDown, so.frame.fcnt⟩ conf (rxcMp m) fault c1 rx1 c2 rx2
    so.tx.rx1.maxPayload.toNat so.tx.rx2.maxPayload.toNat hx'
  have hres : (upRefC cc s.fcntDown conf (rxcMp m) fault c1 rx1 c2 rx2 so).resp = some .sessionExpired := this
  exact ⟨so, (upRefC cc s.fcntDown conf (rxcMp m) fault c1 rx1 c2 rx2 so).dl, by rw [hres]⟩

/-- **… at every position of every extended history**: an event whose `heard` list contains
`SessionExpired` reports `SessionExpired` itself -/
theorem historyC_expired_reported {σ} (g : Rng σ) (m : MacState) (rs : σ) (gh : Gh) (hr : GhRel m gh) (evs : List EvC)
    (hv : ∀ ev ∈ evs, evOkC ev = true) (ms' : MacState × σ) (outs : List OutC) (h : runC g (m, rs) evs = .ok (ms', outs))
    (i : Nat) (mpc : Nat) (cc : Bool) (data : List Nat) (fport : Nat) (conf : Bool) (fault : Option FaultPos)
    (c1 : List (RxView × Int)) (rx1 : Option (RxView × Int)) (c2 : List (RxView × Int)) (rx2 : Option (RxView × Int)) (out : OutC)
    (hi : ((annotC g (m, rs) evs).zip outs)[i]? = some ((mpc, .uplinkC cc data fport conf fault c1 rx1 c2 rx2), out))
    (hx : ∃ o ∈ out.heard, o.resp = .sessionExpired) :
    ∃ so dl, out.out = .up so (some .sessionExpired) dl := by
  have hc := runC_chain g (m, rs) ms' evs outs h
  obtain ⟨⟨mi, rsi⟩, ⟨mi', rsi'⟩, h1, _, hstep, _⟩ := chainC_at g (m, rs) ms' _ i _ out hc hi
  have hvz : ∀ x ∈ (annotC g (m, rs) evs).zip outs, evOkC x.1.2 = true := fun x hx => hv _ (mem_annot_zip g _ evs outs x hx)
  have hri := chainC_ghRel g (m, rs) (mi, rsi) _ gh hr (fun x hx => hvz x (List.mem_of_mem_take hx)) h1
  have hve := hvz _ (List.mem_of_getElem? hi)
  simp only at hve hstep hri
  cases hgi : ghostAfterG ghNextC gh (((annotC g (m, rs) evs).zip outs).take i) with
  | none =>
    rw [hgi] at hri
    obtain ⟨_, _, rfl⟩ := stepC_uplinkC_notJoined g mi mi' rsi rsi' hri cc data fport conf fault c1 rx1 c2 rx2 out hstep
    obtain ⟨o, ho, _⟩ := hx
    simp at ho
  | some last =>
    rw [hgi] at hri
    obtain ⟨s, hst, rfl, hl⟩ := hri
    exact stepC_expired_reported g mi mi' rsi rsi' s hst hl cc data fport conf fault c1 rx1 c2 rx2 hve out hstep (Or.inr hx)


/-- non-vacuity: the first event of `lateHistoryC` (above) — two of the three frames handled inside the
procedure are answered `SessionExpired`, and so is the procedure -/
example : ∀ ev ∈ lateHistoryC, evOkC ev = true := by decide
example : GhRel mLate (some none) := ⟨_, rfl, rfl, fun l e => by cases e⟩


end C06

#print axioms C06.history_fcnt_strict
#print axioms C06.history_fcnt_from
#print axioms C06.history_no_counter_reuse
#print axioms C06.history_fcnt_32bit
#print axioms C06.join_starts_fresh
#print axioms C06.step_session_id
#print axioms C06.history_session_id
#print axioms C06.send_after_expiry_reuses
#print axioms C06.rx2Complete_fcnt
#print axioms C06.handleRx_fcnt
#print axioms C06.send_uses_fcnt
#print axioms C06.window_fcnt
#print axioms C06.cycle_fcnt
#print axioms C06.fault_fcnt
#print axioms C06.runC_fcnt_strict
#print axioms C06.stepC_expired_reported
#print axioms C06.historyC_expired_reported
#print axioms C06.async_fcnt_strict
#print axioms C06.nb_fcnt_strict

/-! ## `Device::rxc_listen` (builder Q) -/
namespace C06

/-- **a call of `rxc_listen` never sends, and advances `fcnt_up` by exactly one iff it answers
`DownlinkReceived`** (every state, every script; no hypothesis): no transmission is logged; the uplink
counter of the session after the call is the one before plus one exactly when `DownlinkReceived` is
answered and is unchanged otherwise; `SessionExpired` is answered only at the exhausted counter
`2^32 − 1`, which then stays — so a listen call can neither make a later uplink reuse a counter nor wrap it. -/
theorem async_listen_fcnt (r : DevRun) (res : ListenResult) (r' : DevRun) (h : asyncListen r = .ok (res, r')) :
    NoTxSince r r' ∧
    ((∃ n, res = .ok (.downlinkReceived n)) ↔ ∃ u, r.m.fcntUp? = some u ∧ r'.m.fcntUp? = some (u + 1)) ∧
    ((∀ n, res ≠ .ok (.downlinkReceived n)) → r'.m.fcntUp? = r.m.fcntUp?) ∧
    (res = .ok .sessionExpired → r.m.fcntUp? = some 0xFFFFFFFF) := by
  obtain ⟨outs, _, hrel⟩ := asyncListen_refines (σ := Unit) (fun s => (0, s)) () r res r' h
  refine ⟨hrel.calls, ?_⟩
  have hf := hrel.fcnt
  unfold ListenFcnt at hf
  have hstay : ∀ {a b : Option Nat}, b = a → ¬ ∃ u, a = some u ∧ b = some (u + 1) := by
    rintro a b rfl ⟨u, h1, h2⟩
    rw [h1] at h2
    simp only [Option.some.injEq] at h2
    omega
  have hother : ∀ res0 : ListenResult, (∀ n, res0 ≠ .ok (.downlinkReceived n)) → res0 ≠ .ok .sessionExpired →
      r'.m.fcntUp? = r.m.fcntUp? →
      ((∃ n, res0 = .ok (.downlinkReceived n)) ↔ ∃ u, r.m.fcntUp? = some u ∧ r'.m.fcntUp? = some (u + 1)) ∧
      ((∀ n, res0 ≠ .ok (.downlinkReceived n)) → r'.m.fcntUp? = r.m.fcntUp?) ∧
      (res0 = .ok .sessionExpired → r.m.fcntUp? = some 0xFFFFFFFF) := by
    intro res0 h1 h2 h3
    refine ⟨⟨?_, fun hx => absurd hx (hstay h3)⟩, fun _ => h3, fun he => absurd he h2⟩
    rintro ⟨n, he⟩
    exact absurd he (h1 n)
  cases res with
  | ok resp =>
    cases resp with
    | downlinkReceived n =>
      obtain ⟨u, h1, _, h2⟩ := hf
      exact ⟨⟨fun _ => ⟨u, h1, h2⟩, fun _ => ⟨n, rfl⟩⟩, fun hne => absurd rfl (hne n), fun he => (by cases he)⟩
    | sessionExpired =>
      refine ⟨⟨?_, fun hx => absurd hx (hstay hf.2.1)⟩, fun _ => hf.2.1, fun _ => hf.2.2⟩
      rintro ⟨n, he⟩
      cases he
    | noAck => exact absurd hf.1 (by simp)
    | noJoinAccept => exact absurd hf.1 (by simp)
    | joinSuccess => exact absurd hf.1 (by simp)
    | noUpdate => exact absurd hf.1 (by simp)
    | rxComplete => exact absurd hf.1 (by simp)
  | errRadio => exact hother _ (fun n => by simp) (by simp) (by rw [hf.1])
  | errMac => exact hother _ (fun n => by simp) (by simp) (by rw [hf.1])
  | listening => exact hother _ (fun n => by simp) (by simp) (by rw [hf.1])

/-- **uplink counters never repeat in sessions with listen calls.**  A session of sends, joins, setters and
`rxc_listen` calls (either class, any scripts) that returns is a run of the extended history
`abstractCalls` of its calls, its outputs are the front-end's answers call by call (`SessObs`), and along
that history every data frame handed to the radio carries a counter strictly above the previous one of
the same session until `SessionExpired` is reported (`FcntStrict`, as `runC_fcnt_strict`): the Class C
receptions of a listen call move `fcnt_up` forward only (`async_listen_fcnt`). -/
theorem asyncCalls_fcnt_strict {σ} (g : Rng σ) (cfg : DevCfg) (d : DevRun) (rs : σ) (calls : List AsyncCall)
    (obs : List CallObs) (d' : DevRun) (rs' : σ) (h : asyncCalls g cfg d rs calls = .ok (obs, d', rs')) :
    ∃ ocs, runC g (d.m, rs) (abstractCalls g cfg (d.m, rs) calls) = .ok ((d'.m, rs'), ocs) ∧ SessObs calls obs ocs ∧
      FcntStrict (some 0) (((abstractCalls g cfg (d.m, rs) calls).map projEv).zip (ocs.map (fun oc => oc.out))) := by
  obtain ⟨ocs, hrun, hobs⟩ := asyncCalls_runC g cfg d rs calls obs d' rs' h
  exact ⟨ocs, hrun, hobs,
    runC_fcnt_strict g d.m rs _ (d'.m, rs') ocs (some 0) (fun _ e _ _ => by cases e; exact Nat.zero_le _) hrun⟩

/-! non-vacuity: a device at `fcnt_up = 2^32 − 2` hears an authentic frame (counter moves to `2^32 − 1`),
listens again and hears the next one: `SessionExpired`, the counter stays -/

def lateListen : DevRun :=
  { m := { (macJoinAbp (MacState.init (RegionState.init .EU868) 14 0) 7 1 2) with
      st := .joined { Session.new 7 1 2 with fcntUp := 4294967294 } },
    script := [.frame 0 (.data { len := 14, confirmed := false, fcnt16 := 1, micFcnt := some 1, fopts := [], fport := some 1, payload := [1] })],
    calls := [], downlinks := [] }

example : (asyncListen lateListen).toOption.map (fun x => (x.1, x.2.m.fcntUp?, x.2.calls)) =
    some (.ok (.downlinkReceived 1), some 4294967295, [.rxContinuous]) := by decide +kernel
example : ((asyncListen lateListen).toOption.bind (fun x => (asyncListen { x.2 with script :=
      [.frame 0 (.data { len := 14, confirmed := false, fcnt16 := 2, micFcnt := some 2, fopts := [], fport := some 1, payload := [2] })] }).toOption)).map
    (fun x => (x.1, x.2.m.fcntUp?)) = some (.ok .sessionExpired, some 4294967295) := by decide +kernel

end C06

#print axioms C06.async_listen_fcnt
#print axioms C06.asyncCalls_fcnt_strict
