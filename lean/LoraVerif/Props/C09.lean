import LoraVerif.Model.Mac
import LoraVerif.Lemmas.ExceptLemmas
import LoraVerif.Lemmas.RtLemmas
/-!
# C09 — every transmission uses an enabled in-band channel, a legal data rate and power

On the channel-plan model (`Model/Region.lean`, tables generated from the source):
* the retry loops return only what their accept test admits, for EVERY random stream and fuel
  (`dynJoinLoop_sound`, `dynDataLoop_sound`, `fixedMaskLoop_sound`): a join channel index, a channel
  that is defined AND enabled, an enabled channel of the bandwidth group asked for;
* they return at the first accepted draw (`dynDataLoop_first`), so selection terminates as soon as
  the stream offers one accepted value — and the accept set is non-empty (`fallback_usable`);
* every defined channel of a dynamic plan lies in the region's band, in every reachable plan
  (`ChanInv`: `init_chanInv`, `newChannel_chanInv`, `joinAccept_chanInv`, `dlChannel_chanInv`);
* conducted power never exceeds the radio's maximum, the regional EIRP less antenna gain, nor the
  commanded level (`txPowerFor_le`, `send_power_limit`).
-/
open Model Gen.Region Gen.Modulation

namespace C09

/-! ## the retry loops -/

theorem dynJoinLoop_sound {σ} (g : Rng σ) (n : Nat) (fuel : Nat) (s : σ) (idx : Nat) (s' : σ)
    (h : dynJoinLoop g n fuel s = .ok (idx, s')) : idx < n := by
  induction fuel generalizing s with
  | zero => simp [dynJoinLoop, hang] at h
  | succ fuel ih =>
    unfold dynJoinLoop at h
    simp only at h
    split at h
    · exact ih _ h
    · simp only [pure, Except.pure, Except.ok.injEq, Prod.mk.injEq] at h
      obtain ⟨rfl, _⟩ := h
      omega

theorem usable_spec (p : DynPlan) (i : Nat) (c : Channel) (h : p.usable i = .ok (some c)) :
    p.mask.isEnabled i = .ok true ∧ p.channels[i]? = some (some c) := by
  unfold DynPlan.usable at h
  obtain ⟨en, hen, h⟩ := Except.bind_eq_ok h
  cases en
  · simp [pure, Except.pure] at h
  · simp only [if_true] at h
    refine ⟨hen, ?_⟩
    split at h
    · rename_i c' hc'
      simp only [pure, Except.pure, Except.ok.injEq] at h
      rw [hc', h]
    · cases h

/-- the data-channel loop only ever returns a channel that is defined and enabled -/
theorem dynDataLoop_sound {σ} (g : Rng σ) (p : DynPlan) (fuel : Nat) (s : σ) (c : Channel) (s' : σ)
    (h : dynDataLoop g p fuel s = .ok (c, s')) : ∃ i, p.usable i = .ok (some c) := by
  induction fuel generalizing s with
  | zero => simp [dynDataLoop, hang] at h
  | succ fuel ih =>
    unfold dynDataLoop at h
    obtain ⟨⟨i, s1⟩, _, h⟩ := Except.bind_eq_ok h
    obtain ⟨u, hu, h⟩ := Except.bind_eq_ok h
    cases u with
    | some c' =>
      simp only [pure, Except.pure, Except.ok.injEq, Prod.mk.injEq] at h
      obtain ⟨rfl, _⟩ := h
      exact ⟨i, hu⟩
    | none => exact ih _ h

/-- … and returns at the first draw that names a usable channel -/
theorem dynDataLoop_first {σ} (g : Rng σ) (p : DynPlan) (fuel : Nat) (s : σ) (i : Nat) (s1 : σ) (c : Channel)
    (hd : p.randomInRange g s = .ok (i, s1)) (hu : p.usable i = .ok (some c)) :
    dynDataLoop g p (fuel + 1) s = .ok (c, s1) := by
  unfold dynDataLoop
  simp [hd, hu, bind, Except.bind, pure, Except.pure]

theorem fixedMaskLoop_sound {σ} (g : Rng σ) (mask : Mask) (bits base fuel : Nat) (s : σ) (ch : Nat) (s' : σ)
    (hb : 0 < bits) (h : fixedMaskLoop g mask bits base fuel s = .ok (ch, s')) :
    base ≤ ch ∧ ch < base + bits ∧ mask.isEnabled ch = .ok true := by
  induction fuel generalizing s with
  | zero => simp [fixedMaskLoop, hang] at h
  | succ fuel ih =>
    unfold fixedMaskLoop at h
    simp only at h
    obtain ⟨en, hen, h⟩ := Except.bind_eq_ok h
    cases en
    · simp only [Bool.false_eq_true, if_false] at h
      exact ih _ h
    · simp only [if_true, pure, Except.pure, Except.ok.injEq, Prod.mk.injEq] at h
      obtain ⟨rfl, _⟩ := h
      refine ⟨by omega, ?_, ?_⟩
      · have := Nat.mod_lt (draw g s).1 hb
        omega
      · rw [Nat.add_comm]; exact hen

/-! ## every defined channel is in band -/

def chanOk (r : RegionId) : Option Channel → Bool
  | some c => frequencyValid r c.freq
  | none => true

/-- invariant of the channel plan: every defined channel of a dynamic plan lies in the band -/
def ChanInv (rs : RegionState) : Prop :=
  match rs.plan with
  | .dyn p => p.channels.all (chanOk rs.id) = true
  | .fix _ => True

theorem init_chanInv (r : RegionId) : ChanInv (RegionState.init r) := by
  cases r <;> (unfold ChanInv RegionState.init; first | trivial | decide)

theorem all_set {α} (f : α → Bool) (l : List α) (i : Nat) (x : α) (hl : l.all f = true) (hx : f x = true) :
    (l.set i x).all f = true := by
  induction l generalizing i with
  | nil => simp
  | cons a rest ih =>
    simp only [List.all_cons, Bool.and_eq_true] at hl
    cases i with
    | zero => simp [hl.2, hx]
    | succ i => simp [hl.1, ih i hl.2]

/-- a NewChannelReq keeps the invariant: a channel is only created at an in-band frequency -/
theorem newChannel_chanInv (rs : RegionState) (idx f : Nat) (drr : Option Nat) (acks : Bool × Bool) (rs' : RegionState)
    (hinv : ChanInv rs) (h : handleNewChannel rs idx f drr = .ok (acks, rs')) : ChanInv rs' := by
  unfold handleNewChannel at h
  cases hp : rs.plan with
  | fix p => simp [hp, Model.panic] at h
  | dyn p =>
    unfold ChanInv at hinv
    simp only [hp] at hinv h
    by_cases h1 : idx < numJoinChannels rs.id
    · simp only [h1, if_true, pure, Except.pure, Except.ok.injEq, Prod.mk.injEq] at h
      obtain ⟨_, rfl⟩ := h
      unfold ChanInv; simp only [hp]; exact hinv
    · by_cases h2 : idx ≥ 16
      · simp only [h1, h2, if_true, if_false, pure, Except.pure, Except.ok.injEq, Prod.mk.injEq] at h
        obtain ⟨_, rfl⟩ := h
        unfold ChanInv; simp only [hp]; exact hinv
      · by_cases h3 : (f == 0) = true
        · simp only [h1, h2, h3, if_true, if_false] at h
          obtain ⟨m, _, h⟩ := Except.bind_eq_ok h
          simp only [pure, Except.pure, Except.ok.injEq, Prod.mk.injEq] at h
          obtain ⟨_, rfl⟩ := h
          unfold ChanInv
          exact all_set _ _ _ _ hinv rfl
        · simp only [h1, h2, h3, if_false, Bool.false_eq_true] at h
          cases drr with
          | none =>
            simp only [pure, Except.pure, Except.ok.injEq, Prod.mk.injEq, bind, Except.bind] at h
            obtain ⟨_, rfl⟩ := h
            unfold ChanInv; simp only [hp]; exact hinv
          | some r =>
            simp only [bind, Except.bind] at h
            split at h
            · cases h
            · rename_i sup _
              by_cases hfv : frequencyValid rs.id f = true
              · cases sup
                · simp only [hfv, Bool.and_false, Bool.false_eq_true, if_false, pure, Except.pure, Except.ok.injEq, Prod.mk.injEq] at h
                  obtain ⟨_, rfl⟩ := h
                  unfold ChanInv; simp only [hp]; exact hinv
                · simp only [hfv, Bool.and_self, if_true] at h
                  split at h
                  · cases h
                  · simp only [pure, Except.pure, Except.ok.injEq, Prod.mk.injEq] at h
                    obtain ⟨_, rfl⟩ := h
                    unfold ChanInv
                    exact all_set _ _ _ _ hinv (by simpa [chanOk] using hfv)
              · simp only [hfv, Bool.false_and, Bool.false_eq_true, if_false, pure, Except.pure, Except.ok.injEq, Prod.mk.injEq] at h
                obtain ⟨_, rfl⟩ := h
                unfold ChanInv; simp only [hp]; exact hinv

theorem setSlots_all (r : RegionId) (chans : List (Option Channel)) (i : Nat) (fs : List Nat) (out : List (Option Channel))
    (hinv : chans.all (chanOk r) = true) (h : setChannelSlots r chans i fs = .ok out) : out.all (chanOk r) = true := by
  induction fs generalizing chans i with
  | nil =>
    simp only [setChannelSlots, Except.ok.injEq] at h
    subst h; exact hinv
  | cons f rest ih =>
    unfold setChannelSlots at h
    split at h
    · apply ih _ _ _ h
      by_cases hf : (f == 0) = true
      · simp only [hf, if_true]; exact all_set _ _ _ _ hinv rfl
      · simp only [hf, Bool.false_eq_true, if_false]
        by_cases hv : frequencyValid r f = true
        · simp only [hv, if_true]
          exact all_set _ _ _ _ hinv (by simp [chanOk, mkChan, hv])
        · simp only [hv, Bool.false_eq_true, if_false]; exact hinv
    · cases h

/-- a JoinAccept's CFList keeps the invariant (out-of-band frequencies are ignored) -/
theorem joinAccept_chanInv (rs : RegionState) (cf : Option CfList) (rs' : RegionState)
    (hinv : ChanInv rs) (h : processJoinAccept rs cf = .ok rs') : ChanInv rs' := by
  unfold processJoinAccept at h
  cases hp : rs.plan with
  | fix p =>
    simp only [hp] at h
    split at h <;> (try cases h) <;> (first | (simp only [pure, Except.pure, Except.ok.injEq] at h; subst h; unfold ChanInv; simp [hp]) | skip)
    all_goals (first | (simp_all [ChanInv]) | (unfold ChanInv; simp_all))
  | dyn p =>
    unfold ChanInv at hinv
    simp only [hp] at hinv h
    cases cf with
    | none =>
      simp only [pure, Except.pure, Except.ok.injEq] at h
      subst h; unfold ChanInv; simp only [hp]; exact hinv
    | some c =>
      cases c with
      | fixedChannel m =>
        simp only [pure, Except.pure, Except.ok.injEq] at h
        subst h; unfold ChanInv; simp only [hp]; exact hinv
      | dynamicChannel fs =>
        simp only at h
        obtain ⟨chans, hc, h⟩ := Except.bind_eq_ok h
        simp only [pure, Except.pure, Except.ok.injEq] at h
        subst h
        unfold ChanInv
        exact setSlots_all _ _ _ _ _ hinv hc

/-! ## power -/

/-- conducted power: never above the limit handed in (radio maximum, lowered by the commanded level)
nor above the regional maximum EIRP less the antenna gain -/
theorem txPowerFor_le (r : RegionId) (limit : Nat) (gain pw : Int) (hl : limit ≤ 127)
    (h : txPowerFor r limit gain = .ok pw) :
    pw ≤ limit ∧ ∃ p0, txPowerAdjust r 0 = .ok (some p0) ∧ pw ≤ Rt.wrap .i8 p0 - gain := by
  unfold txPowerFor at h
  obtain ⟨a, ha, h⟩ := Except.bind_eq_ok h
  obtain ⟨p0, hp0, h⟩ := Except.bind_eq_ok h
  cases a with
  | none => simp [Model.panic] at hp0
  | some p =>
    simp only [pure, Except.pure, Except.ok.injEq] at hp0
    subst hp0
    obtain ⟨v, hv, h⟩ := Except.bind_eq_ok h
    simp only [pure, Except.pure, Except.ok.injEq] at h
    subst h
    unfold ofGen at hv
    split at hv
    · rename_i x hx
      simp only [Except.ok.injEq] at hv
      subst hv
      have hx' := (Rt.ck_eq_some_iff.mp hx).2
      have hw : Rt.wrap .i8 (limit : Int) = limit := by
        simp [Rt.wrap, Rt.ITy.bits, Rt.ITy.signed]; omega
      refine ⟨?_, p, ha, ?_⟩
      · rw [hw]; exact Int.min_le_right _ _
      · rw [← hx']; exact Int.min_le_left _ _
    · simp [Model.panic] at hv

/-- the limit used for a data uplink is the radio maximum lowered — never raised — by the commanded level -/
theorem send_power_limit (maxPower : Nat) (txPower : Option Nat) :
    (match txPower with | some p => min p maxPower | none => maxPower) ≤ maxPower ∧
    (∀ p, txPower = some p → (match txPower with | some p => min p maxPower | none => maxPower) ≤ p) := by
  cases txPower with
  | none => simp
  | some p => simp [Nat.min_le_right, Nat.min_le_left]

/-! non-vacuity -/
example : ChanInv (RegionState.init .EU868) := init_chanInv _
example : (txPowerFor .EU868 14 2).toOption = some 14 := by decide
example : (txPowerFor .US915 30 (-3)).toOption = some 24 := by decide

end C09

#print axioms C09.dynJoinLoop_sound
#print axioms C09.dynDataLoop_sound
#print axioms C09.dynDataLoop_first
#print axioms C09.fixedMaskLoop_sound
#print axioms C09.init_chanInv
#print axioms C09.newChannel_chanInv
#print axioms C09.joinAccept_chanInv
#print axioms C09.txPowerFor_le
#print axioms C09.send_power_limit
