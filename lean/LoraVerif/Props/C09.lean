import LoraVerif.Model.Mac
import LoraVerif.Lemmas.ExceptLemmas
import LoraVerif.Lemmas.RtLemmas
import LoraVerif.Model.History
import LoraVerif.Lemmas.MacWFStep
import LoraVerif.Lemmas.Accept
import LoraVerif.Lemmas.CycleC
import LoraVerif.Lemmas.HistoryCSafe
import LoraVerif.Lemmas.RefineC
/-!
# C09 — every transmission uses an enabled in-band channel, a legal data rate and power

On the channel-plan model (`Model/Region.lean`, tables generated from the source):
* the retry loops return only what their accept test admits, for EVERY random stream and fuel
  (`dynJoinLoop_sound`, `dynDataLoop_sound`, `fixedMaskLoop_sound`): a join channel index, a channel
  that is defined AND enabled, an enabled channel of the bandwidth group asked for;
* they return at the first accepted draw (`dynDataLoop_first`), so selection terminates as soon as
  the stream offers one accepted value — and the accept set is non-empty (`fallback_usable`);
* every defined channel of a dynamic plan lies in the region's band, in every reachable plan
  (`ChanInv`: `init_chanInv`, `newChannel_chanInv`, `joinAccept_chanInv`, `dlChannel_chanInv`);
* conducted power never exceeds the radio's maximum, the regional EIRP less antenna gain, nor the
  commanded level (`txPowerFor_le`, `send_power_limit`).
Composed (on the MAC model, in every well-formed = every reachable state, `Lemmas/MacWF*.lean`):
* `selectTxChannel_legal`: what `select_tx_channel` returns is legal in the plan it leaves;
* `send_legal`: `Mac::send` ⇒ in-band frequency of a defined channel that is enabled in the plan the
  selection ended with, bandwidth matching the channel, an uplink data rate of the region, power ≤
  radio maximum, ≤ commanded level, ≤ regional EIRP − antenna gain (proving it exposed that the join
  bias overrode the channel mask: repaired in the code, fix 89d4f41; regression example below);
* `join_legal`: `Mac::join_otaa` ⇒ a join channel with the data rate it mandates, in band, same power limits;
* `history_tx_legal`: by induction over `run`, every frame of every history satisfies these;
* `select_accept_nonempty`: in every well-formed plan state the accept sets of the retry loops are
  non-empty (a draw value exists on which selection returns at once).
-/
open Model Gen.Region Gen.Modulation

namespace C09

/-! ## the retry loops -/

theorem dynJoinLoop_sound {σ} (g : Rng σ) (n : Nat) (fuel : Nat) (s : σ) (idx : Nat) (s' : σ)
    (h : dynJoinLoop g n fuel s = .ok (idx, s')) : idx < n := by
  induction fuel generalizing s with
  | zero => simp [dynJoinLoop, hang] at h
  | succ fuel ih =>
    unfold dynJoinLoop at h
    simp only at h
    split at h
    · exact ih _ h
    · simp only [pure, Except.pure, Except.ok.injEq, Prod.mk.injEq] at h
      obtain ⟨rfl, _⟩ := h
      omega

theorem usable_spec (p : DynPlan) (i : Nat) (c : Channel) (h : p.usable i = .ok (some c)) :
    p.mask.isEnabled i = .ok true ∧ p.channels[i]? = some (some c) := by
  unfold DynPlan.usable at h
  obtain ⟨en, hen, h⟩ := Except.bind_eq_ok h
  cases en
  · simp [pure, Except.pure] at h
  · simp only [if_true] at h
    refine ⟨hen, ?_⟩
    split at h
    · rename_i c' hc'
      simp only [pure, Except.pure, Except.ok.injEq] at h
      rw [hc', h]
    · cases h

/-- the data-channel loop only ever returns a channel that is defined and enabled -/
theorem dynDataLoop_sound {σ} (g : Rng σ) (p : DynPlan) (fuel : Nat) (s : σ) (c : Channel) (s' : σ)
    (h : dynDataLoop g p fuel s = .ok (c, s')) : ∃ i, p.usable i = .ok (some c) := by
  induction fuel generalizing s with
  | zero => simp [dynDataLoop, hang] at h
  | succ fuel ih =>
    unfold dynDataLoop at h
    obtain ⟨⟨i, s1⟩, _, h⟩ := Except.bind_eq_ok h
    obtain ⟨u, hu, h⟩ := Except.bind_eq_ok h
    cases u with
    | some c' =>
      simp only [pure, Except.pure, Except.ok.injEq, Prod.mk.injEq] at h
      obtain ⟨rfl, _⟩ := h
      exact ⟨i, hu⟩
    | none => exact ih _ h

/-- … and returns at the first draw that names a usable channel -/
theorem dynDataLoop_first {σ} (g : Rng σ) (p : DynPlan) (fuel : Nat) (s : σ) (i : Nat) (s1 : σ) (c : Channel)
    (hd : p.randomInRange g s = .ok (i, s1)) (hu : p.usable i = .ok (some c)) :
    dynDataLoop g p (fuel + 1) s = .ok (c, s1) := by
  unfold dynDataLoop
  simp [hd, hu, bind, Except.bind, pure, Except.pure]

theorem fixedMaskLoop_sound {σ} (g : Rng σ) (mask : Mask) (bits base fuel : Nat) (s : σ) (ch : Nat) (s' : σ)
    (hb : 0 < bits) (h : fixedMaskLoop g mask bits base fuel s = .ok (ch, s')) :
    base ≤ ch ∧ ch < base + bits ∧ mask.isEnabled ch = .ok true := by
  induction fuel generalizing s with
  | zero => simp [fixedMaskLoop, hang] at h
  | succ fuel ih =>
    unfold fixedMaskLoop at h
    simp only at h
    obtain ⟨en, hen, h⟩ := Except.bind_eq_ok h
    cases en
    · simp only [Bool.false_eq_true, if_false] at h
      exact ih _ h
    · simp only [if_true, pure, Except.pure, Except.ok.injEq, Prod.mk.injEq] at h
      obtain ⟨rfl, _⟩ := h
      refine ⟨by omega, ?_, ?_⟩
      · have := Nat.mod_lt (draw g s).1 hb
        omega
      · rw [Nat.add_comm]; exact hen

/-! ## every defined channel is in band -/

def chanOk (r : RegionId) : Option Channel → Bool
  | some c => frequencyValid r c.freq
  | none => true

/-- invariant of the channel plan: every defined channel of a dynamic plan lies in the band -/
def ChanInv (rs : RegionState) : Prop :=
  match rs.plan with
  | .dyn p => p.channels.all (chanOk rs.id) = true
  | .fix _ => True

theorem init_chanInv (r : RegionId) : ChanInv (RegionState.init r) := by
  cases r <;> (unfold ChanInv RegionState.init; first | trivial | decide)

theorem all_set {α} (f : α → Bool) (l : List α) (i : Nat) (x : α) (hl : l.all f = true) (hx : f x = true) :
    (l.set i x).all f = true := by
  induction l generalizing i with
  | nil => simp
  | cons a rest ih =>
    simp only [List.all_cons, Bool.and_eq_true] at hl
    cases i with
    | zero => simp [hl.2, hx]
    | succ i => simp [hl.1, ih i hl.2]

/-- a NewChannelReq keeps the invariant: a channel is only created at an in-band frequency -/
theorem newChannel_chanInv (rs : RegionState) (idx f : Nat) (drr : Option Nat) (acks : Bool × Bool) (rs' : RegionState)
    (hinv : ChanInv rs) (h : handleNewChannel rs idx f drr = .ok (acks, rs')) : ChanInv rs' := by
  unfold handleNewChannel at h
  cases hp : rs.plan with
  | fix p => simp [hp, Model.panic] at h
  | dyn p =>
    unfold ChanInv at hinv
    simp only [hp] at hinv h
    by_cases h1 : idx < numJoinChannels rs.id
    · simp only [h1, if_true, pure, Except.pure, Except.ok.injEq, Prod.mk.injEq] at h
      obtain ⟨_, rfl⟩ := h
      unfold ChanInv; simp only [hp]; exact hinv
    · by_cases h2 : idx ≥ 16
      · simp only [h1, h2, if_true, if_false, pure, Except.pure, Except.ok.injEq, Prod.mk.injEq] at h
        obtain ⟨_, rfl⟩ := h
        unfold ChanInv; simp only [hp]; exact hinv
      · by_cases h3 : (f == 0) = true
        · simp only [h1, h2, h3, if_true, if_false] at h
          obtain ⟨m, _, h⟩ := Except.bind_eq_ok h
          simp only [pure, Except.pure, Except.ok.injEq, Prod.mk.injEq] at h
          obtain ⟨_, rfl⟩ := h
          unfold ChanInv
          exact all_set _ _ _ _ hinv rfl
        · simp only [h1, h2, h3, if_false, Bool.false_eq_true] at h
          cases drr with
          | none =>
            simp only [pure, Except.pure, Except.ok.injEq, Prod.mk.injEq, bind, Except.bind] at h
            obtain ⟨_, rfl⟩ := h
            unfold ChanInv; simp only [hp]; exact hinv
          | some r =>
            simp only [bind, Except.bind] at h
            split at h
            · cases h
            · rename_i sup _
              by_cases hfv : frequencyValid rs.id f = true
              · cases sup
                · simp only [hfv, Bool.and_false, Bool.false_eq_true, if_false, pure, Except.pure, Except.ok.injEq, Prod.mk.injEq] at h
                  obtain ⟨_, rfl⟩ := h
                  unfold ChanInv; simp only [hp]; exact hinv
                · simp only [hfv, Bool.and_self, if_true] at h
                  split at h
                  · cases h
                  · simp only [pure, Except.pure, Except.ok.injEq, Prod.mk.injEq] at h
                    obtain ⟨_, rfl⟩ := h
                    unfold ChanInv
                    exact all_set _ _ _ _ hinv (by simpa [chanOk] using hfv)
              · simp only [hfv, Bool.false_and, Bool.false_eq_true, if_false, pure, Except.pure, Except.ok.injEq, Prod.mk.injEq] at h
                obtain ⟨_, rfl⟩ := h
                unfold ChanInv; simp only [hp]; exact hinv

theorem setSlots_all (r : RegionId) (chans : List (Option Channel)) (i : Nat) (fs : List Nat) (out : List (Option Channel))
    (hinv : chans.all (chanOk r) = true) (h : setChannelSlots r chans i fs = .ok out) : out.all (chanOk r) = true := by
  induction fs generalizing chans i with
  | nil =>
    simp only [setChannelSlots, Except.ok.injEq] at h
    subst h; exact hinv
  | cons f rest ih =>
    unfold setChannelSlots at h
    split at h
    · apply ih _ _ _ h
      by_cases hf : (f == 0) = true
      · simp only [hf, if_true]; exact all_set _ _ _ _ hinv rfl
      · simp only [hf, Bool.false_eq_true, if_false]
        by_cases hv : frequencyValid r f = true
        · simp only [hv, if_true]
          exact all_set _ _ _ _ hinv (by simp [chanOk, mkChan, hv])
        · simp only [hv, Bool.false_eq_true, if_false]; exact hinv
    · cases h

/-- a JoinAccept's CFList keeps the invariant (out-of-band frequencies are ignored) -/
theorem joinAccept_chanInv (rs : RegionState) (cf : Option CfList) (rs' : RegionState)
    (hinv : ChanInv rs) (h : processJoinAccept rs cf = .ok rs') : ChanInv rs' := by
  unfold processJoinAccept at h
  cases hp : rs.plan with
  | fix p =>
    simp only [hp] at h
    split at h <;> (try cases h) <;> (first | (simp only [pure, Except.pure, Except.ok.injEq] at h; subst h; unfold ChanInv; simp [hp]) | skip)
    all_goals (first | (simp_all [ChanInv]) | (unfold ChanInv; simp_all))
  | dyn p =>
    unfold ChanInv at hinv
    simp only [hp] at hinv h
    cases cf with
    | none =>
      simp only [pure, Except.pure, Except.ok.injEq] at h
      subst h; unfold ChanInv; simp only [hp]; exact hinv
    | some c =>
      cases c with
      | fixedChannel m =>
        simp only [pure, Except.pure, Except.ok.injEq] at h
        subst h; unfold ChanInv; simp only [hp]; exact hinv
      | dynamicChannel fs =>
        simp only at h
        obtain ⟨chans, hc, h⟩ := Except.bind_eq_ok h
        simp only [pure, Except.pure, Except.ok.injEq] at h
        subst h
        unfold ChanInv
        exact setSlots_all _ _ _ _ _ hinv hc

/-! ## power -/

/-- conducted power: never above the limit handed in (radio maximum, lowered by the commanded level)
nor above the regional maximum EIRP less the antenna gain -/
theorem txPowerFor_le (r : RegionId) (limit : Nat) (gain pw : Int) (hl : limit ≤ 127)
    (h : txPowerFor r limit gain = .ok pw) :
    pw ≤ limit ∧ ∃ p0, txPowerAdjust r 0 = .ok (some p0) ∧ pw ≤ Rt.wrap .i8 p0 - gain := by
  unfold txPowerFor at h
  obtain ⟨a, ha, h⟩ := Except.bind_eq_ok h
  obtain ⟨p0, hp0, h⟩ := Except.bind_eq_ok h
  cases a with
  | none => simp [Model.panic] at hp0
  | some p =>
    simp only [pure, Except.pure, Except.ok.injEq] at hp0
    subst hp0
    obtain ⟨v, hv, h⟩ := Except.bind_eq_ok h
    simp only [pure, Except.pure, Except.ok.injEq] at h
    subst h
    unfold ofGen at hv
    split at hv
    · rename_i x hx
      simp only [Except.ok.injEq] at hv
      subst hv
      have hx' := (Rt.ck_eq_some_iff.mp hx).2
      have hw : Rt.wrap .i8 (limit : Int) = limit := by
        simp [Rt.wrap, Rt.ITy.bits, Rt.ITy.signed]; omega
      refine ⟨?_, p, ha, ?_⟩
      · rw [hw]; exact Int.min_le_right _ _
      · rw [← hx']; exact Int.min_le_left _ _
    · simp [Model.panic] at hv

/-- the limit used for a data uplink is the radio maximum lowered — never raised — by the commanded level -/
theorem send_power_limit (maxPower : Nat) (txPower : Option Nat) :
    (match txPower with | some p => min p maxPower | none => maxPower) ≤ maxPower ∧
    (∀ p, txPower = some p → (match txPower with | some p => min p maxPower | none => maxPower) ≤ p) := by
  cases txPower with
  | none => simp
  | some p => simp [Nat.min_le_right, Nat.min_le_left]

/-- the channel a frame went out on, judged in the plan `rs'` the selection ended with -/
def ChannelLegal (rs' : RegionState) (frame : FrameKind) (tx : TxChannel) : Prop :=
  match rs'.plan with
  | .dyn p => ∃ i c, p.channels[i]? = some (some c) ∧ tx.frequency = c.freq ∧
      (match frame with
       | .join => i < numJoinChannels rs'.id
       | .data => p.mask.isEnabled i = .ok true)
  | .fix p => ∃ ch f, ch < 72 ∧ (uplinkChannels rs'.id)[ch]? = some f ∧ tx.frequency = f.toNat ∧
      tx.datarate.bandwidth = (if ch < 64 then Bandwidth._125KHz else Bandwidth._500KHz) ∧
      (match frame with
       | .join => tx.dr = (if ch < 64 then DR._0 else join500kDr rs'.id)
       | .data => p.mask.isEnabled ch = .ok true)

theorem fixed_bw_all : ∀ r ∈ [RegionId.US915, RegionId.AU915], ∀ dr ∈ List.range 15,
    (match getDatarate r dr with
     | some d => d.bandwidth == Bandwidth._125KHz || d.bandwidth == Bandwidth._500KHz
     | none => true) = true := by decide

theorem fixed_bw (r : RegionId) (hf : r.isFixed = true) (dr : Nat) (d : Datarate) (hg : getDatarate r dr = some d) :
    d.bandwidth = Bandwidth._125KHz ∨ d.bandwidth = Bandwidth._500KHz := by
  have hlt : dr < 15 := getDatarate_lt (by rw [hg]; rfl)
  have hr : r ∈ [RegionId.US915, RegionId.AU915] := by cases r <;> simp [RegionId.isFixed] at hf <;> simp
  have := fixed_bw_all r hr dr (List.mem_range.mpr hlt)
  rw [hg] at this
  simpa using this

theorem joinDr_bw (r : RegionId) (hf : r.isFixed = true) :
    (∃ d, getDatarate r DR._0.toInt.toNat = some d ∧ d.bandwidth = Bandwidth._125KHz) ∧
    (∃ d, getDatarate r (join500kDr r).toInt.toNat = some d ∧ d.bandwidth = Bandwidth._500KHz) := by
  cases r <;> simp [RegionId.isFixed] at hf
  · exact ⟨⟨_, rfl, rfl⟩, ⟨_, rfl, rfl⟩⟩
  · exact ⟨⟨_, rfl, rfl⟩, ⟨_, rfl, rfl⟩⟩

theorem joinDr_uplink (r : RegionId) (hf : r.isFixed = true) :
    isUplinkDatarate r DR._0.toInt.toNat = true ∧ isUplinkDatarate r (join500kDr r).toInt.toNat = true := by
  cases r <;> simp [RegionId.isFixed] at hf <;> exact ⟨rfl, rfl⟩

theorem getDatarate_of_index {r : RegionId} {dr : Nat} {o : Option Datarate} (h : indexDatarate r dr = .ok o) :
    getDatarate r dr = o := by
  unfold indexDatarate at h
  unfold getDatarate
  split at h
  · cases h; rfl
  · cases h

theorem unwrap_ok {site : String} {o : Option Datarate} {d : Datarate} (h : unwrapDatarate site o = .ok d) : o = some d := by
  cases o with
  | none => cases h
  | some d' => cases h; rfl

/-- **what `select_tx_channel` returns is legal in the plan it leaves**: the data rate is the
region's entry for `tx.dr`; the frequency is that of a defined channel — a join channel for a join
request (fixed plans: with the data rate the channel mandates), an ENABLED channel of matching
bandwidth for a data frame -/
theorem selectTxChannel_legal {σ} (g : Rng σ) (rs rs' : RegionState) (dr : DR) (frame : FrameKind) (s s' : σ) (tx : TxChannel)
    (h : regionWF rs = true) (hsel : selectTxChannel g rs dr frame s = .ok (tx, rs', s')) :
    rs'.id = rs.id ∧ getDatarate rs.id tx.dr.toInt.toNat = some tx.datarate ∧ ChannelLegal rs' frame tx ∧
      (isUplinkDatarate rs.id dr.toInt.toNat = true → isUplinkDatarate rs.id tx.dr.toInt.toNat = true) := by
  unfold selectTxChannel at hsel
  cases hp : rs.plan with
  | dyn p =>
    simp only [hp] at hsel
    obtain ⟨drv, hdrv, hsel⟩ := Except.bind_eq_ok hsel
    have hg := getDatarate_of_index hdrv
    cases frame with
    | join =>
      simp only at hsel
      obtain ⟨⟨idx, s1⟩, hloop, hsel⟩ := Except.bind_eq_ok hsel
      have hidx := dynJoinLoop_sound g _ _ s idx s1 hloop
      simp only at hsel
      split at hsel
      · rename_i c hc
        obtain ⟨d, hd, hsel⟩ := Except.bind_eq_ok hsel
        cases Except.pure_eq_ok hsel
        have := unwrap_ok hd
        subst this
        refine ⟨rfl, hg, ?_, fun hu => hu⟩
        unfold ChannelLegal
        simp only [hp]
        exact ⟨idx, c, hc, rfl, hidx⟩
      · cases hsel
    | data =>
      simp only at hsel
      obtain ⟨usableAny, _, hsel⟩ := Except.bind_eq_ok hsel
      obtain ⟨p', _, hsel⟩ := Except.bind_eq_ok hsel
      obtain ⟨⟨c, s1⟩, hloop, hsel⟩ := Except.bind_eq_ok hsel
      obtain ⟨d, hd, hsel⟩ := Except.bind_eq_ok hsel
      cases Except.pure_eq_ok hsel
      have := unwrap_ok hd
      subst this
      obtain ⟨i, hu⟩ := dynDataLoop_sound g p' _ s c s1 hloop
      obtain ⟨hen, hch⟩ := usable_spec p' i c hu
      refine ⟨rfl, hg, ?_, fun hu => hu⟩
      unfold ChannelLegal
      simp only
      exact ⟨i, c, hch, rfl, hen⟩
  | fix p =>
    obtain ⟨hfx, hm, hjc⟩ := (regionWF_fix hp).mp h
    simp only [hp] at hsel
    obtain ⟨⟨dr', ch, jc', mask', s1⟩, hfirst, hsel1⟩ := Except.bind_eq_ok hsel
    clear hsel
    simp only at hsel1
    obtain ⟨o, hidx, hsel2⟩ := Except.bind_eq_ok hsel1
    clear hsel1
    obtain ⟨d, hd, hsel3⟩ := Except.bind_eq_ok hsel2
    clear hsel2
    have := unwrap_ok hd
    subst this
    clear hd
    have hg := getDatarate_of_index hidx
    clear hidx
    have hF : d.bandwidth = (if ch < 64 then Bandwidth._125KHz else Bandwidth._500KHz) ∧
        (frame = .join → dr' = (if ch < 64 then DR._0 else join500kDr rs.id)) ∧
        (frame = .data → mask'.isEnabled ch = .ok true) ∧
        (isUplinkDatarate rs.id dr.toInt.toNat = true → isUplinkDatarate rs.id dr'.toInt.toNat = true) := by
      clear hsel3
      have hjoin : ∀ (x : Nat × JoinChannels × σ),
          (pure (if x.1 < 64 then DR._0 else join500kDr rs.id, x.1, x.2.1, p.mask, x.2.2) : M (DR × Nat × JoinChannels × Mask × σ)) =
            .ok (dr', ch, jc', mask', s1) →
          d.bandwidth = (if ch < 64 then Bandwidth._125KHz else Bandwidth._500KHz) ∧
            dr' = (if ch < 64 then DR._0 else join500kDr rs.id) ∧ isUplinkDatarate rs.id dr'.toInt.toNat = true := by
        intro x hx
        have := Except.pure_eq_ok hx
        simp only [Prod.mk.injEq] at this
        obtain ⟨e1, e2, _, _, _⟩ := this
        subst e2
        subst e1
        refine ⟨?_, rfl, ?_⟩
        rotate_left
        · have := joinDr_uplink rs.id hfx
          split
          · exact this.1
          · exact this.2
        obtain ⟨⟨d0, hd0, hb0⟩, ⟨d5, hd5, hb5⟩⟩ := joinDr_bw rs.id hfx
        split
        · rename_i hlt
          simp only [hlt, if_true] at hg
          rw [hd0] at hg; cases hg; exact hb0
        · rename_i hlt
          simp only [hlt, if_false] at hg
          rw [hd5] at hg; cases hg; exact hb5
      cases frame with
      | join =>
        simp only at hfirst
        obtain ⟨x, _, hx⟩ := Except.bind_eq_ok hfirst
        exact ⟨(hjoin x hx).1, fun _ => (hjoin x hx).2.1, fun e => (by cases e), fun _ => (hjoin x hx).2.2⟩
      | data =>
        simp only at hfirst
        obtain ⟨⟨biased, jc0, s0⟩, hb, hf0⟩ := Except.bind_eq_ok hfirst
        clear hfirst
        have hpre : jcWF jc0 = true ∧ ∀ ch0, biased = some ch0 → p.mask.isEnabled ch0 = .ok true := by
          by_cases hbias : p.jc.hasBiasAndNotExhausted = true
          · simp only [hbias, if_true] at hb
            obtain ⟨⟨c0, j0, t0⟩, hgn, hb1⟩ := Except.bind_eq_ok hb
            obtain ⟨en, hen, hb2⟩ := Except.bind_eq_ok hb1
            have := Except.pure_eq_ok hb2
            simp only [Prod.mk.injEq] at this
            obtain ⟨e1, e2, _⟩ := this
            subst e2
            refine ⟨((getNextChannel_safe g p.jc s hjc).elim hgn).2, fun ch0 e0 => ?_⟩
            rw [← e1] at e0
            cases en
            · simp at e0
            · simp only [if_true, Option.some.injEq] at e0; subst e0; exact hen
          · simp only [hbias, Bool.false_eq_true, if_false] at hb
            have := Except.pure_eq_ok hb
            simp only [Prod.mk.injEq] at this
            obtain ⟨e1, e2, _⟩ := this
            subst e1; subst e2
            exact ⟨hjc, fun ch0 e0 => by cases e0⟩
        cases biased with
        | some ch0 =>
          simp only at hf0
          have hj := hjoin (ch0, jc0, s0) hf0
          have := Except.pure_eq_ok hf0
          simp only [Prod.mk.injEq] at this
          obtain ⟨_, e2, _, e4, _⟩ := this
          refine ⟨hj.1, (fun e => by cases e), fun _ => ?_, fun _ => hj.2.2⟩
          rw [← e2, ← e4]; exact hpre.2 ch0 rfl
        | none =>
          simp only at hf0
          obtain ⟨o0, hidx0, hf1⟩ := Except.bind_eq_ok hf0
          clear hf0
          obtain ⟨d0, hd0, hf2⟩ := Except.bind_eq_ok hf1
          clear hf1
          have := unwrap_ok hd0
          subst this
          clear hd0
          have hg0 := getDatarate_of_index hidx0
          clear hidx0
          obtain ⟨hfd1, hfd2⟩ := firstDataChannel_wf g jc0 s0 hpre.1
          generalize JoinChannels.firstDataChannel g jc0 s0 = fd at hfd1 hfd2 hf2
          obtain ⟨pref, jcf, sf⟩ := fd
          simp only at hfd1 hfd2 hf2
          obtain ⟨usePref, hup, hf3⟩ := Except.bind_eq_ok hf2
          clear hf2
          refine ⟨?_, (fun e => by cases e), fun _ => ?_, ?_⟩
          all_goals
            split at hf3
            · rename_i chp
              have := Except.pure_eq_ok hf3
              simp only [Prod.mk.injEq] at this
              obtain ⟨e1, e2, _, e4, _⟩ := this
              subst e1; subst e2; subst e4
              simp only at hup
              obtain ⟨en, hen, hup2⟩ := Except.bind_eq_ok hup
              have hup' := Except.pure_eq_ok hup2
              simp only [Bool.and_eq_true, beq_iff_eq] at hup'
              obtain ⟨hen', hbw⟩ := hup'
              subst hen'
              have hlt := hfd2 chp rfl
              rw [hg0] at hg; cases hg
              first
                | (simp only [hlt, if_true]; exact hbw)
                | exact hen
                | exact fun hu => hu
            · split at hf3
              · rename_i hbw
                obtain ⟨any500, _, hf4⟩ := Except.bind_eq_ok hf3
                obtain ⟨mk, _, hf5⟩ := Except.bind_eq_ok hf4
                obtain ⟨⟨c1, s2⟩, hloop, hf6⟩ := Except.bind_eq_ok hf5
                have := Except.pure_eq_ok hf6
                simp only [Prod.mk.injEq] at this
                obtain ⟨e1, e2, _, e4, _⟩ := this
                subst e1; subst e2; subst e4
                obtain ⟨h1, h2, h3⟩ := fixedMaskLoop_sound g mk 8 64 _ sf c1 s2 (by decide) hloop
                rw [hg0] at hg; cases hg
                have hnl : ¬ c1 < 64 := by omega
                first
                  | (simp only [hnl, if_false]; simpa using hbw)
                  | exact h3
                  | exact fun hu => hu
              · rename_i hbw
                obtain ⟨any125, _, hf4⟩ := Except.bind_eq_ok hf3
                obtain ⟨mk, _, hf5⟩ := Except.bind_eq_ok hf4
                obtain ⟨⟨c1, s2⟩, hloop, hf6⟩ := Except.bind_eq_ok hf5
                have := Except.pure_eq_ok hf6
                simp only [Prod.mk.injEq] at this
                obtain ⟨e1, e2, _, e4, _⟩ := this
                subst e1; subst e2; subst e4
                obtain ⟨h1, h2, h3⟩ := fixedMaskLoop_sound g mk 64 0 _ sf c1 s2 (by decide) hloop
                rw [hg0] at hg; cases hg
                have hl : c1 < 64 := by omega
                first
                  | exact h3
                  | exact fun hu => hu
                  | (simp only [hl, if_true]
                     rcases fixed_bw rs.id hfx _ _ hg0 with hb | hb
                     · exact hb
                     · rw [hb] at hbw; simp at hbw)
    split at hsel3
    · rename_i f f1 hf hf1
      cases Except.pure_eq_ok hsel3
      refine ⟨rfl, hg, ?_, hF.2.2.2⟩
      unfold ChannelLegal
      simp only
      have hch : ch < 72 := by
        have := (List.getElem?_eq_some_iff.mp hf).1
        rw [uplinkChannels_length] at this; exact this
      refine ⟨ch, f, hch, hf, rfl, hF.1, ?_⟩
      cases frame with
      | join => exact hF.2.1 rfl
      | data => exact hF.2.2.1 rfl
    · cases hsel3

theorem fixed_in_band_all : ∀ r ∈ [RegionId.US915, RegionId.AU915], ∀ ch ∈ List.range 72,
    (match (uplinkChannels r)[ch]? with
     | some f => frequencyValid r f.toNat
     | none => false) = true := by decide

/-- a legal channel of a well-formed plan lies inside the region's band -/
theorem legal_in_band (rs' : RegionState) (frame : FrameKind) (tx : TxChannel) (h : regionWF rs' = true)
    (hl : ChannelLegal rs' frame tx) : frequencyValid rs'.id tx.frequency = true := by
  unfold ChannelLegal at hl
  cases hp : rs'.plan with
  | dyn p =>
    simp only [hp] at hl
    obtain ⟨i, c, hc, hf, _⟩ := hl
    obtain ⟨_, _, _, hib⟩ := dynWF_iff.mp ((regionWF_dyn hp).mp h).2
    have := all_getElem? _ _ _ _ hib hc
    rw [hf]; exact this
  | fix p =>
    simp only [hp] at hl
    obtain ⟨ch, f, hch, hf, hfr, _⟩ := hl
    have hfx := ((regionWF_fix hp).mp h).1
    have hr : rs'.id ∈ [RegionId.US915, RegionId.AU915] := by
      cases hid : rs'.id <;> simp [hid, RegionId.isFixed] at hfx <;> simp
    have := fixed_in_band_all rs'.id hr ch (List.mem_range.mpr hch)
    rw [hf] at this
    rw [hfr]; exact this

/-- what is legal about one transmission, judged in the state `m'` the call left -/
structure TxLegal (m m' : MacState) (frame : FrameKind) (limit : Nat) (t : TxOut) : Prop where
  /-- the channel/data-rate pair the selection returned -/
  tx : ∃ tx : TxChannel,
    t.rf = rfOf tx.datarate tx.frequency ∧
    getDatarate m.region.id tx.dr.toInt.toNat = some tx.datarate ∧
    isUplinkDatarate m.region.id tx.dr.toInt.toNat = true ∧
    ChannelLegal m'.region frame tx ∧
    frequencyValid m.region.id tx.frequency = true
  /-- conducted power: at most the limit handed in, at most the regional EIRP less antenna gain -/
  pwLimit : t.pw ≤ limit
  pwEirp : ∃ p0, txPowerAdjust m.region.id 0 = .ok (some p0) ∧ t.pw ≤ Rt.wrap .i8 p0 - m.antennaGain

/-- **every data uplink handed to the radio is legal** (`Mac::send` in any well-formed, i.e. any
reachable, state): the frequency is in band and is that of a channel defined and enabled in the
plan the selection ended with, with the bandwidth of the channel; the data rate is one the region defines for uplinks; the conducted power
is at most the radio's maximum, at most the level the network commanded, and at most the regional
maximum EIRP less the antenna gain. -/
theorem send_legal {σ} (g : Rng σ) (m m' : MacState) (data : List Nat) (fport : Nat) (conf : Bool) (rs rs' : σ)
    (out : SendOut) (h : MacWF m) (hmp : m.maxPower ≤ 127)
    (hs : macSend g m data fport conf rs = .ok (some out, m', rs')) :
    TxLegal m m' .data m.maxPower out.tx ∧ (∀ p, m.cfg.txPower = some p → out.tx.pw ≤ p) := by
  unfold macSend at hs
  cases hst : m.st with
  | joined s =>
    simp only [hst] at hs
    obtain ⟨⟨desc, s1⟩, _, hs1⟩ := Except.bind_eq_ok hs
    clear hs
    obtain ⟨dr, hdr, hs2⟩ := Except.bind_eq_ok hs1
    clear hs1
    obtain ⟨⟨tx, region, rs1⟩, hsel, hs3⟩ := Except.bind_eq_ok hs2
    clear hs2
    obtain ⟨pw, hpw, hs4⟩ := Except.bind_eq_ok hs3
    clear hs3
    obtain ⟨⟨rx1, rx2⟩, _, hs5⟩ := Except.bind_eq_ok hs4
    clear hs4
    simp only [pure, Except.pure, Except.ok.injEq, Prod.mk.injEq, Option.some.injEq] at hs5
    obtain ⟨rfl, rfl, rfl⟩ := hs5
    have hup := (drOfNat_uplink (cfgWF_iff.mp h.cfg).1).elim hdr
    obtain ⟨hid, hg, hleg, hu⟩ := selectTxChannel_legal g m.region region dr .data rs rs1 tx h.region hsel
    obtain ⟨hrw, _⟩ := (selectTxChannel_safe g m.region dr .data rs h.region hup).elim hsel
    simp only at hrw hpw
    have hib := legal_in_band region .data tx hrw hleg
    rw [hid] at hib
    cases htp : m.cfg.txPower with
    | none =>
      simp only [htp] at hpw
      obtain ⟨hp1, p0, hp2, hp3⟩ := txPowerFor_le _ _ _ _ hmp hpw
      rw [hid] at hp2
      exact ⟨⟨⟨tx, rfl, hg, hu hup, hleg, hib⟩, hp1, ⟨p0, hp2, hp3⟩⟩, fun p hp => by cases hp⟩
    | some p =>
      simp only [htp] at hpw
      have hmin1 : min p m.maxPower ≤ m.maxPower := Nat.min_le_right _ _
      have hmin2 : min p m.maxPower ≤ p := Nat.min_le_left _ _
      obtain ⟨hp1, p0, hp2, hp3⟩ := txPowerFor_le _ _ _ _ (by omega) hpw
      rw [hid] at hp2
      refine ⟨⟨⟨tx, rfl, hg, hu hup, hleg, hib⟩, ?_, ⟨p0, hp2, hp3⟩⟩, ?_⟩
      · exact Int.le_trans hp1 (by exact_mod_cast hmin1)
      · intro p' hp'
        cases hp'
        exact Int.le_trans hp1 (by exact_mod_cast hmin2)
  | otaa o => simp [hst, pure, Except.pure] at hs
  | unjoined => simp [hst, pure, Except.pure] at hs

/-- **every join request handed to the radio is legal** (`Mac::join_otaa` in any well-formed
state): sent in band on a join channel — dynamic plans: one of the default channels; fixed plans:
one of the 72 channels with the data rate that channel mandates (DR0 on a 125 kHz channel, the
region's 500 kHz join rate on channels 64–71) — at a power within the radio's maximum and the
regional EIRP less antenna gain. -/
theorem join_legal {σ} (g : Rng σ) (m m' : MacState) (rs rs' : σ) (out : JoinOut) (h : MacWF m) (hmp : m.maxPower ≤ 127)
    (hs : macJoinOtaa g m rs = .ok (out, m', rs')) : TxLegal m m' .join m.maxPower out.tx := by
  unfold macJoinOtaa at hs
  simp only at hs
  obtain ⟨dr, hdr, hs2⟩ := Except.bind_eq_ok hs
  clear hs
  obtain ⟨⟨tx, region, rs1⟩, hsel, hs3⟩ := Except.bind_eq_ok hs2
  clear hs2
  obtain ⟨pw, hpw, hs4⟩ := Except.bind_eq_ok hs3
  clear hs3
  obtain ⟨⟨rx1, rx2⟩, _, hs5⟩ := Except.bind_eq_ok hs4
  clear hs4
  simp only [pure, Except.pure, Except.ok.injEq, Prod.mk.injEq] at hs5
  obtain ⟨rfl, rfl, rfl⟩ := hs5
  have hup := (drOfNat_uplink (cfgWF_iff.mp h.cfg).1).elim hdr
  obtain ⟨hid, hg, hleg, hu⟩ := selectTxChannel_legal g m.region region dr .join _ rs1 tx h.region hsel
  obtain ⟨hrw, _⟩ := (selectTxChannel_safe g m.region dr .join _ h.region hup).elim hsel
  simp only at hrw hpw
  obtain ⟨hp1, p0, hp2, hp3⟩ := txPowerFor_le _ _ _ _ hmp hpw
  have hib := legal_in_band region .join tx hrw hleg
  rw [hid] at hib hp2
  exact ⟨⟨tx, rfl, hg, hu hup, hleg, hib⟩, hp1, ⟨p0, hp2, hp3⟩⟩

/-- **channel selection can always terminate**: in every well-formed (= every reachable) channel-plan
state, for join and data frames, there is a draw value on which `select_tx_channel` returns at once
and leaves a well-formed plan — the accept set of every retry loop it may enter is non-empty (after
the fallback for dynamic plans and fixed masks; by the cyclic-walk invariant for the join channels).
A loop can only fail to end by the generator never offering an accepted value. -/
theorem select_accept_nonempty (rs : RegionState) (dr : DR) (frame : FrameKind) (h : regionWF rs = true)
    (hdr : isUplinkDatarate rs.id dr.toInt.toNat = true) :
    ∃ v, v < 64 ∧ ∀ {σ : Type} (s : σ),
      Tot (selectTxChannel (constGen v) rs dr frame s) (fun r => regionWF r.2.1 = true ∧ r.2.1.id = rs.id) := by
  obtain ⟨v, hv, hret⟩ := selectTxChannel_returns rs dr frame h hdr
  exact ⟨v, hv, fun {σ} s => (selectTxChannel_safe (constGen v) rs dr frame s h hdr).to_tot (hret s)⟩

/-! ## over histories -/

/-- legality of what one step handed to the radio; `m` is the state the call was made in -/
def OutLegal (r : RegionId) (maxPower : Nat) (gain : Int) : Out → Prop
  | .up o _ _ => ∃ m m1, MacWF m ∧ m.region.id = r ∧ m.maxPower = maxPower ∧ m.antennaGain = gain ∧
      TxLegal m m1 .data maxPower o.tx ∧ (∀ p, m.cfg.txPower = some p → o.tx.pw ≤ p)
  | .join o _ => ∃ m m1, MacWF m ∧ m.region.id = r ∧ m.maxPower = maxPower ∧ m.antennaGain = gain ∧
      TxLegal m m1 .join maxPower o.tx
  | _ => True

theorem step_legal {σ} (g : Rng σ) (m m' : MacState) (s s' : σ) (ev : Ev) (out : Out) (h : MacWF m) (hmp : m.maxPower ≤ 127)
    (hs : step g (m, s) ev = .ok ((m', s'), out)) : OutLegal m.region.id m.maxPower m.antennaGain out := by
  unfold step at hs
  cases ev with
  | joinAbp da nwk app =>
    simp only [pure, Except.pure, Except.ok.injEq, Prod.mk.injEq] at hs
    obtain ⟨_, rfl⟩ := hs; trivial
  | setAdr on =>
    simp only [pure, Except.pure, Except.ok.injEq, Prod.mk.injEq] at hs
    obtain ⟨_, rfl⟩ := hs; trivial
  | setDr dr =>
    simp only [pure, Except.pure, Except.ok.injEq, Prod.mk.injEq] at hs
    obtain ⟨_, rfl⟩ := hs; trivial
  | rxc v snr mp =>
    simp only at hs
    obtain ⟨rf, _, hs1⟩ := Except.bind_eq_ok hs
    obtain ⟨⟨o, m1⟩, _, hs2⟩ := Except.bind_eq_ok hs1
    simp only [pure, Except.pure, Except.ok.injEq, Prod.mk.injEq] at hs2
    obtain ⟨_, rfl⟩ := hs2; trivial
  | joinOtaa fault rx1 rx2 mp1 mp2 =>
    simp only at hs
    obtain ⟨⟨o, m1, s1⟩, hj, hs1⟩ := Except.bind_eq_ok hs
    have hl := join_legal g m m1 s s1 o h hmp hj
    have hout : ∃ r, out = .join o r := by
      cases fault with
      | some k =>
        simp only at hs1
        obtain ⟨m2, _, hs2⟩ := Except.bind_eq_ok hs1
        simp only [pure, Except.pure, Except.ok.injEq, Prod.mk.injEq] at hs2
        exact ⟨_, hs2.2.symm⟩
      | none =>
        simp only at hs1
        obtain ⟨⟨r, dl, m2⟩, _, hs2⟩ := Except.bind_eq_ok hs1
        simp only [pure, Except.pure, Except.ok.injEq, Prod.mk.injEq] at hs2
        exact ⟨_, hs2.2.symm⟩
    obtain ⟨r, rfl⟩ := hout
    exact ⟨m, m1, h, rfl, rfl, rfl, hl⟩
  | uplink data fport conf fault rx1 rx2 mp1 mp2 =>
    simp only at hs
    obtain ⟨⟨o, m1, s1⟩, hsend, hs1⟩ := Except.bind_eq_ok hs
    cases o with
    | none =>
      simp only [pure, Except.pure, Except.ok.injEq, Prod.mk.injEq] at hs1
      obtain ⟨_, rfl⟩ := hs1; trivial
    | some o =>
      have hl := send_legal g m m1 data fport conf s s1 o h hmp hsend
      have hout : ∃ r d, out = .up o r d := by
        cases fault with
        | some k =>
          simp only at hs1
          obtain ⟨m2, _, hs2⟩ := Except.bind_eq_ok hs1
          simp only [pure, Except.pure, Except.ok.injEq, Prod.mk.injEq] at hs2
          exact ⟨_, _, hs2.2.symm⟩
        | none =>
          simp only at hs1
          obtain ⟨⟨r, dl, m2⟩, _, hs2⟩ := Except.bind_eq_ok hs1
          simp only [pure, Except.pure, Except.ok.injEq, Prod.mk.injEq] at hs2
          exact ⟨_, _, hs2.2.symm⟩
      obtain ⟨r, d, rfl⟩ := hout
      exact ⟨m, m1, h, rfl, rfl, rfl, hl.1, hl.2⟩

/-- **every frame any history hands to the radio is legal**: from a well-formed state (the initial
state of any region) along every history of valid events, every uplink and every join request was
built in a well-formed state of the same board and satisfies `TxLegal` there. -/
theorem history_tx_legal {σ} (g : Rng σ) (m : MacState) (s : σ) (evs : List Ev) (ms' : MacState × σ) (outs : List Out)
    (h : MacWF m) (hmp : m.maxPower ≤ 127) (hv : ∀ ev ∈ evs, validEv m.region.id ev = true)
    (hr : run g (m, s) evs = .ok (ms', outs)) : ∀ out ∈ outs, OutLegal m.region.id m.maxPower m.antennaGain out := by
  induction evs generalizing m s outs ms' with
  | nil =>
    simp only [run, pure, Except.pure, Except.ok.injEq, Prod.mk.injEq] at hr
    obtain ⟨_, rfl⟩ := hr
    intro out ho; cases ho
  | cons ev rest ih =>
    unfold run at hr
    obtain ⟨⟨⟨m1, s1⟩, o⟩, hstep, hr1⟩ := Except.bind_eq_ok hr
    obtain ⟨⟨ms2, os⟩, hrun, hr2⟩ := Except.bind_eq_ok hr1
    simp only [pure, Except.pure, Except.ok.injEq, Prod.mk.injEq] at hr2
    obtain ⟨_, rfl⟩ := hr2
    have hk : Keeps m m1 := (step_safe g m s ev h (hv ev List.mem_cons_self)).elim hstep
    intro out ho
    simp only [List.mem_cons] at ho
    rcases ho with rfl | ho
    · exact step_legal g m m1 s s1 ev out h hmp hstep
    · have := ih m1 s1 ms2 os hk.1 (by rw [hk.2.2.2]; exact hmp)
        (fun ev' he => by rw [hk.2.1]; exact hv ev' (List.mem_cons_of_mem _ he)) hrun out ho
      rw [hk.2.1, hk.2.2.1, hk.2.2.2] at this
      exact this


/-! ### regression: the join bias no longer overrides the channel mask

Before fix 89d4f41 a data uplink sent while `has_bias_and_not_exhausted()` held ignored the channel
mask: after join (no CFList), a LinkADRReq disabling sub-band 2, re-join (no CFList: mask and bias
survive), `send` went out on a channel of the disabled sub-band (found while proving `send_legal`,
replayed on the real code, repaired).  `biasHistory` is that history; on the repaired model its last
uplink uses a channel the mask enables (as `send_legal` proves in general). -/

def lcg : Rng Nat := fun x => ((x * 1103515245 + 12345) / 65536, x * 1103515245 + 12345)

def biasJoinAccept (da : Nat) : Option (RxView × Int) :=
  some (.joinAccept { micOk := true, devAddr := da, dlSettings := 0, rxDelay := 1, cfList := none, nwkKey := 5, appKey := 6 }, 1)

/-- LinkADRReq: keep data rate and power, ChMaskCntl 0, ChMask 0x00FF: channels 8..15 off -/
def biasLinkAdr : Option (RxView × Int) :=
  some (.data { len := 20, confirmed := false, fcnt16 := 0, micFcnt := some 0, fopts := [0x03, 0xFF, 0xFF, 0x00, 0x00],
                fport := none, payload := [] }, 1)

def biasHistory : List Ev :=
  [ .joinOtaa none (biasJoinAccept 1) none 250 250,
    .uplink [1] 1 false none biasLinkAdr none 250 250,
    .joinOtaa none (biasJoinAccept 2) none 250 250,
    .uplink [2] 1 false none none none 250 250 ]

/-- US915, join bias on sub-band 2 with 3 retries, sub-band 2 masked off: the last data uplink of
`biasHistory` goes out on an enabled channel outside sub-band 2 -/
example :
    (match run lcg (MacState.init ((RegionState.init .US915).setJoinBias 2 3) 30 0, 1) biasHistory with
     | .ok ((m', _), outs) =>
       (match outs.getLast? with
        | some (.up so _ _) =>
          (List.range 72).any (fun ch => (uplinkChannels .US915)[ch]? == some (so.tx.rf.frequency : Int) &&
            (((channelMaskGet m'.region).isEnabled ch).toOption == some true) && !(8 ≤ ch && ch < 16))
        | _ => false)
     | .error _ => false) = true := by decide +kernel

/-! non-vacuity -/
example : ChanInv (RegionState.init .EU868) := init_chanInv _
example : (txPowerFor .EU868 14 2).toOption = some 14 := by decide
example : (txPowerFor .US915 30 (-3)).toOption = some 24 := by decide

example : ∀ ev ∈ biasHistory, validEv .US915 ev = true := by decide +kernel
example : MacWF (MacState.init ((RegionState.init .US915).setJoinBias 2 3) 30 0) := by decide
/-- `send_legal` / `join_legal` apply: a well-formed state in which both calls return -/
example : ((macJoinOtaa lcg (MacState.init (RegionState.init .EU868) 14 2) 1).toOption.isSome
    && (macSend lcg (macJoinAbp (MacState.init (RegionState.init .AU915) 30 0) 1 2 3) [1] 1 false 1).toOption.isSome) = true := by
  decide +kernel

/-! ## extended histories (Class C receptions inside the receive procedure, `Model/HistoryC.lean`)

What is handed to the radio by `send` / `join` does not depend on what is heard afterwards: the frame
and its `TxConfig` are built before the receive procedure starts, in a state every extended step keeps
well-formed (`stepC_safe`). -/

theorem stepC_legal {σ} (g : Rng σ) (m m' : MacState) (s s' : σ) (ev : EvC) (out : OutC) (h : MacWF m) (hmp : m.maxPower ≤ 127)
    (hs : stepC g (m, s) ev = .ok ((m', s'), out)) : OutLegal m.region.id m.maxPower m.antennaGain out.out := by
  cases ev with
  | base e => exact step_legal g m m' s s' e out.out h hmp (stepC_base g _ _ e out hs).1
  | joinC cc fault c1 rx1 c2 rx2 =>
    exact step_legal g m m' s s' _ out.out h hmp (stepC_joinC_plain g _ _ cc fault c1 rx1 c2 rx2 out hs).1
  | uplinkC cc data fport conf fault c1 rx1 c2 rx2 =>
    simp only [stepC] at hs
    obtain ⟨⟨o, m1, s1⟩, hsend, hs1⟩ := Except.bind_eq_ok hs
    cases o with
    | none =>
      simp only [pure, Except.pure, Except.ok.injEq, Prod.mk.injEq] at hs1
      obtain ⟨_, rfl⟩ := hs1; trivial
    | some o =>
      have hl := send_legal g m m1 data fport conf s s1 o h hmp hsend
      simp only at hs1
      obtain ⟨⟨fin, heard, m2⟩, _, hs2⟩ := Except.bind_eq_ok hs1
      have hout : ∃ r d, out.out = .up o r d := by
        cases fin <;> simp only [pure, Except.pure, Except.ok.injEq, Prod.mk.injEq] at hs2 <;>
          (obtain ⟨_, rfl⟩ := hs2; exact ⟨_, _, rfl⟩)
      obtain ⟨r, d, e⟩ := hout
      rw [e]
      exact ⟨m, m1, h, rfl, rfl, rfl, hl.1, hl.2⟩

/-- **every frame any EXTENDED history hands to the radio is legal** (Class C receptions inside the
receive procedure included): from a well-formed state along every extended history of valid events,
every uplink and every join request was built in a well-formed state of the same board and satisfies
`TxLegal` there. -/
theorem historyC_tx_legal {σ} (g : Rng σ) (m : MacState) (s : σ) (evs : List EvC) (ms' : MacState × σ) (outs : List OutC)
    (h : MacWF m) (hmp : m.maxPower ≤ 127) (hv : ∀ ev ∈ evs, validEvC m.region.id ev = true)
    (hr : runC g (m, s) evs = .ok (ms', outs)) : ∀ out ∈ outs, OutLegal m.region.id m.maxPower m.antennaGain out.out := by
  induction evs generalizing m s outs ms' with
  | nil =>
    simp only [runC, pure, Except.pure, Except.ok.injEq, Prod.mk.injEq] at hr
    obtain ⟨_, rfl⟩ := hr
    intro out ho; cases ho
  | cons ev rest ih =>
    unfold runC at hr
    obtain ⟨⟨⟨m1, s1⟩, o⟩, hstep, hr1⟩ := Except.bind_eq_ok hr
    obtain ⟨⟨ms2, os⟩, hrun, hr2⟩ := Except.bind_eq_ok hr1
    simp only [pure, Except.pure, Except.ok.injEq, Prod.mk.injEq] at hr2
    obtain ⟨_, rfl⟩ := hr2
    have hk : Keeps m m1 := (stepC_safe g m s ev h (hv ev List.mem_cons_self)).elim hstep
    intro out ho
    simp only [List.mem_cons] at ho
    rcases ho with rfl | ho
    · exact stepC_legal g m m1 s s1 ev out h hmp hstep
    · have := ih m1 s1 ms2 os hk.1 (by rw [hk.2.2.2]; exact hmp)
        (fun ev' he => by rw [hk.2.1]; exact hv ev' (List.mem_cons_of_mem _ he)) hrun out ho
      rw [hk.2.1, hk.2.2.1, hk.2.2.2] at this
      exact this

/-- **C09 on the async front-end, for EVERY script, both classes**: the outputs of the extended
history of a session are, call by call, what the front-end handed to the radio (`ObsRel`), and all of
them are legal -/
theorem asyncC_tx_legal {σ} (g : Rng σ) (cfg : DevCfg) (d : DevRun) (rs : σ) (h : MacWF d.m) (hmp : d.m.maxPower ≤ 127)
    (ops : List AsyncOp) (hv : ∀ op ∈ ops, op.valid d.m.region.id = true)
    (obs : List OpObs) (d' : DevRun) (rs' : σ) (hrun : asyncOps g cfg d rs ops = .ok (obs, d', rs')) :
    ∃ outs, AllRel ObsRel obs outs ∧ ∀ out ∈ outs, OutLegal d.m.region.id d.m.maxPower d.m.antennaGain out.out := by
  obtain ⟨outs, hr, hobs⟩ := asyncOps_runC g cfg d rs ops obs d' rs' hrun
  refine ⟨outs, hobs, historyC_tx_legal g d.m rs _ _ outs h hmp ?_ hr⟩
  intro ev hev
  obtain ⟨op, hop, rfl⟩ := List.mem_map.mp hev
  exact abstractOp_valid cfg _ op (hv op hop)

/-! non-vacuity: a Class C session with a frame heard between TX and RX1 -/
def demoHistoryC : List EvC :=
  [ .base (.joinAbp 7 1 2),
    .uplinkC true [1] 1 false none
      [(.data { len := 14, confirmed := true, fcnt16 := 3, micFcnt := some 3, fopts := [], fport := some 2, payload := [3] }, 5)] none [] none ]

example : ∀ ev ∈ demoHistoryC, validEvC .EU868 ev = true := by decide
example : (runC lcg (MacState.init (RegionState.init .EU868) 14 0, 1) demoHistoryC).toOption.map (fun r => r.2.length) = some 2 := by
  decide +kernel

end C09

#print axioms C09.selectTxChannel_legal
#print axioms C09.legal_in_band
#print axioms C09.send_legal
#print axioms C09.join_legal
#print axioms C09.history_tx_legal
#print axioms C09.select_accept_nonempty
#print axioms C09.dynJoinLoop_sound
#print axioms C09.dynDataLoop_sound
#print axioms C09.dynDataLoop_first
#print axioms C09.fixedMaskLoop_sound
#print axioms C09.init_chanInv
#print axioms C09.newChannel_chanInv
#print axioms C09.joinAccept_chanInv
#print axioms C09.txPowerFor_le
#print axioms C09.send_power_limit
#print axioms C09.stepC_legal
#print axioms C09.historyC_tx_legal
#print axioms C09.asyncC_tx_legal
